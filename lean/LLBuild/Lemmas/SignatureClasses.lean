/-
Helper lemmas for C09 (signature half), remaining classes: closed forms of the GENERATED recipes of
`Command`, `ClangShellCommand`, `SwiftCompilerShellCommand`, `SymlinkCommand` and `BuildNode`, and the
list-level parsing lemmas they need (a chain that starts at the default-constructed signature; a
LAST list that carries no length prefix).  Core Lean only.
-/
import LLBuild.Lemmas.Signature

namespace LLBuild.Signature
open LLBuild.Generated.Signature

/-- A chain that starts at the default-constructed signature (`CommandSignature sig;`) determines its operands. -/
theorem chain_seed_inj {l r : List HashTerm} (h : chain .seed l = chain .seed r) : l = r := by
  have := congrArg spine h
  simpa [spine_chain, spine] using this

/-- A list that is hashed LAST needs no length prefix: nothing follows it, so the remaining operands are
exactly its elements (SymlinkCommand's `inputs`, BuildNode's producers). -/
theorem strs_inj {l₁ l₂ : List Bytes} (h : l₁.map HashTerm.str = l₂.map HashTerm.str) : l₁ = l₂ :=
  (List.map_inj_right str_injective).1 h

/-- one string operand followed by more -/
theorem str_cons_inj {a b : Bytes} {r₁ r₂ : List HashTerm}
    (h : HashTerm.str a :: r₁ = HashTerm.str b :: r₂) : a = b ∧ r₁ = r₂ := by
  simpa using h

/-- `Command::getSignature()` (inherited by StaleFileRemovalCommand and SwiftGetVersionCommand) -/
theorem command_closed (d : CommandDef) (n : Nat) :
    sigTerm recipeOf d (n+1) .command = some (chain .seed [.str d.name]) := by
  simp [sigTerm, recipeOf, command, runSteps, runStep, runStmt, runComb, evalExpr, CommandDef.member, leafOf]

/-- what `ClangShellCommand::getSignature()` appends to the ExternalCommand part -/
def clangLeaves (d : CommandDef) : List HashTerm :=
  .int d.args.length :: (d.args.map .str ++ [.str d.depsPath])

theorem clang_closed (d : CommandDef) (n : Nat) :
    sigTerm recipeOf d (n+2) .clangShellCommand = some (chain (.str d.name) (extLeaves d ++ clangLeaves d)) := by
  have hs : sigTerm recipeOf d (n+2) .clangShellCommand =
      runSteps d (fun c' => sigTerm recipeOf d (n+1) c') none clangShellCommand := rfl
  rw [hs]
  simp only [clangShellCommand, runSteps, runStep, external_closed]
  simp [runStmt, runComb, evalExpr, CommandDef.member, callMethod, leafOf, Val.elems, clangLeaves, chain_append]

/-- what `SwiftCompilerShellCommand::getSignature()` appends to the ExternalCommand part -/
def swiftLeaves (d : CommandDef) : List HashTerm :=
  .str d.executable :: .str d.moduleName ::
  .int d.moduleAliases.length :: (d.moduleAliases.map .str ++
  (.str d.moduleOutputPath ::
  .int d.sourcesList.length :: (d.sourcesList.map .str ++
  (.int d.objectsList.length :: (d.objectsList.map .str ++
  (.int d.importPaths.length :: (d.importPaths.map .str ++
  (.str d.tempsPath ::
  .int d.otherArgs.length :: (d.otherArgs.map .str ++
  [.bool d.isLibrary, .bool d.enableWholeModuleOptimization, .str d.numThreads])))))))))

theorem swift_closed (d : CommandDef) (n : Nat) :
    sigTerm recipeOf d (n+2) .swiftCompilerShellCommand = some (chain (.str d.name) (extLeaves d ++ swiftLeaves d)) := by
  have hs : sigTerm recipeOf d (n+2) .swiftCompilerShellCommand =
      runSteps d (fun c' => sigTerm recipeOf d (n+1) c') none swiftCompilerShellCommand := rfl
  rw [hs]
  simp only [swiftCompilerShellCommand, runSteps, runStep, external_closed]
  simp [runStmt, runComb, evalExpr, CommandDef.member, callMethod, leafOf, Val.elems, swiftLeaves, chain_append]

/-- what `SharedLibraryShellCommand::getSignature()` appends to the ExternalCommand part -/
def sharedLibLeaves (d : CommandDef) : List HashTerm :=
  .str d.executable :: .str d.compilerStyle :: .int d.otherArgs.length :: d.otherArgs.map .str

theorem sharedLib_closed (d : CommandDef) (n : Nat) :
    sigTerm recipeOf d (n+2) .sharedLibraryShellCommand = some (chain (.str d.name) (extLeaves d ++ sharedLibLeaves d)) := by
  have hs : sigTerm recipeOf d (n+2) .sharedLibraryShellCommand =
      runSteps d (fun c' => sigTerm recipeOf d (n+1) c') none sharedLibraryShellCommand := rfl
  rw [hs]
  simp only [sharedLibraryShellCommand, runSteps, runStep, external_closed]
  simp [runStmt, runComb, evalExpr, CommandDef.member, callMethod, leafOf, Val.elems, sharedLibLeaves, chain_append]

/-- `SymlinkCommand::getSignature()` starts at `outputs[0]`: with at least one output it is defined … -/
theorem symlink_closed (d : CommandDef) (n : Nat) (o : Bytes) (os : List Bytes) (h : d.outputs = o :: os) :
    sigTerm recipeOf d (n+1) .symlinkCommand = some (chain (.str o) (.str d.contents :: d.inputs.map .str)) := by
  simp [sigTerm, recipeOf, symlinkCommand, runSteps, runStep, runStmt, runComb, evalExpr, CommandDef.member,
    callMethod, leafOf, Val.elems, h]

/-- … and without a declared output the read of `outputs[0]` is out of bounds: the model gives NO value. -/
theorem symlink_undefined (d : CommandDef) (n : Nat) (h : d.outputs = []) :
    sigTerm recipeOf d n .symlinkCommand = none := by
  cases n with
  | zero => rfl
  | succ n => simp [sigTerm, recipeOf, symlinkCommand, runSteps, runStep, evalExpr, CommandDef.member, h]

/-- `BuildNode::getSignature()` -/
theorem buildNode_closed (d : CommandDef) (n : Nat) :
    sigTerm recipeOf d (n+1) .buildNode = some (chain .seed (.int d.type :: d.producers.map .str)) := by
  simp [sigTerm, recipeOf, buildNode, runSteps, runStep, runStmt, runComb, evalExpr, CommandDef.member,
    callMethod, leafOf, Val.elems]

/-! ### a syntactic check of the recipes: every hashed list is delimited

`delimitedSteps` accepts a recipe when every range-for is either immediately preceded by a `combine` of
the SIZE of the same range (F10 repair) or is the last thing the function hashes.  It is a check on the
GENERATED data (decided in Props/C09Classes.lean for every class, and refuted for the pre-repair recipes);
the semantic statement is the per-class equivalence. -/

def Stmt.isNote : Stmt → Bool
  | .note _ => true
  | _ => false

def delimitedStmts : Option Expr → List Stmt → Bool → Bool
  | _, [], _ => true
  | prev, .note _ :: ss, tl => delimitedStmts prev ss tl
  | _, .comb ⟨.integral, .call r .size⟩ :: ss, tl => delimitedStmts (some r) ss tl
  | _, .comb _ :: ss, tl => delimitedStmts none ss tl
  | prev, .forRange r _ :: ss, tl => (prev == some r || (tl && ss.all Stmt.isNote)) && delimitedStmts none ss tl

/-- does the step feed anything to `hash_combine`? -/
def Step.hashes : Step → Bool
  | .stmt (.note _) => false
  | .stmt _ => true
  | .ifElse _ _ _ => true
  | .initDefault => true
  | .initString _ => true
  | .initBase _ => true
  | _ => false

def delimitedSteps : Option Expr → List Step → Bool
  | _, [] => true
  | prev, .stmt (.note _) :: rest => delimitedSteps prev rest
  | _, .stmt (.comb ⟨.integral, .call r .size⟩) :: rest => delimitedSteps (some r) rest
  | prev, .stmt (.forRange r _) :: rest =>
    (prev == some r || !(rest.any Step.hashes)) && delimitedSteps none rest
  | _, .ifElse _ thn els :: rest =>
    let tl := !(rest.any Step.hashes)
    delimitedStmts none thn tl && delimitedStmts none els tl && delimitedSteps none rest
  | _, _ :: rest => delimitedSteps none rest

end LLBuild.Signature
