/- Helper lemmas for C14 (LLBuild/Props/C14.lean holds the property theorems). -/
import LLBuild.Model.StalePath

namespace LLBuild.StalePath

theorem isSep_iff (c : UInt8) : isSep c = true ↔ c = 47 := by
  unfold isSep Generated.pathSeparators
  simp

theorem isSep_47 : isSep 47 = true := (isSep_iff 47).2 rfl

/-! ### set difference -/

theorem mem_insertSorted (x y : Bytes) (l : List Bytes) :
    y ∈ insertSorted x l ↔ y = x ∨ y ∈ l := by
  induction l with
  | nil => simp [insertSorted]
  | cons z zs ih =>
    unfold insertSorted
    split
    · simp
    · split
      · rename_i h; have : x = z := by simpa using h
        subst this; simp
      · simp [ih]; constructor
        · rintro (h | h | h) <;> simp [h]
        · rintro (h | h | h) <;> simp [h]

theorem mem_toSet (y : Bytes) (l : List Bytes) : y ∈ toSet l ↔ y ∈ l := by
  induction l with
  | nil => simp [toSet]
  | cons x xs ih =>
    have : toSet (x :: xs) = insertSorted x (toSet xs) := rfl
    rw [this, mem_insertSorted, ih]; simp

/-! ### the prefix predicate -/

/-- does `r` end in a separator (`b` if `r` is empty) -/
def endsSep (b : Bool) : Bytes → Bool
  | [] => b
  | x :: xs => endsSep (isSep x) xs

theorem endsSep_concat (b : Bool) (ys : Bytes) (l : UInt8) : endsSep b (ys ++ [l]) = isSep l := by
  induction ys generalizing b with
  | nil => rfl
  | cons y ys ih => simp [endsSep, ih]

theorem endsSep_false_iff (r : Bytes) : endsSep false r = true ↔ ∃ ys l, r = ys ++ [l] ∧ isSep l = true := by
  rcases List.eq_nil_or_concat r with rfl | ⟨ys, l, rfl⟩
  · simp [endsSep]
  · rw [List.concat_eq_append, endsSep_concat]; constructor
    · intro h; exact ⟨ys, l, rfl, h⟩
    · rintro ⟨ys', l', h, hl⟩
      have := List.append_inj' h rfl
      simp at this; rw [this.2]; exact hl

theorem mismatchTail_sound (b : Bool) (r p : Bytes) (hlen : r.length ≤ p.length)
    (h : mismatchTail b r p = true) :
    ∃ t, p = r ++ t ∧ (t = [] ∨ (∃ c rest, t = c :: rest ∧ isSep c = true) ∨ endsSep b r = true) := by
  induction r generalizing b p with
  | nil =>
    cases p with
    | nil => exact ⟨[], rfl, Or.inl rfl⟩
    | cons c cs =>
      simp [mismatchTail] at h
      refine ⟨c :: cs, rfl, ?_⟩
      rcases h with h | h
      · right; left; exact ⟨c, cs, rfl, h⟩
      · right; right; simpa [endsSep] using h
  | cons x xs ih =>
    cases p with
    | nil => simp at hlen
    | cons c cs =>
      simp only [mismatchTail] at h
      split at h
      · rename_i hxc
        have hxc : x = c := by simpa using hxc
        subst hxc
        have hl : xs.length ≤ cs.length := by simpa using hlen
        obtain ⟨t, hp, hrest⟩ := ih (isSep x) cs hl h
        exact ⟨t, by simp [hp], by simpa [endsSep] using hrest⟩
      · rename_i hxc
        simp only [Bool.and_eq_true] at h
        have h1 := (isSep_iff x).1 h.1
        have h2 := (isSep_iff c).1 h.2
        exact absurd (by simp [h1, h2]) hxc

theorem mismatchTail_complete (b : Bool) (r t : Bytes)
    (h : t = [] ∨ (∃ c rest, t = c :: rest ∧ isSep c = true) ∨ endsSep b r = true) :
    mismatchTail b r (r ++ t) = true := by
  induction r generalizing b with
  | nil =>
    cases t with
    | nil => simp [mismatchTail]
    | cons c cs =>
      simp only [List.nil_append, mismatchTail, Bool.or_eq_true]
      rcases h with h | ⟨c', rest, heq, hc⟩ | h
      · simp at h
      · cases heq; left; exact hc
      · right; simpa [endsSep] using h
  | cons x xs ih =>
    simp only [List.cons_append, mismatchTail, beq_self_eq_true, ↓reduceIte]
    apply ih
    simpa [endsSep] using h

theorem rootCanon_concat_sep (ys : Bytes) (l : UInt8) (hs : isSep l = true) :
    rootCanon (ys ++ [l]) = ys := by
  unfold rootCanon; simp [hs]

theorem rootCanon_of_not_endsSep (r : Bytes) (h : endsSep false r = false) : rootCanon r = r := by
  unfold rootCanon
  rcases List.eq_nil_or_concat r with rfl | ⟨ys, l, rfl⟩
  · rfl
  · rw [List.concat_eq_append] at h ⊢; rw [endsSep_concat] at h; simp [h]

theorem under_iff (r p : Bytes) :
    under r p = true ↔ ∃ t, p = rootCanon r ++ t ∧ (t = [] ∨ ∃ c rest, t = c :: rest ∧ isSep c = true) := by
  unfold under
  simp only [Bool.and_eq_true, List.isPrefixOf_iff_prefix]
  constructor
  · rintro ⟨⟨t, ht⟩, h2⟩
    refine ⟨t, ht.symm, ?_⟩
    have hd : List.drop (rootCanon r).length p = t := by rw [← ht]; simp
    rw [hd] at h2
    cases t with
    | nil => left; rfl
    | cons c rest => right; exact ⟨c, rest, rfl, by simpa using h2⟩
  · rintro ⟨t, ht, h2⟩
    refine ⟨⟨t, ht.symm⟩, ?_⟩
    have hd : List.drop (rootCanon r).length p = t := by rw [ht]; simp
    rw [hd]
    rcases h2 with h2 | ⟨c, rest, heq, hc⟩
    · simp [h2]
    · simp [heq, hc]

end LLBuild.StalePath
