/-
C03 / C04 database layer, multi-connection facts that do not depend on the contents of the tables:
* `SameCtl`: the key-id machinery (getKeyID, keyForId, encode / resolve loops, lookup, keys, set) only ever
  touches the two caches of a connection, never its state / pending snapshot / versions;
* inversion lemmas for `ensureOpen` / `withOpen`;
* `LockInv`: the lock bit and the connection states agree (a connection is inside a write transaction iff it is
  the lock holder) — preserved by EVERY step of the model, any connection, any op.
-/
import LLBuild.Lemmas.BuildDB

namespace LLBuild.BuildDB
open LLBuild.Generated

/-! ### the caches are the only thing the id machinery changes -/

/-- `cn'` is `cn` up to the two id caches -/
def SameCtl (cn cn' : Conn) : Prop :=
  cn'.client = cn.client ∧ cn'.recreate = cn.recreate ∧ cn'.state = cn.state ∧ cn'.pending = cn.pending

theorem SameCtl.rfl' (cn : Conn) : SameCtl cn cn := ⟨rfl, rfl, rfl, rfl⟩

theorem SameCtl.trans {a b c : Conn} (h1 : SameCtl a b) (h2 : SameCtl b c) : SameCtl a c :=
  ⟨h2.1.trans h1.1, h2.2.1.trans h1.2.1, h2.2.2.1.trans h1.2.2.1, h2.2.2.2.trans h1.2.2.2⟩

theorem SameCtl_cache (cn : Conn) (id : Nat) (k : Bytes) : SameCtl cn (cn.cache id k) := ⟨rfl, rfl, rfl, rfl⟩

theorem getKeyID_ctl (cn : Conn) (kn : KN) (k : Bytes) : SameCtl cn (getKeyID cn kn k).1 := by
  unfold getKeyID
  split
  · exact SameCtl.rfl' cn
  · simp only
    split
    · exact SameCtl_cache _ _ _
    · exact SameCtl.rfl' cn

theorem encodeDeps_ctl : ∀ (deps : List Dep) (cn : Conn) (kn : KN), SameCtl cn (encodeDeps cn kn deps).1 := by
  intro deps
  induction deps with
  | nil => intro cn kn; exact SameCtl.rfl' cn
  | cons d ds ih =>
    intro cn kn
    simp only [encodeDeps]
    exact (getKeyID_ctl cn kn d.key).trans (ih _ _)

theorem applySet_ctl (cn : Conn) (s : Snapshot) (k : Bytes) (r : Result) : SameCtl cn (applySet cn s k r).1 := by
  simp only [applySet]
  exact (getKeyID_ctl cn s.keyNames k).trans (encodeDeps_ctl _ _ _)

theorem keyForId_ctl (cn : Conn) (kn : KN) (id : Nat) : SameCtl cn (keyForId cn kn id).1 := by
  unfold keyForId
  split
  · exact SameCtl.rfl' cn
  · split
    · exact SameCtl.rfl' cn
    · exact SameCtl_cache _ _ _

theorem resolveDeps_ctl (dec : SQLiteDB.DepDec) (kn : KN) : ∀ (raws : List Nat) (cn : Conn),
    SameCtl cn (resolveDeps dec cn kn raws).1 := by
  intro raws
  induction raws with
  | nil => intro cn; exact SameCtl.rfl' cn
  | cons raw raws ih =>
    intro cn
    have h1 := keyForId_ctl cn kn (decodeDep dec raw).1
    simp only [resolveDeps]
    split
    · rename_i cn1 hk
      rw [hk] at h1; exact h1
    · rename_i cn1 k hk
      rw [hk] at h1
      have h2 := ih cn1
      split
      · rename_i cn2 ds hr; rw [hr] at h2; exact h1.trans h2
      · rename_i cn2 e hr; rw [hr] at h2; exact h1.trans h2

theorem decodeRow_ctl (dec : SQLiteDB.DepDec) (cn : Conn) (kn : KN) (row : Row) : SameCtl cn (decodeRow dec cn kn row).1 := by
  unfold decodeRow
  split
  · exact SameCtl.rfl' cn
  · rename_i raws _
    have h := resolveDeps_ctl dec kn raws cn
    split
    · rename_i cn1 ds hr; rw [hr] at h; exact h
    · rename_i cn1 e hr; rw [hr] at h; exact h

theorem findRow_ctl {cn : Conn} {s : Snapshot} {k : Bytes} {id : Nat} {row : Row} {cn1 : Conn}
    (h : findRow cn s k = some (id, row, cn1)) : SameCtl cn cn1 := by
  unfold findRow at h
  split at h
  · simp only [Option.map_eq_some_iff] at h
    obtain ⟨row', _, h⟩ := h
    injection h with _ h
    injection h with _ h
    rw [← h]; exact SameCtl.rfl' cn
  · split at h
    · cases h
    · simp only [Option.map_eq_some_iff] at h
      obtain ⟨row', _, h⟩ := h
      injection h with _ h
      injection h with _ h
      rw [← h]; exact SameCtl_cache _ _ _

theorem applyLookup_ctl (cn : Conn) (s : Snapshot) (k : Bytes) : SameCtl cn (applyLookup cn s k).1 := by
  unfold applyLookup
  split
  · exact SameCtl.rfl' cn
  · rename_i id row cn1 hf
    have h1 := findRow_ctl hf
    have h2 := decodeRow_ctl SQLiteDB.depDecLookup cn1 s.keyNames row
    split
    · rename_i cn2 r hd; rw [hd] at h2; exact h1.trans h2
    · rename_i cn2 e hd; rw [hd] at h2; exact h1.trans h2

theorem applyKeys_ctl (kn : KN) : ∀ (rows : List (Nat × Row)) (cn : Conn), SameCtl cn (applyKeys kn cn rows).1 := by
  intro rows
  induction rows with
  | nil => intro cn; exact SameCtl.rfl' cn
  | cons hd rest ih =>
    intro cn
    obtain ⟨id, row⟩ := hd
    simp only [applyKeys]
    split
    · exact ih cn
    · rename_i v hv
      have h1 : SameCtl cn (cn.cache id v.toText) := SameCtl_cache _ _ _
      have h2 := decodeRow_ctl SQLiteDB.depDecKeys (cn.cache id v.toText) kn row
      split
      · rename_i cn1 e hd; rw [hd] at h2; exact h1.trans h2
      · rename_i cn1 r hd
        rw [hd] at h2
        have h3 := ih cn1
        split
        · rename_i cn2 l hk; rw [hk] at h3; exact (h1.trans h2).trans h3
        · rename_i cn2 e hk; rw [hk] at h3; exact (h1.trans h2).trans h3

theorem Conn.closed_state (cn : Conn) : cn.closed.state = .closed := by
  unfold Conn.closed; split <;> rfl

/-! ### inversion of `ensureOpen` / `withOpen` -/

theorem blocked_false_iff {w : World} {c : Nat} : blocked w c = false ↔ (w.lock = none ∨ w.lock = some c) := by
  unfold blocked
  cases w.lock with
  | none => simp
  | some o =>
    simp only [bne_eq_false_iff_eq, reduceCtorEq, Option.some.injEq, false_or]

/-- the three ways `ensureOpen` succeeds -/
theorem ensureOpen_ok_cases {w : World} {c : Nat} {cn : Conn} {w1 : World} {cn1 : Conn}
    (h : ensureOpen w c cn = .ok (w1, cn1)) :
    blocked w c = false ∧
    ((cn.state ≠ .closed ∧ w1 = w ∧ cn1 = cn) ∨
     (cn.state = .closed ∧ gateOK w.committed cn.client = true ∧ w1 = w ∧ cn1 = { cn with state := .opened }) ∨
     (cn.state = .closed ∧ gateOK w.committed cn.client = false ∧ cn.recreate = true ∧
        w1 = { w with committed := .fresh cn.client, conns := forgetOpen w.conns } ∧ cn1 = { cn with state := .opened })) := by
  unfold ensureOpen at h
  by_cases hb : blocked w c = true
  · simp [hb] at h
  · have hb' : blocked w c = false := by simpa using hb
    refine ⟨hb', ?_⟩
    simp only [hb'] at h
    cases hst : cn.state with
    | closed =>
      simp only [hst] at h
      by_cases hg : gateOK w.committed cn.client = true
      · simp only [hg, ↓reduceIte] at h
        injection h with h
        injection h with h1 h2
        exact Or.inr (Or.inl ⟨rfl, hg, h1.symm, h2.symm⟩)
      · have hg' : gateOK w.committed cn.client = false := by simpa using hg
        simp only [hg'] at h
        by_cases hr : cn.recreate = true
        · have hnr : (!cn.recreate) = false := by simp [hr]
          simp only [hnr, Bool.false_eq_true, ↓reduceIte] at h
          injection h with h
          injection h with h1 h2
          exact Or.inr (Or.inr ⟨rfl, hg', hr, h1.symm, h2.symm⟩)
        · have hr' : cn.recreate = false := by simpa using hr
          simp [hr'] at h
    | opened =>
      simp only [hst] at h
      injection h with h
      injection h with h1 h2
      exact Or.inl ⟨by simp, h1.symm, h2.symm⟩
    | inTxn =>
      simp only [hst] at h
      injection h with h
      injection h with h1 h2
      exact Or.inl ⟨by simp, h1.symm, h2.symm⟩

/-- the failures of `ensureOpen` leave no trace -/
theorem ensureOpen_err_cases {w : World} {c : Nat} {cn : Conn} {e : Err} (h : ensureOpen w c cn = .error e) :
    e = .busy ∨ e = .version := by
  unfold ensureOpen at h
  by_cases hb : blocked w c = true
  · simp only [hb, ↓reduceIte] at h
    injection h with h; exact Or.inl h.symm
  · have hb' : blocked w c = false := by simpa using hb
    simp only [hb'] at h
    cases hst : cn.state with
    | closed =>
      simp only [hst] at h
      by_cases hg : gateOK w.committed cn.client = true
      · simp only [hg, ↓reduceIte] at h; cases h
      · have hg' : gateOK w.committed cn.client = false := by simpa using hg
        simp only [hg'] at h
        by_cases hr : (!cn.recreate) = true
        · simp only [hr, ↓reduceIte] at h
          injection h with h; exact Or.inr h.symm
        · have hr' : (!cn.recreate) = false := by simpa using hr
          simp only [hr', Bool.false_eq_true, ↓reduceIte] at h
          cases h
    | opened => simp [hst] at h
    | inTxn => simp [hst] at h

/-! ### the lock invariant -/

/-- The lock bit and the connection states agree: whoever is inside a write transaction is the lock holder, and the
lock holder is inside a write transaction. -/
structure LockInv (w : World) : Prop where
  holder : ∀ c cn, w.conns c = some cn → cn.state = .inTxn → w.lock = some c
  held : ∀ c, w.lock = some c → ∃ cn, w.conns c = some cn ∧ cn.state = .inTxn

theorem LockInv_init : LockInv World.init :=
  ⟨by intro c cn h; simp [World.init] at h, by intro c h; simp [World.init] at h⟩

theorem LockInv_committed {w : World} (h : LockInv w) (s : Snapshot) : LockInv { w with committed := s } :=
  ⟨h.holder, h.held⟩

theorem LockInv_setConn {w : World} {c : Nat} {cn : Conn} (h : LockInv w) (hiff : cn.state = .inTxn ↔ w.lock = some c) :
    LockInv (setConn w c cn) := by
  constructor
  · intro c' cn' hc hst
    simp only [setConn] at hc ⊢
    by_cases hcc : c' = c
    · subst hcc
      simp at hc
      subst hc
      exact hiff.1 hst
    · simp only [hcc, ↓reduceIte] at hc
      exact h.holder c' cn' hc hst
  · intro c' hl
    simp only [setConn] at hl ⊢
    by_cases hcc : c' = c
    · subst hcc
      exact ⟨cn, by simp, hiff.2 hl⟩
    · simp only [hcc, ↓reduceIte]
      exact h.held c' hl

theorem LockInv_dropConn {w : World} (h : LockInv w) (c : Nat) :
    LockInv (dropConn w c) ∧ (dropConn w c).lock ≠ some c ∧ (dropConn w c).conns c = none ∧
    (dropConn w c).committed = w.committed := by
  unfold dropConn delConn
  by_cases hl : w.lock = some c
  · simp only [hl, ↓reduceIte]
    refine ⟨⟨?_, by simp⟩, by simp, by simp, trivial⟩
    intro c' cn' hc hst
    by_cases hcc : c' = c
    · simp [hcc] at hc
    · simp only [hcc, ↓reduceIte] at hc
      have := h.holder c' cn' hc hst
      rw [hl] at this
      injection this with this
      exact absurd this.symm hcc
  · simp only [hl, ↓reduceIte]
    refine ⟨⟨?_, ?_⟩, hl, by simp, trivial⟩
    · intro c' cn' hc hst
      by_cases hcc : c' = c
      · simp [hcc] at hc
      · simp only [hcc, ↓reduceIte] at hc
        exact h.holder c' cn' hc hst
    · intro c' hl'
      simp only at hl'
      have hcc : c' ≠ c := by intro hcc; subst hcc; exact hl hl'
      simp only [hcc, ↓reduceIte]
      exact h.held c' hl'

/-- `forgetOpen` when nobody holds the lock: only connections that are not inside a transaction disappear -/
theorem LockInv_recreate {w : World} (h : LockInv w) (hl : w.lock = none) (s : Snapshot) :
    LockInv { w with committed := s, conns := forgetOpen w.conns } := by
  constructor
  · intro c cn hc hst
    simp only [forgetOpen] at hc
    cases hw : w.conns c with
    | none => simp [hw] at hc
    | some cn0 =>
      simp only [hw] at hc
      split at hc
      · injection hc with hc
        subst hc
        have := h.holder c cn0 hw hst
        rw [hl] at this; cases this
      · cases hc
  · intro c hc
    simp only at hc
    rw [hl] at hc; cases hc

/-- after a successful `ensureOpen`: the world still satisfies the lock invariant, the lock is where it was, this
connection is not blocked, and it is inside a transaction iff it holds the lock -/
theorem ensureOpen_lock {w : World} {c : Nat} {cn : Conn} {w1 : World} {cn1 : Conn} (h : LockInv w)
    (hc : w.conns c = some cn) (he : ensureOpen w c cn = .ok (w1, cn1)) :
    LockInv w1 ∧ w1.lock = w.lock ∧ (w1.lock = none ∨ w1.lock = some c) ∧ (cn1.state = .inTxn ↔ w1.lock = some c) ∧
    cn1.state ≠ .closed := by
  obtain ⟨hb, hcases⟩ := ensureOpen_ok_cases he
  have hb' := blocked_false_iff.1 hb
  have notholder : cn.state = .closed → w.lock = none := by
    intro hst
    rcases hb' with hn | hs
    · exact hn
    · obtain ⟨cn', hc', hst'⟩ := h.held c hs
      rw [hc] at hc'; injection hc' with hc'; subst hc'
      rw [hst] at hst'; cases hst'
  rcases hcases with ⟨hst, rfl, rfl⟩ | ⟨hst, _, rfl, rfl⟩ | ⟨hst, _, _, rfl, rfl⟩
  · refine ⟨h, rfl, hb', ⟨fun hs => h.holder c _ hc hs, fun hl => ?_⟩, hst⟩
    obtain ⟨cn', hc', hst'⟩ := h.held c hl
    rw [hc] at hc'; injection hc' with hc'; subst hc'; exact hst'
  · have hn := notholder hst
    refine ⟨h, rfl, hb', ⟨fun hs => by simp at hs, fun hl => ?_⟩, by simp⟩
    rw [hn] at hl; cases hl
  · have hn := notholder hst
    refine ⟨LockInv_recreate h hn _, rfl, Or.inl hn, ⟨fun hs => by simp at hs, fun hl => ?_⟩, by simp⟩
    simp only at hl
    rw [hn] at hl; cases hl

theorem LockInv_step {w : World} (h : LockInv w) (op : Op) : LockInv (step w op).1 := by
  cases op with
  | reset => exact LockInv_init
  | crash => exact ⟨by intro c cn hc; simp [step] at hc, by intro c hl; simp [step] at hl⟩
  | new c cl rc =>
    simp only [step]
    obtain ⟨h1, h2, _, _⟩ := LockInv_dropConn h c
    exact LockInv_setConn h1 ⟨fun hs => by simp [Conn.fresh] at hs, fun hl => absurd hl h2⟩
  | drop c =>
    simp only [step]
    cases hc : w.conns c with
    | none => exact h
    | some cn => exact (LockInv_dropConn h c).1
  | epoch c =>
    simp only [step, withOpen]
    cases hc : w.conns c with
    | none => exact h
    | some cn =>
      simp only
      cases he : ensureOpen w c cn with
      | error e => exact h
      | ok p =>
        obtain ⟨w1, cn1⟩ := p
        obtain ⟨h1, _, _, hiff, _⟩ := ensureOpen_lock h hc he
        exact LockInv_setConn h1 hiff
  | setiter c n =>
    simp only [step, withOpen]
    cases hc : w.conns c with
    | none => exact h
    | some cn =>
      simp only
      cases he : ensureOpen w c cn with
      | error e => exact h
      | ok p =>
        obtain ⟨w1, cn1⟩ := p
        obtain ⟨h1, _, _, hiff, _⟩ := ensureOpen_lock h hc he
        simp only [putView]
        split
        · exact LockInv_setConn h1 hiff
        · exact LockInv_setConn (LockInv_committed h1 _) hiff
  | start c =>
    simp only [step, withOpen]
    cases hc : w.conns c with
    | none => exact h
    | some cn =>
      simp only
      cases he : ensureOpen w c cn with
      | error e => exact h
      | ok p =>
        obtain ⟨w1, cn1⟩ := p
        obtain ⟨h1, _, hnb, hiff, _⟩ := ensureOpen_lock h hc he
        simp only
        split
        · exact LockInv_setConn h1 hiff
        · rename_i hst
          have hn : w1.lock = none := by
            rcases hnb with hn | hs
            · exact hn
            · exact absurd (hiff.2 hs) hst
          constructor
          · intro c' cn' hc' hst'
            simp only [setConn] at hc' ⊢
            by_cases hcc : c' = c
            · rw [hcc]
            · simp only [hcc, ↓reduceIte] at hc'
              have := h1.holder c' cn' hc' hst'
              rw [hn] at this; cases this
          · intro c' hl
            simp only [setConn] at hl ⊢
            injection hl with hl
            subst hl
            exact ⟨_, if_pos rfl, rfl⟩
  | complete c =>
    simp only [step]
    cases hc : w.conns c with
    | none => exact h
    | some cn =>
      simp only
      split
      · rename_i hst
        have hl := h.holder c cn hc hst
        constructor
        · intro c' cn' hc' hst'
          simp only [setConn] at hc'
          by_cases hcc : c' = c
          · subst hcc
            simp at hc'
            subst hc'
            rw [Conn.closed_state] at hst'; cases hst'
          · simp only [hcc, ↓reduceIte] at hc'
            have := h.holder c' cn' hc' hst'
            rw [hl] at this; injection this with this
            exact absurd this.symm hcc
        · intro c' hl'
          simp [setConn] at hl'
      · rename_i hst
        apply LockInv_setConn h
        constructor
        · intro hs; rw [Conn.closed_state] at hs; cases hs
        · intro hl
          obtain ⟨cn', hc', hst'⟩ := h.held c hl
          rw [hc] at hc'; injection hc' with hc'; subst hc'
          exact absurd hst' hst
  | set c k r =>
    simp only [step, withOpen]
    cases hc : w.conns c with
    | none => exact h
    | some cn =>
      simp only
      cases he : ensureOpen w c cn with
      | error e => exact h
      | ok p =>
        obtain ⟨w1, cn1⟩ := p
        obtain ⟨h1, _, _, hiff, _⟩ := ensureOpen_lock h hc he
        have hctl := applySet_ctl cn1 (view w1 cn1) k r
        have hiff' : (applySet cn1 (view w1 cn1) k r).1.state = .inTxn ↔ w1.lock = some c := by
          rw [hctl.2.2.1]; exact hiff
        simp only [putView]
        split
        · exact LockInv_setConn h1 hiff'
        · exact LockInv_setConn (LockInv_committed h1 _) hiff'
  | lookup c k =>
    simp only [step, withOpen]
    cases hc : w.conns c with
    | none => exact h
    | some cn =>
      simp only
      cases he : ensureOpen w c cn with
      | error e => exact h
      | ok p =>
        obtain ⟨w1, cn1⟩ := p
        obtain ⟨h1, _, _, hiff, _⟩ := ensureOpen_lock h hc he
        have hctl := applyLookup_ctl cn1 (view w1 cn1) k
        apply LockInv_setConn h1
        rw [hctl.2.2.1]; exact hiff
  | keys c =>
    simp only [step, withOpen]
    cases hc : w.conns c with
    | none => exact h
    | some cn =>
      simp only
      cases he : ensureOpen w c cn with
      | error e => exact h
      | ok p =>
        obtain ⟨w1, cn1⟩ := p
        obtain ⟨h1, _, _, hiff, _⟩ := ensureOpen_lock h hc he
        have hctl := applyKeys_ctl (view w1 cn1).keyNames (sortRows (view w1 cn1).rows) cn1
        simp only
        split
        · rename_i cn2 l hk
          rw [hk] at hctl
          apply LockInv_setConn h1
          rw [hctl.2.2.1]; exact hiff
        · rename_i cn2 e hk
          rw [hk] at hctl
          apply LockInv_setConn h1
          rw [hctl.2.2.1]; exact hiff

theorem LockInv_run : ∀ (ops : List Op) (w : World), LockInv w → LockInv (run w ops) := by
  intro ops
  induction ops with
  | nil => intro w h; exact h
  | cons op rest ih => intro w h; exact ih _ (LockInv_step h op)

end LLBuild.BuildDB
