/-
Which commands a build runs: the world in which a given command is processed (`build_at`, `build_after`), and the
minimality theorem - from a quiet world, after any edits, only the tasks of commands the edits affect through
explicit, implicit or depfile-discovered inputs (never through order-only inputs) run.
-/
import LLBuild.Lemmas.NinjaWorldQuiet

namespace LLBuild.NinjaWorld
open LLBuild.NinjaBuild LLBuild.NinjaBuild.Gen

/-! ### the world in which a given command is processed -/

theorem stepAll_append (m : Manifest) (d : List Path) (E : Nat) : ∀ (pre rest before : List Command) (w : World),
    stepAll m d E before (pre ++ rest) w =
      ((stepAll m d E (pre.reverse ++ before) rest (stepAll m d E before pre w).1).1,
       (stepAll m d E before pre w).2 ++ (stepAll m d E (pre.reverse ++ before) rest (stepAll m d E before pre w).1).2) := by
  intro pre
  induction pre with
  | nil => intro rest before w; simp [stepAll]
  | cons c pre ih =>
    intro rest before w
    simp only [List.cons_append, stepAll, ih, List.reverse_cons, List.append_assoc, List.nil_append]

/-- what the commands processed before `c` leave alone: the result of `c`, its outputs, and everything a build never
touches -/
structure Untouched (c : Command) (w w' : World) : Prop where
  cmdDb : w'.cmdDb c.name = w.cmdDb c.name
  files : ∀ o ∈ c.outs, w'.files o = w.files o
  cmdline : w'.cmdline = w.cmdline
  failing : w'.failing = w.failing
  epoch : w'.epoch = w.epoch
  srcDb : w'.srcDb = w.srcDb

theorem Untouched.refl (c : Command) (w : World) : Untouched c w w := ⟨rfl, fun _ _ => rfl, rfl, rfl, rfl, rfl⟩

theorem stepAll_untouched (m : Manifest) (d : List Path) (E : Nat) (c : Command) : ∀ (pre before : List Command) (w : World),
    (∀ q ∈ pre, q.name ≠ c.name ∧ ∀ o ∈ c.outs, o ∉ q.outs) → Untouched c w (stepAll m d E before pre w).1 := by
  intro pre
  induction pre with
  | nil => intro before w _; exact Untouched.refl c w
  | cons q pre ih =>
    intro before w h
    have hfr := stepCmd_frame m d E before q w
    have hq := h q List.mem_cons_self
    have := ih (q :: before) (stepCmd m d E before q w).1 (fun q' hq' => h q' (List.mem_cons_of_mem _ hq'))
    simp only [stepAll]
    exact ⟨this.cmdDb.trans (hfr.cmdDb c.name (Ne.symm hq.1)), fun o ho => (this.files o ho).trans (hfr.files o (hq.2 o ho)),
      this.cmdline.trans hfr.cmdline, this.failing.trans hfr.failing, this.epoch.trans hfr.epoch, this.srcDb.trans hfr.srcDb⟩

/-- the world `wi` in which command `c` is processed during a build from `w0`: the commands before it have left its
result and its outputs alone, and whatever its step logs is in the log of the build -/
theorem stepAll_at (m : Manifest) (d : List Path) (E : Nat) (w0 : World) {before rest : List Command} {c : Command}
    (hat : At m.cmds before c rest) :
    ∃ wi, wi = (stepAll m d E [] before.reverse w0).1 ∧ Untouched c w0 wi ∧
      (∀ e ∈ (stepCmd m d E before c wi).2, e ∈ (stepAll m d E [] m.cmds w0).2) ∧
      (∀ e ∈ (stepAll m d E [] before.reverse w0).2, e ∈ (stepAll m d E [] m.cmds w0).2) := by
  refine ⟨_, rfl, ?_, ?_, ?_⟩
  · apply stepAll_untouched
    intro q hq
    have hq' : q ∈ before := by simpa using hq
    refine ⟨hat.name_ne_before hq', fun o ho hoq => ?_⟩
    have := hat.cmdWF.outs_before o ho
    rw [producer_none_iff] at this
    exact this q hq' hoq
  · intro e he
    rw [hat.split, stepAll_append]
    simp only [List.reverse_reverse, List.append_nil, stepAll, List.mem_append]
    exact Or.inr (Or.inl he)
  · intro e he
    rw [hat.split, stepAll_append]
    simp only [List.mem_append]
    exact Or.inl he

/-- the log of a build only mentions commands of the manifest, each at most once: an entry for `c` is the entry of
its step -/
theorem stepAll_log_names (m : Manifest) (d : List Path) (E : Nat) : ∀ (l before : List Command) (w : World),
    ∀ e ∈ (stepAll m d E before l w).2, ∃ q ∈ l, q.name = e.1 := by
  intro l
  induction l with
  | nil => intro before w e he; simp [stepAll] at he
  | cons q l ih =>
    intro before w e he
    simp only [stepAll, List.mem_append] at he
    rcases he with he | he
    · unfold stepCmd at he
      split at he
      · simp only [List.mem_singleton] at he
        exact ⟨q, List.mem_cons_self, by rw [he]⟩
      · cases he
    · obtain ⟨q', hq', hn⟩ := ih _ _ e he
      exact ⟨q', List.mem_cons_of_mem _ hq', hn⟩

theorem stepAll_entry (m : Manifest) (d : List Path) (E : Nat) (w0 : World) {before rest : List Command} {c : Command}
    (hat : At m.cmds before c rest) {x : Did} (hx : (c.name, x) ∈ (stepAll m d E [] m.cmds w0).2) :
    (c.name, x) ∈ (stepCmd m d E before c (stepAll m d E [] before.reverse w0).1).2 := by
  rw [hat.split, stepAll_append] at hx
  simp only [List.reverse_reverse, List.append_nil, stepAll, List.mem_append] at hx
  rcases hx with hx | hx | hx
  · obtain ⟨q, hq, hn⟩ := stepAll_log_names m d E _ _ _ _ hx
    exact absurd hn (hat.name_ne_before (by simpa using hq))
  · exact hx
  · obtain ⟨q, hq, hn⟩ := stepAll_log_names m d E _ _ _ _ hx
    exact absurd hn (hat.name_ne_rest hq)


theorem started_cmdline (m : Manifest) (targets : List Path) (w : World) :
    (started m targets w).cmdline = w.cmdline ∧ (started m targets w).failing = w.failing := by
  have : ∀ (ps : List Path) (w0 : World), (refreshSrcs m.cmds (w.epoch + 1) ps w0).cmdline = w0.cmdline ∧
      (refreshSrcs m.cmds (w.epoch + 1) ps w0).failing = w0.failing := by
    intro ps
    induction ps with
    | nil => intro w0; exact ⟨rfl, rfl⟩
    | cons p ps ih =>
      intro w0
      simp only [refreshSrcs]
      split
      · have h1 := ih (refreshSrc (w.epoch + 1) p w0)
        have h2 : (refreshSrc (w.epoch + 1) p w0).cmdline = w0.cmdline ∧ (refreshSrc (w.epoch + 1) p w0).failing = w0.failing := by
          unfold refreshSrc
          cases w0.srcDb p with
          | none => exact ⟨rfl, rfl⟩
          | some r => simp only; split <;> exact ⟨rfl, rfl⟩
        exact ⟨h1.1.trans h2.1, h1.2.trans h2.2⟩
      · exact ih w0
  exact this _ _

/-- the world `wi` in which a build from `w` processes command `c`: the result of `c`, its outputs, the command lines
and the failing flags are as in `w`; what the step of `c` logs is in the log of the build -/
theorem build_at (m : Manifest) (targets : List Path) (w : World) {before rest : List Command} {c : Command}
    (hat : At m.cmds before c rest) :
    ∃ wi, wi.cmdDb c.name = w.cmdDb c.name ∧ (∀ o ∈ c.outs, wi.files o = w.files o) ∧ wi.cmdline = w.cmdline ∧
      wi.failing = w.failing ∧
      (∀ e ∈ (stepCmd m (demanded m targets) (w.epoch + 1) before c wi).2, e ∈ (buildFull m targets w).2) ∧
      (∀ x, (c.name, x) ∈ (buildFull m targets w).2 → (c.name, x) ∈ (stepCmd m (demanded m targets) (w.epoch + 1) before c wi).2) := by
  obtain ⟨wi, hwi, hun, hlog, _⟩ := stepAll_at m (demanded m targets) (w.epoch + 1) (started m targets w) hat
  have hs := started_cmdline m targets w
  refine ⟨wi, hun.cmdDb.trans (congrFun (refreshSrcs_cmdDb _ _ _ _) c.name), fun o ho => (hun.files o ho).trans (by rw [started_files]),
    hun.cmdline.trans hs.1, hun.failing.trans hs.2, fun e he => by rw [buildFull_eq]; exact hlog e he, fun x hx => ?_⟩
  rw [buildFull_eq] at hx
  rw [hwi]
  exact stepAll_entry m _ _ _ hat hx

theorem runsOf_executed {log : List (Nat × Did)} {n : Nat} (h : (n, Did.executed) ∈ log) : ⟨n, true⟩ ∈ runsOf log := by
  induction log with
  | nil => cases h
  | cons e log ih =>
    obtain ⟨n', d⟩ := e
    rcases List.mem_cons.1 h with h1 | h1
    · cases h1; simp [runsOf]
    · cases d <;> simp [runsOf, ih h1]

theorem runsOf_failed {log : List (Nat × Did)} {n : Nat} (h : (n, Did.failed) ∈ log) : ⟨n, false⟩ ∈ runsOf log := by
  induction log with
  | nil => cases h
  | cons e log ih =>
    obtain ⟨n', d⟩ := e
    rcases List.mem_cons.1 h with h1 | h1
    · cases h1; simp [runsOf]
    · cases d <;> simp [runsOf, ih h1]

theorem mem_runsOf {log : List (Nat × Did)} {n : Nat} {b : Bool} (h : ⟨n, b⟩ ∈ runsOf log) :
    (b = true ∧ (n, Did.executed) ∈ log) ∨ (b = false ∧ (n, Did.failed) ∈ log) := by
  induction log with
  | nil => simp [runsOf] at h
  | cons e log ih =>
    obtain ⟨n', d⟩ := e
    cases d <;> simp only [runsOf, List.mem_cons, CommandRun.mk.injEq] at h
    · rcases h with ⟨rfl, rfl⟩ | h
      · exact Or.inl ⟨rfl, by simp⟩
      · rcases ih h with ⟨h1, h2⟩ | ⟨h1, h2⟩
        · exact Or.inl ⟨h1, List.mem_cons_of_mem _ h2⟩
        · exact Or.inr ⟨h1, List.mem_cons_of_mem _ h2⟩
    · rcases h with ⟨rfl, rfl⟩ | h
      · exact Or.inr ⟨rfl, by simp⟩
      · rcases ih h with ⟨h1, h2⟩ | ⟨h1, h2⟩
        · exact Or.inl ⟨h1, List.mem_cons_of_mem _ h2⟩
        · exact Or.inr ⟨h1, List.mem_cons_of_mem _ h2⟩
    all_goals
      rcases ih h with ⟨h1, h2⟩ | ⟨h1, h2⟩
      · exact Or.inl ⟨h1, List.mem_cons_of_mem _ h2⟩
      · exact Or.inr ⟨h1, List.mem_cons_of_mem _ h2⟩

/-- a needed command whose task must run and cannot take the shortcut is spawned, or skipped because of an input -/
theorem step_runs {m : Manifest} {d : List Path} {E : Nat} {before : List Command} {c : Command} {wi : World}
    (hn : c.neededIn d = true) (hnt : needsTask m.cmds wi c = true) (hp : c.phony = false)
    (hs : shortcut {} (kOf wi c) (accOf m.cmds wi c) ((priorRow wi c).map (·.value)) (c.outs.map wi.info) = false) :
    (stepCmd m d E before c wi).2 = [(c.name, .skipped)] ∨
    (wi.failing c.name = true ∧ (stepCmd m d E before c wi).2 = [(c.name, .failed)]) ∨
    (wi.failing c.name = false ∧ (stepCmd m d E before c wi).2 = [(c.name, .executed)]) := by
  have hk : (kOf wi c).phony = false := hp
  simp only [stepCmd, hn, hnt, Bool.and_self, ↓reduceIte]
  cases hd : decisionOf m.cmds wi c with
  | complete v force =>
    have hd' := hd
    simp only [decisionOf, inputsAvailable_default, hk, Bool.false_eq_true, ↓reduceIte, hs] at hd'
    split at hd'
    · cases hd'
      rw [runTask_complete hd]
      exact Or.inl (by simp [didOfValue, BuildValue.skipped])
    · cases hd'
  | execute =>
    cases hf : wi.failing c.name with
    | true => rw [runTask_fail hd hf]; exact Or.inr (Or.inl ⟨rfl, rfl⟩)
    | false => rw [runTask_exec hd hf]; exact Or.inr (Or.inr ⟨rfl, rfl⟩)


/-- the commands processed after `c` leave its result and its outputs alone -/
theorem build_after (m : Manifest) (targets : List Path) (w : World) {before rest : List Command} {c : Command}
    (hat : At m.cmds before c rest) :
    Untouched c (stepCmd m (demanded m targets) (w.epoch + 1) before c
        (stepAll m (demanded m targets) (w.epoch + 1) [] before.reverse (started m targets w)).1).1
      (buildFull m targets w).1 := by
  have h1 : m.cmds = (before.reverse ++ [c]) ++ rest := by rw [hat.split]; simp
  rw [buildFull_eq]
  conv => rhs; rw [h1, stepAll_append]
  simp only
  have h2 : (stepAll m (demanded m targets) (w.epoch + 1) [] (before.reverse ++ [c]) (started m targets w)).1 =
      (stepCmd m (demanded m targets) (w.epoch + 1) before c
        (stepAll m (demanded m targets) (w.epoch + 1) [] before.reverse (started m targets w)).1).1 := by
    rw [stepAll_append]
    simp [stepAll]
  rw [h2]
  apply stepAll_untouched
  intro q hq
  refine ⟨hat.name_ne_rest hq, fun o ho hoq => ?_⟩
  have := hat.cmdWF.outs_rest o ho
  rw [producer_none_iff] at this
  exact this q hq hoq

theorem shortcut_false_of_prior {k : Cmd} {a : Acc} {prior : Option BuildValue} {outs : List FInfo} (hg : k.generator = false)
    (h : ∀ v, prior = some v → v.kind = .successfulCommand → v.hash ≠ k.hash) : shortcut {} k a prior outs = false := by
  cases hs : shortcut {} k a prior outs with
  | false => rfl
  | true =>
    obtain ⟨v, hv, hk, hh⟩ := shortcut_prior hs hg
    exact absurd hh (h v hv hk)

theorem buildFailed_of_mem {log : List (Nat × Did)} {n : Nat} (h : (n, Did.failed) ∈ log ∨ (n, Did.skipped) ∈ log) :
    buildFailed log = true := by
  simp only [buildFailed, List.any_eq_true, Bool.or_eq_true, beq_iff_eq]
  rcases h with h | h
  · exact ⟨_, h, Or.inl rfl⟩
  · exact ⟨_, h, Or.inr rfl⟩


/-! ### which tasks a build runs after a list of edits -/

theorem needsTask_congr {cs : List Command} {c : Command} {w w' : World} (hrec : DepsRec w c)
    (h1 : w'.cmdDb c.name = w.cmdDb c.name) (h5 : w'.depDb c.name = w.depDb c.name)
    (h2 : w'.cmdline c.name = w.cmdline c.name) (h3 : ∀ o ∈ c.outs, w'.files o = w.files o)
    (h4 : ∀ k ∈ depKeys c, (resOf cs w' k).map vc = (resOf cs w k).map vc) : needsTask cs w' c = needsTask cs w c := by
  rw [needsTask_static hrec, needsTask_static (hrec.congr h1 h5 h2)]
  unfold needsTaskS
  rw [h1, h2]
  cases w.cmdDb c.name with
  | none => rfl
  | some r =>
    simp only
    have hi : c.outs.map w'.info = c.outs.map w.info := List.map_congr_left (fun o ho => by simp only [World.info, h3 o ho])
    rw [hi, triggers_storedDeps, triggers_storedDeps]
    congr 1
    exact any_congr (fun k hk => rebuiltSince_congr (h4 k hk))

theorem needsTask_frame {cs : List Command} (hwf : wfFrom [] cs = true) {c q : Command} (hc : c ∈ cs) {w w' : World}
    (hf : Frame c w w') (hn : q.name ≠ c.name) (hout : ∀ o ∈ q.outs, o ∉ c.outs) (hdep : ∀ k ∈ depKeys q, k ∉ c.outs)
    (hrec : DepsRec w q) : needsTask cs w' q = needsTask cs w q :=
  needsTask_congr hrec (hf.cmdDb q.name hn) (hf.depDb q.name hn) (by rw [hf.cmdline]) (fun o ho => hf.files o (hout o ho))
    (fun k hk => by rw [hf.resOf_eq hwf hc (hdep k hk)])

/-- the path / the command an edit touches -/
def Edit.path : Edit → Option Path
  | .write p _ => some p
  | .touch p => some p
  | .writeAt p _ _ => some p
  | .delete p => some p
  | _ => none

def Edit.cmd : Edit → Option Nat
  | .setHash n _ => some n
  | _ => none

/-- the commands a list of edits can make a build run: those whose command line was edited, one of whose outputs was
touched, one of whose explicit / implicit / depfile-discovered inputs was touched, or - transitively - one of whose
such inputs is produced by an affected command.  Order-only inputs do not occur. -/
inductive Affected (m : Manifest) (es : List Edit) : Command → Prop
  | hash {c : Command} : (∃ e ∈ es, e.cmd = some c.name) → Affected m es c
  | output {c : Command} {o : Path} : o ∈ c.outs → (∃ e ∈ es, e.path = some o) → Affected m es c
  | source {c : Command} {k : Path} : k ∈ depKeys c → (∃ e ∈ es, e.path = some k) → Affected m es c
  | input {c q : Command} {k : Path} : k ∈ depKeys c → q ∈ m.cmds → k ∈ q.outs → Affected m es q → Affected m es c

theorem applyEdit_frame (w : World) (e : Edit) :
    (applyEdit w e).srcDb = w.srcDb ∧ (applyEdit w e).cmdDb = w.cmdDb ∧
    (∀ n, e.cmd ≠ some n → (applyEdit w e).cmdline n = w.cmdline n) ∧
    (∀ p, e.path ≠ some p → (applyEdit w e).files p = w.files p) := by
  cases e with
  | write p x => exact ⟨rfl, rfl, fun _ _ => rfl, fun q hq => by simp [applyEdit, upd]; intro h; subst h; simp [Edit.path] at hq⟩
  | touch p =>
    simp only [applyEdit]
    split
    · exact ⟨rfl, rfl, fun _ _ => rfl, fun q hq => by simp [upd]; intro h; subst h; simp [Edit.path] at hq⟩
    · exact ⟨rfl, rfl, fun _ _ => rfl, fun _ _ => rfl⟩
  | writeAt p x s =>
    simp only [applyEdit]
    split
    · exact ⟨rfl, rfl, fun _ _ => rfl, fun q hq => by simp [upd]; intro h; subst h; simp [Edit.path] at hq⟩
    · exact ⟨rfl, rfl, fun _ _ => rfl, fun q hq => by simp [upd]; intro h; subst h; simp [Edit.path] at hq⟩
    · exact ⟨rfl, rfl, fun _ _ => rfl, fun _ _ => rfl⟩
  | delete p => exact ⟨rfl, rfl, fun _ _ => rfl, fun q hq => by simp [applyEdit, upd]; intro h; subst h; simp [Edit.path] at hq⟩
  | setHash n x => exact ⟨rfl, rfl, fun n' hn' => by simp [applyEdit, upd]; intro h; subst h; simp [Edit.cmd] at hn', fun _ _ => rfl⟩
  | setFail n b => exact ⟨rfl, rfl, fun _ _ => rfl, fun _ _ => rfl⟩

theorem applyEdits_frame : ∀ (es : List Edit) (w : World),
    (es.foldl applyEdit w).srcDb = w.srcDb ∧ (es.foldl applyEdit w).cmdDb = w.cmdDb ∧
    (∀ n, (∀ e ∈ es, e.cmd ≠ some n) → (es.foldl applyEdit w).cmdline n = w.cmdline n) ∧
    (∀ p, (∀ e ∈ es, e.path ≠ some p) → (es.foldl applyEdit w).files p = w.files p) := by
  intro es
  induction es with
  | nil => intro w; exact ⟨rfl, rfl, fun _ _ => rfl, fun _ _ => rfl⟩
  | cons e es ih =>
    intro w
    obtain ⟨a1, a2, a3, a4⟩ := ih (applyEdit w e)
    obtain ⟨b1, b2, b3, b4⟩ := applyEdit_frame w e
    simp only [List.foldl_cons]
    exact ⟨a1.trans b1, a2.trans b2,
      fun n hn => (a3 n (fun e' he' => hn e' (List.mem_cons_of_mem _ he'))).trans (b3 n (hn e List.mem_cons_self)),
      fun p hp => (a4 p (fun e' he' => hp e' (List.mem_cons_of_mem _ he'))).trans (b4 p (hp e List.mem_cons_self))⟩

theorem applyEdits_depDb : ∀ (es : List Edit) (w : World), (es.foldl applyEdit w).depDb = w.depDb := by
  intro es
  induction es with
  | nil => intro w; rfl
  | cons e es ih =>
    intro w
    simp only [List.foldl_cons, ih]
    cases e <;> simp only [applyEdit] <;> (try rfl) <;> (split <;> rfl)

theorem refreshSrc_vc (E : Nat) (p : Path) (w : World) {q : Path} (h : SrcSettled w q) :
    ((refreshSrc E p w).srcDb q).map vc = (w.srcDb q).map vc := by
  by_cases hqp : q = p
  · subst hqp
    exact (refreshSrc_settled E q w h).srcDb q
  · rw [refreshSrc_other E p w hqp]

theorem refreshSrcs_vc (cs : List Command) (E : Nat) : ∀ (ps : List Path) (w : World) {q : Path}, SrcSettled w q →
    ((refreshSrcs cs E ps w).srcDb q).map vc = (w.srcDb q).map vc := by
  intro ps
  induction ps with
  | nil => intro w q _; rfl
  | cons p ps ih =>
    intro w q h
    simp only [refreshSrcs]
    split
    · have hs : SrcSettled (refreshSrc E p w) q := by
        by_cases hqp : q = p
        · subst hqp; exact refreshSrc_post E q w
        · exact h.of_eq (refreshSrc_other E p w hqp) (by rw [refreshSrc_files])
      rw [ih _ hs, refreshSrc_vc E p w h]
    · exact ih w h


/-- from a quiet world, after any edits, a build runs the tasks of affected commands only -/
theorem minimal_build (m : Manifest) (hwf : wfFrom [] m.cmds = true) (targets : List Path) (w : World)
    (hq : Quiet m (demanded m targets) (fun _ => True) w) (es : List Edit) :
    ∀ e ∈ (buildFull m targets (es.foldl applyEdit w)).2, ∃ c ∈ m.cmds, c.name = e.1 ∧ Affected m es c := by
  obtain ⟨f1, f2, f3, f4⟩ := applyEdits_frame es w
  -- (1) in the edited world, and (2) after the input rules have been re-validated, no unaffected needed command needs its task
  have hsrc : ∀ p, (∀ e ∈ es, e.path ≠ some p) → p ∈ demanded m targets → producer m.cmds p = none →
      SrcSettled (es.foldl applyEdit w) p := fun p hp hpd hpn =>
    (hq.srcs p hpd hpn).of_eq (by rw [f1]) (f4 p hp)
  have hrows := refreshSrcs_rows m.cmds ((es.foldl applyEdit w).epoch + 1)
    (demanded m targets ++ storedKeys m (demanded m targets) (es.foldl applyEdit w))
    { es.foldl applyEdit w with epoch := (es.foldl applyEdit w).epoch + 1 }
  have hcl := started_cmdline m targets (es.foldl applyEdit w)
  have hdb : (started m targets (es.foldl applyEdit w)).cmdDb = w.cmdDb := (refreshSrcs_cmdDb _ _ _ _).trans f2
  have hdd : (started m targets (es.foldl applyEdit w)).depDb = w.depDb := hrows.2.1.trans (applyEdits_depDb es w)
  have hrec0 : ∀ c ∈ m.cmds, ¬ Affected m es c → DepsRec (started m targets (es.foldl applyEdit w)) c := fun c hc hna =>
    (hq.deps c hc).congr (by rw [hdb]) (by rw [hdd]) (by
      rw [hcl.1]; exact f3 c.name (fun e he hcmd => hna (Affected.hash ⟨e, he, hcmd⟩)))
  have hstart : ∀ c ∈ m.cmds, c.neededIn (demanded m targets) = true → ¬ Affected m es c →
      needsTask m.cmds (started m targets (es.foldl applyEdit w)) c = false := by
    intro c hc hn hna
    rw [← hq.cmds c hc hn trivial]
    apply needsTask_congr (hq.deps c hc)
    · rw [hdb]
    · rw [hdd]
    · rw [hcl.1]
      exact f3 c.name (fun e he hcmd => hna (Affected.hash ⟨e, he, hcmd⟩))
    · intro o ho
      rw [started_files]
      exact f4 o (fun e he hpath => hna (Affected.output ho ⟨e, he, hpath⟩))
    · intro k hk
      unfold resOf
      cases hp : producer m.cmds k with
      | some q => simp only [hdb]
      | none =>
        simp only
        have hkd := demanded_closed m hwf targets hc hn k (depKeys_sub_insAll c k hk)
        have hs := hsrc k (fun e he hpath => hna (Affected.source hk ⟨e, he, hpath⟩)) hkd hp
        have : SrcSettled ({ es.foldl applyEdit w with epoch := (es.foldl applyEdit w).epoch + 1 } : World) k := hs
        rw [started, refreshSrcs_vc _ _ _ _ this]
        show ((es.foldl applyEdit w).srcDb k).map vc = _
        rw [f1]
  -- (3) the commands
  have := stepAll_induct m (demanded m targets) ((es.foldl applyEdit w).epoch + 1) hwf
    (fun _ w' log => (∀ c ∈ m.cmds, c.neededIn (demanded m targets) = true → ¬ Affected m es c → needsTask m.cmds w' c = false) ∧
      (∀ c ∈ m.cmds, ¬ Affected m es c → DepsRec w' c) ∧
      ∀ e ∈ log, ∃ c ∈ m.cmds, c.name = e.1 ∧ Affected m es c)
    (fun before c rest w' log hat hw' => by
      unfold stepCmd
      split
      · rename_i hrun
        simp only [Bool.and_eq_true] at hrun
        have haff : Affected m es c := Classical.byContradiction (fun hna => by
          have := hw'.1 c hat.mem hrun.1 hna
          rw [this] at hrun; exact absurd hrun.2 (by simp))
        have hfr := runTask_frame m before ((es.foldl applyEdit w).epoch + 1) c w'
        refine ⟨fun q hqm hqn hqa => ?_, fun q hqm hqa => ?_, fun e he => ?_⟩
        · have hne : q ≠ c := fun e => hqa (e ▸ haff)
          rw [needsTask_frame hwf hat.mem hfr (fun e => hne (name_inj hwf hat.mem hqm e))
            (fun o ho hoc => by
              have h1 := producer_of_mem hwf hqm ho
              rw [hat.producer_out hoc] at h1; cases h1; exact hne rfl)
            (fun k hk hkc => hqa (Affected.input hk hat.mem hkc haff)) (hw'.2.1 q hqm hqa)]
          exact hw'.1 q hqm hqn hqa
        · have hne : q.name ≠ c.name := fun e => hqa (name_inj hwf hat.mem hqm e ▸ haff)
          exact (hw'.2.1 q hqm hqa).congr (hfr.cmdDb _ hne) (hfr.depDb _ hne) (by rw [hfr.cmdline])
        · simp only [List.mem_append, List.mem_singleton] at he
          rcases he with he | he
          · exact hw'.2.2 e he
          · exact ⟨c, hat.mem, by rw [he], haff⟩
      · simpa using hw')
    m.cmds [] (started m targets (es.foldl applyEdit w)) [] (by simp) ⟨hstart, hrec0, fun e he => by cases he⟩
  intro e he
  rw [buildFull_eq] at he
  exact this.2.2 e (by simpa using he)

/-! ### a failing command stops its dependents -/

/-- `q` produces an explicit or implicit input of `c` -/
def Feeds (q c : Command) : Prop := ∃ k ∈ c.exp ++ c.imp, k ∈ q.outs

/-- `c` depends on `q` through explicit / implicit inputs (also through phony aliases, which are commands) -/
inductive Downstream (m : Manifest) (q : Command) : Command → Prop
  | direct {c : Command} : c ∈ m.cmds → Feeds q c → Downstream m q c
  | trans {c' c : Command} : Downstream m q c' → c ∈ m.cmds → Feeds c' c → Downstream m q c

/-- the log reports command `n` as failed or skipped -/
def BadIn (log : List (Nat × Did)) (n : Nat) : Prop := (n, Did.failed) ∈ log ∨ (n, Did.skipped) ∈ log

theorem runTask_bad_value {m : Manifest} {before : List Command} {E : Nat} {c : Command} {w : World} :
    ((runTask m before E c w).2 = .failed → ∃ r, (runTask m before E c w).1.cmdDb c.name = some r ∧ r.value = .failed) ∧
    ((runTask m before E c w).2 = .skipped → ∃ r, (runTask m before E c w).1.cmdDb c.name = some r ∧ r.value = .skipped) := by
  cases hd : decisionOf m.cmds w c with
  | complete v force =>
    rw [runTask_complete hd]
    refine ⟨fun h => ?_, fun h => ⟨_, setCmd_cmdDb_self _ _ _, ?_⟩⟩
    · simp only [didOfValue] at h; split at h <;> (try split at h) <;> cases h
    · simp only [completeCmd_value]
      rcases decision_complete_value hd with rfl | rfl
      · rfl
      · simp [didOfValue, computeResult] at h
        split at h <;> cases h
  | execute =>
    cases hf : w.failing c.name with
    | true =>
      rw [runTask_fail hd hf]
      exact ⟨(fun _ => ⟨_, setCmd_cmdDb_self _ _ _, by simp⟩), (fun h => by cases h)⟩
    | false =>
      rw [runTask_exec hd hf]
      exact ⟨(fun h => by cases h), (fun h => by cases h)⟩

/-- the value a consumer is handed for an output of a command whose stored value is Failed or Skipped -/
theorem valueOf_bad {cs : List Command} (hwf : wfFrom [] cs = true) {w : World} {q : Command} (hq : q ∈ cs) {k : Path}
    (hk : k ∈ q.outs) {r : CmdResult} (hr : w.cmdDb q.name = some r) (hv : r.value = .failed ∨ r.value = .skipped) :
    okInputKinds.contains (valueOf cs w k).kind = false := by
  have hres : resOf cs w k = outView r q.outs.length (q.outs.idxOf k) := by
    simp only [resOf, producer_of_mem hwf hq hk, hr, Option.bind_some]
  have hov : ∃ x, outView r q.outs.length (q.outs.idxOf k) = some x ∧ x.value = r.value := by
    unfold outView
    by_cases hn : (q.outs.length == 1) = true
    · simp [hn, CmdResult.toResult]
    · rcases hv with hv | hv <;> simp [hn, hv, selectValue, BuildValue.failed, BuildValue.skipped]
  obtain ⟨x, hx, hxv⟩ := hov
  have : valueOf cs w k = r.value := by simp [valueOf, hres, hx, hxv]
  rw [this]
  rcases hv with hv | hv <;> simp [hv, BuildValue.failed, BuildValue.skipped, okInputKinds]

structure FInv (m : Manifest) (d : List Path) (E : Nat) (before : List Command) (w : World) (log : List (Nat × Did)) : Prop where
  binv : BuildInv m E before w
  names : ∀ e ∈ log, ∃ q ∈ before, q.name = e.1
  bad : ∀ q ∈ before, BadIn log q.name → ∃ r, w.cmdDb q.name = some r ∧ (r.value = .failed ∨ r.value = .skipped)
  skip : ∀ c ∈ before, c.neededIn d = true → (∃ q ∈ m.cmds, BadIn log q.name ∧ Feeds q c) →
    (c.name, Did.skipped) ∈ log ∧ ∀ x, (c.name, x) ∈ log → x = .skipped

theorem FInv.step {m : Manifest} {d : List Path} {E : Nat} {before rest : List Command} {c : Command} {w : World}
    {log : List (Nat × Did)} (hat : At m.cmds before c rest) (h : FInv m d E before w log) :
    FInv m d E (c :: before) (stepCmd m d E before c w).1 (log ++ (stepCmd m d E before c w).2) := by
  have hwf := hat.wf
  have hfr := stepCmd_frame m d E before c w
  have hE := h.binv.epoch
  -- entries of the old log are not about `c`; entries of the step are
  have hold : ∀ x, (c.name, x) ∉ log := fun x hx => by
    obtain ⟨q, hq, hn⟩ := h.names _ hx
    exact hat.name_ne_before hq hn
  have hnew : ∀ e ∈ (stepCmd m d E before c w).2, e.1 = c.name := fun e he => by
    unfold stepCmd at he
    split at he
    · simp only [List.mem_singleton] at he; rw [he]
    · cases he
  have hbadold : ∀ q ∈ before, BadIn (log ++ (stepCmd m d E before c w).2) q.name → BadIn log q.name := fun q hq hb => by
    rcases hb with hb | hb <;> rw [List.mem_append] at hb
    · rcases hb with hb | hb
      · exact Or.inl hb
      · exact absurd (hnew _ hb) (hat.name_ne_before hq)
    · rcases hb with hb | hb
      · exact Or.inr hb
      · exact absurd (hnew _ hb) (hat.name_ne_before hq)
  have hfeed : ∀ {q c0 : Command}, q ∈ m.cmds → Feeds q c0 → ∀ {b r}, At m.cmds b c0 r → q ∈ b := by
    intro q c0 hq ⟨k, hk, hkq⟩ b r hatc
    rcases hatc.producer_in (p := k) (by simp only [List.mem_append] at hk ⊢; rcases hk with h1 | h1 <;> simp [h1]) with h1 | ⟨q', hq', hq'b⟩
    · rw [producer_of_mem hwf hq hkq] at h1; cases h1
    · rw [producer_of_mem hwf hq hkq] at hq'; cases hq'; exact hq'b
  refine ⟨h.binv.step hat, ?_, ?_, ?_⟩
  · intro e he
    rcases List.mem_append.1 he with he | he
    · obtain ⟨q, hq, hn⟩ := h.names e he
      exact ⟨q, List.mem_cons_of_mem _ hq, hn⟩
    · exact ⟨c, List.mem_cons_self, (hnew e he).symm⟩
  · intro q hq hb
    rcases List.mem_cons.1 hq with rfl | hq
    · have hb' : BadIn (stepCmd m d E before q w).2 q.name := by
        rcases hb with hb | hb <;> rw [List.mem_append] at hb
        · exact Or.inl (hb.resolve_left (hold _))
        · exact Or.inr (hb.resolve_left (hold _))
      unfold stepCmd at hb' ⊢
      split
      · rename_i hrun
        simp only [hrun, ↓reduceIte, BadIn, List.mem_singleton, Prod.mk.injEq, true_and] at hb'
        rcases hb' with hb' | hb'
        · obtain ⟨r, hr, hv⟩ := runTask_bad_value.1 hb'.symm
          exact ⟨r, hr, Or.inl hv⟩
        · obtain ⟨r, hr, hv⟩ := runTask_bad_value.2 hb'.symm
          exact ⟨r, hr, Or.inr hv⟩
      · rename_i hrun
        simp only [hrun, Bool.false_eq_true, ↓reduceIte, BadIn, List.not_mem_nil, or_self] at hb'
    · rw [hfr.cmdDb q.name (hat.name_ne_before hq)]
      exact h.bad q hq (hbadold q hq hb)
  · intro c0 hc0 hn hex
    rcases List.mem_cons.1 hc0 with rfl | hc0
    · -- the command just processed has an input produced by a command that failed or was skipped
      obtain ⟨q, hq, hb, hf⟩ := hex
      have hqb : q ∈ before := hfeed hq hf hat
      obtain ⟨r, hr, hv⟩ := h.bad q hqb (hbadold q hqb hb)
      obtain ⟨k, hk, hkq⟩ := hf
      have hbadv := valueOf_bad hwf hq hkq hr hv
      have hkdep : k ∈ depKeys c0 := by simp only [depKeys, List.mem_append] at hk ⊢; exact Or.inl hk
      have hnt : needsTask m.cmds w c0 = true := by
        unfold needsTask
        cases hrc : w.cmdDb c0.name with
        | none => rfl
        | some rc =>
          simp only [Bool.or_eq_true, bne_iff_ne, ne_eq]
          by_cases hsg : rc.sig = sigOf c0
          · by_cases hval : commandIsResultValid (c0.cmd (w.cmdline c0.name)) rc.value (c0.outs.map w.info) = .valid
            · right
              have hkind := ((C18_valid_iff _ _ _).1 hval).1
              rcases h.binv.inv.s c0 hat.mem rc hrc hsg hkind k hk with h1 | h1
              · rw [hbadv] at h1; cases h1
              · rw [h.binv.inv.d c0 hat.mem rc hrc hsg hkind, triggers_storedDeps, List.any_eq_true]
                exact ⟨k, hkdep, h1⟩
            · exact Or.inl (Or.inr hval)
          · exact Or.inl (Or.inl hsg)
      have hd := decision_bad_input (cs := m.cmds) (w := w) hk hbadv
      have hstep : (stepCmd m d E before c0 w).2 = [(c0.name, .skipped)] := by
        simp only [stepCmd, hn, hnt, Bool.and_self, ↓reduceIte, runTask_complete hd, didOfValue]
        simp [BuildValue.skipped]
      rw [hstep]
      refine ⟨by simp, fun x hx => ?_⟩
      rw [List.mem_append] at hx
      rcases hx with hx | hx
      · exact absurd hx (hold x)
      · simpa using hx
    · obtain ⟨q, hq, hb, hf⟩ := hex
      obtain ⟨b0, r0, hat0, hsub, _, _⟩ := hat.of_before hc0
      have hqb : q ∈ before := hsub q (hfeed hq hf hat0)
      obtain ⟨h1, h2⟩ := h.skip c0 hc0 hn ⟨q, hq, hbadold q hqb hb, hf⟩
      refine ⟨List.mem_append.2 (Or.inl h1), fun x hx => ?_⟩
      rcases List.mem_append.1 hx with hx | hx
      · exact h2 x hx
      · exact absurd (hnew _ hx) (hat.name_ne_before hc0)

/-- **a failing command stops its dependents**: in any build, every needed command that depends - through explicit or
implicit inputs, directly or not - on a command the build reports as failed or skipped is itself skipped, and is
not reported in any other way (in particular it is not executed) -/
theorem failure_stops (m : Manifest) (hwf : wfFrom [] m.cmds = true) (targets : List Path) {w : World} (hinv : WorldInv m w)
    {q : Command} (hq : q ∈ m.cmds) (hbad : BadIn (buildFull m targets w).2 q.name) {c : Command} (hd : Downstream m q c)
    (hn : c.neededIn (demanded m targets) = true) :
    (c.name, Did.skipped) ∈ (buildFull m targets w).2 ∧ ∀ x, (c.name, x) ∈ (buildFull m targets w).2 → x = .skipped := by
  have hfin := stepAll_induct m (demanded m targets) (w.epoch + 1) hwf (FInv m (demanded m targets) (w.epoch + 1))
    (fun before c rest w' log hat hw' => hw'.step hat) m.cmds [] (started m targets w) [] (by simp)
    ⟨BuildInv.started hwf hinv targets, (fun e he => by cases he), (fun q hq => by cases hq), (fun c hc => by cases hc)⟩
  simp only [List.append_nil, List.nil_append, ← buildFull_eq] at hfin
  induction hd with
  | direct hc hf => exact hfin.skip _ (by simpa using hc) hn ⟨q, hq, hbad, hf⟩
  | @trans c' c hd' hc hf ih =>
    obtain ⟨k, hk, hkc'⟩ := hf
    have hc' : c' ∈ m.cmds := by cases hd' <;> assumption
    have hkd : k ∈ demanded m targets := demanded_closed m hwf targets hc hn k (by
      simp only [insAll, List.mem_append] at hk ⊢; rcases hk with h1 | h1 <;> simp [h1])
    have := ih (needed_of_demanded hkc' hkd)
    exact hfin.skip _ (by simpa using hc) hn ⟨c', hc', Or.inr this.1, ⟨k, hk, hkc'⟩⟩

/-- the value a build leaves for a command it reports as failed or skipped is a Failed or a Skipped value -/
theorem build_bad_value (m : Manifest) (hwf : wfFrom [] m.cmds = true) (targets : List Path) {w : World} (hinv : WorldInv m w)
    {q : Command} (hq : q ∈ m.cmds) (hbad : BadIn (buildFull m targets w).2 q.name) :
    ∃ r, (buildFull m targets w).1.cmdDb q.name = some r ∧ (r.value = .failed ∨ r.value = .skipped) := by
  have hfin := stepAll_induct m (demanded m targets) (w.epoch + 1) hwf (FInv m (demanded m targets) (w.epoch + 1))
    (fun before c rest w' log hat hw' => hw'.step hat) m.cmds [] (started m targets w) [] (by simp)
    ⟨BuildInv.started hwf hinv targets, (fun e he => by cases he), (fun q hq => by cases hq), (fun c hc => by cases hc)⟩
  simp only [List.append_nil, List.nil_append, ← buildFull_eq] at hfin
  exact hfin.bad q (by simpa using hq) hbad

/-- a needed real command whose stored value is not a successful one (as a failed or skipped run leaves it), or that
has none: its task runs in the next build; unless it is a generator command (which may be declared up to date from
time stamps, soundly) it is spawned again - succeeding or failing as the command now does - or skipped because one of
its inputs failed or is missing -/
theorem retried (m : Manifest) (hwf : wfFrom [] m.cmds = true) (targets : List Path) (w : World) {c : Command} (hc : c ∈ m.cmds)
    (hp : c.phony = false) (hn : c.neededIn (demanded m targets) = true)
    (hbad : ∀ r, w.cmdDb c.name = some r → r.value.kind ≠ .successfulCommand) :
    ∃ x, (c.name, x) ∈ (buildFull m targets w).2 ∧
      (c.generator = false → x = .skipped ∨ (x = .failed ∧ w.failing c.name = true) ∨ (x = .executed ∧ w.failing c.name = false)) := by
  obtain ⟨before, rest, hat⟩ := At.of_mem hwf hc
  obtain ⟨wi, hdb, _, hcl, hfl, hlog, _⟩ := build_at m targets w hat
  have hnt : needsTask m.cmds wi c = true := by
    unfold needsTask
    rw [hdb]
    cases hr : w.cmdDb c.name with
    | none => rfl
    | some r =>
      simp only [Bool.or_eq_true, bne_iff_ne, ne_eq]
      left
      rw [C18_failure_values_never_valid _ _ _ (hbad r hr)]
      simp
  cases hg : c.generator with
  | true =>
    refine ⟨(runTask m before (w.epoch + 1) c wi).2, hlog _ (by simp [stepCmd, hn, hnt]), fun h => by cases h⟩
  | false =>
    have hs : shortcut {} (kOf wi c) (accOf m.cmds wi c) ((priorRow wi c).map (·.value)) (c.outs.map wi.info) = false := by
      apply shortcut_false_of_prior (by simpa [kOf, Command.cmd] using hg)
      intro v hv hk
      cases hpr : priorRow wi c with
      | none => rw [hpr] at hv; cases hv
      | some r =>
        rw [hpr] at hv
        simp only [Option.map_some, Option.some.injEq] at hv
        subst hv
        have hr := (priorRow_some.1 hpr).1
        rw [hdb] at hr
        exact absurd hk (hbad r hr)
    rcases step_runs (E := w.epoch + 1) (before := before) hn hnt hp hs with h1 | ⟨h1, h2⟩ | ⟨h1, h2⟩
    · exact ⟨.skipped, hlog _ (by rw [h1]; simp), fun _ => Or.inl rfl⟩
    · exact ⟨.failed, hlog _ (by rw [h2]; simp), fun _ => Or.inr (Or.inl ⟨rfl, by rw [← hfl]; exact h1⟩)⟩
    · exact ⟨.executed, hlog _ (by rw [h2]; simp), fun _ => Or.inr (Or.inr ⟨rfl, by rw [← hfl]; exact h1⟩)⟩

/-- a needed real, non-generator command whose stored result cannot be accepted and cannot be replaced by the
update-if-newer shortcut is executed by a build that reports no failure -/
theorem must_run (m : Manifest) (hwf : wfFrom [] m.cmds = true) (targets : List Path) (w : World)
    (hok : buildFailed (buildFull m targets w).2 = false) {c : Command} (hc : c ∈ m.cmds) (hp : c.phony = false)
    (hn : c.neededIn (demanded m targets) = true)
    (hinvalid : ∀ wi : World, wi.cmdDb c.name = w.cmdDb c.name → (∀ o ∈ c.outs, wi.files o = w.files o) → wi.cmdline = w.cmdline →
      needsTask m.cmds wi c = true ∧
      shortcut {} (kOf wi c) (accOf m.cmds wi c) ((priorRow wi c).map (·.value)) (c.outs.map wi.info) = false) :
    (c.name, Did.executed) ∈ (buildFull m targets w).2 := by
  obtain ⟨before, rest, hat⟩ := At.of_mem hwf hc
  obtain ⟨wi, hdb, hfiles, hcl, _, hlog, _⟩ := build_at m targets w hat
  obtain ⟨hnt, hs⟩ := hinvalid wi hdb hfiles hcl
  rcases step_runs (E := w.epoch + 1) (before := before) hn hnt hp hs with h1 | ⟨_, h2⟩ | ⟨_, h2⟩
  · have := buildFailed_of_mem (Or.inr (hlog (c.name, .skipped) (by rw [h1]; simp)))
    rw [hok] at this; cases this
  · have := buildFailed_of_mem (Or.inl (hlog (c.name, .failed) (by rw [h2]; simp)))
    rw [hok] at this; cases this
  · exact hlog _ (by rw [h2]; simp)

/-! ### the world a build leaves is quiet -/

/-- after a build that reports no failure the world is quiet ... -/
theorem quiet_after_build (m : Manifest) (hwf : wfFrom [] m.cmds = true) (targets : List Path) {w : World} (hinv : WorldInv m w)
    (hok : buildFailed (buildFull m targets w).2 = false) :
    Quiet m (demanded m targets) (fun _ => True) (buildFull m targets w).1 := by
  have hq := build_quiet m hwf targets hinv.inv0 hinv.d.depsInv hok
  exact ⟨hq.1, fun c hc hn _ => hq.2 c hc hn, DepsInv.build hwf targets hinv.inv0 hinv.d.depsInv⟩

/-- ... and after any build it is quiet for the commands that neither were reported failed / skipped nor depend on one -/
theorem quiet_after_build_good (m : Manifest) (hwf : wfFrom [] m.cmds = true) (targets : List Path) {w : World} (hinv : WorldInv m w) :
    Quiet m (demanded m targets) (GoodIn m (buildFull m targets w).2) (buildFull m targets w).1 := by
  have hq := build_quiet_cmd m hwf targets hinv.inv0 hinv.d.depsInv
  exact ⟨hq.1, fun c hc hn hg => hq.2 c hc hn (hg c (DepOn.refl c)), DepsInv.build hwf targets hinv.inv0 hinv.d.depsInv⟩

/-- in a quiet world the keys of the stored dependency lists of the needed commands are demanded keys -/
theorem Quiet.storedKeys_sub {m : Manifest} (hwf : wfFrom [] m.cmds = true) {targets : List Path} {w : World}
    (hq : Quiet m (demanded m targets) (fun _ => True) w) :
    ∀ p ∈ storedKeys m (demanded m targets) w, p ∈ demanded m targets := by
  intro p hp
  simp only [storedKeys, List.mem_flatMap] at hp
  obtain ⟨c, hc, hpc⟩ := hp
  split at hpc
  · rename_i hn
    simp only [List.mem_map] at hpc
    obtain ⟨e, he, rfl⟩ := hpc
    obtain ⟨r, hr, hsg, hv, _⟩ := needsTask_false (hq.deps c hc) (hq.cmds c hc hn trivial)
    obtain ⟨h1, h2, _⟩ := (C18_valid_iff _ _ _).1 hv
    rw [hq.deps c hc r hr hsg h1 h2] at he
    exact demanded_closed m hwf targets hc hn _ (storedDeps_keys c e he)
  · cases hpc

/-- a build from a quiet world runs nothing -/
theorem Quiet.build_nothing {m : Manifest} (hwf : wfFrom [] m.cmds = true) {targets : List Path} {w : World}
    (hq : Quiet m (demanded m targets) (fun _ => True) w) :
    (buildFull m targets w).2 = [] ∧ SameUpToBuiltAt w (buildFull m targets w).1 :=
  quiet_build m targets w
    (fun p hp hn => by
      rcases List.mem_append.1 hp with h | h
      · exact hq.srcs p h hn
      · exact hq.srcs p (hq.storedKeys_sub hwf p h) hn)
    (fun c hc hn => hq.cmds c hc hn trivial)

end LLBuild.NinjaWorld
