/-
Helper lemmas for the Ninja lexer model: a small total-correctness calculus over `Res`
(`r.sat P` = "r is `.ok a` and `P a`"), one specification per model function, and the composite
post-condition `LexPost` of one `lex` call from which the property theorems are read off.
-/
import LLBuild.Model.NinjaLexer

namespace LLBuild.NinjaLexer
open LLBuild.Generated.NinjaLexer (Kind KwEntry Guard)

namespace Res

/-- total correctness: the computation succeeds and its value satisfies `P` -/
def sat {α : Type} (r : Res α) (P : α → Prop) : Prop :=
  match r with
  | .ok a => P a
  | _ => False

@[simp] theorem sat_ok {α : Type} (a : α) (P : α → Prop) : (Res.ok a).sat P ↔ P a := Iff.rfl
@[simp] theorem sat_pure {α : Type} (a : α) (P : α → Prop) : (pure a : Res α).sat P ↔ P a := Iff.rfl
@[simp] theorem sat_oob {α : Type} (i : Nat) (P : α → Prop) : ¬ (Res.oob i : Res α).sat P := fun h => h
@[simp] theorem sat_fuel {α : Type} (P : α → Prop) : ¬ (Res.fuel : Res α).sat P := fun h => h

@[simp] theorem ok_bind {α β : Type} (a : α) (f : α → Res β) : (Res.ok a >>= f) = f a := rfl
@[simp] theorem pure_bind' {α β : Type} (a : α) (f : α → Res β) : ((pure a : Res α) >>= f) = f a := rfl
@[simp] theorem pure_eq_ok {α : Type} (a : α) : (pure a : Res α) = Res.ok a := rfl

theorem sat_bind {α β : Type} {r : Res α} {f : α → Res β} {P : α → Prop} {Q : β → Prop}
    (h : r.sat P) (hf : ∀ a, P a → (f a).sat Q) : (r >>= f).sat Q := by
  cases r with
  | ok a => exact hf a h
  | oob i => exact h.elim
  | fuel => exact h.elim

theorem sat_mono {α : Type} {r : Res α} {P Q : α → Prop} (h : r.sat P) (hpq : ∀ a, P a → Q a) : r.sat Q := by
  cases r with
  | ok a => exact hpq a h
  | oob i => exact h.elim
  | fuel => exact h.elim

theorem sat_elim {α : Type} {r : Res α} {P : α → Prop} (h : r.sat P) : ∃ a, r = .ok a ∧ P a := by
  cases r with
  | ok a => exact ⟨a, rfl, h⟩
  | oob i => exact h.elim
  | fuel => exact h.elim

theorem sat_of_eq {α : Type} {r : Res α} {P : α → Prop} {a : α} (h : r.sat P) (he : r = .ok a) : P a := by
  subst he; exact h

theorem sat_and {α : Type} {r : Res α} {P Q : α → Prop} (h1 : r.sat P) (h2 : r.sat Q) : r.sat (fun a => P a ∧ Q a) := by
  cases r with
  | ok a => exact ⟨h1, h2⟩
  | oob i => exact h1.elim
  | fuel => exact h1.elim

end Res

open Res

/-! ### Primitive reads -/

theorem rd_of_lt {buf : Bytes} {i : Nat} (h : i < buf.length) : rd buf i = .ok buf[i] := by
  simp [rd, List.getElem?_eq_getElem h]

/-- what `peekNextChar` returned describes the byte at the cursor (zero-extended), or the end -/
def PeekIs (buf : Bytes) (s : St) (c : Int) : Prop :=
  (s.pos = buf.length ∧ c = -1) ∨ (∃ b : UInt8, buf[s.pos]? = some b ∧ c = (b.toNat : Int))

theorem PeekIs.lt_of_ne {buf : Bytes} {s : St} {c : Int} (h : PeekIs buf s c) (hc : c ≠ -1) : s.pos < buf.length := by
  rcases h with ⟨_, h⟩ | ⟨b, hb, _⟩
  · exact absurd h hc
  · exact (List.getElem?_eq_some_iff.1 hb).1

theorem PeekIs.eof_iff {buf : Bytes} {s : St} {c : Int} (h : PeekIs buf s c) (_hv : s.pos ≤ buf.length) :
    c = -1 ↔ s.pos = buf.length := by
  rcases h with ⟨h1, h2⟩ | ⟨b, hb, hc⟩
  · simp [h1, h2]
  · have := (List.getElem?_eq_some_iff.1 hb).1
    constructor
    · intro h; omega
    · intro h; omega

theorem PeekIs.unique {buf : Bytes} {s s' : St} {c c' : Int} (h : PeekIs buf s c) (h' : PeekIs buf s' c')
    (hp : s.pos = s'.pos) : c = c' := by
  rcases h with ⟨h1, h2⟩ | ⟨b, hb, hc⟩ <;> rcases h' with ⟨h1', h2'⟩ | ⟨b', hb', hc'⟩
  · rw [h2, h2']
  · have := (List.getElem?_eq_some_iff.1 hb').1; omega
  · have := (List.getElem?_eq_some_iff.1 hb).1; omega
  · rw [hp, hb'] at hb
    cases hb
    rw [hc, hc']

theorem peek_sat {cfg : Cfg} (hp : cfg.peekSignExt = false) (buf : Bytes) (s : St) (hv : s.pos ≤ buf.length) :
    (peekNextChar cfg buf s).sat (PeekIs buf s) := by
  unfold peekNextChar
  split
  · rename_i h; exact Or.inl ⟨h, rfl⟩
  · rename_i h
    have hlt : s.pos < buf.length := by omega
    rw [rd_of_lt hlt]
    refine Or.inr ⟨buf[s.pos], List.getElem?_eq_getElem hlt, ?_⟩
    simp [widen, hp]

/-- `getNextChar` stays inside the buffer, advances unless at the end, and leaves the cursor alone at the end -/
def GetPost (buf : Bytes) (s : St) (r : Int × St) : Prop :=
  s.pos ≤ r.2.pos ∧ r.2.pos ≤ buf.length ∧ (s.pos < buf.length → s.pos < r.2.pos) ∧ (s.pos = buf.length → r.2 = s)

theorem get_sat (cfg : Cfg) (buf : Bytes) (s : St) (hv : s.pos ≤ buf.length) :
    (getNextChar cfg buf s).sat (GetPost buf s) := by
  unfold getNextChar
  split
  · rename_i h; simp [GetPost, h]
  · rename_i h
    have hlt : s.pos < buf.length := by omega
    rw [rd_of_lt hlt]
    simp only [Res.ok_bind]
    split
    · split
      · rename_i h1
        simp only [Res.pure_eq_ok, Res.ok_bind, Res.sat_ok, GetPost]
        omega
      · rename_i h1
        have hlt1 : s.pos + 1 < buf.length := by omega
        rw [rd_of_lt hlt1]
        simp only [Res.pure_eq_ok, Res.ok_bind, Res.sat_ok, GetPost]
        split <;> omega
    · simp only [Res.pure_eq_ok, Res.sat_ok, GetPost]
      omega

/-! ### Loops -/

/-- a scanning loop moved forward inside the buffer and stopped in front of a character satisfying `stop` -/
def LoopPost (buf : Bytes) (s : St) (stop : Int → Prop) (s' : St) : Prop :=
  s.pos ≤ s'.pos ∧ s'.pos ≤ buf.length ∧ ∃ c, PeekIs buf s' c ∧ stop c

theorem LoopPost.trans_pos {buf : Bytes} {s t : St} {stop : Int → Prop} {s' : St}
    (h : LoopPost buf t stop s') (hst : s.pos ≤ t.pos) : LoopPost buf s stop s' :=
  ⟨Nat.le_trans hst h.1, h.2.1, h.2.2⟩

theorem skipToEndOfLine_sat {cfg : Cfg} (hp : cfg.peekSignExt = false) (buf : Bytes) :
    ∀ fuel s, s.pos ≤ buf.length → buf.length - s.pos < fuel →
      (skipToEndOfLine cfg buf fuel s).sat (LoopPost buf s (fun c => c = -1 ∨ c = 10 ∨ c = 13)) := by
  intro fuel
  induction fuel with
  | zero => intro s _ h; omega
  | succ n ih =>
    intro s hv hf
    unfold skipToEndOfLine
    apply sat_bind (peek_sat hp buf s hv)
    intro c hc
    split
    · rename_i hi
      exact ⟨Nat.le_refl _, hv, c, hc, hi⟩
    · rename_i hi
      have hlt := hc.lt_of_ne (fun h => hi (Or.inl h))
      apply sat_bind (get_sat cfg buf s hv)
      intro r hr
      obtain ⟨h1, h2, h3, _⟩ := hr
      exact sat_mono (ih r.2 h2 (by have := h3 hlt; omega)) (fun s' hs' => hs'.trans_pos h1)

theorem identLoop_sat {cfg : Cfg} (hp : cfg.peekSignExt = false) (hid : isIdentifierChar cfg (-1) = false) (buf : Bytes) :
    ∀ fuel s, s.pos ≤ buf.length → buf.length - s.pos < fuel →
      (identLoop cfg buf fuel s).sat (LoopPost buf s (fun c => isIdentifierChar cfg c = false)) := by
  intro fuel
  induction fuel with
  | zero => intro s _ h; omega
  | succ n ih =>
    intro s hv hf
    unfold identLoop
    apply sat_bind (peek_sat hp buf s hv)
    intro c hc
    split
    · rename_i hi
      have hne : c ≠ -1 := by
        intro h; rw [h, hid] at hi; exact absurd hi (by simp)
      have hlt := hc.lt_of_ne hne
      apply sat_bind (get_sat cfg buf s hv)
      intro r hr
      obtain ⟨h1, h2, h3, _⟩ := hr
      exact sat_mono (ih r.2 h2 (by have := h3 hlt; omega)) (fun s' hs' => hs'.trans_pos h1)
    · rename_i hi
      exact ⟨Nat.le_refl _, hv, c, hc, by simpa using hi⟩

theorem isNonNewlineSpace_eof : isNonNewlineSpace (-1) = false := by decide

theorem spaceLoop_sat {cfg : Cfg} (hp : cfg.peekSignExt = false) (buf : Bytes) :
    ∀ fuel s, s.pos ≤ buf.length → buf.length - s.pos < fuel →
      (spaceLoop cfg buf fuel s).sat (LoopPost buf s (fun c => isNonNewlineSpace c = false)) := by
  intro fuel
  induction fuel with
  | zero => intro s _ h; omega
  | succ n ih =>
    intro s hv hf
    unfold spaceLoop
    apply sat_bind (peek_sat hp buf s hv)
    intro c hc
    split
    · rename_i hi
      have hne : c ≠ -1 := by
        intro h; rw [h, isNonNewlineSpace_eof] at hi; exact absurd hi (by simp)
      have hlt := hc.lt_of_ne hne
      apply sat_bind (get_sat cfg buf s hv)
      intro r hr
      obtain ⟨h1, h2, h3, _⟩ := hr
      exact sat_mono (ih r.2 h2 (by have := h3 hlt; omega)) (fun s' hs' => hs'.trans_pos h1)
    · rename_i hi
      exact ⟨Nat.le_refl _, hv, c, hc, by simpa using hi⟩

/-- where a path string stops -/
def PathStop (c : Int) : Prop := isspaceC c = true ∨ c = 58 ∨ c = 124 ∨ c = -1
/-- where a variable string stops -/
def VarStop (c : Int) : Prop := c = 10 ∨ c = -1 ∨ c = 13

theorem pathLoop_sat {cfg : Cfg} (hp : cfg.peekSignExt = false) (buf : Bytes) :
    ∀ fuel s, s.pos ≤ buf.length → buf.length - s.pos < fuel →
      (pathLoop cfg buf fuel s).sat (LoopPost buf s PathStop) := by
  intro fuel
  induction fuel with
  | zero => intro s _ h; omega
  | succ n ih =>
    intro s hv hf
    unfold pathLoop
    apply sat_bind (peek_sat hp buf s hv)
    intro c hc
    split
    · rename_i hi
      have hlt := hc.lt_of_ne (by omega)
      apply sat_bind (get_sat cfg buf s hv)
      intro r1 hr1
      obtain ⟨h1, h2, h3, _⟩ := hr1
      apply sat_bind (get_sat cfg buf r1.2 h2)
      intro r2 hr2
      obtain ⟨g1, g2, _, _⟩ := hr2
      have hs3 : (if r2.1 = 10 then spaceLoop cfg buf (buf.length + 1) r2.2 else pure r2.2).sat
          (fun s3 => r2.2.pos ≤ s3.pos ∧ s3.pos ≤ buf.length) := by
        split
        · exact sat_mono (spaceLoop_sat hp buf _ r2.2 g2 (by omega)) (fun s' hs' => ⟨hs'.1, hs'.2.1⟩)
        · exact ⟨Nat.le_refl _, g2⟩
      apply sat_bind hs3
      intro s3 h3'
      have := h3 hlt
      exact sat_mono (ih s3 h3'.2 (by omega)) (fun s' hs' => hs'.trans_pos (by omega))
    · split
      · rename_i hi
        exact ⟨Nat.le_refl _, hv, c, hc, hi⟩
      · rename_i hi
        have hlt := hc.lt_of_ne (fun h => hi (Or.inr (Or.inr (Or.inr h))))
        apply sat_bind (get_sat cfg buf s hv)
        intro r hr
        obtain ⟨h1, h2, h3, _⟩ := hr
        exact sat_mono (ih r.2 h2 (by have := h3 hlt; omega)) (fun s' hs' => hs'.trans_pos h1)

theorem varLoop_sat {cfg : Cfg} (hp : cfg.peekSignExt = false) (buf : Bytes) :
    ∀ fuel s, s.pos ≤ buf.length → buf.length - s.pos < fuel →
      (varLoop cfg buf fuel s).sat (LoopPost buf s VarStop) := by
  intro fuel
  induction fuel with
  | zero => intro s _ h; omega
  | succ n ih =>
    intro s hv hf
    unfold varLoop
    apply sat_bind (peek_sat hp buf s hv)
    intro c hc
    split
    · rename_i hi
      have hlt := hc.lt_of_ne (by omega)
      apply sat_bind (get_sat cfg buf s hv)
      intro r1 hr1
      obtain ⟨h1, h2, h3, _⟩ := hr1
      apply sat_bind (get_sat cfg buf r1.2 h2)
      intro r2 hr2
      obtain ⟨g1, g2, _, _⟩ := hr2
      have := h3 hlt
      exact sat_mono (ih r2.2 g2 (by omega)) (fun s' hs' => hs'.trans_pos (by omega))
    · split
      · rename_i hi
        exact ⟨Nat.le_refl _, hv, c, hc, hi⟩
      · rename_i hi
        have hlt := hc.lt_of_ne (fun h => hi (Or.inr (Or.inl h)))
        apply sat_bind (get_sat cfg buf s hv)
        intro r hr
        obtain ⟨h1, h2, h3, _⟩ := hr
        exact sat_mono (ih r.2 h2 (by have := h3 hlt; omega)) (fun s' hs' => hs'.trans_pos h1)

/-! ### The `$`-newline look-ahead (direct `bufferPos[1]`, `bufferPos[2]` reads) -/

theorem isNewlineEscape_sat {cfg : Cfg} (g1 : cfg.guardLF = .distGt 1) (g2 : cfg.guardCRLF = .distGt 2)
    (buf : Bytes) (s : St) : (isNewlineEscape cfg buf s).sat (fun _ => True) := by
  unfold isNewlineEscape
  have e1 : guardHolds (.distGt 1) buf.length s.pos = decide (buf.length - s.pos > 1) := rfl
  have e2 : guardHolds (.distGt 2) buf.length s.pos = decide (buf.length - s.pos > 2) := rfl
  rw [g1, g2, e1, e2]
  have ha : (if decide (buf.length - s.pos > 1) = true then do
      let b ← rd buf (s.pos + 1)
      pure (b == 10)
    else (pure false : Res Bool)).sat (fun _ => True) := by
    split
    · rename_i h
      have : s.pos + 1 < buf.length := by simp at h; omega
      rw [rd_of_lt this]; trivial
    · trivial
  apply sat_bind ha
  intro a _
  split
  · trivial
  · by_cases h : decide (buf.length - s.pos > 2) = true
    · rw [if_pos h]
      have h' : buf.length - s.pos > 2 := by simpa using h
      have h1 : s.pos + 1 < buf.length := by omega
      have h2 : s.pos + 2 < buf.length := by omega
      rw [rd_of_lt h1]
      simp only [Res.ok_bind]
      split
      · rw [rd_of_lt h2]; trivial
      · trivial
    · rw [if_neg h]; trivial

theorem isNonNewlineSpace_dollar : isNonNewlineSpace 36 = false := by decide

/-- after the trivia loop the local `c` is still the character at the cursor and is not a blank -/
def TriviaPost (buf : Bytes) (s : St) (r : Int × St) : Prop :=
  s.pos ≤ r.2.pos ∧ r.2.pos ≤ buf.length ∧ PeekIs buf r.2 r.1 ∧ isNonNewlineSpace r.1 = false

theorem triviaLoop_sat {cfg : Cfg} (hp : cfg.peekSignExt = false) (g1 : cfg.guardLF = .distGt 1)
    (g2 : cfg.guardCRLF = .distGt 2) (buf : Bytes) :
    ∀ fuel c s, s.pos ≤ buf.length → PeekIs buf s c → buf.length - s.pos < fuel →
      (triviaLoop cfg buf fuel c s).sat (TriviaPost buf s) := by
  intro fuel
  induction fuel with
  | zero => intro c s _ _ h; omega
  | succ n ih =>
    intro c s hv hc hf
    unfold triviaLoop
    split
    · rename_i hd
      apply sat_bind (isNewlineEscape_sat g1 g2 buf s)
      intro esc _
      split
      · have hlt := hc.lt_of_ne (by omega)
        apply sat_bind (get_sat cfg buf s hv)
        intro r1 hr1
        obtain ⟨h1, h2, h3, _⟩ := hr1
        apply sat_bind (get_sat cfg buf r1.2 h2)
        intro r2 hr2
        obtain ⟨k1, k2, _, _⟩ := hr2
        apply sat_bind (peek_sat hp buf r2.2 k2)
        intro c' hc'
        have := h3 hlt
        apply sat_mono (ih c' r2.2 k2 hc' (by omega))
        intro r hr
        exact ⟨by have := hr.1; omega, hr.2.1, hr.2.2.1, hr.2.2.2⟩
      · refine ⟨Nat.le_refl _, hv, hc, ?_⟩
        rw [hd.1]; exact isNonNewlineSpace_dollar
    · split
      · rename_i hi
        have hne : c ≠ -1 := by
          intro h; rw [h, isNonNewlineSpace_eof] at hi; exact absurd hi (by simp)
        have hlt := hc.lt_of_ne hne
        apply sat_bind (get_sat cfg buf s hv)
        intro r1 hr1
        obtain ⟨h1, h2, h3, _⟩ := hr1
        apply sat_bind (peek_sat hp buf r1.2 h2)
        intro c' hc'
        have := h3 hlt
        apply sat_mono (ih c' r1.2 h2 hc' (by omega))
        intro r hr
        exact ⟨by have := hr.1; omega, hr.2.1, hr.2.2.1, hr.2.2.2⟩
      · rename_i hi
        exact ⟨Nat.le_refl _, hv, hc, by simpa using hi⟩

/-! ### Keyword lookup -/

theorem slice_length {buf : Bytes} {start len : Nat} (h : start + len ≤ buf.length) : (slice buf start len).length = len := by
  simp [slice]; omega

/-- keyword table sanity needed for the lookup to be a whole-word comparison -/
def KwLensOK (kws : List KwEntry) : Prop :=
  ∀ e ∈ kws, e.switchLen = e.literal.length ∧ e.memcmpLen = e.literal.length

/-- result of the lookup: the kind of an entry whose literal IS the token text, or no entry has that text -/
def KwPost (buf : Bytes) (start len : Nat) (kws : List KwEntry) (k : Option Kind) : Prop :=
  match k with
  | some kd => ∃ e ∈ kws, e.kind = kd ∧ slice buf start len = e.literal
  | none => ∀ e ∈ kws, slice buf start len ≠ e.literal

theorem kwLookup_sat (buf : Bytes) (start len : Nat) (hlen : start + len ≤ buf.length) :
    ∀ kws, KwLensOK kws → (kwLookup buf start len kws).sat (KwPost buf start len kws) := by
  intro kws
  induction kws with
  | nil => intro _; simp [kwLookup, KwPost]
  | cons e rest ih =>
    intro hk
    have he := hk e (List.mem_cons_self)
    have hrest : KwLensOK rest := fun e' h' => hk e' (List.mem_cons_of_mem _ h')
    have lift : ∀ k, KwPost buf start len rest k → slice buf start len ≠ e.literal → KwPost buf start len (e :: rest) k := by
      intro k hk' hne
      cases k with
      | some kd =>
        obtain ⟨e', he', h1, h2⟩ := hk'
        exact ⟨e', List.mem_cons_of_mem _ he', h1, h2⟩
      | none =>
        intro e' he'
        rcases List.mem_cons.1 he' with h | h
        · rw [h]; exact hne
        · exact hk' e' h
    unfold kwLookup
    split
    · rename_i hl
      have hm : ¬ (start + e.memcmpLen > buf.length) := by rw [he.2, ← he.1, ← hl]; omega
      simp only [memcmpEq, hm, if_false, Res.ok_bind]
      split
      · rename_i heq
        have : slice buf start len = e.literal := by
          rw [he.2, List.take_length, ← he.1, ← hl] at heq
          simpa using heq
        exact ⟨e, List.mem_cons_self, rfl, this⟩
      · rename_i heq
        have hne : slice buf start len ≠ e.literal := by
          intro h
          apply heq
          rw [he.2, List.take_length, ← he.1, ← hl, h]
          simp
        exact sat_mono (ih hrest) (fun k hk' => lift k hk' hne)
    · rename_i hl
      have hne : slice buf start len ≠ e.literal := by
        intro h
        have := slice_length hlen
        rw [h] at this
        exact hl (by rw [he.1, this])
      exact sat_mono (ih hrest) (fun k hk' => lift k hk' hne)

/-! ### One token -/

/-- kinds that `lex` produces for identifiers and keywords, i.e. everything except the punctuation /
layout / string / unknown kinds that are produced directly -/
def isIdentKind (k : Kind) : Bool :=
  !([Kind.Indentation, .Newline, .EndOfFile, .String, .Colon, .Equals, .Comment, .PipePipe, .Pipe, .Unknown].contains k)

/-- where a `String` token stops, by mode -/
def StrStop (m : LexMode) (c : Int) : Prop :=
  if m = .variableString then VarStop c else PathStop c

/-- what holds of an identifier / keyword token -/
def IdentPost (cfg : Cfg) (buf : Bytes) (m : LexMode) (r : Token × St) : Prop :=
  (∃ c, PeekIs buf r.2 c ∧ isIdentifierChar cfg c = false) ∧
  (m ≠ .identifierSpecific →
    ∃ k, KwPost buf r.1.start r.1.len cfg.keywords k ∧ r.1.kind = k.getD cfg.fallback)

structure TokPost (cfg : Cfg) (buf : Bytes) (m : LexMode) (r : Token × St) : Prop where
  end_eq : r.1.start + r.1.len = r.2.pos
  end_le : r.2.pos ≤ buf.length
  eof : r.1.kind = .EndOfFile → r.1.start = buf.length ∧ r.1.len = 0
  progress : r.1.kind ≠ .EndOfFile → 0 < r.1.len
  str_stop : r.1.kind = .String → ∃ c, PeekIs buf r.2 c ∧ StrStop m c
  ident : isIdentKind r.1.kind = true → IdentPost cfg buf m r

/-- static facts about the extracted tables and flags under which the lexer is well behaved -/
structure CfgOK (cfg : Cfg) : Prop where
  peek : cfg.peekSignExt = false
  gLF : cfg.guardLF = .distGt 1
  gCRLF : cfg.guardCRLF = .distGt 2
  identEOF : isIdentifierChar cfg (-1) = false
  kwLens : KwLensOK cfg.keywords
  kwKinds : ∀ e ∈ cfg.keywords, isIdentKind e.kind = true
  fallbackKind : isIdentKind cfg.fallback = true
  kwLitUnique : ∀ e ∈ cfg.keywords, ∀ e' ∈ cfg.keywords, e.literal = e'.literal → e = e'
  kwKindUnique : ∀ e ∈ cfg.keywords, ∀ e' ∈ cfg.keywords, e.kind = e'.kind → e = e'
  kwNotFallback : ∀ e ∈ cfg.keywords, e.kind ≠ cfg.fallback

theorem tokPost_fixed {cfg : Cfg} {buf : Bytes} {m : LexMode} (k : Kind) (s0 s1 : St)
    (hk : isIdentKind k = false) (hne : k ≠ .EndOfFile) (hs : k ≠ .String)
    (h01 : s0.pos < s1.pos) (h1 : s1.pos ≤ buf.length) : TokPost cfg buf m (mkTok k s0 s1, s1) where
  end_eq := by simp only [mkTok]; omega
  end_le := h1
  eof := fun h => absurd h hne
  progress := fun _ => by simp only [mkTok]; omega
  str_stop := fun h => absurd h hs
  ident := fun h => by simp only [mkTok] at h; rw [hk] at h; exact absurd h (by simp)

theorem tokPost_string {cfg : Cfg} {buf : Bytes} {m : LexMode} (s0 s1 : St)
    (h01 : s0.pos < s1.pos) (h1 : s1.pos ≤ buf.length) (hstop : ∃ c, PeekIs buf s1 c ∧ StrStop m c) :
    TokPost cfg buf m (mkTok .String s0 s1, s1) where
  end_eq := by simp only [mkTok]; omega
  end_le := h1
  eof := fun h => by simp [mkTok] at h
  progress := fun _ => by simp only [mkTok]; omega
  str_stop := fun _ => hstop
  ident := fun h => by simp [mkTok, isIdentKind] at h

theorem isIdentKind_ne_eof {k : Kind} (h : isIdentKind k = true) : k ≠ .EndOfFile := by
  intro he; subst he; simp [isIdentKind] at h

theorem isIdentKind_ne_string {k : Kind} (h : isIdentKind k = true) : k ≠ .String := by
  intro he; subst he; simp [isIdentKind] at h

theorem lexIdentifier_sat {cfg : Cfg} (ok : CfgOK cfg) (buf : Bytes) (m : LexMode) (s0 s1 : St)
    (h01 : s0.pos < s1.pos) (h1 : s1.pos ≤ buf.length) :
    (lexIdentifier cfg buf m s0 s1).sat (fun r => r.1.start = s0.pos ∧ TokPost cfg buf m r) := by
  unfold lexIdentifier
  apply sat_bind (identLoop_sat ok.peek ok.identEOF buf _ s1 h1 (by omega))
  intro s2 hs2
  obtain ⟨h12, h2, hstop⟩ := hs2
  split
  · rename_i hm
    refine ⟨rfl, ?_⟩
    exact { end_eq := by simp only [mkTok]; omega
            end_le := h2
            eof := fun h => by simp [mkTok] at h
            progress := fun _ => by simp only [mkTok]; omega
            str_stop := fun h => by simp [mkTok] at h
            ident := fun _ => ⟨hstop, fun h => absurd hm h⟩ }
  · rename_i hm
    apply sat_bind (kwLookup_sat buf s0.pos (s2.pos - s0.pos) (by omega) cfg.keywords ok.kwLens)
    intro k hk
    refine ⟨rfl, ?_⟩
    have hkind : isIdentKind (k.getD cfg.fallback) = true := by
      cases k with
      | none => exact ok.fallbackKind
      | some kd =>
        obtain ⟨e, he, h1, _⟩ := hk
        simp only [Option.getD_some]
        rw [← h1]; exact ok.kwKinds e he
    exact { end_eq := by simp only [mkTok]; omega
            end_le := h2
            eof := fun h => absurd h (isIdentKind_ne_eof hkind)
            progress := fun _ => by simp only [mkTok]; omega
            str_stop := fun h => absurd h (isIdentKind_ne_string hkind)
            ident := fun _ => ⟨hstop, fun _ => ⟨k, hk, rfl⟩⟩ }

theorem lexRegular_sat {cfg : Cfg} (ok : CfgOK cfg) (buf : Bytes) (m : LexMode) (c : Int) (s0 : St)
    (hv : s0.pos ≤ buf.length) (hc : PeekIs buf s0 c) (hne : c ≠ -1) :
    (lexRegular cfg buf m c s0).sat (fun r => r.1.start = s0.pos ∧ TokPost cfg buf m r) := by
  unfold lexRegular
  have hlt := hc.lt_of_ne hne
  apply sat_bind (get_sat cfg buf s0 hv)
  intro r hr
  obtain ⟨_, h2, h3, _⟩ := hr
  have h01 := h3 hlt
  simp only []
  split
  · exact ⟨rfl, tokPost_fixed .Colon s0 r.2 (by decide) (by decide) (by decide) h01 h2⟩
  · split
    · exact ⟨rfl, tokPost_fixed .Equals s0 r.2 (by decide) (by decide) (by decide) h01 h2⟩
    · split
      · apply sat_bind (skipToEndOfLine_sat ok.peek buf _ r.2 h2 (by omega))
        intro s2 hs2
        exact ⟨rfl, tokPost_fixed .Comment s0 s2 (by decide) (by decide) (by decide) (by have := hs2.1; omega) hs2.2.1⟩
      · split
        · apply sat_bind (peek_sat ok.peek buf r.2 h2)
          intro c2 _
          split
          · apply sat_bind (get_sat cfg buf r.2 h2)
            intro r2 hr2
            exact ⟨rfl, tokPost_fixed .PipePipe s0 r2.2 (by decide) (by decide) (by decide) (by have := hr2.1; omega) hr2.2.1⟩
          · exact ⟨rfl, tokPost_fixed .Pipe s0 r.2 (by decide) (by decide) (by decide) h01 h2⟩
        · split
          · exact lexIdentifier_sat ok buf m s0 r.2 h01 h2
          · exact ⟨rfl, tokPost_fixed .Unknown s0 r.2 (by decide) (by decide) (by decide) h01 h2⟩

theorem lexToken_sat {cfg : Cfg} (ok : CfgOK cfg) (buf : Bytes) (m : LexMode) (c : Int) (s0 : St)
    (hv : s0.pos ≤ buf.length) (hc : PeekIs buf s0 c) (hns : isNonNewlineSpace c = false) :
    (lexToken cfg buf m c s0).sat (fun r => r.1.start = s0.pos ∧ TokPost cfg buf m r) := by
  unfold lexToken
  split
  · rename_i h
    have hlt := hc.lt_of_ne (by omega)
    apply sat_bind (get_sat cfg buf s0 hv)
    intro r hr
    exact ⟨rfl, tokPost_fixed .Newline s0 r.2 (by decide) (by decide) (by decide) (hr.2.2.1 hlt) hr.2.1⟩
  · split
    · rename_i h
      have hend := (hc.eof_iff hv).1 h
      refine ⟨rfl, ?_⟩
      exact { end_eq := by simp [mkTok]
              end_le := hv
              eof := fun _ => by simp [mkTok, hend]
              progress := fun h => by simp [mkTok] at h
              str_stop := fun h => by simp [mkTok] at h
              ident := fun h => by simp [mkTok, isIdentKind] at h }
    · rename_i hne
      have hlt := hc.lt_of_ne hne
      split
      · rename_i hm
        apply sat_bind (varLoop_sat ok.peek buf _ s0 hv (by omega))
        intro s1 hs1
        obtain ⟨h01, h1, c', hc', hstop⟩ := hs1
        have hlt01 : s0.pos < s1.pos := by
          rcases Nat.lt_or_ge s0.pos s1.pos with h | h
          · exact h
          · have := hc.unique hc' (by omega)
            subst this
            unfold VarStop at hstop
            omega
        exact ⟨rfl, tokPost_string s0 s1 hlt01 h1 ⟨c', hc', by simp [StrStop, hm, hstop]⟩⟩
      · rename_i hm
        split
        · rename_i hpm
          apply sat_bind (pathLoop_sat ok.peek buf _ s0 hv (by omega))
          intro s1 hs1
          obtain ⟨h01, h1, c', hc', hstop⟩ := hs1
          have hlt01 : s0.pos < s1.pos := by
            rcases Nat.lt_or_ge s0.pos s1.pos with h | h
            · exact h
            · have := hc.unique hc' (by omega)
              subst this
              unfold PathStop at hstop
              rcases hstop with hsp | hsp | hsp | hsp
              · simp [isNonNewlineSpace, hsp] at hns
                omega
              · exact absurd hsp hpm.2.1
              · exact absurd hsp hpm.2.2
              · exact absurd hsp hne
          exact ⟨rfl, tokPost_string s0 s1 hlt01 h1 ⟨c', hc', by simp [StrStop, hm, hstop]⟩⟩
        · exact lexRegular_sat ok buf m c s0 hv hc hne

/-! ### One `lex` call and the whole token stream -/

/-- the post-condition of one `lex` call from cursor `s` -/
def LexPost (cfg : Cfg) (buf : Bytes) (m : LexMode) (s : St) (r : Token × St) : Prop :=
  s.pos ≤ r.1.start ∧ TokPost cfg buf m r

theorem lex_sat {cfg : Cfg} (ok : CfgOK cfg) (buf : Bytes) (m : LexMode) (s : St) (hv : s.pos ≤ buf.length) :
    (lex cfg buf m s).sat (LexPost cfg buf m s) := by
  unfold lex
  apply sat_bind (peek_sat ok.peek buf s hv)
  intro c hc
  split
  · rename_i hi
    have hne : c ≠ -1 := by
      intro h; rw [h, isNonNewlineSpace_eof] at hi; exact absurd hi.1 (by simp)
    have hlt := hc.lt_of_ne hne
    apply sat_bind (get_sat cfg buf s hv)
    intro r hr
    obtain ⟨_, h2, h3, _⟩ := hr
    apply sat_bind (spaceLoop_sat ok.peek buf _ r.2 h2 (by omega))
    intro s2 hs2
    exact ⟨Nat.le_refl _, tokPost_fixed .Indentation s s2 (by decide) (by decide) (by decide)
      (by have := h3 hlt; have := hs2.1; omega) hs2.2.1⟩
  · apply sat_bind (triviaLoop_sat ok.peek ok.gLF ok.gCRLF buf _ c s hv hc (by omega))
    intro r hr
    obtain ⟨h1, h2, hpk, hns⟩ := hr
    apply sat_mono (lexToken_sat ok buf m r.1 r.2 h2 hpk hns)
    intro t ht
    exact ⟨by rw [ht.1]; exact h1, ht.2⟩

/-- successive tokens (each with the trivia in front of it) partition `[p, size)` in order, and the
stream ends with the only `EndOfFile`, which sits at `size` and is empty -/
def Tiles (size : Nat) : Nat → List Token → Prop
  | _, [] => False
  | p, [t] => t.kind = .EndOfFile ∧ p ≤ t.start ∧ t.start = size ∧ t.len = 0
  | p, t :: t' :: rest =>
    t.kind ≠ .EndOfFile ∧ p ≤ t.start ∧ 0 < t.len ∧ t.start + t.len ≤ size ∧ Tiles size (t.start + t.len) (t' :: rest)

theorem lexAllLoop_sat {cfg : Cfg} (ok : CfgOK cfg) (buf : Bytes) (modeAt : Nat → LexMode) :
    ∀ fuel i s, s.pos ≤ buf.length → buf.length - s.pos < fuel →
      (lexAllLoop cfg buf modeAt fuel i s).sat (fun toks => Tiles buf.length s.pos toks) := by
  intro fuel
  induction fuel with
  | zero => intro i s _ h; omega
  | succ n ih =>
    intro i s hv hf
    unfold lexAllLoop
    apply sat_bind (lex_sat ok buf (modeAt i) s hv)
    intro r hr
    obtain ⟨hge, hp⟩ := hr
    split
    · rename_i he
      have := hp.eof he
      exact ⟨he, hge, this.1, this.2⟩
    · rename_i he
      have hprog := hp.progress he
      have hend := hp.end_eq
      have hle := hp.end_le
      apply sat_bind (ih (i + 1) r.2 hle (by omega))
      intro rest hrest
      show Tiles buf.length s.pos (r.1 :: rest)
      cases rest with
      | nil => exact hrest.elim
      | cons t' rest' =>
        refine ⟨he, hge, hprog, by omega, ?_⟩
        rw [hend]; exact hrest

theorem lexAll_sat {cfg : Cfg} (ok : CfgOK cfg) (buf : Bytes) (modeAt : Nat → LexMode) :
    (lexAll cfg buf modeAt).sat (fun toks => Tiles buf.length 0 toks) :=
  lexAllLoop_sat ok buf modeAt _ 0 initSt (Nat.zero_le _) (by simp [initSt])

/-! ### Which bytes are skipped in front of a token -/

/-- every byte of `buf[a, b)` exists and its value satisfies `P` -/
def Among (P : Nat → Prop) (buf : Bytes) (a b : Nat) : Prop :=
  ∀ i, a ≤ i → i < b → ∃ x : UInt8, buf[i]? = some x ∧ P x.toNat

theorem Among.empty {P : Nat → Prop} {buf : Bytes} {a b : Nat} (h : b ≤ a) : Among P buf a b :=
  fun i h1 h2 => by omega

theorem Among.append {P : Nat → Prop} {buf : Bytes} {a b c : Nat} (h1 : Among P buf a b) (h2 : Among P buf b c) :
    Among P buf a c := by
  intro i hi1 hi2
  rcases Nat.lt_or_ge i b with h | h
  · exact h1 i hi1 h
  · exact h2 i h hi2

theorem Among.mono {P Q : Nat → Prop} {buf : Bytes} {a b : Nat} (h : Among P buf a b) (hpq : ∀ n, P n → Q n) :
    Among Q buf a b := by
  intro i h1 h2
  obtain ⟨x, hx, hp⟩ := h i h1 h2
  exact ⟨x, hx, hpq _ hp⟩

theorem Among.single {P : Nat → Prop} {buf : Bytes} {a : Nat} {x : UInt8} (hx : buf[a]? = some x) (hp : P x.toNat) :
    Among P buf a (a + 1) := by
  intro i h1 h2
  have : i = a := by omega
  subst this
  exact ⟨x, hx, hp⟩

def IsNL (n : Nat) : Prop := n = 10 ∨ n = 13
/-- blanks, `$`, CR, LF: the only bytes that may be skipped between tokens -/
def IsTriviaByte (n : Nat) : Prop := n = 32 ∨ n = 9 ∨ n = 11 ∨ n = 12 ∨ n = 36 ∨ n = 10 ∨ n = 13

theorem u8_eq_of_toNat {b : UInt8} {n : UInt8} (h : b.toNat = n.toNat) : b = n := UInt8.toNat_inj.1 h

/-- which bytes one `getNextChar` consumes: a single byte, or a run of CR/LF when it starts at one -/
def GetBytes (buf : Bytes) (s : St) (r : Int × St) : Prop :=
  ∀ b : UInt8, buf[s.pos]? = some b →
    ((b.toNat ≠ 10 ∧ b.toNat ≠ 13) → r.2.pos = s.pos + 1) ∧
    ((b.toNat = 10 ∨ b.toNat = 13) → Among IsNL buf s.pos r.2.pos)

theorem get_bytes (cfg : Cfg) (buf : Bytes) (s : St) (hv : s.pos ≤ buf.length) :
    (getNextChar cfg buf s).sat (GetBytes buf s) := by
  unfold getNextChar
  split
  · rename_i h
    intro b hb
    have := (List.getElem?_eq_some_iff.1 hb).1
    omega
  · rename_i h
    have hlt : s.pos < buf.length := by omega
    rw [rd_of_lt hlt]
    simp only [Res.ok_bind]
    have hb0 : buf[s.pos]? = some buf[s.pos] := List.getElem?_eq_getElem hlt
    split
    · rename_i hnl
      have hnl' : buf[s.pos].toNat = 10 ∨ buf[s.pos].toNat = 13 := by
        rcases hnl with h | h <;> rw [h] <;> simp
      have first : Among IsNL buf s.pos (s.pos + 1) := Among.single hb0 hnl'
      split
      · rename_i h1
        simp only [Res.pure_eq_ok, Res.ok_bind, Res.sat_ok]
        intro b hb
        rw [hb0] at hb; cases hb
        exact ⟨fun hn => by omega, fun _ => first⟩
      · rename_i h1
        have hlt1 : s.pos + 1 < buf.length := by omega
        rw [rd_of_lt hlt1]
        simp only [Res.pure_eq_ok, Res.ok_bind, Res.sat_ok]
        intro b hb
        rw [hb0] at hb; cases hb
        refine ⟨fun hn => by omega, fun _ => ?_⟩
        split
        · rename_i h2
          have hb1 : buf[s.pos + 1]? = some buf[s.pos + 1] := List.getElem?_eq_getElem hlt1
          have : IsNL buf[s.pos + 1].toNat := by unfold IsNL; omega
          exact first.append (Among.single hb1 this)
        · exact first
    · rename_i hnl
      simp only [Res.pure_eq_ok, Res.sat_ok]
      intro b hb
      rw [hb0] at hb; cases hb
      refine ⟨fun _ => rfl, fun hn => ?_⟩
      exfalso
      apply hnl
      rcases hn with h | h
      · exact Or.inl (u8_eq_of_toNat (n := 10) (by simpa using h))
      · exact Or.inr (u8_eq_of_toNat (n := 13) (by simpa using h))

theorem isNewlineEscape_nl {cfg : Cfg} (g1 : cfg.guardLF = .distGt 1) (g2 : cfg.guardCRLF = .distGt 2)
    (buf : Bytes) (s : St) :
    (isNewlineEscape cfg buf s).sat (fun e => e = true → ∃ x : UInt8, buf[s.pos + 1]? = some x ∧ IsNL x.toNat) := by
  unfold isNewlineEscape
  have e1 : guardHolds (.distGt 1) buf.length s.pos = decide (buf.length - s.pos > 1) := rfl
  have e2 : guardHolds (.distGt 2) buf.length s.pos = decide (buf.length - s.pos > 2) := rfl
  rw [g1, g2, e1, e2]
  have ha : (if decide (buf.length - s.pos > 1) = true then do
      let b ← rd buf (s.pos + 1)
      pure (b == 10)
    else (pure false : Res Bool)).sat (fun a => a = true → ∃ x : UInt8, buf[s.pos + 1]? = some x ∧ IsNL x.toNat) := by
    split
    · rename_i h
      have hlt : s.pos + 1 < buf.length := by simp at h; omega
      rw [rd_of_lt hlt]
      simp only [Res.ok_bind, Res.pure_eq_ok, Res.sat_ok]
      intro hb
      have : buf[s.pos + 1] = 10 := by simpa using hb
      exact ⟨buf[s.pos + 1], List.getElem?_eq_getElem hlt, Or.inl (by rw [this]; rfl)⟩
    · simp
  apply sat_bind ha
  intro a hpa
  split
  · rename_i hat
    simp only [Res.pure_eq_ok, Res.sat_ok]
    intro _; exact hpa hat
  · by_cases h : decide (buf.length - s.pos > 2) = true
    · rw [if_pos h]
      have h' : buf.length - s.pos > 2 := by simpa using h
      have h1 : s.pos + 1 < buf.length := by omega
      have h2 : s.pos + 2 < buf.length := by omega
      rw [rd_of_lt h1]
      simp only [Res.ok_bind]
      split
      · rename_i h13
        rw [rd_of_lt h2]
        simp only [Res.ok_bind, Res.pure_eq_ok, Res.sat_ok]
        intro _
        exact ⟨buf[s.pos + 1], List.getElem?_eq_getElem h1, Or.inr (by rw [h13]; rfl)⟩
      · simp
    · rw [if_neg h]; simp

theorem nns_trivia {c : Int} {b : UInt8} (h : isNonNewlineSpace c = true) (hc : c = (b.toNat : Int)) :
    IsTriviaByte b.toNat ∧ b.toNat ≠ 10 ∧ b.toNat ≠ 13 := by
  simp only [isNonNewlineSpace, isspaceC, Bool.and_eq_true, decide_eq_true_eq] at h
  unfold IsTriviaByte
  omega

theorem triviaLoop_bytes {cfg : Cfg} (hp : cfg.peekSignExt = false) (g1 : cfg.guardLF = .distGt 1)
    (g2 : cfg.guardCRLF = .distGt 2) (buf : Bytes) :
    ∀ fuel c s, s.pos ≤ buf.length → PeekIs buf s c → buf.length - s.pos < fuel →
      (triviaLoop cfg buf fuel c s).sat (fun r => Among IsTriviaByte buf s.pos r.2.pos) := by
  intro fuel
  induction fuel with
  | zero => intro c s _ _ h; omega
  | succ n ih =>
    intro c s hv hc hf
    unfold triviaLoop
    split
    · rename_i hd
      apply sat_bind (isNewlineEscape_nl g1 g2 buf s)
      intro esc hesc
      split
      · rename_i hes
        obtain ⟨x, hx, hxnl⟩ := hesc hes
        have hlt := hc.lt_of_ne (by omega)
        obtain ⟨b, hb, hcb⟩ : ∃ b : UInt8, buf[s.pos]? = some b ∧ c = (b.toNat : Int) := by
          rcases hc with ⟨h1, _⟩ | h
          · omega
          · exact h
        have hb36 : b.toNat = 36 := by omega
        apply sat_bind (sat_and (get_sat cfg buf s hv) (get_bytes cfg buf s hv))
        intro r1 hr1
        obtain ⟨⟨h1, h2, h3, _⟩, hbytes1⟩ := hr1
        have hpos1 : r1.2.pos = s.pos + 1 := (hbytes1 b hb).1 (by omega)
        apply sat_bind (sat_and (get_sat cfg buf r1.2 h2) (get_bytes cfg buf r1.2 h2))
        intro r2 hr2
        obtain ⟨⟨k1, k2, _, _⟩, hbytes2⟩ := hr2
        have hnlrun : Among IsNL buf (s.pos + 1) r2.2.pos := by
          have := (hbytes2 x (by rw [hpos1]; exact hx)).2 hxnl
          rw [hpos1] at this; exact this
        apply sat_bind (peek_sat hp buf r2.2 k2)
        intro c' hc'
        apply sat_mono (ih c' r2.2 k2 hc' (by omega))
        intro r hr
        have a1 : Among IsTriviaByte buf s.pos (s.pos + 1) :=
          Among.single hb (by unfold IsTriviaByte; omega)
        have a2 : Among IsTriviaByte buf (s.pos + 1) r2.2.pos :=
          hnlrun.mono (fun n hn => by unfold IsNL at hn; unfold IsTriviaByte; omega)
        exact (a1.append a2).append hr
      · exact Among.empty (Nat.le_refl _)
    · split
      · rename_i hi
        have hne : c ≠ -1 := by
          intro h; rw [h, isNonNewlineSpace_eof] at hi; exact absurd hi (by simp)
        have hlt := hc.lt_of_ne hne
        obtain ⟨b, hb, hcb⟩ : ∃ b : UInt8, buf[s.pos]? = some b ∧ c = (b.toNat : Int) := by
          rcases hc with ⟨h1, _⟩ | h
          · omega
          · exact h
        obtain ⟨ht, hn10, hn13⟩ := nns_trivia hi hcb
        apply sat_bind (sat_and (get_sat cfg buf s hv) (get_bytes cfg buf s hv))
        intro r1 hr1
        obtain ⟨⟨h1, h2, h3, _⟩, hbytes1⟩ := hr1
        have hpos1 : r1.2.pos = s.pos + 1 := (hbytes1 b hb).1 ⟨hn10, hn13⟩
        apply sat_bind (peek_sat hp buf r1.2 h2)
        intro c' hc'
        apply sat_mono (ih c' r1.2 h2 hc' (by omega))
        intro r hr
        rw [hpos1] at hr
        exact (Among.single hb ht).append hr
      · exact Among.empty (Nat.le_refl _)

theorem lex_trivia {cfg : Cfg} (ok : CfgOK cfg) (buf : Bytes) (m : LexMode) (s : St) (hv : s.pos ≤ buf.length) :
    (lex cfg buf m s).sat (fun r => Among IsTriviaByte buf s.pos r.1.start) := by
  unfold lex
  apply sat_bind (peek_sat ok.peek buf s hv)
  intro c hc
  split
  · rename_i hi
    have hne : c ≠ -1 := by
      intro h; rw [h, isNonNewlineSpace_eof] at hi; exact absurd hi.1 (by simp)
    apply sat_bind (get_sat cfg buf s hv)
    intro r hr
    apply sat_bind (spaceLoop_sat ok.peek buf _ r.2 hr.2.1 (by omega))
    intro s2 _
    exact Among.empty (Nat.le_refl _)
  · apply sat_bind (sat_and (triviaLoop_sat ok.peek ok.gLF ok.gCRLF buf _ c s hv hc (by omega))
      (triviaLoop_bytes ok.peek ok.gLF ok.gCRLF buf _ c s hv hc (by omega)))
    intro r hr
    obtain ⟨⟨h1, h2, hpk, hns⟩, hb⟩ := hr
    apply sat_mono (lexToken_sat ok buf m r.1 r.2 h2 hpk hns)
    intro t ht
    rw [ht.1]; exact hb

end LLBuild.NinjaLexer
