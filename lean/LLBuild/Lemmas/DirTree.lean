/-
Helper lemmas for C12 (directory-tree signatures).
-/
import LLBuild.Model.DirTree
import LLBuild.Lemmas.Codec

namespace LLBuild.DirTree
open LLBuild.Codec (Value)
open LLBuild.Generated.Codec
open LLBuild.Generated.DirTreeRecipe

/-! ## value encodings are injective (C15 round trip) -/

theorem encode_inj (v w : Value) (hv : v.WF = true) (hw : w.WF = true) (h : v.encode = w.encode) : v = w := by
  have a := Codec.Value.decodeRest_encode_append v hv []
  have b := Codec.Value.decodeRest_encode_append w hw []
  rw [h, b] at a
  have := Except.ok.inj a
  exact (Prod.mk.inj this).1.symm

theorem toFileInfo_WF (i : Info) : i.toFileInfo.WF = true := by
  simp [Info.toFileInfo, Codec.FileInfo.WF]

theorem toFileInfo_inj {i j : Info} (h : i.toFileInfo = j.toFileInfo) : i = j := by
  cases i; cases j
  simp only [Info.toFileInfo, Codec.FileInfo.mk.injEq] at h
  simp [h, Vector.toList_inj.1 h.2.2.2.2.2.2]

theorem missingInput_WF : missingInput.WF = true := by decide

theorem existingInput_WF (i : Info) : (existingInput i).WF = true := by
  simp [existingInput, Value.WF, Codec.hasSignature, Codec.hasOutputInfo, Codec.hasStringList,
    kindHasSignatureKinds, kindHasOutputInfoKinds, kindHasStringListKinds, toFileInfo_WF, Codec.packStrings]

theorem dirValue_WF (c : Cfg) (i : Info) (ns : List Name) (h : namesOK ns) : (dirValue c i ns).WF = true := by
  obtain ⟨h1, h2⟩ := h
  unfold dirValue
  cases c.filtered <;>
    simp [Value.WF, Codec.hasSignature, Codec.hasOutputInfo, Codec.hasStringList,
      kindHasSignatureKinds, kindHasOutputInfoKinds, kindHasStringListKinds, toFileInfo_WF, h2] <;>
    exact h1

theorem filteredValue_WF (ns : List Name) (h : namesOK ns) :
    (Value.mk .FilteredDirectoryContents 0 [] ns).WF = true := by
  obtain ⟨h1, h2⟩ := h
  simp [Value.WF, Codec.hasSignature, Codec.hasOutputInfo, Codec.hasStringList,
      kindHasSignatureKinds, kindHasOutputInfoKinds, kindHasStringListKinds, h2]
  exact h1

theorem nodeValue_WF (o : Obs) : (nodeValue o).WF = true := by
  cases o with
  | leaf v => cases v <;> simp [nodeValue, missingInput_WF, existingInput_WF]
  | dir i cs => simp [nodeValue, existingInput_WF]

/-! ## sorting keeps exactly the elements -/

theorem mem_insertBy {α : Type} (lt : Name → Name → Bool) (x y : Name × α) (l : List (Name × α)) :
    y ∈ insertBy lt x l ↔ y = x ∨ y ∈ l := by
  induction l with
  | nil => simp [insertBy]
  | cons z zs ih =>
    unfold insertBy
    split
    · simp
    · simp only [List.mem_cons, ih]
      constructor <;> (intro h; rcases h with h | h | h <;> simp [h])

theorem mem_sortBy {α : Type} (lt : Name → Name → Bool) (y : Name × α) (l : List (Name × α)) :
    y ∈ sortBy lt l ↔ y ∈ l := by
  induction l with
  | nil => simp [sortBy]
  | cons z zs ih => simp [sortBy, mem_insertBy, ih]

/-- with the extracted iterator flags neither listing loop stops at a dangling link -/
theorem stops_false (c : Cfg) : c.stopsAtDangling = false := by
  simp [Cfg.stopsAtDangling, filteredIteratorFollowsSymlinks, unfilteredIteratorFollowsSymlinks]

theorem obsList_cons (c : Cfg) (n : Name) (t : Tree) (rest : List (Name × Tree)) :
    obsList c ((n, t) :: rest) = if c.hidden n then obsList c rest else (n, obs c t) :: obsList c rest := by
  simp [obsList, stops_false]

theorem mem_names_obsList (c : Cfg) (n : Name) (cs : List (Name × Tree)) :
    n ∈ names (obsList c cs) ↔ n ∈ names cs ∧ c.hidden n = false := by
  induction cs with
  | nil => simp [obsList, names]
  | cons x xs ih =>
    obtain ⟨m, t⟩ := x
    rw [obsList_cons]
    by_cases h : c.hidden m = true
    · simp only [h, if_true]
      rw [ih]
      simp only [names, List.map_cons, List.mem_cons]
      constructor
      · rintro ⟨a, b⟩; exact ⟨Or.inr a, b⟩
      · rintro ⟨a | a, b⟩
        · subst a; simp [h] at b
        · exact ⟨a, b⟩
    · have h' : c.hidden m = false := by simpa using h
      simp only [h', Bool.false_eq_true, if_false]
      simp only [names, List.map_cons, List.mem_cons] at ih ⊢
      rw [ih]
      constructor
      · rintro (a | ⟨a, b⟩)
        · subst a; exact ⟨Or.inl rfl, h'⟩
        · exact ⟨Or.inr a, b⟩
      · rintro ⟨a | a, b⟩
        · exact Or.inl a
        · exact Or.inr ⟨a, b⟩

theorem mem_names_sortBy {α : Type} (lt : Name → Name → Bool) (n : Name) (l : List (Name × α)) :
    n ∈ names (sortBy lt l) ↔ n ∈ names l := by
  simp only [names, List.mem_map]
  constructor
  · rintro ⟨y, hy, rfl⟩; exact ⟨y, (mem_sortBy lt y l).1 hy, rfl⟩
  · rintro ⟨y, hy, rfl⟩; exact ⟨y, (mem_sortBy lt y l).2 hy, rfl⟩

/-! ## left spine of a chain -/

/-- number of `comb` nodes on the left spine -/
def spine : HashTerm → Nat
  | .comb a _ => spine a + 1
  | _ => 0

theorem spine_treeChain (c : Cfg) (p : Bytes) (cs : List (Name × Obs)) (acc : HashTerm) :
    spine (treeChain c p acc cs) = spine acc + 2 * cs.length := by
  induction cs generalizing acc with
  | nil => simp [treeChain]
  | cons x xs ih =>
    obtain ⟨n, o⟩ := x
    simp only [treeChain, ih, treeStep, spine, List.length_cons]
    omega

theorem spine_structChain (c : Cfg) (p : Bytes) (cs : List (Name × SObs)) (acc : HashTerm) :
    spine (structChain c p acc cs) = spine acc + 3 * cs.length := by
  induction cs generalizing acc with
  | nil => simp [structChain]
  | cons x xs ih =>
    obtain ⟨n, o⟩ := x
    simp only [structChain, ih, structStepS, spine, List.length_cons]
    omega

/-- chains of equal length over equal-length child lists start from the same accumulator -/
theorem treeChain_acc (c : Cfg) (p : Bytes) (cs cs' : List (Name × Obs)) (acc acc' : HashTerm)
    (hl : cs.length = cs'.length) (h : treeChain c p acc cs = treeChain c p acc' cs') : acc = acc' := by
  induction cs generalizing cs' acc acc' with
  | nil =>
    cases cs' with
    | nil => simpa [treeChain] using h
    | cons _ _ => simp at hl
  | cons x xs ih =>
    cases cs' with
    | nil => simp at hl
    | cons y ys =>
      obtain ⟨n, o⟩ := x
      obtain ⟨m, q⟩ := y
      simp only [treeChain] at h
      have := ih ys _ _ (by simpa using hl) h
      simp only [treeStep, HashTerm.comb.injEq] at this
      exact this.1.1

theorem subOrNil_inj (k : SigKind) (a b : Option HashTerm) (h : subOrNil k a = subOrNil k b) : a = b := by
  cases a <;> cases b <;> simp_all [subOrNil]

/-! ## injectivity of the tree signature over observations -/

mutual
/-- equal child value and equal sub-signature ⇒ equal observation of the child -/
theorem treeChild_inj (c : Cfg) : ∀ (o o' : Obs) (p : Bytes), o.OK → o'.OK →
    nodeValue o = nodeValue o' → treeSub c p o = treeSub c p o' → o = o'
  | .leaf v, .leaf v', _, _, _, hv, _ => by
    cases v <;> cases v' <;> simp [nodeValue, missingInput, existingInput] at hv ⊢
    exact toFileInfo_inj hv
  | .leaf _, .dir _ _, _, _, _, _, hs => by simp [treeSub] at hs
  | .dir _ _, .leaf _, _, _, _, _, hs => by simp [treeSub] at hs
  | .dir i cs, .dir i' cs', p, hok, hok', hv, hs => by
    have hi : i = i' := by
      simp only [nodeValue, existingInput, Value.mk.injEq, List.cons.injEq, and_true, true_and] at hv
      exact toFileInfo_inj hv
    subst hi
    simp only [treeSub, Option.some.injEq] at hs
    simp only [Obs.OK] at hok hok'
    have hlen : cs.length = cs'.length := by
      have := congrArg spine hs
      simp only [spine_treeChain, treeBase, spine] at this
      omega
    have hbase := treeChain_acc c p cs cs' _ _ hlen hs
    simp only [treeBase, HashTerm.comb.injEq, HashTerm.str.injEq, true_and] at hbase
    have hd := encode_inj _ _ (dirValue_WF c i _ hok.1) (dirValue_WF c i _ hok'.1) hbase
    have hn : names cs = names cs' := by
      unfold dirValue at hd
      cases hf : c.filtered <;> simp [hf] at hd <;> exact hd
    have := treeChain_inj c cs cs' p _ _ hok.2 hok'.2 hn hs
    rw [this.2]
theorem treeChain_inj (c : Cfg) : ∀ (cs cs' : List (Name × Obs)) (p : Bytes) (acc acc' : HashTerm),
    Obs.OKs cs → Obs.OKs cs' → names cs = names cs' →
    treeChain c p acc cs = treeChain c p acc' cs' → acc = acc' ∧ cs = cs'
  | [], [], _, _, _, _, _, _, h => by simpa [treeChain] using h
  | [], _ :: _, _, _, _, _, _, hn, _ => by simp [names] at hn
  | _ :: _, [], _, _, _, _, _, hn, _ => by simp [names] at hn
  | (n, o) :: rest, (n', o') :: rest', p, acc, acc', hok, hok', hn, h => by
    simp only [names, List.map_cons, List.cons.injEq] at hn
    obtain ⟨hn1, hn2⟩ := hn
    subst hn1
    simp only [Obs.OKs] at hok hok'
    simp only [treeChain] at h
    have ih := treeChain_inj c rest rest' p _ _ hok.2 hok'.2 hn2 h
    obtain ⟨hstep, hrest⟩ := ih
    simp only [treeStep, HashTerm.comb.injEq, HashTerm.str.injEq] at hstep
    obtain ⟨⟨hacc, hval⟩, hsub⟩ := hstep
    have hv := encode_inj _ _ (nodeValue_WF o) (nodeValue_WF o') hval
    have hs := subOrNil_inj _ _ _ hsub
    have ho := treeChild_inj c o o' (pathAppend p n) hok.1 hok'.1 hv hs
    exact ⟨hacc, by rw [ho, hrest]⟩
end

/-! ## injectivity of the structure signature over structure observations -/

mutual
def SObs.OK : SObs → Prop
  | .leaf _ => True
  | .dir _ cs => namesOK (names cs) ∧ SObs.OKs cs
def SObs.OKs : List (Name × SObs) → Prop
  | [] => True
  | (_, o) :: rest => o.OK ∧ SObs.OKs rest
end

theorem names_toSList (cs : List (Name × Obs)) : names (Obs.toSList cs) = names cs := by
  induction cs with
  | nil => simp [Obs.toSList, names]
  | cons x xs ih => obtain ⟨n, o⟩ := x; simp only [Obs.toSList, names, List.map_cons] at ih ⊢; rw [ih]

mutual
theorem toS_OK : ∀ (o : Obs), o.OK → o.toS.OK
  | .leaf _, _ => by simp [Obs.toS, SObs.OK]
  | .dir i cs, h => by
    simp only [Obs.OK] at h
    simp only [Obs.toS, SObs.OK, names_toSList]
    exact ⟨h.1, toSList_OK cs h.2⟩
theorem toSList_OK : ∀ (cs : List (Name × Obs)), Obs.OKs cs → SObs.OKs (Obs.toSList cs)
  | [], _ => by simp [Obs.toSList, SObs.OKs]
  | (n, o) :: rest, h => by
    simp only [Obs.OKs] at h
    simp only [Obs.toSList, SObs.OKs]
    exact ⟨toS_OK o h.1, toSList_OK rest h.2⟩
end

theorem missingInput_encode_ne_nil : True := trivial

mutual
theorem structChild_inj (c : Cfg) : ∀ (o o' : SObs) (p : Bytes), o.OK → o'.OK →
    o.mode? = o'.mode? → structSub c p o = structSub c p o' → o = o'
  | .leaf m, .leaf m', _, _, _, hm, _ => by simpa [SObs.mode?] using hm
  | .leaf _, .dir _ _, _, _, _, _, hs => by simp [structSub] at hs
  | .dir _ _, .leaf _, _, _, _, _, hs => by simp [structSub] at hs
  | .dir m cs, .dir m' cs', p, hok, hok', hm, hs => by
    have hmm : m = m' := by simpa [SObs.mode?] using hm
    subst hmm
    simp only [structSub, Option.some.injEq] at hs
    simp only [SObs.OK] at hok hok'
    have hlen : cs.length = cs'.length := by
      have := congrArg spine hs
      simp only [spine_structChain, structBaseS, spine] at this
      omega
    have := structChain_inj c cs cs' p _ _ hok.2 hok'.2 hlen hs
    rw [this.2]
theorem structChain_inj (c : Cfg) : ∀ (cs cs' : List (Name × SObs)) (p : Bytes) (acc acc' : HashTerm),
    SObs.OKs cs → SObs.OKs cs' → cs.length = cs'.length →
    structChain c p acc cs = structChain c p acc' cs' → acc = acc' ∧ cs = cs'
  | [], [], _, _, _, _, _, _, h => by simpa [structChain] using h
  | [], _ :: _, _, _, _, _, _, hl, _ => by simp at hl
  | _ :: _, [], _, _, _, _, _, hl, _ => by simp at hl
  | (n, o) :: rest, (n', o') :: rest', p, acc, acc', hok, hok', hl, h => by
    simp only [SObs.OKs] at hok hok'
    simp only [structChain] at h
    have ih := structChain_inj c rest rest' p _ _ hok.2 hok'.2 (by simpa using hl) h
    obtain ⟨hstep, hrest⟩ := ih
    simp only [structStepS, HashTerm.comb.injEq, HashTerm.str.injEq] at hstep
    obtain ⟨⟨⟨hacc, hname⟩, hmode⟩, hsub⟩ := hstep
    subst hname
    have hm : o.mode? = o'.mode? := by
      cases h1 : o.mode? <;> cases h2 : o'.mode? <;> simp [h1, h2] at hmode ⊢
      exact UInt64.toNat_inj.mp hmode
    have hs := subOrNil_inj _ _ _ hsub
    have ho := structChild_inj c o o' (pathAppend p n) hok.1 hok'.1 hm hs
    exact ⟨hacc, by rw [ho, hrest]⟩
end

end LLBuild.DirTree

namespace LLBuild.DirTree
open LLBuild.Codec (Value)
open LLBuild.Generated.Codec
open LLBuild.Generated.DirTreeRecipe

/-! ## the root directory -/

theorem length_insertBy {α : Type} (lt : Name → Name → Bool) (x : Name × α) (l : List (Name × α)) :
    (insertBy lt x l).length = l.length + 1 := by
  induction l with
  | nil => simp [insertBy]
  | cons z zs ih => unfold insertBy; split <;> simp [ih]

theorem length_sortBy {α : Type} (lt : Name → Name → Bool) (l : List (Name × α)) :
    (sortBy lt l).length = l.length := by
  induction l with
  | nil => simp [sortBy]
  | cons z zs ih => simp [sortBy, length_insertBy, ih]

/-- the tree signature of a directory determines its listing with every child's observation, and (unfiltered)
the directory's own stat record -/
theorem treeRoot_inj (c : Cfg) (p : Bytes) (i i' : Info) (cs cs' : List (Name × Obs))
    (hok : (Obs.dir i cs).OK) (hok' : (Obs.dir i' cs').OK)
    (hs : treeSigO c p (.dir i cs) = treeSigO c p (.dir i' cs')) :
    cs = cs' ∧ (c.filtered = false → i = i') := by
  simp only [treeSigO] at hs
  simp only [Obs.OK] at hok hok'
  have hlen : cs.length = cs'.length := by
    have := congrArg spine hs
    simp only [spine_treeChain, treeBase, spine] at this
    omega
  have hbase := treeChain_acc c p cs cs' _ _ hlen hs
  simp only [treeBase, HashTerm.comb.injEq, HashTerm.str.injEq, true_and] at hbase
  have hd := encode_inj _ _ (dirValue_WF c i _ hok.1) (dirValue_WF c i' _ hok'.1) hbase
  have hn : names cs = names cs' ∧ (c.filtered = false → i = i') := by
    unfold dirValue at hd
    cases hf : c.filtered <;> simp [hf] at hd
    · exact ⟨hd.2, fun _ => toFileInfo_inj hd.1⟩
    · exact ⟨hd, by simp⟩
  exact ⟨(treeChain_inj c cs cs' p _ _ hok.2 hok'.2 hn.1 hs).2, hn.2⟩

theorem structRoot_inj (c : Cfg) (p : Bytes) (m m' : UInt64) (cs cs' : List (Name × SObs))
    (hok : SObs.OKs cs) (hok' : SObs.OKs cs')
    (hs : structChain c p (structBaseS c p m (names cs)) cs = structChain c p (structBaseS c p m' (names cs')) cs') :
    cs = cs' ∧ (c.filtered = false → m = m') := by
  have hlen : cs.length = cs'.length := by
    have := congrArg spine hs
    simp only [spine_structChain, structBaseS, spine] at this
    omega
  obtain ⟨hb, hcs⟩ := structChain_inj c cs cs' p _ _ hok hok' hlen hs
  refine ⟨hcs, fun hf => ?_⟩
  simp only [structBaseS, hf, Bool.false_eq_true, if_false, HashTerm.comb.injEq, HashTerm.num.injEq, true_and] at hb
  exact UInt64.toNat_inj.mp hb

/-! ## content-only edits -/

mutual
/-- apply `f` to the stat record of every node -/
def Tree.mapInfo (f : Info → Info) : Tree → Tree
  | .file i => .file (f i)
  | .dir i cs => .dir (f i) (Tree.mapInfoList f cs)
  | .link v => .link (v.map f)
def Tree.mapInfoList (f : Info → Info) : List (Name × Tree) → List (Name × Tree)
  | [] => []
  | (n, t) :: rest => (n, t.mapInfo f) :: Tree.mapInfoList f rest
end

/-- structure observation of a subtree -/
def obsS (c : Cfg) (t : Tree) : SObs := (obs c t).toS

theorem toSList_insertBy (lt : Name → Name → Bool) (x : Name × Obs) (l : List (Name × Obs)) :
    Obs.toSList (insertBy lt x l) = insertBy lt (x.1, x.2.toS) (Obs.toSList l) := by
  induction l with
  | nil => obtain ⟨n, o⟩ := x; simp [insertBy, Obs.toSList]
  | cons z zs ih =>
    obtain ⟨n, o⟩ := x
    obtain ⟨m, q⟩ := z
    unfold insertBy
    simp only [Obs.toSList]
    split
    · simp [Obs.toSList]
    · simp only [Obs.toSList]; rw [ih]

theorem toSList_sortBy (lt : Name → Name → Bool) (l : List (Name × Obs)) :
    Obs.toSList (sortBy lt l) = sortBy lt (Obs.toSList l) := by
  induction l with
  | nil => simp [sortBy, Obs.toSList]
  | cons z zs ih => obtain ⟨m, q⟩ := z; simp only [sortBy, toSList_insertBy, Obs.toSList, ih]

mutual
theorem obsS_mapInfo (c : Cfg) (f : Info → Info) (hf : ∀ i, (f i).mode = i.mode) :
    ∀ t : Tree, obsS c (t.mapInfo f) = obsS c t
  | .file i => by simp [obsS, Tree.mapInfo, obs, Obs.toS, hf]
  | .link v => by cases v <;> simp [obsS, Tree.mapInfo, obs, Obs.toS, hf]
  | .dir i cs => by
    simp only [obsS, Tree.mapInfo, obs, Obs.toS, hf, toSList_sortBy]
    rw [obsSList_mapInfo c f hf cs]
theorem obsSList_mapInfo (c : Cfg) (f : Info → Info) (hf : ∀ i, (f i).mode = i.mode) :
    ∀ cs : List (Name × Tree), Obs.toSList (obsList c (Tree.mapInfoList f cs)) = Obs.toSList (obsList c cs)
  | [] => by simp [Tree.mapInfoList, obsList]
  | (n, t) :: rest => by
    simp only [Tree.mapInfoList, obsList_cons]
    split
    · exact obsSList_mapInfo c f hf rest
    · simp only [Obs.toSList]
      have := obsS_mapInfo c f hf t
      simp only [obsS] at this
      rw [this, obsSList_mapInfo c f hf rest]
end

end LLBuild.DirTree

namespace LLBuild.DirTree

/-! ## a change in one child's observation changes the parent's (any depth, by iteration) -/

theorem mem_obsList (c : Cfg) (n : Name) (o : Obs) (cs : List (Name × Tree)) :
    (n, o) ∈ obsList c cs ↔ ∃ t, (n, t) ∈ cs ∧ c.hidden n = false ∧ o = obs c t := by
  induction cs with
  | nil => simp [obsList]
  | cons x xs ih =>
    obtain ⟨m, q⟩ := x
    rw [obsList_cons]
    by_cases h : c.hidden m = true
    · simp only [h, if_true, ih, List.mem_cons, Prod.mk.injEq]
      constructor
      · rintro ⟨t, ht, hh, ho⟩; exact ⟨t, Or.inr ht, hh, ho⟩
      · rintro ⟨t, ht | ht, hh, ho⟩
        · rw [ht.1, h] at hh; simp at hh
        · exact ⟨t, ht, hh, ho⟩
    · have h' : c.hidden m = false := by simpa using h
      simp only [h', Bool.false_eq_true, if_false, List.mem_cons, Prod.mk.injEq, ih]
      constructor
      · rintro (⟨hn, ho⟩ | ⟨t, ht, hh, ho⟩)
        · exact ⟨q, Or.inl ⟨hn, rfl⟩, by rw [hn]; exact h', ho⟩
        · exact ⟨t, Or.inr ht, hh, ho⟩
      · rintro ⟨t, ht | ht, hh, ho⟩
        · exact Or.inl ⟨ht.1, by rw [ho, ht.2]⟩
        · exact Or.inr ⟨t, ht, hh, ho⟩

theorem mem_toSList (n : Name) (s : SObs) (l : List (Name × Obs)) :
    (n, s) ∈ Obs.toSList l ↔ ∃ o, (n, o) ∈ l ∧ o.toS = s := by
  induction l with
  | nil => simp [Obs.toSList]
  | cons x xs ih =>
    obtain ⟨m, q⟩ := x
    simp only [Obs.toSList, List.mem_cons, Prod.mk.injEq, ih]
    constructor
    · rintro (⟨hn, hs⟩ | ⟨o, ho, hs⟩)
      · exact ⟨q, Or.inl ⟨hn, rfl⟩, hs.symm⟩
      · exact ⟨o, Or.inr ho, hs⟩
    · rintro ⟨o, ho | ho, hs⟩
      · exact Or.inl ⟨ho.1, by rw [← hs, ho.2]⟩
      · exact Or.inr ⟨o, ho, hs⟩

/-- the only entry named `n` in `pre ++ (n, t) :: post` is `t`, when no other entry has that name -/
theorem unique_entry (n : Name) (t t' : Tree) (pre post : List (Name × Tree))
    (hu : n ∉ names (pre ++ post)) (h : (n, t') ∈ pre ++ (n, t) :: post) : t' = t := by
  simp only [List.mem_append, List.mem_cons, Prod.mk.injEq, true_and] at h
  simp only [names, List.map_append, List.mem_append, List.mem_map, not_or, not_exists, not_and] at hu
  rcases h with h | h | h
  · exact absurd rfl (hu.1 _ h)
  · exact h
  · exact absurd rfl (hu.2 _ h)

theorem obs_child_lifts (c : Cfg) (n : Name) (t₁ t₂ : Tree) (pre post : List (Name × Tree)) (i₁ i₂ : Info)
    (hv : c.hidden n = false) (hu : n ∉ names (pre ++ post)) (hne : obs c t₁ ≠ obs c t₂) :
    obs c (.dir i₁ (pre ++ (n, t₁) :: post)) ≠ obs c (.dir i₂ (pre ++ (n, t₂) :: post)) := by
  intro h
  simp only [obs, Obs.dir.injEq] at h
  have h1 : (n, obs c t₁) ∈ sortBy c.before (obsList c (pre ++ (n, t₁) :: post)) := by
    rw [mem_sortBy, mem_obsList]; exact ⟨t₁, by simp, hv, rfl⟩
  rw [h.2, mem_sortBy, mem_obsList] at h1
  obtain ⟨t, ht, _, ho⟩ := h1
  rw [unique_entry n t₂ t pre post hu ht] at ho
  exact hne ho

theorem obsS_child_lifts (c : Cfg) (n : Name) (t₁ t₂ : Tree) (pre post : List (Name × Tree)) (i₁ i₂ : Info)
    (hv : c.hidden n = false) (hu : n ∉ names (pre ++ post)) (hne : obsS c t₁ ≠ obsS c t₂) :
    obsS c (.dir i₁ (pre ++ (n, t₁) :: post)) ≠ obsS c (.dir i₂ (pre ++ (n, t₂) :: post)) := by
  intro h
  simp only [obsS, obs, Obs.toS, SObs.dir.injEq] at h
  have h1 : (n, (obs c t₁).toS) ∈ Obs.toSList (sortBy c.before (obsList c (pre ++ (n, t₁) :: post))) := by
    rw [mem_toSList]; refine ⟨obs c t₁, ?_, rfl⟩
    rw [mem_sortBy, mem_obsList]; exact ⟨t₁, by simp, hv, rfl⟩
  rw [h.2, mem_toSList] at h1
  obtain ⟨o, ho, hs⟩ := h1
  rw [mem_sortBy, mem_obsList] at ho
  obtain ⟨t, ht, _, hot⟩ := ho
  rw [unique_entry n t₂ t pre post hu ht] at hot
  apply hne
  simp only [obsS]
  rw [← hs, hot]

end LLBuild.DirTree
