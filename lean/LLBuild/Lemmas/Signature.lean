/-
Helper lemmas for C09 (signature half): left-nested `comb` chains, their spines, loop unrolling of the
recipe interpreter, list-level unique-parsing lemmas, closed forms of the GENERATED ExternalCommand /
ShellCommand recipes, and the recipes as they were before the F7/F10 repairs (data).  Core Lean only.
-/
import LLBuild.Model.Signature
import LLBuild.Generated.SignatureRecipe

namespace LLBuild.Signature

/-- `chain h [l₁, …, lₙ] = comb (… (comb (comb h l₁) l₂) …) lₙ` -/
def chain (h : HashTerm) (l : List HashTerm) : HashTerm := l.foldl .comb h

@[simp] theorem chain_nil (h : HashTerm) : chain h [] = h := rfl
@[simp] theorem chain_cons (h x : HashTerm) (l : List HashTerm) : chain h (x :: l) = chain (.comb h x) l := rfl
theorem chain_append (h : HashTerm) (l r : List HashTerm) : chain h (l ++ r) = chain (chain h l) r := by
  simp [chain, List.foldl_append]

/-- head and right operands of a left-nested chain -/
def spine : HashTerm → HashTerm × List HashTerm
  | .comb a b => ((spine a).1, (spine a).2 ++ [b])
  | .seed => (.seed, [])
  | .str b => (.str b, [])
  | .bool b => (.bool b, [])
  | .int n => (.int n, [])

theorem spine_chain (h : HashTerm) (l : List HashTerm) :
    spine (chain h l) = ((spine h).1, (spine h).2 ++ l) := by
  induction l generalizing h with
  | nil => simp
  | cons x xs ih => simp [ih, spine]

/-- A chain that starts at a string leaf is determined by, and determines, its head and operand list. -/
theorem chain_str_inj {a b : Bytes} {l r : List HashTerm}
    (h : chain (.str a) l = chain (.str b) r) : a = b ∧ l = r := by
  have := congrArg spine h
  simp [spine_chain, spine] at this
  exact this

/-! ### loops of the interpreter -/

theorem runLoop_eq (d : CommandDef) (body : List Comb) (f : Val → List HashTerm) (vs : List Val)
    (hb : ∀ v ∈ vs, ∀ t, runCombs d (some v) t body = some (chain t (f v))) (t : HashTerm) :
    runLoop d body t vs = some (chain t (vs.flatMap f)) := by
  induction vs generalizing t with
  | nil => simp [runLoop]
  | cons v vs ih =>
    have h1 := hb v (by simp) t
    simp only [runLoop, h1, List.flatMap_cons, chain_append]
    exact ih (fun v' hv' => hb v' (by simp [hv'])) _

theorem flatMap_map_singleton {α β γ : Type} (g : α → β) (f : β → γ) (l : List α) :
    (l.map g).flatMap (fun v => [f v]) = l.map (fun a => f (g a)) := by
  induction l with
  | nil => rfl
  | cons x xs ih => simp [ih]

/-! ### unique parsing of length-prefixed lists -/

theorem str_injective : ∀ a b : Bytes, HashTerm.str a = HashTerm.str b → a = b := by
  intro a b h; cases h; rfl

/-- `n, x₁ … xₙ, rest`: the length prefix makes the split unique. -/
theorem prefixed_inj {l₁ l₂ : List Bytes} {r₁ r₂ : List HashTerm}
    (h : HashTerm.int l₁.length :: (l₁.map HashTerm.str ++ r₁) = HashTerm.int l₂.length :: (l₂.map HashTerm.str ++ r₂)) :
    l₁ = l₂ ∧ r₁ = r₂ := by
  simp only [List.cons.injEq, HashTerm.int.injEq] at h
  obtain ⟨hl, hr⟩ := h
  have := List.append_inj hr (by simp [hl])
  refine ⟨?_, this.2⟩
  exact (List.map_inj_right str_injective).1 this.1

def pairLeaves (p : Bytes × Bytes) : List HashTerm := [.str p.1, .str p.2]

theorem pairs_inj_aux : ∀ (l₁ l₂ : List (Bytes × Bytes)) (r₁ r₂ : List HashTerm), l₁.length = l₂.length →
    l₁.flatMap pairLeaves ++ r₁ = l₂.flatMap pairLeaves ++ r₂ → l₁ = l₂ ∧ r₁ = r₂
  | [], [], _, _, _, h => by simpa using h
  | [], _ :: _, _, _, hl, _ => by simp at hl
  | _ :: _, [], _, _, hl, _ => by simp at hl
  | (a, b) :: xs, (a', b') :: ys, r₁, r₂, hl, h => by
    simp only [List.flatMap_cons, pairLeaves, List.cons_append, List.nil_append, List.cons.injEq,
      HashTerm.str.injEq] at h
    obtain ⟨ha, hb, hrest⟩ := h
    have := pairs_inj_aux xs ys r₁ r₂ (by simpa using hl) (by simpa [pairLeaves] using hrest)
    subst ha hb
    simp [this.1, this.2]

theorem prefixed_pairs_inj {l₁ l₂ : List (Bytes × Bytes)} {r₁ r₂ : List HashTerm}
    (h : HashTerm.int l₁.length :: (l₁.flatMap pairLeaves ++ r₁) = HashTerm.int l₂.length :: (l₂.flatMap pairLeaves ++ r₂)) :
    l₁ = l₂ ∧ r₁ = r₂ := by
  simp only [List.cons.injEq, HashTerm.int.injEq] at h
  exact pairs_inj_aux _ _ _ _ h.1 h.2

theorem boolInt_inj {a b : Bool} (h : (if a then 1 else 0 : Nat) = (if b then 1 else 0)) : a = b := by
  cases a <;> cases b <;> simp at h <;> rfl


/-! ### closed forms of the generated recipes -/
section Closed
open LLBuild.Generated.Signature

@[simp] theorem loop_nodes (d : CommandDef) (t : HashTerm) (l : List Bytes) :
    runLoop d [⟨.stringRef, .call .loopVar .getName⟩] t (l.map Val.node) = some (chain t (l.map .str)) := by
  rw [runLoop_eq d _ (fun v => match v with | .node n => [.str n] | _ => []) _ _ t]
  · congr 2; induction l with
    | nil => rfl
    | cons x xs ih => simp [ih]
  · intro v hv t
    obtain ⟨n, _, rfl⟩ := List.mem_map.1 hv
    simp [runCombs, runComb, evalExpr, callMethod, leafOf]

@[simp] theorem loop_strs_ref (d : CommandDef) (t : HashTerm) (l : List Bytes) :
    runLoop d [⟨.stringRef, .loopVar⟩] t (l.map Val.str) = some (chain t (l.map .str)) := by
  rw [runLoop_eq d _ (fun v => match v with | .str n => [.str n] | _ => []) _ _ t]
  · congr 2; induction l with
    | nil => rfl
    | cons x xs ih => simp [ih]
  · intro v hv t
    obtain ⟨n, _, rfl⟩ := List.mem_map.1 hv
    simp [runCombs, runComb, evalExpr, leafOf]

@[simp] theorem loop_strs_std (d : CommandDef) (t : HashTerm) (l : List Bytes) :
    runLoop d [⟨.stdString, .loopVar⟩] t (l.map Val.str) = some (chain t (l.map .str)) := by
  rw [runLoop_eq d _ (fun v => match v with | .str n => [.str n] | _ => []) _ _ t]
  · congr 2; induction l with
    | nil => rfl
    | cons x xs ih => simp [ih]
  · intro v hv t
    obtain ⟨n, _, rfl⟩ := List.mem_map.1 hv
    simp [runCombs, runComb, evalExpr, leafOf]

@[simp] theorem loop_pairs (d : CommandDef) (t : HashTerm) (l : List (Bytes × Bytes)) :
    runLoop d [⟨.stringRef, .sel .loopVar .first⟩, ⟨.stringRef, .sel .loopVar .second⟩] t
      (l.map fun p => Val.pair p.1 p.2) = some (chain t (l.flatMap pairLeaves)) := by
  rw [runLoop_eq d _ (fun v => match v with | .pair a b => [.str a, .str b] | _ => []) _ _ t]
  · congr 2; induction l with
    | nil => rfl
    | cons x xs ih => simp [ih, pairLeaves]
  · intro v hv t
    obtain ⟨n, _, rfl⟩ := List.mem_map.1 hv
    simp [runCombs, runComb, evalExpr, leafOf]

def extLeaves (d : CommandDef) : List HashTerm :=
  .int d.inputs.length :: (d.inputs.map .str ++
  (.int d.outputs.length :: (d.outputs.map .str ++
  [.bool d.allowMissingInputs, .bool d.allowModifiedOutputs, .bool d.alwaysOutOfDate])))

theorem external_closed (d : CommandDef) (n : Nat) :
    sigTerm recipeOf d (n+1) .externalCommand = some (chain (.str d.name) (extLeaves d)) := by
  simp [sigTerm, recipeOf, externalCommand, runSteps, runStep, runStmt, runComb, evalExpr, CommandDef.member, callMethod, leafOf, Val.elems, extLeaves, chain_append]

def b2n (b : Bool) : Nat := if b then 1 else 0

def shellLeaves (d : CommandDef) : List HashTerm :=
  if d.signatureData.isEmpty then
    .int d.args.length :: (d.args.map .str ++
    (.int d.env.length :: (d.env.flatMap pairLeaves ++
    (.int d.depsPaths.length :: (d.depsPaths.map .str ++
    [.int d.depsStyle, .int (b2n d.inheritEnv), .int (b2n d.canSafelyInterrupt),
     .str d.workingDirectory, .int (b2n d.controlEnabled)])))))
  else [.str d.signatureData]

theorem shell_closed (d : CommandDef) (n : Nat) :
    sigTerm recipeOf d (n+2) .shellCommand = some (chain (.str d.name) (extLeaves d ++ shellLeaves d)) := by
  have hs : sigTerm recipeOf d (n+2) .shellCommand =
      runSteps d (fun c' => sigTerm recipeOf d (n+1) c') none shellCommand := rfl
  rw [hs]
  simp only [shellCommand, runSteps, runStep, external_closed]
  cases h : d.signatureData.isEmpty <;>
  simp [h, runStmts, runStmt, runComb, evalExpr, CommandDef.member, callMethod, leafOf, Val.elems, shellLeaves, chain_append, b2n]

end Closed

/-! ### the recipes before the F7 / F10 repairs (extracted from commit 1f9749b; kept as data so that the
defects stay machine-checked: `Props/C09.lean` proves they are NOT injective) -/
namespace Prefix

def externalCommand : Recipe := [
  .initString (.call .this .getName),
  .stmt (.forRange (.member .inputs) [⟨.stringRef, (.call .loopVar .getName)⟩]),
  .stmt (.forRange (.member .outputs) [⟨.stringRef, (.call .loopVar .getName)⟩]),
  .stmt (.comb ⟨.bool, (.member .allowMissingInputs)⟩),
  .stmt (.comb ⟨.bool, (.member .allowModifiedOutputs)⟩),
  .stmt (.comb ⟨.bool, (.member .alwaysOutOfDate)⟩)]

def shellCommand : Recipe := [
  .cacheLoad .cachedSignature,
  .initBase .externalCommand,
  .ifElse (.not (.call (.member .signatureData) .empty)) [(.comb ⟨.stdString, (.member .signatureData)⟩)] [(.forRange (.member .args) [⟨.stringRef, .loopVar⟩]), (.forRange (.member .env) [⟨.stringRef, (.sel .loopVar .first)⟩, ⟨.stringRef, (.sel .loopVar .second)⟩]), (.forRange (.member .depsPaths) [⟨.stdString, .loopVar⟩]), (.comb ⟨.bool, (.toBool (.toInt (.member .depsStyle)))⟩), (.comb ⟨.bool, (.toBool (.toInt (.member .inheritEnv)))⟩), (.comb ⟨.bool, (.toBool (.toInt (.member .canSafelyInterrupt)))⟩)],
  .nullToOne,
  .cacheStore .cachedSignature]

def recipeOf : Cls → Option Recipe
  | .externalCommand => some externalCommand
  | .shellCommand => some shellCommand
  | _ => none

end Prefix

end LLBuild.Signature
