/-
C03 / C04 database layer: the invariant of the WHOLE world (file + lock + any number of connections) and its
preservation by every step of the model — any op, any connection slot, reads included.

`InvG n w`:  lock bit and states agree (`LockInv`); the committed snapshot is consistent (`SnapInv`, unique key_id);
every closed connection has empty caches, every open connection's caches name rows of the committed key_names, the
connection inside the write transaction has a consistent pending snapshot whose key_names extend the committed ones and
agree with its caches; every id is at most `n` (the budget grows by 1 + #dependencies per `setRuleResult`).
-/
import LLBuild.Lemmas.BuildDBMap

namespace LLBuild.BuildDB
open LLBuild.Generated

structure SnapOK (s : Snapshot) : Prop where
  inv : SnapInv s
  nodup : RowsNodup s

theorem SnapOK_none : SnapOK Snapshot.none := ⟨SnapInv_none, List.Pairwise.nil⟩
theorem SnapOK_fresh (client : Nat) : SnapOK (Snapshot.fresh client) := ⟨SnapInv_fresh client, List.Pairwise.nil⟩

theorem SnapOK_congr {s s' : Snapshot} (h1 : s'.keyNames = s.keyNames) (h2 : s'.rows = s.rows) (h : SnapOK s) : SnapOK s' := by
  refine ⟨⟨h1 ▸ h.inv.kn, ?_⟩, ?_⟩
  · intro id row hm
    rw [h1]; rw [h2] at hm
    exact h.inv.rows id row hm
  · unfold RowsNodup; rw [h2]; exact h.nodup

/-- one connection, relative to the committed snapshot; ids bounded by `n` -/
structure ConnOK (n : Nat) (committed : Snapshot) (cn : Conn) : Prop where
  closed : cn.state = .closed → cn.dbKeyIDs = [] ∧ cn.engineKeyIDs = []
  opened : cn.state = .opened → CacheOK cn committed.keyNames
  inTxn : cn.state = .inTxn → SnapOK cn.pending ∧ CacheOK cn cn.pending.keyNames ∧
      (∀ e ∈ committed.keyNames, e ∈ cn.pending.keyNames) ∧ maxId cn.pending.keyNames ≤ n

structure DataInv (n : Nat) (w : World) : Prop where
  snap : SnapOK w.committed
  small : maxId w.committed.keyNames ≤ n
  conn : ∀ c cn, w.conns c = some cn → ConnOK n w.committed cn

structure InvG (n : Nat) (w : World) : Prop where
  lock : LockInv w
  data : DataInv n w

def opWeight : Op → Nat
  | .set _ _ r => r.deps.length + 1
  | _ => 0

def opsWeight : List Op → Nat
  | [] => 0
  | op :: ops => opWeight op + opsWeight ops

theorem ConnOK_mono {n n' : Nat} (hn : n ≤ n') {s : Snapshot} {cn : Conn} (h : ConnOK n s cn) : ConnOK n' s cn :=
  ⟨h.closed, h.opened, fun hs => let ⟨a, b, c, d⟩ := h.inTxn hs; ⟨a, b, c, Nat.le_trans d hn⟩⟩

theorem DataInv_mono {n n' : Nat} (hn : n ≤ n') {w : World} (h : DataInv n w) : DataInv n' w :=
  ⟨h.snap, Nat.le_trans h.small hn, fun c cn hc => ConnOK_mono hn (h.conn c cn hc)⟩

theorem DataInv_init : DataInv 0 World.init :=
  ⟨SnapOK_none, by simp [World.init, Snapshot.none, maxId], by intro c cn h; simp [World.init] at h⟩

theorem InvG_init : InvG 0 World.init := ⟨LockInv_init, DataInv_init⟩

theorem closed_ConnOK (hcc : SQLiteDB.closeClearsCaches = true) (n : Nat) (s : Snapshot) (cn : Conn) : ConnOK n s cn.closed := by
  unfold Conn.closed
  simp only [hcc, ↓reduceIte]
  exact ⟨fun _ => ⟨rfl, rfl⟩, by simp, by simp⟩

theorem fresh_ConnOK (n : Nat) (s : Snapshot) (client : Nat) (rc : Bool) : ConnOK n s (Conn.fresh client rc) :=
  ⟨fun _ => ⟨rfl, rfl⟩, by simp [Conn.fresh], by simp [Conn.fresh]⟩

theorem DataInv_setConn {n : Nat} {w : World} {c : Nat} {cn : Conn} (h : DataInv n w) (hc : ConnOK n w.committed cn) :
    DataInv n (setConn w c cn) := by
  refine ⟨h.snap, h.small, ?_⟩
  intro c' cn' hc'
  simp only [setConn] at hc' ⊢
  by_cases hcc : c' = c
  · simp only [hcc, ↓reduceIte] at hc'
    injection hc' with hc'
    subst hc'
    exact hc
  · simp only [hcc, ↓reduceIte] at hc'
    exact h.conn c' cn' hc'

theorem DataInv_dropConn {n : Nat} {w : World} (h : DataInv n w) (c : Nat) : DataInv n (dropConn w c) := by
  have hcm : (dropConn w c).committed = w.committed := by unfold dropConn delConn; split <;> rfl
  refine ⟨hcm ▸ h.snap, hcm ▸ h.small, ?_⟩
  intro c' cn' hc'
  rw [hcm]
  have : w.conns c' = some cn' := by
    unfold dropConn delConn at hc'
    split at hc' <;> (simp only at hc'; split at hc' <;> first | cases hc' | exact hc')
  exact h.conn c' cn' this

/-- replacing the committed snapshot by an extension of it while nobody else is inside a transaction
(auto-commit write, or END of the transaction of `c`) -/
theorem DataInv_publish {n n' : Nat} (hn : n ≤ n') {w : World} (h : DataInv n w) {s : Snapshot} (hs : SnapOK s)
    (hsub : ∀ e ∈ w.committed.keyNames, e ∈ s.keyNames) (hmx : maxId s.keyNames ≤ n') (c : Nat)
    (hno : ∀ c' cn', c' ≠ c → w.conns c' = some cn' → cn'.state ≠ .inTxn) {cn : Conn} (hc : ConnOK n' s cn)
    (l : Option Nat) : DataInv n' (setConn { w with committed := s, lock := l } c cn) := by
  refine ⟨hs, hmx, ?_⟩
  intro c' cn' hc'
  simp only [setConn] at hc' ⊢
  by_cases hcc : c' = c
  · simp only [hcc, ↓reduceIte] at hc'
    injection hc' with hc'
    subst hc'
    exact hc
  · simp only [hcc, ↓reduceIte] at hc'
    have old := h.conn c' cn' hc'
    exact ⟨old.closed, fun ho => CacheOK_mono (old.opened ho) hsub, fun ht => absurd ht (hno c' cn' hcc hc')⟩

/-- after a successful `ensureOpen` the world is still fine and so is the (now open) connection -/
theorem DataInv_ensureOpen {n : Nat} {w : World} {c : Nat} {cn : Conn} {w1 : World} {cn1 : Conn} (h : DataInv n w)
    (hc : w.conns c = some cn) (he : ensureOpen w c cn = .ok (w1, cn1)) :
    DataInv n w1 ∧ ConnOK n w1.committed cn1 := by
  have ci := h.conn c cn hc
  obtain ⟨_, hcases⟩ := ensureOpen_ok_cases he
  rcases hcases with ⟨_, rfl, rfl⟩ | ⟨hst, _, rfl, rfl⟩ | ⟨hst, _, _, rfl, rfl⟩
  · exact ⟨h, ci⟩
  · have hcl := ci.closed hst
    exact ⟨h, ⟨by simp, fun _ => CacheOK_empty _ _ hcl.1 hcl.2, by simp⟩⟩
  · have hcl := ci.closed hst
    refine ⟨⟨SnapOK_fresh _, by simp [Snapshot.fresh, maxId], ?_⟩, ⟨by simp, fun _ => CacheOK_empty _ _ hcl.1 hcl.2, by simp⟩⟩
    intro c' cn' hc'
    simp only [forgetOpen] at hc'
    cases hw : w.conns c' with
    | none => simp [hw] at hc'
    | some cn0 =>
      simp only [hw] at hc'
      split at hc'
      · rename_i hst0
        injection hc' with hc'
        subst hc'
        have old := h.conn c' cn0 hw
        exact ⟨old.closed, fun ho => (by rw [hst0] at ho; cases ho), fun ht => (by rw [hst0] at ht; cases ht)⟩
      · cases hc'

/-- the view an open connection works on is consistent, agrees with its caches, and has small ids -/
theorem view_facts {n : Nat} {w1 : World} {cn1 : Conn} (h : DataInv n w1) (ci : ConnOK n w1.committed cn1)
    (hncl : cn1.state ≠ .closed) :
    SnapOK (view w1 cn1) ∧ CacheOK cn1 (view w1 cn1).keyNames ∧ maxId (view w1 cn1).keyNames ≤ n ∧
    (∀ e ∈ w1.committed.keyNames, e ∈ (view w1 cn1).keyNames) := by
  unfold view
  cases hst : cn1.state with
  | closed => exact absurd hst hncl
  | opened =>
    simp only [reduceCtorEq, ↓reduceIte]
    exact ⟨h.snap, ci.opened hst, h.small, fun _ he => he⟩
  | inTxn =>
    simp only [↓reduceIte]
    obtain ⟨a, b, c, d⟩ := ci.inTxn hst
    exact ⟨a, b, d, c⟩

/-- writing back a consistent extension `s` of the view (`setRuleResult`, `setCurrentIteration`) -/
theorem DataInv_putView {n n' : Nat} (hn : n ≤ n') {w1 : World} {c : Nat} {cn1 cn2 : Conn} (hl : LockInv w1)
    (h : DataInv n w1) (hiff : cn1.state = .inTxn ↔ w1.lock = some c) (hnb : w1.lock = none ∨ w1.lock = some c)
    (hncl : cn1.state ≠ .closed) (hctl : SameCtl cn1 cn2) {s : Snapshot} (hs : SnapOK s)
    (hsub : ∀ e ∈ (view w1 cn1).keyNames, e ∈ s.keyNames) (hsubc : ∀ e ∈ w1.committed.keyNames, e ∈ (view w1 cn1).keyNames)
    (hmx : maxId s.keyNames ≤ n') (hcache : CacheOK cn2 s.keyNames) :
    DataInv n' (putView w1 c cn2 s) := by
  unfold putView
  have hst2 : cn2.state = cn1.state := hctl.2.2.1
  by_cases hst : cn1.state = .inTxn
  · have : cn2.state = .inTxn := hst2.trans hst
    simp only [this, ↓reduceIte]
    apply DataInv_setConn (DataInv_mono hn h)
    refine ⟨by simp [this], by simp [this], fun _ => ⟨hs, ⟨fun k id hh => hcache.dbc k id hh, fun id k hh => hcache.ekc id k hh⟩, ?_, hmx⟩⟩
    intro e he
    exact hsub e (hsubc e he)
  · have hne : ¬ cn2.state = .inTxn := by rw [hst2]; exact hst
    simp only [hne, ↓reduceIte]
    have hview : view w1 cn1 = w1.committed := by unfold view; simp [hst]
    rw [hview] at hsub
    have hlock : w1.lock = none := by
      rcases hnb with hn | hs
      · exact hn
      · exact absurd (hiff.2 hs) hst
    have hop : cn2.state = .opened := by
      cases h2 : cn2.state with
      | closed => rw [hst2] at h2; exact absurd h2 hncl
      | opened => rfl
      | inTxn => exact absurd h2 hne
    have := DataInv_publish hn h hs hsub hmx c
      (fun c' cn' _ hc' ht => by have := hl.holder c' cn' hc' ht; rw [hlock] at this; cases this)
      (cn := cn2) ⟨fun hc => (by rw [hop] at hc; cases hc), fun _ => hcache, fun ht => absurd ht hne⟩ w1.lock
    exact this

/-! ### the read path keeps the caches in agreement with the table (no bound on ids needed) -/

theorem keyForId_cacheOK {cn : Conn} {kn : KN} (ok : KNOK kn) (c : CacheOK cn kn) (id : Nat) :
    CacheOK (keyForId cn kn id).1 kn := by
  unfold keyForId
  split
  · exact c
  · split
    · exact c
    · rename_i v hv
      have hm := mem_of_lookup hv
      obtain ⟨k, rfl⟩ := ok.textual _ _ hm
      exact CacheOK_cache c hm

theorem resolveDeps_cacheOK (dec : SQLiteDB.DepDec) {kn : KN} (ok : KNOK kn) : ∀ (raws : List Nat) (cn : Conn),
    CacheOK cn kn → CacheOK (resolveDeps dec cn kn raws).1 kn := by
  intro raws
  induction raws with
  | nil => intro cn c; exact c
  | cons raw raws ih =>
    intro cn c
    have h1 := keyForId_cacheOK ok c (decodeDep dec raw).1
    simp only [resolveDeps]
    split
    · rename_i cn1 hk
      rw [hk] at h1; exact h1
    · rename_i cn1 k hk
      rw [hk] at h1
      have h2 := ih cn1 h1
      split
      · rename_i cn2 ds hr; rw [hr] at h2; exact h2
      · rename_i cn2 e hr; rw [hr] at h2; exact h2

theorem decodeRow_cacheOK (dec : SQLiteDB.DepDec) {kn : KN} (ok : KNOK kn) {cn : Conn} (c : CacheOK cn kn) (row : Row) :
    CacheOK (decodeRow dec cn kn row).1 kn := by
  unfold decodeRow
  split
  · exact c
  · rename_i raws _
    have h := resolveDeps_cacheOK dec ok raws cn c
    split
    · rename_i cn1 ds hr; rw [hr] at h; exact h
    · rename_i cn1 e hr; rw [hr] at h; exact h

theorem findRow_cacheOK (hf : StoredKeyFaithful) {cn : Conn} {s : Snapshot} (ok : KNOK s.keyNames) (c : CacheOK cn s.keyNames)
    {k : Bytes} {id : Nat} {row : Row} {cn1 : Conn} (h : findRow cn s k = some (id, row, cn1)) : CacheOK cn1 s.keyNames := by
  unfold findRow at h
  split at h
  · simp only [Option.map_eq_some_iff] at h
    obtain ⟨row', _, h⟩ := h
    injection h with _ h
    injection h with _ h
    rw [← h]; exact c
  · split at h
    · cases h
    · rename_i id' hfk
      simp only [Option.map_eq_some_iff] at h
      obtain ⟨row', _, h⟩ := h
      injection h with _ h
      injection h with _ h
      rw [← h]
      rw [(hf k).2.2] at hfk
      exact CacheOK_cache c (findKeyIdWith_text_some ok hfk)

theorem applyLookup_cacheOK (hf : StoredKeyFaithful) {cn : Conn} {s : Snapshot} (ok : KNOK s.keyNames)
    (c : CacheOK cn s.keyNames) (k : Bytes) : CacheOK (applyLookup cn s k).1 s.keyNames := by
  unfold applyLookup
  split
  · exact c
  · rename_i id row cn1 hfr
    have h2 := decodeRow_cacheOK SQLiteDB.depDecLookup ok (findRow_cacheOK hf ok c hfr) row
    split
    · rename_i cn2 r hd; rw [hd] at h2; exact h2
    · rename_i cn2 e hd; rw [hd] at h2; exact h2

theorem applyKeys_cacheOK {kn : KN} (ok : KNOK kn) : ∀ (rows : List (Nat × Row)) (cn : Conn), CacheOK cn kn →
    CacheOK (applyKeys kn cn rows).1 kn := by
  intro rows
  induction rows with
  | nil => intro cn c; exact c
  | cons hd rest ih =>
    intro cn c
    obtain ⟨id, row⟩ := hd
    simp only [applyKeys]
    split
    · exact ih cn c
    · rename_i v hv
      have hm := mem_of_lookup hv
      obtain ⟨k, rfl⟩ := ok.textual _ _ hm
      have h1 : CacheOK (cn.cache id (SqlValue.text k).toText) kn := CacheOK_cache c hm
      have h2 := decodeRow_cacheOK SQLiteDB.depDecKeys ok h1 row
      split
      · rename_i cn1 e hd; rw [hd] at h2; exact h2
      · rename_i cn1 r hd
        rw [hd] at h2
        have h3 := ih cn1 h2
        split
        · rename_i cn2 l hk; rw [hk] at h3; exact h3
        · rename_i cn2 e hk; rw [hk] at h3; exact h3

/-- a connection that only had its caches changed, consistently with its view -/
theorem ConnOK_caches {n : Nat} {w1 : World} {cn1 cn2 : Conn} (ci : ConnOK n w1.committed cn1) (hncl : cn1.state ≠ .closed)
    (hctl : SameCtl cn1 cn2) (hcache : CacheOK cn2 (view w1 cn1).keyNames) : ConnOK n w1.committed cn2 := by
  obtain ⟨_, _, hst, hp⟩ := hctl
  refine ⟨fun hc => absurd (hst ▸ hc) hncl, ?_, ?_⟩
  · intro ho
    have ho1 : cn1.state = .opened := hst ▸ ho
    have : view w1 cn1 = w1.committed := by unfold view; simp [ho1]
    rw [this] at hcache; exact hcache
  · intro ht
    have ht1 : cn1.state = .inTxn := hst ▸ ht
    have : view w1 cn1 = cn1.pending := by unfold view; simp [ht1]
    rw [this] at hcache
    obtain ⟨a, _, c, d⟩ := ci.inTxn ht1
    rw [hp]
    exact ⟨a, hcache, c, d⟩

theorem DataInv_step (hf : StoredKeyFaithful) (hcc : SQLiteDB.closeClearsCaches = true) {n : Nat} {w : World}
    (hl : LockInv w) (h : DataInv n w) (op : Op) : DataInv (n + opWeight op) (step w op).1 := by
  cases op with
  | reset => exact DataInv_mono (Nat.zero_le _) DataInv_init
  | crash =>
    exact ⟨h.snap, h.small, by intro c cn hc; simp [step] at hc⟩
  | new c cl rc =>
    simp only [step, opWeight, Nat.add_zero]
    exact DataInv_setConn (DataInv_dropConn h c) (fresh_ConnOK _ _ _ _)
  | drop c =>
    simp only [step, opWeight, Nat.add_zero]
    cases hc : w.conns c with
    | none => exact h
    | some cn => exact DataInv_dropConn h c
  | epoch c =>
    simp only [step, withOpen, opWeight, Nat.add_zero]
    cases hc : w.conns c with
    | none => exact h
    | some cn =>
      simp only
      cases he : ensureOpen w c cn with
      | error e => exact h
      | ok p =>
        obtain ⟨w1, cn1⟩ := p
        obtain ⟨h1, ci1⟩ := DataInv_ensureOpen h hc he
        exact DataInv_setConn h1 ci1
  | setiter c m =>
    simp only [step, withOpen, opWeight, Nat.add_zero]
    cases hc : w.conns c with
    | none => exact h
    | some cn =>
      simp only
      cases he : ensureOpen w c cn with
      | error e => exact h
      | ok p =>
        obtain ⟨w1, cn1⟩ := p
        obtain ⟨h1, ci1⟩ := DataInv_ensureOpen h hc he
        obtain ⟨hl1, _, hnb, hiff, hncl⟩ := ensureOpen_lock hl hc he
        obtain ⟨v1, v2, v3, v4⟩ := view_facts h1 ci1 hncl
        exact DataInv_putView (Nat.le_refl n) hl1 h1 hiff hnb hncl (SameCtl.rfl' cn1) (SnapOK_congr (s := view w1 cn1) rfl rfl v1)
          (fun _ he => he) v4 v3 v2
  | start c =>
    simp only [step, withOpen, opWeight, Nat.add_zero]
    cases hc : w.conns c with
    | none => exact h
    | some cn =>
      simp only
      cases he : ensureOpen w c cn with
      | error e => exact h
      | ok p =>
        obtain ⟨w1, cn1⟩ := p
        obtain ⟨h1, ci1⟩ := DataInv_ensureOpen h hc he
        obtain ⟨hl1, _, hnb, hiff, hncl⟩ := ensureOpen_lock hl hc he
        simp only
        split
        · exact DataInv_setConn h1 ci1
        · rename_i hst
          have hop : cn1.state = .opened := by
            cases h2 : cn1.state with
            | closed => exact absurd h2 hncl
            | opened => rfl
            | inTxn => exact absurd h2 hst
          have hco := ci1.opened hop
          apply DataInv_setConn (w := { w1 with lock := some c }) ⟨h1.snap, h1.small, h1.conn⟩
          exact ⟨by simp, by simp, fun _ => ⟨h1.snap, ⟨fun k id hh => hco.dbc k id hh, fun id k hh => hco.ekc id k hh⟩,
            fun _ he => he, h1.small⟩⟩
  | complete c =>
    simp only [step, opWeight, Nat.add_zero]
    cases hc : w.conns c with
    | none => exact h
    | some cn =>
      simp only
      have ci := h.conn c cn hc
      split
      · rename_i hst
        obtain ⟨p1, _, p3, p4⟩ := ci.inTxn hst
        have hlc := hl.holder c cn hc hst
        exact DataInv_publish (Nat.le_refl n) h p1 p3 p4 c
          (fun c' cn' hne hc' ht => by
            have := hl.holder c' cn' hc' ht
            rw [hlc] at this; injection this with this; exact hne this.symm)
          (closed_ConnOK hcc _ _ _) none
      · exact DataInv_setConn h (closed_ConnOK hcc _ _ _)
  | set c k r =>
    simp only [step, withOpen, opWeight]
    cases hc : w.conns c with
    | none => exact DataInv_mono (Nat.le_add_right _ _) h
    | some cn =>
      simp only
      cases he : ensureOpen w c cn with
      | error e => exact DataInv_mono (Nat.le_add_right _ _) h
      | ok p =>
        obtain ⟨w1, cn1⟩ := p
        obtain ⟨h1, ci1⟩ := DataInv_ensureOpen h hc he
        obtain ⟨hl1, _, hnb, hiff, hncl⟩ := ensureOpen_lock hl hc he
        obtain ⟨v1, v2, v3, v4⟩ := view_facts h1 ci1 hncl
        obtain ⟨s1, s2, s3, s4, s5, _⟩ := applySet_full hf cn1 (view w1 cn1) k r v1.inv v1.nodup v2
        exact DataInv_putView (Nat.le_add_right _ _) hl1 h1 hiff hnb hncl (applySet_ctl cn1 (view w1 cn1) k r) ⟨s1, s2⟩
          s4 v4 (by omega) s3
  | lookup c k =>
    simp only [step, withOpen, opWeight, Nat.add_zero]
    cases hc : w.conns c with
    | none => exact h
    | some cn =>
      simp only
      cases he : ensureOpen w c cn with
      | error e => exact h
      | ok p =>
        obtain ⟨w1, cn1⟩ := p
        obtain ⟨h1, ci1⟩ := DataInv_ensureOpen h hc he
        obtain ⟨_, _, _, _, hncl⟩ := ensureOpen_lock hl hc he
        obtain ⟨v1, v2, _, _⟩ := view_facts h1 ci1 hncl
        exact DataInv_setConn h1 (ConnOK_caches ci1 hncl (applyLookup_ctl _ _ _) (applyLookup_cacheOK hf v1.inv.kn v2 k))
  | keys c =>
    simp only [step, withOpen, opWeight, Nat.add_zero]
    cases hc : w.conns c with
    | none => exact h
    | some cn =>
      simp only
      cases he : ensureOpen w c cn with
      | error e => exact h
      | ok p =>
        obtain ⟨w1, cn1⟩ := p
        obtain ⟨h1, ci1⟩ := DataInv_ensureOpen h hc he
        obtain ⟨_, _, _, _, hncl⟩ := ensureOpen_lock hl hc he
        obtain ⟨v1, v2, _, _⟩ := view_facts h1 ci1 hncl
        have hctl := applyKeys_ctl (view w1 cn1).keyNames (sortRows (view w1 cn1).rows) cn1
        have hca := applyKeys_cacheOK v1.inv.kn (sortRows (view w1 cn1).rows) cn1 v2
        simp only
        split
        · rename_i cn2 l hk
          rw [hk] at hctl hca
          exact DataInv_setConn h1 (ConnOK_caches ci1 hncl hctl hca)
        · rename_i cn2 e hk
          rw [hk] at hctl hca
          exact DataInv_setConn h1 (ConnOK_caches ci1 hncl hctl hca)

theorem InvG_step (hf : StoredKeyFaithful) (hcc : SQLiteDB.closeClearsCaches = true) {n : Nat} {w : World}
    (h : InvG n w) (op : Op) : InvG (n + opWeight op) (step w op).1 :=
  ⟨LockInv_step h.lock op, DataInv_step hf hcc h.lock h.data op⟩

theorem InvG_run (hf : StoredKeyFaithful) (hcc : SQLiteDB.closeClearsCaches = true) : ∀ (ops : List Op) (n : Nat) (w : World),
    InvG n w → InvG (n + opsWeight ops) (run w ops) := by
  intro ops
  induction ops with
  | nil => intro n w h; exact h
  | cons op rest ih =>
    intro n w h
    have := ih _ _ (InvG_step hf hcc h op)
    simp only [opsWeight, run]
    rw [← Nat.add_assoc]
    exact this

/-! ### small facts for the epoch invariant of C04 -/

theorem applySet_rows (cn : Conn) (s : Snapshot) (k : Bytes) (r : Result) :
    (applySet cn s k r).2.iteration = s.iteration ∧
    ∃ id blob, (applySet cn s k r).2.rows = putRow s.rows id ⟨r.value, r.signature, r.builtAt, r.computedAt, blob⟩ := by
  simp only [applySet]
  exact ⟨trivial, _, _, rfl⟩

/-- the connection inside the transaction is never refused -/
theorem ensureOpen_inTxn {w : World} {c : Nat} {cn : Conn} (hl : LockInv w) (hc : w.conns c = some cn)
    (hst : cn.state = .inTxn) : ensureOpen w c cn = .ok (w, cn) := by
  have := hl.holder c cn hc hst
  unfold ensureOpen blocked
  simp [this, hst]

end LLBuild.BuildDB
