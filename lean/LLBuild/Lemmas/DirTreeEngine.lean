/-
C12 on the engine: the directory tasks of the BuildSystem as an engine `Program`, and what `Clean` (the value a
brand-new engine computes, Lemmas/Engine/Defs.lean) means for it.

Part 1 (namespace LLBuild.Engine): lemmas about delivery sequences of tasks whose request KEYS depend on delivered
values.  `DirectoryTreeSignatureTask` requests `Node(path/filenames[i])` under id `1+i`, where `filenames` is the
delivered directory listing, so WHICH key an id stands for depends on what was received; within each single request
list the ids are distinct, and requests are monotone.  That is exactly `Program.Mono` (Lemmas/Engine/Determinism.lean;
`Program.LocalIds` is its name here), the hypothesis under which `Clean` is single-valued (`Clean_unique`).
-/
import LLBuild.Lemmas.Engine.Determinism
import LLBuild.Lemmas.Engine.Run
import LLBuild.Lemmas.DirTree

namespace LLBuild.Engine

/-- the value a task finds under an input id -/
def recvAt : Recv → Nat → Option Val
  | [], _ => none
  | (i, v) :: rest, id => if i = id then some v else recvAt rest id

theorem recvAt_mem : ∀ {r : Recv} {i : Nat} {x : Val}, recvAt r i = some x → (i, x) ∈ r
  | [], _, _, h => by simp [recvAt] at h
  | (j, w) :: rest, i, x, h => by
    simp only [recvAt] at h
    split at h
    · rename_i e; cases h; subst e; simp
    · exact List.mem_cons_of_mem _ (recvAt_mem h)

theorem recvAt_of_mem : ∀ {r : Recv}, SortedIds r → ∀ {i : Nat} {x : Val}, (i, x) ∈ r → recvAt r i = some x
  | [], _, _, _, h => by cases h
  | (j, w) :: rest, hs, i, x, h => by
    have hs' := List.pairwise_cons.1 hs
    simp only [recvAt]
    rcases List.mem_cons.1 h with e | e
    · cases e; simp
    · have := hs'.1 _ e
      have hne : ¬ j = i := by simp at this; omega
      simp only [hne, if_false]
      exact recvAt_of_mem hs'.2 e

/-- more received values never retract a request, and ids are distinct within each request list: the request
hypothesis of the engine's determinism theorems (`valid_seq_inv`, `mem_recvOf`, `Clean_unique`) -/
abbrev Program.LocalIds (P : Program) : Prop := P.Mono

/-- a value-carrying request of a completed task was delivered, and the task finds that value under its id -/
theorem complete_recv {P : Program} (hL : P.LocalIds) {k : Key} {seq : Seq} (hv : validSeq P k seq = true)
    (hc : completeSeq P k seq = true) {q : Req} (hq : q ∈ P.next k (recvOf seq)) (hk : q.kind = 0) :
    ∃ v, (q, v) ∈ seq ∧ recvAt (recvOf seq) q.id = some v := by
  have hi := next_sub_issued P k seq q hq
  have hd := List.all_eq_true.1 hc q hi
  simp only [hk, Bool.or_eq_true] at hd
  rcases hd with hd | hd
  · simp at hd
  · obtain ⟨v, hm⟩ := (delivered_iff seq q).1 hd
    refine ⟨v, hm, recvAt_of_mem (sorted_recvOf seq) ?_⟩
    exact ((valid_seq_inv hL k seq hv).2 q.id v).2 ⟨q, v, hm, rfl, by simp [maskVal, hk]⟩

/-! ### building delivery sequences -/

theorem valid_cons {P : Program} {k : Key} {seq : Seq} {q : Req} {v : Val} (hv : validSeq P k seq = true)
    (hq : q ∈ P.next k (recvOf seq)) (hk : q.kind = 0) (hnd : ∀ w, (q, w) ∉ seq) :
    validSeq P k ((q, v) :: seq) = true := by
  simp only [validSeq, Bool.and_eq_true]
  refine ⟨⟨⟨hv, ?_⟩, ?_⟩, ?_⟩
  · simpa using next_sub_issued P k seq q hq
  · simp [hk]
  · cases hd : delivered seq q
    · rfl
    · obtain ⟨w, hw⟩ := (delivered_iff seq q).1 hd
      exact absurd hw (hnd w)

theorem recvOf_sub_cons {P : Program} (hL : P.LocalIds) {k : Key} {seq : Seq} {d : Req × Val}
    (hv : validSeq P k (d :: seq) = true) : ∀ x ∈ recvOf seq, x ∈ recvOf (d :: seq) := by
  have hvr : validSeq P k seq = true := by
    obtain ⟨q, v⟩ := d
    simp only [validSeq, Bool.and_eq_true] at hv
    exact hv.1.1.1
  rintro ⟨i, x⟩ hx
  obtain ⟨q0, v0, hm, hid, hxe⟩ := ((valid_seq_inv hL k seq hvr).2 i x).1 hx
  exact ((valid_seq_inv hL k _ hv).2 i x).2 ⟨q0, v0, List.mem_cons_of_mem _ hm, hid, hxe⟩

/-- deliver, one after the other, requests that are all outstanding already -/
theorem valid_extend {P : Program} (hL : P.LocalIds) (k : Key) : ∀ (D : List (Req × Val)) (seq : Seq),
    validSeq P k seq = true → (∀ d ∈ D, d.1.kind = 0) → (D.map (·.1)).Nodup →
    (∀ d ∈ D, ∀ w, (d.1, w) ∉ seq) → (∀ d ∈ D, d.1 ∈ P.next k (recvOf seq)) →
    validSeq P k (D.reverse ++ seq) = true
  | [], seq, hv, _, _, _, _ => by simpa using hv
  | d :: D, seq, hv, hk, hnd, hfresh, hreq => by
    obtain ⟨q, v⟩ := d
    have hv1 : validSeq P k ((q, v) :: seq) = true :=
      valid_cons hv (hreq (q, v) (by simp)) (hk (q, v) (by simp)) (hfresh (q, v) (by simp))
    simp only [List.map_cons, List.nodup_cons] at hnd
    have := valid_extend hL k D ((q, v) :: seq) hv1 (fun d hd => hk d (List.mem_cons_of_mem _ hd)) hnd.2
      (by
        intro d hd w hm
        rcases List.mem_cons.1 hm with e | e
        · have : d.1 = q := by cases e; rfl
          exact hnd.1 (by rw [← this]; exact List.mem_map.2 ⟨d, hd, rfl⟩)
        · exact hfresh d (List.mem_cons_of_mem _ hd) w e)
      (by
        intro d hd
        exact hL.mono k _ _ (sorted_recvOf _) (sorted_recvOf _) (recvOf_sub_cons hL hv1) _
          (hreq d (List.mem_cons_of_mem _ hd)))
    simpa using this

theorem complete_of {P : Program} (hL : P.LocalIds) {k : Key} {seq : Seq} (hv : validSeq P k seq = true)
    (hall : ∀ q, q ∈ P.next k (recvOf seq) → ∃ v, (q, v) ∈ seq) : completeSeq P k seq = true := by
  unfold completeSeq
  apply List.all_eq_true.2
  intro q hq
  obtain ⟨v, hm⟩ := hall q ((valid_seq_inv hL k seq hv).1 q hq)
  simp [(delivered_iff seq q).2 ⟨v, hm⟩]

theorem recv_of_valid {P : Program} (hL : P.LocalIds) {k : Key} {seq : Seq} (hv : validSeq P k seq = true)
    {q : Req} {v : Val} (hm : (q, v) ∈ seq) (hk : q.kind = 0) : recvAt (recvOf seq) q.id = some v :=
  recvAt_of_mem (sorted_recvOf seq) (((valid_seq_inv hL k seq hv).2 q.id v).2 ⟨q, v, hm, rfl, by simp [maskVal, hk]⟩)

/-- a task with a fixed list of value-carrying requests (distinct) whose keys all have clean values has one -/
theorem clean_static {P : Program} (hL : P.LocalIds) {env : Env} {k : Key} {L : List Req}
    (hn : ∀ recv, P.next k recv = L) (hk : ∀ q ∈ L, q.kind = 0) (hnd : L.Nodup) (ans : Req → Val)
    (hcl : ∀ q ∈ L, Clean P env q.key (ans q)) : ∃ v, Clean P env k v := by
  have hD : (L.map (fun q => (q, ans q))).map (·.1) = L := by simp [List.map_map, Function.comp_def]
  have hv : validSeq P k ((L.map (fun q => (q, ans q))).reverse ++ []) = true := by
    apply valid_extend hL k _ [] (by simp [validSeq])
    · intro d hd; obtain ⟨q, hq, rfl⟩ := List.mem_map.1 hd; exact hk q hq
    · rw [hD]; exact hnd
    · intro d _ w hm; cases hm
    · intro d hd; obtain ⟨q, hq, rfl⟩ := List.mem_map.1 hd; rw [hn]; exact hq
  simp only [List.append_nil] at hv
  refine ⟨_, Clean.mk k _ hv (complete_of hL hv ?_) ?_⟩
  · intro q hq
    rw [hn] at hq
    exact ⟨ans q, by simp only [List.mem_reverse, List.mem_map]; exact ⟨q, hq, rfl⟩⟩
  · intro q v hm _
    simp only [List.mem_reverse, List.mem_map] at hm
    obtain ⟨q', hq', e⟩ := hm
    cases e
    exact hcl q hq'


/-! ### what a stretch of a trace leaves alone -/

/-- events that neither edit the external state nor reload the in-memory results -/
def keepsFs : Event → Bool
  | .mutate _ _ => false
  | .wipe => false
  | .restart => false
  | .crash => false
  | _ => true

/-- such an event, unless it is the completion of `k`'s own task, changes neither the external state nor the
stored value of `k` -/
theorem step_keeps {P : Program} {s s' : St} {e : Event} (k : Key) (h : step P s e = some s')
    (hr : keepsFs e = true) (hk : ∀ v f, e ≠ .complete k v f) :
    s'.env = s.env ∧ (s'.mem.res k).value = (s.mem.res k).value := by
  cases e <;> simp only [keepsFs] at hr <;> simp only [step] at h
  case complete k' v f =>
    split at h
    · cases h
      have : k ≠ k' := fun e => hk v f (by rw [e])
      simp [Store.setRes, upd, this]
    · cases h
  all_goals (repeat' split at h)
  all_goals first
    | (cases hr; done)
    | (cases h; exact ⟨rfl, rfl⟩)
    | (cases h; refine ⟨rfl, ?_⟩; simp only [Store.setRes, upd]; split <;> simp_all)
    | (cases h; done)

theorem run_keeps {P : Program} (k : Key) : ∀ (es : List Event) (s s' : St), run P s es = some s' →
    (∀ e ∈ es, keepsFs e = true ∧ ∀ v f, e ≠ .complete k v f) →
    s'.env = s.env ∧ (s'.mem.res k).value = (s.mem.res k).value
  | [], s, s', h, _ => by simp [run] at h; subst h; exact ⟨rfl, rfl⟩
  | e :: es, s, s', h, hes => by
    simp only [run] at h
    cases hs : step P s e with
    | none => rw [hs] at h; simp at h
    | some s1 =>
      rw [hs] at h
      simp only [Option.bind] at h
      have h1 := step_keeps k hs (hes e (by simp)).1 (hes e (by simp)).2
      have h2 := run_keeps k es s1 s' h (fun e' he' => hes e' (List.mem_cons_of_mem _ he'))
      exact ⟨h2.1.trans h1.1, h2.2.trans h1.2⟩

theorem step_keeps_computedAt {P : Program} {s s' : St} {e : Event} (k : Key) (h : step P s e = some s')
    (hr : keepsFs e = true) (hk : ∀ v f, e ≠ .complete k v f) :
    (s'.mem.res k).computedAt = (s.mem.res k).computedAt := by
  cases e <;> simp only [keepsFs] at hr <;> simp only [step] at h
  case complete k' v f =>
    split at h
    · cases h
      have : k ≠ k' := fun e => hk v f (by rw [e])
      simp [Store.setRes, upd, this]
    · cases h
  all_goals (repeat' split at h)
  all_goals first
    | (cases hr; done)
    | (cases h; rfl)
    | (cases h; simp only [Store.setRes, upd]; split <;> simp_all)
    | (cases h; done)

/-- the ghost flag is sticky along such events -/
theorem step_dropped_keeps {P : Program} {s s' : St} {e : Event} (h : step P s e = some s')
    (hr : keepsFs e = true) (hd : s.pendingDropped = true) : s'.pendingDropped = true := by
  cases e <;> simp only [keepsFs] at hr <;> simp only [step] at h
  all_goals (repeat' split at h)
  all_goals first
    | (cases hr; done)
    | (cases h; exact hd)
    | (cases h; simp [hd]; done)
    | (cases h; done)

theorem run_dropped_keeps {P : Program} : ∀ (es : List Event) (s s' : St), run P s es = some s' →
    (∀ e ∈ es, keepsFs e = true) → s.pendingDropped = true → s'.pendingDropped = true
  | [], s, s', h, _, hd => by simp [run] at h; subst h; exact hd
  | e :: es, s, s', h, hes, hd => by
    simp only [run] at h
    cases hs : step P s e with
    | none => rw [hs] at h; simp at h
    | some s1 =>
      rw [hs] at h
      simp only [Option.bind] at h
      exact run_dropped_keeps es s1 s' h (fun e' he' => hes e' (List.mem_cons_of_mem _ he'))
        (step_dropped_keeps hs (hes e (by simp)) hd)

theorem run_append {P : Program} : ∀ (a b : List Event) (s : St),
    run P s (a ++ b) = (run P s a).bind (fun s' => run P s' b)
  | [], b, s => by simp [run]
  | e :: a, b, s => by
    simp only [List.cons_append, run]
    cases step P s e with
    | none => simp
    | some s1 => simp only [Option.bind]; exact run_append a b s1

end LLBuild.Engine

/-! ## Part 2: the directory tasks as an engine `Program`

Keys (`DKey`) and values (`DVal`) are structured; the engine's keys and values are natural numbers, so the client is
parameterised by an injective coding (`Coding`: encoders with left inverses; a concrete one is `natCoding`,
Lemmas/DirTreeEngineCoding.lean).
External state: slot `key (.stat p)` holds `val (.stat info isDir)` — what `stat(p)` reports (`isDir` = `S_ISDIR`) —
and slot `key (.ents p)` holds `val (.ents entries)` — what `readdir(p)` returns, in directory order, each entry
with the "dangling symbolic link" flag the listing loops are sensitive to.

Rules (lib/BuildSystem/BuildSystem.cpp):
* `stat p`      `Node(p)` for a path no command produces (`FileInputNodeTask`): an input rule.
* `ents p`      the directory listing as an input rule.  The real `DirectoryContentsTask` /
                `FilteredDirectoryContentsTask` read the directory inside `inputsAvailable`; the engine model only
                lets input rules read external state (`Program.WF`), so the read is a request to this key.
                Valid iff equal to the `readdir` slot: that is `DirectoryContentsTask::isResultValid` (re-lists and
                compares) and the filtered task once it has the same check (F57).  The filtered task AS CODED
                (`IsValid = nullptr`) re-lists only when the directory's stat record changed: the engine then sees the
                file system through `staleEnv` (Lemmas/DirTreeStat.lean; theorems with the explicit hypothesis
                `StatDiscipline` and the counterexample without it in Props/C12Stat.lean).
* `contents p`  `DirectoryContents(p)` / `FilteredDirectoryContents(p, filters)`: stat value + listing ↦ the
                `BuildValue` (`dirValue`, `leafRootValue`).
* `sig s p`     `DirectoryTreeSignature(p, filters)` (`s = false`) / `DirectoryTreeStructureSignature` (`s = true`):
                requests `contents p` under id 0; once it is delivered, `Node(p/nᵢ)` under id `1+i` for every listed
                name; once child `i` is delivered and is an existing directory, `sig s (p/nᵢ)` under id `1+n+i`;
                completes with the recipe steps (`treeBase`/`treeStep`, `structBase`/`structStep`) folded over the
                children in listing order.
* `dirNode s p` `Node(p/)` (`DirectoryInputNodeTask` / `DirectoryStructureInputNodeTask`): forwards `sig s p`.
* `cmd s p`     a command whose only input is `Node(p/)` and whose result is an injective function of what it is
                handed (the most discriminating consumer).
-/

namespace LLBuild.DirTree
open LLBuild.Engine
open LLBuild.Codec (Value)

inductive DKey
  | stat (p : Bytes)
  | ents (p : Bytes)
  | contents (p : Bytes)
  | sig (s : Bool) (p : Bytes)
  | dirNode (s : Bool) (p : Bytes)
  | cmd (s : Bool) (p : Bytes)
  deriving DecidableEq, Repr

inductive DVal
  | stat (i : Option Info) (isDir : Bool)
  | ents (es : List (Name × Bool))
  | bv (v : Value)
  | sig (t : HashTerm)
  | cmd (x : Nat)
  deriving DecidableEq, Repr

/-- injective numbering of keys and values -/
structure Coding where
  key : DKey → Nat
  unkey : Nat → Option DKey
  val : DVal → Nat
  unval : Nat → Option DVal
  unkey_key : ∀ k, unkey (key k) = some k
  unval_val : ∀ v, unval (val v) = some v

theorem Coding.key_inj (C : Coding) {a b : DKey} (h : C.key a = C.key b) : a = b := by
  have := congrArg C.unkey h
  simpa [C.unkey_key] using this

theorem Coding.val_inj (C : Coding) {a b : DVal} (h : C.val a = C.val b) : a = b := by
  have := congrArg C.unval h
  simpa [C.unval_val] using this

section Client
variable (C : Coding) (c : Cfg)

/-! ### decoding delivered values -/

def decode (x : Option Val) : Option DVal := x.bind C.unval

/-- `Node(child)` as a `BuildValue` -/
def childValue (x : Option Val) : Value :=
  match decode C x with
  | some (.stat (some i) _) => existingInput i
  | _ => missingInput

/-- `value.isExistingInput() && value.getOutputInfo().isDirectory()` -/
def wantsSub (x : Option Val) : Bool :=
  match decode C x with
  | some (.stat (some _) true) => true
  | _ => false

def subTerm (x : Option Val) : Option HashTerm :=
  match decode C x with
  | some (.sig t) => some t
  | _ => none

/-- the directory value delivered under id 0 -/
def dirV (x : Option Val) : Value :=
  match decode C x with
  | some (.bv v) => v
  | _ => missingInput

/-- `(filters.isEmpty() && value.isDirectoryContents()) || (!filters.isEmpty() && value.isFilteredDirectoryContents())` -/
def isListing (v : Value) : Bool :=
  if c.filtered then v.kind == .FilteredDirectoryContents else v.kind == .DirectoryContents

def namesOfV (v : Value) : List Name := if isListing c v then v.strings else []

/-- the listing loops over the raw entries (`obsList` without the subtrees) -/
def rawKeep : List (Name × Bool) → List (Name × Unit)
  | [] => []
  | (n, dangling) :: rest =>
    if c.stopsAtDangling && dangling then []
    else if c.hidden n then rawKeep rest else (n, ()) :: rawKeep rest

def rawListing (es : List (Name × Bool)) : List Name := names (sortBy c.before (rawKeep c es))

/-- what `(Filtered)DirectoryContentsTask::inputsAvailable` completes with -/
def contentsOut (x y : Option Val) : Value :=
  match decode C x with
  | some (.stat (some i) true) =>
    match decode C y with
    | some (.ents es) => dirValue c i (rawListing c es)
    | _ => dirValue c i []
  | some (.stat o _) => leafRootValue c o
  | _ => missingInput

/-! ### the signature tasks -/

def base (s : Bool) (path : Bytes) (dv : Value) : HashTerm := if s then structBase path dv else treeBase path dv
def stepS (s : Bool) (acc : HashTerm) (ch : ChildCtx) : HashTerm := if s then structStep acc ch else treeStep acc ch

/-- `ti.request(BuildKey::makeNode(childPath), 1 + i)` for every listed name -/
def childReqs (p : Bytes) : Nat → List Name → List Req
  | _, [] => []
  | j, n :: ns => ⟨C.key (.stat (pathAppend p n)), j, 0⟩ :: childReqs p (j + 1) ns

/-- `ti.request(BuildKey::makeDirectoryTree…Signature(childPath, filters), 1 + childResults.size() + index)` for
every child delivered as an existing directory -/
def subReqs (s : Bool) (p : Bytes) (recv : Recv) (off : Nat) : Nat → List Name → List Req
  | _, [] => []
  | j, n :: ns =>
    (if wantsSub C (recvAt recv j) then [⟨C.key (.sig s (pathAppend p n)), off + j, 0⟩] else []) ++
      subReqs s p recv off (j + 1) ns

/-- `inputsAvailable`: the per-child step folded over `childResults` in order -/
def chainOut (s : Bool) (recv : Recv) (off : Nat) : Nat → List Name → HashTerm → HashTerm
  | _, [], acc => acc
  | j, n :: ns, acc =>
    chainOut s recv off (j + 1) ns
      (stepS s acc ⟨n, childValue C (recvAt recv j),
        if wantsSub C (recvAt recv j) then subTerm C (recvAt recv (off + j)) else none⟩)

def sigNext (s : Bool) (p : Bytes) (recv : Recv) : List Req :=
  let ns := namesOfV c (dirV C (recvAt recv 0))
  ⟨C.key (.contents p), 0, 0⟩ :: (childReqs C p 1 ns ++ subReqs C s p recv ns.length 1 ns)

def sigOut (s : Bool) (p : Bytes) (recv : Recv) : Val :=
  let dv := dirV C (recvAt recv 0)
  let ns := namesOfV c dv
  C.val (.sig (chainOut C s recv ns.length 1 ns (base s p dv)))

def nextOf (k : Key) (recv : Recv) : List Req :=
  match C.unkey k with
  | some (.contents p) => [⟨C.key (.stat p), 0, 0⟩, ⟨C.key (.ents p), 1, 0⟩]
  | some (.sig s p) => sigNext C c s p recv
  | some (.dirNode s p) => [⟨C.key (.sig s p), 0, 0⟩]
  | some (.cmd s p) => [⟨C.key (.dirNode s p), 0, 0⟩]
  | _ => []

def outOf (k : Key) (env : Env) (recv : Recv) : Val :=
  match C.unkey k with
  | some (.stat _) => env k
  | some (.ents _) => env k
  | some (.contents _) => C.val (.bv (contentsOut C c (recvAt recv 0) (recvAt recv 1)))
  | some (.sig s p) => sigOut C c s p recv
  | some (.dirNode _ _) => (recvAt recv 0).getD 0
  | some (.cmd _ _) => C.val (.cmd ((recvAt recv 0).getD 0))
  | none => 0

def selfOf (k : Key) : Bool :=
  match C.unkey k with
  | some (.stat _) => true
  | some (.ents _) => true
  | _ => false

/-- The rule set.  `sg` (rule signatures) and `vld` (the validity predicates of the derived rules) are arbitrary:
nothing below depends on them.  Input rules are valid iff their value is the current slot content. -/
def prog (sg : Env → Key → Nat) (vld : Env → Key → Val → Bool) : Program where
  sig := sg
  valid := fun env k v => if selfOf C k then v == env k else vld env k v
  next := nextOf C c
  disc := fun _ _ => []
  out := outOf C c
  force := fun _ => false
  self := selfOf C


/-! ### request lists -/

theorem mem_childReqs {p : Bytes} {ns : List Name} {j : Nat} {q : Req} :
    q ∈ childReqs C p j ns ↔ ∃ idx n, ns[idx]? = some n ∧ q = ⟨C.key (.stat (pathAppend p n)), j + idx, 0⟩ := by
  induction ns generalizing j with
  | nil => simp [childReqs]
  | cons n ns ih =>
    simp only [childReqs, List.mem_cons, ih]
    constructor
    · rintro (h | ⟨i, m, hi, hq⟩)
      · exact ⟨0, n, by simp, by simpa using h⟩
      · exact ⟨i + 1, m, by simpa using hi, by rw [hq]; congr 1; omega⟩
    · rintro ⟨i, m, hi, hq⟩
      cases i with
      | zero => left; simp at hi; rw [hq, ← hi]; rfl
      | succ i => right; exact ⟨i, m, by simpa using hi, by rw [hq]; congr 1; omega⟩

theorem mem_subReqs {s : Bool} {p : Bytes} {recv : Recv} {off : Nat} {ns : List Name} {j : Nat} {q : Req} :
    q ∈ subReqs C s p recv off j ns ↔ ∃ idx n, ns[idx]? = some n ∧ wantsSub C (recvAt recv (j + idx)) = true ∧
      q = ⟨C.key (.sig s (pathAppend p n)), off + (j + idx), 0⟩ := by
  induction ns generalizing j with
  | nil => simp [subReqs]
  | cons n ns ih =>
    simp only [subReqs, List.mem_append, ih]
    constructor
    · rintro (h | ⟨i, m, hi, hw, hq⟩)
      · split at h
        · rename_i hw
          exact ⟨0, n, by simp, by simpa using hw, by simpa using h⟩
        · cases h
      · exact ⟨i + 1, m, by simpa using hi, by rw [← hw]; congr 2; omega, by rw [hq]; congr 1; omega⟩
    · rintro ⟨i, m, hi, hw, hq⟩
      cases i with
      | zero =>
        left
        simp at hi
        simp only [Nat.add_zero] at hw hq
        rw [if_pos hw, hq, ← hi]; simp
      | succ i =>
        right
        exact ⟨i, m, by simpa using hi, by rw [← hw]; congr 2; omega, by rw [hq]; congr 1; omega⟩

theorem isListing_missing : isListing c missingInput = false := by
  unfold isListing missingInput; cases c.filtered <;> rfl

theorem isListing_existing (i : Info) : isListing c (existingInput i) = false := by
  unfold isListing existingInput; cases c.filtered <;> rfl

theorem isListing_dirValue (i : Info) (ns : List Name) : isListing c (dirValue c i ns) = true := by
  unfold isListing dirValue; cases c.filtered <;> rfl

theorem strings_dirValue (i : Info) (ns : List Name) : (dirValue c i ns).strings = ns := by
  unfold dirValue; cases c.filtered <;> rfl

theorem namesOfV_dirValue (i : Info) (ns : List Name) : namesOfV c (dirValue c i ns) = ns := by
  simp [namesOfV, isListing_dirValue, strings_dirValue]

theorem namesOfV_leafRoot (o : Option Info) : namesOfV c (leafRootValue c o) = [] := by
  cases o with
  | none => simp [namesOfV, leafRootValue, isListing_missing]
  | some i =>
    unfold leafRootValue
    cases hf : c.filtered
    · simp only [Bool.false_eq_true, if_false]
      have := namesOfV_dirValue c i []
      exact this
    · simp [namesOfV, isListing_existing]

theorem wantsSub_none : wantsSub C none = false := by simp [wantsSub, decode]

theorem dirV_none : dirV C none = missingInput := by simp [dirV, decode]

theorem recvAt_mono {r r' : Recv} (hs' : SortedIds r') (hsub : ∀ x ∈ r, x ∈ r') {i : Nat} {x : Val}
    (h : recvAt r i = some x) : recvAt r' i = some x :=
  recvAt_of_mem hs' (hsub _ (recvAt_mem h))

theorem sigNext_mono (s : Bool) (p : Bytes) (r r' : Recv) (hs' : SortedIds r') (hsub : ∀ x ∈ r, x ∈ r')
    (q : Req) (hq : q ∈ sigNext C c s p r) : q ∈ sigNext C c s p r' := by
  unfold sigNext at hq ⊢
  simp only [List.mem_cons] at hq ⊢
  rcases hq with hq | hq
  · exact Or.inl hq
  · right
    cases h0 : recvAt r 0 with
    | none =>
      rw [h0, dirV_none] at hq
      simp [namesOfV, isListing_missing, childReqs, subReqs] at hq
    | some x =>
      have h0' := recvAt_mono hs' hsub h0
      rw [h0] at hq
      rw [h0']
      rcases List.mem_append.1 hq with hq | hq
      · exact List.mem_append_left _ hq
      · apply List.mem_append_right
        obtain ⟨idx, n, hn, hw, hq⟩ := (mem_subReqs C).1 hq
        refine (mem_subReqs C).2 ⟨idx, n, hn, ?_, hq⟩
        cases hx : recvAt r (1 + idx) with
        | none => rw [hx, wantsSub_none] at hw; cases hw
        | some y => rw [recvAt_mono hs' hsub hx]; rw [hx] at hw; exact hw

theorem sigNext_ids (s : Bool) (p : Bytes) (r : Recv) (q q' : Req)
    (hq : q ∈ sigNext C c s p r) (hq' : q' ∈ sigNext C c s p r) (hid : q.id = q'.id) : q = q' := by
  unfold sigNext at hq hq'
  simp only [List.mem_cons, List.mem_append] at hq hq'
  generalize namesOfV c (dirV C (recvAt r 0)) = ns at hq hq'
  have hlt : ∀ {idx : Nat} {n : Name}, ns[idx]? = some n → idx < ns.length := by
    intro idx n h
    exact (List.getElem?_eq_some_iff.1 h).1
  rcases hq with rfl | hq | hq <;> rcases hq' with rfl | hq' | hq'
  · rfl
  · obtain ⟨i, n, _, rfl⟩ := (mem_childReqs C).1 hq'; simp at hid; omega
  · obtain ⟨i, n, _, _, rfl⟩ := (mem_subReqs C).1 hq'; simp at hid; omega
  · obtain ⟨i, n, _, rfl⟩ := (mem_childReqs C).1 hq; simp at hid
  · obtain ⟨i, n, hn, rfl⟩ := (mem_childReqs C).1 hq
    obtain ⟨i', n', hn', rfl⟩ := (mem_childReqs C).1 hq'
    have : i = i' := by simp at hid; omega
    subst this
    rw [hn] at hn'; cases hn'; rfl
  · obtain ⟨i, n, hn, rfl⟩ := (mem_childReqs C).1 hq
    obtain ⟨i', n', hn', _, rfl⟩ := (mem_subReqs C).1 hq'
    have := hlt hn; simp at hid; omega
  · obtain ⟨i, n, _, _, rfl⟩ := (mem_subReqs C).1 hq; simp at hid
  · obtain ⟨i, n, hn, _, rfl⟩ := (mem_subReqs C).1 hq
    obtain ⟨i', n', hn', rfl⟩ := (mem_childReqs C).1 hq'
    have := hlt hn'; simp at hid; omega
  · obtain ⟨i, n, hn, _, rfl⟩ := (mem_subReqs C).1 hq
    obtain ⟨i', n', hn', _, rfl⟩ := (mem_subReqs C).1 hq'
    have : i = i' := by simp at hid; omega
    subst this
    rw [hn] at hn'; cases hn'; rfl

variable (sg : Env → Key → Nat) (vld : Env → Key → Val → Bool)

/-- The directory client satisfies the hypotheses of the engine theorems (C01, C02, C05). -/
theorem prog_WF : (prog C c sg vld).WF := by
  constructor
  · intro k env env' recv _ hs
    show outOf C c k env recv = outOf C c k env' recv
    have hs' : selfOf C k = true → env k = env' k := hs
    unfold outOf
    unfold selfOf at hs'
    cases hk : C.unkey k with
    | none => rfl
    | some dk => cases dk <;> simp only [] <;> (rw [hk] at hs'; exact hs' rfl)
  · intro k env v hs hv
    have hs' : selfOf C k = true := hs
    have hv' : (if selfOf C k then v == env k else vld env k v) = true := hv
    rw [if_pos hs'] at hv'
    show v = outOf C c k env []
    unfold outOf
    unfold selfOf at hs'
    cases hk : C.unkey k with
    | none => rw [hk] at hs'; cases hs'
    | some dk => cases dk <;> rw [hk] at hs' <;> first | exact eq_of_beq hv' | cases hs'
  · intro k recv hs
    have hs' : selfOf C k = true := hs
    show nextOf C c k recv = []
    unfold nextOf
    unfold selfOf at hs'
    cases hk : C.unkey k with
    | none => rfl
    | some dk => cases dk <;> rw [hk] at hs' <;> first | rfl | cases hs'
  · intro k recv _; rfl
  · intro k recv d hd; cases hd
  · intro d env env' hs ho
    have hs' : selfOf C d = true := hs
    have ho' : outOf C c d env [] = outOf C c d env' [] := ho
    unfold outOf at ho'
    unfold selfOf at hs'
    cases hk : C.unkey d with
    | none => rw [hk] at hs'; cases hs'
    | some dk => cases dk <;> rw [hk] at hs' ho' <;> first | exact ho' | cases hs'

/-- requests are monotone and ids are distinct within each request list -/
theorem prog_LocalIds : (prog C c sg vld).LocalIds := by
  constructor
  · intro k r r' _ hs' hsub q hq
    have hq' : q ∈ nextOf C c k r := hq
    show q ∈ nextOf C c k r'
    unfold nextOf at hq' ⊢
    cases hk : C.unkey k with
    | none => rw [hk] at hq'; exact hq'
    | some dk =>
      rw [hk] at hq'
      cases dk <;> try exact hq'
      exact sigNext_mono C c _ _ r r' hs' hsub q hq'
  · intro k r q q' hq hq' hid
    have h1 : q ∈ nextOf C c k r := hq
    have h2 : q' ∈ nextOf C c k r := hq'
    unfold nextOf at h1 h2
    cases hk : C.unkey k with
    | none => rw [hk] at h1; cases h1
    | some dk =>
      rw [hk] at h1 h2
      cases dk <;> simp only [List.mem_cons, List.not_mem_nil, or_false] at h1 h2
      case contents =>
        rcases h1 with rfl | rfl <;> rcases h2 with rfl | rfl <;> first | rfl | (simp at hid)
      case sig s p => exact sigNext_ids C c s p r q q' (by simpa [sigNext] using h1) (by simpa [sigNext] using h2) hid
      case dirNode => rw [h1, h2]
      case cmd => rw [h1, h2]

/-- … hence it is `Program.Det` (all requests carry a value: kind 0), the hypothesis of `Clean_unique` /
`C01_value_unique` / `C06_schedule_independent_value_eq`. -/
theorem prog_Det : (prog C c sg vld).Det := by
  refine { toMono := prog_LocalIds C c sg vld, kinds := ?_ }
  intro k r q hq
  have h1 : q ∈ nextOf C c k r := hq
  unfold nextOf at h1
  cases hk : C.unkey k with
  | none => rw [hk] at h1; cases h1
  | some dk =>
    rw [hk] at h1
    cases dk <;> simp only [List.mem_cons, List.not_mem_nil, or_false] at h1
    case contents => rcases h1 with rfl | rfl <;> exact Nat.zero_le 2
    case sig s p =>
      unfold sigNext at h1
      simp only [List.mem_cons, List.mem_append] at h1
      rcases h1 with rfl | h1 | h1
      · exact Nat.zero_le 2
      · obtain ⟨i, n, _, rfl⟩ := (mem_childReqs C).1 h1; exact Nat.zero_le 2
      · obtain ⟨i, n, _, _, rfl⟩ := (mem_subReqs C).1 h1; exact Nat.zero_le 2
    case dirNode => rw [h1]; exact Nat.zero_le 2
    case cmd => rw [h1]; exact Nat.zero_le 2

end Client


/-! ## Part 3: what a brand-new engine computes for the directory keys -/


/-! ### the signature of the model, for both kinds at once -/

mutual
def gSub (s : Bool) (c : Cfg) (path : Bytes) : Obs → Option HashTerm
  | .leaf _ => none
  | .dir i cs => some (gChain s c path (base s path (dirValue c i (names cs))) cs)
def gChain (s : Bool) (c : Cfg) (path : Bytes) : HashTerm → List (Name × Obs) → HashTerm
  | acc, [] => acc
  | acc, (n, o) :: rest =>
    gChain s c path (stepS s acc ⟨n, nodeValue o, gSub s c (pathAppend path n) o⟩) rest
end

/-- `treeSigO` (`s = false`) / `structSigO` (`s = true`), see `gSigO_tree`, `gSigO_struct` -/
def gSigO (s : Bool) (c : Cfg) (path : Bytes) : Obs → HashTerm
  | .leaf v => base s path (leafRootValue c v)
  | .dir i cs => gChain s c path (base s path (dirValue c i (names cs))) cs

mutual
theorem gSub_tree (c : Cfg) : ∀ (o : Obs) (path : Bytes), gSub false c path o = treeSub c path o
  | .leaf _, _ => by simp [gSub, treeSub]
  | .dir i cs, path => by
    simp only [gSub, treeSub, base, Bool.false_eq_true, if_false]
    rw [gChain_tree c cs path]
theorem gChain_tree (c : Cfg) : ∀ (cs : List (Name × Obs)) (path : Bytes) (acc : HashTerm),
    gChain false c path acc cs = treeChain c path acc cs
  | [], _, _ => by simp [gChain, treeChain]
  | (n, o) :: rest, path, acc => by
    simp only [gChain, treeChain, stepS, Bool.false_eq_true, if_false]
    rw [gSub_tree c o, gChain_tree c rest]
end

theorem gSigO_tree (c : Cfg) (path : Bytes) (o : Obs) : gSigO false c path o = treeSigO c path o := by
  cases o with
  | leaf v => simp [gSigO, treeSigO, base]
  | dir i cs => simp [gSigO, treeSigO, base, gChain_tree]

theorem structBase_dirValue (c : Cfg) (path : Bytes) (i : Info) (ns : List Name) :
    structBase path (dirValue c i ns) = structBaseS c path i.mode ns := by
  unfold dirValue structBase structBaseS; cases c.filtered <;> rfl

theorem structStep_nodeValue (acc : HashTerm) (n : Name) (o : Obs) (sub : Option HashTerm) :
    structStep acc ⟨n, nodeValue o, sub⟩ = structStepS acc n o.toS.mode? sub := by
  cases o with
  | leaf w => cases w <;> rfl
  | dir j cs => rfl

mutual
theorem gSub_struct (c : Cfg) : ∀ (o : Obs) (path : Bytes), gSub true c path o = structSub c path o.toS
  | .leaf _, _ => by simp [gSub, structSub, Obs.toS]
  | .dir i cs, path => by
    simp only [gSub, structSub, Obs.toS, base, if_true, structBase_dirValue, names_toSList]
    rw [gChain_struct c cs path]
theorem gChain_struct (c : Cfg) : ∀ (cs : List (Name × Obs)) (path : Bytes) (acc : HashTerm),
    gChain true c path acc cs = structChain c path acc (Obs.toSList cs)
  | [], _, _ => by simp [gChain, structChain, Obs.toSList]
  | (n, o) :: rest, path, acc => by
    simp only [gChain, structChain, Obs.toSList, stepS, if_true, structStep_nodeValue]
    rw [gSub_struct c o, gChain_struct c rest]
end

theorem gSigO_struct (c : Cfg) (path : Bytes) (o : Obs) : gSigO true c path o = structSigO c path o := by
  cases o with
  | leaf v => simp [gSigO, structSigO, base]
  | dir i cs => simp [gSigO, structSigO, base, gChain_struct, structBase_dirValue, names_toSList]

/-! ### a file-system state that looks like a tree -/

def rawEnts (cs : List (Name × Tree)) : List (Name × Bool) := cs.map (fun x => (x.1, x.2.isDangling))

mutual
/-- the external state `env` shows the tree `t` at path `p`: every node's `stat` slot, every directory's `readdir`
slot, at every depth -/
def Agrees (C : Coding) (env : Env) : Bytes → Tree → Prop
  | p, .file i => env (C.key (.stat p)) = C.val (.stat (some i) false)
  | p, .link v => env (C.key (.stat p)) = C.val (.stat v false)
  | p, .dir i cs => env (C.key (.stat p)) = C.val (.stat (some i) true) ∧
      env (C.key (.ents p)) = C.val (.ents (rawEnts cs)) ∧ AgreesL C env p cs
def AgreesL (C : Coding) (env : Env) : Bytes → List (Name × Tree) → Prop
  | _, [] => True
  | p, (n, t) :: rest => Agrees C env (pathAppend p n) t ∧ AgreesL C env p rest
end

theorem agreesL_mem (C : Coding) (env : Env) (p : Bytes) : ∀ (cs : List (Name × Tree)), AgreesL C env p cs →
    ∀ n t, (n, t) ∈ cs → Agrees C env (pathAppend p n) t
  | [], _, n, t, h => by cases h
  | (m, u) :: rest, hA, n, t, h => by
    simp only [AgreesL] at hA
    rcases List.mem_cons.1 h with e | e
    · cases e; exact hA.1
    · exact agreesL_mem C env p rest hA.2 n t e

/-- what `stat` says about the root of a tree -/
def statOfTree : Tree → Option Info × Bool
  | .file i => (some i, false)
  | .link v => (v, false)
  | .dir i _ => (some i, true)

theorem agrees_stat (C : Coding) (env : Env) (p : Bytes) (t : Tree) (h : Agrees C env p t) :
    env (C.key (.stat p)) = C.val (.stat (statOfTree t).1 (statOfTree t).2) := by
  cases t with
  | file i => simpa [Agrees, statOfTree] using h
  | link v => simpa [Agrees, statOfTree] using h
  | dir i cs => simp only [Agrees] at h; simpa [statOfTree] using h.1

/-! ### the listing from the raw entries is the model's listing -/

theorem insertBy_map {α β : Type} (lt : Name → Name → Bool) (f : α → β) (x : Name × α) (l : List (Name × α)) :
    insertBy lt (x.1, f x.2) (l.map (fun y => (y.1, f y.2))) = (insertBy lt x l).map (fun y => (y.1, f y.2)) := by
  induction l with
  | nil => simp [insertBy]
  | cons z zs ih =>
    simp only [List.map_cons, insertBy]
    split
    · simp
    · simp [ih]

theorem sortBy_map {α β : Type} (lt : Name → Name → Bool) (f : α → β) (l : List (Name × α)) :
    sortBy lt (l.map (fun y => (y.1, f y.2))) = (sortBy lt l).map (fun y => (y.1, f y.2)) := by
  induction l with
  | nil => simp [sortBy]
  | cons z zs ih =>
    simp only [List.map_cons, sortBy, ih]
    exact insertBy_map lt f z (sortBy lt zs)

theorem rawKeep_rawEnts (c : Cfg) (cs : List (Name × Tree)) :
    rawKeep c (rawEnts cs) = (obsList c cs).map (fun y => (y.1, ())) := by
  induction cs with
  | nil => simp [rawKeep, rawEnts, obsList]
  | cons x xs ih =>
    obtain ⟨n, t⟩ := x
    simp only [rawEnts, List.map_cons] at ih ⊢
    simp only [rawKeep, obsList]
    split
    · simp
    · split
      · exact ih
      · simp [ih]

theorem rawListing_rawEnts (c : Cfg) (cs : List (Name × Tree)) :
    rawListing c (rawEnts cs) = names (sortBy c.before (obsList c cs)) := by
  unfold rawListing
  rw [rawKeep_rawEnts, sortBy_map c.before (fun _ => ())]
  simp [names]

/-- the value of the listing key of a tree -/
def contentsVal (c : Cfg) : Obs → Value
  | .leaf v => leafRootValue c v
  | .dir i cs => dirValue c i (names cs)


/-! ### inversion: every value a brand-new engine can compute is the model's -/


section Inversion
variable (C : Coding) (c : Cfg)

/-- what the value of a key has to be in an external state that shows a tree at the key's path -/
def Spec (env : Env) (k : Key) (v : Val) : Prop :=
  match C.unkey k with
  | some (.stat _) => v = env k
  | some (.ents _) => v = env k
  | some (.contents p) => ∀ t, Agrees C env p t → v = C.val (.bv (contentsVal c (obs c t)))
  | some (.sig s p) => ∀ t, Agrees C env p t → v = C.val (.sig (gSigO s c p (obs c t)))
  | some (.dirNode s p) => ∀ t, Agrees C env p t → v = C.val (.sig (gSigO s c p (obs c t)))
  | some (.cmd s p) => ∀ t, Agrees C env p t → v = C.val (.cmd (C.val (.sig (gSigO s c p (obs c t)))))
  | none => True

theorem spec_stat {env : Env} {p : Bytes} {v : Val} (h : Spec C c env (C.key (.stat p)) v) :
    v = env (C.key (.stat p)) := by
  simpa [Spec, C.unkey_key] using h

theorem spec_ents {env : Env} {p : Bytes} {v : Val} (h : Spec C c env (C.key (.ents p)) v) :
    v = env (C.key (.ents p)) := by
  simpa [Spec, C.unkey_key] using h

theorem spec_sig {env : Env} {s : Bool} {p : Bytes} {v : Val} (h : Spec C c env (C.key (.sig s p)) v) :
    ∀ t, Agrees C env p t → v = C.val (.sig (gSigO s c p (obs c t))) := by
  simpa [Spec, C.unkey_key] using h

theorem spec_contents {env : Env} {p : Bytes} {v : Val} (h : Spec C c env (C.key (.contents p)) v) :
    ∀ t, Agrees C env p t → v = C.val (.bv (contentsVal c (obs c t))) := by
  simpa [Spec, C.unkey_key] using h

theorem spec_dirNode {env : Env} {s : Bool} {p : Bytes} {v : Val} (h : Spec C c env (C.key (.dirNode s p)) v) :
    ∀ t, Agrees C env p t → v = C.val (.sig (gSigO s c p (obs c t))) := by
  simpa [Spec, C.unkey_key] using h

theorem decode_val (d : DVal) : decode C (some (C.val d)) = some d := by
  simp [decode, C.unval_val]

/-- the fold of `inputsAvailable` over the delivered child values is the model's chain -/
theorem chainOut_spec (env : Env) (s : Bool) (p : Bytes) (recv : Recv) (off : Nat) :
    ∀ (os : List (Name × Obs)) (j : Nat) (acc : HashTerm),
    (∀ q, q ∈ childReqs C p j (names os) ++ subReqs C s p recv off j (names os) →
      ∃ v, recvAt recv q.id = some v ∧ Spec C c env q.key v) →
    (∀ n o, (n, o) ∈ os → ∃ t, o = obs c t ∧ Agrees C env (pathAppend p n) t) →
    chainOut C s recv off j (names os) acc = gChain s c p acc os
  | [], _, _, _, _ => by simp [names, chainOut, gChain]
  | (n, o) :: rest, j, acc, H, HA => by
    obtain ⟨t, ho, hA⟩ := HA n o (by simp)
    have hns : names ((n, o) :: rest) = n :: names rest := rfl
    rw [hns] at H ⊢
    simp only [chainOut, gChain]
    -- the child's node value
    obtain ⟨v, hv, hsv⟩ := H ⟨C.key (.stat (pathAppend p n)), j, 0⟩ (by simp [childReqs])
    have hv' : recvAt recv j = some (C.val (.stat (statOfTree t).1 (statOfTree t).2)) := by
      rw [hv, spec_stat C c hsv, agrees_stat C env _ t hA]
    have hchild : childValue C (recvAt recv j) = nodeValue o := by
      rw [hv', ho]
      unfold childValue
      rw [decode_val]
      cases t with
      | file i => simp [statOfTree, obs, nodeValue]
      | link w => cases w <;> simp [statOfTree, obs, nodeValue]
      | dir i cs => simp [statOfTree, obs, nodeValue]
    have hsub : (if wantsSub C (recvAt recv j) then subTerm C (recvAt recv (off + j)) else none) =
        gSub s c (pathAppend p n) o := by
      rw [hv', ho]
      unfold wantsSub
      rw [decode_val]
      cases t with
      | file i => simp [statOfTree, obs, gSub]
      | link w => cases w <;> simp [statOfTree, obs, gSub]
      | dir i cs =>
        have hw : wantsSub C (recvAt recv j) = true := by
          rw [hv']; unfold wantsSub; rw [decode_val]; simp [statOfTree]
        obtain ⟨v2, hv2, hsv2⟩ := H ⟨C.key (.sig s (pathAppend p n)), off + j, 0⟩
          (by apply List.mem_append_right; simp [subReqs, hw])
        have := spec_sig C c hsv2 _ hA
        simp only [] at hv2
        rw [hv2, this]
        unfold subTerm
        rw [decode_val]
        simp [statOfTree, obs, gSub, gSigO]
    rw [hchild, hsub]
    apply chainOut_spec env s p recv off rest (j + 1)
    · intro q hq
      apply H q
      rcases List.mem_append.1 hq with h | h
      · exact List.mem_append_left _ (by simp [childReqs, h])
      · exact List.mem_append_right _ (by simp [subReqs, h])
    · intro n' o' h'
      exact HA n' o' (List.mem_cons_of_mem _ h')

variable (sg : Env → Key → Nat) (vld : Env → Key → Val → Bool)

theorem kind_of_sigNext {s : Bool} {p : Bytes} {recv : Recv} {q : Req} (h : q ∈ sigNext C c s p recv) : q.kind = 0 := by
  unfold sigNext at h
  simp only [List.mem_cons, List.mem_append] at h
  rcases h with rfl | h | h
  · rfl
  · obtain ⟨_, _, _, rfl⟩ := (mem_childReqs C).1 h; rfl
  · obtain ⟨_, _, _, _, rfl⟩ := (mem_subReqs C).1 h; rfl

/-- the signature task: the delivered values of a completed run determine the model's signature -/
theorem sig_case (env : Env) (k : Key) (s : Bool) (p : Bytes) (hk : C.unkey k = some (.sig s p)) (seq : Seq)
    (hv : validSeq (prog C c sg vld) k seq = true) (hc : completeSeq (prog C c sg vld) k seq = true)
    (ih : ∀ q v, (q, v) ∈ seq → q.kind = 0 → Spec C c env q.key v)
    (t : Tree) (hA : Agrees C env p t) :
    sigOut C c s p (recvOf seq) = C.val (.sig (gSigO s c p (obs c t))) := by
  have hL := prog_LocalIds C c sg vld
  have hnext : ∀ q, q ∈ sigNext C c s p (recvOf seq) →
      ∃ v, recvAt (recvOf seq) q.id = some v ∧ Spec C c env q.key v := by
    intro q hq
    have hq' : q ∈ (prog C c sg vld).next k (recvOf seq) := by
      show q ∈ nextOf C c k (recvOf seq)
      unfold nextOf; rw [hk]; exact hq
    have hk0 := kind_of_sigNext C c hq
    obtain ⟨v, hm, hr⟩ := complete_recv hL hv hc hq' hk0
    exact ⟨v, hr, ih q v hm hk0⟩
  obtain ⟨v0, hr0, hs0⟩ := hnext ⟨C.key (.contents p), 0, 0⟩ (by simp [sigNext])
  have hv0 := spec_contents C c hs0 t hA
  simp only [] at hr0
  have hdv : dirV C (recvAt (recvOf seq) 0) = contentsVal c (obs c t) := by
    rw [hr0, hv0]; unfold dirV; rw [decode_val]
  unfold sigOut
  simp only [hdv]
  cases t with
  | file i => simp [obs, contentsVal, gSigO, namesOfV_leafRoot, chainOut]
  | link w => simp [obs, contentsVal, gSigO, namesOfV_leafRoot, chainOut]
  | dir i cs =>
    simp only [obs, contentsVal, gSigO, namesOfV_dirValue]
    congr 2
    apply chainOut_spec C c env s p (recvOf seq) _ _ 1
    · intro q hq
      apply hnext q
      unfold sigNext
      simp only [hdv, obs, contentsVal, namesOfV_dirValue]
      exact List.mem_cons_of_mem _ hq
    · intro n o hm
      obtain ⟨t', hmem, _, ho⟩ := (mem_obsList c n o cs).1 ((mem_sortBy c.before (n, o) _).1 hm)
      simp only [Agrees] at hA
      exact ⟨t', ho, agreesL_mem C env p cs hA.2.2 n t' hmem⟩

theorem contents_case (env : Env) (k : Key) (p : Bytes) (hk : C.unkey k = some (.contents p)) (seq : Seq)
    (hv : validSeq (prog C c sg vld) k seq = true) (hc : completeSeq (prog C c sg vld) k seq = true)
    (ih : ∀ q v, (q, v) ∈ seq → q.kind = 0 → Spec C c env q.key v)
    (t : Tree) (hA : Agrees C env p t) :
    contentsOut C c (recvAt (recvOf seq) 0) (recvAt (recvOf seq) 1) = contentsVal c (obs c t) := by
  have hL := prog_LocalIds C c sg vld
  have hnext : ∀ q, q ∈ [(⟨C.key (.stat p), 0, 0⟩ : Req), ⟨C.key (.ents p), 1, 0⟩] → q.kind = 0 →
      ∃ v, recvAt (recvOf seq) q.id = some v ∧ Spec C c env q.key v := by
    intro q hq hk0
    have hq' : q ∈ (prog C c sg vld).next k (recvOf seq) := by
      show q ∈ nextOf C c k (recvOf seq)
      unfold nextOf; rw [hk]; exact hq
    obtain ⟨v, hm, hr⟩ := complete_recv hL hv hc hq' hk0
    exact ⟨v, hr, ih q v hm hk0⟩
  obtain ⟨v0, hr0, hs0⟩ := hnext ⟨C.key (.stat p), 0, 0⟩ (by simp) rfl
  obtain ⟨v1, hr1, hs1⟩ := hnext ⟨C.key (.ents p), 1, 0⟩ (by simp) rfl
  simp only [] at hr0 hr1
  rw [hr0, hr1, spec_stat C c hs0, spec_ents C c hs1]
  unfold contentsOut
  cases t with
  | file i =>
    simp only [Agrees] at hA
    rw [hA, decode_val]
    simp [obs, contentsVal]
  | link w =>
    simp only [Agrees] at hA
    rw [hA, decode_val]
    cases w <;> simp [obs, contentsVal]
  | dir i cs =>
    simp only [Agrees] at hA
    rw [hA.1, hA.2.1, decode_val, decode_val]
    simp [obs, contentsVal, rawListing_rawEnts]

theorem forward_case (env : Env) (k : Key) (q0 : Req) (hq0 : q0.kind = 0 ∧ q0.id = 0) (seq : Seq)
    (hn : ∀ recv, (prog C c sg vld).next k recv = [q0])
    (hv : validSeq (prog C c sg vld) k seq = true) (hc : completeSeq (prog C c sg vld) k seq = true)
    (ih : ∀ q v, (q, v) ∈ seq → q.kind = 0 → Spec C c env q.key v) :
    ∃ v, recvAt (recvOf seq) 0 = some v ∧ Spec C c env q0.key v := by
  have hL := prog_LocalIds C c sg vld
  obtain ⟨v, hm, hr⟩ := complete_recv hL hv hc (q := q0) (by rw [hn]; simp) hq0.1
  rw [hq0.2] at hr
  exact ⟨v, hr, ih q0 v hm hq0.1⟩

/-- Every value a brand-new engine can compute for a key of the directory client is the value the C12 model
assigns to it — in every external state, for every tree the state shows at the key's path. -/
theorem clean_spec {env : Env} {k : Key} {v : Val} (h : Clean (prog C c sg vld) env k v) : Spec C c env k v := by
  induction h with
  | mk k seq hv hc _ ih =>
    show Spec C c env k (outOf C c k env (recvOf seq))
    unfold Spec outOf
    cases hk : C.unkey k with
    | none => trivial
    | some dk =>
      cases dk with
      | stat p => rfl
      | ents p => rfl
      | contents p =>
        intro t hA
        simp only []
        rw [contents_case C c sg vld env k p hk seq hv hc ih t hA]
      | sig s p =>
        intro t hA
        exact sig_case C c sg vld env k s p hk seq hv hc ih t hA
      | dirNode s p =>
        intro t hA
        obtain ⟨v, hr, hs⟩ := forward_case C c sg vld env k ⟨C.key (.sig s p), 0, 0⟩ ⟨rfl, rfl⟩ seq
          (by intro recv; show nextOf C c k recv = _; unfold nextOf; rw [hk]) hv hc ih
        simp only [hr, Option.getD_some]
        exact spec_sig C c hs t hA
      | cmd s p =>
        intro t hA
        obtain ⟨v, hr, hs⟩ := forward_case C c sg vld env k ⟨C.key (.dirNode s p), 0, 0⟩ ⟨rfl, rfl⟩ seq
          (by intro recv; show nextOf C c k recv = _; unfold nextOf; rw [hk]) hv hc ih
        simp only [hr, Option.getD_some]
        rw [spec_dirNode C c hs t hA]


/-- the value of a signature-carrying key (`sig`, `dirNode`: the signature value; `cmd`: the command's result, an
injective function of the signature it was handed) for signature term `t` -/
def keyVal : DKey → HashTerm → Val
  | .cmd _ _, t => C.val (.cmd (C.val (.sig t)))
  | _, t => C.val (.sig t)

theorem keyVal_inj {dk : DKey} {t t' : HashTerm} (h : keyVal C dk t = keyVal C dk t') : t = t' := by
  cases dk <;> simp only [keyVal] at h
  all_goals first
    | (have := C.val_inj h; simpa using this)
    | (have h1 := C.val_inj h
       simp only [DVal.cmd.injEq] at h1
       have := C.val_inj h1; simpa using this)

/-- the signature key of a directory input, the node that forwards it, the command that consumes it -/
def sigKeys (s : Bool) (p : Bytes) : List DKey := [.sig s p, .dirNode s p, .cmd s p]

/-- in an external state that shows tree `t` at `p`, whatever a brand-new engine computes for the signature key,
the directory node or the consuming command is the model's signature of `t` -/
theorem clean_keyVal {env : Env} {s : Bool} {p : Bytes} {t : Tree} {dk : DKey} (hdk : dk ∈ sigKeys s p)
    (hA : Agrees C env p t) {v : Val} (h : Clean (prog C c sg vld) env (C.key dk) v) :
    v = keyVal C dk (gSigO s c p (obs c t)) := by
  have hs := clean_spec C c sg vld h
  simp only [sigKeys, List.mem_cons, List.not_mem_nil, or_false] at hdk
  rcases hdk with rfl | rfl | rfl
  · exact spec_sig C c hs t hA
  · exact spec_dirNode C c hs t hA
  · simp only [Spec, C.unkey_key] at hs
    exact hs t hA

end Inversion


/-! ## Part 4: a brand-new engine CAN compute these values (existence of `Clean`) -/

section Existence
variable (C : Coding) (c : Cfg) (sg : Env → Key → Nat) (vld : Env → Key → Val → Bool)

theorem next_self {dk : DKey} (h : dk = .stat p ∨ dk = .ents p) (recv : Recv) :
    (prog C c sg vld).next (C.key dk) recv = [] := by
  show nextOf C c _ _ = []
  rcases h with rfl | rfl <;> simp [nextOf, C.unkey_key]

theorem clean_self (env : Env) {p : Bytes} {dk : DKey} (h : dk = .stat p ∨ dk = .ents p) :
    Clean (prog C c sg vld) env (C.key dk) (env (C.key dk)) := by
  have hc := Clean.mk (P := prog C c sg vld) (env := env) (C.key dk) [] (by simp [validSeq])
    (by simp [completeSeq, issuedAfter, next_self C c sg vld h]) (by intro q v hm; cases hm)
  have ho : (prog C c sg vld).out (C.key dk) env (recvOf []) = env (C.key dk) := by
    show outOf C c _ env _ = _
    rcases h with rfl | rfl <;> simp [outOf, C.unkey_key]
  rw [ho] at hc
  exact hc

/-- the listing key has a clean value -/
theorem exists_contents (env : Env) (p : Bytes) (t : Tree) (hA : Agrees C env p t) :
    Clean (prog C c sg vld) env (C.key (.contents p)) (C.val (.bv (contentsVal c (obs c t)))) := by
  have hL := prog_LocalIds C c sg vld
  obtain ⟨v, hv⟩ := clean_static hL (env := env) (k := C.key (.contents p))
    (L := [⟨C.key (.stat p), 0, 0⟩, ⟨C.key (.ents p), 1, 0⟩])
    (by intro recv; show nextOf C c _ _ = _; simp [nextOf, C.unkey_key])
    (by intro q hq; simp at hq; rcases hq with rfl | rfl <;> rfl)
    (by simp)
    (fun q => env q.key)
    (by
      intro q hq
      simp at hq
      rcases hq with rfl | rfl
      · exact clean_self C c sg vld env (Or.inl rfl)
      · exact clean_self C c sg vld env (Or.inr rfl))
  have := spec_contents C c (clean_spec C c sg vld hv) t hA
  rw [this] at hv
  exact hv

/-- the deliveries of the children's node values -/
def statDs (env : Env) (p : Bytes) : Nat → List Name → List (Req × Val)
  | _, [] => []
  | j, n :: ns =>
    (⟨C.key (.stat (pathAppend p n)), j, 0⟩, env (C.key (.stat (pathAppend p n)))) :: statDs env p (j + 1) ns

/-- the deliveries of the sub-directories' signatures -/
def subDs (s : Bool) (p : Bytes) (off : Nat) : Nat → List (Name × Obs) → List (Req × Val)
  | _, [] => []
  | j, (n, o) :: os =>
    (match o with
     | .dir _ _ => [(⟨C.key (.sig s (pathAppend p n)), off + j, 0⟩, C.val (.sig (gSigO s c (pathAppend p n) o)))]
     | .leaf _ => []) ++ subDs s p off (j + 1) os

theorem statDs_fst (env : Env) (p : Bytes) (j : Nat) (ns : List Name) :
    (statDs C env p j ns).map (·.1) = childReqs C p j ns := by
  induction ns generalizing j with
  | nil => simp [statDs, childReqs]
  | cons n ns ih => simp [statDs, childReqs, ih]

theorem mem_statDs {env : Env} {p : Bytes} {ns : List Name} {j : Nat} {d : Req × Val} :
    d ∈ statDs C env p j ns ↔ ∃ idx n, ns[idx]? = some n ∧
      d = (⟨C.key (.stat (pathAppend p n)), j + idx, 0⟩, env (C.key (.stat (pathAppend p n)))) := by
  induction ns generalizing j with
  | nil => simp [statDs]
  | cons n ns ih =>
    simp only [statDs, List.mem_cons, ih]
    constructor
    · rintro (h | ⟨i, m, hi, hq⟩)
      · exact ⟨0, n, by simp, by simpa using h⟩
      · exact ⟨i + 1, m, by simpa using hi, by rw [hq]; congr 2; omega⟩
    · rintro ⟨i, m, hi, hq⟩
      cases i with
      | zero => left; simp at hi; rw [hq, ← hi]; rfl
      | succ i => right; exact ⟨i, m, by simpa using hi, by rw [hq]; congr 2; omega⟩

theorem mem_subDs {s : Bool} {p : Bytes} {off : Nat} {os : List (Name × Obs)} {j : Nat} {d : Req × Val} :
    d ∈ subDs C c s p off j os ↔ ∃ idx n i cs, os[idx]? = some (n, .dir i cs) ∧
      d = (⟨C.key (.sig s (pathAppend p n)), off + (j + idx), 0⟩,
           C.val (.sig (gSigO s c (pathAppend p n) (.dir i cs)))) := by
  induction os generalizing j with
  | nil => simp [subDs]
  | cons x os ih =>
    obtain ⟨n, o⟩ := x
    simp only [subDs, List.mem_append, ih]
    constructor
    · rintro (h | ⟨idx, m, i, cs, hi, hq⟩)
      · cases o with
        | leaf w => simp at h
        | dir i cs => exact ⟨0, n, i, cs, by simp, by simpa using h⟩
      · exact ⟨idx + 1, m, i, cs, by simpa using hi, by rw [hq]; congr 2; omega⟩
    · rintro ⟨idx, m, i, cs, hi, hq⟩
      cases idx with
      | zero =>
        left
        simp at hi
        obtain ⟨rfl, rfl⟩ := hi
        simp [hq]
      | succ idx => right; exact ⟨idx, m, i, cs, by simpa using hi, by rw [hq]; congr 2; omega⟩

theorem childReqs_nodup (p : Bytes) (j : Nat) (ns : List Name) : (childReqs C p j ns).Nodup := by
  induction ns generalizing j with
  | nil => simp [childReqs]
  | cons n ns ih =>
    simp only [childReqs, List.nodup_cons]
    refine ⟨?_, ih (j + 1)⟩
    intro h
    obtain ⟨idx, m, _, e⟩ := (mem_childReqs C).1 h
    have := congrArg Req.id e
    simp at this
    omega

theorem subDs_nodup (s : Bool) (p : Bytes) (off : Nat) (j : Nat) (os : List (Name × Obs)) :
    ((subDs C c s p off j os).map (·.1)).Nodup := by
  induction os generalizing j with
  | nil => simp [subDs]
  | cons x os ih =>
    obtain ⟨n, o⟩ := x
    simp only [subDs, List.map_append]
    cases o with
    | leaf w => simpa using ih (j + 1)
    | dir i cs =>
      simp only [List.map_cons, List.map_nil, List.singleton_append, List.nodup_cons]
      refine ⟨?_, ih (j + 1)⟩
      intro h
      obtain ⟨d, hd, e⟩ := List.mem_map.1 h
      obtain ⟨idx, m, i', cs', _, rfl⟩ := (mem_subDs C c).1 hd
      have := congrArg Req.id e
      simp at this
      omega

theorem names_get {os : List (Name × Obs)} {idx : Nat} {n : Name} (h : (names os)[idx]? = some n) :
    ∃ o, os[idx]? = some (n, o) := by
  simp only [names, List.getElem?_map] at h
  cases ho : os[idx]? with
  | none => rw [ho] at h; cases h
  | some x =>
    rw [ho] at h
    obtain ⟨m, o⟩ := x
    simp at h
    exact ⟨o, by rw [h]⟩

theorem names_get' {os : List (Name × Obs)} {idx : Nat} {n : Name} {o : Obs} (h : os[idx]? = some (n, o)) :
    (names os)[idx]? = some n := by
  simp [names, List.getElem?_map, h]

/-- the signature task of a directory has a clean value when the listing key, the children's nodes and the
sub-directories' signature keys have -/
theorem sig_exists_core (env : Env) (s : Bool) (p : Bytes) (dv : Value) (os : List (Name × Obs))
    (hns : namesOfV c dv = names os)
    (h0 : Clean (prog C c sg vld) env (C.key (.contents p)) (C.val (.bv dv)))
    (HA : ∀ n o, (n, o) ∈ os → ∃ t, o = obs c t ∧ Agrees C env (pathAppend p n) t)
    (Hsub : ∀ n i cs, (n, Obs.dir i cs) ∈ os →
      Clean (prog C c sg vld) env (C.key (.sig s (pathAppend p n))) (C.val (.sig (gSigO s c (pathAppend p n) (.dir i cs))))) :
    ∃ v, Clean (prog C c sg vld) env (C.key (.sig s p)) v := by
  have hL := prog_LocalIds C c sg vld
  have hnext : ∀ recv, (prog C c sg vld).next (C.key (.sig s p)) recv = sigNext C c s p recv := by
    intro recv; show nextOf C c _ _ = _; simp [nextOf, C.unkey_key]
  have hv1 : validSeq (prog C c sg vld) (C.key (.sig s p)) [((⟨C.key (.contents p), 0, 0⟩ : Req), C.val (.bv dv))] = true :=
    valid_cons (seq := []) (by simp [validSeq]) (by rw [hnext]; simp [sigNext]) rfl (by intro w h; cases h)
  have hnames : ∀ seq, validSeq (prog C c sg vld) (C.key (.sig s p)) seq = true →
      ((⟨C.key (.contents p), 0, 0⟩ : Req), C.val (.bv dv)) ∈ seq →
      namesOfV c (dirV C (recvAt (recvOf seq) 0)) = names os := by
    intro seq hv hm
    have := recv_of_valid hL hv hm rfl
    simp only [] at this
    rw [this]; unfold dirV; rw [decode_val]; exact hns
  -- the slot of a listed child
  have hslot : ∀ n o, (n, o) ∈ os → ∃ t, o = obs c t ∧
      env (C.key (.stat (pathAppend p n))) = C.val (.stat (statOfTree t).1 (statOfTree t).2) := by
    intro n o hm
    obtain ⟨t, ho, hA⟩ := HA n o hm
    exact ⟨t, ho, agrees_stat C env _ t hA⟩
  -- stage 2: the children's node values
  have hD2k : ∀ d ∈ statDs C env p 1 (names os), d.1.kind = 0 ∧ 1 ≤ d.1.id ∧ d.1.id ≤ (names os).length := by
    intro d hd
    obtain ⟨idx, n, hn, rfl⟩ := (mem_statDs C).1 hd
    have := (List.getElem?_eq_some_iff.1 hn).1
    exact ⟨rfl, by simp, by simp; omega⟩
  have hv2 : validSeq (prog C c sg vld) (C.key (.sig s p))
      ((statDs C env p 1 (names os)).reverse ++ [((⟨C.key (.contents p), 0, 0⟩ : Req), C.val (.bv dv))]) = true := by
    apply valid_extend hL _ _ _ hv1
    · intro d hd; exact (hD2k d hd).1
    · rw [statDs_fst]; exact childReqs_nodup C p 1 _
    · intro d hd w hm
      have h1 := (hD2k d hd).2.1
      simp at hm
      rw [hm.1] at h1
      simp at h1
    · intro d hd
      rw [hnext]; unfold sigNext
      rw [hnames _ hv1 (by simp)]
      apply List.mem_cons_of_mem
      apply List.mem_append_left
      rw [← statDs_fst C env]
      exact List.mem_map.2 ⟨d, hd, rfl⟩
  have hstat2 : ∀ seq, validSeq (prog C c sg vld) (C.key (.sig s p)) seq = true →
      (∀ d ∈ statDs C env p 1 (names os), d ∈ seq) → ∀ idx n o, os[idx]? = some (n, o) →
      recvAt (recvOf seq) (1 + idx) = some (env (C.key (.stat (pathAppend p n)))) := by
    intro seq hv hsub idx n o ho
    have hm := hsub _ ((mem_statDs C).2 ⟨idx, n, names_get' ho, rfl⟩)
    exact recv_of_valid hL hv hm rfl
  -- stage 3: the sub-directories' signatures
  have hD3k : ∀ d ∈ subDs C c s p (names os).length 1 os, d.1.kind = 0 ∧ (names os).length < d.1.id := by
    intro d hd
    obtain ⟨idx, n, i, cs, _, rfl⟩ := (mem_subDs C c).1 hd
    exact ⟨rfl, by simp; omega⟩
  have hv3 : validSeq (prog C c sg vld) (C.key (.sig s p))
      ((subDs C c s p (names os).length 1 os).reverse ++
        ((statDs C env p 1 (names os)).reverse ++ [((⟨C.key (.contents p), 0, 0⟩ : Req), C.val (.bv dv))])) = true := by
    apply valid_extend hL _ _ _ hv2
    · intro d hd; exact (hD3k d hd).1
    · exact subDs_nodup C c s p _ 1 os
    · intro d hd w hm
      have h1 := (hD3k d hd).2
      simp only [List.mem_append, List.mem_reverse, List.mem_singleton] at hm
      rcases hm with hm | hm
      · have := (hD2k _ hm).2.2
        simp only [] at this
        omega
      · simp at hm
        rw [hm.1] at h1
        simp at h1
    · intro d hd
      obtain ⟨idx, n, i, cs, ho, rfl⟩ := (mem_subDs C c).1 hd
      rw [hnext]; unfold sigNext
      rw [hnames _ hv2 (by simp)]
      apply List.mem_cons_of_mem
      apply List.mem_append_right
      refine (mem_subReqs C).2 ⟨idx, n, names_get' ho, ?_, rfl⟩
      rw [hstat2 _ hv2 (by intro d hd; simp [hd]) idx n _ ho]
      obtain ⟨t, hot, hsl⟩ := hslot n _ (List.mem_of_getElem? ho)
      rw [hsl]
      unfold wantsSub
      rw [decode_val]
      cases t with
      | file j => simp [obs] at hot
      | link w => simp [obs] at hot
      | dir j ds => simp [statOfTree]
  -- nothing is outstanding
  have hc3 : completeSeq (prog C c sg vld) (C.key (.sig s p))
      ((subDs C c s p (names os).length 1 os).reverse ++
        ((statDs C env p 1 (names os)).reverse ++ [((⟨C.key (.contents p), 0, 0⟩ : Req), C.val (.bv dv))])) = true := by
    apply complete_of hL hv3
    intro q hq
    rw [hnext] at hq; unfold sigNext at hq
    rw [hnames _ hv3 (by simp)] at hq
    simp only [List.mem_cons, List.mem_append] at hq
    rcases hq with rfl | hq | hq
    · exact ⟨C.val (.bv dv), by simp⟩
    · rw [← statDs_fst C env] at hq
      obtain ⟨d, hd, rfl⟩ := List.mem_map.1 hq
      exact ⟨d.2, by simp [hd]⟩
    · obtain ⟨idx, n, hn, hw, rfl⟩ := (mem_subReqs C).1 hq
      obtain ⟨o, ho⟩ := names_get hn
      rw [hstat2 _ hv3 (by intro d hd; simp [hd]) idx n o ho] at hw
      obtain ⟨t, hot, hsl⟩ := hslot n o (List.mem_of_getElem? ho)
      rw [hsl] at hw
      unfold wantsSub at hw
      rw [decode_val] at hw
      cases t with
      | file j => simp [statOfTree] at hw
      | link w => cases w <;> simp [statOfTree] at hw
      | dir j ds =>
        simp only [obs] at hot
        rw [hot] at ho
        refine ⟨C.val (.sig (gSigO s c (pathAppend p n) (.dir j (sortBy c.before (obsList c ds))))), ?_⟩
        apply List.mem_append_left
        apply List.mem_reverse.2
        exact (mem_subDs C c).2 ⟨idx, n, j, _, ho, rfl⟩
  refine ⟨_, Clean.mk _ _ hv3 hc3 ?_⟩
  intro q v hm _
  simp only [List.mem_append, List.mem_reverse, List.mem_singleton] at hm
  rcases hm with hm | hm | hm
  · obtain ⟨idx, n, i, cs, ho, e⟩ := (mem_subDs C c).1 hm
    cases e
    exact Hsub n i cs (List.mem_of_getElem? ho)
  · obtain ⟨idx, n, _, e⟩ := (mem_statDs C).1 hm
    cases e
    exact clean_self C c sg vld env (Or.inl rfl)
  · cases hm
    exact h0

mutual
/-- Every tree has its signature computed by a brand-new engine: the model's signature IS a clean value. -/
theorem exists_sig (env : Env) (s : Bool) : ∀ (t : Tree) (p : Bytes), Agrees C env p t →
    Clean (prog C c sg vld) env (C.key (.sig s p)) (C.val (.sig (gSigO s c p (obs c t))))
  | .file i, p, hA => by
    have h0 := exists_contents C c sg vld env p _ hA
    obtain ⟨v, hv⟩ := sig_exists_core C c sg vld env s p _ [] (by simp [obs, contentsVal, namesOfV_leafRoot, names]) h0
      (by intro n o h; cases h) (by intro n i cs h; cases h)
    have := spec_sig C c (clean_spec C c sg vld hv) _ hA
    rw [this] at hv; exact hv
  | .link w, p, hA => by
    have h0 := exists_contents C c sg vld env p _ hA
    obtain ⟨v, hv⟩ := sig_exists_core C c sg vld env s p _ [] (by simp [obs, contentsVal, namesOfV_leafRoot, names]) h0
      (by intro n o h; cases h) (by intro n i cs h; cases h)
    have := spec_sig C c (clean_spec C c sg vld hv) _ hA
    rw [this] at hv; exact hv
  | .dir i cs, p, hA => by
    have h0 := exists_contents C c sg vld env p _ hA
    have hA' := hA
    simp only [Agrees] at hA'
    have hsubs := exists_sigL env s cs p hA'.2.2
    obtain ⟨v, hv⟩ := sig_exists_core C c sg vld env s p _ (sortBy c.before (obsList c cs))
      (by simp [obs, contentsVal, namesOfV_dirValue]) h0
      (by
        intro n o hm
        obtain ⟨t', hmem, _, ho⟩ := (mem_obsList c n o cs).1 ((mem_sortBy c.before (n, o) _).1 hm)
        exact ⟨t', ho, agreesL_mem C env p cs hA'.2.2 n t' hmem⟩)
      (by
        intro n j ds hm
        obtain ⟨t', hmem, _, ho⟩ := (mem_obsList c n _ cs).1 ((mem_sortBy c.before (n, _) _).1 hm)
        rw [ho]
        exact hsubs n t' hmem)
    have := spec_sig C c (clean_spec C c sg vld hv) _ hA
    rw [this] at hv; exact hv
theorem exists_sigL (env : Env) (s : Bool) : ∀ (cs : List (Name × Tree)) (p : Bytes), AgreesL C env p cs →
    ∀ n t, (n, t) ∈ cs →
      Clean (prog C c sg vld) env (C.key (.sig s (pathAppend p n))) (C.val (.sig (gSigO s c (pathAppend p n) (obs c t))))
  | [], _, _, n, t, h => by cases h
  | (m, u) :: rest, p, hA, n, t, h => by
    simp only [AgreesL] at hA
    rcases List.mem_cons.1 h with e | e
    · cases e; exact exists_sig env s u _ hA.1
    · exact exists_sigL env s rest p hA.2 n t e
end

/-- … and so have the directory node and the consuming command -/
theorem exists_keyVal (env : Env) (s : Bool) (p : Bytes) (t : Tree) (hA : Agrees C env p t) {dk : DKey}
    (hdk : dk ∈ sigKeys s p) :
    Clean (prog C c sg vld) env (C.key dk) (keyVal C dk (gSigO s c p (obs c t))) := by
  have hL := prog_LocalIds C c sg vld
  have hsig := exists_sig C c sg vld env s t p hA
  have hnode : Clean (prog C c sg vld) env (C.key (.dirNode s p)) (C.val (.sig (gSigO s c p (obs c t)))) := by
    obtain ⟨v, hv⟩ := clean_static hL (env := env) (k := C.key (.dirNode s p)) (L := [⟨C.key (.sig s p), 0, 0⟩])
      (by intro recv; show nextOf C c _ _ = _; simp [nextOf, C.unkey_key])
      (by intro q hq; simp at hq; rw [hq]) (by simp) (fun _ => C.val (.sig (gSigO s c p (obs c t))))
      (by intro q hq; simp at hq; rw [hq]; exact hsig)
    have := clean_keyVal C c sg vld (s := s) (p := p) (dk := .dirNode s p) (by simp [sigKeys]) hA hv
    rw [this] at hv; exact hv
  simp only [sigKeys, List.mem_cons, List.not_mem_nil, or_false] at hdk
  rcases hdk with rfl | rfl | rfl
  · exact hsig
  · exact hnode
  · obtain ⟨v, hv⟩ := clean_static hL (env := env) (k := C.key (.cmd s p)) (L := [⟨C.key (.dirNode s p), 0, 0⟩])
      (by intro recv; show nextOf C c _ _ = _; simp [nextOf, C.unkey_key])
      (by intro q hq; simp at hq; rw [hq]) (by simp) (fun _ => C.val (.sig (gSigO s c p (obs c t))))
      (by intro q hq; simp at hq; rw [hq]; exact hnode)
    have := clean_keyVal C c sg vld (s := s) (p := p) (dk := .cmd s p) (by simp [sigKeys]) hA hv
    rw [this] at hv; exact hv

end Existence

end LLBuild.DirTree
