/-
Helper lemmas for the extended BuildSystem client (`Model/BuildSystemClientX.lean`): what `clientX` shares with
`client` (requests, validity, every rule but the command rule), the keys a command can report, congruence of the
command function in the values of the declared inputs and in the external state at the reported keys, determinism
of the requests, and `clean_is_evalX` (`Clean` is computed by `cleanEvalX`).
-/
import LLBuild.Lemmas.BuildSystemClient
import LLBuild.Lemmas.FailPropClient
import LLBuild.Model.BuildSystemClientX

set_option linter.unusedVariables false

namespace LLBuild.BuildSystemClient
open LLBuild.Engine
open LLBuild.Generated.BuildSystemRules

theorem clientX_next (H : List Nat → Nat) (dx : DescX) (k : Key) (recv : Recv) :
    (clientX H dx).next k recv = nextOf dx.base k := rfl
theorem clientX_out (H : List Nat → Nat) (dx : DescX) : (clientX H dx).out = outOfX dx := rfl
theorem clientX_disc (H : List Nat → Nat) (dx : DescX) : (clientX H dx).disc = discOfX dx := rfl
theorem clientX_valid (H : List Nat → Nat) (dx : DescX) : (clientX H dx).valid = validOf dx.base := rfl
theorem clientX_self (H : List Nat → Nat) (dx : DescX) (k : Key) :
    (clientX H dx).self k = (ruleOf dx.base k == .fileInputNodeTask) := rfl

/-- every rule but the command rule is the base model's -/
theorem outOfX_of_ne {dx : DescX} {k : Key} (h : ruleOf dx.base k ≠ .commandTask) (env : Env) (recv : Recv) :
    outOfX dx k env recv = outOf dx.base k env recv := by
  unfold outOfX
  cases hr : ruleOf dx.base k <;> simp only []
  exact absurd hr h

theorem outOfX_command {dx : DescX} {k : Key} (h : ruleOf dx.base k = .commandTask) (env : Env) (recv : Recv) :
    outOfX dx k env recv = cmdOutX (dx.base.cmd (k / 3)) (dx.cmdX (k / 3)) env (getRecv recv) := by
  unfold outOfX
  simp only [h]

theorem discOfX_of_ne {dx : DescX} {k : Key} (h : ruleOf dx.base k ≠ .commandTask) (recv : Recv) :
    discOfX dx k recv = [] := by
  unfold discOfX
  cases hr : ruleOf dx.base k <;> simp only []
  exact absurd hr h

theorem discOfX_command {dx : DescX} {k : Key} (h : ruleOf dx.base k = .commandTask) (recv : Recv) :
    discOfX dx k recv = cmdDiscX (dx.base.cmd (k / 3)) (dx.cmdX (k / 3)) (getRecv recv) := by
  unfold discOfX
  simp only [h]

/-! ### the keys a command reports -/

theorem processDeps_keys_sub : ∀ (fs : List DepsFile) (p : Nat), p ∈ (processDeps fs).1 → p ∈ fs.flatMap DepsFile.keys
  | [], p, h => by simp [processDeps] at h
  | .unreadable :: rest, p, h => by simp [processDeps] at h
  | .parsed ks ok :: rest, p, h => by
    simp only [List.flatMap_cons, DepsFile.keys, List.mem_append]
    unfold processDeps at h
    cases ok with
    | false => simp only [Bool.false_eq_true, if_false] at h; exact Or.inl h
    | true =>
      simp only [if_true, List.mem_append] at h
      rcases h with h | h
      · exact Or.inl h
      · exact Or.inr (processDeps_keys_sub rest p h)

theorem filesAt_keys_sub (e : CmdX) (h : Nat) (p : Nat) (hp : p ∈ (e.filesAt h).flatMap DepsFile.keys) :
    p ∈ e.allKeys := by
  unfold CmdX.filesAt at hp
  simp only [List.mem_flatMap, List.mem_map, List.mem_range] at hp
  obtain ⟨f, ⟨j, _, hf⟩, hpf⟩ := hp
  -- the list the files are taken from is a row of the table or the default
  have key : ∀ fs : List DepsFile, fs.getD j .unreadable = f → fs ∈ (e.depsTable.map (·.2) ++ [e.depsElse]) → p ∈ e.allKeys := by
    intro fs hfs hmem
    unfold CmdX.allKeys
    refine List.mem_flatMap.2 ⟨fs, hmem, List.mem_flatMap.2 ⟨f, ?_, hpf⟩⟩
    rw [List.getD_eq_getElem?_getD] at hfs
    cases hq : fs[j]? with
    | none => rw [hq] at hfs; simp only [Option.getD_none] at hfs; rw [← hfs] at hpf; simp [DepsFile.keys] at hpf
    | some x =>
      rw [hq] at hfs; simp only [Option.getD_some] at hfs
      rw [← hfs]; exact List.mem_of_getElem? hq
  cases hfind : e.depsTable.find? (fun p => p.1 == h) with
  | none =>
    rw [hfind] at hf
    exact key e.depsElse hf (by simp)
  | some row =>
    rw [hfind] at hf
    refine key row.2 hf ?_
    have := List.mem_of_find?_eq_some hfind
    exact List.mem_append_left _ (List.mem_map.2 ⟨row, this, rfl⟩)

theorem discovered_sub_allKeys (e : CmdX) (h : Nat) (p : Nat) (hp : p ∈ (e.discovered h).1) : p ∈ e.allKeys := by
  unfold CmdX.discovered at hp
  split at hp
  · simp at hp
  · exact filesAt_keys_sub e h p (processDeps_keys_sub _ p hp)

theorem runX_keys_sub (c : Cmd) (e : CmdX) (get : Nat → Option Val) (p : Nat) (hp : p ∈ (runX c e get).keys) :
    p ∈ e.allKeys := by
  unfold runX at hp
  split at hp
  · simp at hp
  · rename_i h _
    split at hp
    · simp at hp
    · split at hp
      · simp at hp
      · exact discovered_sub_allKeys e h p hp

/-- under `DiscsAreSources` every reported key is the key of a file-input node -/
theorem disc_is_source {dx : DescX} (hS : dx.discsAreSources = true) {k : Key} {recv : Recv} {d : Key}
    (hd : d ∈ discOfX dx k recv) : ruleOf dx.base d = .fileInputNodeTask := by
  unfold discOfX at hd
  cases hr : ruleOf dx.base k <;> simp only [hr] at hd <;> try (cases hd; done)
  have hk1 := ruleOf_command hr
  have hlt : k / 3 < dx.base.cmds.length := by
    rw [ruleOf_mod1_eq' dx.base hk1] at hr
    unfold commandRule at hr
    by_cases hc : k / 3 < dx.base.cmds.length
    · exact hc
    · simp [hc] at hr
  unfold cmdDiscX at hd
  cases ht : (dx.base.cmd (k / 3)).tool <;> simp only [ht] at hd <;> try (cases hd; done)
  obtain ⟨p, hp, rfl⟩ := List.mem_map.1 hd
  have hall := runX_keys_sub _ _ _ p hp
  unfold DescX.discsAreSources at hS
  have h1 := List.all_eq_true.1 hS (k / 3) (List.mem_range.2 hlt)
  have h2 := List.all_eq_true.1 h1 p hall
  simp only [Bool.and_eq_true, Bool.not_eq_eq_eq_not, Bool.not_true, List.isEmpty_iff] at h2
  have hmd : nodeKey p % 3 = 0 ∧ nodeKey p / 3 = p := by
    show (3 * p) % 3 = 0 ∧ (3 * p) / 3 = p
    omega
  unfold ruleOf
  simp only [hmd.1, hmd.2, if_true, h2.1, h2.2, nodeRule]
  rfl
where
  ruleOf_mod1_eq' (d : Desc) {k : Key} (h : k % 3 = 1) : ruleOf d k = commandRule (decide (k / 3 < d.cmds.length)) := by
    unfold ruleOf
    rw [h]
    simp only [show ¬ (1 = 0) by decide, if_true, if_false]

/-! ### congruence of the command function -/

theorem readDiscovered_congr (env env' : Env) : ∀ (keys : List Nat) (h : Nat),
    (∀ p ∈ keys, env (nodeKey p) = env' (nodeKey p)) → readDiscovered env h keys = readDiscovered env' h keys
  | [], h, _ => rfl
  | p :: ps, h, hk => by
    unfold readDiscovered
    simp only [List.foldl_cons]
    rw [hk p List.mem_cons_self]
    exact readDiscovered_congr env env' ps _ (fun q hq => hk q (List.mem_cons_of_mem _ hq))

theorem runX_congr (c : Cmd) (e : CmdX) (g g' : Nat → Option Val) (hg : ∀ j, j < c.inputs.length → g j = g' j) :
    runX c e g = runX c e g' := by
  unfold runX
  rw [foldInputs_congr c g g' _ c.salt (fun j hj => hg j (List.mem_range.1 hj))]

theorem cmdOutX_congr (c : Cmd) (e : CmdX) (env : Env) (g g' : Nat → Option Val)
    (hg : ∀ j, j < c.inputs.length → g j = g' j) : cmdOutX c e env g = cmdOutX c e env g' := by
  unfold cmdOutX
  rw [runX_congr c e g g' hg, cmdOut_congr c g g' hg]

/-- a command's value depends on the external state at the keys it reports only -/
theorem cmdOutX_env (c : Cmd) (e : CmdX) (env env' : Env) (g : Nat → Option Val)
    (h : ∀ d ∈ cmdDiscX c e g, env d = env' d) : cmdOutX c e env g = cmdOutX c e env' g := by
  unfold cmdOutX
  unfold cmdDiscX at h
  cases ht : c.tool <;> simp only [ht] at h ⊢
  rw [readDiscovered_congr env env' _ _ (fun p hp => h _ (List.mem_map.2 ⟨p, hp, rfl⟩))]

/-- a command with the trivial extension is the base model's command -/
theorem cmdOutX_trivial (c : Cmd) (env : Env) (g : Nat → Option Val) : cmdOutX c {} env g = cmdOut c g := by
  unfold cmdOutX cmdOut runX
  cases ht : c.tool <;> simp only []
  cases hf : foldInputs c g (List.range c.inputs.length) c.salt <;> simp [readDiscovered]

theorem cmdDiscX_trivial (c : Cmd) (g : Nat → Option Val) : cmdDiscX c {} g = [] := by
  unfold cmdDiscX runX
  cases ht : c.tool <;> simp only []
  cases hf : foldInputs c g (List.range c.inputs.length) c.salt <;> simp

/-- a failed input at a declared position: the process is not started (skip block) -/
theorem runX_failed (c : Cmd) (e : CmdX) (get : Nat → Option Val) {j : Nat} (hlt : j < c.inputs.length)
    (hj : get j = some vFailedInput) : runX c e get = ⟨.skipped, 0, []⟩ := by
  unfold runX
  rw [foldInputs_failed c get hj (List.range c.inputs.length) c.salt (List.mem_range.2 hlt)]

theorem cmdOutX_failed (c : Cmd) (e : CmdX) (env : Env) (get : Nat → Option Val) {j : Nat} (hlt : j < c.inputs.length)
    (hj : get j = some vFailedInput) (hsym : c.tool ≠ .symlink) : cmdOutX c e env get = vFailedCmd := by
  unfold cmdOutX
  cases ht : c.tool <;> simp only []
  · rw [runX_failed c e get hlt hj]; simp
  · rw [cmdOut_failed c get hlt hj hsym]
  · rw [cmdOut_failed c get hlt hj hsym]
  · exact absurd ht hsym

/-! ### requests are the base model's: deterministic -/

theorem clientX_Det (H : List Nat → Nat) (dx : DescX) : (clientX H dx).Det :=
  ⟨⟨fun k r r' _ _ _ q hq => hq, fun k r q q' hq hq' hid => (nextOf_id_inj dx.base k hq hq' hid.symm).symm⟩,
   fun k r q hq => nextOf_kind dx.base k hq⟩

/-! ### `Clean` is computed by `cleanEvalX` -/

theorem clean_is_evalX (H : List Nat → Nat) (dx : DescX) (env : Env) :
    ∀ (f : Nat) (k : Key) (v w : Val), Clean (clientX H dx) env k v → cleanEvalX dx env f k = some w → v = w := by
  intro f
  induction f with
  | zero => intro k v w _ he; simp [cleanEvalX] at he
  | succ f ih =>
    intro k v w hc he
    cases hc with
    | mk _ seq hv hcm hin =>
      have hs : ∀ recv, (clientX H dx).next k recv = nextOf dx.base k := fun _ => rfl
      rw [clientX_out]
      unfold cleanEvalX at he
      cases hr : ruleOf dx.base k <;> simp only [hr] at he
      case directoryInputNodeTask => cases he
      case directoryStructureInputNodeTask => cases he
      case producedDirectoryNodeTask => cases he
      case abort => cases he
      case fileInputNodeTask =>
        rw [outOfX_of_ne (by rw [hr]; decide)]; unfold outOf; simp only [hr]; exact Option.some.inj he
      case virtualInputNodeTask =>
        rw [outOfX_of_ne (by rw [hr]; decide)]; unfold outOf; simp only [hr]; exact Option.some.inj he
      case missingCommandTask =>
        rw [outOfX_of_ne (by rw [hr]; decide)]; unfold outOf; simp only [hr]; exact Option.some.inj he
      case targetTask =>
        rw [outOfX_of_ne (by rw [hr]; decide)]; unfold outOf; simp only [hr]; exact Option.some.inj he
      case producedNodeTask =>
        rw [outOfX_of_ne (by rw [hr]; decide)]
        unfold outOf
        simp only [hr]
        cases hp : dx.base.producers (k / 3) with
        | nil => simp only [hp] at he ⊢; exact Option.some.inj he
        | cons c rest =>
          cases rest with
          | cons c2 r2 => simp only [hp] at he ⊢; exact Option.some.inj he
          | nil =>
            simp only [hp] at he ⊢
            have hL : nextOf dx.base k = [⟨cmdKey c, 0, 0⟩] := by simp [nextOf, hr, hp]
            have hs' : ∀ recv, (clientX H dx).next k recv = [⟨cmdKey c, 0, 0⟩] := fun r => by rw [hs r, hL]
            obtain ⟨cv, hmem, hget⟩ := static_recv hs' hv hcm (q := ⟨cmdKey c, 0, 0⟩) (by simp) rfl
              (by intro q' hq' _; simpa using hq')
            have hcl := hin _ _ hmem rfl
            simp only [] at hget
            rw [hget]
            cases hce : cleanEvalX dx env f (cmdKey c) with
            | none => simp [hce] at he
            | some cw =>
              simp only [hce] at he
              have : cv = cw := ih _ _ _ hcl hce
              rw [this]
              exact Option.some.inj he
      case commandTask =>
        rw [outOfX_command hr]
        by_cases hsym : (dx.base.cmd (k / 3)).tool = .symlink
        · simp only [hsym, if_true] at he
          rw [← Option.some.inj he]
          simp [cmdOutX, cmdOut, hsym]
        · simp only [hsym, if_false] at he
          split at he
          · rename_i hall
            rw [← Option.some.inj he]
            apply cmdOutX_congr
            intro j hj
            have hL : nextOf dx.base k = reqsFrom 0 0 (dx.base.cmd (k / 3)).inputs := by simp [nextOf, hr, hsym]
            have hs' : ∀ recv, (clientX H dx).next k recv = reqsFrom 0 0 (dx.base.cmd (k / 3)).inputs :=
              fun r => by rw [hs r, hL]
            have hn : (dx.base.cmd (k / 3)).inputs[j]? = some ((dx.base.cmd (k / 3)).inputs[j]) :=
              List.getElem?_eq_getElem hj
            have hq : (⟨nodeKey ((dx.base.cmd (k / 3)).inputs[j]), j, 0⟩ : Req) ∈
                reqsFrom 0 0 (dx.base.cmd (k / 3)).inputs := mem_reqsFrom.2 ⟨j, _, hn, by simp⟩
            obtain ⟨vj, hmem, hget⟩ := static_recv hs' hv hcm hq rfl (fun q' hq' hid => reqsFrom_id_inj hq hq' hid)
            have hcl := hin _ _ hmem rfl
            simp only [] at hget hcl
            rw [hget]
            have hsome := allSome_mem hall (List.mem_range.2 hj)
            simp only [hn] at hsome ⊢
            cases hce : cleanEvalX dx env f (nodeKey ((dx.base.cmd (k / 3)).inputs[j])) with
            | none => simp [hce] at hsome
            | some wj => rw [ih _ _ _ hcl hce]
          · cases he

/-- the values a completed execution of a (non-symlink) command task found under its input positions are the clean
values of its declared inputs: what `cleanRunX` feeds to `runX` -/
theorem clean_runX (H : List Nat → Nat) (dx : DescX) (env : Env) (f : Nat) (k : Key) (seq : Seq) (r : Run)
    (hr : ruleOf dx.base k = .commandTask) (hsym : (dx.base.cmd (k / 3)).tool ≠ .symlink)
    (hv : validSeq (clientX H dx) k seq = true) (hcm : completeSeq (clientX H dx) k seq = true)
    (hin : ∀ q v, (q, v) ∈ seq → q.kind = 0 → Clean (clientX H dx) env q.key v)
    (he : cleanRunX dx env f (k / 3) = some r) :
    runX (dx.base.cmd (k / 3)) (dx.cmdX (k / 3)) (getRecv (recvOf seq)) = r := by
  unfold cleanRunX at he
  simp only [] at he
  split at he
  · rename_i hall
    rw [← Option.some.inj he]
    apply runX_congr
    intro j hj
    have hs : ∀ recv, (clientX H dx).next k recv = nextOf dx.base k := fun _ => rfl
    have hL : nextOf dx.base k = reqsFrom 0 0 (dx.base.cmd (k / 3)).inputs := by simp [nextOf, hr, hsym]
    have hs' : ∀ recv, (clientX H dx).next k recv = reqsFrom 0 0 (dx.base.cmd (k / 3)).inputs :=
      fun r => by rw [hs r, hL]
    have hn : (dx.base.cmd (k / 3)).inputs[j]? = some ((dx.base.cmd (k / 3)).inputs[j]) := List.getElem?_eq_getElem hj
    have hq : (⟨nodeKey ((dx.base.cmd (k / 3)).inputs[j]), j, 0⟩ : Req) ∈
        reqsFrom 0 0 (dx.base.cmd (k / 3)).inputs := mem_reqsFrom.2 ⟨j, _, hn, by simp⟩
    obtain ⟨vj, hmem, hget⟩ := static_recv hs' hv hcm hq rfl (fun q' hq' hid => reqsFrom_id_inj hq hq' hid)
    have hcl := hin _ _ hmem rfl
    simp only [] at hget hcl
    rw [hget]
    have hsome := allSome_mem hall (List.mem_range.2 hj)
    simp only [hn] at hsome ⊢
    cases hce : cleanEvalX dx env f (nodeKey ((dx.base.cmd (k / 3)).inputs[j])) with
    | none => simp [hce] at hsome
    | some wj => rw [clean_is_evalX H dx env f _ _ _ hcl hce]
  · cases he

/-! ### the loop over the dependency files -/

/-- every file readable and parsed without error: all are processed, every key of every file is reported -/
theorem processDeps_good : ∀ (fs : List DepsFile), (∀ g ∈ fs, ∃ ks, g = .parsed ks true) →
    processDeps fs = (fs.flatMap DepsFile.keys, true)
  | [], _ => rfl
  | f :: rest, h => by
    obtain ⟨ks, rfl⟩ := h f List.mem_cons_self
    have ih := processDeps_good rest (fun g hg => h g (List.mem_cons_of_mem _ hg))
    unfold processDeps
    simp [ih, DepsFile.keys]

/-- the first file that cannot be opened or does not parse stops the loop with `false`; the keys of the files in front
of it, and the keys seen in it, have been reported -/
theorem processDeps_bad : ∀ (pre : List DepsFile) (f : DepsFile) (post : List DepsFile),
    (∀ g ∈ pre, ∃ ks, g = .parsed ks true) → (f = .unreadable ∨ ∃ ks, f = .parsed ks false) →
    processDeps (pre ++ f :: post) = (pre.flatMap DepsFile.keys ++ f.keys, false)
  | [], f, post, _, hf => by
    rcases hf with rfl | ⟨ks, rfl⟩ <;> simp [processDeps, DepsFile.keys]
  | g :: pre, f, post, h, hf => by
    obtain ⟨ks, rfl⟩ := h g List.mem_cons_self
    have ih := processDeps_bad pre f post (fun g hg => h g (List.mem_cons_of_mem _ hg)) hf
    simp only [List.cons_append]
    unfold processDeps
    simp [ih, DepsFile.keys]

/-! ### inversion of `Clean` -/

theorem clean_inv {P : Program} {env : Env} {k : Key} {v : Val} (h : Clean P env k v) :
    ∃ seq, validSeq P k seq = true ∧ completeSeq P k seq = true ∧
      (∀ q w, (q, w) ∈ seq → q.kind = 0 → Clean P env q.key w) ∧ v = P.out k env (recvOf seq) := by
  cases h with
  | mk _ seq hv hcm hin => exact ⟨seq, hv, hcm, hin, rfl⟩

/-- the four ways an execution of a shell command ends -/
theorem runX_cases (c : Cmd) (e : CmdX) (get : Nat → Option Val) :
    (foldInputs c get (List.range c.inputs.length) c.salt = none ∧ runX c e get = ⟨.skipped, 0, []⟩) ∨
    (∃ h, foldInputs c get (List.range c.inputs.length) c.salt = some h ∧ e.exitsNonZero h = true ∧
      runX c e get = ⟨.exitedNonZero, h, []⟩) ∨
    (∃ h, foldInputs c get (List.range c.inputs.length) c.salt = some h ∧ e.exitsNonZero h = false ∧
      e.depsPaths = [] ∧ runX c e get = ⟨.succeeded, h, []⟩) ∨
    (∃ h, foldInputs c get (List.range c.inputs.length) c.salt = some h ∧ e.exitsNonZero h = false ∧
      e.depsPaths ≠ [] ∧ (e.discovered h).2 = true ∧ runX c e get = ⟨.succeeded, h, (e.discovered h).1⟩) ∨
    (∃ h, foldInputs c get (List.range c.inputs.length) c.salt = some h ∧ e.exitsNonZero h = false ∧
      e.depsPaths ≠ [] ∧ (e.discovered h).2 = false ∧ runX c e get = ⟨.depsFailed, h, (e.discovered h).1⟩) := by
  unfold runX
  cases hf : foldInputs c get (List.range c.inputs.length) c.salt with
  | none => exact Or.inl ⟨rfl, rfl⟩
  | some h =>
    right
    simp only []
    cases he : e.exitsNonZero h with
    | true => exact Or.inl ⟨h, rfl, he, by simp⟩
    | false =>
      right
      cases hp : e.depsPaths with
      | nil => exact Or.inl ⟨h, rfl, he, rfl, by simp⟩
      | cons a l =>
        right
        cases hd : (e.discovered h).2 with
        | true => exact Or.inl ⟨h, rfl, he, by simp, hd, by simp⟩
        | false => exact Or.inr ⟨h, rfl, he, by simp, hd, by simp⟩

end LLBuild.BuildSystemClient
