/-
Helper lemmas for Props/C18World.lean: well-formed manifests, frame properties of one build step, the quiet-build
lemma (null rebuild), the world invariant and its preservation.
-/
import LLBuild.Model.NinjaWorld
import LLBuild.Lemmas.NinjaBuild
import LLBuild.Props.C18

namespace LLBuild.NinjaWorld
open LLBuild.NinjaBuild LLBuild.NinjaBuild.Gen

/-! ### basics -/

@[simp] theorem upd_same {β : Type} (f : Nat → β) (k : Nat) (v : β) : upd f k v k = v := by simp [upd]
theorem upd_other {β : Type} (f : Nat → β) {k x : Nat} (v : β) (h : x ≠ k) : upd f k v x = f x := by simp [upd, h]

theorem producer_none_iff {cs : List Command} {p : Path} : producer cs p = none ↔ ∀ q ∈ cs, p ∉ q.outs := by
  simp [producer, List.find?_eq_none]

theorem producer_some {cs : List Command} {p : Path} {q : Command} (h : producer cs p = some q) : q ∈ cs ∧ p ∈ q.outs := by
  unfold producer at h
  exact ⟨List.mem_of_find?_eq_some h, by simpa using List.find?_some h⟩

theorem producer_append {a b : List Command} {p : Path} :
    producer (a ++ b) p = (producer a p).or (producer b p) := by
  simp [producer, List.find?_append]

theorem producer_cons {c : Command} {l : List Command} {p : Path} :
    producer (c :: l) p = if c.outs.contains p then some c else producer l p := by
  simp only [producer, List.find?_cons]
  split <;> simp_all

theorem nodupB_iff (l : List Path) : nodupB l = true ↔ l.Nodup := by
  induction l with
  | nil => simp [nodupB]
  | cons x xs ih => simp [nodupB, ih]

/-- what `wfFrom` says about one command, given the commands before it (latest first) and after it -/
structure CmdWF (before : List Command) (c : Command) (rest : List Command) : Prop where
  outs_ne : c.outs ≠ []
  outs_before : ∀ o ∈ c.outs, producer before o = none
  outs_rest : ∀ o ∈ c.outs, producer rest o = none
  nodup : c.outs.Nodup
  name_before : ∀ q ∈ before, q.name ≠ c.name
  ins_not_out : ∀ p ∈ c.exp ++ c.imp ++ c.oo ++ c.deps, p ∉ c.outs
  ins_rest : ∀ p ∈ c.exp ++ c.imp ++ c.oo ++ c.deps, producer rest p = none
  phony : c.phony = true → c.outs.length = 1 ∧ (c.exp ++ c.imp ++ c.oo) ≠ [] ∧ c.hasDeps = false ∧ c.restat = false ∧
    c.generator = false
  deps : c.hasDeps = false → c.deps = []

theorem wfFrom_cons (before : List Command) (c : Command) (rest : List Command) :
    wfFrom before (c :: rest) = true ↔ CmdWF before c rest ∧ wfFrom (c :: before) rest = true := by
  simp only [wfFrom, Bool.and_eq_true, List.all_eq_true, Bool.not_eq_true', List.isEmpty_eq_false_iff,
    Option.isNone_iff_eq_none, nodupB_iff, bne_iff_ne, ne_eq, Bool.or_eq_true, beq_iff_eq,
    List.isEmpty_iff]
  constructor
  · rintro ⟨⟨⟨⟨⟨⟨⟨h1, h2⟩, h3⟩, h4⟩, h5⟩, h6⟩, h7⟩, h8⟩
    refine ⟨⟨h1, fun o ho => (h2 o ho).1, fun o ho => (h2 o ho).2, h3, h4, fun p hp => ?_, fun p hp => (h5 p hp).2, ?_, ?_⟩, h8⟩
    · have := (h5 p hp).1
      simpa using this
    · intro hp
      rcases h6 with h6 | h6
      · rw [hp] at h6; cases h6
      · obtain ⟨⟨⟨⟨a, b⟩, c'⟩, d⟩, e⟩ := h6
        exact ⟨a, b, c', d, e⟩
    · intro hd
      rcases h7 with h7 | h7
      · rw [hd] at h7; cases h7
      · exact h7
  · rintro ⟨h, h8⟩
    refine ⟨⟨⟨⟨⟨⟨⟨h.outs_ne, fun o ho => ⟨h.outs_before o ho, h.outs_rest o ho⟩⟩, h.nodup⟩, h.name_before⟩,
      fun p hp => ⟨by simpa using h.ins_not_out p hp, h.ins_rest p hp⟩⟩, ?_⟩, ?_⟩, h8⟩
    · cases hp : c.phony with
      | false => exact Or.inl rfl
      | true =>
        obtain ⟨a, b, c', d, e⟩ := h.phony hp
        exact Or.inr ⟨⟨⟨⟨a, b⟩, c'⟩, d⟩, e⟩
    · cases hd : c.hasDeps with
      | true => exact Or.inl rfl
      | false => exact Or.inr (h.deps hd)

theorem wfFrom_at : ∀ (pre acc : List Command) (c : Command) (rest : List Command),
    wfFrom acc (pre ++ c :: rest) = true → CmdWF (pre.reverse ++ acc) c rest ∧ wfFrom (c :: (pre.reverse ++ acc)) rest = true := by
  intro pre
  induction pre with
  | nil => intro acc c rest h; simpa using (wfFrom_cons acc c rest).1 h
  | cons x xs ih =>
    intro acc c rest h
    have := ((wfFrom_cons acc x (xs ++ c :: rest)).1 h).2
    have := ih (x :: acc) c rest this
    simpa using this

/-- a position in a well-formed manifest: `before` = the earlier commands, latest first -/
structure At (cs before : List Command) (c : Command) (rest : List Command) : Prop where
  split : cs = before.reverse ++ c :: rest
  wf : wfFrom [] cs = true

theorem At.cmdWF {cs before rest : List Command} {c : Command} (h : At cs before c rest) : CmdWF before c rest := by
  have := wfFrom_at before.reverse [] c rest (by rw [← h.split]; exact h.wf)
  simpa using this.1

theorem At.next {cs before rest : List Command} {c c' : Command} (h : At cs before c (c' :: rest)) :
    At cs (c :: before) c' rest :=
  ⟨by rw [h.split]; simp, h.wf⟩

theorem At.of_mem {cs : List Command} (hwf : wfFrom [] cs = true) {c : Command} (hc : c ∈ cs) :
    ∃ before rest, At cs before c rest := by
  obtain ⟨s, t, rfl⟩ := List.append_of_mem hc
  exact ⟨s.reverse, t, ⟨by simp, hwf⟩⟩

theorem At.mem {cs before rest : List Command} {c : Command} (h : At cs before c rest) : c ∈ cs := by
  rw [h.split]; simp

theorem At.mem_before {cs before rest : List Command} {c q : Command} (h : At cs before c rest) (hq : q ∈ before) : q ∈ cs := by
  rw [h.split]; simp [hq]

theorem At.mem_rest {cs before rest : List Command} {c q : Command} (h : At cs before c rest) (hq : q ∈ rest) : q ∈ cs := by
  rw [h.split]; simp [hq]

/-- the position of an earlier command -/
theorem At.of_before {cs before rest : List Command} {c q : Command} (h : At cs before c rest) (hq : q ∈ before) :
    ∃ b r, At cs b q r ∧ (∀ x ∈ b, x ∈ before) ∧ c ∈ r ∧ (∀ x ∈ rest, x ∈ r) := by
  obtain ⟨s, t, hst⟩ := List.append_of_mem hq
  refine ⟨t, s.reverse ++ c :: rest, ⟨?_, h.wf⟩, ?_, by simp, by intro x hx; simp [hx]⟩
  · rw [h.split, hst]; simp
  · intro x hx; rw [hst]; simp [hx]

/-- the position of a later command -/
theorem At.of_rest {cs before rest : List Command} {c q : Command} (h : At cs before c rest) (hq : q ∈ rest) :
    ∃ b r, At cs b q r ∧ c ∈ b ∧ (∀ x ∈ before, x ∈ b) ∧ (∀ x ∈ r, x ∈ rest) := by
  obtain ⟨s, t, hst⟩ := List.append_of_mem hq
  refine ⟨s.reverse ++ c :: before, t, ⟨?_, h.wf⟩, by simp, by intro x hx; simp [hx], ?_⟩
  · rw [h.split, hst]; simp
  · intro x hx; rw [hst]; simp [hx]

theorem At.producer_out {cs before rest : List Command} {c : Command} (h : At cs before c rest) {o : Path} (ho : o ∈ c.outs) :
    producer cs o = some c := by
  have hb := h.cmdWF.outs_before o ho
  rw [h.split, producer_append]
  have : producer before.reverse o = none := by
    rw [producer_none_iff] at hb ⊢
    intro q hq; exact hb q (by simpa using hq)
  rw [this, producer_cons]
  simp [ho]

theorem At.name_ne_before {cs before rest : List Command} {c q : Command} (h : At cs before c rest) (hq : q ∈ before) :
    q.name ≠ c.name := h.cmdWF.name_before q hq

theorem At.name_ne_rest {cs before rest : List Command} {c q : Command} (h : At cs before c rest) (hq : q ∈ rest) :
    q.name ≠ c.name := by
  obtain ⟨b, r, hat, hc, _, _⟩ := h.of_rest hq
  exact fun e => hat.cmdWF.name_before c hc e.symm

/-- names identify commands -/
theorem name_inj {cs : List Command} (hwf : wfFrom [] cs = true) {c q : Command} (hc : c ∈ cs) (hq : q ∈ cs)
    (hn : q.name = c.name) : q = c := by
  obtain ⟨before, rest, hat⟩ := At.of_mem hwf hc
  have : q ∈ before.reverse ++ c :: rest := by rw [← hat.split]; exact hq
  simp only [List.mem_append, List.mem_reverse, List.mem_cons] at this
  rcases this with h1 | h1 | h1
  · exact absurd hn (hat.name_ne_before h1)
  · exact h1
  · exact absurd hn (hat.name_ne_rest h1)

/-- every output has exactly one producer -/
theorem producer_of_mem {cs : List Command} (hwf : wfFrom [] cs = true) {c : Command} (hc : c ∈ cs) {o : Path} (ho : o ∈ c.outs) :
    producer cs o = some c := by
  obtain ⟨before, rest, hat⟩ := At.of_mem hwf hc
  exact hat.producer_out ho

/-- an input of a command is a source file or produced by an earlier command -/
theorem At.producer_in {cs before rest : List Command} {c : Command} (h : At cs before c rest) {p : Path}
    (hp : p ∈ c.exp ++ c.imp ++ c.oo ++ c.deps) : producer cs p = none ∨ ∃ q, producer cs p = some q ∧ q ∈ before := by
  cases hq : producer cs p with
  | none => exact Or.inl rfl
  | some q =>
    right
    refine ⟨q, rfl, ?_⟩
    obtain ⟨hqm, hpo⟩ := producer_some hq
    have : q ∈ before.reverse ++ c :: rest := by rw [← h.split]; exact hqm
    simp only [List.mem_append, List.mem_reverse, List.mem_cons] at this
    rcases this with h1 | h1 | h1
    · exact h1
    · subst h1; exact absurd hpo (h.cmdWF.ins_not_out p hp)
    · have := h.cmdWF.ins_rest p hp
      rw [producer_none_iff] at this
      exact absurd hpo (this q h1)

/-! ### the decision chain without cancellation / simulation -/

theorem inputsAvailable_default (k : Cmd) (a : Acc) (prior : Option BuildValue) (outs : List FInfo) :
    inputsAvailable {} k a prior outs =
      if k.phony then
        (if a.shouldSkip then .complete .skipped false else .complete (computeResult k outs) (outs.any (·.isMissing)))
      else if shortcut {} k a prior outs then .complete (computeResult k outs) false
      else if a.shouldSkip then .complete .skipped false else .execute := by
  simp only [inputsAvailable, decisionOrder, firstSome, decide1, phonyPropagatesSkip, Bool.true_and]
  cases k.phony <;> cases a.shouldSkip <;> cases shortcut {} k a prior outs <;> simp

/-! ### writing outputs -/

theorem writeOut_other (restat : Bool) (x : Content) (o : Path) (fc : (Path → Option File) × Nat) {p : Path} (hp : p ≠ o) :
    (writeOut restat x o fc).1 p = fc.1 p := by
  unfold writeOut
  split
  · split
    · rfl
    · simp [upd, hp]
  · simp [upd, hp]

theorem writeOut_clock (restat : Bool) (x : Content) (o : Path) (fc : (Path → Option File) × Nat) :
    fc.2 ≤ (writeOut restat x o fc).2 := by
  unfold writeOut
  split
  · split <;> simp
  · simp

/-- the file written: it holds `x`; either it was left alone (restat-style, same content) or it carries a fresh stamp -/
theorem writeOut_self (restat : Bool) (x : Content) (o : Path) (fc : (Path → Option File) × Nat) :
    ((writeOut restat x o fc).1 o = fc.1 o ∧ (writeOut restat x o fc).2 = fc.2 ∧ restat = true ∧ ∃ f, fc.1 o = some f ∧ f.content = x) ∨
    ((writeOut restat x o fc).1 o = some ⟨x, fc.2 + 1⟩ ∧ (writeOut restat x o fc).2 = fc.2 + 1) := by
  unfold writeOut
  split
  · rename_i f hf
    split
    · rename_i h
      simp only [Bool.and_eq_true, beq_iff_eq] at h
      exact Or.inl ⟨rfl, rfl, h.1, f, hf, h.2⟩
    · exact Or.inr ⟨by simp, rfl⟩
  · exact Or.inr ⟨by simp, rfl⟩

theorem writeOuts_other (restat : Bool) : ∀ (l : List (Path × Content)) (fc : (Path → Option File) × Nat) {p : Path},
    (∀ e ∈ l, e.1 ≠ p) → (writeOuts restat l fc).1 p = fc.1 p := by
  intro l
  induction l with
  | nil => intro fc p _; rfl
  | cons e rest ih =>
    intro fc p h
    obtain ⟨o, x⟩ := e
    simp only [writeOuts]
    rw [ih _ (fun e he => h e (List.mem_cons_of_mem _ he))]
    exact writeOut_other _ _ _ _ (fun hh => h (o, x) List.mem_cons_self hh.symm)

theorem writeOuts_clock (restat : Bool) : ∀ (l : List (Path × Content)) (fc : (Path → Option File) × Nat),
    fc.2 ≤ (writeOuts restat l fc).2 := by
  intro l
  induction l with
  | nil => intro fc; exact Nat.le_refl _
  | cons e rest ih =>
    intro fc
    obtain ⟨o, x⟩ := e
    simp only [writeOuts]
    exact Nat.le_trans (writeOut_clock _ _ _ _) (ih _)

/-- every file written (paths pairwise different) holds its content afterwards; it was either left alone or carries a
stamp above the clock before the execution and at most the clock after it -/
theorem writeOuts_self (restat : Bool) : ∀ (l : List (Path × Content)) (fc : (Path → Option File) × Nat),
    (l.map (·.1)).Nodup → ∀ e ∈ l,
      ((writeOuts restat l fc).1 e.1 = fc.1 e.1 ∧ restat = true ∧ ∃ f, fc.1 e.1 = some f ∧ f.content = e.2) ∨
      (∃ s, (writeOuts restat l fc).1 e.1 = some ⟨e.2, s⟩ ∧ fc.2 < s ∧ s ≤ (writeOuts restat l fc).2) := by
  intro l
  induction l with
  | nil => intro fc _ e he; cases he
  | cons a rest ih =>
    intro fc hnd e he
    obtain ⟨o, x⟩ := a
    simp only [List.map_cons, List.nodup_cons] at hnd
    simp only [writeOuts]
    rcases List.mem_cons.1 he with rfl | he
    · have hother : ∀ e' ∈ rest, e'.1 ≠ o := fun e' he' hh => hnd.1 (List.mem_map.2 ⟨e', he', hh⟩)
      rw [writeOuts_other restat rest _ hother]
      rcases writeOut_self restat x o fc with ⟨h1, _, h3, h4⟩ | ⟨h1, h2⟩
      · exact Or.inl ⟨h1, h3, h4⟩
      · refine Or.inr ⟨fc.2 + 1, h1, Nat.lt_succ_self _, ?_⟩
        have := writeOuts_clock restat rest (writeOut restat x o fc)
        omega
    · have hne : e.1 ≠ o := fun hh => hnd.1 (List.mem_map.2 ⟨e, he, hh⟩)
      rcases ih (writeOut restat x o fc) hnd.2 e he with ⟨h1, h2, h3⟩ | ⟨s, h1, h2, h3⟩
      · rw [writeOut_other _ _ _ _ hne] at h1 h3
        exact Or.inl ⟨h1, h2, h3⟩
      · exact Or.inr ⟨s, h1, Nat.lt_of_le_of_lt (writeOut_clock _ _ _ _) h2, h3⟩

/-! ### one task -/

/-- the values the task of `c` receives -/
def insOf (cs : List Command) (w : World) (c : Command) : Inputs BuildValue :=
  ⟨c.exp.map (valueOf cs w), c.imp.map (valueOf cs w), c.oo.map (valueOf cs w)⟩

def kOf (w : World) (c : Command) : Cmd := c.cmd (w.cmdline c.name)

def accOf (cs : List Command) (w : World) (c : Command) : Acc := accumulate (kOf w c) (insOf cs w c)

/-- the decision of `inputsAvailable` for command `c` in world `w` -/
def decisionOf (cs : List Command) (w : World) (c : Command) : Outcome :=
  inputsAvailable {} (kOf w c) (accOf cs w c) ((priorRow w c).map (·.value)) (c.outs.map w.info)

def didOfValue (c : Command) (v : BuildValue) : Did :=
  if v.kind == .successfulCommand then (if c.phony then .phony else .updated) else .skipped

/-- store the result of the task of `c`, and the dependency list it recorded (`ok`: after a successful execution) -/
def setCmd (w : World) (c : Command) (r : CmdResult) (ok : Bool := false) : World :=
  { w with cmdDb := upd w.cmdDb c.name (some r),
           depDb := upd w.depDb c.name (if ok then storedDeps c else requestedDeps c) }

theorem runTask_complete {m : Manifest} {before : List Command} {E : Nat} {c : Command} {w : World} {v : BuildValue}
    {force : Bool} (h : decisionOf m.cmds w c = .complete v force) :
    runTask m before E c w =
      (setCmd w c (completeCmd E (w.cmdDb c.name) v force c.outs.length (sigOf c)), didOfValue c v) := by
  simp only [decisionOf, kOf, accOf, insOf] at h
  simp only [runTask, h, setCmd, didOfValue, Bool.false_eq_true, ↓reduceIte]

theorem runTask_fail {m : Manifest} {before : List Command} {E : Nat} {c : Command} {w : World}
    (h : decisionOf m.cmds w c = .execute) (hf : w.failing c.name = true) :
    runTask m before E c w = (setCmd w c (completeCmd E (w.cmdDb c.name) .failed true c.outs.length (sigOf c)), .failed) := by
  simp only [decisionOf, kOf, accOf, insOf] at h
  simp only [runTask, h, hf, setCmd, afterExecute, ↓reduceIte, Bool.not_false, Bool.false_eq_true]

/-- the world after the outputs of `c` have been written -/
def written (m : Manifest) (before : List Command) (c : Command) (w : World) : World :=
  let fc := writeOuts c.restat (c.outs.map fun o => (o, outContent m before c w o)) (w.files, w.clock)
  { w with files := fc.1, clock := fc.2 }

theorem runTask_exec {m : Manifest} {before : List Command} {E : Nat} {c : Command} {w : World}
    (h : decisionOf m.cmds w c = .execute) (hf : w.failing c.name = false) :
    runTask m before E c w =
      (setCmd (written m before c w) c
        (completeCmd E (w.cmdDb c.name) (computeResult (kOf w c) (c.outs.map (written m before c w).info)) (!c.restat) c.outs.length (sigOf c))
        true,
       .executed) := by
  simp only [decisionOf, kOf, accOf, insOf] at h
  simp only [runTask, h, hf, setCmd, afterExecute, written, forceIsNotRestat, kOf, Bool.false_eq_true, ↓reduceIte,
    Bool.not_true]
  rfl


/-- the keys whose change re-runs the task of a command whose stored result is valid -/
def depKeys (c : Command) : List Path := c.exp ++ c.imp ++ (if c.hasDeps then c.deps else [])

theorem triggers_storedDeps (c : Command) (ch : Path → Bool) :
    triggersRerun (storedDeps c) ch = (depKeys c).any ch := by
  have h1 : (ReqKind.request == ReqKind.mustFollow) = false := by decide
  have h2 : (ReqKind.mustFollow == ReqKind.mustFollow) = true := by decide
  have hu : discoveredUnconditional = true := by decide
  simp only [triggersRerun, storedDeps, dependencyList, requestDeps, requests, discovered, explicitReq, implicitReq,
    orderOnlyReq, depKeys, List.map_append, List.map_map, List.any_append, List.any_map, Function.comp_def, h1, h2,
    Bool.not_false, Bool.true_and, Bool.not_true, Bool.false_and, hu, Bool.true_or, Command.cmd]
  have hf : ∀ l : List Path, (l.any fun _ => false) = false := fun l => by induction l <;> simp_all
  cases hd : c.hasDeps <;> simp [List.any_map, Function.comp_def, List.filterMap_map, hf]


/-- the stored dependency list of `c` is the one its current statement records.  True of every stored result that the
scan can accept (successful, built with the current command line) as long as the statement's input lists have not been
edited since the result was stored (graph edits) -/
def DepsRec (w : World) (c : Command) : Prop :=
  ∀ r, w.cmdDb c.name = some r → r.sig = sigOf c → r.value.kind = .successfulCommand →
    (c.generator = true ∨ r.value.hash = w.cmdline c.name) → w.depDb c.name = storedDeps c

/-- the scan with the dependency list recomputed from the statement -/
def needsTaskS (cs : List Command) (w : World) (c : Command) : Bool :=
  match w.cmdDb c.name with
  | none => true
  | some r =>
    r.sig != sigOf c ||
    commandIsResultValid (c.cmd (w.cmdline c.name)) r.value (c.outs.map w.info) != .valid ||
    triggersRerun (storedDeps c) (fun k => rebuiltSince r.builtAt (resOf cs w k))

theorem needsTask_static {cs : List Command} {w : World} {c : Command} (h : DepsRec w c) :
    needsTask cs w c = needsTaskS cs w c := by
  unfold needsTask needsTaskS
  cases hr : w.cmdDb c.name with
  | none => rfl
  | some r =>
    simp only
    by_cases hs : r.sig = sigOf c
    · cases hv : commandIsResultValid (c.cmd (w.cmdline c.name)) r.value (c.outs.map w.info) with
      | valid =>
        obtain ⟨h1, h2, _⟩ := (C18_valid_iff _ _ _).1 hv
        rw [h r hr hs h1 h2]
      | invalid => simp [Bool.or_true, show (VR.invalid != VR.valid) = true from rfl]
      | oob => simp [show (VR.oob != VR.valid) = true from rfl]
    · have : (r.sig != sigOf c) = true := by simpa using hs
      simp [this]

theorem requestedDeps_of_noDeps {c : Command} (h : c.hasDeps = false) : requestedDeps c = storedDeps c := by
  simp [requestedDeps, storedDeps, dependencyList, discovered, h, Command.cmd]

/-! ### frame of one step -/

/-- what processing command `c` may change -/
structure Frame (c : Command) (w w' : World) : Prop where
  files : ∀ p, p ∉ c.outs → w'.files p = w.files p
  clock : w.clock ≤ w'.clock
  failing : w'.failing = w.failing
  cmdline : w'.cmdline = w.cmdline
  srcDb : w'.srcDb = w.srcDb
  cmdDb : ∀ n, n ≠ c.name → w'.cmdDb n = w.cmdDb n
  epoch : w'.epoch = w.epoch
  depDb : ∀ n, n ≠ c.name → w'.depDb n = w.depDb n

theorem Frame.refl (c : Command) (w : World) : Frame c w w :=
  ⟨fun _ _ => rfl, Nat.le_refl _, rfl, rfl, rfl, fun _ _ => rfl, rfl, fun _ _ => rfl⟩

theorem setCmd_frame (w : World) (c : Command) (r : CmdResult) {ok : Bool} : Frame c w (setCmd w c r ok) :=
  ⟨fun _ _ => rfl, Nat.le_refl _, rfl, rfl, rfl, fun n hn => by simp [setCmd, upd, hn], rfl,
   fun n hn => by simp [setCmd, upd, hn]⟩

theorem written_files_other (m : Manifest) (before : List Command) (c : Command) (w : World) {p : Path} (hp : p ∉ c.outs) :
    (written m before c w).files p = w.files p := by
  simp only [written]
  apply writeOuts_other
  intro e he hh
  simp only [List.mem_map] at he
  obtain ⟨o, ho, rfl⟩ := he
  exact hp (hh ▸ ho)

theorem written_clock (m : Manifest) (before : List Command) (c : Command) (w : World) :
    w.clock ≤ (written m before c w).clock := by
  simp only [written]
  exact writeOuts_clock _ _ (w.files, w.clock)

theorem Frame.trans {c : Command} {w1 w2 w3 : World} (h1 : Frame c w1 w2) (h2 : Frame c w2 w3) : Frame c w1 w3 :=
  ⟨fun p hp => (h2.files p hp).trans (h1.files p hp), Nat.le_trans h1.clock h2.clock, h2.failing.trans h1.failing,
   h2.cmdline.trans h1.cmdline, h2.srcDb.trans h1.srcDb, fun n hn => (h2.cmdDb n hn).trans (h1.cmdDb n hn),
   h2.epoch.trans h1.epoch, fun n hn => (h2.depDb n hn).trans (h1.depDb n hn)⟩

theorem written_frame (m : Manifest) (before : List Command) (c : Command) (w : World) : Frame c w (written m before c w) :=
  ⟨fun _ hp => written_files_other m before c w hp, written_clock m before c w, rfl, rfl, rfl, fun _ _ => rfl, rfl,
   fun _ _ => rfl⟩

theorem runTask_frame (m : Manifest) (before : List Command) (E : Nat) (c : Command) (w : World) :
    Frame c w (runTask m before E c w).1 := by
  cases hd : decisionOf m.cmds w c with
  | complete v force => rw [runTask_complete hd]; exact setCmd_frame _ _ _
  | execute =>
    cases hf : w.failing c.name with
    | true => rw [runTask_fail hd hf]; exact setCmd_frame _ _ _
    | false => rw [runTask_exec hd hf]; exact (written_frame m before c w).trans (setCmd_frame _ _ _)

theorem stepCmd_frame (m : Manifest) (d : List Path) (E : Nat) (before : List Command) (c : Command) (w : World) :
    Frame c w (stepCmd m d E before c w).1 := by
  unfold stepCmd
  split
  · exact runTask_frame m before E c w
  · exact Frame.refl c w

/-- keys not produced by `c` look the same after a step on `c` -/
theorem Frame.resOf_eq {cs : List Command} (hwf : wfFrom [] cs = true) {c : Command} (hc : c ∈ cs) {w w' : World}
    (hf : Frame c w w') {p : Path} (hp : p ∉ c.outs) : resOf cs w' p = resOf cs w p := by
  unfold LLBuild.NinjaWorld.resOf
  cases hq : producer cs p with
  | none => simp only [hf.srcDb]
  | some q =>
    obtain ⟨hqm, hpq⟩ := producer_some hq
    have hne : q.name ≠ c.name := fun e => by
      have := name_inj hwf hc hqm e
      subst this
      exact hp hpq
    simp only [hf.cmdDb q.name hne]

theorem Frame.info {c : Command} {w w' : World} (hf : Frame c w w') {p : Path} (hp : p ∉ c.outs) : w'.info p = w.info p := by
  simp only [World.info, hf.files p hp]

theorem Frame.content {c : Command} {w w' : World} (hf : Frame c w w') {p : Path} (hp : p ∉ c.outs) :
    w'.content p = w.content p := by
  simp only [World.content, hf.files p hp]


/-! ### a build that finds everything up to date -/

/-- worlds that differ at most in the build epoch and in the `builtAt` marks of input rules -/
structure SameUpToBuiltAt (w w' : World) : Prop where
  files : w'.files = w.files
  clock : w'.clock = w.clock
  failing : w'.failing = w.failing
  cmdline : w'.cmdline = w.cmdline
  cmdDb : w'.cmdDb = w.cmdDb
  srcDb : ∀ p, (w'.srcDb p).map (fun r => (r.value, r.computedAt)) = (w.srcDb p).map (fun r => (r.value, r.computedAt))
  depDb : w'.depDb = w.depDb

theorem SameUpToBuiltAt.refl (w : World) : SameUpToBuiltAt w w := ⟨rfl, rfl, rfl, rfl, rfl, fun _ => rfl, rfl⟩

theorem SameUpToBuiltAt.trans {a b c : World} (h1 : SameUpToBuiltAt a b) (h2 : SameUpToBuiltAt b c) : SameUpToBuiltAt a c :=
  ⟨h2.files.trans h1.files, h2.clock.trans h1.clock, h2.failing.trans h1.failing, h2.cmdline.trans h1.cmdline,
   h2.cmdDb.trans h1.cmdDb, fun p => (h2.srcDb p).trans (h1.srcDb p), h2.depDb.trans h1.depDb⟩

theorem SameUpToBuiltAt.info {w w' : World} (h : SameUpToBuiltAt w w') (p : Path) : w'.info p = w.info p := by
  simp only [World.info, h.files]

theorem SameUpToBuiltAt.resOf_map {cs : List Command} {w w' : World} (h : SameUpToBuiltAt w w') (p : Path) :
    (resOf cs w' p).map (fun r => (r.value, r.computedAt)) = (resOf cs w p).map (fun r => (r.value, r.computedAt)) := by
  unfold resOf
  cases producer cs p with
  | none => exact h.srcDb p
  | some q => simp only [h.cmdDb]

theorem rebuiltSince_congr {b : Nat} {x y : Option Result}
    (h : x.map (fun r => (r.value, r.computedAt)) = y.map (fun r => (r.value, r.computedAt))) :
    rebuiltSince b x = rebuiltSince b y := by
  cases x <;> cases y <;> simp_all [rebuiltSince]

theorem SameUpToBuiltAt.needsTask {cs : List Command} {w w' : World} (h : SameUpToBuiltAt w w') (c : Command) :
    needsTask cs w' c = needsTask cs w c := by
  unfold LLBuild.NinjaWorld.needsTask
  rw [h.cmdDb, h.cmdline, h.depDb]
  cases w.cmdDb c.name with
  | none => rfl
  | some r =>
    simp only
    have h1 : c.outs.map w'.info = c.outs.map w.info := List.map_congr_left (fun p _ => h.info p)
    have h2 : (fun k => rebuiltSince r.builtAt (resOf cs w' k)) = (fun k => rebuiltSince r.builtAt (resOf cs w k)) :=
      funext fun k => rebuiltSince_congr (h.resOf_map k)
    rw [h1, h2]

/-- the input rule of a source file is up to date: its stored value is valid, or the file is absent and known to be -/
def SrcSettled (w : World) (p : Path) : Prop :=
  ∃ r, w.srcDb p = some r ∧
    (inputIsResultValid r.value (w.info p) = true ∨ (r.value = .missingInput ∧ (w.info p).isMissing = true))

theorem refreshSrc_settled (E : Nat) (p : Path) (w : World) (h : SrcSettled w p) : SameUpToBuiltAt w (refreshSrc E p w) := by
  obtain ⟨r, hr, hv⟩ := h
  unfold refreshSrc
  simp only [hr]
  split
  · exact SameUpToBuiltAt.refl w
  · rename_i hinv
    rcases hv with hv | ⟨hv, hm⟩
    · exact absurd hv hinv
    · refine ⟨rfl, rfl, rfl, rfl, rfl, fun q => ?_, rfl⟩
      by_cases hq : q = p
      · subst hq
        simp [upd, hr, completeWith, hv, inputValue, hm]
      · simp [upd, hq]

theorem refreshSrc_other (E : Nat) (p : Path) (w : World) {q : Path} (hq : q ≠ p) : (refreshSrc E p w).srcDb q = w.srcDb q := by
  unfold refreshSrc
  cases w.srcDb p with
  | none => simp [upd, hq]
  | some r =>
    simp only
    split
    · rfl
    · simp [upd, hq]

theorem SameUpToBuiltAt.srcSettled {w w' : World} (h : SameUpToBuiltAt w w') {p : Path} (hs : SrcSettled w p) :
    SrcSettled w' p := by
  obtain ⟨r, hr, hv⟩ := hs
  have := h.srcDb p
  rw [hr] at this
  cases h2 : w'.srcDb p with
  | none => rw [h2] at this; cases this
  | some r2 =>
    rw [h2] at this
    simp only [Option.map_some, Option.some.injEq, Prod.mk.injEq] at this
    exact ⟨r2, h2, by rw [this.1, h.info]; exact hv⟩

theorem refreshSrcs_settled (cs : List Command) (E : Nat) : ∀ (ps : List Path) (w : World),
    (∀ p ∈ ps, producer cs p = none → SrcSettled w p) → SameUpToBuiltAt w (refreshSrcs cs E ps w) := by
  intro ps
  induction ps with
  | nil => intro w _; exact SameUpToBuiltAt.refl w
  | cons p ps ih =>
    intro w h
    simp only [refreshSrcs]
    cases hp : producer cs p with
    | some q =>
      simp only [Option.isNone_some, Bool.false_eq_true, ↓reduceIte]
      exact ih w (fun p' hp' => h p' (List.mem_cons_of_mem _ hp'))
    | none =>
      simp only [Option.isNone_none, ↓reduceIte]
      have hs := refreshSrc_settled E p w (h p List.mem_cons_self hp)
      exact hs.trans (ih _ (fun p' hp' hn => hs.srcSettled (h p' (List.mem_cons_of_mem _ hp') hn)))

theorem stepAll_quiet (m : Manifest) (d : List Path) (E : Nat) : ∀ (rest before : List Command) (w : World),
    (∀ c ∈ rest, c.neededIn d = true → needsTask m.cmds w c = false) → stepAll m d E before rest w = (w, []) := by
  intro rest
  induction rest with
  | nil => intro before w _; rfl
  | cons c rest ih =>
    intro before w h
    have hc : stepCmd m d E before c w = (w, []) := by
      unfold stepCmd
      cases hn : c.neededIn d with
      | false => simp
      | true => simp [h c List.mem_cons_self hn]
    simp only [stepAll, hc, ih (c :: before) w (fun c' hc' => h c' (List.mem_cons_of_mem _ hc')), List.append_nil]

/-- a build in a world where every demanded source has an up-to-date input rule and no needed command needs its
task runs nothing and changes nothing but the epoch and the `builtAt` marks of input rules -/
theorem quiet_build (m : Manifest) (targets : List Path) (w : World)
    (hsrc : ∀ p ∈ demanded m targets ++ storedKeys m (demanded m targets) w, producer m.cmds p = none → SrcSettled w p)
    (hcmd : ∀ c ∈ m.cmds, c.neededIn (demanded m targets) = true → needsTask m.cmds w c = false) :
    (buildFull m targets w).2 = [] ∧ SameUpToBuiltAt w (buildFull m targets w).1 := by
  have h0 : SameUpToBuiltAt w { w with epoch := w.epoch + 1 } := ⟨rfl, rfl, rfl, rfl, rfl, fun _ => rfl, rfl⟩
  have h1 := refreshSrcs_settled m.cmds (w.epoch + 1) (demanded m targets ++ storedKeys m (demanded m targets) w)
    { w with epoch := w.epoch + 1 } hsrc
  have h2 := h0.trans h1
  have := stepAll_quiet m (demanded m targets) (w.epoch + 1) m.cmds []
    (refreshSrcs m.cmds (w.epoch + 1) (demanded m targets ++ storedKeys m (demanded m targets) w) { w with epoch := w.epoch + 1 })
    (fun c hc hn => by rw [h2.needsTask]; exact hcmd c hc hn)
  simp only [buildFull, this]
  exact ⟨trivial, h2⟩

/-! ### completion of a rule -/

theorem completeWith_value (E : Nat) (prior : Option Result) (v : BuildValue) (force : Bool) :
    (completeWith E prior v force).value = v := by
  unfold completeWith
  cases prior with
  | none => rfl
  | some r =>
    simp only
    split
    · rename_i h
      simp only [Bool.and_eq_true, beq_iff_eq] at h
      exact h.2.symm
    · rfl

theorem completeWith_builtAt (E : Nat) (prior : Option Result) (v : BuildValue) (force : Bool) :
    (completeWith E prior v force).builtAt = E := by
  unfold completeWith
  cases prior with
  | none => rfl
  | some r => simp only; split <;> rfl

/-- either the change epoch is the current one, or the completion was unforced with the stored value -/
theorem completeWith_computedAt (E : Nat) (prior : Option Result) (v : BuildValue) (force : Bool) :
    (completeWith E prior v force).computedAt = E ∨
    ∃ r, prior = some r ∧ force = false ∧ v = r.value ∧ (completeWith E prior v force).computedAt = r.computedAt := by
  unfold completeWith
  cases prior with
  | none => exact Or.inl rfl
  | some r =>
    simp only
    split
    · rename_i h
      simp only [Bool.and_eq_true, beq_iff_eq, Bool.not_eq_true'] at h
      exact Or.inr ⟨r, rfl, h.1, h.2, rfl⟩
    · exact Or.inl rfl

@[simp] theorem completeCmd_value (E : Nat) (prior : Option CmdResult) (v : BuildValue) (force : Bool) (n : Nat) (sg : Sig) :
    (completeCmd E prior v force n sg).value = v := by
  simp [completeCmd, completeWith_value]

@[simp] theorem completeCmd_builtAt (E : Nat) (prior : Option CmdResult) (v : BuildValue) (force : Bool) (n : Nat) (sg : Sig) :
    (completeCmd E prior v force n sg).builtAt = E := by
  simp [completeCmd, completeWith_builtAt]

@[simp] theorem completeCmd_sig (E : Nat) (prior : Option CmdResult) (v : BuildValue) (force : Bool) (n : Nat) (sg : Sig) :
    (completeCmd E prior v force n sg).sig = sg := rfl

theorem priorRow_some {w : World} {c : Command} {r : CmdResult} :
    priorRow w c = some r ↔ w.cmdDb c.name = some r ∧ r.sig = sigOf c := by
  unfold priorRow
  cases h : w.cmdDb c.name with
  | none => simp
  | some x =>
    simp only [Option.filter_some, beq_iff_eq]
    by_cases hx : x.sig = sigOf c
    · simp only [hx, ↓reduceIte, Option.some.injEq]
      constructor
      · rintro rfl; exact ⟨rfl, hx⟩
      · rintro ⟨rfl, _⟩; rfl
    · simp only [hx, ↓reduceIte, Option.some.injEq]
      constructor
      · intro h'; cases h'
      · rintro ⟨rfl, h2⟩; exact absurd h2 hx

theorem priorRow_live {w : World} {c : Command} {r : CmdResult} (h : w.cmdDb c.name = some r) (hs : r.sig = sigOf c) :
    priorRow w c = some r := priorRow_some.2 ⟨h, hs⟩

theorem priorRow_none_of_stale {w : World} {c : Command} (h : ∀ r, w.cmdDb c.name = some r → r.sig ≠ sigOf c) : priorRow w c = none := by
  cases hp : priorRow w c with
  | none => rfl
  | some r => exact absurd (priorRow_some.1 hp).2 (h r (priorRow_some.1 hp).1)

theorem completeCmd_computedAt (E : Nat) (prior : Option CmdResult) (v : BuildValue) (force : Bool) (n : Nat) (sg : Sig) :
    (completeCmd E prior v force n sg).computedAt = E ∨
    ∃ r, prior = some r ∧ force = false ∧ v = r.value ∧ (completeCmd E prior v force n sg).computedAt = r.computedAt := by
  rcases completeWith_computedAt E (prior.map (·.toResult)) v force with h | ⟨r, h1, h2, h3, h4⟩
  · exact Or.inl (by simpa [completeCmd] using h)
  · cases prior with
    | none => cases h1
    | some r' =>
      simp only [Option.map_some, Option.some.injEq] at h1
      subst h1
      exact Or.inr ⟨r', rfl, h2, h3, by simpa [completeCmd, CmdResult.toResult] using h4⟩

/-- the change epoch of a select rule: the current epoch, or unchanged with an unchanged selected value -/
theorem selChanged_cases (E : Nat) (prior : Option CmdResult) (v : BuildValue) (i : Nat) :
    selChanged E prior v i = E ∨
    ∃ r vf old, prior = some r ∧ selectValue v i = some vf ∧ selectValue r.value i = some old ∧ vf.2 = false ∧ vf.1 = old.1 ∧
      selChanged E prior v i = r.outChanged.getD i r.computedAt := by
  unfold selChanged
  cases prior with
  | none => exact Or.inl rfl
  | some r =>
    simp only
    split
    · rename_i vf old h1 h2
      split
      · rename_i h
        simp only [Bool.and_eq_true, beq_iff_eq, Bool.not_eq_true'] at h
        exact Or.inr ⟨r, vf, old, rfl, h1, h2, h.1, h.2, rfl⟩
      · exact Or.inl rfl
    · exact Or.inl rfl

/-! ### the basic invariant -/

def okKinds : List Kind := [.successfulCommand, .failedCommand, .skippedCommand]

/-- stamps and epochs are bounded by the clock and the epoch, stored command values have the shape of the command,
the alias of a phony command is not a file -/
structure Inv0 (cs : List Command) (w : World) : Prop where
  fileStamps : ∀ p f, w.files p = some f → f.stamp ≤ w.clock
  srcStamps : ∀ p r, w.srcDb p = some r → ∀ i ∈ r.value.infos, i.mtime.sec ≤ w.clock
  cmdStamps : ∀ n r, w.cmdDb n = some r → ∀ i ∈ r.value.infos, i.mtime.sec ≤ w.clock
  srcEpoch : ∀ p r, w.srcDb p = some r → r.computedAt ≤ w.epoch ∧ r.builtAt ≤ w.epoch
  cmdEpoch : ∀ n r, w.cmdDb n = some r → r.computedAt ≤ w.epoch ∧ r.builtAt ≤ w.epoch ∧ ∀ e ∈ r.outChanged, e ≤ w.epoch
  shape : ∀ c ∈ cs, ∀ r, w.cmdDb c.name = some r →
    (r.value.kind = .successfulCommand → r.value.infos.length = c.outs.length) ∧ r.value.kind ∈ okKinds
  phonyAbsent : ∀ c ∈ cs, c.phony = true → ∀ o ∈ c.outs, w.files o = none

theorem Inv0.empty (cs : List Command) : Inv0 cs World.empty := by
  constructor <;> intros <;> simp_all [World.empty]

theorem infoOf_stamp (x : Option File) : (infoOf x).mtime.sec = (x.map (·.stamp)).getD 0 := by
  cases x <;> rfl

theorem Inv0.info_stamp {cs : List Command} {w : World} (h : Inv0 cs w) (p : Path) : (w.info p).mtime.sec ≤ w.clock := by
  simp only [World.info]
  cases hf : w.files p with
  | none => simp [infoOf, FInfo.missing]
  | some f => simpa [infoOf] using h.fileStamps p f hf

theorem inputValue_infos (i : FInfo) : ∀ j ∈ (inputValue i).infos, j = i := by
  intro j hj
  unfold inputValue at hj
  split at hj
  · simp [BuildValue.missingInput] at hj
  · simpa [BuildValue.existing] using hj

theorem Inv0.refresh_src {cs : List Command} {w : World} (h : Inv0 cs w) (p : Path) : Inv0 cs (refreshSrc w.epoch p w) := by
  have key : ∀ prior : Option Result, (∀ r, prior = some r → r.computedAt ≤ w.epoch) →
      Inv0 cs { w with srcDb := upd w.srcDb p (some (completeWith w.epoch prior (inputValue (w.info p)) false)) } := by
    intro prior hprior
    refine ⟨h.fileStamps, ?_, h.cmdStamps, ?_, h.cmdEpoch, h.shape, h.phonyAbsent⟩
    · intro q r hr i hi
      by_cases hq : q = p
      · subst hq
        simp only [upd_same, Option.some.injEq] at hr
        subst hr
        rw [completeWith_value] at hi
        rw [inputValue_infos _ i hi]
        exact h.info_stamp q
      · simp only [upd_other _ _ hq] at hr
        exact h.srcStamps q r hr i hi
    · intro q r hr
      by_cases hq : q = p
      · subst hq
        simp only [upd_same, Option.some.injEq] at hr
        subst hr
        refine ⟨?_, by rw [completeWith_builtAt]; exact Nat.le_refl _⟩
        rcases completeWith_computedAt w.epoch prior (inputValue (w.info q)) false with h1 | ⟨r, h1, _, _, h4⟩
        · rw [h1]; exact Nat.le_refl _
        · rw [h4]; exact hprior r h1
      · simp only [upd_other _ _ hq] at hr
        exact h.srcEpoch q r hr
  unfold LLBuild.NinjaWorld.refreshSrc
  cases hr : w.srcDb p with
  | none => exact key none (fun _ hh => by cases hh)
  | some r =>
    simp only
    split
    · exact h
    · exact key (some r) (fun r' hh => by cases hh; exact (h.srcEpoch p r hr).1)


theorem decision_execute_not_phony {cs : List Command} {w : World} {c : Command} (h : decisionOf cs w c = .execute) :
    c.phony = false := by
  cases hp : c.phony with
  | false => rfl
  | true =>
    have hk : (kOf w c).phony = true := hp
    simp only [decisionOf, inputsAvailable_default, hk, ↓reduceIte] at h
    split at h <;> cases h

theorem getD_le {l : List Nat} {i d b : Nat} (hl : ∀ e ∈ l, e ≤ b) (hd : d ≤ b) : l.getD i d ≤ b := by
  simp only [List.getD_eq_getElem?_getD]
  cases h : l[i]? with
  | none => simpa using hd
  | some x => simpa using hl x (List.mem_of_getElem? h)

theorem Inv0.set_cmd {cs : List Command} {w : World} (h : Inv0 cs w) (hwf : wfFrom [] cs = true) {c : Command} (hc : c ∈ cs)
    (v : BuildValue) (force : Bool) (hst : ∀ i ∈ v.infos, i.mtime.sec ≤ w.clock)
    (hsh : (v.kind = .successfulCommand → v.infos.length = c.outs.length) ∧ v.kind ∈ okKinds) {ok : Bool} {sg : Sig} :
    Inv0 cs (setCmd w c (completeCmd w.epoch (w.cmdDb c.name) v force c.outs.length sg) ok) := by
  refine ⟨h.fileStamps, h.srcStamps, ?_, h.srcEpoch, ?_, ?_, h.phonyAbsent⟩
  · intro n r hr i hi
    by_cases hn : n = c.name
    · subst hn
      simp only [setCmd, upd_same, Option.some.injEq] at hr
      subst hr
      rw [completeCmd_value] at hi
      exact hst i hi
    · simp only [setCmd, upd_other _ _ hn] at hr
      exact h.cmdStamps n r hr i hi
  · intro n r hr
    by_cases hn : n = c.name
    · subst hn
      simp only [setCmd, upd_same, Option.some.injEq] at hr
      subst hr
      refine ⟨?_, by simp [setCmd], ?_⟩
      · rcases completeCmd_computedAt w.epoch (w.cmdDb c.name) v force c.outs.length sg with h1 | ⟨r, h1, _, _, h4⟩
        · rw [h1]; exact Nat.le_refl _
        · rw [h4]; exact (h.cmdEpoch _ r h1).1
      · intro e he
        simp only [completeCmd, List.mem_map, List.mem_range] at he
        obtain ⟨i, _, rfl⟩ := he
        rcases selChanged_cases w.epoch (w.cmdDb c.name) v i with h1 | ⟨r, _, _, h1, _, _, _, _, h6⟩
        · rw [h1]; exact Nat.le_refl _
        · rw [h6]
          exact getD_le (h.cmdEpoch _ r h1).2.2 (h.cmdEpoch _ r h1).1
    · simp only [setCmd, upd_other _ _ hn] at hr
      exact h.cmdEpoch n r hr
  · intro c' hc' r hr
    by_cases hn : c'.name = c.name
    · have := name_inj hwf hc hc' hn
      subst this
      simp only [setCmd, upd_same, Option.some.injEq] at hr
      subst hr
      simpa using hsh
    · simp only [setCmd, upd_other _ _ hn] at hr
      exact h.shape c' hc' r hr

theorem written_file_cases (m : Manifest) (before : List Command) (c : Command) (w : World) (hnd : c.outs.Nodup)
    {o : Path} (ho : o ∈ c.outs) :
    ((written m before c w).files o = w.files o ∧ c.restat = true ∧
      ∃ f, w.files o = some f ∧ f.content = outContent m before c w o) ∨
    (∃ s, (written m before c w).files o = some ⟨outContent m before c w o, s⟩ ∧ w.clock < s ∧ s ≤ (written m before c w).clock) := by
  have hnd' : ((c.outs.map fun o => (o, outContent m before c w o)).map (·.1)).Nodup := by
    simpa [List.map_map, Function.comp_def] using hnd
  have := writeOuts_self c.restat (c.outs.map fun o => (o, outContent m before c w o)) (w.files, w.clock) hnd'
    (o, outContent m before c w o) (List.mem_map.2 ⟨o, ho, rfl⟩)
  exact this

theorem Inv0.of_written {cs : List Command} {w : World} (h : Inv0 cs w) (hwf : wfFrom [] cs = true) (m : Manifest)
    {before rest : List Command} {c : Command} (hat : At cs before c rest) (hp : c.phony = false) :
    Inv0 cs (written m before c w) := by
  have hcl := written_clock m before c w
  refine ⟨?_, fun p r hr i hi => Nat.le_trans (h.srcStamps p r hr i hi) hcl,
    fun n r hr i hi => Nat.le_trans (h.cmdStamps n r hr i hi) hcl, h.srcEpoch, h.cmdEpoch, h.shape, ?_⟩
  · intro p f hf
    by_cases hpo : p ∈ c.outs
    · rcases written_file_cases m before c w hat.cmdWF.nodup hpo with ⟨h1, _, _⟩ | ⟨s, h1, _, h3⟩
      · rw [h1] at hf; exact Nat.le_trans (h.fileStamps p f hf) hcl
      · rw [h1] at hf; cases hf; exact h3
    · rw [written_files_other m before c w hpo] at hf
      exact Nat.le_trans (h.fileStamps p f hf) hcl
  · intro c' hc' hp' o ho
    have hno : o ∉ c.outs := fun hoc => by
      have h1 := producer_of_mem hwf hat.mem hoc
      have h2 := producer_of_mem hwf hc' ho
      rw [h1] at h2
      cases h2
      rw [hp] at hp'; cases hp'
    rw [written_files_other m before c w hno]
    exact h.phonyAbsent c' hc' hp' o ho

theorem computeResult_shape (k : Cmd) (infos : List FInfo) (n : Nat) (hl : infos.length = n) :
    ((computeResult k infos).kind = .successfulCommand → (computeResult k infos).infos.length = n) ∧
      (computeResult k infos).kind ∈ okKinds := by
  simp [computeResult, hl, okKinds]

theorem failed_shape (n : Nat) : (BuildValue.failed.kind = .successfulCommand → BuildValue.failed.infos.length = n) ∧
    BuildValue.failed.kind ∈ okKinds := by simp [BuildValue.failed, okKinds]

theorem skipped_shape (n : Nat) : (BuildValue.skipped.kind = .successfulCommand → BuildValue.skipped.infos.length = n) ∧
    BuildValue.skipped.kind ∈ okKinds := by simp [BuildValue.skipped, okKinds]

/-- the value a decision completes with, when it does not execute -/
theorem decision_complete_value {cs : List Command} {w : World} {c : Command} {v : BuildValue} {force : Bool}
    (h : decisionOf cs w c = .complete v force) : v = .skipped ∨ v = computeResult (kOf w c) (c.outs.map w.info) := by
  simp only [decisionOf, inputsAvailable_default] at h
  split at h
  · split at h
    · cases h; exact Or.inl rfl
    · cases h; exact Or.inr rfl
  · split at h
    · cases h; exact Or.inr rfl
    · split at h
      · cases h; exact Or.inl rfl
      · cases h

theorem Inv0.run_task {cs : List Command} {w : World} (h : Inv0 cs w) (m : Manifest) (hm : m.cmds = cs)
    (hwf : wfFrom [] cs = true) {before rest : List Command} {c : Command} (hat : At cs before c rest) :
    Inv0 cs (runTask m before w.epoch c w).1 := by
  subst hm
  have hinfo : ∀ (w' : World), Inv0 m.cmds w' → ∀ i ∈ (computeResult (kOf w c) (c.outs.map w'.info)).infos, i.mtime.sec ≤ w'.clock := by
    intro w' hw' i hi
    simp only [computeResult, List.mem_map] at hi
    obtain ⟨o, _, rfl⟩ := hi
    exact hw'.info_stamp o
  cases hd : decisionOf m.cmds w c with
  | complete v force =>
    rw [runTask_complete hd]
    rcases decision_complete_value hd with rfl | rfl
    · exact h.set_cmd hwf hat.mem _ _ (by simp [BuildValue.skipped]) (skipped_shape _)
    · exact h.set_cmd hwf hat.mem _ _ (hinfo w h) (computeResult_shape _ _ _ (by simp))
  | execute =>
    cases hf : w.failing c.name with
    | true =>
      rw [runTask_fail hd hf]
      exact h.set_cmd hwf hat.mem _ _ (by simp [BuildValue.failed]) (failed_shape _)
    | false =>
      rw [runTask_exec hd hf]
      have hw' := h.of_written hwf m hat (decision_execute_not_phony hd)
      have := hw'.set_cmd hwf hat.mem (computeResult (kOf w c) (c.outs.map (written m before c w).info)) (!c.restat)
        (hinfo _ hw') (computeResult_shape _ _ _ (by simp)) (ok := true) (sg := sigOf c)
      simpa [written] using this


/-! ### induction over a build -/

theorem stepAll_fst_induct (m : Manifest) (d : List Path) (E : Nat) (hwf : wfFrom [] m.cmds = true)
    (P : List Command → World → Prop)
    (hstep : ∀ before c rest w, At m.cmds before c rest → P before w → P (c :: before) (stepCmd m d E before c w).1) :
    ∀ (rest before : List Command) (w : World), m.cmds = before.reverse ++ rest → P before w →
      P (rest.reverse ++ before) (stepAll m d E before rest w).1 := by
  intro rest
  induction rest with
  | nil => intro before w _ h; simpa [stepAll] using h
  | cons c rest ih =>
    intro before w hs h
    have hat : At m.cmds before c rest := ⟨hs, hwf⟩
    have := ih (c :: before) (stepCmd m d E before c w).1 (by rw [hs]; simp) (hstep before c rest w hat h)
    simpa [stepAll] using this

theorem stepCmd_epoch (m : Manifest) (d : List Path) (E : Nat) (before : List Command) (c : Command) (w : World) :
    (stepCmd m d E before c w).1.epoch = w.epoch := (stepCmd_frame m d E before c w).epoch

theorem Inv0.step_cmd {w : World} (m : Manifest) (h : Inv0 m.cmds w) (hwf : wfFrom [] m.cmds = true) (d : List Path)
    {before rest : List Command} {c : Command} (hat : At m.cmds before c rest) :
    Inv0 m.cmds (stepCmd m d w.epoch before c w).1 := by
  unfold stepCmd
  split
  · exact h.run_task m rfl hwf hat
  · exact h

theorem Inv0.step_all {w : World} (m : Manifest) (h : Inv0 m.cmds w) (hwf : wfFrom [] m.cmds = true) (d : List Path) :
    Inv0 m.cmds (stepAll m d w.epoch [] m.cmds w).1 ∧ (stepAll m d w.epoch [] m.cmds w).1.epoch = w.epoch := by
  have := stepAll_fst_induct m d w.epoch hwf (fun _ w' => Inv0 m.cmds w' ∧ w'.epoch = w.epoch)
    (fun before c rest w' hat hw' => by
      refine ⟨?_, (stepCmd_epoch _ _ _ _ _ _).trans hw'.2⟩
      have := hw'.1.step_cmd m hwf d hat
      rwa [hw'.2] at this)
    m.cmds [] w (by simp) ⟨h, rfl⟩
  exact this

theorem refreshSrc_epoch (E : Nat) (p : Path) (w : World) : (refreshSrc E p w).epoch = w.epoch := by
  unfold refreshSrc
  cases w.srcDb p with
  | none => rfl
  | some r => simp only; split <;> rfl

theorem Inv0.refresh_srcs {cs : List Command} : ∀ (ps : List Path) {w : World}, Inv0 cs w →
    Inv0 cs (refreshSrcs cs w.epoch ps w) ∧ (refreshSrcs cs w.epoch ps w).epoch = w.epoch := by
  intro ps
  induction ps with
  | nil => intro w h; exact ⟨h, rfl⟩
  | cons p ps ih =>
    intro w h
    simp only [refreshSrcs]
    split
    · have h1 := h.refresh_src p
      have he := refreshSrc_epoch w.epoch p w
      have := ih h1
      rw [he] at this
      exact this
    · exact ih h

theorem Inv0.bump {cs : List Command} {w : World} (h : Inv0 cs w) : Inv0 cs { w with epoch := w.epoch + 1 } :=
  ⟨h.fileStamps, h.srcStamps, h.cmdStamps,
   fun p r hr => ⟨Nat.le_succ_of_le (h.srcEpoch p r hr).1, Nat.le_succ_of_le (h.srcEpoch p r hr).2⟩,
   fun n r hr => ⟨Nat.le_succ_of_le (h.cmdEpoch n r hr).1, Nat.le_succ_of_le (h.cmdEpoch n r hr).2.1,
     fun e he => Nat.le_succ_of_le ((h.cmdEpoch n r hr).2.2 e he)⟩,
   h.shape, h.phonyAbsent⟩

/-- the world in which the commands of a build are processed -/
def started (m : Manifest) (targets : List Path) (w : World) : World :=
  refreshSrcs m.cmds (w.epoch + 1) (demanded m targets ++ storedKeys m (demanded m targets) w) { w with epoch := w.epoch + 1 }

theorem buildFull_eq (m : Manifest) (targets : List Path) (w : World) :
    buildFull m targets w = stepAll m (demanded m targets) (w.epoch + 1) [] m.cmds (started m targets w) := rfl

theorem Inv0.started {w : World} (m : Manifest) (h : Inv0 m.cmds w) (targets : List Path) :
    Inv0 m.cmds (started m targets w) ∧ (LLBuild.NinjaWorld.started m targets w).epoch = w.epoch + 1 :=
  h.bump.refresh_srcs (demanded m targets ++ storedKeys m (demanded m targets) w)

theorem Inv0.build {w : World} (m : Manifest) (h : Inv0 m.cmds w) (hwf : wfFrom [] m.cmds = true) (targets : List Path) :
    Inv0 m.cmds (buildFull m targets w).1 := by
  obtain ⟨h1, h2⟩ := h.started m targets
  rw [buildFull_eq, ← h2]
  exact (h1.step_all m hwf _).1

/-! ### edits -/

/-- the edits of a history: sources are written with fresh stamps, outputs are deleted, command lines change,
commands start or stop failing (`writeAt`, the documented non-monotone case, is excluded) -/
def Edit.ok (cs : List Command) : Edit → Prop
  | .write p _ => producer cs p = none
  | .touch p => producer cs p = none
  | .writeAt _ _ _ => False
  | .delete p => producer cs p ≠ none
  | .setHash _ _ => True
  | .setFail _ _ => True

instance (cs : List Command) (e : Edit) : Decidable (e.ok cs) := by
  cases e <;> simp only [Edit.ok] <;> infer_instance

theorem Inv0.edit {cs : List Command} {w : World} (h : Inv0 cs w) {e : Edit} (he : e.ok cs) : Inv0 cs (applyEdit w e) := by
  cases e with
  | write p x =>
    simp only [Edit.ok] at he
    refine ⟨?_, fun q r hr i hi => Nat.le_succ_of_le (h.srcStamps q r hr i hi),
      fun n r hr i hi => Nat.le_succ_of_le (h.cmdStamps n r hr i hi), h.srcEpoch, h.cmdEpoch, h.shape, ?_⟩
    · intro q f hf
      simp only [applyEdit, upd] at hf
      split at hf
      · cases hf; exact Nat.le_refl _
      · exact Nat.le_succ_of_le (h.fileStamps q f hf)
    · intro c hc hp o ho
      have : o ≠ p := fun e => by
        subst e
        rw [producer_none_iff] at he
        exact he c hc ho
      simp only [applyEdit, upd, this, ↓reduceIte]
      exact h.phonyAbsent c hc hp o ho
  | touch p =>
    simp only [Edit.ok] at he
    simp only [applyEdit]
    cases hf : w.files p with
    | none => exact h
    | some f0 =>
      simp only
      refine ⟨?_, fun q r hr i hi => Nat.le_succ_of_le (h.srcStamps q r hr i hi),
        fun n r hr i hi => Nat.le_succ_of_le (h.cmdStamps n r hr i hi), h.srcEpoch, h.cmdEpoch, h.shape, ?_⟩
      · intro q f hf'
        simp only [upd] at hf'
        split at hf'
        · cases hf'; exact Nat.le_refl _
        · exact Nat.le_succ_of_le (h.fileStamps q f hf')
      · intro c hc hp o ho
        have : o ≠ p := fun e => by
          subst e
          rw [producer_none_iff] at he
          exact he c hc ho
        simp only [upd, this, ↓reduceIte]
        exact h.phonyAbsent c hc hp o ho
  | writeAt p x s => exact absurd he (by simp [Edit.ok])
  | delete p =>
    refine ⟨?_, h.srcStamps, h.cmdStamps, h.srcEpoch, h.cmdEpoch, h.shape, ?_⟩
    · intro q f hf
      simp only [applyEdit, upd] at hf
      split at hf
      · cases hf
      · exact h.fileStamps q f hf
    · intro c hc hp o ho
      simp only [applyEdit, upd]
      split
      · rfl
      · exact h.phonyAbsent c hc hp o ho
  | setHash n x => exact ⟨h.fileStamps, h.srcStamps, h.cmdStamps, h.srcEpoch, h.cmdEpoch, h.shape, h.phonyAbsent⟩
  | setFail n b => exact ⟨h.fileStamps, h.srcStamps, h.cmdStamps, h.srcEpoch, h.cmdEpoch, h.shape, h.phonyAbsent⟩

/-! ### the demanded keys -/

/-- the keys a needed command demands -/
def insAll (c : Command) : List Path := c.exp ++ c.imp ++ c.oo ++ (if c.hasDeps then c.deps else [])

theorem insAll_sub (c : Command) : ∀ x ∈ insAll c, x ∈ c.exp ++ c.imp ++ c.oo ++ c.deps := by
  intro x hx
  simp only [insAll, List.mem_append] at hx ⊢
  rcases hx with hx | hx
  · exact Or.inl hx
  · split at hx
    · exact Or.inr hx
    · cases hx

theorem depKeys_sub_insAll (c : Command) : ∀ x ∈ depKeys c, x ∈ insAll c := by
  intro x hx
  simp only [depKeys, insAll, List.mem_append] at hx ⊢
  rcases hx with (hx | hx) | hx
  · exact Or.inl (Or.inl (Or.inl hx))
  · exact Or.inl (Or.inl (Or.inr hx))
  · exact Or.inr hx

theorem demandedFrom_mono : ∀ (l : List Command) (d : List Path), ∀ x ∈ d, x ∈ demandedFrom l d := by
  intro l
  induction l with
  | nil => intro d x hx; exact hx
  | cons c l ih =>
    intro d x hx
    simp only [demandedFrom]
    split
    · apply ih; simp [hx]
    · exact ih d x hx

theorem mem_demandedFrom : ∀ (l : List Command) (d : List Path) (x : Path), x ∈ demandedFrom l d →
    x ∈ d ∨ ∃ q ∈ l, x ∈ insAll q := by
  intro l
  induction l with
  | nil => intro d x hx; exact Or.inl hx
  | cons c l ih =>
    intro d x hx
    simp only [demandedFrom] at hx
    split at hx
    · rcases ih _ x hx with h | ⟨q, hq, hx⟩
      · simp only [List.mem_append] at h
        rcases h with (((h | h) | h) | h) | h
        · exact Or.inl h
        all_goals exact Or.inr ⟨c, List.mem_cons_self, by simp [insAll, h]⟩
      · exact Or.inr ⟨q, List.mem_cons_of_mem _ hq, hx⟩
    · rcases ih _ x hx with h | ⟨q, hq, hx⟩
      · exact Or.inl h
      · exact Or.inr ⟨q, List.mem_cons_of_mem _ hq, hx⟩

theorem neededIn_iff (c : Command) (d : List Path) : c.neededIn d = true ↔ ∃ o ∈ c.outs, o ∈ d := by
  simp [Command.neededIn, List.any_eq_true]

theorem demandedFrom_closed : ∀ (l : List Command) (d : List Path),
    l.Pairwise (fun a b => ∀ x ∈ insAll b, x ∉ a.outs) → ∀ c ∈ l, c.neededIn (demandedFrom l d) = true →
    ∀ x ∈ insAll c, x ∈ demandedFrom l d := by
  intro l
  induction l with
  | nil => intro d _ c hc; cases hc
  | cons c0 l ih =>
    intro d hpw c hc hn x hx
    rw [List.pairwise_cons] at hpw
    rcases List.mem_cons.1 hc with rfl | hc
    · -- the outputs of `c` are not inputs of the commands processed afterwards
      have hnd : c.neededIn d = true := by
        rw [neededIn_iff] at hn ⊢
        obtain ⟨o, ho, hod⟩ := hn
        simp only [demandedFrom] at hod
        by_cases hcd : (c.outs.any d.contains) = true
        · simpa [List.any_eq_true] using hcd
        · simp only [hcd, Bool.false_eq_true, ↓reduceIte] at hod
          rcases mem_demandedFrom l d o hod with h | ⟨q, hq, hoq⟩
          · exact ⟨o, ho, h⟩
          · exact absurd ho (hpw.1 q hq o hoq)
      have hnd' : (c.outs.any d.contains) = true := hnd
      simp only [demandedFrom, hnd', ↓reduceIte]
      apply demandedFrom_mono
      simp only [insAll, List.mem_append] at hx
      simp only [List.mem_append]
      rcases hx with ((hx | hx) | hx) | hx
      · exact Or.inl (Or.inl (Or.inl (Or.inr hx)))
      · exact Or.inl (Or.inl (Or.inr hx))
      · exact Or.inl (Or.inr hx)
      · exact Or.inr hx
    · simp only [demandedFrom] at hn ⊢
      split
      · rename_i h; simp only [h, ↓reduceIte] at hn; exact ih _ hpw.2 c hc hn x hx
      · rename_i h; simp only [h, Bool.false_eq_true, ↓reduceIte] at hn; exact ih _ hpw.2 c hc hn x hx

theorem wf_pairwise : ∀ (rest acc : List Command), wfFrom acc rest = true →
    rest.Pairwise (fun b a => ∀ x ∈ insAll b, x ∉ a.outs) := by
  intro rest
  induction rest with
  | nil => intro _ _; exact List.Pairwise.nil
  | cons c rest ih =>
    intro acc h
    obtain ⟨hc, hr⟩ := (wfFrom_cons acc c rest).1 h
    refine List.Pairwise.cons ?_ (ih _ hr)
    intro a ha x hx
    have := hc.ins_rest x (insAll_sub c x hx)
    rw [producer_none_iff] at this
    exact this a ha

theorem demanded_targets (m : Manifest) (targets : List Path) : ∀ x ∈ targets, x ∈ demanded m targets :=
  demandedFrom_mono _ _

/-- a needed command demands all its inputs (of every kind) and, with a deps style, its depfile entries -/
theorem demanded_closed (m : Manifest) (hwf : wfFrom [] m.cmds = true) (targets : List Path) {c : Command} (hc : c ∈ m.cmds)
    (hn : c.neededIn (demanded m targets) = true) : ∀ x ∈ insAll c, x ∈ demanded m targets := by
  have hpw : m.cmds.reverse.Pairwise (fun a b => ∀ x ∈ insAll b, x ∉ a.outs) := by
    rw [List.pairwise_reverse]
    exact wf_pairwise m.cmds [] hwf
  exact demandedFrom_closed m.cmds.reverse targets hpw c (by simpa using hc) hn

/-- the producer of a demanded key is needed -/
theorem needed_of_demanded {c : Command} {d : List Path} {o : Path} (ho : o ∈ c.outs) (hd : o ∈ d) : c.neededIn d = true :=
  (neededIn_iff c d).2 ⟨o, ho, hd⟩

/-! ### results of keys -/

theorem outView_some {r : CmdResult} {n i : Nat} (hi : i < n)
    (hsh : (r.value.kind = .successfulCommand → r.value.infos.length = n) ∧ r.value.kind ∈ okKinds) :
    ∃ x, outView r n i = some x := by
  unfold outView
  split
  · exact ⟨_, rfl⟩
  · rename_i hn
    have hn1 : n ≠ 1 := by simpa using hn
    simp only [okKinds, List.mem_cons, List.not_mem_nil, or_false] at hsh
    rcases hsh.2 with hk | hk | hk
    · have hl := hsh.1 hk
      have : selectValue r.value i = some ({ kind := .successfulCommand, hash := r.value.hash, infos := [r.value.infos[i]'(by omega)] }, false) := by
        simp only [selectValue, hk, BuildValue.nthInfo]
        have h1 : 1 < n := by omega
        simp [hl, hi, h1]
      rw [this]; exact ⟨_, rfl⟩
    · simp only [selectValue, hk]; exact ⟨_, rfl⟩
    · simp only [selectValue, hk]; exact ⟨_, rfl⟩

theorem idxOf_lt {l : List Path} {o : Path} (ho : o ∈ l) : l.idxOf o < l.length := List.idxOf_lt_length_iff.2 ho

theorem Inv0.resOf_out {cs : List Command} {w : World} (h : Inv0 cs w) (hwf : wfFrom [] cs = true) {q : Command} (hq : q ∈ cs)
    {o : Path} (ho : o ∈ q.outs) {r : CmdResult} (hr : w.cmdDb q.name = some r) :
    resOf cs w o = outView r q.outs.length (q.outs.idxOf o) ∧ ∃ x, resOf cs w o = some x := by
  have : resOf cs w o = outView r q.outs.length (q.outs.idxOf o) := by
    simp only [resOf, producer_of_mem hwf hq ho, hr, Option.bind_some]
  rw [this]
  exact ⟨rfl, outView_some (idxOf_lt ho) (h.shape q hq r hr)⟩

theorem Inv0.resOf_epoch {cs : List Command} {w : World} (h : Inv0 cs w) {p : Path} {x : Result} (hx : resOf cs w p = some x) :
    x.computedAt ≤ w.epoch := by
  unfold resOf at hx
  split at hx
  · exact (h.srcEpoch p x hx).1
  · rename_i q _
    cases hr : w.cmdDb q.name with
    | none => rw [hr] at hx; cases hx
    | some r =>
      rw [hr] at hx
      simp only [Option.bind_some, outView] at hx
      have he := h.cmdEpoch _ r hr
      split at hx
      · cases hx; exact he.1
      · split at hx
        · cases hx; exact getD_le he.2.2 he.1
        · cases hx

/-! ### after its task ran successfully a command is up to date -/

theorem infoOf_some_not_missing (f : File) : (infoOf (some f)).isMissing = false := by
  simp [infoOf, FInfo.isMissing]

theorem valid_computeResult (k : Cmd) (outs : List FInfo)
    (hex : ∀ o ∈ outs, o.isMissing = false ∨ (k.phony = true ∧ k.hasInputs = true)) :
    commandIsResultValid k (computeResult k outs) outs = .valid := by
  have := C18_unchanged_stays_valid k outs hex
  simpa [afterExecute] using this

/-- the shortcut needs every output to exist -/
theorem shortcut_outs_exist {ctx : Ctx} {k : Cmd} {a : Acc} {prior : Option BuildValue} {outs : List FInfo}
    (h : shortcut ctx k a prior outs = true) : ∀ o ∈ outs, o.isMissing = false := by
  intro o ho
  simp only [shortcut, Bool.and_eq_true, canUpdateWithResult, List.all_eq_true] at h
  have := h.2 o ho
  simp only [Bool.not_eq_true'] at this
  exact this.1

@[simp] theorem setCmd_cmdDb_self (w : World) (c : Command) (r : CmdResult) {ok : Bool} :
    (setCmd w c r ok).cmdDb c.name = some r := by
  simp [setCmd]

@[simp] theorem setCmd_info (w : World) (c : Command) (r : CmdResult) {ok : Bool} : (setCmd w c r ok).info = w.info := rfl
@[simp] theorem setCmd_files (w : World) (c : Command) (r : CmdResult) {ok : Bool} : (setCmd w c r ok).files = w.files := rfl
@[simp] theorem setCmd_cmdline (w : World) (c : Command) (r : CmdResult) {ok : Bool} :
    (setCmd w c r ok).cmdline = w.cmdline := rfl
@[simp] theorem setCmd_depDb_self (w : World) (c : Command) (r : CmdResult) {ok : Bool} :
    (setCmd w c r ok).depDb c.name = if ok then storedDeps c else requestedDeps c := by
  simp [setCmd]

/-- a task that ran and did not fail or skip leaves a stored result that is valid for the files as they are now, built
at the current epoch -/
theorem runTask_ok {m : Manifest} {before rest : List Command} {c : Command} {w : World} (hat : At m.cmds before c rest)
    (hdid : (runTask m before w.epoch c w).2 ≠ .failed ∧ (runTask m before w.epoch c w).2 ≠ .skipped) :
    ∃ r, (runTask m before w.epoch c w).1.cmdDb c.name = some r ∧ r.builtAt = w.epoch ∧
      r.value = computeResult (kOf w c) (c.outs.map (runTask m before w.epoch c w).1.info) ∧
      commandIsResultValid (kOf w c) r.value (c.outs.map (runTask m before w.epoch c w).1.info) = .valid := by
  cases hd : decisionOf m.cmds w c with
  | complete v force =>
    rw [runTask_complete hd] at hdid ⊢
    simp only [setCmd_cmdDb_self, Option.some.injEq, exists_eq_left', completeCmd_builtAt, completeCmd_value, true_and,
      setCmd_info]
    have hd' := hd
    simp only [decisionOf, inputsAvailable_default] at hd'
    split at hd'
    · rename_i hp
      split at hd'
      · cases hd'; simp [didOfValue, BuildValue.skipped] at hdid
      · cases hd'
        refine ⟨rfl, valid_computeResult _ _ (fun o _ => Or.inr ⟨hp, ?_⟩)⟩
        have := (hat.cmdWF.phony hp).2.1
        simpa [kOf, Command.cmd] using this
    · split at hd'
      · rename_i hs
        cases hd'
        exact ⟨rfl, valid_computeResult _ _ (fun o ho => Or.inl (shortcut_outs_exist hs o ho))⟩
      · split at hd'
        · cases hd'; simp [didOfValue, BuildValue.skipped] at hdid
        · cases hd'
  | execute =>
    cases hf : w.failing c.name with
    | true => rw [runTask_fail hd hf] at hdid; simp at hdid
    | false =>
      rw [runTask_exec hd hf]
      simp only [setCmd_cmdDb_self, Option.some.injEq, exists_eq_left', completeCmd_builtAt, completeCmd_value, true_and,
        setCmd_info]
      refine valid_computeResult _ _ (fun o ho => Or.inl ?_)
      simp only [List.mem_map] at ho
      obtain ⟨p, hp, rfl⟩ := ho
      rcases written_file_cases m before c w hat.cmdWF.nodup hp with ⟨h1, _, f, h2, _⟩ | ⟨s, h1, _, _⟩
      · simp only [World.info, h1, h2]; exact infoOf_some_not_missing f
      · simp only [World.info, h1]; exact infoOf_some_not_missing _


/-- ... and the dependency list its statement records -/
theorem runTask_deps {m : Manifest} {before rest : List Command} {c : Command} {w : World} {E : Nat} (hat : At m.cmds before c rest)
    (hdid : (runTask m before E c w).2 ≠ .failed ∧ (runTask m before E c w).2 ≠ .skipped) :
    (runTask m before E c w).1.depDb c.name = storedDeps c := by
  cases hd : decisionOf m.cmds w c with
  | complete v force =>
    rw [runTask_complete hd] at hdid ⊢
    simp only [setCmd_depDb_self, Bool.false_eq_true, ↓reduceIte]
    apply requestedDeps_of_noDeps
    have hd' := hd
    simp only [decisionOf, inputsAvailable_default] at hd'
    split at hd'
    · rename_i hp
      exact (hat.cmdWF.phony hp).2.2.1
    · split at hd'
      · rename_i hs
        cases hdeps : c.hasDeps with
        | false => rfl
        | true =>
          have := C18_deps_never_shortcut {} (kOf w c) (insOf m.cmds w c) ((priorRow w c).map (·.value)) (c.outs.map w.info) hdeps
          simp only [accOf] at hs
          rw [this] at hs; cases hs
      · split at hd'
        · cases hd'; simp [didOfValue, BuildValue.skipped] at hdid
        · cases hd'
  | execute =>
    cases hf : w.failing c.name with
    | true => rw [runTask_fail hd hf] at hdid; simp at hdid
    | false => rw [runTask_exec hd hf]; simp

/-! ### induction over a build, with its log -/

theorem stepAll_induct (m : Manifest) (d : List Path) (E : Nat) (hwf : wfFrom [] m.cmds = true)
    (P : List Command → World → List (Nat × Did) → Prop)
    (hstep : ∀ before c rest w log, At m.cmds before c rest → P before w log →
      P (c :: before) (stepCmd m d E before c w).1 (log ++ (stepCmd m d E before c w).2)) :
    ∀ (rest before : List Command) (w : World) (log : List (Nat × Did)), m.cmds = before.reverse ++ rest → P before w log →
      P (rest.reverse ++ before) (stepAll m d E before rest w).1 (log ++ (stepAll m d E before rest w).2) := by
  intro rest
  induction rest with
  | nil => intro before w log _ h; simpa [stepAll] using h
  | cons c rest ih =>
    intro before w log hs h
    have hat : At m.cmds before c rest := ⟨hs, hwf⟩
    have := ih (c :: before) (stepCmd m d E before c w).1 (log ++ (stepCmd m d E before c w).2) (by rw [hs]; simp)
      (hstep before c rest w log hat h)
    simpa [stepAll, List.append_assoc] using this

theorem buildFailed_append (a b : List (Nat × Did)) : buildFailed (a ++ b) = (buildFailed a || buildFailed b) := by
  simp [buildFailed, List.any_append]

theorem any_congr {α : Type} {l : List α} {f g : α → Bool} (h : ∀ x ∈ l, f x = g x) : l.any f = l.any g := by
  induction l with
  | nil => rfl
  | cons a l ih =>
    simp only [List.any_cons, h a List.mem_cons_self, ih (fun x hx => h x (List.mem_cons_of_mem _ hx))]

theorem DepsRec.congr {w w' : World} {c : Command} (h : DepsRec w c) (h1 : w'.cmdDb c.name = w.cmdDb c.name)
    (h2 : w'.depDb c.name = w.depDb c.name) (h3 : w'.cmdline c.name = w.cmdline c.name) : DepsRec w' c := by
  intro r hr hs hk hh
  rw [h1] at hr; rw [h3] at hh; rw [h2]
  exact h r hr hs hk hh

/-- the scan of an earlier command does not see a step on a later one -/
theorem needsTask_frame_before {cs : List Command} {before rest : List Command} {c q : Command} (hat : At cs before c rest)
    (hq : q ∈ before) {w w' : World} (hf : Frame c w w') (hrec : DepsRec w q) : needsTask cs w' q = needsTask cs w q := by
  rw [needsTask_static hrec, needsTask_static (hrec.congr (hf.cmdDb q.name (hat.name_ne_before hq))
    (hf.depDb q.name (hat.name_ne_before hq)) (by rw [hf.cmdline]))]
  obtain ⟨b, r, hatq, _, hcr, _⟩ := hat.of_before hq
  have hout : ∀ o ∈ q.outs, o ∉ c.outs := fun o ho hoc => by
    have := hat.cmdWF.outs_before o hoc
    rw [producer_none_iff] at this
    exact this q hq ho
  have hin : ∀ k ∈ q.exp ++ q.imp ++ q.oo ++ q.deps, k ∉ c.outs := fun k hk hkc => by
    have := hatq.cmdWF.ins_rest k hk
    rw [producer_none_iff] at this
    exact this c hcr hkc
  unfold needsTaskS
  rw [hf.cmdDb q.name (hat.name_ne_before hq), hf.cmdline]
  cases w.cmdDb q.name with
  | none => rfl
  | some r =>
    simp only
    have h1 : q.outs.map w'.info = q.outs.map w.info := List.map_congr_left (fun p hp => hf.info (hout p hp))
    rw [h1, triggers_storedDeps, triggers_storedDeps]
    congr 1
    apply any_congr
    intro k hk
    rw [hf.resOf_eq hat.wf hat.mem (hin k (insAll_sub q k (depKeys_sub_insAll q k hk)))]

theorem needsTask_false_some {cs : List Command} {w : World} {c : Command} (h : needsTask cs w c = false) :
    ∃ r, w.cmdDb c.name = some r := by
  unfold needsTask at h
  cases hr : w.cmdDb c.name with
  | none => rw [hr] at h; cases h
  | some r => exact ⟨r, rfl⟩

/-- every stored dependency list that the scan can use is the one the current statement records -/
def DepsInv (cs : List Command) (w : World) : Prop := ∀ c ∈ cs, DepsRec w c

/-- a successful value is stored together with the dependency list the statement records -/
theorem runTask_depsSucc {m : Manifest} {before rest : List Command} {c : Command} {w : World} {E : Nat}
    (hat : At m.cmds before c rest) : ∀ r, (runTask m before E c w).1.cmdDb c.name = some r → r.value.kind = .successfulCommand →
    (runTask m before E c w).1.depDb c.name = storedDeps c := by
  intro r hr hk
  apply runTask_deps hat
  cases hd : decisionOf m.cmds w c with
  | complete v force =>
    rw [runTask_complete hd] at hr ⊢
    simp only [setCmd_cmdDb_self, Option.some.injEq] at hr
    subst hr
    simp only [completeCmd_value] at hk
    simp [didOfValue, hk]
    split <;> simp
  | execute =>
    cases hf : w.failing c.name with
    | true =>
      rw [runTask_fail hd hf] at hr
      simp only [setCmd_cmdDb_self, Option.some.injEq] at hr
      subst hr
      simp [BuildValue.failed] at hk
    | false => rw [runTask_exec hd hf]; simp

theorem runTask_depsRec {m : Manifest} {before rest : List Command} {c : Command} {w : World} {E : Nat}
    (hat : At m.cmds before c rest) : DepsRec (runTask m before E c w).1 c :=
  fun r hr _ hk _ => runTask_depsSucc hat r hr hk

/-- every successful result stored under the statement's current signature carries the dependency list the statement records -/
def DepsAll (cs : List Command) (w : World) : Prop :=
  ∀ c ∈ cs, ∀ r, w.cmdDb c.name = some r → r.sig = sigOf c → r.value.kind = .successfulCommand → w.depDb c.name = storedDeps c

theorem DepsAll.depsInv {cs : List Command} {w : World} (h : DepsAll cs w) : DepsInv cs w :=
  fun c hc r hr hs hk _ => h c hc r hr hs hk

theorem DepsAll.of_rows {cs : List Command} {w w' : World} (h : DepsAll cs w) (h1 : w'.cmdDb = w.cmdDb) (h2 : w'.depDb = w.depDb) :
    DepsAll cs w' := fun c hc r hr hs hk => by rw [h1] at hr; rw [h2]; exact h c hc r hr hs hk

theorem DepsAll.step_cmd {m : Manifest} {d : List Path} {E : Nat} {before rest : List Command} {c : Command} {w : World}
    (hat : At m.cmds before c rest) (h : DepsAll m.cmds w) : DepsAll m.cmds (stepCmd m d E before c w).1 := by
  intro q hq r hr hs hk
  have hfr := stepCmd_frame m d E before c w
  by_cases hn : q.name = c.name
  · have := name_inj hat.wf hat.mem hq hn
    subst this
    unfold stepCmd at hr ⊢
    split
    · rename_i hrun
      simp only [hrun, ↓reduceIte] at hr
      exact runTask_depsSucc hat r hr hk
    · rename_i hrun
      simp only [hrun, Bool.false_eq_true, ↓reduceIte] at hr
      exact h q hq r hr hs hk
  · rw [hfr.cmdDb _ hn] at hr
    rw [hfr.depDb _ hn]
    exact h q hq r hr hs hk

theorem DepsInv.step_cmd {m : Manifest} {d : List Path} {E : Nat} {before rest : List Command} {c : Command} {w : World}
    (hat : At m.cmds before c rest) (h : DepsInv m.cmds w) : DepsInv m.cmds (stepCmd m d E before c w).1 := by
  intro q hq
  have hfr := stepCmd_frame m d E before c w
  by_cases hn : q.name = c.name
  · have := name_inj hat.wf hat.mem hq hn
    subst this
    unfold stepCmd
    split
    · exact runTask_depsRec hat
    · exact h q hq
  · exact (h q hq).congr (hfr.cmdDb _ hn) (hfr.depDb _ hn) (by rw [hfr.cmdline])

/-- the log does not report command `n` as failed or skipped -/
def OkLog (log : List (Nat × Did)) (n : Nat) : Prop := (n, Did.failed) ∉ log ∧ (n, Did.skipped) ∉ log

theorem okLog_append {a b : List (Nat × Did)} {n : Nat} : OkLog (a ++ b) n ↔ OkLog a n ∧ OkLog b n := by
  simp only [OkLog, List.mem_append, not_or]
  constructor
  · rintro ⟨⟨h1, h2⟩, h3, h4⟩; exact ⟨⟨h1, h3⟩, h2, h4⟩
  · rintro ⟨⟨h1, h3⟩, h2, h4⟩; exact ⟨⟨h1, h2⟩, h3, h4⟩

theorem okLog_of_not_failed {log : List (Nat × Did)} (h : buildFailed log = false) (n : Nat) : OkLog log n := by
  simp only [buildFailed, List.any_eq_false, Bool.or_eq_true, beq_iff_eq, not_or] at h
  exact ⟨fun hm => (h _ hm).1 rfl, fun hm => (h _ hm).2 rfl⟩

/-- the state in which a build has left the commands it has processed: each has a stored result, and - unless the log
reports it as failed or skipped - does not need its task any more -/
structure Progress (m : Manifest) (d : List Path) (E : Nat) (before : List Command) (w : World) (log : List (Nat × Did)) : Prop where
  inv : Inv0 m.cmds w
  epoch : w.epoch = E
  srcs : ∀ p ∈ d, producer m.cmds p = none → ∃ r, w.srcDb p = some r
  has : ∀ q ∈ before, q.neededIn d = true → ∃ r, w.cmdDb q.name = some r
  deps : DepsInv m.cmds w
  done : ∀ q ∈ before, q.neededIn d = true → OkLog log q.name → needsTask m.cmds w q = false

theorem runTask_some (m : Manifest) (before : List Command) (E : Nat) (c : Command) (w : World) :
    ∃ r, (runTask m before E c w).1.cmdDb c.name = some r := by
  cases hd : decisionOf m.cmds w c with
  | complete v force => rw [runTask_complete hd]; exact ⟨_, setCmd_cmdDb_self _ _ _⟩
  | execute =>
    cases hf : w.failing c.name with
    | true => rw [runTask_fail hd hf]; exact ⟨_, setCmd_cmdDb_self _ _ _⟩
    | false => rw [runTask_exec hd hf]; exact ⟨_, setCmd_cmdDb_self _ _ _⟩

/-- the result a task leaves carries the signature of the statement -/
theorem runTask_sig (m : Manifest) (before : List Command) (E : Nat) (c : Command) (w : World) :
    ∀ r, (runTask m before E c w).1.cmdDb c.name = some r → r.sig = sigOf c := by
  intro r hr
  cases hd : decisionOf m.cmds w c with
  | complete v force =>
    rw [runTask_complete hd, setCmd_cmdDb_self, Option.some.injEq] at hr; subst hr; rfl
  | execute =>
    cases hf : w.failing c.name with
    | true => rw [runTask_fail hd hf, setCmd_cmdDb_self, Option.some.injEq] at hr; subst hr; rfl
    | false => rw [runTask_exec hd hf, setCmd_cmdDb_self, Option.some.injEq] at hr; subst hr; rfl

theorem Progress.step {m : Manifest} {targets : List Path} {E : Nat} (hwf : wfFrom [] m.cmds = true)
    {before rest : List Command} {c : Command} {w : World} {log : List (Nat × Did)} (hat : At m.cmds before c rest)
    (h : Progress m (demanded m targets) E before w log) :
    Progress m (demanded m targets) E (c :: before) (stepCmd m (demanded m targets) E before c w).1
      (log ++ (stepCmd m (demanded m targets) E before c w).2) := by
  have hfr := stepCmd_frame m (demanded m targets) E before c w
  have hE := h.epoch
  subst hE
  refine ⟨h.inv.step_cmd m hwf _ hat, hfr.epoch, fun p hp hn => by rw [hfr.srcDb]; exact h.srcs p hp hn, ?_,
    h.deps.step_cmd hat, ?_⟩
  · intro q hq hn
    rcases List.mem_cons.1 hq with rfl | hq
    · unfold stepCmd
      split
      · exact runTask_some _ _ _ _ _
      · rename_i hrun
        simp only [Bool.and_eq_true, not_and, Bool.not_eq_true] at hrun
        exact needsTask_false_some (hrun hn)
    · rw [hfr.cmdDb q.name (hat.name_ne_before hq)]
      exact h.has q hq hn
  intro q hq hn hlog
  rw [okLog_append] at hlog
  rcases List.mem_cons.1 hq with rfl | hq
  · -- the command just processed
    unfold stepCmd at hlog ⊢
    split
    · rename_i hrun
      simp only [Bool.and_eq_true] at hrun
      simp only [hrun.1, hrun.2, Bool.and_self, ↓reduceIte, OkLog, List.mem_singleton, Prod.mk.injEq, true_and] at hlog
      obtain ⟨r, hr, hb, _, hvalid⟩ := runTask_ok hat ⟨fun e => hlog.2.1 e.symm, fun e => hlog.2.2 e.symm⟩
      have hdeps := runTask_deps (E := w.epoch) hat ⟨fun e => hlog.2.1 e.symm, fun e => hlog.2.2 e.symm⟩
      have hfr' := runTask_frame m before w.epoch q w
      unfold LLBuild.NinjaWorld.needsTask
      rw [hr, hdeps]
      simp only [Bool.or_eq_false_iff, bne_eq_false_iff_eq]
      refine ⟨⟨runTask_sig m before w.epoch q w r hr, by rw [hfr'.cmdline]; exact hvalid⟩, ?_⟩
      rw [triggers_storedDeps, List.any_eq_false]
      intro k hk
      have hkin := depKeys_sub_insAll q k hk
      have hkd := demanded_closed m hwf targets hat.mem hn k hkin
      have hkno : k ∉ q.outs := hat.cmdWF.ins_not_out k (insAll_sub q k hkin)
      rw [hfr'.resOf_eq hwf hat.mem hkno]
      -- the key has a result, computed no later than now
      have : ∃ x, resOf m.cmds w k = some x := by
        rcases hat.producer_in (insAll_sub q k hkin) with hnone | ⟨p, hp, hpb⟩
        · obtain ⟨r, hr⟩ := h.srcs k hkd hnone
          exact ⟨r, by simp [resOf, hnone, hr]⟩
        · obtain ⟨hpm, hkp⟩ := producer_some hp
          obtain ⟨rp, hrp⟩ := h.has p hpb (needed_of_demanded hkp hkd)
          exact (h.inv.resOf_out hwf hpm hkp hrp).2
      obtain ⟨x, hx⟩ := this
      have := h.inv.resOf_epoch hx
      simp only [hx, rebuiltSince, hb]
      simpa using this
    · rename_i hrun
      simp only [Bool.and_eq_true, not_and, Bool.not_eq_true] at hrun
      exact hrun hn
  · rw [needsTask_frame_before hat hq hfr (h.deps q (hat.mem_before hq))]
    exact h.done q hq hn hlog.1

/-! ### the state after a build -/

theorem same_refl' (i : FInfo) : i.same i = true := by simp [FInfo.same]

theorem refreshSrc_files (E : Nat) (p : Path) (w : World) : (refreshSrc E p w).files = w.files := by
  unfold refreshSrc
  cases w.srcDb p with
  | none => rfl
  | some r => simp only; split <;> rfl

theorem refreshSrc_post (E : Nat) (p : Path) (w : World) : SrcSettled (refreshSrc E p w) p := by
  have key : ∀ prior, SrcSettled { w with srcDb := upd w.srcDb p (some (completeWith E prior (inputValue (w.info p)) false)) } p := by
    intro prior
    refine ⟨_, upd_same _ _ _, ?_⟩
    rw [completeWith_value]
    show inputIsResultValid (inputValue (w.info p)) (w.info p) = true ∨ _
    cases hm : (w.info p).isMissing with
    | true => exact Or.inr ⟨by simp [inputValue, hm], hm⟩
    | false =>
      left
      simp [inputValue, hm, inputIsResultValid, BuildValue.existing, BuildValue.outputInfo, same_refl']
  unfold refreshSrc
  cases hr : w.srcDb p with
  | none => exact key none
  | some r =>
    simp only
    split
    · rename_i hv
      exact ⟨r, hr, Or.inl hv⟩
    · exact key (some r)

theorem SrcSettled.of_eq {w w' : World} {p : Path} (h : SrcSettled w p) (h1 : w'.srcDb p = w.srcDb p)
    (h2 : w'.files p = w.files p) : SrcSettled w' p := by
  obtain ⟨r, hr, hv⟩ := h
  exact ⟨r, h1.trans hr, by simpa only [World.info, h2] using hv⟩

theorem refreshSrcs_files (cs : List Command) (E : Nat) : ∀ (ps : List Path) (w : World), (refreshSrcs cs E ps w).files = w.files := by
  intro ps
  induction ps with
  | nil => intro w; rfl
  | cons p ps ih =>
    intro w
    simp only [refreshSrcs]
    split
    · rw [ih, refreshSrc_files]
    · exact ih w

theorem refreshSrcs_post (cs : List Command) (E : Nat) : ∀ (ps : List Path) (w : World),
    (∀ p, SrcSettled w p → SrcSettled (refreshSrcs cs E ps w) p) ∧
    ∀ p ∈ ps, producer cs p = none → SrcSettled (refreshSrcs cs E ps w) p := by
  intro ps
  induction ps with
  | nil => intro w; exact ⟨fun _ h => h, fun p hp => by cases hp⟩
  | cons p ps ih =>
    intro w
    simp only [refreshSrcs]
    have hkeep : ∀ q, SrcSettled w q → SrcSettled (refreshSrc E p w) q := by
      intro q hq
      by_cases hqp : q = p
      · subst hqp; exact refreshSrc_post E q w
      · exact hq.of_eq (refreshSrc_other E p w hqp) (by rw [refreshSrc_files])
    cases hp : producer cs p with
    | some q =>
      simp only [Option.isNone_some, Bool.false_eq_true, ↓reduceIte]
      refine ⟨(ih w).1, fun p' hp' hn => ?_⟩
      rcases List.mem_cons.1 hp' with rfl | hp'
      · rw [hp] at hn; cases hn
      · exact (ih w).2 p' hp' hn
    | none =>
      simp only [Option.isNone_none, ↓reduceIte]
      refine ⟨fun q hq => (ih _).1 q (hkeep q hq), fun p' hp' hn => ?_⟩
      rcases List.mem_cons.1 hp' with rfl | hp'
      · exact (ih _).1 _ (refreshSrc_post E _ w)
      · exact (ih _).2 p' hp' hn

theorem started_srcs (m : Manifest) (targets : List Path) (w : World) :
    ∀ p ∈ demanded m targets, producer m.cmds p = none → SrcSettled (started m targets w) p :=
  fun p hp => (refreshSrcs_post m.cmds _ _ _).2 p (List.mem_append_left _ hp)

theorem refreshSrc_rows (E : Nat) (p : Path) (w : World) :
    (refreshSrc E p w).cmdDb = w.cmdDb ∧ (refreshSrc E p w).depDb = w.depDb ∧ (refreshSrc E p w).cmdline = w.cmdline := by
  unfold refreshSrc
  cases w.srcDb p with
  | none => exact ⟨rfl, rfl, rfl⟩
  | some r => simp only; split <;> exact ⟨rfl, rfl, rfl⟩

theorem refreshSrcs_rows (cs : List Command) (E : Nat) : ∀ (ps : List Path) (w : World),
    (refreshSrcs cs E ps w).cmdDb = w.cmdDb ∧ (refreshSrcs cs E ps w).depDb = w.depDb ∧
    (refreshSrcs cs E ps w).cmdline = w.cmdline := by
  intro ps
  induction ps with
  | nil => intro w; exact ⟨rfl, rfl, rfl⟩
  | cons p ps ih =>
    intro w
    simp only [refreshSrcs]
    split
    · obtain ⟨a1, a2, a3⟩ := ih (refreshSrc E p w)
      obtain ⟨b1, b2, b3⟩ := refreshSrc_rows E p w
      exact ⟨a1.trans b1, a2.trans b2, a3.trans b3⟩
    · exact ih w

theorem DepsInv.of_rows {cs : List Command} {w w' : World} (h : DepsInv cs w) (h1 : w'.cmdDb = w.cmdDb) (h2 : w'.depDb = w.depDb)
    (h3 : w'.cmdline = w.cmdline) : DepsInv cs w' :=
  fun c hc => (h c hc).congr (by rw [h1]) (by rw [h2]) (by rw [h3])

theorem DepsInv.started {m : Manifest} {w : World} (h : DepsInv m.cmds w) (targets : List Path) :
    DepsInv m.cmds (LLBuild.NinjaWorld.started m targets w) := by
  obtain ⟨a1, a2, a3⟩ := refreshSrcs_rows m.cmds (w.epoch + 1) (demanded m targets ++ storedKeys m (demanded m targets) w)
    { w with epoch := w.epoch + 1 }
  exact h.of_rows a1 a2 a3

theorem started_files (m : Manifest) (targets : List Path) (w : World) : (started m targets w).files = w.files := by
  simp only [started, refreshSrcs_files]

/-- a build does not touch source files or input rules once its commands are being processed -/
theorem stepAll_sources (m : Manifest) (d : List Path) (E : Nat) (hwf : wfFrom [] m.cmds = true) (w : World) :
    (stepAll m d E [] m.cmds w).1.srcDb = w.srcDb ∧
    (∀ p, producer m.cmds p = none → (stepAll m d E [] m.cmds w).1.files p = w.files p) ∧
    (stepAll m d E [] m.cmds w).1.cmdline = w.cmdline ∧ (stepAll m d E [] m.cmds w).1.failing = w.failing := by
  have := stepAll_fst_induct m d E hwf
    (fun _ w' => w'.srcDb = w.srcDb ∧ (∀ p, producer m.cmds p = none → w'.files p = w.files p) ∧ w'.cmdline = w.cmdline ∧
      w'.failing = w.failing)
    (fun before c rest w' hat hw' => by
      have hfr := stepCmd_frame m d E before c w'
      refine ⟨hfr.srcDb.trans hw'.1, fun p hp => ?_, hfr.cmdline.trans hw'.2.2.1, hfr.failing.trans hw'.2.2.2⟩
      rw [hfr.files p (fun hpc => by rw [producer_none_iff] at hp; exact hp c hat.mem hpc)]
      exact hw'.2.1 p hp)
    m.cmds [] w (by simp) ⟨rfl, fun _ _ => rfl, rfl, rfl⟩
  exact this

theorem build_progress (m : Manifest) (hwf : wfFrom [] m.cmds = true) (targets : List Path) {w : World} (h : Inv0 m.cmds w)
    (hd : DepsInv m.cmds w) :
    Progress m (demanded m targets) (w.epoch + 1) m.cmds.reverse (buildFull m targets w).1 (buildFull m targets w).2 := by
  obtain ⟨h1, h2⟩ := h.started m targets
  have h0 : Progress m (demanded m targets) (w.epoch + 1) [] (started m targets w) [] :=
    ⟨h1, h2, fun p hp hn => by obtain ⟨r, hr, _⟩ := started_srcs m targets w p hp hn; exact ⟨r, hr⟩,
     (fun q hq => by cases hq), hd.started targets, (fun q hq => by cases hq)⟩
  have := stepAll_induct m (demanded m targets) (w.epoch + 1) hwf (Progress m (demanded m targets) (w.epoch + 1))
    (fun before c rest w' log hat hp => hp.step hwf hat) m.cmds [] (started m targets w) [] (by simp) h0
  simpa [buildFull_eq] using this

/-- after any build, every demanded source has an up-to-date input rule and every needed command that the log does not
report as failed or skipped does not need its task -/
theorem build_quiet_cmd (m : Manifest) (hwf : wfFrom [] m.cmds = true) (targets : List Path) {w : World} (h : Inv0 m.cmds w)
    (hd : DepsInv m.cmds w) :
    (∀ p ∈ demanded m targets, producer m.cmds p = none → SrcSettled (buildFull m targets w).1 p) ∧
    (∀ c ∈ m.cmds, c.neededIn (demanded m targets) = true → OkLog (buildFull m targets w).2 c.name →
      needsTask m.cmds (buildFull m targets w).1 c = false) := by
  refine ⟨fun p hp hn => ?_, fun c hc hn hl => (build_progress m hwf targets h hd).done c (by simpa using hc) hn hl⟩
  have hs := stepAll_sources m (demanded m targets) (w.epoch + 1) hwf (started m targets w)
  rw [buildFull_eq]
  exact (started_srcs m targets w p hp hn).of_eq (by rw [hs.1]) (hs.2.1 p hn)

/-- after a build that reports no failure, every demanded source has an up-to-date input rule and no needed
command needs its task -/
theorem build_quiet (m : Manifest) (hwf : wfFrom [] m.cmds = true) (targets : List Path) {w : World} (h : Inv0 m.cmds w)
    (hd : DepsInv m.cmds w) (hok : buildFailed (buildFull m targets w).2 = false) :
    (∀ p ∈ demanded m targets, producer m.cmds p = none → SrcSettled (buildFull m targets w).1 p) ∧
    (∀ c ∈ m.cmds, c.neededIn (demanded m targets) = true → needsTask m.cmds (buildFull m targets w).1 c = false) :=
  ⟨(build_quiet_cmd m hwf targets h hd).1, fun c hc hn => (build_quiet_cmd m hwf targets h hd).2 c hc hn (okLog_of_not_failed hok _)⟩

/-- the stored dependency lists stay the recorded ones through a build -/
theorem DepsInv.build {m : Manifest} (hwf : wfFrom [] m.cmds = true) (targets : List Path) {w : World} (h : Inv0 m.cmds w)
    (hd : DepsInv m.cmds w) : DepsInv m.cmds (buildFull m targets w).1 :=
  (build_progress m hwf targets h hd).deps

/-- the keys of a recorded dependency list are inputs of the statement -/
theorem storedDeps_keys (c : Command) : ∀ e ∈ storedDeps c, e.key ∈ insAll c := by
  intro e he
  have hreq : ∀ e ∈ requestDeps (⟨c.exp, c.imp, c.oo⟩ : Inputs Path), e.key ∈ c.exp ++ c.imp ++ c.oo := by
    intro e he
    simp only [requestDeps, requests, List.mem_map, List.mem_append] at he
    obtain ⟨x, hx, rfl⟩ := he
    simp only [List.mem_append]
    rcases hx with (⟨k, hk, rfl⟩ | ⟨k, hk, rfl⟩) | ⟨k, hk, rfl⟩
    · exact Or.inl (Or.inl hk)
    · exact Or.inl (Or.inr hk)
    · exact Or.inr hk
  simp only [storedDeps, dependencyList, List.mem_append] at he
  simp only [insAll, List.mem_append]
  rcases he with he | he
  · have := hreq e he
    simp only [List.mem_append] at this
    exact Or.inl this
  · cases hd : c.hasDeps with
    | false => simp [discovered, Command.cmd, hd] at he
    | true =>
      simp only [discovered, Command.cmd, hd, ↓reduceIte, List.mem_map, List.mem_filter, List.mem_filterMap, id] at he
      obtain ⟨k, ⟨⟨o, ho, hok⟩, _⟩, rfl⟩ := he
      obtain ⟨k', hk', rfl⟩ := ho
      cases hok
      exact Or.inr hk'

end LLBuild.NinjaWorld
