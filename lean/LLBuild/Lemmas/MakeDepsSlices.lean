/-
Helper lemmas for C19 (Makefile-deps parser): every word the parser reports is a non-empty slice `[s, e)` of the
input with `e ≤ length`, and every error position is `≤ length`.
-/
import LLBuild.Lemmas.MakeDeps

namespace LLBuild.MakeDeps

/-- the `StringRef`s / positions handed to the callbacks lie inside the buffer -/
def Action.inBounds (inp : Bytes) : Action → Prop
  | .ruleStart raw _ => ∃ s e, s < e ∧ e ≤ inp.length ∧ raw = slice inp s e
  | .dep raw _ => ∃ s e, s < e ∧ e ≤ inp.length ∧ raw = slice inp s e
  | .ruleEnd => True
  | .error _ pos => pos ≤ inp.length

theorem skipNNW_le {inp : Bytes} {pos p : Nat} (h : skipNNW inp pos = .ok p) (hle : pos ≤ inp.length) : p ≤ inp.length := by
  obtain ⟨p', hp', hb⟩ := skipNNW_ok inp pos hle
  rw [h] at hp'; cases hp'; exact hb

theorem skipWsC_le {inp : Bytes} {pos p : Nat} (h : skipWsC inp pos = .ok p) (hle : pos ≤ inp.length) : p ≤ inp.length := by
  obtain ⟨p', hp', hb⟩ := skipWsC_ok inp pos hle
  rw [h] at hp'; cases hp'; exact hb

theorem skipEOL_le {inp : Bytes} {pos p : Nat} (h : skipEOL inp pos = .ok p) (hle : pos ≤ inp.length) : p ≤ inp.length := by
  obtain ⟨p', hp', hb⟩ := skipEOL_ok inp pos hle
  rw [h] at hp'; cases hp'; exact hb

theorem lexWord_le {inp : Bytes} {pos : Nat} {r : Nat × Bytes} (h : lexWord inp pos = .ok r) (hle : pos ≤ inp.length) :
    r.1 ≤ inp.length := by
  obtain ⟨p', hp', hb⟩ := lexWord_ok inp pos hle
  rw [h] at hp'; cases hp'; exact hb

theorem lexColons_le {inp : Bytes} {pos : Nat} {r : Nat × Bytes} (h : lexColons inp pos = .ok r) (hle : pos ≤ inp.length) :
    r.1 ≤ inp.length := by
  obtain ⟨p', hp', hb⟩ := lexColons_ok inp pos hle
  rw [h] at hp'; cases hp'; exact hb

theorem parseDeps_le {inp : Bytes} {pos : Nat} {r : Nat × List Action} (h : parseDeps inp pos = .ok r) (hle : pos ≤ inp.length) :
    r.1 ≤ inp.length := by
  obtain ⟨p', hp', hb⟩ := parseDeps_ok inp _ pos rfl hle
  rw [h] at hp'; cases hp'; exact hb

theorem mapOk_ok {α β : Type} {f : α → β} {r : R α} {y : β} (h : mapOk f r = .ok y) : ∃ x, r = .ok x ∧ y = f x := by
  cases r with
  | error e => simp [mapOk] at h
  | ok x => simp [mapOk] at h; exact ⟨x, rfl, h.symm⟩

theorem parseDeps_inBounds {inp : Bytes} {pos : Nat} {r : Nat × List Action} (h : parseDeps inp pos = .ok r)
    (hle : pos ≤ inp.length) : ∀ a ∈ r.2, a.inBounds inp := by
  fun_induction parseDeps inp pos generalizing r <;> try (first | (cases h; done) | (cases h; simp; done))
  · rename_i ih
    obtain ⟨p, l⟩ := r
    obtain ⟨l', hl, rfl⟩ := consActs_ok h
    have h1 := skipNNW_le ‹skipNNW inp _ = .ok _› hle
    have h3 := skipEOL_le ‹skipEOL inp _ = .ok _› h1
    intro a ha
    simp only [List.mem_append, List.mem_singleton] at ha
    rcases ha with rfl | ha
    · exact h1
    · exact ih hl h3 a ha
  · rename_i ih
    obtain ⟨p, l⟩ := r
    obtain ⟨l', hl, rfl⟩ := consActs_ok h
    have h1 := skipNNW_le ‹skipNNW inp _ = .ok _› hle
    have hw := lexWord_le ‹lexWord inp _ = .ok _› h1
    have hwg := lexWord_ge ‹lexWord inp _ = .ok _›
    have hc := lexColons_le ‹lexColons inp _ = .ok _› hw
    have hcg := lexColons_ge ‹lexColons inp _ = .ok _›
    intro a ha
    simp only [List.mem_append, List.mem_singleton] at ha
    rcases ha with rfl | ha
    · exact ⟨_, _, by omega, hc, rfl⟩
    · exact ih hl hc a ha

theorem parseRules_inBounds (ign : Bool) {inp : Bytes} {pos : Nat} {acts : List Action} (h : parseRules ign inp pos = .ok acts)
    (hle : pos ≤ inp.length) : ∀ a ∈ acts, a.inBounds inp := by
  fun_induction parseRules ign inp pos generalizing acts <;> try (first | (cases h; done) | (cases h; simp; done))
  · -- "unexpected character in file"
    rename_i ih
    obtain ⟨l', hl, rfl⟩ := mapOk_ok h
    have h1 := skipWsC_le ‹skipWsC inp _ = .ok _› hle
    have h3 := skipEOL_le ‹skipEOL inp _ = .ok _› h1
    intro a ha
    simp only [List.mem_append, List.mem_singleton] at ha
    rcases ha with rfl | ha
    · exact h1
    · exact ih hl h3 a ha
  · -- "missing ':' following rule"
    rename_i ih
    obtain ⟨l', hl, rfl⟩ := mapOk_ok h
    have h1 := skipWsC_le ‹skipWsC inp _ = .ok _› hle
    have hw := lexWord_le ‹lexWord inp _ = .ok _› h1
    have hwg := lexWord_ge ‹lexWord inp _ = .ok _›
    have h3 := skipNNW_le ‹skipNNW inp _ = .ok _› hw
    have h4 := skipEOL_le ‹skipEOL inp _ = .ok _› h3
    intro a ha
    simp only [List.mem_append, List.mem_cons, List.not_mem_nil, or_false] at ha
    rcases ha with (rfl | rfl | rfl) | ha
    · exact ⟨_, _, by omega, hw, rfl⟩
    · exact h3
    · trivial
    · exact ih hl h4 a ha
  · -- a rule, `ignoreSubsequentOutputs`
    cases h
    have h1 := skipWsC_le ‹skipWsC inp _ = .ok _› hle
    have hw := lexWord_le ‹lexWord inp _ = .ok _› h1
    have hwg := lexWord_ge ‹lexWord inp _ = .ok _›
    have h3 := skipNNW_le ‹skipNNW inp _ = .ok _› hw
    have hc := colonAt_true ‹colonAt inp _ = .ok true›
    have hd := parseDeps_inBounds ‹parseDeps inp _ = .ok _› hc
    intro a ha
    simp only [List.mem_append, List.mem_cons, List.not_mem_nil, or_false] at ha
    rcases ha with (rfl | ha) | rfl
    · exact ⟨_, _, by omega, hw, rfl⟩
    · exact hd a ha
    · trivial
  · -- a rule, then the rest of the file
    rename_i ih
    obtain ⟨l', hl, rfl⟩ := mapOk_ok h
    have h1 := skipWsC_le ‹skipWsC inp _ = .ok _› hle
    have hw := lexWord_le ‹lexWord inp _ = .ok _› h1
    have hwg := lexWord_ge ‹lexWord inp _ = .ok _›
    have h3 := skipNNW_le ‹skipNNW inp _ = .ok _› hw
    have hc := colonAt_true ‹colonAt inp _ = .ok true›
    have hd := parseDeps_inBounds ‹parseDeps inp _ = .ok _› hc
    have hdl := parseDeps_le ‹parseDeps inp _ = .ok _› hc
    intro a ha
    simp only [List.mem_append, List.mem_cons, List.not_mem_nil, or_false] at ha
    rcases ha with ((rfl | ha) | rfl) | ha
    · exact ⟨_, _, by omega, hw, rfl⟩
    · exact hd a ha
    · trivial
    · exact ih hl hdl a ha

end LLBuild.MakeDeps
