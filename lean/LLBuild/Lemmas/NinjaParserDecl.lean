/-
Declaration-level runs of the parser along a token script: `parseDecl` on a well-formed build / rule / pool /
binding / include / default statement whose tokens the lexer delivers in the modes the parser asks for.
These are the statements of the `C17_parser_*_shape` theorems of Props/C17Parse.lean (same proofs), placed here so
that the print/parse round trip (Lemmas/NinjaPrint.lean) can use them.
-/
import LLBuild.Lemmas.NinjaParser
import LLBuild.Props.C19Ninja

namespace LLBuild.NinjaParser
open LLBuild.NinjaLexer
open LLBuild.Generated.NinjaLexer (Kind)

theorem parseDecl_build_run (buf : Bytes) (s : PSt) (bl : BuildLine) (bs : List BindingLine) (after : Token) (σ' : St)
    (hk : s.tok.kind = .KWBuild) (hpos : s.lx.pos ≤ buf.length) (hwf : bl.WF = true) (hbs : ∀ b ∈ bs, b.WF = true)
    (ha : after.kind ≠ .Indentation) (hac : after.kind ≠ .Comment)
    (hfol : Follows genCfg buf s.lx (bl.script (headTok bs after) ++ bindsScript bs after) σ') :
    ∃ s', parseDecl genCfg buf s = .ok s' ∧
      s'.evs = .endDecl .build s.tok :: ((bs.map fun b => Ev.declBinding .build b.name b.value).reverse ++
        .beginBuild bl.name bl.outs (bl.exp ++ optList bl.pipe ++ optList bl.pipepipe) bl.exp.length (optList bl.pipe).length ::
          s.evs) ∧
      s'.tok = after ∧ s'.lx = σ' ∧ s'.mode = .none := by
  have ok := genCfg_ok
  have hnext : (headTok bs after).kind ≠ .Comment := by
    cases bs with
    | nil => exact hac
    | cons c _ =>
      have hc := hbs c (by simp)
      simp only [BindingLine.WF, Bool.and_eq_true, decide_eq_true_eq] at hc
      show c.indent.kind ≠ _
      rw [hc.1.1.1.1]; decide
  obtain ⟨σm, hf1, hf2⟩ := (follows_append genCfg buf _ _ _ _).1 hfol
  obtain ⟨s1, hc1, ht1, hl1, hm1, he1⟩ := parseBuildSpecifier_run ok buf bl (headTok bs after) s σm hwf hnext hpos hf1
  have hb := follows_bounds ok _ s.lx σm hpos hf1
  have hlen := bindsScript_len ok buf bs after σm σ' hb.2 hbs hf2
  obtain ⟨s2, hc2, ht2, hl2, hm2, he2⟩ := bindingsLoop_run buf .build after σ' ha hac bs (fuel buf) s1 hbs
    (by unfold fuel; omega) ht1 hm1 (by rw [hl1]; exact hf2)
  refine ⟨s2.emit (.endDecl .build s.tok), ?_, ?_, ht2, hl2, hm2⟩
  · have hdk : declKindOf Kind.KWBuild = .build := rfl
    simp only [parseDecl, hk, parseParameterizedDecl, hdk, hc1, Res.ok_bind, if_true, hc2, Res.pure_eq_ok]
  · show _ :: s2.evs = _
    rw [he2, he1]; rfl

theorem parseDecl_rule_run (buf : Bytes) (s : PSt) (name nl : Token) (bs : List BindingLine) (after : Token) (σ' : St)
    (hk : s.tok.kind = .KWRule) (hpos : s.lx.pos ≤ buf.length) (hname : name.kind = .Identifier) (hnl : nl.kind = .Newline)
    (hbs : ∀ b ∈ bs, b.WF = true) (ha : after.kind ≠ .Indentation) (hac : after.kind ≠ .Comment)
    (hfol : Follows genCfg buf s.lx ([(.identifierSpecific, name), (.none, nl), (.none, headTok bs after)] ++ bindsScript bs after) σ') :
    ∃ s', parseDecl genCfg buf s = .ok s' ∧
      s'.evs = .endDecl .rule s.tok :: ((bs.map fun b => Ev.declBinding .rule b.name b.value).reverse ++ .beginRule name :: s.evs) ∧
      s'.tok = after ∧ s'.lx = σ' ∧ s'.mode = .none := by
  have ok := genCfg_ok
  have hnext : (headTok bs after).kind ≠ .Comment := by
    cases bs with
    | nil => exact hac
    | cons c _ =>
      have hc := hbs c (by simp)
      simp only [BindingLine.WF, Bool.and_eq_true, decide_eq_true_eq] at hc
      show c.indent.kind ≠ _
      rw [hc.1.1.1.1]; decide
  obtain ⟨σm, hf1, hf2⟩ := (follows_append genCfg buf _ _ _ _).1 hfol
  obtain ⟨s1, hc1, ht1, hl1, hm1, he1⟩ := parseNameSpecifier_run genCfg buf .expectedRuleName .beginRule s name nl
    (headTok bs after) σm hname hnl hnext hf1
  have hb := follows_bounds ok _ s.lx σm hpos hf1
  have hlen := bindsScript_len ok buf bs after σm σ' hb.2 hbs hf2
  obtain ⟨s2, hc2, ht2, hl2, hm2, he2⟩ := bindingsLoop_run buf .rule after σ' ha hac bs (fuel buf) s1 hbs
    (by unfold fuel; omega) ht1 hm1 (by rw [hl1]; exact hf2)
  refine ⟨s2.emit (.endDecl .rule s.tok), ?_, ?_, ht2, hl2, hm2⟩
  · have hdk : declKindOf Kind.KWRule = .rule := rfl
    simp only [parseDecl, hk, parseParameterizedDecl, hdk, parseRuleSpecifier, hc1, Res.ok_bind, if_true, hc2, Res.pure_eq_ok]
  · show _ :: s2.evs = _
    rw [he2, he1]

theorem parseDecl_pool_run (buf : Bytes) (s : PSt) (name nl : Token) (bs : List BindingLine) (after : Token) (σ' : St)
    (hk : s.tok.kind = .KWPool) (hpos : s.lx.pos ≤ buf.length) (hname : name.kind = .Identifier) (hnl : nl.kind = .Newline)
    (hbs : ∀ b ∈ bs, b.WF = true) (ha : after.kind ≠ .Indentation) (hac : after.kind ≠ .Comment)
    (hfol : Follows genCfg buf s.lx ([(.identifierSpecific, name), (.none, nl), (.none, headTok bs after)] ++ bindsScript bs after) σ') :
    ∃ s', parseDecl genCfg buf s = .ok s' ∧
      s'.evs = .endDecl .pool s.tok :: ((bs.map fun b => Ev.declBinding .pool b.name b.value).reverse ++ .beginPool name :: s.evs) ∧
      s'.tok = after ∧ s'.lx = σ' ∧ s'.mode = .none := by
  have ok := genCfg_ok
  have hnext : (headTok bs after).kind ≠ .Comment := by
    cases bs with
    | nil => exact hac
    | cons c _ =>
      have hc := hbs c (by simp)
      simp only [BindingLine.WF, Bool.and_eq_true, decide_eq_true_eq] at hc
      show c.indent.kind ≠ _
      rw [hc.1.1.1.1]; decide
  obtain ⟨σm, hf1, hf2⟩ := (follows_append genCfg buf _ _ _ _).1 hfol
  obtain ⟨s1, hc1, ht1, hl1, hm1, he1⟩ := parseNameSpecifier_run genCfg buf .expectedPoolName .beginPool s name nl
    (headTok bs after) σm hname hnl hnext hf1
  have hb := follows_bounds ok _ s.lx σm hpos hf1
  have hlen := bindsScript_len ok buf bs after σm σ' hb.2 hbs hf2
  obtain ⟨s2, hc2, ht2, hl2, hm2, he2⟩ := bindingsLoop_run buf .pool after σ' ha hac bs (fuel buf) s1 hbs
    (by unfold fuel; omega) ht1 hm1 (by rw [hl1]; exact hf2)
  refine ⟨s2.emit (.endDecl .pool s.tok), ?_, ?_, ht2, hl2, hm2⟩
  · have hdk : declKindOf Kind.KWPool = .pool := rfl
    simp only [parseDecl, hk, parseParameterizedDecl, hdk, parsePoolSpecifier, hc1, Res.ok_bind, if_true, hc2, Res.pure_eq_ok]
  · show _ :: s2.evs = _
    rw [he2, he1]

theorem parseDecl_include_run (buf : Bytes) (s : PSt) (path nl next : Token) (σ' : St)
    (hk : s.tok.kind = .KWInclude ∨ s.tok.kind = .KWSubninja)
    (hp : path.kind = .String) (hnl : nl.kind = .Newline) (hnc : next.kind ≠ .Comment)
    (hfol : Follows genCfg buf s.lx [(.pathString, path), (.none, nl), (.none, next)] σ') :
    ∃ s', parseDecl genCfg buf s = .ok s' ∧ s'.evs = .include (decide (s.tok.kind = .KWInclude)) path :: s.evs ∧
      s'.tok = next ∧ s'.lx = σ' ∧ s'.mode = .none := by
  obtain ⟨s1, hc1, ht1, hm1, he1, hf1⟩ := consume_follows genCfg buf (s.setMode .pathString) path _ σ' hfol (by rw [hp]; decide)
  obtain ⟨s2, hc2, ht2, hm2, he2, hf2⟩ := consume_follows genCfg buf (s1.setMode .none) nl _ σ' hf1 (by rw [hnl]; decide)
  have hm2' : s2.mode = .none := hm2
  obtain ⟨s3, hc3, ht3, hm3, he3, hf3⟩ := consume_follows genCfg buf s2 next _ σ' (by rw [hm2']; exact hf2) hnc
  refine ⟨s3.emit (.include (decide (s.tok.kind = .KWInclude)) path), ?_, ?_, ht3, (show σ' = s3.lx from hf3).symm, hm3.trans hm2'⟩
  · have hdecl : parseDecl genCfg buf s = parseIncludeDecl genCfg buf s := by
      rcases hk with h | h <;> simp only [parseDecl, h]
    rw [hdecl]
    unfold parseIncludeDecl
    simp only []
    rw [hc1]
    simp only [Res.ok_bind]
    have hk1 : (s1.setMode .none).tok.kind = .String := by show s1.tok.kind = _; rw [ht1, hp]
    rw [if_neg (by simp [hk1]), hc2]
    simp only [Res.ok_bind]
    rw [if_pos (by rw [ht2, hnl]), hc3]
    simp only [Res.ok_bind, Res.pure_eq_ok]
    show Res.ok (s3.emit (.include _ s1.tok)) = _
    rw [ht1]
  · show _ :: s3.evs = _
    rw [he3, he2]; show _ :: s1.evs = _; rw [he1]; rfl

theorem parseDecl_default_run (buf : Bytes) (s : PSt) (names : List Token) (nl next : Token) (σ' : St)
    (hk : s.tok.kind = .KWDefault) (hpos : s.lx.pos ≤ buf.length) (hne : names ≠ []) (hnames : ∀ t ∈ names, t.kind = .String)
    (hnl : nl.kind = .Newline) (hnc : next.kind ≠ .Comment)
    (hfol : Follows genCfg buf s.lx ((names ++ [nl]).map (fun t => (LexMode.pathString, t)) ++ [(.none, next)]) σ') :
    ∃ s', parseDecl genCfg buf s = .ok s' ∧ s'.evs = .default names :: s.evs ∧ s'.tok = next ∧ s'.lx = σ' ∧ s'.mode = .none := by
  obtain ⟨n0, ns, hn⟩ : ∃ n0 ns, names = n0 :: ns := by
    cases names with
    | nil => exact absurd rfl hne
    | cons a b => exact ⟨a, b, rfl⟩
  have hlen : names.length < fuel buf := by
    obtain ⟨σm, hpre, _⟩ := (follows_append genCfg buf _ _ _ _).1 hfol
    have := follows_len genCfg_ok _ s.lx σm hpos hpre (by
      intro p hp
      simp only [List.map_append, List.map_cons, List.map_nil, List.mem_append, List.mem_map, List.mem_cons,
        List.not_mem_nil, or_false] at hp
      rcases hp with ⟨t, ht, rfl⟩ | rfl
      · show t.kind ≠ _; rw [hnames t ht]; decide
      · show nl.kind ≠ _; rw [hnl]; decide)
    simp only [List.length_append, List.length_map, List.length_cons, List.length_nil] at this
    unfold fuel; omega
  rw [hn] at hfol
  simp only [List.cons_append, List.map_cons] at hfol
  obtain ⟨s1, hc1, ht1, hm1, he1, hf1⟩ := consume_follows genCfg buf (s.setMode .pathString) n0 _ σ' hfol
    (by rw [hnames n0 (by rw [hn]; simp)]; decide)
  have hm1' : s1.mode = .pathString := hm1
  obtain ⟨s2, hc2, ht2, hm2, he2, hf2⟩ := stringsLoop_run genCfg buf nl [] [(.none, next)] σ' (by rw [hnl]; decide) (by rw [hnl]; decide)
    names (fuel buf) s1 [] (ns ++ [nl]) hnames hlen (by rw [ht1, hn]; simp) (by rw [hm1']; exact hf1)
  simp only [List.map_nil, List.nil_append] at hf2 hc2
  obtain ⟨s3, hc3, ht3, hm3, he3, hf3⟩ := consume_follows genCfg buf (s2.setMode .none) next _ σ' hf2 hnc
  refine ⟨s3.emit (.default names), ?_, ?_, ht3, (show σ' = s3.lx from hf3).symm, hm3⟩
  · simp only [parseDecl, hk]
    unfold parseDefaultDecl
    rw [hc1]
    simp only [Res.ok_bind]
    rw [hc2]
    simp only [Res.ok_bind]
    have hem : names.isEmpty = false := by rw [hn]; rfl
    have hk2 : (s2.setMode .none).tok.kind = .Newline := by show s2.tok.kind = _; rw [ht2, hnl]
    rw [hem]
    simp only [Bool.false_eq_true, if_false]
    rw [if_pos hk2, hc3]
    rfl
  · show _ :: s3.evs = _
    rw [he3]; show _ :: s2.evs = _; rw [he2, he1]; rfl

theorem parseDecl_binding_run (buf : Bytes) (s : PSt) (eq v nl next : Token) (σ' : St)
    (hk : s.tok.kind = .Identifier) (hm : s.mode = .none)
    (heq : eq.kind = .Equals) (hv : v.kind = .String) (hnl : nl.kind = .Newline) (hnc : next.kind ≠ .Comment)
    (hfol : Follows genCfg buf s.lx [(.none, eq), (.variableString, v), (.none, nl), (.none, next)] σ') :
    ∃ s', parseDecl genCfg buf s = .ok s' ∧ s'.evs = .binding s.tok v :: s.evs ∧ s'.tok = next ∧ s'.lx = σ' ∧ s'.mode = .none := by
  obtain ⟨s1, hc1, ht1, hl1, hm1, he1⟩ := parseBindingInternal_run genCfg buf s eq v nl next σ' hk heq hv hnl hnc
    (by rw [hm]; exact hfol)
  refine ⟨s1.emit (.binding s.tok v), ?_, by show _ :: s1.evs = _; rw [he1], ht1, hl1, hm1⟩
  simp only [parseDecl, hk, parseBindingDecl, hc1, Res.ok_bind, Res.pure_eq_ok]

end LLBuild.NinjaParser
