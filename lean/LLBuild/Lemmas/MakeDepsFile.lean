/-
Helper lemmas for the whole-file round trip of C11 (`MakeDeps.C11_roundtrip_file`): one-step lemmas for
`skipNNW` / `skipWsC` / `parseDeps` / `parseRules` stated through `peek`, the "cursor is in front of `s`" form
`inp.drop pos = s ++ rest`, `skipNNW` over `Sep.bytes`, both skippers stopping at the first raw byte of an escaped
word, and the two list inductions (prerequisites of one rule, rules of one file).
-/
import LLBuild.Lemmas.MakeDeps

namespace LLBuild.MakeDeps

/-! ### the cursor form `inp.drop pos = s` -/

theorem peek_add (inp : Bytes) (pos k : Nat) : peek inp (pos + k) = (inp.drop pos)[k]? := by
  unfold peek
  rw [List.getElem?_drop]

theorem peek_of_drop {inp : Bytes} {pos : Nat} {c : UInt8} {t : Bytes} (h : inp.drop pos = c :: t) :
    peek inp pos = some c := by
  have := peek_add inp pos 0
  rw [h] at this
  simpa using this

theorem peek1_of_drop {inp : Bytes} {pos : Nat} {c d : UInt8} {t : Bytes} (h : inp.drop pos = c :: d :: t) :
    peek inp (pos + 1) = some d := by
  have := peek_add inp pos 1
  rw [h] at this
  simpa using this

theorem peek2_of_drop {inp : Bytes} {pos : Nat} {c d e : UInt8} {t : Bytes} (h : inp.drop pos = c :: d :: e :: t) :
    peek inp (pos + 2) = some e := by
  have := peek_add inp pos 2
  rw [h] at this
  simpa using this

theorem lt_of_drop {inp : Bytes} {pos : Nat} {c : UInt8} {t : Bytes} (h : inp.drop pos = c :: t) :
    pos < inp.length := peek_lt (peek_of_drop h)

theorem drop_add {inp : Bytes} {pos : Nat} {a b : Bytes} (h : inp.drop pos = a ++ b) :
    inp.drop (pos + a.length) = b := by
  rw [← List.drop_drop, h]
  simp

theorem drop_succ {inp : Bytes} {pos : Nat} {c : UInt8} {t : Bytes} (h : inp.drop pos = c :: t) :
    inp.drop (pos + 1) = t := drop_add (a := [c]) h

/-- back to the `pre ++ s` form the word lemmas are stated in -/
theorem split_of_drop {inp : Bytes} {pos : Nat} {s : Bytes} (h : inp.drop pos = s) (hle : pos ≤ inp.length) :
    ∃ pre, pre.length = pos ∧ inp = pre ++ s := by
  refine ⟨inp.take pos, ?_, ?_⟩
  · simp; omega
  · rw [← h]; simp

/-! ### one-step lemmas of the two skippers -/

theorem skipNNW_ws {inp : Bytes} {pos : Nat} {c : UInt8} (hp : peek inp pos = some c) (hc : isWsNonNewline c = true) :
    skipNNW inp pos = skipNNW inp (pos + 1) := by
  conv => lhs; unfold skipNNW
  have := peek_lt hp
  split
  · omega
  · split
    · rename_i hn; rw [hp] at hn; cases hn
    · rename_i d hd; rw [hp] at hd; cases hd
      simp [hc]

theorem skipNNW_cont {inp : Bytes} {pos : Nat} (hp : peek inp pos = some 92) (hp1 : peek inp (pos + 1) = some 10) :
    skipNNW inp pos = skipNNW inp (pos + 2) := by
  conv => lhs; unfold skipNNW
  have := peek_lt hp
  have := peek_lt hp1
  have hn : nextIs inp pos 10 = .ok true := by
    unfold nextIs
    rw [if_neg (by omega), hp1]; rfl
  split
  · omega
  · split
    · rename_i hn; rw [hp] at hn; cases hn
    · rename_i d hd; rw [hp] at hd; cases hd
      simp [isWsNonNewline, Generated.mdWhitespaceNonNewline, hn]

theorem skipNNW_contCRLF {inp : Bytes} {pos : Nat} (hp : peek inp pos = some 92) (hp1 : peek inp (pos + 1) = some 13)
    (hp2 : peek inp (pos + 2) = some 10) (hlt : pos + 2 < inp.length) : skipNNW inp pos = skipNNW inp (pos + 3) := by
  conv => lhs; unfold skipNNW
  have := peek_lt hp
  have := peek_lt hp1
  have hn : nextIs inp pos 10 = .ok false := by
    unfold nextIs
    rw [if_neg (by omega), hp1]; rfl
  have hcr : crlfFollows inp pos = .ok true := by
    unfold crlfFollows
    rw [if_pos hlt, hp1]
    simp [hp2]
  split
  · omega
  · split
    · rename_i hn; rw [hp] at hn; cases hn
    · rename_i d hd; rw [hp] at hd; cases hd
      simp [isWsNonNewline, Generated.mdWhitespaceNonNewline, hn, hcr]

theorem skipNNW_stop {inp : Bytes} {pos : Nat} {c : UInt8} (hp : peek inp pos = some c) (hc : isWsNonNewline c = false)
    (h92 : c = 92 → ∃ d, peek inp (pos + 1) = some d ∧ d ≠ 10 ∧ d ≠ 13) : skipNNW inp pos = .ok pos := by
  unfold skipNNW
  have := peek_lt hp
  split
  · omega
  · split
    · rename_i hn; rw [hp] at hn; cases hn
    · rename_i d hd; rw [hp] at hd; cases hd
      by_cases h : c = 92
      · obtain ⟨d, hd, h10, h13⟩ := h92 h
        subst h
        have := peek_lt hd
        have hn : nextIs inp pos 10 = .ok false := by
          unfold nextIs
          rw [if_neg (by omega), hd]; simp [h10]
        have hcr : crlfFollows inp pos = .ok false := by
          unfold crlfFollows
          split
          · rw [hd]; simp [h13]
          · rfl
        simp [hc, hn, hcr]
      · simp [hc, h]

theorem skipWsC_stop {inp : Bytes} {pos : Nat} {c : UInt8} (hp : peek inp pos = some c) (h35 : c ≠ 35)
    (hc : isWsAll c = false) : skipWsC inp pos = .ok pos := by
  unfold skipWsC
  have := peek_lt hp
  split
  · omega
  · split
    · rename_i hn; rw [hp] at hn; cases hn
    · rename_i d hd; rw [hp] at hd; cases hd
      simp [Generated.mdCommentChar, h35, hc]

theorem skipWsC_lf {inp : Bytes} {pos : Nat} (hp : peek inp pos = some 10) : skipWsC inp pos = skipWsC inp (pos + 1) := by
  conv => lhs; unfold skipWsC
  have := peek_lt hp
  split
  · omega
  · split
    · rename_i hn; rw [hp] at hn; cases hn
    · rename_i d hd; rw [hp] at hd; cases hd
      simp [Generated.mdCommentChar, isWsAll, Generated.mdWhitespaceAll]

theorem skipWsC_end (inp : Bytes) : skipWsC inp inp.length = .ok inp.length := by
  unfold skipWsC
  simp

/-! ### the first raw byte of an escaped word stops both skippers -/

/-- what an escaped non-empty word starts with: not whitespace, not `#`, and a backslash is followed by a byte
that is neither LF nor CR (so it is not a line continuation) -/
def wordStart (s : Bytes) : Prop :=
  ∃ c t, s = c :: t ∧ isWsAll c = false ∧ c ≠ 35 ∧ (c = 92 → ∃ d t', t = d :: t' ∧ d ≠ 10 ∧ d ≠ 13)

theorem escapeByte_wordStart (c : UInt8) (hc : exprByte c = true) (rest : Bytes) : wordStart (escapeByte c ++ rest) := by
  simp only [exprByte, Bool.and_eq_true, bne_iff_ne, ne_eq] at hc
  obtain ⟨⟨⟨h0, h9⟩, h10⟩, h13⟩ := hc
  by_cases h1 : c = 32 ∨ c = 35 ∨ c = 92
  · have he : escapeByte c = [92, c] := by rcases h1 with rfl | rfl | rfl <;> rfl
    rw [he]
    exact ⟨92, c :: rest, rfl, by decide, by decide, fun _ => ⟨c, rest, rfl, h10, h13⟩⟩
  · by_cases h2 : c = 36
    · subst h2
      exact ⟨36, 36 :: rest, rfl, by decide, by decide, fun h => absurd h (by decide)⟩
    · have he : escapeByte c = [c] := by
        unfold escapeByte
        simp at h1
        simp [h1, h2]
      rw [he]
      simp at h1
      refine ⟨c, rest, rfl, ?_, h1.2.1, fun h => absurd h h1.2.2⟩
      simp [isWsAll, Generated.mdWhitespaceAll, h1.1, h9, h10, h13]

theorem escape_wordStart {p : Bytes} (hne : p ≠ []) (hp : ∀ c ∈ p, exprByte c = true) (rest : Bytes) :
    wordStart (escape p ++ rest) := by
  cases p with
  | nil => exact absurd rfl hne
  | cons c p =>
    rw [escape_cons, List.append_assoc]
    exact escapeByte_wordStart c (hp c (by simp)) _

theorem wordStart_nnw {s : Bytes} (h : wordStart s) : ∃ c t, s = c :: t ∧ isWsNonNewline c = false ∧ c ≠ 10 ∧
    (c = 92 → ∃ d t', t = d :: t' ∧ d ≠ 10 ∧ d ≠ 13) := by
  obtain ⟨c, t, rfl, hws, _, h92⟩ := h
  refine ⟨c, t, rfl, ?_, ?_, h92⟩
  · simp [isWsAll, Generated.mdWhitespaceAll] at hws
    simp [isWsNonNewline, Generated.mdWhitespaceNonNewline, hws]
  · intro h; subst h; simp [isWsAll, Generated.mdWhitespaceAll] at hws

theorem skipNNW_wordStart {inp : Bytes} {pos : Nat} {s : Bytes} (hd : inp.drop pos = s) (hs : wordStart s) :
    skipNNW inp pos = .ok pos := by
  obtain ⟨c, t, rfl, hws, _, h92⟩ := wordStart_nnw hs
  refine skipNNW_stop (peek_of_drop hd) hws (fun h => ?_)
  obtain ⟨d, t', rfl, h10, h13⟩ := h92 h
  exact ⟨d, peek1_of_drop hd, h10, h13⟩

theorem skipWsC_wordStart {inp : Bytes} {pos : Nat} {s : Bytes} (hd : inp.drop pos = s) (hs : wordStart s) :
    skipWsC inp pos = .ok pos := by
  obtain ⟨c, t, rfl, hws, h35, _⟩ := hs
  exact skipWsC_stop (peek_of_drop hd) h35 hws

/-- `skipNonNewlineWhitespace` consumes exactly a separator (blank, backslash-newline, backslash-CRLF) that is followed
by an escaped word -/
theorem skipNNW_sep (sep : Sep) {inp : Bytes} {pos : Nat} {rest : Bytes} (hd : inp.drop pos = sep.bytes ++ rest)
    (hs : wordStart rest) : skipNNW inp pos = .ok (pos + sep.bytes.length) := by
  have hstop := skipNNW_wordStart (drop_add hd) hs
  cases sep with
  | space =>
    have hd' : inp.drop pos = 32 :: rest := hd
    rw [skipNNW_ws (peek_of_drop hd') (by decide)]
    exact hstop
  | cont =>
    have hd0 : inp.drop pos = 32 :: 92 :: 10 :: 32 :: 32 :: rest := hd
    have hd1 := drop_succ hd0
    have hd3 := drop_succ (drop_succ hd1)
    have hd4 := drop_succ hd3
    rw [skipNNW_ws (peek_of_drop hd0) (by decide), skipNNW_cont (peek_of_drop hd1) (peek1_of_drop hd1),
      skipNNW_ws (peek_of_drop hd3) (by decide), skipNNW_ws (peek_of_drop hd4) (by decide)]
    exact hstop
  | contCRLF =>
    have hd0 : inp.drop pos = 32 :: 92 :: 13 :: 10 :: 32 :: rest := hd
    have hd1 := drop_succ hd0
    have hd4 := drop_succ (drop_succ (drop_succ hd1))
    rw [skipNNW_ws (peek_of_drop hd0) (by decide),
      skipNNW_contCRLF (peek_of_drop hd1) (peek1_of_drop hd1) (peek2_of_drop hd1) (peek_lt (peek2_of_drop hd1)),
      skipNNW_ws (peek_of_drop hd4) (by decide)]
    exact hstop

/-! ### one iteration of the prerequisite loop -/

theorem parseDeps_end {inp : Bytes} {pos p1 : Nat} (h1 : skipNNW inp pos = .ok p1) (hp : peek inp p1 = some 10) :
    parseDeps inp pos = .ok (p1, []) := by
  unfold parseDeps
  have := peek_lt hp
  have := skipNNW_ge h1
  split
  · omega
  · split
    · rename_i e he; rw [h1] at he; cases he
    · rename_i q hq; rw [h1] at hq; cases hq
      split
      · rfl
      · split
        · rename_i hn; rw [hp] at hn; cases hn
        · rename_i c hc; rw [hp] at hc; cases hc
          simp

theorem parseDeps_dep {inp : Bytes} {pos p1 : Nat} {c : UInt8} {r r2 : Nat × Bytes} (h1 : skipNNW inp pos = .ok p1)
    (hp : peek inp p1 = some c) (hc : c ≠ 10) (hw : lexWord inp p1 = .ok r) (hprog : r.1 ≠ p1)
    (hcol : lexColons inp r.1 = .ok r2) :
    parseDeps inp pos = consActs [.dep (slice inp p1 r2.1) (r.2 ++ r2.2)] (parseDeps inp r2.1) := by
  conv => lhs; unfold parseDeps
  have := peek_lt hp
  have := skipNNW_ge h1
  split
  · omega
  · split
    · rename_i e he; rw [h1] at he; cases he
    · rename_i q hq; rw [h1] at hq; cases hq
      split
      · omega
      · split
        · rename_i hn; rw [hp] at hn; cases hn
        · rename_i c' hc'; rw [hp] at hc'; cases hc'
          split
          · rename_i h10; simp at h10; exact absurd h10 hc
          · split
            · rename_i e he; rw [hw] at he; cases he
            · rename_i r' hr'; rw [hw] at hr'; cases hr'
              split
              · rename_i heq; exact absurd heq hprog
              · split
                · rename_i e he; rw [hcol] at he; cases he
                · rename_i q2 hq2; rw [hcol] at hq2; cases hq2
                  rfl

/-! ### the prerequisites of one rule -/

/-- the bytes `mkRule` writes between the colon and the line end -/
def depsBytes (deps : List (Sep × Bytes)) : Bytes := deps.flatMap (fun d => d.1.bytes ++ escape d.2)

theorem depsBytes_cons (s : Sep) (d : Bytes) (ds : List (Sep × Bytes)) :
    depsBytes ((s, d) :: ds) = s.bytes ++ (escape d ++ depsBytes ds) := by
  simp [depsBytes]

def eolBytes (crlf : Bool) : Bytes := if crlf then [13, 10] else [10]

theorem Sep.bytes_head (s : Sep) : ∃ t, s.bytes = 32 :: t := by
  cases s <;> exact ⟨_, rfl⟩

/-- whatever follows a prerequisite in a written rule (the next separator or the line end) ends the word -/
theorem stopsDep_tail (ds : List (Sep × Bytes)) (crlf : Bool) (rest : Bytes) :
    stopsDep (depsBytes ds ++ (eolBytes crlf ++ rest)) = true := by
  cases ds with
  | nil => cases crlf <;> simp [depsBytes, eolBytes, stopsDep, isWordChar, Generated.mdNonWordChars]
  | cons d ds =>
    obtain ⟨s, d⟩ := d
    obtain ⟨t, ht⟩ := Sep.bytes_head s
    rw [depsBytes_cons, ht]
    simp [stopsDep, isWordChar, Generated.mdNonWordChars]

theorem validDep_iff {p : Bytes} (h : validDep p = true) : p ≠ [] ∧ (∀ c ∈ p, exprByte c = true) ∧ p.head? ≠ some 58 := by
  simp only [validDep, Bool.and_eq_true, Bool.not_eq_true', List.isEmpty_eq_false_iff, List.all_eq_true, bne_iff_ne, ne_eq] at h
  exact ⟨h.1.1, h.1.2, h.2⟩

/-- the word lemma `lexDep_parts` in cursor form -/
theorem lexDep_parts_at {inp : Bytes} {pos : Nat} {p suffix : Bytes} (hd : inp.drop pos = escape p ++ suffix)
    (hle : pos ≤ inp.length) (hv : validDep p = true) (hs : stopsDep suffix = true) :
    ∃ q w w2, lexWord inp pos = .ok (q, w) ∧ lexColons inp q = .ok (pos + (escape p).length, w2) ∧ w ++ w2 = p ∧ pos < q := by
  obtain ⟨hne, hp, hh⟩ := validDep_iff hv
  obtain ⟨pre, hlen, hinp⟩ := split_of_drop hd hle
  obtain ⟨q, w, w2, h1, h2, h3, h4⟩ := lexDep_parts p pre suffix hp hs
  rw [← List.append_assoc] at hinp
  rw [← hinp, hlen] at h1 h2
  exact ⟨q, w, w2, h1, h2, h3, hlen ▸ h4 hne hh⟩

/-- the first list induction: from the byte behind the colon, `parseDeps` reports exactly the written
prerequisites and stops ON the line feed that ends the rule -/
theorem parseDeps_file (crlf : Bool) (rest : Bytes) : ∀ (deps : List (Sep × Bytes)) (inp : Bytes) (pos : Nat),
    (∀ d ∈ deps, validDep d.2 = true) → inp.drop pos = depsBytes deps ++ (eolBytes crlf ++ rest) →
    ∃ p' acts, parseDeps inp pos = .ok (p', acts) ∧ inp.drop p' = 10 :: rest ∧
      acts.map Action.event = deps.map (fun d => Event.dep d.2) := by
  intro deps
  induction deps with
  | nil =>
    intro inp pos _ hd
    cases crlf with
    | false =>
      have hd0 : inp.drop pos = 10 :: rest := by simpa [depsBytes, eolBytes] using hd
      have hp := peek_of_drop hd0
      exact ⟨pos, [], parseDeps_end (skipNNW_stop hp (by decide) (fun h => absurd h (by decide))) hp, hd0, rfl⟩
    | true =>
      have hd0 : inp.drop pos = 13 :: 10 :: rest := by simpa [depsBytes, eolBytes] using hd
      have hd1 := drop_succ hd0
      have hp := peek_of_drop hd1
      have h1 : skipNNW inp pos = .ok (pos + 1) := by
        rw [skipNNW_ws (peek_of_drop hd0) (by decide)]
        exact skipNNW_stop hp (by decide) (fun h => absurd h (by decide))
      exact ⟨pos + 1, [], parseDeps_end h1 hp, hd1, rfl⟩
  | cons d ds ih =>
    intro inp pos hv hd
    obtain ⟨s, d⟩ := d
    have hvd : validDep d = true := hv (s, d) (by simp)
    obtain ⟨hne, hp, _⟩ := validDep_iff hvd
    rw [depsBytes_cons, List.append_assoc, List.append_assoc] at hd
    have hws := escape_wordStart hne hp (depsBytes ds ++ (eolBytes crlf ++ rest))
    have h1 := skipNNW_sep s hd hws
    have hd1 := drop_add hd
    obtain ⟨c, t, hct, _, hc10, _⟩ := wordStart_nnw hws
    rw [hct] at hd1
    have hpk := peek_of_drop hd1
    have hlt := lt_of_drop hd1
    rw [← hct] at hd1
    obtain ⟨q, w, w2, hw, hcol, hwd, hq⟩ := lexDep_parts_at hd1 (by omega) hvd (stopsDep_tail ds crlf rest)
    have hstep := parseDeps_dep h1 hpk hc10 hw (by simp; omega) hcol
    obtain ⟨p', acts, hpd, hdp, hev⟩ := ih inp _ (fun x hx => hv x (by simp [hx])) (drop_add hd1)
    simp only at hstep
    rw [hpd] at hstep
    refine ⟨p', _, hstep, hdp, ?_⟩
    simp [hev, Action.event, hwd]

/-! ### one iteration of the rule loop -/

theorem parseRules_end (ign : Bool) {inp : Bytes} {pos : Nat} (h1 : skipWsC inp pos = .ok inp.length) :
    parseRules ign inp pos = .ok [] := by
  unfold parseRules
  split
  · rfl
  · split
    · rename_i e he; rw [h1] at he; cases he
    · rename_i q hq; rw [h1] at hq; cases hq
      simp

theorem colonAt_of_peek {inp : Bytes} {pos : Nat} (hp : peek inp pos = some 58) : colonAt inp pos = .ok true := by
  unfold colonAt
  have := peek_lt hp
  rw [if_neg (by omega), hp]
  rfl

theorem parseRules_rule (ign : Bool) {inp : Bytes} {pos p1 p3 : Nat} {r : Nat × Bytes} {d : Nat × List Action}
    (h1 : skipWsC inp pos = .ok p1) (hne : p1 ≠ inp.length) (hw : lexWord inp p1 = .ok r) (hprog : r.1 ≠ p1)
    (h3 : skipNNW inp r.1 = .ok p3) (hcol : colonAt inp p3 = .ok true) (hd : parseDeps inp (p3 + 1) = .ok d) :
    parseRules ign inp pos =
      if ign then .ok (.ruleStart (slice inp p1 r.1) r.2 :: d.2 ++ [.ruleEnd])
      else mapOk ((.ruleStart (slice inp p1 r.1) r.2 :: d.2 ++ [.ruleEnd]) ++ ·) (parseRules ign inp d.1) := by
  conv => lhs; unfold parseRules
  split
  · rename_i hpos
    rw [hpos, skipWsC_end] at h1
    cases h1; exact absurd rfl hne
  · split
    · rename_i e he; rw [h1] at he; cases he
    · rename_i q hq; rw [h1] at hq; cases hq
      split
      · rename_i heq; exact absurd heq hne
      · split
        · rename_i e he; rw [hw] at he; cases he
        · rename_i r' hr'; rw [hw] at hr'; cases hr'
          split
          · rename_i heq; exact absurd heq hprog
          · split
            · rename_i e he; rw [h3] at he; cases he
            · rename_i q3 hq3; rw [h3] at hq3; cases hq3
              split
              · rename_i e he; rw [hcol] at he; cases he
              · rename_i hf; rw [hcol] at hf; cases hf
              · split
                · rename_i e he; rw [hd] at he; cases he
                · rename_i d' hd'; rw [hd] at hd'; cases hd'
                  rfl

/-! ### one written rule -/

theorem validTarget_iff {p : Bytes} (h : validTarget p = true) : p ≠ [] ∧ (∀ c ∈ p, exprByte c = true ∧ c ≠ 58) := by
  simp only [validTarget, Bool.and_eq_true, Bool.not_eq_true', List.isEmpty_eq_false_iff, List.all_eq_true, bne_iff_ne, ne_eq] at h
  exact ⟨h.1, h.2⟩

theorem escape_length_pos {p : Bytes} (hne : p ≠ []) : 0 < (escape p).length := by
  cases p with
  | nil => exact absurd rfl hne
  | cons c p =>
    have := escapeByte_length_pos c
    rw [escape_cons, List.length_append]; omega

/-- the word lemma `lexWord_roundtrip` in cursor form -/
theorem lexWord_roundtrip_at {inp : Bytes} {pos : Nat} {p suffix : Bytes} (hd : inp.drop pos = escape p ++ suffix)
    (hle : pos ≤ inp.length) (hp : ∀ c ∈ p, exprByte c = true ∧ c ≠ 58) (hs : stopsWord suffix = true) :
    lexWord inp pos = .ok (pos + (escape p).length, p) := by
  obtain ⟨pre, hlen, hinp⟩ := split_of_drop hd hle
  have := lexWord_roundtrip p pre suffix hp hs
  rw [← List.append_assoc] at hinp
  rwa [← hinp, hlen] at this

theorem mkRule_eq (r : Rule) (rest : Bytes) : mkRule r.target r.deps r.eol ++ rest =
    escape r.target ++ (58 :: (depsBytes r.deps ++ (eolBytes r.crlf ++ rest))) := by
  simp [mkRule, depsBytes, Rule.eol, eolBytes]

/-- one pass of the rule loop over a written rule: the cursor (after leading whitespace was skipped to `p1`) stands in
front of the rule; the loop reports the rule and continues ON the rule's final line feed -/
theorem parseRules_mkRule (ign : Bool) (r : Rule) (rest : Bytes) {inp : Bytes} {pos p1 : Nat} (hv : r.valid = true)
    (h1 : skipWsC inp pos = .ok p1) (hd : inp.drop p1 = mkRule r.target r.deps r.eol ++ rest) :
    ∃ p' acts, inp.drop p' = 10 :: rest ∧ acts.map Action.event = r.events ∧
      parseRules ign inp pos = if ign then .ok acts else mapOk (acts ++ ·) (parseRules ign inp p') := by
  simp only [Rule.valid, Bool.and_eq_true, List.all_eq_true] at hv
  obtain ⟨hvt, hvd⟩ := hv
  obtain ⟨hne, hp⟩ := validTarget_iff hvt
  rw [mkRule_eq] at hd
  have hpos := escape_length_pos hne
  obtain ⟨c, t, hct, _, _, _⟩ := escape_wordStart hne (fun c hc => (hp c hc).1) (58 :: (depsBytes r.deps ++ (eolBytes r.crlf ++ rest)))
  have hlt : p1 < inp.length := by rw [hct] at hd; exact lt_of_drop hd
  have hw := lexWord_roundtrip_at hd (by omega) hp (by simp [stopsWord, isWordChar, Generated.mdNonWordChars])
  have hd2 := drop_add hd
  have hpk := peek_of_drop hd2
  have h3 : skipNNW inp (p1 + (escape r.target).length) = .ok (p1 + (escape r.target).length) :=
    skipNNW_stop hpk (by decide) (fun h => absurd h (by decide))
  obtain ⟨p', dacts, hpd, hdp, hev⟩ := parseDeps_file r.crlf rest r.deps inp _ hvd (drop_succ hd2)
  have hstep := parseRules_rule ign h1 (by omega) hw (by show p1 + _ ≠ p1; omega) h3 (colonAt_of_peek hpk) hpd
  refine ⟨p', _, hdp, ?_, hstep⟩
  simp [Rule.events, Action.event, hev]

/-! ### the second list induction: the rules of one file -/

theorem parseRules_file : ∀ (rules : List Rule) (inp : Bytes) (pos : Nat), (∀ r ∈ rules, r.valid = true) →
    pos ≤ inp.length → (inp.drop pos = mkDepsFile rules ∨ inp.drop pos = 10 :: mkDepsFile rules) →
    ∃ acts, parseRules false inp pos = .ok acts ∧ acts.map Action.event = rules.flatMap Rule.events := by
  intro rules
  induction rules with
  | nil =>
    intro inp pos _ hle hd
    refine ⟨[], ?_, rfl⟩
    rcases hd with hd | hd
    · have : pos = inp.length := by
        have := congrArg List.length hd
        simp [mkDepsFile] at this; omega
      subst this
      exact parseRules_end false (skipWsC_end inp)
    · have hd' : inp.drop pos = [10] := by simpa [mkDepsFile] using hd
      have hlen : pos + 1 = inp.length := by
        have := congrArg List.length hd'
        simp at this; omega
      apply parseRules_end
      rw [skipWsC_lf (peek_of_drop hd'), hlen]
      exact skipWsC_end inp
  | cons r rs ih =>
    intro inp pos hv hle hd
    have hvr := hv r (by simp)
    have hmk : mkDepsFile (r :: rs) = mkRule r.target r.deps r.eol ++ mkDepsFile rs := by simp [mkDepsFile]
    have hws : wordStart (mkRule r.target r.deps r.eol ++ mkDepsFile rs) := by
      rw [mkRule_eq]
      simp only [Rule.valid, Bool.and_eq_true] at hvr
      obtain ⟨hne, hp⟩ := validTarget_iff hvr.1
      exact escape_wordStart hne (fun c hc => (hp c hc).1) _
    rw [hmk] at hd
    obtain ⟨p1, h1, hd1⟩ : ∃ p1, skipWsC inp pos = .ok p1 ∧ inp.drop p1 = mkRule r.target r.deps r.eol ++ mkDepsFile rs := by
      rcases hd with hd | hd
      · exact ⟨pos, skipWsC_wordStart hd hws, hd⟩
      · refine ⟨pos + 1, ?_, drop_succ hd⟩
        rw [skipWsC_lf (peek_of_drop hd)]
        exact skipWsC_wordStart (drop_succ hd) hws
    obtain ⟨p', acts, hdp, hev, hstep⟩ := parseRules_mkRule false r (mkDepsFile rs) hvr h1 hd1
    obtain ⟨acts', hrec, hev'⟩ := ih inp p' (fun x hx => hv x (by simp [hx])) (Nat.le_of_lt (lt_of_drop hdp)) (Or.inr hdp)
    simp only [Bool.false_eq_true, ↓reduceIte] at hstep
    rw [hrec] at hstep
    exact ⟨acts ++ acts', hstep, by simp [hev, hev']⟩

/-- with `ignoreSubsequentOutputs` the parser stops behind the first rule -/
theorem parseRules_file_ign (r : Rule) (rs : List Rule) (hv : r.valid = true) :
    ∃ acts, parseRules true (mkDepsFile (r :: rs)) 0 = .ok acts ∧ acts.map Action.event = r.events := by
  have hmk : mkDepsFile (r :: rs) = mkRule r.target r.deps r.eol ++ mkDepsFile rs := by simp [mkDepsFile]
  have hd : (mkDepsFile (r :: rs)).drop 0 = mkRule r.target r.deps r.eol ++ mkDepsFile rs := by simpa using hmk
  have hws : wordStart (mkRule r.target r.deps r.eol ++ mkDepsFile rs) := by
    rw [mkRule_eq]
    simp only [Rule.valid, Bool.and_eq_true] at hv
    obtain ⟨hne, hp⟩ := validTarget_iff hv.1
    exact escape_wordStart hne (fun c hc => (hp c hc).1) _
  obtain ⟨p', acts, _, hev, hstep⟩ := parseRules_mkRule true r (mkDepsFile rs) hv (skipWsC_wordStart hd hws) hd
  exact ⟨acts, by simpa using hstep, hev⟩

/-! ### what `ShellCommand` sees of a stream, through its events -/

def Event.isError : Event → Bool
  | .error _ _ => true
  | _ => false

def Event.depPath? : Event → Option Bytes
  | .dep p => some p
  | _ => none

theorem numErrors_eq_events (acts : List Action) :
    numErrors acts = ((acts.map Action.event).filter Event.isError).length := by
  unfold numErrors
  induction acts with
  | nil => rfl
  | cons a acts ih =>
    cases a <;> simp [Action.event, Event.isError, List.filter_cons] at ih ⊢ <;> exact ih

theorem discovered_eq_events (wd : Bytes) (acts : List Action) :
    discovered wd acts = (acts.map Action.event).filterMap (fun e => e.depPath?.map (resolve wd)) := by
  unfold discovered
  induction acts with
  | nil => rfl
  | cons a acts ih =>
    cases a <;> simp [Action.event, Event.depPath?] at ih ⊢ <;> exact ih

theorem Rule.events_no_error (rules : List Rule) : (rules.flatMap Rule.events).filter Event.isError = [] := by
  induction rules with
  | nil => rfl
  | cons r rs ih =>
    simp only [List.flatMap_cons, List.filter_append, ih, List.append_nil]
    simp [Rule.events, Event.isError, List.filter_map, List.filter_eq_nil_iff]

theorem Rule.events_deps (wd : Bytes) (rules : List Rule) :
    (rules.flatMap Rule.events).filterMap (fun e => e.depPath?.map (resolve wd)) =
      rules.flatMap (fun r => r.deps.map (fun d => resolve wd d.2)) := by
  induction rules with
  | nil => rfl
  | cons r rs ih =>
    simp only [List.flatMap_cons, List.filterMap_append, ih]
    congr 1
    simp [Rule.events, Event.depPath?, List.filterMap_map]
    induction r.deps with
    | nil => rfl
    | cons d ds ihd => simp [ihd]

end LLBuild.MakeDeps
