/-
Helper lemmas for C08: tasks with a static request list (every task of the BuildSystem client), and the
determinism of `Clean` for the client (`clean_is_eval`).
-/
import LLBuild.Lemmas.Engine.Defs
import LLBuild.Model.BuildSystemClient

namespace LLBuild.BuildSystemClient
open LLBuild.Engine
open LLBuild.Generated.BuildSystemRules

theorem getRecv_insertRecv (r : Recv) (id id' : Nat) (v : Val) :
    getRecv (insertRecv id' v r) id = if id' = id then some v else getRecv r id := by
  induction r with
  | nil => simp [insertRecv, getRecv]
  | cons p rest ih =>
    obtain ⟨i, w⟩ := p
    simp only [insertRecv]
    by_cases h1 : id' < i
    · simp only [h1, if_true, getRecv]
    · simp only [h1, if_false]
      by_cases h2 : id' = i
      · subst h2
        simp only [if_true, getRecv]
        by_cases h3 : id' = id
        · simp [h3]
        · simp [h3]
      · simp only [h2, if_false, getRecv, ih]
        by_cases h3 : id' = id
        · subst h3
          have : ¬ i = id' := fun e => h2 e.symm
          simp [this]
        · simp [h3]

theorem getRecv_recvOf (seq : Seq) (id : Nat) :
    getRecv (recvOf seq) id = (seq.find? (fun e => e.1.id == id)).map (fun e => maskVal e.1 e.2) := by
  induction seq with
  | nil => simp [recvOf, getRecv]
  | cons e rest ih =>
    obtain ⟨q, v⟩ := e
    simp only [recvOf, getRecv_insertRecv, List.find?_cons]
    by_cases h : q.id = id
    · simp [h]
    · have hb : (q.id == id) = false := by simpa using h
      simp [h, hb, ih]

/-! ### tasks whose request list does not depend on what they received -/
section Static
variable {P : Program} {k : Key} {L : List Req}

theorem mem_issuedAfter (hs : ∀ recv, P.next k recv = L) (seq : Seq) (q : Req) :
    q ∈ issuedAfter P k seq ↔ q ∈ L := by
  induction seq with
  | nil => simp [issuedAfter, hs, List.mem_eraseDups]
  | cons e rest ih =>
    obtain ⟨q', v⟩ := e
    simp only [issuedAfter, List.mem_append, List.mem_eraseDups, List.mem_filter, hs, ih]
    constructor
    · rintro (h | ⟨h, _⟩) <;> exact h
    · intro h; exact Or.inl h

theorem validSeq_mem (hs : ∀ recv, P.next k recv = L) {seq : Seq} (hv : validSeq P k seq = true)
    {q : Req} {v : Val} (hm : (q, v) ∈ seq) : q ∈ L := by
  induction seq with
  | nil => cases hm
  | cons e rest ih =>
    obtain ⟨q', v'⟩ := e
    simp only [validSeq, Bool.and_eq_true] at hv
    obtain ⟨⟨⟨h1, h2⟩, _⟩, _⟩ := hv
    rcases List.mem_cons.1 hm with h | h
    · cases h
      exact (mem_issuedAfter hs rest q).1 (by simpa using h2)
    · exact ih h1 h

theorem complete_delivered (hs : ∀ recv, P.next k recv = L) {seq : Seq} (hc : completeSeq P k seq = true)
    {q : Req} (hq : q ∈ L) (hk : q.kind = 0) : ∃ v, (q, v) ∈ seq := by
  unfold completeSeq at hc
  have h := List.all_eq_true.1 hc q ((mem_issuedAfter hs seq q).2 hq)
  simp only [hk, Bool.or_eq_true] at h
  rcases h with h | h
  · simp at h
  · unfold delivered at h
    obtain ⟨e, he, heq⟩ := List.any_eq_true.1 h
    have : e.1 = q := by simpa using heq
    exact ⟨e.2, by rw [← this]; exact he⟩

/-- a value-carrying request of a completed task was delivered, and what the task finds under its id is that value -/
theorem static_recv (hs : ∀ recv, P.next k recv = L) {seq : Seq} (hv : validSeq P k seq = true)
    (hc : completeSeq P k seq = true) {q : Req} (hq : q ∈ L) (hk : q.kind = 0)
    (hid : ∀ q' ∈ L, q'.id = q.id → q' = q) :
    ∃ v, (q, v) ∈ seq ∧ getRecv (recvOf seq) q.id = some v := by
  obtain ⟨v0, h0⟩ := complete_delivered hs hc hq hk
  rw [getRecv_recvOf]
  cases hf : seq.find? (fun e => e.1.id == q.id) with
  | none =>
    have := List.find?_eq_none.1 hf (q, v0) h0
    simp at this
  | some e =>
    have hin := List.mem_of_find?_eq_some hf
    have hp := List.find?_some hf
    have hid' : e.1.id = q.id := by simpa using hp
    have hL : e.1 ∈ L := validSeq_mem hs hv (q := e.1) (v := e.2) hin
    have he : e.1 = q := hid e.1 hL hid'
    refine ⟨e.2, ?_, ?_⟩
    · rw [← he]; exact hin
    · simp [maskVal, he, hk]

end Static

/-! ### request lists of the client -/
theorem mem_reqsFrom {kind : Nat} {ns : List Nat} {s : Nat} {q : Req} :
    q ∈ reqsFrom kind s ns ↔ ∃ i n, ns[i]? = some n ∧ q = ⟨nodeKey n, s + i, kind⟩ := by
  induction ns generalizing s with
  | nil => simp [reqsFrom]
  | cons n ns ih =>
    simp only [reqsFrom, List.mem_cons, ih]
    constructor
    · rintro (h | ⟨i, m, hi, hq⟩)
      · exact ⟨0, n, by simp, by simpa using h⟩
      · exact ⟨i + 1, m, by simpa using hi, by rw [hq]; congr 1; omega⟩
    · rintro ⟨i, m, hi, hq⟩
      cases i with
      | zero =>
        left
        simp at hi
        rw [hq, ← hi]; rfl
      | succ i =>
        right
        exact ⟨i, m, by simpa using hi, by rw [hq]; congr 1; omega⟩

theorem reqsFrom_id_inj {kind : Nat} {ns : List Nat} {s : Nat} {q q' : Req}
    (h : q ∈ reqsFrom kind s ns) (h' : q' ∈ reqsFrom kind s ns) (hid : q'.id = q.id) : q' = q := by
  obtain ⟨i, n, hi, rfl⟩ := mem_reqsFrom.1 h
  obtain ⟨i', n', hi', rfl⟩ := mem_reqsFrom.1 h'
  have : i' = i := by simp at hid; omega
  subst this
  rw [hi] at hi'
  cases hi'
  rfl

theorem allSome_mem {f : Nat → Option Val} {js : List Nat} (h : allSome f js = true) {j : Nat} (hj : j ∈ js) :
    (f j).isSome = true := by
  induction js with
  | nil => cases hj
  | cons a as ih =>
    simp only [allSome, Bool.and_eq_true] at h
    rcases List.mem_cons.1 hj with rfl | h'
    · exact h.1
    · exact ih h.2 h'

theorem foldInputs_congr (c : Cmd) (g g' : Nat → Option Val) (js : List Nat) (h : Nat)
    (hg : ∀ j ∈ js, g j = g' j) : foldInputs c g js h = foldInputs c g' js h := by
  induction js generalizing h with
  | nil => rfl
  | cons j js ih =>
    have hj := hg j List.mem_cons_self
    have hrest : ∀ x ∈ js, g x = g' x := fun x hx => hg x (List.mem_cons_of_mem _ hx)
    simp only [foldInputs, hj]
    cases g' j with
    | none => rfl
    | some v =>
      simp only []
      split
      · rfl
      · split
        · exact ih _ hrest
        · exact ih _ hrest

theorem cmdOut_congr (c : Cmd) (g g' : Nat → Option Val)
    (hg : ∀ j, j < c.inputs.length → g j = g' j) : cmdOut c g = cmdOut c g' := by
  have h : ∀ h0, foldInputs c g (List.range c.inputs.length) h0 = foldInputs c g' (List.range c.inputs.length) h0 :=
    fun h0 => foldInputs_congr c g g' _ h0 (fun j hj => hg j (List.mem_range.1 hj))
  unfold cmdOut
  cases c.tool <;> simp only [h]

theorem client_next (H : List Nat → Nat) (d : Desc) (k : Key) (recv : Recv) : (client H d).next k recv = nextOf d k := rfl
theorem client_out (H : List Nat → Nat) (d : Desc) : (client H d).out = outOf d := rfl

/-- `Clean` is functional for the client and `cleanEval` computes it: whatever a brand-new engine can return for a
key is the value the evaluator finds (when its fuel suffices). -/
theorem clean_is_eval (H : List Nat → Nat) (d : Desc) (env : Env) :
    ∀ (f : Nat) (k : Key) (v w : Val), Clean (client H d) env k v → cleanEval d env f k = some w → v = w := by
  intro f
  induction f with
  | zero => intro k v w _ he; simp [cleanEval] at he
  | succ f ih =>
    intro k v w hc he
    cases hc with
    | mk _ seq hv hcm hin =>
      have hs : ∀ recv, (client H d).next k recv = nextOf d k := fun _ => rfl
      rw [client_out]
      unfold cleanEval at he
      unfold outOf
      cases hr : ruleOf d k <;> simp only [hr] at he ⊢
      case directoryInputNodeTask => cases he
      case directoryStructureInputNodeTask => cases he
      case producedDirectoryNodeTask => cases he
      case abort => cases he
      case fileInputNodeTask => exact Option.some.inj he
      case virtualInputNodeTask => exact Option.some.inj he
      case missingCommandTask => exact Option.some.inj he
      case targetTask => exact Option.some.inj he
      case producedNodeTask =>
        cases hp : d.producers (k / 3) with
        | nil => simp only [hp] at he ⊢; exact Option.some.inj he
        | cons c rest =>
          cases rest with
          | cons c2 r2 => simp only [hp] at he ⊢; exact Option.some.inj he
          | nil =>
            simp only [hp] at he ⊢
            have hL : nextOf d k = [⟨cmdKey c, 0, 0⟩] := by simp [nextOf, hr, hp]
            have hs' : ∀ recv, (client H d).next k recv = [⟨cmdKey c, 0, 0⟩] := fun r => by rw [hs r, hL]
            obtain ⟨cv, hmem, hget⟩ := static_recv hs' hv hcm (q := ⟨cmdKey c, 0, 0⟩) (by simp) rfl
              (by intro q' hq' _; simpa using hq')
            have hcl := hin _ _ hmem rfl
            simp only [] at hget
            rw [hget]
            cases hce : cleanEval d env f (cmdKey c) with
            | none => simp [hce] at he
            | some cw =>
              simp only [hce] at he
              have : cv = cw := ih _ _ _ hcl hce
              rw [this]
              exact Option.some.inj he
      case commandTask =>
        by_cases hsym : (d.cmd (k / 3)).tool = .symlink
        · simp only [hsym, if_true] at he
          rw [← Option.some.inj he]
          simp [cmdOut, hsym]
        · simp only [hsym, if_false] at he
          split at he
          · rename_i hall
            rw [← Option.some.inj he]
            apply cmdOut_congr
            intro j hj
            have hL : nextOf d k = reqsFrom 0 0 (d.cmd (k / 3)).inputs := by simp [nextOf, hr, hsym]
            have hs' : ∀ recv, (client H d).next k recv = reqsFrom 0 0 (d.cmd (k / 3)).inputs := fun r => by rw [hs r, hL]
            have hn : (d.cmd (k / 3)).inputs[j]? = some ((d.cmd (k / 3)).inputs[j]) := List.getElem?_eq_getElem hj
            have hq : (⟨nodeKey ((d.cmd (k / 3)).inputs[j]), j, 0⟩ : Req) ∈ reqsFrom 0 0 (d.cmd (k / 3)).inputs :=
              mem_reqsFrom.2 ⟨j, _, hn, by simp⟩
            obtain ⟨vj, hmem, hget⟩ := static_recv hs' hv hcm hq rfl (fun q' hq' hid => reqsFrom_id_inj hq hq' hid)
            have hcl := hin _ _ hmem rfl
            simp only [] at hget hcl
            rw [hget]
            have hsome := allSome_mem hall (List.mem_range.2 hj)
            simp only [hn] at hsome ⊢
            cases hce : cleanEval d env f (nodeKey ((d.cmd (k / 3)).inputs[j])) with
            | none => simp [hce] at hsome
            | some wj => rw [ih _ _ _ hcl hce]
          · cases he

end LLBuild.BuildSystemClient
