/-
C10 (engine level): helper lemmas for showing that the BuildSystem's rule set (`BuildSystemClient.client`, the
client model of C08) has the failure facts of `Engine.FailureClient`: what a task finds under a request id when the
request was delivered, `foldInputs` on a failed input, the key classes, and `Program.Det` for the client.
-/
import LLBuild.Lemmas.BuildSystemClient
import LLBuild.Lemmas.Engine.Determinism

set_option linter.unusedVariables false

namespace LLBuild.BuildSystemClient
open LLBuild.Engine
open LLBuild.Generated.BuildSystemRules

/-- a request is delivered at most once, so the value delivered for it is unique -/
theorem validSeq_value_unique {P : Program} {k : Key} : ∀ (seq : Seq), validSeq P k seq = true →
    ∀ (q : Req) (v v' : Val), (q, v) ∈ seq → (q, v') ∈ seq → v = v'
  | [], _, q, v, v', h, _ => by cases h
  | (a, b) :: rest, hv, q, v, v', h, h' => by
    simp only [validSeq, Bool.and_eq_true] at hv
    obtain ⟨⟨⟨hvr, _⟩, _⟩, hnd⟩ := hv
    have hno : ∀ w, (a, w) ∉ rest := by
      intro w hw
      have := (delivered_iff rest a).2 ⟨w, hw⟩
      simp [this] at hnd
    rcases List.mem_cons.1 h with e | e <;> rcases List.mem_cons.1 h' with e' | e'
    · cases e; cases e'; rfl
    · cases e; exact absurd e' (hno v')
    · cases e'; exact absurd e (hno v)
    · exact validSeq_value_unique rest hvr q v v' e e'

/-- what a task with a static request list finds under the id of a delivered value-carrying request is the value
that was delivered (no completeness needed) -/
theorem delivered_recv {P : Program} {k : Key} {L : List Req} (hs : ∀ recv, P.next k recv = L) {seq : Seq}
    (hv : validSeq P k seq = true) {q : Req} {v : Val} (hm : (q, v) ∈ seq) (hk : q.kind = 0)
    (hid : ∀ q' ∈ L, q'.id = q.id → q' = q) : getRecv (recvOf seq) q.id = some v := by
  rw [getRecv_recvOf]
  cases hf : seq.find? (fun e => e.1.id == q.id) with
  | none =>
    have := List.find?_eq_none.1 hf (q, v) hm
    simp at this
  | some e =>
    have hin := List.mem_of_find?_eq_some hf
    have hp := List.find?_some hf
    have hid' : e.1.id = q.id := by simpa using hp
    have hL : e.1 ∈ L := validSeq_mem hs hv (q := e.1) (v := e.2) hin
    have he : e.1 = q := hid e.1 hL hid'
    have hin' : (q, e.2) ∈ seq := by rw [← he]; exact hin
    have : e.2 = v := validSeq_value_unique seq hv q e.2 v hin' hm
    simp [maskVal, he, hk, this]

/-- a failed (or missing) input anywhere among the positions folded makes `provideValue`'s fold skip -/
theorem foldInputs_failed (c : Cmd) (get : Nat → Option Val) {j : Nat} (hj : get j = some vFailedInput) :
    ∀ (js : List Nat) (h : Nat), j ∈ js → foldInputs c get js h = none
  | [], _, hm => by cases hm
  | j0 :: js, h, hm => by
    simp only [foldInputs]
    cases hg : get j0 with
    | none => rfl
    | some v0 =>
      simp only []
      by_cases hb : v0 = vMissingInput ∨ v0 = vFailedInput
      · simp [hb]
      · have hne : j ≠ j0 := by
          intro e; subst e; rw [hj] at hg; cases hg; exact hb (Or.inr rfl)
        have hin : j ∈ js := by
          rcases List.mem_cons.1 hm with e | e
          · exact absurd e hne
          · exact e
        simp only [hb, if_false]
        split
        · exact foldInputs_failed c get hj js _ hin
        · exact foldInputs_failed c get hj js _ hin

/-- a command that is handed a failed input at a declared position completes with the failure value
(skip block of `ExternalCommand::execute`); the symlink command reads no input values -/
theorem cmdOut_failed (c : Cmd) (get : Nat → Option Val) {j : Nat} (hlt : j < c.inputs.length)
    (hj : get j = some vFailedInput) (hsym : c.tool ≠ .symlink) : cmdOut c get = vFailedCmd := by
  have h := fun h0 => foldInputs_failed c get hj (List.range c.inputs.length) h0 (List.mem_range.2 hlt)
  unfold cmdOut
  cases ht : c.tool <;> simp only [h]
  exact absurd ht hsym

/-! ### key classes -/
theorem ruleOf_command {d : Desc} {k : Key} (h : ruleOf d k = .commandTask) : k % 3 = 1 := by
  unfold ruleOf at h
  split at h
  · exfalso
    unfold nodeRule at h
    cases hb1 : (!(d.producers (k / 3)).isEmpty) <;> cases hb2 : d.isVirtual (k / 3) <;> simp [hb1, hb2] at h
  · split at h
    · assumption
    · exfalso
      unfold targetRule at h
      cases hb : decide (k / 3 < d.targets.length) <;> simp [hb] at h

theorem ruleOf_produced {d : Desc} {k : Key} (h : ruleOf d k = .producedNodeTask) : k % 3 = 0 := by
  unfold ruleOf at h
  split at h
  · assumption
  · exfalso
    split at h
    · unfold commandRule at h
      cases hb : decide (k / 3 < d.cmds.length) <;> simp [hb] at h
    · unfold targetRule at h
      cases hb : decide (k / 3 < d.targets.length) <;> simp [hb] at h

theorem ruleOf_mod1 (d : Desc) {k : Key} (h : k % 3 = 1) :
    ruleOf d k = .commandTask ∨ ruleOf d k = .missingCommandTask := by
  unfold ruleOf
  simp only [h, if_true, commandRule]
  cases hb : decide (k / 3 < d.cmds.length) <;> simp

/-! ### requests of the client are deterministic -/
theorem mem_reqsFrom_kind {kind : Nat} {ns : List Nat} {s : Nat} {q : Req} (h : q ∈ reqsFrom kind s ns) :
    q.kind = kind := by
  obtain ⟨i, n, _, rfl⟩ := mem_reqsFrom.1 h
  rfl

theorem nextOf_id_inj (d : Desc) (k : Key) {q q' : Req} (h : q ∈ nextOf d k) (h' : q' ∈ nextOf d k)
    (hid : q'.id = q.id) : q' = q := by
  unfold nextOf at h h'
  cases hr : ruleOf d k <;> simp only [hr] at h h' <;> try (cases h; done)
  case producedNodeTask =>
    cases hp : d.producers (k / 3) with
    | nil => simp only [hp] at h; cases h
    | cons c rest =>
      cases rest with
      | nil =>
        simp only [hp, List.mem_singleton] at h h'
        rw [h, h']
      | cons c2 r2 => simp only [hp] at h; cases h
  case commandTask => exact reqsFrom_id_inj h h' hid
  case targetTask => exact reqsFrom_id_inj h h' hid

theorem nextOf_kind (d : Desc) (k : Key) {q : Req} (h : q ∈ nextOf d k) : q.kind ≤ 2 := by
  unfold nextOf at h
  cases hr : ruleOf d k <;> simp only [hr] at h <;> try (cases h; done)
  case producedNodeTask =>
    cases hp : d.producers (k / 3) with
    | nil => simp only [hp] at h; cases h
    | cons c rest =>
      cases rest with
      | nil =>
        simp only [hp, List.mem_singleton] at h
        rw [h]; exact Nat.zero_le 2
      | cons c2 r2 => simp only [hp] at h; cases h
  case commandTask =>
    rw [mem_reqsFrom_kind h]; split <;> decide
  case targetTask =>
    rw [mem_reqsFrom_kind h]; decide

/-- the BuildSystem's tasks issue a fixed request list with distinct ids: `Clean` is single-valued for it -/
theorem client_Det (H : List Nat → Nat) (d : Desc) : (client H d).Det :=
  ⟨⟨fun k r r' _ _ _ q hq => hq, fun k r q q' hq hq' hid => (nextOf_id_inj d k hq hq' hid.symm).symm⟩,
   fun k r q hq => nextOf_kind d k hq⟩

end LLBuild.BuildSystemClient
