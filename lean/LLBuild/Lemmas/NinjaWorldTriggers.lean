/-
The converse of minimality: in a build that reports no failure, every needed real command that reads a "hot" file - a
file this build rewrote, or a source file whose input rule changed at this build and whose stamp is above the stamps of
all outputs (i.e. it was written after the last build) - is executed.  Through phony aliases too.
-/
import LLBuild.Lemmas.NinjaWorldRuns

namespace LLBuild.NinjaWorld
open LLBuild.NinjaBuild LLBuild.NinjaBuild.Gen

/-- `f` is hot in `w'` (a world of the build that started from `w`, epoch `E`, threshold `T`) -/
def Hot (cs : List Command) (E T : Nat) (w w' : World) (f : Path) : Prop :=
  w'.files f ≠ w.files f ∨
  (producer cs f = none ∧ (∃ r, w'.srcDb f = some r ∧ E ≤ r.computedAt) ∧ ∃ g, w.files f = some g ∧ T < g.stamp)

/-- the view of key `k` changed at epoch `E` (or later), and the value handed to consumers is no file or a file stamped above `T` -/
def HotKey (cs : List Command) (E T : Nat) (w' : World) (k : Path) : Prop :=
  ∃ x, resOf cs w' k = some x ∧ E ≤ x.computedAt ∧
    (x.value.outputInfo.isMissing = true ∨ T < x.value.outputInfo.mtime.sec)

/-- what resolving a key yields is the key itself or an input of an earlier (phony) command -/
theorem At.resolve_not_out {cs before rest : List Command} {c : Command} (hat : At cs before c rest) {k f : Path}
    (hk : producer cs k = none ∨ ∃ q ∈ before, k ∈ q.outs) (hf : f ∈ resolve before k) : f ∉ c.outs := by
  rcases resolve_mem before k f hf with rfl | ⟨q, hq, hfq⟩
  · rcases hk with h | ⟨q, hq, hfq⟩
    · intro hc; rw [hat.producer_out hc] at h; cases h
    · intro hc
      have := hat.cmdWF.outs_before f hc
      rw [producer_none_iff] at this
      exact this q hq hfq
  · obtain ⟨b, r, hatq, _, hcr, _⟩ := hat.of_before hq
    have := hatq.cmdWF.ins_rest f (by simp only [List.mem_append] at hfq ⊢; rcases hfq with h | h <;> simp [h])
    rw [producer_none_iff] at this
    exact this c hcr

/-- the files the build has written so far carry stamps above the clock it started with -/
theorem runTask_stamps {m : Manifest} {before rest : List Command} {c : Command} {w' : World} {E : Nat} (hat : At m.cmds before c rest)
    (p : Path) : (runTask m before E c w').1.files p = w'.files p ∨
      ∃ x s, (runTask m before E c w').1.files p = some ⟨x, s⟩ ∧ w'.clock < s ∧ (runTask m before E c w').2 = .executed := by
  cases hd : decisionOf m.cmds w' c with
  | complete v force => rw [runTask_complete hd]; exact Or.inl rfl
  | execute =>
    cases hf : w'.failing c.name with
    | true => rw [runTask_fail hd hf]; exact Or.inl rfl
    | false =>
      rw [runTask_exec hd hf]
      simp only [setCmd_files]
      by_cases hp : p ∈ c.outs
      · rcases written_file_cases m before c w' hat.cmdWF.nodup hp with ⟨h1, _, _⟩ | ⟨s, h1, h2, _⟩
        · exact Or.inl h1
        · exact Or.inr ⟨_, s, h1, h2, trivial⟩
      · exact Or.inl (written_files_other m before c w' hp)

theorem runTask_clock {m : Manifest} {before : List Command} {c : Command} {w' : World} {E : Nat} :
    w'.clock ≤ (runTask m before E c w').1.clock := (runTask_frame m before E c w').clock

/-- the invariant of the converse: hot keys have hot views, and what reads a hot file has been executed -/
structure CInv (m : Manifest) (d : List Path) (E T : Nat) (w : World) (before : List Command) (w' : World)
    (log : List (Nat × Did)) : Prop where
  binv : BuildInv m E before w'
  clock : w.clock ≤ w'.clock
  rest_files : ∀ q ∈ m.cmds, q ∉ before → ∀ o ∈ q.outs, w'.files o = w.files o
  stamps : ∀ p, w'.files p = w.files p ∨ ∃ x s, w'.files p = some ⟨x, s⟩ ∧ w.clock < s
  hotkey : buildFailed log = false → ∀ k ∈ d, (producer m.cmds k = none ∨ ∃ q ∈ before, k ∈ q.outs) →
    (∃ f ∈ resolve before k, Hot m.cmds E T w w' f) → HotKey m.cmds E T w' k
  ran : buildFailed log = false → ∀ q b r, At m.cmds b q r → q ∈ before → q.phony = false → q.neededIn d = true →
    (∃ f ∈ readsOf b q, Hot m.cmds E T w w' f) → (q.name, Did.executed) ∈ log

theorem hot_congr {cs : List Command} {E T : Nat} {w w1 w2 : World} {f : Path} (hf : w2.files f = w1.files f)
    (hs : w2.srcDb = w1.srcDb) : Hot cs E T w w2 f ↔ Hot cs E T w w1 f := by
  simp only [Hot, hf, hs]

/-- the value a successful execution leaves for an output it rewrote -/
theorem hotKey_of_executed {m : Manifest} {before rest : List Command} {c : Command} {w w' : World} {T : Nat}
    (hat : At m.cmds before c rest) (h0 : Inv0 m.cmds w') (hTc : T ≤ w.clock) (hcl : w.clock ≤ w'.clock)
    (hdid : (runTask m before w'.epoch c w').2 ≠ .failed ∧ (runTask m before w'.epoch c w').2 ≠ .skipped) (hp : c.phony = false)
    {o : Path} (ho : o ∈ c.outs) (hch : (runTask m before w'.epoch c w').1.files o ≠ w'.files o) :
    HotKey m.cmds w'.epoch T (runTask m before w'.epoch c w').1 o := by
  have hwf := hat.wf
  have h0' := h0.run_task m rfl hwf hat
  obtain ⟨r, hr, _, _, hvalid⟩ := runTask_ok hat hdid
  have hfr := runTask_frame m before w'.epoch c w'
  have hvalid' : commandIsResultValid (kOf (runTask m before w'.epoch c w').1 c) r.value
      (c.outs.map (runTask m before w'.epoch c w').1.info) = .valid := by
    simp only [kOf, hfr.cmdline]; exact hvalid
  obtain ⟨x, hx, _, hsame, hmiss⟩ := settled_of_valid hwf h0' hat.mem hp hr hvalid' ho
  rcases runTask_key hat h0 ho with ⟨h1, _⟩ | ⟨x', hx', hxe⟩
  · exact absurd h1 hch
  · rw [hx] at hx'; cases hx'
    refine ⟨x, hx, hxe, Or.inr ?_⟩
    rcases runTask_stamps (E := w'.epoch) hat o with h1 | ⟨y, s, h1, h2, _⟩
    · exact absurd h1 hch
    · have hm := same_mtime hsame
      have : ((runTask m before w'.epoch c w').1.info o).mtime.sec = s := info_stamp_of_files h1
      rw [hm, this]
      omega

theorem buildFailed_single {n : Nat} {x : Did} (h : buildFailed [(n, x)] = false) : x ≠ .failed ∧ x ≠ .skipped := by
  simp only [buildFailed, List.any_cons, List.any_nil, Bool.or_false, Bool.or_eq_false_iff, beq_eq_false_iff_ne, ne_eq] at h
  exact h

theorem ts_le_sec {a b : TS} (h : a.le b = true) : a.sec ≤ b.sec := by
  rw [TS.le_iff] at h; omega

/-- a hot key among the inputs of a real command makes its task run and keeps the shortcut from firing -/
theorem hot_input_runs {m : Manifest} {d : List Path} {E T : Nat} {w : World} {before rest : List Command} {c : Command} {w' : World}
    (hat : At m.cmds before c rest) (hbinv : BuildInv m E before w') (hrest : ∀ o ∈ c.outs, w'.files o = w.files o)
    (hTout : ∀ o ∈ c.outs, ∀ g, w.files o = some g → g.stamp ≤ T) (hp : c.phony = false) (hn : c.neededIn d = true)
    {k : Path} (hk : k ∈ depKeys c) (hhot : HotKey m.cmds E T w' k) :
    (stepCmd m d E before c w').2 = [(c.name, .skipped)] ∨
    (stepCmd m d E before c w').2 = [(c.name, .failed)] ∨ (stepCmd m d E before c w').2 = [(c.name, .executed)] := by
  obtain ⟨x, hx, hxe, hval⟩ := hhot
  have hnt : needsTask m.cmds w' c = true := by
    rw [needsTask_static (hbinv.inv.d.depsInv c hat.mem)]
    unfold needsTaskS
    cases hr : w'.cmdDb c.name with
    | none => rfl
    | some r =>
      simp only [Bool.or_eq_true, bne_iff_ne, ne_eq]
      right
      rw [triggers_storedDeps, List.any_eq_true]
      refine ⟨k, hk, ?_⟩
      have := hbinv.unbuilt c hat.mem (hat.not_mem_before List.mem_cons_self) r hr
      simp only [hx, rebuiltSince, decide_eq_true_eq]
      omega
  have hs : shortcut {} (kOf w' c) (accOf m.cmds w' c) ((priorRow w' c).map (·.value)) (c.outs.map w'.info) = false := by
    cases hdeps : c.hasDeps with
    | true => exact C18_deps_never_shortcut {} (kOf w' c) (insOf m.cmds w' c) _ _ hdeps
    | false =>
      have hk' : k ∈ c.exp ++ c.imp := by simpa [depKeys, hdeps] using hk
      cases hsc : shortcut {} (kOf w' c) (accOf m.cmds w' c) ((priorRow w' c).map (·.value)) (c.outs.map w'.info) with
      | false => rfl
      | true =>
        exfalso
        have hvmem : valueOf m.cmds w' k ∈ (insOf m.cmds w' c).explicit ∨ valueOf m.cmds w' k ∈ (insOf m.cmds w' c).implicit := by
          simp only [insOf, List.mem_map]
          rcases List.mem_append.1 hk' with h1 | h1
          · exact Or.inl ⟨k, h1, rfl⟩
          · exact Or.inr ⟨k, h1, rfl⟩
        have hvx : valueOf m.cmds w' k = x.value := by simp [valueOf, hx]
        cases hok : okInputKinds.contains (valueOf m.cmds w' k).kind with
        | false =>
          have hmem : valueOf m.cmds w' k ∈ received (insOf m.cmds w' c) := by rw [received_eq]; exact List.mem_append.2 hvmem
          have := foldl_can_bad _ (Acc.init (kOf w' c)) _ hmem hok
          simp only [shortcut, accOf, accumulate, this, Bool.false_and] at hsc
          cases hsc
        | true =>
          obtain ⟨o0, ho0⟩ : ∃ o, o ∈ c.outs := by
            cases hco : c.outs with
            | nil => exact absurd hco hat.cmdWF.outs_ne
            | cons a l => exact ⟨a, by simp⟩
          have := C18_shortcut_outputs_not_older {} (kOf w' c) (insOf m.cmds w' c) _ _ hsc _ hvmem hok (w'.info o0)
            (List.mem_map.2 ⟨o0, ho0, rfl⟩)
          rw [hvx] at this
          rcases hval with hm | hT
          · rw [hm] at this; cases this.1
          · obtain ⟨g, hg, hgm⟩ := info_of_exists this.2.1
            have hle := ts_le_sec this.2.2.1
            rw [hgm] at hle
            have := hTout o0 ho0 g (by rw [← hrest o0 ho0]; exact hg)
            simp at hle
            omega
  rcases step_runs (E := E) (before := before) hn hnt hp hs with h1 | ⟨_, h1⟩ | ⟨_, h1⟩
  · exact Or.inl h1
  · exact Or.inr (Or.inl h1)
  · exact Or.inr (Or.inr h1)

theorem CInv.step {m : Manifest} {targets : List Path} {E T : Nat} {w : World} {before rest : List Command} {c : Command}
    {w' : World} {log : List (Nat × Did)} (hwf : wfFrom [] m.cmds = true) (hat : At m.cmds before c rest) (hT : T ≤ w.clock)
    (hTout : ∀ q ∈ m.cmds, ∀ o ∈ q.outs, ∀ g, w.files o = some g → g.stamp ≤ T)
    (h : CInv m (demanded m targets) E T w before w' log) :
    CInv m (demanded m targets) E T w (c :: before) (stepCmd m (demanded m targets) E before c w').1
      (log ++ (stepCmd m (demanded m targets) E before c w').2) := by
  have hfr := stepCmd_frame m (demanded m targets) E before c w'
  have hE := h.binv.epoch
  have hcrest : ∀ o ∈ c.outs, w'.files o = w.files o :=
    h.rest_files c hat.mem (hat.not_mem_before List.mem_cons_self)
  have hhotc : ∀ {k f : Path}, (producer m.cmds k = none ∨ ∃ q ∈ before, k ∈ q.outs) → f ∈ resolve before k →
      (Hot m.cmds E T w (stepCmd m (demanded m targets) E before c w').1 f ↔ Hot m.cmds E T w w' f) :=
    fun hk hf => hot_congr (hfr.files _ (hat.resolve_not_out hk hf)) hfr.srcDb
  -- what the step logs
  have hlogc : (stepCmd m (demanded m targets) E before c w').2 = [] ∧ (stepCmd m (demanded m targets) E before c w').1 = w' ∨
      (stepCmd m (demanded m targets) E before c w').2 = [(c.name, (runTask m before E c w').2)] ∧
      (stepCmd m (demanded m targets) E before c w').1 = (runTask m before E c w').1 := by
    unfold stepCmd
    split
    · exact Or.inr ⟨rfl, rfl⟩
    · exact Or.inl ⟨rfl, rfl⟩
  refine ⟨h.binv.step hat, Nat.le_trans h.clock hfr.clock, ?_, ?_, ?_, ?_⟩
  · intro q hq hqn o ho
    have hqc : q ≠ c := fun e => hqn (e ▸ List.mem_cons_self)
    rw [hfr.files o (fun hoc => by
      have h1 := producer_of_mem hwf hq ho
      rw [hat.producer_out hoc] at h1; cases h1; exact hqc rfl)]
    exact h.rest_files q hq (fun hqb => hqn (List.mem_cons_of_mem _ hqb)) o ho
  · intro p
    rcases hlogc with ⟨_, h2⟩ | ⟨_, h2⟩
    · rw [h2]; exact h.stamps p
    · rw [h2]
      rcases runTask_stamps (E := E) hat p with h1 | ⟨x, s, h1, h3, _⟩
      · rw [h1]; exact h.stamps p
      · exact Or.inr ⟨x, s, h1, Nat.lt_of_le_of_lt h.clock h3⟩
  · -- hot keys
    intro hlog k hk hsrc hex
    rw [buildFailed_append, Bool.or_eq_false_iff] at hlog
    by_cases hko : k ∈ c.outs
    · have hneed : c.neededIn (demanded m targets) = true := needed_of_demanded hko hk
      cases hp : c.phony with
      | false =>
        rw [resolve_real hko hp] at hex
        obtain ⟨f, hf, hhot⟩ := hex
        simp only [List.mem_singleton] at hf
        subst hf
        have hch : (stepCmd m (demanded m targets) E before c w').1.files f ≠ w'.files f := by
          rcases hhot with h1 | ⟨h1, _⟩
          · rw [hcrest f hko]; exact h1
          · rw [hat.producer_out hko] at h1; cases h1
        rcases hlogc with ⟨_, h2⟩ | ⟨h1, h2⟩
        · rw [h2] at hch; exact absurd rfl hch
        · rw [h2] at hch ⊢
          rw [h1] at hlog
          subst hE
          exact hotKey_of_executed hat h.binv.inv.inv0 hT h.clock (buildFailed_single hlog.2) hp hko hch
      | true =>
        rw [resolve_phony hko hp] at hex
        obtain ⟨f, hf, hhot⟩ := hex
        rw [List.mem_flatMap] at hf
        obtain ⟨k', hk', hfk'⟩ := hf
        have hk'd : k' ∈ depKeys c := by simp only [depKeys, List.mem_append] at hk' ⊢; exact Or.inl hk'
        have hsrc' : producer m.cmds k' = none ∨ ∃ q ∈ before, k' ∈ q.outs := by
          rcases hat.producer_in (insAll_sub c k' (depKeys_sub_insAll c k' hk'd)) with h1 | ⟨q, hq, hqb⟩
          · exact Or.inl h1
          · exact Or.inr ⟨q, hqb, (producer_some hq).2⟩
        have hhk := h.hotkey hlog.1 k' (demanded_closed m hwf targets hat.mem hneed k' (depKeys_sub_insAll c k' hk'd)) hsrc'
          ⟨f, hfk', (hhotc hsrc' hfk').1 hhot⟩
        obtain ⟨x, hx, hxe, _⟩ := hhk
        -- the task of the alias runs
        have hnt : needsTask m.cmds w' c = true := by
          rw [needsTask_static (h.binv.inv.d.depsInv c hat.mem)]
          unfold needsTaskS
          cases hr : w'.cmdDb c.name with
          | none => rfl
          | some r =>
            simp only [Bool.or_eq_true, bne_iff_ne, ne_eq]
            right
            rw [triggers_storedDeps, List.any_eq_true]
            refine ⟨k', hk'd, ?_⟩
            have := h.binv.unbuilt c hat.mem (hat.not_mem_before List.mem_cons_self) r hr
            simp only [hx, rebuiltSince, decide_eq_true_eq]
            omega
        have hstep : stepCmd m (demanded m targets) E before c w' = ((runTask m before E c w').1, [(c.name, (runTask m before E c w').2)]) := by
          simp [stepCmd, hneed, hnt]
        rw [hstep] at hlog ⊢
        subst hE
        have hdid := buildFailed_single hlog.2
        obtain ⟨r, hr, hb, _, _⟩ := runTask_ok hat hdid
        have hph := phonyInv_runTask hat h.binv.inv.inv0 h.binv.inv.phony c hat.mem hp r hr (runTask_sig _ _ _ _ _ r hr) (by
          obtain ⟨_, hr', _, hv, _⟩ := runTask_ok hat hdid
          rw [hr] at hr'; cases hr'; rw [hv]; rfl)
        refine ⟨r.toResult, ?_, ?_, Or.inl hph.2⟩
        · rw [resOf_phony hwf hat.mem hp hat hko, hr]; rfl
        · simp only [CmdResult.toResult, hph.1, hb]; exact Nat.le_refl _
    · rw [resolve_skip hko] at hex
      have hsrc' : producer m.cmds k = none ∨ ∃ q ∈ before, k ∈ q.outs := by
        rcases hsrc with h1 | ⟨q, hq, hkq⟩
        · exact Or.inl h1
        · rcases List.mem_cons.1 hq with rfl | hq
          · exact absurd hkq hko
          · exact Or.inr ⟨q, hq, hkq⟩
      obtain ⟨f, hf, hhot⟩ := hex
      obtain ⟨x, hx, hxe, hv⟩ := h.hotkey hlog.1 k hk hsrc' ⟨f, hf, (hhotc hsrc' hf).1 hhot⟩
      exact ⟨x, by rw [hfr.resOf_eq hwf hat.mem hko]; exact hx, hxe, hv⟩
  · -- what reads a hot file has run
    intro hlog q b r hatq hq hqp hqn hex
    rw [buildFailed_append, Bool.or_eq_false_iff] at hlog
    rcases List.mem_cons.1 hq with rfl | hqb
    · obtain ⟨rfl, rfl⟩ := At.unique hatq hat
      obtain ⟨f, hf, hhot⟩ := hex
      have hfno := (hat.reads_not_out hf).1
      have hhot' : Hot m.cmds E T w w' f := (hot_congr (hfr.files f hfno) hfr.srcDb).1 hhot
      have hclosed := demanded_closed m hwf targets hat.mem hqn
      -- a hot key among the dependencies
      have hkey : ∃ k ∈ depKeys q, HotKey m.cmds E T w' k := by
        rcases mem_readsOf hf with ⟨k, hk, hfk⟩ | hfd
        · have hkd : k ∈ depKeys q := by simp only [depKeys, List.mem_append] at hk ⊢; exact Or.inl hk
          have hsrc : producer m.cmds k = none ∨ ∃ q' ∈ b, k ∈ q'.outs := by
            rcases hat.producer_in (insAll_sub q k (depKeys_sub_insAll q k hkd)) with h1 | ⟨q', hq', hqb'⟩
            · exact Or.inl h1
            · exact Or.inr ⟨q', hqb', (producer_some hq').2⟩
          exact ⟨k, hkd, h.hotkey hlog.1 k (hclosed k (depKeys_sub_insAll q k hkd)) hsrc ⟨f, hfk, hhot'⟩⟩
        · have hd : q.hasDeps = true := by
            cases hd : q.hasDeps with
            | true => rfl
            | false => rw [hat.cmdWF.deps hd] at hfd; cases hfd
          have hkd : f ∈ depKeys q := by simp [depKeys, hd, hfd]
          have hsrc : producer m.cmds f = none ∨ ∃ q' ∈ b, f ∈ q'.outs := by
            rcases hat.producer_in (insAll_sub q f (depKeys_sub_insAll q f hkd)) with h1 | ⟨q', hq', hqb'⟩
            · exact Or.inl h1
            · exact Or.inr ⟨q', hqb', (producer_some hq').2⟩
          -- a hot file is not an alias
          have hself : f ∈ resolve b f := by
            have : resolve b f = [f] := by
              apply resolve_self
              intro q' hq' hfq'
              cases hph : q'.phony with
              | false => rfl
              | true =>
                exfalso
                have habs := h.binv.inv.inv0.phonyAbsent q' (hat.mem_before hq') hph f hfq'
                rcases hhot' with h1 | ⟨h1, _⟩
                · rcases h.stamps f with h2 | ⟨x, s, h2, _⟩
                  · exact h1 h2
                  · rw [habs] at h2; cases h2
                · rw [producer_of_mem hwf (hat.mem_before hq') hfq'] at h1; cases h1
            rw [this]; simp
          exact ⟨f, hkd, h.hotkey hlog.1 f (hclosed f (depKeys_sub_insAll q f hkd)) hsrc ⟨f, hself, hhot'⟩⟩
      obtain ⟨k, hk, hhk⟩ := hkey
      rcases hot_input_runs (d := demanded m targets) hat h.binv hcrest (fun o ho => hTout q hat.mem o ho) hqp hqn hk hhk with h1 | h1 | h1
      · rw [h1] at hlog; simp [buildFailed] at hlog
      · rw [h1] at hlog; simp [buildFailed] at hlog
      · rw [h1]; simp
    · obtain ⟨b0, r0, hat0, _, hcr, _⟩ := hat.of_before hqb
      obtain ⟨rfl, rfl⟩ := At.unique hatq hat0
      obtain ⟨f, hf, hhot⟩ := hex
      have hfno := (hatq.reads_not_out hf).2 c hcr
      exact List.mem_append.2 (Or.inl (h.ran hlog.1 q b r hatq hqb hqp hqn
        ⟨f, hf, (hot_congr (hfr.files f hfno) hfr.srcDb).1 hhot⟩))

theorem refreshSrcs_clock (cs : List Command) (E : Nat) : ∀ (ps : List Path) (w : World), (refreshSrcs cs E ps w).clock = w.clock := by
  intro ps
  induction ps with
  | nil => intro w; rfl
  | cons p ps ih =>
    intro w
    simp only [refreshSrcs]
    split
    · rw [ih]
      unfold refreshSrc
      cases w.srcDb p with
      | none => rfl
      | some r => simp only; split <;> rfl
    · exact ih w

/-- **the converse of minimality**: in a build that reports no failure, every needed real command that reads a hot
file - one this build rewrote, or a source whose input rule changed at this build and that is stamped above every output -
is executed -/
theorem hot_read_runs (m : Manifest) (hwf : wfFrom [] m.cmds = true) (targets : List Path) {w : World} (hinv : WorldInv m w)
    {T : Nat} (hT : T ≤ w.clock) (hTout : ∀ q ∈ m.cmds, ∀ o ∈ q.outs, ∀ g, w.files o = some g → g.stamp ≤ T)
    (hok : buildFailed (buildFull m targets w).2 = false) {b r : List Command} {c : Command} (hat : At m.cmds b c r)
    (hp : c.phony = false) (hn : c.neededIn (demanded m targets) = true)
    (hex : ∃ f ∈ readsOf b c, Hot m.cmds (w.epoch + 1) T w (buildFull m targets w).1 f) :
    (c.name, Did.executed) ∈ (buildFull m targets w).2 := by
  have hfiles := started_files m targets w
  have h0 : CInv m (demanded m targets) (w.epoch + 1) T w [] (started m targets w) [] := by
    refine ⟨BuildInv.started hwf hinv targets, ?_, fun q _ _ o _ => by rw [hfiles], fun p => Or.inl (by rw [hfiles]), ?_,
      fun _ q b r _ hq => by cases hq⟩
    · have : (started m targets w).clock = w.clock := by simp only [started, refreshSrcs_clock]
      rw [this]; exact Nat.le_refl _
    · intro _ k hk hsrc hex
      have hnone : producer m.cmds k = none := by
        rcases hsrc with h1 | ⟨q, hq, _⟩
        · exact h1
        · cases hq
      obtain ⟨f, hf, hhot⟩ := hex
      simp only [resolve, List.mem_singleton] at hf
      subst hf
      rcases hhot with h1 | ⟨_, ⟨r, hr, hre⟩, g, hg, hgT⟩
      · exact absurd (by rw [hfiles]) h1
      · refine ⟨r, by simp [resOf, hnone, hr], hre, Or.inr ?_⟩
        obtain ⟨r', hr', hv⟩ := started_srcs m targets w f hk hnone
        rw [hr] at hr'; cases hr'
        have hinfo : (started m targets w).info f = ⟨1, 1, 1, 1, ⟨g.stamp, 0⟩⟩ := by simp [World.info, hfiles, hg, infoOf]
        rcases hv with hv | ⟨_, hm⟩
        · simp only [inputIsResultValid, Bool.and_eq_true] at hv
          rw [same_mtime hv.2, hinfo]
          exact hgT
        · rw [hinfo] at hm; simp [FInfo.isMissing] at hm
  have := stepAll_induct m (demanded m targets) (w.epoch + 1) hwf (CInv m (demanded m targets) (w.epoch + 1) T w)
    (fun before c rest w' log hat hw' => hw'.step hwf hat hT hTout) m.cmds [] (started m targets w) [] (by simp) h0
  simp only [List.append_nil, List.nil_append, ← buildFull_eq] at this
  exact this.ran hok c b r hat (by simpa using hat.mem) hp hn hex

/-- a file a build rewrote is hot -/
theorem hot_of_changed {cs : List Command} {E T : Nat} {w w' : World} {f : Path} (h : w'.files f ≠ w.files f) :
    Hot cs E T w w' f := Or.inl h

/-- the input rule of a source file written with a fresh stamp changes at the next build -/
theorem refreshSrcs_changed (cs : List Command) (E : Nat) : ∀ (ps : List Path) (w : World) {p : Path}, p ∈ ps →
    producer cs p = none → (∀ r, w.srcDb p = some r → inputIsResultValid r.value (w.info p) = false ∧ r.value ≠ inputValue (w.info p)) →
    ∃ r, (refreshSrcs cs E ps w).srcDb p = some r ∧ r.computedAt = E := by
  intro ps
  induction ps with
  | nil => intro w p hp; cases hp
  | cons q ps ih =>
    intro w p hp hnone hbad
    simp only [refreshSrcs]
    by_cases hqp : q = p
    · subst hqp
      simp only [hnone, Option.isNone_none, ↓reduceIte]
      -- refreshed now, with a changed value; the later refreshes leave the change epoch alone
      have hnow : ∃ r, (refreshSrc E q w).srcDb q = some r ∧ r.computedAt = E := by
        unfold refreshSrc
        cases hr : w.srcDb q with
        | none => exact ⟨_, upd_same _ _ _, by simp [completeWith]⟩
        | some r =>
          simp only [(hbad r hr).1, Bool.false_eq_true, ↓reduceIte]
          refine ⟨_, upd_same _ _ _, ?_⟩
          rcases completeWith_computedAt E (some r) (inputValue (w.info q)) false with h1 | ⟨r', h1, _, h3, _⟩
          · exact h1
          · cases h1; exact absurd h3.symm (hbad r hr).2
      obtain ⟨r, hr, hre⟩ := hnow
      have hs := refreshSrc_post E q w
      have := refreshSrcs_vc cs E ps (refreshSrc E q w) hs
      rw [hr] at this
      cases h2 : (refreshSrcs cs E ps (refreshSrc E q w)).srcDb q with
      | none => rw [h2] at this; cases this
      | some r2 =>
        rw [h2] at this
        simp only [Option.map_some, Option.some.injEq, vc, Prod.mk.injEq] at this
        exact ⟨r2, rfl, by rw [this.2, hre]⟩
    · have hp' : p ∈ ps := by
        rcases List.mem_cons.1 hp with h | h
        · exact absurd h.symm hqp
        · exact h
      split
      · apply ih _ hp' hnone
        intro r hr
        rw [refreshSrc_other E q w (Ne.symm hqp)] at hr
        have := hbad r hr
        simpa only [World.info, refreshSrc_files] using this
      · exact ih _ hp' hnone hbad

/-! ### a command none of whose dependencies' views changed does not run; restat pruning -/

/-- the world in which `c` is processed shows, of every earlier command, what the final world shows -/
theorem build_at_before (m : Manifest) (targets : List Path) (w : World) {before rest : List Command} {c q : Command}
    (hat : At m.cmds before c rest) (hq : q ∈ before) :
    Untouched q (stepAll m (demanded m targets) (w.epoch + 1) [] before.reverse (started m targets w)).1 (buildFull m targets w).1 := by
  rw [buildFull_eq]
  conv => rhs; rw [hat.split, stepAll_append]
  simp only [List.reverse_reverse, List.append_nil]
  apply stepAll_untouched
  intro q' hq'
  rcases List.mem_cons.1 hq' with rfl | hq'
  · refine ⟨(hat.name_ne_before hq).symm, fun o ho hoc => ?_⟩
    have := hat.cmdWF.outs_before o hoc
    rw [producer_none_iff] at this
    exact this q hq ho
  · obtain ⟨b0, r0, hat0, _, hcr, hsub⟩ := hat.of_before hq
    refine ⟨(hat0.name_ne_rest (hsub q' hq')), fun o ho hoq' => ?_⟩
    have := hat0.cmdWF.outs_rest o ho
    rw [producer_none_iff] at this
    exact this q' (hsub q' hq') hoq'

/-- **no view changed, no run**: a needed command that did not need its task when the build started, and whose
dependencies all show its consumers, after the build, the value and change epoch they showed when it started, has not
had its task run by the build -/
theorem unchanged_inputs_no_run (m : Manifest) (hwf : wfFrom [] m.cmds = true) (targets : List Path) {w : World} (hinv : WorldInv m w)
    {c : Command} (hc : c ∈ m.cmds) (h0 : needsTask m.cmds (started m targets w) c = false)
    (hsame : ∀ k ∈ depKeys c, (resOf m.cmds (buildFull m targets w).1 k).map vc = (resOf m.cmds (started m targets w) k).map vc) :
    ∀ x, (c.name, x) ∉ (buildFull m targets w).2 := by
  obtain ⟨before, rest, hat⟩ := At.of_mem hwf hc
  intro x hx
  rw [buildFull_eq] at hx
  have hx' := stepAll_entry m _ _ _ hat hx
  obtain ⟨wi, hwi, hun, _, _⟩ := stepAll_at m (demanded m targets) (w.epoch + 1) (started m targets w) hat
  rw [← hwi] at hx'
  have hdeps : DepsRec (started m targets w) c := (BuildInv.started hwf hinv targets).inv.d.depsInv c hc
  have hnt : needsTask m.cmds wi c = false := by
    rw [← h0]
    have hstep : wi = (stepAll m (demanded m targets) (w.epoch + 1) [] before.reverse (started m targets w)).1 := hwi
    -- nothing but the rows and outputs of earlier commands has moved; and their views are the final ones
    have hdd : wi.depDb c.name = (started m targets w).depDb c.name := by
      rw [hstep]
      have := stepAll_fst_induct m (demanded m targets) (w.epoch + 1) hwf
        (fun _ w' => True) (fun _ _ _ _ _ _ => trivial)
      -- the dependency list of `c` is only written by its own step
      have key : ∀ (pre bef : List Command) (w0 : World), (∀ q ∈ pre, q.name ≠ c.name) →
          (stepAll m (demanded m targets) (w.epoch + 1) bef pre w0).1.depDb c.name = w0.depDb c.name := by
        intro pre
        induction pre with
        | nil => intro bef w0 _; rfl
        | cons q pre ih =>
          intro bef w0 hne
          simp only [stepAll]
          rw [ih _ _ (fun q' hq' => hne q' (List.mem_cons_of_mem _ hq'))]
          exact (stepCmd_frame m _ _ bef q w0).depDb c.name (hne q List.mem_cons_self).symm
      exact key before.reverse [] _ (fun q hq => hat.name_ne_before (by simpa using hq))
    apply needsTask_congr hdeps hun.cmdDb hdd (by rw [hun.cmdline]) hun.files
    intro k hk
    rcases hat.producer_in (insAll_sub c k (depKeys_sub_insAll c k hk)) with hnone | ⟨q, hq, hqb⟩
    · simp only [resOf, hnone, hun.srcDb]
    · obtain ⟨hqm, hkq⟩ := producer_some hq
      have hfin := build_at_before m targets w hat hqb
      rw [← hwi] at hfin
      have : resOf m.cmds wi k = resOf m.cmds (buildFull m targets w).1 k := by
        simp only [resOf, hq, hfin.cmdDb]
      rw [this]
      exact hsame k hk
  simp only [stepCmd, hnt, Bool.and_false, Bool.false_eq_true, ↓reduceIte, List.not_mem_nil] at hx'

theorem shaped_same_eq {i j : FInfo} (hi : ∃ x, i = infoOf x) (hj : ∃ x, j = infoOf x) (h : i.same j = true) : i = j := by
  obtain ⟨x, rfl⟩ := hi
  obtain ⟨y, rfl⟩ := hj
  cases x <;> cases y <;> simp_all [infoOf, FInfo.same, FInfo.missing, FInfo.isMissing]

/-- a valid stored value of a real command is exactly the value computed from the outputs as they are -/
theorem valid_value_eq {cs : List Command} {w : World} (h0 : Inv0 cs w) (hsh : ShapeInv w) {c : Command} (hc : c ∈ cs)
    (hp : c.phony = false) {r : CmdResult} (hr : w.cmdDb c.name = some r)
    (hv : commandIsResultValid (kOf w c) r.value (c.outs.map w.info) = .valid) (hh : r.value.hash = w.cmdline c.name) :
    r.value = computeResult (kOf w c) (c.outs.map w.info) := by
  obtain ⟨hkind, _, hmatch⟩ := valid_infosMatch hp hv
  have hlen := (h0.shape c hc r hr).1 hkind
  have hinfos : r.value.infos = c.outs.map w.info := by
    apply List.ext_getElem (by simp [hlen])
    intro i h1 h2
    have hi : i < c.outs.length := by simpa [hlen] using h1
    obtain ⟨_, st, hst, hsame⟩ := hmatch i hi
    have hst' : st = r.value.infos[i] := by
      unfold BuildValue.nthInfo at hst
      split at hst
      · rw [List.getElem?_eq_getElem h1] at hst; exact (Option.some.inj hst).symm
      · rename_i hle
        have hi0 : i = 0 := by omega
        subst hi0
        obtain ⟨a, l, hal⟩ : ∃ a l, r.value.infos = a :: l := by
          cases hl : r.value.infos with
          | nil => rw [hl] at h1; cases h1
          | cons a l => exact ⟨a, l, rfl⟩
        simp [hal] at hst ⊢
        exact hst.symm
    rw [List.getElem_map]
    rw [hst'] at hsame
    exact shaped_same_eq (hsh _ r hr _ (List.getElem_mem h1)) ⟨w.files c.outs[i], rfl⟩ hsame
  rcases hrv : r.value with ⟨kd, hs, inf⟩
  rw [hrv] at hkind hh hinfos
  simp only at hkind hh hinfos
  subst hkind hh hinfos
  rfl

/-- completing unforced with the stored (successful) value leaves every view as it was -/
theorem view_same_of_same_value (E : Nat) (r : CmdResult) (hk : r.value.kind = .successfulCommand) {n i : Nat} (hi : i < n) :
    (outView (completeCmd E (some r) r.value false n) n i).map vc = (outView r n i).map vc := by
  rw [view_complete E (some r) r.value false hi]
  unfold outView
  by_cases hn : (n == 1) = true
  · simp only [hn, ↓reduceIte, Option.map_some, Option.some.injEq]
    simp [vc, completeCmd, completeWith, CmdResult.toResult]
  · simp only [hn, Bool.false_eq_true, ↓reduceIte]
    cases hs : selectValue r.value i with
    | none => rfl
    | some vf =>
      have hf : vf.2 = false := by
        unfold selectValue at hs
        simp only [hk] at hs
        split at hs
        · rename_i h; simp at h
        · split at hs
          · cases hs
          · cases hs; rfl
      simp [vc, selChanged, hs, hf]

/-- a restat-style command that the build leaves with the outputs it had, and whose stored result was valid for the
command line it still has, shows its consumers after the build what it showed before -/
theorem restat_views_unchanged (m : Manifest) (hwf : wfFrom [] m.cmds = true) (targets : List Path) {w : World} (hinv : WorldInv m w)
    (hok : buildFailed (buildFull m targets w).2 = false) {q : Command} (hq : q ∈ m.cmds) (hqp : q.phony = false)
    (hrs : q.restat = true) {r : CmdResult} (hr : w.cmdDb q.name = some r)
    (hv : commandIsResultValid (kOf w q) r.value (q.outs.map w.info) = .valid) (hh : r.value.hash = w.cmdline q.name)
    (hfiles : ∀ o ∈ q.outs, (buildFull m targets w).1.files o = w.files o) :
    ∀ o ∈ q.outs, (resOf m.cmds (buildFull m targets w).1 o).map vc = (resOf m.cmds (started m targets w) o).map vc := by
  obtain ⟨before, rest, hat⟩ := At.of_mem hwf hq
  obtain ⟨wi, hwi, hun, hlog, _⟩ := stepAll_at m (demanded m targets) (w.epoch + 1) (started m targets w) hat
  have haft := build_after m targets w hat
  rw [← hwi] at haft
  have hsdb : (started m targets w).cmdDb = w.cmdDb := refreshSrcs_cmdDb _ _ _ _
  have hscl := (started_cmdline m targets w).1
  have hsfiles := started_files m targets w
  have hri : wi.cmdDb q.name = some r := by rw [hun.cmdDb, hsdb]; exact hr
  have hkind := ((C18_valid_iff _ _ _).1 hv).1
  have hval := valid_value_eq hinv.inv0 hinv.sh hq hqp hr hv hh
  intro o ho
  have hi := idxOf_lt ho
  have hres : ∀ w0 : World, resOf m.cmds w0 o = (w0.cmdDb q.name).bind fun r => outView r q.outs.length (q.outs.idxOf o) := by
    intro w0; simp only [resOf, producer_of_mem hwf hq ho]
  rw [hres, hres, haft.cmdDb, hsdb, hr]
  -- the row after the step of `q`
  unfold stepCmd
  split
  · rename_i hrun
    have hent : (q.name, (runTask m before (w.epoch + 1) q wi).2) ∈ (buildFull m targets w).2 := by
      rw [buildFull_eq]; apply hlog; simp [stepCmd, hrun]
    have hdid : (runTask m before (w.epoch + 1) q wi).2 ≠ .failed ∧ (runTask m before (w.epoch + 1) q wi).2 ≠ .skipped := by
      constructor
      · intro h; rw [h] at hent; have := buildFailed_of_mem (Or.inl hent); rw [hok] at this; cases this
      · intro h; rw [h] at hent; have := buildFailed_of_mem (Or.inr hent); rw [hok] at this; cases this
    -- the files of the outputs after the step are those of `w`
    have hfa : ∀ o' ∈ q.outs, (runTask m before (w.epoch + 1) q wi).1.files o' = w.files o' := by
      intro o' ho'
      have h1 := haft.files o' ho'
      simp only [stepCmd, hrun, ↓reduceIte] at h1
      rw [← h1]; exact hfiles o' ho'
    have hinfos : q.outs.map (runTask m before (w.epoch + 1) q wi).1.info = q.outs.map w.info :=
      List.map_congr_left (fun o' ho' => by simp only [World.info, hfa o' ho'])
    have hk : kOf wi q = kOf w q := by simp only [kOf, hun.cmdline, hscl]
    cases hd : decisionOf m.cmds wi q with
    | complete v force =>
      rw [runTask_complete hd] at hdid hinfos ⊢
      have hks : v.kind = .successfulCommand := by
        cases hkv : v.kind <;> simp_all [didOfValue]
      obtain ⟨_, hvv, hforce⟩ := decision_updated hqp hd hks
      simp only [setCmd_info] at hinfos
      have : v = r.value := by rw [hvv, hval, hk, hinfos]
      subst this; subst hforce
      simp only [setCmd_cmdDb_self, Option.bind_some, hri]
      exact view_same_of_same_value _ r hkind hi
    | execute =>
      cases hf : wi.failing q.name with
      | true => rw [runTask_fail hd hf] at hdid; simp at hdid
      | false =>
        rw [runTask_exec hd hf] at hinfos ⊢
        simp only [setCmd_info] at hinfos
        have : computeResult (kOf wi q) (q.outs.map (written m before q wi).info) = r.value := by
          rw [hval, hk, hinfos]
        simp only [setCmd_cmdDb_self, Option.bind_some, hri, this, hrs, Bool.not_true]
        exact view_same_of_same_value _ r hkind hi
  · simp only [hri, Option.bind_some]

end LLBuild.NinjaWorld
