import LLBuild.Model.Handshake

namespace LLBuild.Handshake

theorem countP_set (p : CPc → Bool) : ∀ (l : List CPc) (i : Nat) (x y : CPc), l[i]? = some y →
    countP p (setC l i x) + (if p y then 1 else 0) = countP p l + (if p x then 1 else 0)
  | [], i, x, y, h => by simp at h
  | a :: l, 0, x, y, h => by
    simp at h; subst h
    simp only [setC, List.set_cons_zero, countP, List.filter_cons]
    by_cases h1 : p a = true <;> by_cases h2 : p x = true <;> simp [h1, h2] <;> omega
  | a :: l, i + 1, x, y, h => by
    simp at h
    have ih := countP_set p l i x y h
    simp only [setC, countP, List.set_cons_succ, List.filter_cons] at ih ⊢
    by_cases h1 : p a = true <;> simp [h1] <;> omega

theorem exists_of_countP_pos (p : CPc → Bool) : ∀ (l : List CPc), 0 < countP p l → ∃ (i : Nat) (y : CPc), l[i]? = some y ∧ p y = true
  | [], h => by simp [countP] at h
  | a :: l, h => by
    by_cases h1 : p a = true
    · exact ⟨0, a, by simp, h1⟩
    · have : 0 < countP p l := by simpa [countP, List.filter_cons, h1] using h
      obtain ⟨i, y, hi, hy⟩ := exists_of_countP_pos p l this
      exact ⟨i + 1, y, by simpa using hi, hy⟩

theorem exists_not_of_countP_lt (p : CPc → Bool) : ∀ (l : List CPc), countP p l < l.length →
    ∃ (i : Nat) (y : CPc), l[i]? = some y ∧ p y = false
  | [], h => by simp at h
  | a :: l, h => by
    by_cases h1 : p a = true
    · have : countP p l < l.length := by simpa [countP, List.filter_cons, h1] using h
      obtain ⟨i, y, hi, hy⟩ := exists_not_of_countP_lt p l this
      exact ⟨i + 1, y, by simpa using hi, hy⟩
    · exact ⟨0, a, by simp, by simpa using h1⟩

theorem countP_replicate_idle (p : CPc → Bool) (h : p .idle = false) (n : Nat) :
    countP p (List.replicate n .idle) = 0 := by
  induction n with
  | zero => rfl
  | succ n ih => simpa [List.replicate_succ, countP, List.filter_cons, h] using ih

theorem getElem?_setC_ne (l : List CPc) (i j : Nat) (x : CPc) (h : i ≠ j) : (setC l i x)[j]? = l[j]? := by
  simp [setC, List.getElem?_set_ne h]

theorem getElem?_setC_self (l : List CPc) (i : Nat) (x y : CPc) (h : l[i]? = some y) : (setC l i x)[i]? = some x := by
  have : i < l.length := by
    rcases Nat.lt_or_ge i l.length with h1 | h1
    · exact h1
    · rw [List.getElem?_eq_none_iff.2 h1] at h; cases h
  simp [setC, List.getElem?_set_self this]

structure Inv (n : Nat) (s : St) : Prop where
  len : s.c.length = n
  count : s.finished + s.drained = countP pushed s.c
  mutex : s.mutexFree = true ↔ (s.e ≠ .locked ∧ countP holding s.c = 0)
  excl : s.e = .locked → countP holding s.c = 0
  one : countP holding s.c ≤ 1
  noLost : s.e = .sleeping → s.finished ≠ 0 → ∃ i : Nat, s.c[i]? = some CPc.toNotify

theorem inv_init (n : Nat) : Inv n (init n) := by
  constructor
  · simp [init]
  · simp [init, countP_replicate_idle pushed (by rfl)]
  · simp [init, countP_replicate_idle holding (by rfl)]
  · intro h; simp [init] at h
  · simp [init, countP_replicate_idle holding (by rfl)]
  · intro h; simp [init] at h

theorem inv_step {n : Nat} {s s' : St} (hi : Inv n s) (h : Step true s s') : Inv n s' := by
  cases h with
  | drain he hm =>
    exact ⟨hi.len, by simp; have := hi.count; omega, hi.mutex, hi.excl, hi.one, by intro h; simp [he] at h⟩
  | lock he hm hd =>
    have h0 := (hi.mutex.1 hm).2
    exact ⟨hi.len, hi.count, by simp, fun _ => h0, hi.one, by intro h; simp at h⟩
  | sleep he hf =>
    have h0 := hi.excl he
    refine ⟨hi.len, hi.count, by simp [h0], by intro h; simp at h, hi.one, ?_⟩
    intro _ hne; exact absurd (hf rfl) hne
  | skip he _ hf =>
    have h0 := hi.excl he
    exact ⟨hi.len, hi.count, by simp [h0], by intro h; simp at h, hi.one, by intro h; simp at h⟩
  | resume he hm =>
    have h0 := (hi.mutex.1 hm).2
    exact ⟨hi.len, hi.count, by simp [hm, h0], by intro h; simp at h, hi.one, by intro h; simp at h⟩
  | cLock i hc hm =>
    obtain ⟨hne, h0⟩ := hi.mutex.1 hm
    have hh := countP_set holding s.c i .pushing .idle hc
    have hp := countP_set pushed s.c i .pushing .idle hc
    simp [holding, pushed] at hh hp
    refine ⟨by simp [setC, hi.len], by simp [hp]; exact hi.count, ?_, ?_, by simp; omega, ?_⟩
    · simp; intro _; omega
    · intro h; exact absurd h hne
    · intro he hf
      obtain ⟨j, hj⟩ := hi.noLost he hf
      have : i ≠ j := by intro e; subst e; rw [hc] at hj; cases hj
      exact ⟨j, by simp only; rw [getElem?_setC_ne _ _ _ _ this]; exact hj⟩
  | cPush i hc =>
    have hh := countP_set holding s.c i .toNotify .pushing hc
    have hp := countP_set pushed s.c i .toNotify .pushing hc
    simp [holding, pushed] at hh hp
    have hone := hi.one
    have hne : s.e ≠ .locked := by
      intro he; have := hi.excl he; omega
    refine ⟨by simp [setC, hi.len], by simp; have := hi.count; omega, ?_, ?_, by simp; omega, ?_⟩
    · simp; exact ⟨hne, by omega⟩
    · intro _; simp; omega
    · intro _ _
      exact ⟨i, by simp only; exact getElem?_setC_self _ _ _ _ hc⟩
  | cNotify i hc =>
    have hh := countP_set holding s.c i .done .toNotify hc
    have hp := countP_set pushed s.c i .done .toNotify hc
    simp [holding, pushed] at hh hp
    have elock : (if s.e = .sleeping then EPc.woken else s.e) = .locked ↔ s.e = .locked := by
      split
      · rename_i h; simp [h]
      · rfl
    refine ⟨by simp [setC, hi.len], by simp [hp]; exact hi.count, ?_, ?_, by simp [hh]; exact hi.one, ?_⟩
    · simp only [hh]; rw [hi.mutex]; simp [elock]
    · intro h; simp only [hh]; exact hi.excl (elock.1 h)
    · intro h
      simp only at h
      split at h
      · cases h
      · rename_i hns; exact absurd h hns

theorem reach_inv {n : Nat} {s : St} (h : Reach true n s) : Inv n s := by
  induction h with
  | init => exact inv_init n
  | step s s' _ hs ih => exact inv_step ih hs

end LLBuild.Handshake
