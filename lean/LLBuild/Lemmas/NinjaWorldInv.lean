/-
The world invariant of the whole-build model (Model/NinjaWorld.lean) and its preservation by edits and builds:

* `KInv`: a command whose stored result is a successful value matching its outputs as they are now, and whose
  dependencies are all settled (the database's view of them reflects the file system) and not newer than the command's
  last task run, has outputs whose content is what the command writes from its inputs' current contents;
* `TInv`: the provenance of every existing output (what the execution that wrote it read, as far as stamps can tell) -
  what makes the update-if-newer shortcut sound when stamps only increase.
-/
import LLBuild.Lemmas.NinjaWorld

namespace LLBuild.NinjaWorld
open LLBuild.NinjaBuild LLBuild.NinjaBuild.Gen

/-- what consumers compare: the value and the epoch of its last change -/
def vc (r : Result) : BuildValue × Nat := (r.value, r.computedAt)

/-- the database's view of key `p` reflects the file system; `before` = the commands that may produce `p`, latest
first.  A phony alias is settled when its own inputs are, and none of them changed after the alias was last brought up
to date. -/
def Settled (cs : List Command) (w : World) : List Command → Path → Prop
  | [], p => SrcSettled w p
  | q :: rest, p =>
    if q.outs.contains p = true then
      (if q.phony = true then
        ∃ r, w.cmdDb q.name = some r ∧ r.sig = sigOf q ∧ r.value.kind = .successfulCommand ∧
          ∀ k ∈ q.exp ++ q.imp, Settled cs w rest k ∧ rebuiltSince r.builtAt (resOf cs w k) = false
      else ∃ x, resOf cs w p = some x ∧ x.value.kind = .successfulCommand ∧
        x.value.outputInfo.same (w.info p) = true ∧ (w.info p).isMissing = false)
    else Settled cs w rest p

/-- the stored value records the outputs as they are now, and they all exist -/
def InfosMatch (c : Command) (v : BuildValue) (w : World) : Prop :=
  ∀ i, (h : i < c.outs.length) → (w.info c.outs[i]).isMissing = false ∧
    ∃ st, v.nthInfo i = some st ∧ st.same (w.info c.outs[i]) = true

/-- every dependency is settled and was last changed no later than epoch `b` -/
def DepsOK (cs : List Command) (w : World) (before : List Command) (c : Command) (b : Nat) : Prop :=
  ∀ k ∈ depKeys c, Settled cs w before k ∧ rebuiltSince b (resOf cs w k) = false

/-- the outputs hold what the command writes, with command hash `h`, from what its inputs hold now -/
def FreshWith (m : Manifest) (before : List Command) (c : Command) (w : World) (h : Nat) : Prop :=
  ∀ o ∈ c.outs, w.content o = some (m.sem (c.effHash h) o ((readsOf before c).map w.content))

def KInv (m : Manifest) (w : World) : Prop :=
  ∀ before c rest, At m.cmds before c rest → c.phony = false → ∀ r, w.cmdDb c.name = some r → r.sig = sigOf c →
    r.value.kind = .successfulCommand → InfosMatch c r.value w → DepsOK m.cmds w before c r.builtAt →
    FreshWith m before c w r.value.hash

/-- provenance of an existing output `o` (stamp `t`): it was written by an execution with hash `h'` that read `R`, and
whatever input has not been written since (stamp at most `t`) still holds what was read -/
def Prov (m : Manifest) (before : List Command) (c : Command) (w : World) (o : Path) (f : File) : Prop :=
  ∃ (h' : Nat) (R : List (Option Content)), f.content = m.sem h' o R ∧
    R.length = (readsOf before c).length ∧
    (∀ (i : Nat) (p : Path) (Ri : Option Content), (readsOf before c)[i]? = some p → R[i]? = some Ri → ∀ g, w.files p = some g → g.stamp ≤ f.stamp →
      Ri = some g.content) ∧
    (c.generator = true → h' = 0) ∧
    (c.generator = false → ∀ r, w.cmdDb c.name = some r → r.sig = sigOf c → r.value.kind = .successfulCommand → h' = r.value.hash)

/-- the stored result of `c` can make the update-if-newer shortcut fire: a generator command, or a successful stored value -/
def Usable (w : World) (c : Command) : Prop :=
  c.generator = true ∨ ∃ r, w.cmdDb c.name = some r ∧ r.sig = sigOf c ∧ r.value.kind = .successfulCommand

/-- the provenance of the existing outputs of every command whose stored result is usable (a command without a usable
result is executed before the shortcut can ever look at its outputs - e.g. a statement that a graph edit has just
introduced over files another statement left) -/
def TInv (m : Manifest) (w : World) : Prop :=
  ∀ before c rest, At m.cmds before c rest → c.phony = false → ∀ o ∈ c.outs, ∀ f, w.files o = some f → Usable w c →
    Prov m before c w o f

theorem Usable.of_cmdDb {w w' : World} {c : Command} (h : Usable w' c) (hdb : w'.cmdDb c.name = w.cmdDb c.name) : Usable w c := by
  rcases h with h | ⟨r, hr, hsg, hk⟩
  · exact Or.inl h
  · exact Or.inr ⟨r, by rw [← hdb]; exact hr, hsg, hk⟩

/-- a successful completion of a phony command is always a forced change (its alias is not a file) -/
def PhonyInv (cs : List Command) (w : World) : Prop :=
  ∀ c ∈ cs, c.phony = true → ∀ r, w.cmdDb c.name = some r → r.sig = sigOf c → r.value.kind = .successfulCommand →
    r.computedAt = r.builtAt ∧ r.value.outputInfo.isMissing = true

/-- a command holds a successful value only if every explicit / implicit input had an acceptable value (an existing
input or a successful command) when the command was last built: an input whose value is not acceptable now has changed
since -/
def SInv (cs : List Command) (w : World) : Prop :=
  ∀ c ∈ cs, ∀ r, w.cmdDb c.name = some r → r.sig = sigOf c → r.value.kind = .successfulCommand → ∀ k ∈ c.exp ++ c.imp,
    okInputKinds.contains (valueOf cs w k).kind = true ∨ rebuiltSince r.builtAt (resOf cs w k) = true

/-- the file informations in stored command values are ones the model's files have (`infoOf`): equal as soon as `same` -/
def ShapeInv (w : World) : Prop := ∀ n r, w.cmdDb n = some r → ∀ i ∈ r.value.infos, ∃ x, i = infoOf x

structure WorldInv (m : Manifest) (w : World) : Prop where
  inv0 : Inv0 m.cmds w
  phony : PhonyInv m.cmds w
  s : SInv m.cmds w
  d : DepsAll m.cmds w
  sh : ShapeInv w
  t : TInv m w
  k : KInv m w

/-! ### `Settled` unfolded -/

theorem settled_nil (cs : List Command) (w : World) (p : Path) : Settled cs w [] p = SrcSettled w p := rfl

theorem settled_skip {cs : List Command} {w : World} {q : Command} {rest : List Command} {p : Path} (h : p ∉ q.outs) :
    Settled cs w (q :: rest) p = Settled cs w rest p := by
  simp [Settled, h]

theorem settled_phony {cs : List Command} {w : World} {q : Command} {rest : List Command} {p : Path} (h : p ∈ q.outs)
    (hp : q.phony = true) :
    Settled cs w (q :: rest) p = ∃ r, w.cmdDb q.name = some r ∧ r.sig = sigOf q ∧ r.value.kind = .successfulCommand ∧
      ∀ k ∈ q.exp ++ q.imp, Settled cs w rest k ∧ rebuiltSince r.builtAt (resOf cs w k) = false := by
  simp [Settled, h, hp]

theorem settled_real {cs : List Command} {w : World} {q : Command} {rest : List Command} {p : Path} (h : p ∈ q.outs)
    (hp : q.phony = false) :
    Settled cs w (q :: rest) p = ∃ x, resOf cs w p = some x ∧ x.value.kind = .successfulCommand ∧
      x.value.outputInfo.same (w.info p) = true ∧ (w.info p).isMissing = false := by
  simp [Settled, h, hp]

theorem resolve_skip {q : Command} {rest : List Command} {p : Path} (h : p ∉ q.outs) : resolve (q :: rest) p = resolve rest p := by
  simp [resolve, h]

theorem resolve_phony {q : Command} {rest : List Command} {p : Path} (h : p ∈ q.outs) (hp : q.phony = true) :
    resolve (q :: rest) p = (q.exp ++ q.imp).flatMap (resolve rest) := by
  simp [resolve, h, hp]

theorem resolve_real {q : Command} {rest : List Command} {p : Path} (h : p ∈ q.outs) (hp : q.phony = false) :
    resolve (q :: rest) p = [p] := by
  simp [resolve, h, hp]

/-! ### transitions as seen from the keys -/

/-- the part of `Settled` that only looks at the key itself -/
def LocalOK (cs : List Command) (w : World) (p : Path) : Prop :=
  match producer cs p with
  | none => SrcSettled w p
  | some q => ∃ x, resOf cs w p = some x ∧ x.value.kind = .successfulCommand ∧
      (q.phony = false → x.value.outputInfo.same (w.info p) = true ∧ (w.info p).isMissing = false)

/-- a transition `w → w'` at epoch `E`: at every key it is invisible, or visible as a change at epoch `E` or later,
or it leaves the key unsettled; the result of a phony command last built before `E` is untouched -/
structure KeyHyp (cs : List Command) (E : Nat) (w w' : World) : Prop where
  key : ∀ p, (w'.files p = w.files p ∧ (resOf cs w' p).map vc = (resOf cs w p).map vc) ∨
    (∃ x, resOf cs w' p = some x ∧ E ≤ x.computedAt) ∨ ¬ LocalOK cs w' p
  phony : ∀ q ∈ cs, q.phony = true → ∀ r', w'.cmdDb q.name = some r' → r'.builtAt < E → w.cmdDb q.name = some r'

theorem rebuiltSince_false {b : Nat} {x : Option Result} (h : rebuiltSince b x = false) : ∃ r, x = some r ∧ r.computedAt ≤ b := by
  cases x with
  | none => simp [rebuiltSince] at h
  | some r => exact ⟨r, rfl, by simpa [rebuiltSince] using h⟩

theorem map_vc_eq {x' x : Option Result} (h : x'.map vc = x.map vc) {r' : Result} (hr : x' = some r') :
    ∃ r, x = some r ∧ r.value = r'.value ∧ r.computedAt = r'.computedAt := by
  subst hr
  cases x with
  | none => simp at h
  | some r =>
    simp only [Option.map_some, Option.some.injEq, vc, Prod.mk.injEq] at h
    exact ⟨r, rfl, h.1.symm, h.2.symm⟩

theorem resOf_phony {cs : List Command} (hwf : wfFrom [] cs = true) {w : World} {q : Command} (hq : q ∈ cs) (hp : q.phony = true)
    {before rest : List Command} (hat : At cs before q rest) {p : Path} (hpo : p ∈ q.outs) :
    resOf cs w p = (w.cmdDb q.name).map (·.toResult) := by
  have hl := (hat.cmdWF.phony hp).1
  simp only [resOf, producer_of_mem hwf hq hpo, outView, hl, beq_self_eq_true, ↓reduceIte]
  cases w.cmdDb q.name <;> rfl

/-- the core of the preservation argument: a key that is settled after the transition and whose view did not change
at epoch `E` or later was settled before, with the same view, and the files it stands for are untouched -/
theorem settled_back {cs : List Command} (hwf : wfFrom [] cs = true) {E : Nat} {w w' : World} (hk : KeyHyp cs E w w')
    (hph : PhonyInv cs w') : ∀ (l post : List Command), cs = l.reverse ++ post → ∀ (p : Path) (b : Nat), b < E →
    (producer cs p = none ∨ ∃ q ∈ l, p ∈ q.outs) → Settled cs w' l p → rebuiltSince b (resOf cs w' p) = false →
    Settled cs w l p ∧ rebuiltSince b (resOf cs w p) = false ∧ w'.files p = w.files p ∧
      ∀ f ∈ resolve l p, w'.files f = w.files f := by
  intro l
  induction l with
  | nil =>
    intro post _ p b hb hsrc hs hr
    have hnone : producer cs p = none := by
      rcases hsrc with h | ⟨q, hq, _⟩
      · exact h
      · cases hq
    rw [settled_nil] at hs ⊢
    obtain ⟨r', hr', hle⟩ := rebuiltSince_false hr
    rcases hk.key p with ⟨hf, hv⟩ | ⟨x, hx, hxe⟩ | hno
    · obtain ⟨r, hr0, hrv, hrc⟩ := map_vc_eq hv hr'
      refine ⟨?_, by rw [hr0]; simp [rebuiltSince, hrc]; omega, hf, fun f hf' => by simp [resolve] at hf'; subst hf'; exact hf⟩
      obtain ⟨s', hs', hsv⟩ := hs
      simp only [resOf, hnone] at hr' hr0
      rw [hs'] at hr'; cases hr'
      exact ⟨r, hr0, by simpa only [World.info, hf, hrv] using hsv⟩
    · rw [hr'] at hx; cases hx; omega
    · exact absurd (by simpa [LocalOK, hnone] using hs) hno
  | cons q l ih =>
    intro post hsplit p b hb hsrc hs hr
    have hat : At cs l q post := ⟨by rw [hsplit]; simp, hwf⟩
    by_cases hpo : p ∈ q.outs
    · have hprod : producer cs p = some q := hat.producer_out hpo
      cases hp : q.phony with
      | false =>
        rw [settled_real hpo hp] at hs ⊢
        rw [resolve_real hpo hp]
        obtain ⟨x', hx', hkind, hsame, hmiss⟩ := hs
        obtain ⟨r', hr', hle⟩ := rebuiltSince_false hr
        rw [hx'] at hr'; cases hr'
        rcases hk.key p with ⟨hf, hv⟩ | ⟨x, hx, hxe⟩ | hno
        · obtain ⟨r, hr0, hrv, hrc⟩ := map_vc_eq hv hx'
          refine ⟨⟨r, hr0, by rw [hrv]; exact hkind, by simpa only [World.info, hf, hrv] using hsame,
            by simpa only [World.info, hf] using hmiss⟩, by rw [hr0]; simp [rebuiltSince, hrc]; omega, hf,
            fun f hf' => by simp at hf'; subst hf'; exact hf⟩
        · rw [hx'] at hx; cases hx; omega
        · exact absurd (by simp only [LocalOK, hprod]; exact ⟨x', hx', hkind, fun _ => ⟨hsame, hmiss⟩⟩) hno
      | true =>
        rw [settled_phony hpo hp] at hs ⊢
        rw [resolve_phony hpo hp]
        obtain ⟨r', hr', hsig, hkind, hins⟩ := hs
        have hview' : resOf cs w' p = some r'.toResult := by rw [resOf_phony hwf hat.mem hp hat hpo, hr']; rfl
        obtain ⟨x, hx, hle⟩ := rebuiltSince_false hr
        rw [hview'] at hx; cases hx
        have hbuilt : r'.builtAt < E := by
          have := (hph q hat.mem hp r' hr' hsig hkind).1
          simp only [CmdResult.toResult] at hle
          omega
        have hold : w.cmdDb q.name = some r' := hk.phony q hat.mem hp r' hr' hbuilt
        have hview : resOf cs w p = some r'.toResult := by rw [resOf_phony hwf hat.mem hp hat hpo, hold]; rfl
        have hkids : ∀ k ∈ q.exp ++ q.imp, Settled cs w l k ∧ rebuiltSince r'.builtAt (resOf cs w k) = false ∧
            w'.files k = w.files k ∧ ∀ f ∈ resolve l k, w'.files f = w.files f := by
          intro k hkm
          have hsrc' : producer cs k = none ∨ ∃ q' ∈ l, k ∈ q'.outs := by
            rcases hat.producer_in (p := k) (by simp only [List.mem_append] at hkm ⊢; rcases hkm with h | h <;> simp [h]) with h | ⟨q', hq', hq'l⟩
            · exact Or.inl h
            · exact Or.inr ⟨q', hq'l, (producer_some hq').2⟩
          exact ih (q :: post) (by rw [hsplit]; simp) k r'.builtAt hbuilt hsrc' (hins k hkm).1 (hins k hkm).2
        refine ⟨⟨r', hold, hsig, hkind, fun k hkm => ⟨(hkids k hkm).1, (hkids k hkm).2.1⟩⟩, by rw [hview]; simpa [rebuiltSince] using hle, ?_, ?_⟩
        · rcases hk.key p with ⟨hf, _⟩ | ⟨x, hx, hxe⟩ | hno
          · exact hf
          · rw [hview'] at hx; cases hx; simp only [CmdResult.toResult] at hle hxe; omega
          · exact absurd (by simp only [LocalOK, hprod]; exact ⟨_, hview', hkind, fun h => by rw [hp] at h; cases h⟩) hno
        · intro f hf
          simp only [List.mem_flatMap] at hf
          obtain ⟨k, hkm, hfk⟩ := hf
          exact (hkids k hkm).2.2.2 f hfk
    · rw [settled_skip hpo] at hs ⊢
      rw [resolve_skip hpo]
      have hsrc' : producer cs p = none ∨ ∃ q' ∈ l, p ∈ q'.outs := by
        rcases hsrc with h | ⟨q', hq', hpq'⟩
        · exact Or.inl h
        · rcases List.mem_cons.1 hq' with rfl | hq'
          · exact absurd hpq' hpo
          · exact Or.inr ⟨q', hq', hpq'⟩
      exact ih (q :: post) (by rw [hsplit]; simp) p b hb hsrc' hs hr


/-! ### the keys of a command after its task completed -/

theorem view_complete (E : Nat) (prior : Option CmdResult) (v : BuildValue) (force : Bool) {n i : Nat} {sg : Sig} (hi : i < n) :
    outView (completeCmd E prior v force n sg) n i =
      if n == 1 then some ⟨v, E, (completeCmd E prior v force n sg).computedAt⟩
      else (selectValue v i).map fun vf => ⟨vf.1, E, selChanged E prior v i⟩ := by
  unfold outView
  split
  · simp [CmdResult.toResult]
  · simp only [completeCmd_value, completeCmd_builtAt]
    have : (completeCmd E prior v force n sg).outChanged.getD i (completeCmd E prior v force n sg).computedAt = selChanged E prior v i := by
      simp [completeCmd, List.getD_eq_getElem?_getD, hi]
    rw [this]
    cases selectValue v i <;> rfl

/-- the infos of a selected value come from the composite value (or are the zero info) -/
theorem selectValue_infos {comp : BuildValue} {i : Nat} {vf : BuildValue × Bool} (h : selectValue comp i = some vf) :
    ∀ j ∈ vf.1.infos, j ∈ comp.infos ∨ j = FInfo.missing := by
  unfold selectValue at h
  split at h
  · cases h; intro j hj; exact Or.inl hj
  · split at h
    · cases h
    · rename_i st hst
      cases h
      intro j hj
      simp only [List.mem_singleton] at hj
      subst hj
      unfold BuildValue.nthInfo at hst
      split at hst
      · exact Or.inl (List.mem_of_getElem? hst)
      · cases hst
        cases hc : comp.infos with
        | nil => exact Or.inr rfl
        | cons a l => exact Or.inl (by simp)

/-- after the completion of the task of a command with `n` outputs, the view of output `i` either changed at epoch
`E`, or is what it was (same value, same change epoch) -/
theorem view_complete_cases (E : Nat) (prior : Option CmdResult) (v : BuildValue) (force : Bool) {n i : Nat} {sg : Sig} (hi : i < n)
    (hsh : (v.kind = .successfulCommand → v.infos.length = n) ∧ v.kind ∈ okKinds) :
    (∃ x, outView (completeCmd E prior v force n sg) n i = some x ∧ x.computedAt = E) ∨
    (∃ r x x0, prior = some r ∧ outView (completeCmd E prior v force n sg) n i = some x ∧ outView r n i = some x0 ∧
      x.value = x0.value ∧ x.computedAt = x0.computedAt) := by
  obtain ⟨y, hy⟩ := outView_some (r := completeCmd E prior v force n sg) hi (by simpa using hsh)
  rw [view_complete E prior v force hi] at hy ⊢
  by_cases hn : (n == 1) = true
  · simp only [hn, ↓reduceIte, Option.some.injEq, exists_eq_left']
    rcases completeCmd_computedAt E prior v force n sg with h | ⟨r, h1, _, h3, h4⟩
    · exact Or.inl h
    · right
      refine ⟨r, _, r.toResult, h1, rfl, by simp [outView, hn], by simpa [CmdResult.toResult] using h3, by simpa [CmdResult.toResult] using h4⟩
  · simp only [hn, Bool.false_eq_true, ↓reduceIte] at hy ⊢
    cases hsv : selectValue v i with
    | none => rw [hsv] at hy; cases hy
    | some vf =>
      simp only [Option.map_some, Option.some.injEq, exists_eq_left']
      rcases selChanged_cases E prior v i with h | ⟨r, vf', old, h1, h2, h3, _, h5, h6⟩
      · exact Or.inl h
      · right
        rw [hsv] at h2; cases h2
        refine ⟨r, _, ⟨old.1, r.builtAt, r.outChanged.getD i r.computedAt⟩, h1, rfl, by simp [outView, hn, h3], h5, h6⟩

theorem info_stamp_of_files {w : World} {p : Path} {x : Content} {s : Nat} (h : w.files p = some ⟨x, s⟩) :
    (w.info p).mtime.sec = s := by
  simp [World.info, h, infoOf]

/-- (U) after the task of `c` ran, each of its outputs either looks the same to its consumers (same file, same value,
same change epoch) or its view changed at the current epoch -/
theorem runTask_key {m : Manifest} {before rest : List Command} {c : Command} {w : World} (hat : At m.cmds before c rest)
    (h : Inv0 m.cmds w) {o : Path} (ho : o ∈ c.outs) :
    ((runTask m before w.epoch c w).1.files o = w.files o ∧
      (resOf m.cmds (runTask m before w.epoch c w).1 o).map vc = (resOf m.cmds w o).map vc) ∨
    (∃ x, resOf m.cmds (runTask m before w.epoch c w).1 o = some x ∧ w.epoch ≤ x.computedAt) := by
  have hi := idxOf_lt ho
  have hprod := hat.producer_out ho
  -- the three shapes of the new world
  have key : ∀ (w1 : World) (v : BuildValue) (force : Bool), w1.cmdDb = w.cmdDb →
      ((v.kind = .successfulCommand → v.infos.length = c.outs.length) ∧ v.kind ∈ okKinds) →
      (w1.files o = w.files o ∨ (v = computeResult (kOf w c) (c.outs.map w1.info) ∧
        ∃ x s, w1.files o = some ⟨x, s⟩ ∧ w.clock < s)) →
      ((setCmd w1 c (completeCmd w.epoch (w.cmdDb c.name) v force c.outs.length (sigOf c))).files o = w.files o ∧
        (resOf m.cmds (setCmd w1 c (completeCmd w.epoch (w.cmdDb c.name) v force c.outs.length (sigOf c))) o).map vc = (resOf m.cmds w o).map vc) ∨
      (∃ x, resOf m.cmds (setCmd w1 c (completeCmd w.epoch (w.cmdDb c.name) v force c.outs.length (sigOf c))) o = some x ∧ w.epoch ≤ x.computedAt) := by
    intro w1 v force hdb hsh hfile
    have hres' : resOf m.cmds (setCmd w1 c (completeCmd w.epoch (w.cmdDb c.name) v force c.outs.length (sigOf c))) o =
        outView (completeCmd w.epoch (w.cmdDb c.name) v force c.outs.length (sigOf c)) c.outs.length (c.outs.idxOf o) := by
      simp [resOf, hprod]
    rw [hres']
    rcases view_complete_cases w.epoch (w.cmdDb c.name) v force hi hsh with ⟨x, hx, hxe⟩ | ⟨r, x, x0, hr, hx, hx0, hval, hce⟩
    · exact Or.inr ⟨x, hx, by omega⟩
    · have hres : resOf m.cmds w o = some x0 := by simp [resOf, hprod, hr, hx0]
      rcases hfile with hf | ⟨hv, y, s, hy, hs⟩
      · left
        refine ⟨by simpa using hf, ?_⟩
        rw [hx, hres]; simp [vc, hval, hce]
      · -- the file carries a fresh stamp, so the value handed to consumers cannot be the stored one
        exfalso
        have hinfo : (w1.info o).mtime.sec = s := info_stamp_of_files hy
        have hmem : w1.info o ∈ x.value.infos := by
          rw [view_complete w.epoch (w.cmdDb c.name) v force hi] at hx
          by_cases hn : (c.outs.length == 1) = true
          · simp only [hn, ↓reduceIte, Option.some.injEq] at hx
            subst hx
            simp only [hv, computeResult, List.mem_map]
            exact ⟨o, ho, rfl⟩
          · simp only [hn, Bool.false_eq_true, ↓reduceIte] at hx
            have hlen : 1 < c.outs.length := by
              have : c.outs.length ≠ 1 := by simpa using hn
              omega
            have hsel : selectValue v (c.outs.idxOf o) =
                some ({ kind := .successfulCommand, hash := (kOf w c).hash, infos := [w1.info o] }, false) := by
              subst hv
              simp [selectValue, computeResult, BuildValue.nthInfo, hlen, hi]
            rw [hsel] at hx
            simp only [Option.map_some, Option.some.injEq] at hx
            subst hx
            simp
        rw [hval] at hmem
        have hst : (w1.info o).mtime.sec ≤ w.clock := by
          unfold outView at hx0
          split at hx0
          · cases hx0
            exact h.cmdStamps _ r hr _ hmem
          · split at hx0
            · rename_i vf hvf
              cases hx0
              rcases selectValue_infos hvf _ hmem with hm | hm
              · exact h.cmdStamps _ r hr _ hm
              · rw [hm]; simp [FInfo.missing]
            · cases hx0
        omega
  cases hd : decisionOf m.cmds w c with
  | complete v force =>
    rw [runTask_complete hd]
    have hsh : (v.kind = .successfulCommand → v.infos.length = c.outs.length) ∧ v.kind ∈ okKinds := by
      rcases decision_complete_value hd with rfl | rfl
      · exact skipped_shape _
      · exact computeResult_shape _ _ _ (by simp)
    exact key w v force rfl hsh (Or.inl rfl)
  | execute =>
    cases hf : w.failing c.name with
    | true =>
      rw [runTask_fail hd hf]
      exact key w .failed true rfl (failed_shape _) (Or.inl rfl)
    | false =>
      rw [runTask_exec hd hf]
      refine key (written m before c w) _ (!c.restat) rfl (computeResult_shape _ _ _ (by simp)) ?_
      rcases written_file_cases m before c w hat.cmdWF.nodup ho with ⟨h1, _, _⟩ | ⟨s, h1, h2, _⟩
      · exact Or.inl h1
      · exact Or.inr ⟨rfl, _, s, h1, h2⟩

/-! ### transporting `KInv` across a transition -/

theorem mem_readsOf {before : List Command} {c : Command} {f : Path} (hf : f ∈ readsOf before c) :
    (∃ k ∈ c.exp ++ c.imp, f ∈ resolve before k) ∨ f ∈ c.deps := by
  simp only [readsOf, List.mem_append, List.mem_flatMap] at hf
  rcases hf with ⟨k, hk, hfk⟩ | hf
  · exact Or.inl ⟨k, by simpa using hk, hfk⟩
  · exact Or.inr hf

theorem infosMatch_congr {c : Command} {v : BuildValue} {w w' : World} (h : ∀ o ∈ c.outs, w'.files o = w.files o)
    (hm : InfosMatch c v w') : InfosMatch c v w := by
  intro i hi
  have := hm i hi
  simpa only [World.info, h _ (List.getElem_mem hi)] using this

/-- a command other than the one being processed: if the transition is a `KeyHyp` transition that leaves the command's
own result and outputs alone, and the command was last built before `E`, the `KInv` clause carries over -/
theorem kinv_transport {m : Manifest} (hwf : wfFrom [] m.cmds = true) {E : Nat} {w w' : World}
    (hk : KeyHyp m.cmds E w w') (hph : PhonyInv m.cmds w') (hK : KInv m w)
    {before rest : List Command} {c : Command} (hat : At m.cmds before c rest) (hp : c.phony = false)
    (hdb : w'.cmdDb c.name = w.cmdDb c.name) (hb : ∀ r, w.cmdDb c.name = some r → r.builtAt < E)
    (houts : ∀ o ∈ c.outs, w'.files o = w.files o) :
    ∀ r, w'.cmdDb c.name = some r → r.sig = sigOf c → r.value.kind = .successfulCommand → InfosMatch c r.value w' →
      DepsOK m.cmds w' before c r.builtAt → FreshWith m before c w' r.value.hash := by
  intro r hr hsig hkind hmatch hdeps
  rw [hdb] at hr
  have hback : ∀ k ∈ depKeys c, Settled m.cmds w before k ∧ rebuiltSince r.builtAt (resOf m.cmds w k) = false ∧
      w'.files k = w.files k ∧ ∀ f ∈ resolve before k, w'.files f = w.files f := by
    intro k hkm
    have hsrc : producer m.cmds k = none ∨ ∃ q ∈ before, k ∈ q.outs := by
      rcases hat.producer_in (insAll_sub c k (depKeys_sub_insAll c k hkm)) with h | ⟨q, hq, hqb⟩
      · exact Or.inl h
      · exact Or.inr ⟨q, hqb, (producer_some hq).2⟩
    exact settled_back hwf hk hph before (c :: rest) hat.split k r.builtAt (hb r hr) hsrc (hdeps k hkm).1 (hdeps k hkm).2
  have hfresh := hK before c rest hat hp r hr hsig hkind (infosMatch_congr houts hmatch)
    (fun k hkm => ⟨(hback k hkm).1, (hback k hkm).2.1⟩)
  have hreads : (readsOf before c).map w'.content = (readsOf before c).map w.content := by
    apply List.map_congr_left
    intro f hf
    simp only [World.content]
    rcases mem_readsOf hf with ⟨k, hkm, hfk⟩ | hfd
    · have hkd : k ∈ depKeys c := by
        simp only [depKeys, List.mem_append] at hkm ⊢
        exact Or.inl hkm
      rw [(hback k hkd).2.2.2 f hfk]
    · have hkd : f ∈ depKeys c := by
        simp only [depKeys, List.mem_append]
        right
        cases hd : c.hasDeps with
        | true => simpa using hfd
        | false => rw [hat.cmdWF.deps hd] at hfd; cases hfd
      rw [(hback f hkd).2.2.1]
  intro o ho
  rw [hreads]
  simp only [World.content, houts o ho]
  exact hfresh o ho

/-! ### `KeyHyp` of the transitions -/

theorem KeyHyp.refl (cs : List Command) (E : Nat) (w : World) : KeyHyp cs E w w :=
  ⟨fun _ => Or.inl ⟨rfl, rfl⟩, fun _ _ _ _ h _ => h⟩

theorem resOf_db_congr {cs : List Command} {w w' : World} (h1 : w'.srcDb = w.srcDb) (h2 : w'.cmdDb = w.cmdDb) (p : Path) :
    resOf cs w' p = resOf cs w p := by
  simp only [resOf, h1, h2]

/-- a transition that leaves the database alone: every key whose file changed must be left unsettled -/
theorem keyHyp_of_files {cs : List Command} {E : Nat} {w w' : World} (h1 : w'.srcDb = w.srcDb) (h2 : w'.cmdDb = w.cmdDb)
    (hch : ∀ p, w'.files p ≠ w.files p → ¬ LocalOK cs w' p) : KeyHyp cs E w w' := by
  refine ⟨fun p => ?_, fun q _ _ r' hr' _ => by rw [← h2]; exact hr'⟩
  by_cases hf : w'.files p = w.files p
  · exact Or.inl ⟨hf, by rw [resOf_db_congr h1 h2]⟩
  · exact Or.inr (Or.inr (hch p hf))

theorem outputInfo_stamp {v : BuildValue} {b : Nat} (h : ∀ i ∈ v.infos, i.mtime.sec ≤ b) : v.outputInfo.mtime.sec ≤ b := by
  unfold BuildValue.outputInfo
  cases hv : v.infos with
  | nil => simp [FInfo.missing]
  | cons a l => simpa using h a (by simp [hv])

theorem same_mtime {a b : FInfo} (h : a.same b = true) : a.mtime = b.mtime := by
  simp only [FInfo.same, Bool.and_eq_true, beq_iff_eq] at h
  exact h.2

/-- a source file written with a stamp above the clock is not settled -/
theorem not_localOK_fresh {cs : List Command} {w w' : World} (h : Inv0 cs w) {p : Path} (hp : producer cs p = none)
    (hs : w'.srcDb = w.srcDb) {x : Content} {s : Nat} (hf : w'.files p = some ⟨x, s⟩) (hgt : w.clock < s) : ¬ LocalOK cs w' p := by
  simp only [LocalOK, hp]
  rintro ⟨r, hr, hv⟩
  rw [hs] at hr
  have hst := outputInfo_stamp (h.srcStamps p r hr)
  have hinfo : w'.info p = ⟨1, 1, 1, 1, ⟨s, 0⟩⟩ := by simp [World.info, hf, infoOf]
  rcases hv with hv | ⟨_, hm⟩
  · simp only [inputIsResultValid, Bool.and_eq_true] at hv
    have := same_mtime hv.2
    rw [hinfo] at this
    rw [this] at hst
    simp at hst
    omega
  · rw [hinfo] at hm
    simp [FInfo.isMissing] at hm

theorem keyHyp_edit {cs : List Command} {w : World} (h : Inv0 cs w) {e : Edit} (he : e.ok cs) :
    KeyHyp cs (w.epoch + 1) w (applyEdit w e) := by
  cases e with
  | write p x =>
    simp only [Edit.ok] at he
    refine keyHyp_of_files rfl rfl (fun q hq => ?_)
    by_cases hqp : q = p
    · subst hqp
      exact not_localOK_fresh h he rfl (x := x) (s := w.clock + 1) (by simp [applyEdit]) (Nat.lt_succ_self _)
    · exact absurd (by simp [applyEdit, upd, hqp]) hq
  | touch p =>
    simp only [Edit.ok] at he
    simp only [applyEdit]
    cases hf : w.files p with
    | none => exact KeyHyp.refl _ _ _
    | some f0 =>
      refine keyHyp_of_files rfl rfl (fun q hq => ?_)
      by_cases hqp : q = p
      · subst hqp
        exact not_localOK_fresh h he rfl (x := f0.content) (s := w.clock + 1) (by simp) (Nat.lt_succ_self _)
      · exact absurd (by simp [upd, hqp]) hq
  | writeAt p x s => exact absurd he (by simp [Edit.ok])
  | delete p =>
    refine keyHyp_of_files rfl rfl (fun q hq => ?_)
    by_cases hqp : q = p
    · subst hqp
      simp only [Edit.ok] at he
      cases hprod : producer cs q with
      | none => exact absurd hprod he
      | some c =>
        obtain ⟨hc, hqc⟩ := producer_some hprod
        simp only [LocalOK, hprod]
        rintro ⟨x, _, _, hx⟩
        cases hph : c.phony with
        | true => exact hq (by simp [applyEdit, h.phonyAbsent c hc hph q hqc])
        | false =>
          have := (hx hph).2
          simp [applyEdit, World.info, infoOf, FInfo.missing, FInfo.isMissing] at this
    · exact absurd (by simp [applyEdit, upd, hqp]) hq
  | setHash n x => exact keyHyp_of_files rfl rfl (fun q hq => absurd rfl hq)
  | setFail n b => exact keyHyp_of_files rfl rfl (fun q hq => absurd rfl hq)

theorem keyHyp_refreshSrc {cs : List Command} {w : World} {p : Path} (hp : producer cs p = none) :
    KeyHyp cs w.epoch w (refreshSrc w.epoch p w) := by
  refine ⟨fun q => ?_, fun q _ _ r' hr' _ => by
    have : (refreshSrc w.epoch p w).cmdDb = w.cmdDb := by
      unfold refreshSrc; cases w.srcDb p with
      | none => rfl
      | some r => simp only; split <;> rfl
    rw [← this]; exact hr'⟩
  have hfiles : (refreshSrc w.epoch p w).files = w.files := refreshSrc_files _ _ _
  have hcmd : (refreshSrc w.epoch p w).cmdDb = w.cmdDb := by
    unfold refreshSrc; cases w.srcDb p with
    | none => rfl
    | some r => simp only; split <;> rfl
  by_cases hqp : q = p
  · subst hqp
    have key : ∀ prior : Option Result, w.srcDb q = prior →
        let w' : World := { w with srcDb := upd w.srcDb q (some (completeWith w.epoch prior (inputValue (w.info q)) false)) }
        (w'.files q = w.files q ∧ (resOf cs w' q).map vc = (resOf cs w q).map vc) ∨
          (∃ x, resOf cs w' q = some x ∧ w.epoch ≤ x.computedAt) := by
      intro prior hprior
      simp only [resOf, hp, upd_same]
      rcases completeWith_computedAt w.epoch prior (inputValue (w.info q)) false with h | ⟨r, h1, _, h3, h4⟩
      · exact Or.inr ⟨_, rfl, by rw [h]; exact Nat.le_refl _⟩
      · left
        refine ⟨trivial, ?_⟩
        rw [hprior, h1]
        subst h1
        rw [h3] at h4
        simp [vc, completeWith_value, h3, h4]
    unfold refreshSrc
    cases hr : w.srcDb q with
    | none =>
      rcases key none hr with h | h
      · exact Or.inl h
      · exact Or.inr (Or.inl h)
    | some r =>
      simp only
      split
      · exact Or.inl ⟨rfl, rfl⟩
      · rcases key (some r) hr with h | h
        · exact Or.inl h
        · exact Or.inr (Or.inl h)
  · left
    refine ⟨by rw [hfiles], ?_⟩
    simp only [resOf, hcmd, refreshSrc_other _ _ _ hqp]

/-- a step on command `c` -/
theorem keyHyp_runTask {m : Manifest} {before rest : List Command} {c : Command} {w : World} (hat : At m.cmds before c rest)
    (h : Inv0 m.cmds w) : KeyHyp m.cmds w.epoch w (runTask m before w.epoch c w).1 := by
  have hfr := runTask_frame m before w.epoch c w
  refine ⟨fun p => ?_, fun q hq hqp r' hr' hlt => ?_⟩
  · by_cases hpo : p ∈ c.outs
    · rcases runTask_key hat h hpo with h1 | h1
      · exact Or.inl h1
      · exact Or.inr (Or.inl h1)
    · exact Or.inl ⟨hfr.files p hpo, by rw [hfr.resOf_eq hat.wf hat.mem hpo]⟩
  · by_cases hn : q.name = c.name
    · exfalso
      have hb : ∀ r'', (runTask m before w.epoch c w).1.cmdDb c.name = some r'' → r''.builtAt = w.epoch := by
        intro r'' hr''
        cases hd : decisionOf m.cmds w c with
        | complete v force =>
          rw [runTask_complete hd] at hr''
          simp only [setCmd_cmdDb_self, Option.some.injEq] at hr''
          rw [← hr'']; simp
        | execute =>
          cases hf : w.failing c.name with
          | true =>
            rw [runTask_fail hd hf] at hr''
            simp only [setCmd_cmdDb_self, Option.some.injEq] at hr''
            rw [← hr'']; simp
          | false =>
            rw [runTask_exec hd hf] at hr''
            simp only [setCmd_cmdDb_self, Option.some.injEq] at hr''
            rw [← hr'']; simp
      rw [hn] at hr'
      have := hb r' hr'
      omega
    · rw [hfr.cmdDb q.name hn] at hr'
      exact hr'

/-! ### keys produced before the command being processed do not see its step -/

theorem settled_frame {cs : List Command} {before rest : List Command} {c : Command} (hat : At cs before c rest)
    {w w' : World} (hf : Frame c w w') : ∀ (l pre : List Command), before = pre ++ l → ∀ p, p ∉ c.outs →
    (Settled cs w' l p ↔ Settled cs w l p) := by
  intro l
  induction l with
  | nil =>
    intro pre _ p hp
    simp only [settled_nil, SrcSettled, hf.srcDb, hf.info hp]
  | cons q l ih =>
    intro pre hpre p hp
    have hq : q ∈ before := by rw [hpre]; simp
    by_cases hpo : p ∈ q.outs
    · cases hph : q.phony with
      | false =>
        rw [settled_real hpo hph, settled_real hpo hph, hf.resOf_eq hat.wf hat.mem hp, hf.info hp]
      | true =>
        rw [settled_phony hpo hph, settled_phony hpo hph, hf.cmdDb q.name (hat.name_ne_before hq)]
        obtain ⟨b, r, hatq, _, hcr, _⟩ := hat.of_before hq
        have hin : ∀ k ∈ q.exp ++ q.imp, k ∉ c.outs := fun k hk hkc => by
          have := hatq.cmdWF.ins_rest k (by simp only [List.mem_append] at hk ⊢; rcases hk with h | h <;> simp [h])
          rw [producer_none_iff] at this
          exact this c hcr hkc
        constructor
        · rintro ⟨r, hr, hsg, hkind, hins⟩
          exact ⟨r, hr, hsg, hkind, fun k hk => ⟨(ih (pre ++ [q]) (by rw [hpre]; simp) k (hin k hk)).1 (hins k hk).1,
            by rw [← hf.resOf_eq hat.wf hat.mem (hin k hk)]; exact (hins k hk).2⟩⟩
        · rintro ⟨r, hr, hsg, hkind, hins⟩
          exact ⟨r, hr, hsg, hkind, fun k hk => ⟨(ih (pre ++ [q]) (by rw [hpre]; simp) k (hin k hk)).2 (hins k hk).1,
            by rw [hf.resOf_eq hat.wf hat.mem (hin k hk)]; exact (hins k hk).2⟩⟩
    · rw [settled_skip hpo, settled_skip hpo]
      exact ih (pre ++ [q]) (by rw [hpre]; simp) p hp

/-- the dependencies of the command being processed do not see its own step -/
theorem depsOK_frame {cs : List Command} {before rest : List Command} {c : Command} (hat : At cs before c rest)
    {w w' : World} (hf : Frame c w w') (b : Nat) : DepsOK cs w' before c b ↔ DepsOK cs w before c b := by
  have hno : ∀ k ∈ depKeys c, k ∉ c.outs := fun k hk => hat.cmdWF.ins_not_out k (insAll_sub c k (depKeys_sub_insAll c k hk))
  constructor
  · intro h k hk
    exact ⟨(settled_frame hat hf before [] rfl k (hno k hk)).1 (h k hk).1,
      by rw [← hf.resOf_eq hat.wf hat.mem (hno k hk)]; exact (h k hk).2⟩
  · intro h k hk
    exact ⟨(settled_frame hat hf before [] rfl k (hno k hk)).2 (h k hk).1,
      by rw [hf.resOf_eq hat.wf hat.mem (hno k hk)]; exact (h k hk).2⟩

/-! ### `PhonyInv` -/

theorem phonyInv_of_cmdDb {cs : List Command} {w w' : World} (h : PhonyInv cs w) (hdb : w'.cmdDb = w.cmdDb) : PhonyInv cs w' := by
  intro c hc hp r hr hsg hk
  rw [hdb] at hr
  exact h c hc hp r hr hsg hk

theorem phonyInv_runTask {m : Manifest} {before rest : List Command} {c : Command} {w : World} (hat : At m.cmds before c rest)
    (h0 : Inv0 m.cmds w) (h : PhonyInv m.cmds w) : PhonyInv m.cmds (runTask m before w.epoch c w).1 := by
  have hfr := runTask_frame m before w.epoch c w
  intro q hq hqp r hr hsg hkind
  by_cases hn : q.name = c.name
  · have := name_inj hat.wf hat.mem hq hn
    subst this
    have hk : (kOf w q).phony = true := hqp
    cases hd : decisionOf m.cmds w q with
    | execute => rw [decision_execute_not_phony hd] at hqp; cases hqp
    | complete v force =>
      rw [runTask_complete hd] at hr
      simp only [setCmd_cmdDb_self, Option.some.injEq] at hr
      subst hr
      simp only [completeCmd_value] at hkind
      have hd' := hd
      simp only [decisionOf, inputsAvailable_default, hk, ↓reduceIte] at hd'
      split at hd'
      · cases hd'; simp [BuildValue.skipped] at hkind
      · cases hd'
        obtain ⟨hl, _⟩ := hat.cmdWF.phony hqp
        obtain ⟨o, ho⟩ : ∃ o, q.outs = [o] := by
          cases hq' : q.outs with
          | nil => rw [hq'] at hl; cases hl
          | cons a l => cases l with
            | nil => exact ⟨a, rfl⟩
            | cons b l => rw [hq'] at hl; simp at hl
        have habs : w.info o = FInfo.missing := by
          simp [World.info, h0.phonyAbsent q hq hqp o (by rw [ho]; simp), infoOf]
        have hforce : ((q.outs.map w.info).any (·.isMissing)) = true := by
          rw [ho]; simp [habs, FInfo.missing, FInfo.isMissing]
        simp only [hforce, completeCmd, completeWith_value, completeWith_builtAt]
        refine ⟨?_, ?_⟩
        · rcases completeWith_computedAt w.epoch ((w.cmdDb q.name).map (·.toResult)) (computeResult (kOf w q) (q.outs.map w.info)) true
            with h1 | ⟨_, _, h2, _⟩
          · exact h1
          · cases h2
        · rw [ho]; simp [computeResult, BuildValue.outputInfo, habs, FInfo.missing, FInfo.isMissing]
  · rw [hfr.cmdDb q.name hn] at hr
    exact h q hq hqp r hr hsg hkind

/-! ### `TInv` -/

theorem prov_mono {m : Manifest} {before : List Command} {c : Command} {w w' : World} {o : Path} {f : File}
    (hp : Prov m before c w o f)
    (hdb : c.generator = false → ∀ r, w'.cmdDb c.name = some r → r.sig = sigOf c → r.value.kind = .successfulCommand →
      ∃ r0, w.cmdDb c.name = some r0 ∧ r0.sig = sigOf c ∧ r0.value.kind = .successfulCommand ∧ r0.value.hash = r.value.hash)
    (hreads : ∀ pth ∈ readsOf before c, ∀ g, w'.files pth = some g → g.stamp ≤ f.stamp → w.files pth = some g) :
    Prov m before c w' o f := by
  obtain ⟨h', R, hc, hl, hcl, hg, hng⟩ := hp
  refine ⟨h', R, hc, hl, ?_, hg, ?_⟩
  · intro i pth Ri hi hRi g hg' hst
    exact hcl i pth Ri hi hRi g (hreads pth (List.mem_of_getElem? hi) g hg' hst) hst
  · intro hgen r hr hsg hk
    obtain ⟨r0, hr0, hsg0, hk0, hh⟩ := hdb hgen r hr hsg hk
    rw [← hh]
    exact hng hgen r0 hr0 hsg0 hk0

theorem resolve_mem : ∀ (l : List Command) (k f : Path), f ∈ resolve l k → f = k ∨ ∃ q ∈ l, f ∈ q.exp ++ q.imp := by
  intro l
  induction l with
  | nil => intro k f hf; simp [resolve] at hf; exact Or.inl hf
  | cons q l ih =>
    intro k f hf
    by_cases hko : k ∈ q.outs
    · cases hp : q.phony with
      | false => rw [resolve_real hko hp] at hf; simp at hf; exact Or.inl hf
      | true =>
        rw [resolve_phony hko hp, List.mem_flatMap] at hf
        obtain ⟨k', hk', hfk'⟩ := hf
        rcases ih k' f hfk' with h | ⟨q', hq', hfq'⟩
        · subst h; exact Or.inr ⟨q, List.mem_cons_self, hk'⟩
        · exact Or.inr ⟨q', List.mem_cons_of_mem _ hq', hfq'⟩
    · rw [resolve_skip hko] at hf
      rcases ih k f hf with h | ⟨q', hq', hfq'⟩
      · exact Or.inl h
      · exact Or.inr ⟨q', List.mem_cons_of_mem _ hq', hfq'⟩

/-- a command does not read its own outputs, nor those of later commands -/
theorem At.reads_not_out {cs before rest : List Command} {c : Command} (hat : At cs before c rest) {f : Path}
    (hf : f ∈ readsOf before c) : f ∉ c.outs ∧ ∀ q ∈ rest, f ∉ q.outs := by
  have hins : ∀ k ∈ c.exp ++ c.imp ++ c.oo ++ c.deps, k ∉ c.outs ∧ ∀ q ∈ rest, k ∉ q.outs := fun k hk =>
    ⟨hat.cmdWF.ins_not_out k hk, fun q hq => by
      have := hat.cmdWF.ins_rest k hk; rw [producer_none_iff] at this; exact this q hq⟩
  rcases mem_readsOf hf with ⟨k, hk, hfk⟩ | hfd
  · rcases resolve_mem before k f hfk with rfl | ⟨q, hq, hfq⟩
    · exact hins f (by simp only [List.mem_append] at hk ⊢; rcases hk with h | h <;> simp [h])
    · obtain ⟨b, r, hatq, _, hcr, hrr⟩ := hat.of_before hq
      have := hatq.cmdWF.ins_rest f (by simp only [List.mem_append] at hfq ⊢; rcases hfq with h | h <;> simp [h])
      rw [producer_none_iff] at this
      exact ⟨this c hcr, fun q' hq' => this q' (hrr q' hq')⟩
  · exact hins f (by simp [hfd])

theorem applyEdit_cmdDb' (w : World) (e : Edit) : (applyEdit w e).cmdDb = w.cmdDb := by
  cases e <;> simp only [applyEdit] <;> (try rfl)
  all_goals (split <;> rfl)

theorem tinv_edit {m : Manifest} {w : World} (h0 : Inv0 m.cmds w) (h : TInv m w) {e : Edit} (he : e.ok m.cmds) :
    TInv m (applyEdit w e) := by
  intro before c rest hat hp o ho f hf hu'
  have hu : Usable w c := hu'.of_cmdDb (by rw [applyEdit_cmdDb'])
  have hprod := hat.producer_out ho
  -- a file written with a fresh stamp
  have fresh : ∀ (p : Path) (x : Content), producer m.cmds p = none →
      (∀ q, ({ w with files := upd w.files p (some ⟨x, w.clock + 1⟩), clock := w.clock + 1 } : World).files q =
        if q = p then some ⟨x, w.clock + 1⟩ else w.files q) →
      ({ w with files := upd w.files p (some ⟨x, w.clock + 1⟩), clock := w.clock + 1 } : World).files o = some f →
      Prov m before c { w with files := upd w.files p (some ⟨x, w.clock + 1⟩), clock := w.clock + 1 } o f := by
    intro p x hnone hfiles hf
    have hop : o ≠ p := fun e => by subst e; rw [hnone] at hprod; cases hprod
    simp only [upd, hop, ↓reduceIte] at hf
    refine prov_mono (h before c rest hat hp o ho f hf hu) (fun _ r hr hsg hk => ⟨r, hr, hsg, hk, rfl⟩) ?_
    intro pth _ g hg hst
    simp only [upd] at hg
    split at hg
    · cases hg
      have := h0.fileStamps o f hf
      simp at hst; omega
    · exact hg
  cases e with
  | write p x => exact fresh p x he (fun q => by simp [upd]) hf
  | touch p =>
    simp only [applyEdit] at hf ⊢
    cases hfp : w.files p with
    | none => simp only [hfp] at hf ⊢; exact h before c rest hat hp o ho f hf hu
    | some f0 => simp only [hfp] at hf ⊢; exact fresh p f0.content he (fun q => by simp [upd]) hf
  | writeAt p x s => exact absurd he (by simp [Edit.ok])
  | delete p =>
    simp only [applyEdit, upd] at hf
    split at hf
    · cases hf
    · refine prov_mono (h before c rest hat hp o ho f hf hu) (fun _ r hr hsg hk => ⟨r, hr, hsg, hk, rfl⟩) ?_
      intro pth _ g hg _
      simp only [applyEdit, upd] at hg
      split at hg
      · cases hg
      · exact hg
  | setHash n x =>
    exact prov_mono (h before c rest hat hp o ho f hf hu) (fun _ r hr hsg hk => ⟨r, hr, hsg, hk, rfl⟩) (fun _ _ g hg _ => hg)
  | setFail n b =>
    exact prov_mono (h before c rest hat hp o ho f hf hu) (fun _ r hr hsg hk => ⟨r, hr, hsg, hk, rfl⟩) (fun _ _ g hg _ => hg)

theorem tinv_of_same {m : Manifest} {w w' : World} (h : TInv m w) (hf : w'.files = w.files) (hdb : w'.cmdDb = w.cmdDb) :
    TInv m w' := by
  intro before c rest hat hp o ho f hfo hu
  rw [hf] at hfo
  exact prov_mono (h before c rest hat hp o ho f hfo (hu.of_cmdDb (by rw [hdb]))) (fun _ r hr hsg hk => ⟨r, by rw [← hdb]; exact hr, hsg, hk, rfl⟩)
    (fun _ _ g hg _ => by rw [← hf]; exact hg)


theorem shortcut_prior {k : Cmd} {a : Acc} {prior : Option BuildValue} {outs : List FInfo}
    (h : shortcut {} k a prior outs = true) (hg : k.generator = false) :
    ∃ v, prior = some v ∧ v.kind = .successfulCommand ∧ v.hash = k.hash := by
  simp only [shortcut, Bool.and_eq_true, Bool.not_eq_true'] at h
  have hd := h.1.2
  simp only [shortcutDisabled, shortcutGeneratorExempt, shortcutRequiresPrior, shortcutComparesHash, hg, Bool.not_false,
    Bool.true_and, Bool.not_true, Bool.false_or, Bool.or_eq_false_iff, Bool.not_eq_false', bne_eq_false_iff_eq] at hd
  cases prior with
  | none => simp [priorOf] at hd
  | some v =>
    refine ⟨v, rfl, ?_⟩
    simp only [priorOf] at hd
    split at hd
    · rename_i hk
      exact ⟨by simpa using hk, hd.2⟩
    · simp at hd

/-- the decision completes with a successful value without executing a non-phony command: the shortcut fired -/
theorem decision_updated {cs : List Command} {w : World} {c : Command} {v : BuildValue} {force : Bool} (hp : c.phony = false)
    (hd : decisionOf cs w c = .complete v force) (hk : v.kind = .successfulCommand) :
    shortcut {} (kOf w c) (accOf cs w c) ((priorRow w c).map (·.value)) (c.outs.map w.info) = true ∧
    v = computeResult (kOf w c) (c.outs.map w.info) ∧ force = false := by
  have hkp : (kOf w c).phony = false := hp
  simp only [decisionOf, inputsAvailable_default, hkp, Bool.false_eq_true, ↓reduceIte] at hd
  split at hd
  · rename_i hs; cases hd; exact ⟨hs, rfl, rfl⟩
  · split at hd
    · cases hd; simp [BuildValue.skipped] at hk
    · cases hd

/-- a command occurs at one position only -/
theorem At.unique {cs b1 b2 r1 r2 : List Command} {c : Command} (h1 : At cs b1 c r1) (h2 : At cs b2 c r2) :
    b1 = b2 ∧ r1 = r2 := by
  have he : b1.reverse ++ c :: r1 = b2.reverse ++ c :: r2 := by rw [← h1.split, ← h2.split]
  rcases List.append_eq_append_iff.1 he with ⟨a, ha1, ha2⟩ | ⟨a, ha1, ha2⟩
  · cases a with
    | nil => simp at ha1 ha2; exact ⟨ha1.symm, ha2⟩
    | cons x a =>
      simp only [List.cons_append, List.cons.injEq] at ha2
      exfalso
      have : c ∈ b2 := by
        have : c ∈ b2.reverse := by rw [ha1]; simp [← ha2.1]
        simpa using this
      exact h2.name_ne_before this rfl
  · cases a with
    | nil => simp at ha1 ha2; exact ⟨ha1, ha2.symm⟩
    | cons x a =>
      simp only [List.cons_append, List.cons.injEq] at ha2
      exfalso
      have : c ∈ b1 := by
        have : c ∈ b1.reverse := by rw [ha1]; simp [← ha2.1]
        simpa using this
      exact h1.name_ne_before this rfl

theorem tinv_runTask {m : Manifest} {before rest : List Command} {c : Command} {w : World} (hat : At m.cmds before c rest)
    (h0 : Inv0 m.cmds w) (h : TInv m w) : TInv m (runTask m before w.epoch c w).1 := by
  have hfr := runTask_frame m before w.epoch c w
  intro b' c' r' hat' hp' o ho f hf hu'
  by_cases hcc : c' = c
  · subst hcc
    have hbb : b' = before ∧ r' = rest := At.unique hat' hat
    obtain ⟨rfl, rfl⟩ := hbb
    cases hd : decisionOf m.cmds w c' with
    | complete v force =>
      rw [runTask_complete hd] at hf hu' ⊢
      simp only [setCmd_files] at hf
      have hu : Usable w c' := by
        rcases hu' with hg | ⟨r, hr, _, hk⟩
        · exact Or.inl hg
        · simp only [setCmd_cmdDb_self, Option.some.injEq] at hr
          subst hr
          simp only [completeCmd_value] at hk
          cases hgen : c'.generator with
          | true => exact Or.inl hgen
          | false =>
            obtain ⟨hs, _, _⟩ := decision_updated hp' hd hk
            obtain ⟨v0, hv0, hk0, _⟩ := shortcut_prior hs (by simpa [kOf, Command.cmd] using hgen)
            cases hr0 : priorRow w c' with
            | none => rw [hr0] at hv0; cases hv0
            | some r0 =>
              rw [hr0] at hv0
              simp only [Option.map_some, Option.some.injEq] at hv0
              subst hv0
              exact Or.inr ⟨r0, (priorRow_some.1 hr0).1, (priorRow_some.1 hr0).2, hk0⟩
      refine prov_mono (h b' c' r' hat hp' o ho f hf hu) ?_ (fun _ _ g hg _ => hg)
      intro hgen r hr _ hk
      simp only [setCmd_cmdDb_self, Option.some.injEq] at hr
      subst hr
      simp only [completeCmd_value] at hk ⊢
      obtain ⟨hs, hv, _⟩ := decision_updated hp' hd hk
      obtain ⟨v0, hv0, hk0, hh0⟩ := shortcut_prior hs hgen
      cases hr0 : priorRow w c' with
      | none => rw [hr0] at hv0; cases hv0
      | some r0 =>
        rw [hr0] at hv0
        simp only [Option.map_some, Option.some.injEq] at hv0
        subst hv0
        exact ⟨r0, (priorRow_some.1 hr0).1, (priorRow_some.1 hr0).2, hk0, by rw [hh0, hv]; rfl⟩
    | execute =>
      cases hfl : w.failing c'.name with
      | true =>
        rw [runTask_fail hd hfl] at hf hu' ⊢
        simp only [setCmd_files] at hf
        have hu : Usable w c' := by
          rcases hu' with hg | ⟨r, hr, _, hk⟩
          · exact Or.inl hg
          · simp only [setCmd_cmdDb_self, Option.some.injEq] at hr
            subst hr
            simp [BuildValue.failed] at hk
        refine prov_mono (h b' c' r' hat hp' o ho f hf hu) ?_ (fun _ _ g hg _ => hg)
        intro _ r hr _ hk
        simp only [setCmd_cmdDb_self, Option.some.injEq] at hr
        subst hr
        simp [BuildValue.failed] at hk
      | false =>
        rw [runTask_exec hd hfl] at hf ⊢
        simp only [setCmd_files] at hf
        have hcontent : f.content = outContent m b' c' w o := by
          rcases written_file_cases m b' c' w hat.cmdWF.nodup ho with ⟨h1, _, f0, h2, h3⟩ | ⟨s, h1, _, _⟩
          · rw [h1, h2] at hf; cases hf; exact h3
          · rw [h1] at hf; cases hf; rfl
        refine ⟨c'.effHash (w.cmdline c'.name), (readsOf b' c').map w.content, hcontent, by simp, ?_, ?_, ?_⟩
        · intro i pth Ri hi hRi g hg _
          rw [List.getElem?_map, hi] at hRi
          simp only [Option.map_some, Option.some.injEq] at hRi
          subst hRi
          have hno := (hat.reads_not_out (List.mem_of_getElem? hi)).1
          simp only [setCmd_files, written_files_other m b' c' w hno] at hg
          simp [World.content, hg]
        · intro hg; simp [Command.effHash, hg]
        · intro hg r hr _ hk
          simp only [setCmd_cmdDb_self, Option.some.injEq] at hr
          subst hr
          simp [Command.effHash, hg, computeResult, kOf, Command.cmd]
  · -- another command: its outputs and its result are untouched, and what it reads is untouched or carries a fresh stamp
    have hne : c'.name ≠ c.name := fun e => hcc (name_inj hat.wf hat.mem hat'.mem e)
    have hoc : o ∉ c.outs := fun hoc => by
      have h1 := hat.producer_out hoc
      have h2 := hat'.producer_out ho
      rw [h1] at h2; cases h2; exact hcc rfl
    rw [hfr.files o hoc] at hf
    refine prov_mono (h b' c' r' hat' hp' o ho f hf (hu'.of_cmdDb (hfr.cmdDb _ hne)))
      (fun _ r hr hsg hk => ⟨r, by rw [← hfr.cmdDb _ hne]; exact hr, hsg, hk, rfl⟩) ?_
    intro pth _ g hg hst
    by_cases hpc : pth ∈ c.outs
    · -- written by this step: unchanged, or stamped above the old clock
      cases hd : decisionOf m.cmds w c with
      | complete v force => rw [runTask_complete hd] at hg; exact hg
      | execute =>
        cases hfl : w.failing c.name with
        | true => rw [runTask_fail hd hfl] at hg; exact hg
        | false =>
          rw [runTask_exec hd hfl] at hg
          simp only [setCmd_files] at hg
          rcases written_file_cases m before c w hat.cmdWF.nodup hpc with ⟨h1, _, _⟩ | ⟨s, h1, h2, _⟩
          · rw [h1] at hg; exact hg
          · rw [h1] at hg; cases hg
            have := h0.fileStamps o f hf
            simp at hst; omega
    · rw [hfr.files pth hpc] at hg; exact hg

/-! ### `KInv`: edits and input rules -/

theorem kinv_edit {m : Manifest} (hwf : wfFrom [] m.cmds = true) {w : World} (h0 : Inv0 m.cmds w) (hph : PhonyInv m.cmds w)
    (hK : KInv m w) {e : Edit} (he : e.ok m.cmds) : KInv m (applyEdit w e) := by
  have hdb : (applyEdit w e).cmdDb = w.cmdDb := by
    cases e <;> simp only [applyEdit] <;> (try rfl)
    all_goals (split <;> rfl)
  intro before c rest hat hp r hr hsg hkind hmatch hdeps
  -- outputs that the edit removed make the clause vacuous; otherwise transport
  by_cases houts : ∃ o, o ∈ c.outs ∧ (applyEdit w e).files o ≠ w.files o
  case neg =>
    exact kinv_transport hwf (keyHyp_edit h0 he) (phonyInv_of_cmdDb hph hdb) hK hat hp (by rw [hdb])
      (fun r hr => by have := (h0.cmdEpoch _ r hr).2.1; omega)
      (fun o ho => Classical.byContradiction (fun hne => houts ⟨o, ho, hne⟩)) r hr hsg hkind hmatch hdeps
  case pos =>
    exfalso
    obtain ⟨o, ho, hne⟩ := houts
    have hprod := hat.producer_out ho
    cases e with
    | write p x =>
      simp only [Edit.ok] at he
      have : o ≠ p := fun e => by subst e; rw [he] at hprod; cases hprod
      exact hne (by simp [applyEdit, upd, this])
    | touch p =>
      simp only [Edit.ok] at he
      have : o ≠ p := fun e => by subst e; rw [he] at hprod; cases hprod
      simp only [applyEdit] at hne
      split at hne
      · exact hne (by simp [upd, this])
      · exact hne rfl
    | writeAt p x s => exact absurd he (by simp [Edit.ok])
    | delete p =>
      by_cases hop : o = p
      · subst hop
        obtain ⟨i, hi, hio⟩ := List.getElem_of_mem ho
        have := (hmatch i hi).1
        rw [hio] at this
        simp [applyEdit, World.info, infoOf, FInfo.missing, FInfo.isMissing] at this
      · exact hne (by simp [applyEdit, upd, hop])
    | setHash n x => exact hne rfl
    | setFail n b => exact hne rfl

theorem refreshSrc_cmdDb (E : Nat) (p : Path) (w : World) : (refreshSrc E p w).cmdDb = w.cmdDb := by
  unfold refreshSrc
  cases w.srcDb p with
  | none => rfl
  | some r => simp only; split <;> rfl

/-- at the beginning of a build no command has been built at the new epoch yet -/
def Unbuilt (cs : List Command) (E : Nat) (w : World) : Prop := ∀ q ∈ cs, ∀ r, w.cmdDb q.name = some r → r.builtAt < E

theorem kinv_refreshSrc {m : Manifest} (hwf : wfFrom [] m.cmds = true) {w : World} (hph : PhonyInv m.cmds w) (hK : KInv m w)
    (hub : Unbuilt m.cmds w.epoch w) {p : Path} (hp : producer m.cmds p = none) : KInv m (refreshSrc w.epoch p w) := by
  intro before c rest hat hpc r hr hsg hkind hmatch hdeps
  exact kinv_transport hwf (keyHyp_refreshSrc hp) (phonyInv_of_cmdDb hph (refreshSrc_cmdDb _ _ _)) hK hat hpc
    (by rw [refreshSrc_cmdDb]) (fun r hr => hub c hat.mem r hr) (fun o _ => by rw [refreshSrc_files]) r hr hsg hkind hmatch hdeps

theorem kinv_refreshSrcs {m : Manifest} (hwf : wfFrom [] m.cmds = true) : ∀ (ps : List Path) {w : World},
    PhonyInv m.cmds w → KInv m w → Unbuilt m.cmds w.epoch w → KInv m (refreshSrcs m.cmds w.epoch ps w) := by
  intro ps
  induction ps with
  | nil => intro w _ hK _; exact hK
  | cons p ps ih =>
    intro w hph hK hub
    simp only [refreshSrcs]
    cases hp : producer m.cmds p with
    | some q => simp only [Option.isNone_some, Bool.false_eq_true, ↓reduceIte]; exact ih hph hK hub
    | none =>
      simp only [Option.isNone_none, ↓reduceIte]
      have he := refreshSrc_epoch w.epoch p w
      have := ih (w := refreshSrc w.epoch p w) (phonyInv_of_cmdDb hph (refreshSrc_cmdDb _ _ _)) (kinv_refreshSrc hwf hph hK hub hp)
        (by rw [he]; intro q hq r hr; rw [refreshSrc_cmdDb] at hr; exact hub q hq r hr)
      rwa [he] at this

/-! ### the update-if-newer shortcut is sound in a world whose stamps only increase -/

/-- `Settled` at a key, by what the key is -/
theorem settled_src {cs : List Command} {w : World} : ∀ (l : List Command) {k : Path}, (∀ q ∈ l, k ∉ q.outs) →
    Settled cs w l k → SrcSettled w k := by
  intro l
  induction l with
  | nil => intro k _ h; exact h
  | cons q l ih =>
    intro k hno h
    rw [settled_skip (hno q List.mem_cons_self)] at h
    exact ih (fun q' hq' => hno q' (List.mem_cons_of_mem _ hq')) h

theorem settled_at {cs : List Command} {w : World} : ∀ (l : List Command) {k : Path} {q : Command}, q ∈ l → k ∈ q.outs →
    (∀ q' ∈ l, k ∈ q'.outs → q' = q) → Settled cs w l k →
    (q.phony = true → ∃ r, w.cmdDb q.name = some r ∧ r.sig = sigOf q ∧ r.value.kind = .successfulCommand) ∧
    (q.phony = false → ∃ x, resOf cs w k = some x ∧ x.value.kind = .successfulCommand ∧
      x.value.outputInfo.same (w.info k) = true ∧ (w.info k).isMissing = false) := by
  intro l
  induction l with
  | nil => intro k q hq; cases hq
  | cons q0 l ih =>
    intro k q hq hk huniq h
    by_cases hk0 : k ∈ q0.outs
    · have : q0 = q := huniq q0 List.mem_cons_self hk0
      subst this
      constructor
      · intro hp
        rw [settled_phony hk0 hp] at h
        obtain ⟨r, hr, hsg, hkind, _⟩ := h
        exact ⟨r, hr, hsg, hkind⟩
      · intro hp
        rw [settled_real hk0 hp] at h
        exact h
    · rw [settled_skip hk0] at h
      rcases List.mem_cons.1 hq with rfl | hq
      · exact absurd hk hk0
      · exact ih hq hk (fun q' hq' => huniq q' (List.mem_cons_of_mem _ hq')) h

theorem resolve_self : ∀ (l : List Command) {k : Path}, (∀ q ∈ l, k ∈ q.outs → q.phony = false) → resolve l k = [k] := by
  intro l
  induction l with
  | nil => intro k _; rfl
  | cons q l ih =>
    intro k h
    by_cases hk : k ∈ q.outs
    · exact resolve_real hk (h q List.mem_cons_self hk)
    · rw [resolve_skip hk]; exact ih (fun q' hq' => h q' (List.mem_cons_of_mem _ hq'))

theorem ts_le_zero {a b : Nat} (h : (⟨a, 0⟩ : TS).le ⟨b, 0⟩ = true) : a ≤ b := by
  rw [TS.le_iff] at h
  simp at h
  omega

theorem info_of_exists {w : World} {p : Path} (h : (w.info p).isMissing = false) :
    ∃ g, w.files p = some g ∧ (w.info p).mtime = ⟨g.stamp, 0⟩ := by
  simp only [World.info] at h ⊢
  cases hf : w.files p with
  | none => rw [hf] at h; simp [infoOf, FInfo.missing, FInfo.isMissing] at h
  | some g => exact ⟨g, rfl, by simp [infoOf]⟩

/-- an input whose value lets the shortcut fire is a file (not an alias) that exists and is not newer than the outputs -/
theorem shortcut_input_file {m : Manifest} {before rest : List Command} {c : Command} {w : World}
    (hat : At m.cmds before c rest) (hph : PhonyInv m.cmds w)
    (hs : shortcut {} (kOf w c) (accOf m.cmds w c) ((priorRow w c).map (·.value)) (c.outs.map w.info) = true)
    {k : Path} (hk : k ∈ c.exp ++ c.imp) (hset : Settled m.cmds w before k) :
    resolve before k = [k] ∧ ∃ g, w.files k = some g ∧ ∀ o ∈ c.outs, ∀ f, w.files o = some f → g.stamp ≤ f.stamp := by
  have hwf := hat.wf
  have hvmem : valueOf m.cmds w k ∈ (insOf m.cmds w c).explicit ∨ valueOf m.cmds w k ∈ (insOf m.cmds w c).implicit := by
    simp only [insOf, List.mem_map]
    rcases List.mem_append.1 hk with h | h
    · exact Or.inl ⟨k, h, rfl⟩
    · exact Or.inr ⟨k, h, rfl⟩
  have hok : okInputKinds.contains (valueOf m.cmds w k).kind = true := by
    cases hc : okInputKinds.contains (valueOf m.cmds w k).kind with
    | true => rfl
    | false =>
      exfalso
      have hmem : valueOf m.cmds w k ∈ received (insOf m.cmds w c) := by rw [received_eq]; exact List.mem_append.2 hvmem
      have := foldl_can_bad _ (Acc.init (kOf w c)) _ hmem hc
      simp only [shortcut, accOf, accumulate, this, Bool.false_and] at hs
      cases hs
  have hcmp : ∀ oi ∈ c.outs.map w.info, (valueOf m.cmds w k).outputInfo.isMissing = false ∧ oi.isMissing = false ∧
      (valueOf m.cmds w k).outputInfo.mtime.le oi.mtime = true := fun oi hoi => by
    have := C18_shortcut_outputs_not_older {} (kOf w c) (insOf m.cmds w c) _ _ hs _ hvmem hok oi hoi
    exact ⟨this.1, this.2.1, this.2.2.1⟩
  obtain ⟨o0, ho0⟩ : ∃ o, o ∈ c.outs := by
    cases hco : c.outs with
    | nil => exact absurd hco hat.cmdWF.outs_ne
    | cons a l => exact ⟨a, by simp⟩
  have hvm : (valueOf m.cmds w k).outputInfo.isMissing = false := (hcmp _ (List.mem_map.2 ⟨o0, ho0, rfl⟩)).1
  -- the key is a source file or a real output, and its value carries the stamp of the file
  have hkey : (∀ q ∈ before, k ∈ q.outs → q.phony = false) ∧
      (valueOf m.cmds w k).outputInfo.mtime = (w.info k).mtime ∧ (w.info k).isMissing = false := by
    rcases hat.producer_in (p := k) (by simp only [List.mem_append] at hk ⊢; rcases hk with h | h <;> simp [h]) with hnone | ⟨q, hq, hqb⟩
    · have hno : ∀ q ∈ before, k ∉ q.outs := fun q hq hkq => by
        rw [producer_none_iff] at hnone; exact hnone q (hat.mem_before hq) hkq
      obtain ⟨r, hr, hv⟩ := settled_src before hno hset
      have hval : valueOf m.cmds w k = r.value := by simp [valueOf, resOf, hnone, hr]
      refine ⟨fun q hq hkq => absurd hkq (hno q hq), ?_⟩
      rcases hv with hv | ⟨hv, _⟩
      · simp only [inputIsResultValid, Bool.and_eq_true, Bool.not_eq_true'] at hv
        rw [hval]
        exact ⟨same_mtime hv.2, hv.1.2⟩
      · rw [hval, hv] at hok; simp [BuildValue.missingInput, okInputKinds] at hok
    · obtain ⟨hqm, hkq⟩ := producer_some hq
      have huniq : ∀ q' ∈ before, k ∈ q'.outs → q' = q := fun q' hq' hkq' => by
        have := producer_of_mem hwf (hat.mem_before hq') hkq'
        rw [hq] at this; cases this; rfl
      have hsat := settled_at before hqb hkq huniq hset
      cases hqp : q.phony with
      | true =>
        exfalso
        obtain ⟨r, hr, hsg, hkind⟩ := hsat.1 hqp
        obtain ⟨b, rr, hatq, _⟩ := hat.of_before hqb
        have hres : resOf m.cmds w k = some r.toResult := by rw [resOf_phony hwf hqm hqp hatq hkq, hr]; rfl
        have : (valueOf m.cmds w k).outputInfo.isMissing = true := by
          simp only [valueOf, hres]
          exact (hph q hqm hqp r hr hsg hkind).2
        rw [this] at hvm; cases hvm
      | false =>
        obtain ⟨x, hx, _, hsame, hmiss⟩ := hsat.2 hqp
        have hval : valueOf m.cmds w k = x.value := by simp [valueOf, hx]
        refine ⟨fun q' hq' hkq' => by rw [huniq q' hq' hkq']; exact hqp, ?_, hmiss⟩
        rw [hval]; exact same_mtime hsame
  refine ⟨resolve_self before hkey.1, ?_⟩
  obtain ⟨g, hg, hgm⟩ := info_of_exists hkey.2.2
  refine ⟨g, hg, fun o ho f hf => ?_⟩
  have := (hcmp _ (List.mem_map.2 ⟨o, ho, rfl⟩)).2.2
  rw [hkey.2.1, hgm] at this
  have hfo : (w.info o).mtime = ⟨f.stamp, 0⟩ := by simp [World.info, hf, infoOf]
  rw [hfo] at this
  exact ts_le_zero this


/-- soundness of update-if-newer: when the shortcut fires on a command all of whose inputs are settled, its outputs
hold what the command would write now -/
theorem shortcut_fresh {m : Manifest} {before rest : List Command} {c : Command} {w : World}
    (hat : At m.cmds before c rest) (hp : c.phony = false) (hph : PhonyInv m.cmds w) (hT : TInv m w)
    (hs : shortcut {} (kOf w c) (accOf m.cmds w c) ((priorRow w c).map (·.value)) (c.outs.map w.info) = true)
    (hset : ∀ k ∈ c.exp ++ c.imp, Settled m.cmds w before k) : FreshWith m before c w (w.cmdline c.name) := by
  have hnd : c.hasDeps = false := by
    cases hd : c.hasDeps with
    | false => rfl
    | true =>
      have := C18_deps_never_shortcut {} (kOf w c) (insOf m.cmds w c) ((priorRow w c).map (·.value)) (c.outs.map w.info) hd
      simp only [accOf] at hs
      rw [this] at hs; cases hs
  have hdeps : c.deps = [] := hat.cmdWF.deps hnd
  intro o ho
  have hmiss := shortcut_outs_exist hs (w.info o) (List.mem_map.2 ⟨o, ho, rfl⟩)
  obtain ⟨f, hf, _⟩ := info_of_exists hmiss
  have hu : Usable w c := by
    cases hgen : c.generator with
    | true => exact Or.inl hgen
    | false =>
      obtain ⟨v0, hv0, hk0, _⟩ := shortcut_prior hs (by simpa [kOf, Command.cmd] using hgen)
      cases hr0 : priorRow w c with
      | none => rw [hr0] at hv0; cases hv0
      | some r0 =>
        rw [hr0] at hv0
        simp only [Option.map_some, Option.some.injEq] at hv0
        subst hv0
        exact Or.inr ⟨r0, (priorRow_some.1 hr0).1, (priorRow_some.1 hr0).2, hk0⟩
  obtain ⟨h', R, hc, hl, hcl, hg, hng⟩ := hT before c rest hat hp o ho f hf hu
  have hR : R = (readsOf before c).map w.content := by
    apply List.ext_getElem?
    intro i
    by_cases hi : i < (readsOf before c).length
    · have hiR : i < R.length := by omega
      rw [List.getElem?_map, List.getElem?_eq_getElem hi, List.getElem?_eq_getElem hiR]
      simp only [Option.map_some, Option.some.injEq]
      have hmem : (readsOf before c)[i] ∈ readsOf before c := List.getElem_mem hi
      rcases mem_readsOf hmem with ⟨k, hk, hpk⟩ | hd
      · obtain ⟨hres, g, hg', hle⟩ := shortcut_input_file hat hph hs hk (hset k hk)
        rw [hres] at hpk
        simp only [List.mem_singleton] at hpk
        have := hcl i (readsOf before c)[i] R[i] (List.getElem?_eq_getElem hi) (List.getElem?_eq_getElem hiR) g
          (by rw [hpk]; exact hg') (hle o ho f hf)
        rw [this, hpk]
        simp [World.content, hg']
      · rw [hdeps] at hd; cases hd
    · have hiR : ¬ i < R.length := by omega
      rw [List.getElem?_map, List.getElem?_eq_none (by omega), List.getElem?_eq_none (by omega)]
      rfl
  have hh : h' = c.effHash (w.cmdline c.name) := by
    cases hgen : c.generator with
    | true => simp [Command.effHash, hgen, hg hgen]
    | false =>
      obtain ⟨v0, hv0, hk0, hh0⟩ := shortcut_prior hs (by simpa [kOf, Command.cmd] using hgen)
      cases hr0 : priorRow w c with
      | none => rw [hr0] at hv0; cases hv0
      | some r0 =>
        rw [hr0] at hv0
        simp only [Option.map_some, Option.some.injEq] at hv0
        subst hv0
        rw [hng hgen r0 (priorRow_some.1 hr0).1 (priorRow_some.1 hr0).2 hk0, hh0]
        simp [Command.effHash, hgen, kOf, Command.cmd]
  simp only [World.content, hf, Option.map_some, hc, hR, hh]


/-! ### `KInv`: one task -/

theorem freshWith_congr {m : Manifest} {before : List Command} {c : Command} {w w' : World} {h : Nat}
    (houts : ∀ o ∈ c.outs, w'.files o = w.files o) (hreads : ∀ f ∈ readsOf before c, w'.files f = w.files f)
    (hf : FreshWith m before c w h) : FreshWith m before c w' h := by
  intro o ho
  have : (readsOf before c).map w'.content = (readsOf before c).map w.content :=
    List.map_congr_left (fun f hf' => by simp only [World.content, hreads f hf'])
  rw [this]
  simp only [World.content, houts o ho]
  exact hf o ho

theorem kinv_runTask {m : Manifest} {before rest : List Command} {c : Command} {w : World} (hat : At m.cmds before c rest)
    (h0 : Inv0 m.cmds w) (hph : PhonyInv m.cmds w) (hT : TInv m w) (hK : KInv m w)
    (hub : ∀ q ∈ c :: rest, ∀ r, w.cmdDb q.name = some r → r.builtAt < w.epoch) :
    KInv m (runTask m before w.epoch c w).1 := by
  have hwf := hat.wf
  have hfr := runTask_frame m before w.epoch c w
  intro b' c' r' hat' hp' r hr hsg hkind hmatch hdeps
  have hmem : c' ∈ before.reverse ++ c :: rest := by rw [← hat.split]; exact hat'.mem
  simp only [List.mem_append, List.mem_reverse, List.mem_cons] at hmem
  rcases hmem with hcb | rfl | hcr
  · -- an earlier command: nothing it looks at changed
    obtain ⟨s, t, hst⟩ := List.append_of_mem hcb
    have hatt : At m.cmds t c' (s.reverse ++ c :: rest) := ⟨by rw [hat.split, hst]; simp, hwf⟩
    obtain ⟨rfl, rfl⟩ := At.unique hat' hatt
    have hcr : c ∈ s.reverse ++ c :: rest := by simp
    have houts : ∀ o ∈ c'.outs, o ∉ c.outs := fun o ho hoc => by
      have := hat.cmdWF.outs_before o hoc
      rw [producer_none_iff] at this
      exact this c' hcb ho
    have hreads : ∀ f ∈ readsOf b' c', f ∉ c.outs := fun f hf => (hat'.reads_not_out hf).2 c hcr
    have hkeys : ∀ k ∈ depKeys c', k ∉ c.outs := fun k hk hkc => by
      have := hat'.cmdWF.ins_rest k (insAll_sub c' k (depKeys_sub_insAll c' k hk))
      rw [producer_none_iff] at this
      exact this c hcr hkc
    rw [hfr.cmdDb c'.name (hat.name_ne_before hcb)] at hr
    have hfresh := hK b' c' _ hat' hp' r hr hsg hkind (infosMatch_congr (fun o ho => hfr.files o (houts o ho)) hmatch)
      (fun k hk => ⟨(settled_frame hat hfr b' (s ++ [c']) (by rw [hst]; simp) k (hkeys k hk)).1 (hdeps k hk).1,
        by rw [← hfr.resOf_eq hwf hat.mem (hkeys k hk)]; exact (hdeps k hk).2⟩)
    exact freshWith_congr (fun o ho => hfr.files o (houts o ho)) (fun f hf => hfr.files f (hreads f hf)) hfresh
  · -- the command itself
    obtain ⟨rfl, rfl⟩ := At.unique hat' hat
    cases hd : decisionOf m.cmds w c' with
    | complete v force =>
      rw [runTask_complete hd] at hr hdeps hmatch ⊢
      simp only [setCmd_cmdDb_self, Option.some.injEq] at hr
      subst hr
      simp only [completeCmd_value, completeCmd_builtAt] at hkind hdeps ⊢
      obtain ⟨hs, hv, _⟩ := decision_updated hp' hd hkind
      have hdeps' := (depsOK_frame hat (setCmd_frame w c' _) w.epoch).1 hdeps
      have := shortcut_fresh hat hp' hph hT hs (fun k hk => (hdeps' k (by simp only [depKeys, List.mem_append] at hk ⊢; exact Or.inl hk)).1)
      have hh : v.hash = w.cmdline c'.name := by rw [hv]; rfl
      rw [hh]
      exact freshWith_congr (fun _ _ => rfl) (fun _ _ => rfl) this
    | execute =>
      cases hfl : w.failing c'.name with
      | true =>
        rw [runTask_fail hd hfl] at hr
        simp only [setCmd_cmdDb_self, Option.some.injEq] at hr
        subst hr
        simp [BuildValue.failed] at hkind
      | false =>
        rw [runTask_exec hd hfl] at hr ⊢
        simp only [setCmd_cmdDb_self, Option.some.injEq] at hr
        subst hr
        simp only [completeCmd_value]
        have hh : (computeResult (kOf w c') (c'.outs.map (written m b' c' w).info)).hash = w.cmdline c'.name := rfl
        rw [hh]
        intro o ho
        have hsc : ∀ r0 ok, (setCmd (written m b' c' w) c' r0 ok).content = (written m b' c' w).content := fun _ _ => rfl
        rw [hsc]
        have hreads : (readsOf b' c').map (written m b' c' w).content = (readsOf b' c').map w.content := by
          apply List.map_congr_left
          intro f hf
          simp only [World.content, written_files_other m b' c' w (hat.reads_not_out hf).1]
        rw [hreads]
        have : (written m b' c' w).content o = some (outContent m b' c' w o) := by
          simp only [World.content]
          rcases written_file_cases m b' c' w hat.cmdWF.nodup ho with ⟨h1, _, f0, h2, h3⟩ | ⟨s, h1, _, _⟩
          · rw [h1, h2]; simp [h3]
          · rw [h1]; rfl
        rw [this]
        rfl
  · -- a later command: transport
    have hne : c'.name ≠ c.name := hat.name_ne_rest hcr
    have houts : ∀ o ∈ c'.outs, (runTask m before w.epoch c w).1.files o = w.files o := fun o ho => by
      apply hfr.files
      intro hoc
      have := hat.cmdWF.outs_rest o hoc
      rw [producer_none_iff] at this
      exact this c' hcr ho
    exact kinv_transport hwf (keyHyp_runTask hat h0) (phonyInv_runTask hat h0 hph) hK hat' hp' (hfr.cmdDb _ hne)
      (fun r hr => hub c' (List.mem_cons_of_mem _ hcr) r hr) houts r hr hsg hkind hmatch hdeps

/-! ### `SInv`: a successful value was computed from acceptable inputs -/

theorem sinv_of_db {cs : List Command} {w w' : World} (h : SInv cs w) (h1 : w'.srcDb = w.srcDb) (h2 : w'.cmdDb = w.cmdDb) :
    SInv cs w' := by
  intro c hc r hr hsg hk k hkm
  rw [h2] at hr
  have := h c hc r hr hsg hk k hkm
  simpa only [valueOf, resOf_db_congr h1 h2] using this

theorem valueOf_of_vc {cs : List Command} {w w' : World} {k : Path} (h : (resOf cs w' k).map vc = (resOf cs w k).map vc) :
    valueOf cs w' k = valueOf cs w k ∧ ∀ b, rebuiltSince b (resOf cs w' k) = rebuiltSince b (resOf cs w k) := by
  refine ⟨?_, fun b => rebuiltSince_congr h⟩
  unfold valueOf
  cases h1 : resOf cs w' k <;> cases h2 : resOf cs w k <;> simp_all [vc]

/-- the view of a key after a `KeyHyp`-style change: the same, or changed at epoch `E` -/
theorem sinv_transport {cs : List Command} {E : Nat} {w w' : World} (h : SInv cs w)
    (hkey : ∀ p, (resOf cs w' p).map vc = (resOf cs w p).map vc ∨ ∃ x, resOf cs w' p = some x ∧ E ≤ x.computedAt)
    {c : Command} (hc : c ∈ cs) (hdb : w'.cmdDb c.name = w.cmdDb c.name) (hb : ∀ r, w.cmdDb c.name = some r → r.builtAt < E) :
    ∀ r, w'.cmdDb c.name = some r → r.sig = sigOf c → r.value.kind = .successfulCommand → ∀ k ∈ c.exp ++ c.imp,
      okInputKinds.contains (valueOf cs w' k).kind = true ∨ rebuiltSince r.builtAt (resOf cs w' k) = true := by
  intro r hr hsg hk k hkm
  rw [hdb] at hr
  rcases hkey k with hv | ⟨x, hx, hxe⟩
  · obtain ⟨h1, h2⟩ := valueOf_of_vc hv
    rw [h1, h2]
    exact h c hc r hr hsg hk k hkm
  · right
    have := hb r hr
    simp only [hx, rebuiltSince, decide_eq_true_eq]
    omega

theorem sinv_refreshSrc {cs : List Command} {w : World} (h : SInv cs w) (hub : Unbuilt cs w.epoch w) {p : Path}
    (hp : producer cs p = none) : SInv cs (refreshSrc w.epoch p w) := by
  intro c hc
  refine sinv_transport (E := w.epoch) h (fun q => ?_) hc (by rw [refreshSrc_cmdDb]) (fun r hr => hub c hc r hr)
  rcases (keyHyp_refreshSrc (cs := cs) hp).key q with ⟨_, h1⟩ | h1 | h1
  · exact Or.inl h1
  · exact Or.inr h1
  · -- `keyHyp_refreshSrc` never uses the third alternative; re-derive the first two
    by_cases hqp : q = p
    · subst hqp
      unfold refreshSrc
      cases hr : w.srcDb q with
      | none =>
        simp only [resOf, hp, upd_same]
        rcases completeWith_computedAt w.epoch none (inputValue (w.info q)) false with h2 | ⟨r, h2, _⟩
        · exact Or.inr ⟨_, rfl, by rw [h2]; exact Nat.le_refl _⟩
        · cases h2
      | some r =>
        simp only
        split
        · exact Or.inl rfl
        · simp only [resOf, hp, upd_same]
          rcases completeWith_computedAt w.epoch (some r) (inputValue (w.info q)) false with h2 | ⟨r', h2, _, h3, h4⟩
          · exact Or.inr ⟨_, rfl, by rw [h2]; exact Nat.le_refl _⟩
          · cases h2
            left
            rw [hr]
            simp [vc, completeWith_value, h3, ← h3 ▸ h4]
    · left
      simp only [resOf, refreshSrc_cmdDb, refreshSrc_other _ _ _ hqp]

theorem sinv_refreshSrcs {cs : List Command} : ∀ (ps : List Path) {w : World}, SInv cs w → Unbuilt cs w.epoch w →
    SInv cs (refreshSrcs cs w.epoch ps w) := by
  intro ps
  induction ps with
  | nil => intro w h _; exact h
  | cons p ps ih =>
    intro w h hub
    simp only [refreshSrcs]
    cases hp : producer cs p with
    | some q => simp only [Option.isNone_some, Bool.false_eq_true, ↓reduceIte]; exact ih h hub
    | none =>
      simp only [Option.isNone_none, ↓reduceIte]
      have he := refreshSrc_epoch w.epoch p w
      have := ih (w := refreshSrc w.epoch p w) (sinv_refreshSrc h hub hp)
        (by rw [he]; intro q hq r hr; rw [refreshSrc_cmdDb] at hr; exact hub q hq r hr)
      rwa [he] at this

/-- an input with an unacceptable value makes the decision "skipped" -/
theorem decision_bad_input {cs : List Command} {w : World} {c : Command} {k : Path} (hk : k ∈ c.exp ++ c.imp)
    (hbad : okInputKinds.contains (valueOf cs w k).kind = false) : decisionOf cs w c = .complete .skipped false := by
  have hv : valueOf cs w k ∈ (insOf cs w c).explicit ∨ valueOf cs w k ∈ (insOf cs w c).implicit := by
    simp only [insOf, List.mem_map]
    rcases List.mem_append.1 hk with h | h
    · exact Or.inl ⟨k, h, rfl⟩
    · exact Or.inr ⟨k, h, rfl⟩
  have hkind : (valueOf cs w k).kind = .failedCommand ∨ (valueOf cs w k).kind = .skippedCommand ∨ (valueOf cs w k).kind = .missingInput := by
    cases hh : (valueOf cs w k).kind <;> simp_all [okInputKinds]
  exact (C18_failed_input_skips_full {} (kOf w c) (insOf cs w c) _ _ _ hv hkind).2

theorem sinv_runTask {m : Manifest} {before rest : List Command} {c : Command} {w : World} (hat : At m.cmds before c rest)
    (h0 : Inv0 m.cmds w) (h : SInv m.cmds w) (hub : ∀ q ∈ c :: rest, ∀ r, w.cmdDb q.name = some r → r.builtAt < w.epoch) :
    SInv m.cmds (runTask m before w.epoch c w).1 := by
  have hfr := runTask_frame m before w.epoch c w
  have hkeyall : ∀ p, (resOf m.cmds (runTask m before w.epoch c w).1 p).map vc = (resOf m.cmds w p).map vc ∨
      ∃ x, resOf m.cmds (runTask m before w.epoch c w).1 p = some x ∧ w.epoch ≤ x.computedAt := by
    intro p
    by_cases hpo : p ∈ c.outs
    · rcases runTask_key hat h0 hpo with ⟨_, h1⟩ | h1
      · exact Or.inl h1
      · exact Or.inr h1
    · exact Or.inl (by rw [hfr.resOf_eq hat.wf hat.mem hpo])
  intro c' hc' r hr hsg hkind k hkm
  by_cases hcc : c' = c
  · subst hcc
    -- the command itself: a successful value means no input was unacceptable
    left
    have hkno : k ∉ c'.outs := hat.cmdWF.ins_not_out k (by simp only [List.mem_append] at hkm ⊢; rcases hkm with h1 | h1 <;> simp [h1])
    have hval : valueOf m.cmds (runTask m before w.epoch c' w).1 k = valueOf m.cmds w k := by
      simp only [valueOf, hfr.resOf_eq hat.wf hat.mem hkno]
    rw [hval]
    cases hok : okInputKinds.contains (valueOf m.cmds w k).kind with
    | true => rfl
    | false =>
      exfalso
      have hd := decision_bad_input (cs := m.cmds) (w := w) hkm hok
      rw [runTask_complete hd] at hr
      simp only [setCmd_cmdDb_self, Option.some.injEq] at hr
      subst hr
      simp [BuildValue.skipped] at hkind
  · have hne : c'.name ≠ c.name := fun e => hcc (name_inj hat.wf hat.mem hc' e)
    by_cases hkc : k ∈ c.outs
    · -- a consumer of `c`: it is processed later
      have hc'r : c' ∈ rest := by
        have : c' ∈ before.reverse ++ c :: rest := by rw [← hat.split]; exact hc'
        simp only [List.mem_append, List.mem_reverse, List.mem_cons] at this
        rcases this with h1 | h1 | h1
        · exfalso
          obtain ⟨b, rr, hatq, _, hcr, _⟩ := hat.of_before h1
          have := hatq.cmdWF.ins_rest k (by simp only [List.mem_append] at hkm ⊢; rcases hkm with h2 | h2 <;> simp [h2])
          rw [producer_none_iff] at this
          exact this c hcr hkc
        · exact absurd h1 hcc
        · exact h1
      exact sinv_transport (E := w.epoch) h hkeyall hc' (hfr.cmdDb _ hne)
        (fun r hr => hub c' (List.mem_cons_of_mem _ hc'r) r hr) r hr hsg hkind k hkm
    · rw [hfr.cmdDb _ hne] at hr
      have := h c' hc' r hr hsg hkind k hkm
      simpa only [valueOf, hfr.resOf_eq hat.wf hat.mem hkc] using this

theorem shapeInv_of_cmdDb {w w' : World} (h : ShapeInv w) (hdb : w'.cmdDb = w.cmdDb) : ShapeInv w' :=
  fun n r hr => h n r (by rw [← hdb]; exact hr)

theorem shapeInv_runTask {m : Manifest} {before : List Command} {E : Nat} {c : Command} {w : World} (h : ShapeInv w) :
    ShapeInv (runTask m before E c w).1 := by
  have key : ∀ (w1 : World) (v : BuildValue) (force ok : Bool), w1.cmdDb = w.cmdDb → (∀ i ∈ v.infos, ∃ x, i = infoOf x) →
      ShapeInv (setCmd w1 c (completeCmd E (w.cmdDb c.name) v force c.outs.length (sigOf c)) ok) := by
    intro w1 v force ok hdb hv n r hr
    by_cases hn : n = c.name
    · subst hn
      simp only [setCmd_cmdDb_self, Option.some.injEq] at hr
      subst hr
      simpa using hv
    · simp only [setCmd, upd_other _ _ hn] at hr
      exact h n r (by rw [← hdb]; exact hr)
  have hcr : ∀ (w1 : World) (k : Cmd), ∀ i ∈ (computeResult k (c.outs.map w1.info)).infos, ∃ x, i = infoOf x := by
    intro w1 k i hi
    simp only [computeResult, List.mem_map] at hi
    obtain ⟨o, _, rfl⟩ := hi
    exact ⟨w1.files o, rfl⟩
  cases hd : decisionOf m.cmds w c with
  | complete v force =>
    rw [runTask_complete hd]
    rcases decision_complete_value hd with rfl | rfl
    · exact key w _ _ _ rfl (by simp [BuildValue.skipped])
    · exact key w _ _ _ rfl (hcr w _)
  | execute =>
    cases hf : w.failing c.name with
    | true => rw [runTask_fail hd hf]; exact key w _ _ _ rfl (by simp [BuildValue.failed])
    | false => rw [runTask_exec hd hf]; exact key (written m before c w) _ _ _ rfl (hcr _ _)

/-! ### the world invariant is preserved -/

theorem WorldInv.empty (m : Manifest) : WorldInv m World.empty := by
  refine ⟨Inv0.empty _, ?_, ?_, ?_, ?_, ?_, ?_⟩
  · intro c _ _ r hr; simp [World.empty] at hr
  · intro c _ r hr; simp [World.empty] at hr
  · intro c _ r hr; simp [World.empty] at hr
  · intro n r hr; simp [World.empty] at hr
  · intro _ _ _ _ _ o _ f hf; simp [World.empty] at hf
  · intro _ _ _ _ _ r hr; simp [World.empty] at hr

theorem applyEdit_cmdDb (w : World) (e : Edit) : (applyEdit w e).cmdDb = w.cmdDb := by
  cases e <;> simp only [applyEdit] <;> (try rfl)
  all_goals (split <;> rfl)

theorem WorldInv.edit {m : Manifest} (hwf : wfFrom [] m.cmds = true) {w : World} (h : WorldInv m w) {e : Edit}
    (he : e.ok m.cmds) : WorldInv m (applyEdit w e) :=
  ⟨h.inv0.edit he, phonyInv_of_cmdDb h.phony (applyEdit_cmdDb w e),
   sinv_of_db h.s (by cases e <;> simp only [applyEdit] <;> (try rfl) <;> (split <;> rfl)) (applyEdit_cmdDb w e),
   h.d.of_rows (applyEdit_cmdDb w e) (by cases e <;> simp only [applyEdit] <;> (try rfl) <;> (split <;> rfl)),
   shapeInv_of_cmdDb h.sh (applyEdit_cmdDb w e),
   tinv_edit h.inv0 h.t he,
   kinv_edit hwf h.inv0 h.phony h.k he⟩

theorem refreshSrcs_cmdDb (cs : List Command) (E : Nat) : ∀ (ps : List Path) (w : World), (refreshSrcs cs E ps w).cmdDb = w.cmdDb := by
  intro ps
  induction ps with
  | nil => intro w; rfl
  | cons p ps ih =>
    intro w
    simp only [refreshSrcs]
    split
    · rw [ih, refreshSrc_cmdDb]
    · exact ih w

/-- the state while the commands of a build at epoch `E` are being processed: the invariant, and no command that is
still to be processed has been built at `E` -/
structure BuildInv (m : Manifest) (E : Nat) (before : List Command) (w : World) : Prop where
  inv : WorldInv m w
  epoch : w.epoch = E
  unbuilt : ∀ q ∈ m.cmds, q ∉ before → ∀ r, w.cmdDb q.name = some r → r.builtAt < E

theorem At.not_mem_before {cs before rest : List Command} {c q : Command} (hat : At cs before c rest) (hq : q ∈ c :: rest) :
    q ∉ before := by
  intro hqb
  rcases List.mem_cons.1 hq with rfl | hqr
  · exact hat.name_ne_before hqb rfl
  · obtain ⟨b, r, hatq, _, hbb, _⟩ := hat.of_rest hqr
    exact hatq.name_ne_before (hbb q hqb) rfl

theorem BuildInv.step {m : Manifest} {d : List Path} {E : Nat} {before rest : List Command} {c : Command} {w : World}
    (hat : At m.cmds before c rest) (h : BuildInv m E before w) : BuildInv m E (c :: before) (stepCmd m d E before c w).1 := by
  have hE := h.epoch
  subst hE
  have hfr := stepCmd_frame m d w.epoch before c w
  refine ⟨?_, hfr.epoch, ?_⟩
  · unfold stepCmd
    split
    · have hub : ∀ q ∈ c :: rest, ∀ r, w.cmdDb q.name = some r → r.builtAt < w.epoch := fun q hq r hr =>
        h.unbuilt q (by rcases List.mem_cons.1 hq with rfl | hq; exact hat.mem; exact hat.mem_rest hq) (hat.not_mem_before hq) r hr
      exact ⟨h.inv.inv0.run_task m rfl hat.wf hat, phonyInv_runTask hat h.inv.inv0 h.inv.phony,
        sinv_runTask hat h.inv.inv0 h.inv.s hub,
        by
          have := h.inv.d.step_cmd (d := d) (E := w.epoch) hat
          unfold stepCmd at this
          rename_i hrun
          simpa only [hrun, ↓reduceIte] using this,
        shapeInv_runTask h.inv.sh,
        tinv_runTask hat h.inv.inv0 h.inv.t, kinv_runTask hat h.inv.inv0 h.inv.phony h.inv.t h.inv.k hub⟩
    · exact h.inv
  · intro q hq hqn r hr
    have hqc : q ≠ c := fun e => hqn (by rw [e]; exact List.mem_cons_self)
    have hne : q.name ≠ c.name := fun e => hqc (name_inj hat.wf hat.mem hq e)
    rw [hfr.cmdDb q.name hne] at hr
    exact h.unbuilt q hq (fun hqb => hqn (List.mem_cons_of_mem _ hqb)) r hr

theorem BuildInv.started {m : Manifest} (hwf : wfFrom [] m.cmds = true) {w : World} (h : WorldInv m w) (targets : List Path) :
    BuildInv m (w.epoch + 1) [] (started m targets w) := by
  have hb : Inv0 m.cmds { w with epoch := w.epoch + 1 } := h.inv0.bump
  obtain ⟨h1, h2⟩ := h.inv0.started m targets
  have hdb : (LLBuild.NinjaWorld.started m targets w).cmdDb = w.cmdDb := refreshSrcs_cmdDb _ _ _ _
  have hfiles : (LLBuild.NinjaWorld.started m targets w).files = w.files := started_files m targets w
  have hub : Unbuilt m.cmds (w.epoch + 1) { w with epoch := w.epoch + 1 } := fun q _ r hr => by
    have := (h.inv0.cmdEpoch _ r hr).2.1
    omega
  have hph0 : PhonyInv m.cmds { w with epoch := w.epoch + 1 } := phonyInv_of_cmdDb h.phony rfl
  have hk0 : KInv m { w with epoch := w.epoch + 1 } := fun before c rest hat hp r hr hsg hkind hmatch hdeps =>
    kinv_transport hwf (E := w.epoch + 1) (w := w) (w' := { w with epoch := w.epoch + 1 })
      (keyHyp_of_files rfl rfl (fun q hq => absurd rfl hq)) hph0 h.k hat hp rfl
      (fun r hr => by have := (h.inv0.cmdEpoch _ r hr).2.1; omega) (fun _ _ => rfl) r hr hsg hkind hmatch hdeps
  have hk : KInv m (LLBuild.NinjaWorld.started m targets w) :=
    kinv_refreshSrcs hwf (demanded m targets ++ storedKeys m (demanded m targets) w) (w := { w with epoch := w.epoch + 1 }) hph0 hk0 hub
  have hs0 : SInv m.cmds { w with epoch := w.epoch + 1 } := sinv_of_db h.s rfl rfl
  have hs : SInv m.cmds (LLBuild.NinjaWorld.started m targets w) :=
    sinv_refreshSrcs (demanded m targets ++ storedKeys m (demanded m targets) w) (w := { w with epoch := w.epoch + 1 }) hs0 hub
  have hrows := refreshSrcs_rows m.cmds (w.epoch + 1) (demanded m targets ++ storedKeys m (demanded m targets) w)
    { w with epoch := w.epoch + 1 }
  refine ⟨⟨h1, phonyInv_of_cmdDb h.phony hdb, hs, h.d.of_rows hrows.1 hrows.2.1, shapeInv_of_cmdDb h.sh hdb,
    tinv_of_same h.t hfiles hdb, hk⟩, h2, ?_⟩
  intro q hq _ r hr
  rw [hdb] at hr
  have := (h.inv0.cmdEpoch _ r hr).2.1
  omega

/-- the invariant holds in the world a build leaves -/
theorem WorldInv.build {m : Manifest} (hwf : wfFrom [] m.cmds = true) {w : World} (h : WorldInv m w) (targets : List Path) :
    WorldInv m (buildFull m targets w).1 := by
  have := stepAll_fst_induct m (demanded m targets) (w.epoch + 1) hwf (BuildInv m (w.epoch + 1))
    (fun before c rest w' hat hw' => hw'.step hat) m.cmds [] (started m targets w) (by simp) (BuildInv.started hwf h targets)
  rw [buildFull_eq]
  exact this.inv

end LLBuild.NinjaWorld
