/-
C08 over description edits: helper lemmas for showing that the BuildSystem's rule sets for a SEQUENCE of
descriptions (`fun g => client H (ds g)`) meet the client obligations of the engine theorems over program
generations (Lemmas/Engine/Generations.lean: `SigCovers`, `SelfStable`).

* the command signature term determines the whole `Cmd` record (`cmdTerm_inj`),
* per key class (node / command / target) what `nextOf` / `outOf` depend on (`nextOf_node_congr`, …),
* an injective "hash" on signature terms for the non-vacuity examples (`godel`, `godel_inj`).
-/
import LLBuild.Lemmas.BuildSystemClient
import LLBuild.Lemmas.Engine.Generations

set_option linter.unusedVariables false

namespace LLBuild.BuildSystemClient
open LLBuild.Engine
open LLBuild.Generated.BuildSystemRules

/-! ### an injective function on signature terms (stands for a collision-free hash in the examples) -/

def godel : List Nat → Nat
  | [] => 0
  | a :: l => 2 ^ a * (2 * godel l + 1)

theorem pow2_odd_inj : ∀ (a b m n : Nat), 2 ^ a * (2 * m + 1) = 2 ^ b * (2 * n + 1) → a = b ∧ m = n
  | 0, 0, m, n, h => by simp at h; exact ⟨rfl, by omega⟩
  | 0, b + 1, m, n, h => by
    exfalso
    have e : 2 ^ (b + 1) * (2 * n + 1) = 2 * (2 ^ b * (2 * n + 1)) := by rw [Nat.pow_succ]; ac_rfl
    rw [e] at h
    simp at h
    omega
  | a + 1, 0, m, n, h => by
    exfalso
    have e : 2 ^ (a + 1) * (2 * m + 1) = 2 * (2 ^ a * (2 * m + 1)) := by rw [Nat.pow_succ]; ac_rfl
    rw [e] at h
    simp at h
    omega
  | a + 1, b + 1, m, n, h => by
    have e : 2 ^ (a + 1) * (2 * m + 1) = 2 * (2 ^ a * (2 * m + 1)) := by rw [Nat.pow_succ]; ac_rfl
    have e' : 2 ^ (b + 1) * (2 * n + 1) = 2 * (2 ^ b * (2 * n + 1)) := by rw [Nat.pow_succ]; ac_rfl
    rw [e, e'] at h
    have := pow2_odd_inj a b m n (by omega)
    exact ⟨by omega, this.2⟩

theorem godel_inj : ∀ a b : List Nat, godel a = godel b → a = b
  | [], [], _ => rfl
  | [], x :: l, h => by
    exfalso
    have : 0 < 2 ^ x * (2 * godel l + 1) := Nat.mul_pos (Nat.pow_pos (by decide)) (by omega)
    simp only [godel] at h
    omega
  | x :: l, [], h => by
    exfalso
    have : 0 < 2 ^ x * (2 * godel l + 1) := Nat.mul_pos (Nat.pow_pos (by decide)) (by omega)
    simp only [godel] at h
    omega
  | x :: l, y :: l', h => by
    simp only [godel] at h
    obtain ⟨e1, e2⟩ := pow2_odd_inj _ _ _ _ h
    rw [e1, godel_inj l l' e2]

/-! ### the command signature term determines the command's definition -/

/-- the pre-hash signature term of command number `n` with definition `c` (what `sigTerm` builds for a command key) -/
def cmdTerm (n : Nat) (c : Cmd) : List Nat :=
  [1, n, c.inputs.length] ++ c.inputs ++ [c.outputs.length] ++ c.outputs ++
    [if c.alwaysOutOfDate then 1 else 0,
     match c.tool with | .shell => 0 | .phony => 1 | .mkdir => 2 | .symlink => 3, c.salt] ++
    c.mask.map (fun b => if b then 1 else 0)

theorem cmdTerm_inj {n n' : Nat} {c c' : Cmd} (h : cmdTerm n c = cmdTerm n' c') : c = c' := by
  unfold cmdTerm at h
  simp only [List.append_assoc, List.cons_append, List.nil_append, List.cons.injEq] at h
  obtain ⟨_, _, hl, h⟩ := h
  obtain ⟨hi, h⟩ := List.append_inj h hl
  simp only [List.cons.injEq] at h
  obtain ⟨hl2, h⟩ := h
  obtain ⟨ho, h⟩ := List.append_inj h hl2
  simp only [List.cons.injEq] at h
  obtain ⟨ha, ht, hs, hm⟩ := h
  have hm' : c.mask = c'.mask := by
    refine (List.map_inj_right ?_).1 hm
    intro a b hab
    cases a <;> cases b <;> simp at hab ⊢
  have ha' : c.alwaysOutOfDate = c'.alwaysOutOfDate := by
    cases h1 : c.alwaysOutOfDate <;> cases h2 : c'.alwaysOutOfDate <;> simp [h1, h2] at ha ⊢
  have ht' : c.tool = c'.tool := by
    cases h1 : c.tool <;> cases h2 : c'.tool <;> simp [h1, h2] at ht ⊢
  cases c; cases c'
  simp only [Cmd.mk.injEq]
  exact ⟨ht', hi, ho, hs, hm', ha'⟩

/-! ### key classes -/

theorem ruleOf_mod0 (d : Desc) {k : Key} (h : k % 3 = 0) :
    ruleOf d k = nodeRule (!(d.producers (k / 3)).isEmpty) (d.isVirtual (k / 3)) false false := by
  unfold ruleOf; simp only [h, if_true]

theorem ruleOf_node_cases (d : Desc) {k : Key} (h : k % 3 = 0) :
    ruleOf d k = .fileInputNodeTask ∨ ruleOf d k = .virtualInputNodeTask ∨ ruleOf d k = .producedNodeTask := by
  rw [ruleOf_mod0 d h]
  unfold nodeRule
  cases (!(d.producers (k / 3)).isEmpty) <;> cases d.isVirtual (k / 3) <;> simp

theorem ruleOf_mod1_eq (d : Desc) {k : Key} (h : k % 3 = 1) :
    ruleOf d k = commandRule (decide (k / 3 < d.cmds.length)) := by
  unfold ruleOf
  rw [h]
  simp only [show ¬ (1 = 0) by decide, if_true, if_false]

theorem ruleOf_mod2_eq (d : Desc) {k : Key} (h : k % 3 = 2) :
    ruleOf d k = targetRule (decide (k / 3 < d.targets.length)) := by
  unfold ruleOf
  rw [h]
  simp only [show ¬ (2 = 0) by decide, show ¬ (2 = 1) by decide, if_false]

/-- the signature term of a command key: the command's term when the description has that command, nothing otherwise -/
theorem sigTerm_mod1 (d : Desc) {k : Key} (h : k % 3 = 1) :
    sigTerm d k = if k / 3 < d.cmds.length then cmdTerm (k / 3) (d.cmd (k / 3)) else [] := by
  unfold sigTerm
  rw [ruleOf_mod1_eq d h]
  by_cases hc : k / 3 < d.cmds.length
  · simp only [hc, decide_true, commandRule, Bool.not_true, if_true]
    rfl
  · simp only [hc, decide_false, commandRule, Bool.not_false, if_true, if_false]
    rfl

theorem cmdTerm_ne_nil (n : Nat) (c : Cmd) : cmdTerm n c ≠ [] := by
  unfold cmdTerm; simp

/-! ### what a rule's task depends on, per key class -/

/-- a node rule's requests depend on the description through the node's type and producer list only -/
theorem nextOf_node_congr {d d' : Desc} {k : Key} (h : k % 3 = 0)
    (hv : d.isVirtual (k / 3) = d'.isVirtual (k / 3)) (hp : d.producers (k / 3) = d'.producers (k / 3)) :
    nextOf d k = nextOf d' k := by
  have hr : ruleOf d k = ruleOf d' k := by rw [ruleOf_mod0 d h, ruleOf_mod0 d' h, hv, hp]
  unfold nextOf
  rw [hr, hp]
  rcases ruleOf_node_cases d' h with e | e | e <;> simp only [e]

/-- a node rule's result function depends on the description through the node's type, its producer list and
`getResultForOutput` of the (single) producer -/
theorem outOf_node_congr {d d' : Desc} {k : Key} (h : k % 3 = 0)
    (hv : d.isVirtual (k / 3) = d'.isVirtual (k / 3)) (hp : d.producers (k / 3) = d'.producers (k / 3))
    (hres : ∀ c, d'.producers (k / 3) = [c] →
      ∀ cv, resultForOutput d (d.cmd c) (k / 3) cv = resultForOutput d' (d'.cmd c) (k / 3) cv)
    (env : Env) (recv : Recv) : outOf d k env recv = outOf d' k env recv := by
  have hr : ruleOf d k = ruleOf d' k := by rw [ruleOf_mod0 d h, ruleOf_mod0 d' h, hv, hp]
  unfold outOf
  rw [hr, hp]
  rcases ruleOf_node_cases d' h with e | e | e <;> simp only [e]
  cases hq : d'.producers (k / 3) with
  | nil => rfl
  | cons c rest =>
    cases rest with
    | nil =>
      simp only []
      cases getRecv recv 0 with
      | none => rfl
      | some cv => exact hres c hq cv
    | cons c2 r2 => rfl

/-- a command rule's requests and result function depend on the description through `ruleOf` and the `Cmd` record -/
theorem command_congr {d d' : Desc} {k : Key} (h : k % 3 = 1)
    (hl : (k / 3 < d.cmds.length) ↔ (k / 3 < d'.cmds.length)) (hc : d.cmd (k / 3) = d'.cmd (k / 3)) :
    nextOf d k = nextOf d' k ∧ ∀ env recv, outOf d k env recv = outOf d' k env recv := by
  have hr : ruleOf d k = ruleOf d' k := by
    rw [ruleOf_mod1_eq d h, ruleOf_mod1_eq d' h]
    congr 1
    exact decide_eq_decide.2 hl
  have hcases : ruleOf d' k = .commandTask ∨ ruleOf d' k = .missingCommandTask := by
    rw [ruleOf_mod1_eq d' h]; unfold commandRule
    cases decide (k / 3 < d'.cmds.length) <;> simp
  constructor
  · unfold nextOf
    rw [hr, hc]
    rcases hcases with e | e <;> simp only [e]
  · intro env recv
    unfold outOf
    rw [hr, hc]
    rcases hcases with e | e <;> simp only [e]

/-- a target rule's requests and result function depend on the description through the target table only -/
theorem target_congr {d d' : Desc} {k : Key} (h : k % 3 = 2) (ht : d.targets = d'.targets) :
    nextOf d k = nextOf d' k ∧ ∀ env recv, outOf d k env recv = outOf d' k env recv := by
  have hr : ruleOf d k = ruleOf d' k := by rw [ruleOf_mod2_eq d h, ruleOf_mod2_eq d' h, ht]
  have hcases : ruleOf d' k = .targetTask ∨ ruleOf d' k = .abort := by
    rw [ruleOf_mod2_eq d' h]; unfold targetRule
    cases decide (k / 3 < d'.targets.length) <;> simp
  constructor
  · unfold nextOf
    rw [hr, ht]
    rcases hcases with e | e <;> simp only [e]
  · intro env recv
    unfold outOf
    rw [hr]
    rcases hcases with e | e <;> simp only [e]

/-! ### a successful command's value records its output list -/

theorem godel_eq_codeOutputs : ∀ l : List Nat, godel l = codeOutputs l
  | [] => rfl
  | a :: l => by simp only [godel, codeOutputs, godel_eq_codeOutputs l]

theorem codeOutputs_inj (a b : List Nat) (h : codeOutputs a = codeOutputs b) : a = b :=
  godel_inj a b (by rw [godel_eq_codeOutputs, godel_eq_codeOutputs, h])

theorem posScan_zero_code (i : Nat) : ∀ f z, posScan i f 0 z = 0
  | 0, _ => rfl
  | f + 1, _ => by simp [posScan]

/-- skipping `a` zero bits -/
theorem posScan_zeros (i : Nat) : ∀ (a f n z : Nat), n ≠ 0 → posScan i (f + a) (2 ^ a * n) z = posScan i f n (z + a)
  | 0, f, n, z, _ => by simp
  | a + 1, f, n, z, hn => by
    have e : 2 ^ (a + 1) * n = 2 * (2 ^ a * n) := by rw [Nat.pow_succ]; ac_rfl
    have hpos : 0 < 2 ^ a * n := Nat.mul_pos (Nat.pow_pos (by decide)) (Nat.pos_of_ne_zero hn)
    have h1 : 2 * (2 ^ a * n) ≠ 0 := by omega
    have h2 : 2 * (2 ^ a * n) % 2 = 0 := by omega
    have h3 : 2 * (2 ^ a * n) / 2 = 2 ^ a * n := by omega
    rw [show f + (a + 1) = (f + a) + 1 from rfl, e]
    simp only [posScan, h1, h2, h3, if_true, if_false]
    rw [posScan_zeros i a f n (z + 1) hn]
    congr 1
    omega

/-- reading the one bit that ends an element -/
theorem posScan_one (i f m z : Nat) :
    posScan i (f + 1) (2 * m + 1) z = if z = i then 0 else 1 + posScan i f m 0 := by
  have h1 : 2 * m + 1 ≠ 0 := by omega
  have h2 : ¬ (2 * m + 1) % 2 = 0 := by omega
  have h3 : (2 * m + 1) / 2 = m := by omega
  simp only [posScan, h1, h2, h3, if_false]

/-- number of bits of the code of a list -/
def codeBits : List Nat → Nat
  | [] => 0
  | a :: l => a + 1 + codeBits l

theorem posScan_code (i : Nat) : ∀ (l : List Nat) (f : Nat), codeBits l ≤ f → posScan i f (codeOutputs l) 0 = l.idxOf i
  | [], f, _ => by simp [codeOutputs, posScan_zero_code]
  | a :: l, f, hf => by
    simp only [codeBits] at hf
    obtain ⟨f', rfl⟩ : ∃ f', f = (f' + 1) + a := ⟨f - a - 1, by omega⟩
    simp only [codeOutputs]
    rw [posScan_zeros i a (f' + 1) _ 0 (by omega), posScan_one, posScan_code i l f' (by omega), List.idxOf_cons]
    by_cases h : a = i
    · simp [h]
    · have hb : (a == i) = false := by simp [h]
      have h0 : ¬ 0 + a = i := by omega
      simp only [h0, hb, if_false, cond_false]
      exact Nat.add_comm _ _

theorem codeBits_le_code : ∀ l : List Nat, codeBits l ≤ codeOutputs l
  | [] => Nat.le_refl 0
  | a :: l => by
    have ih := codeBits_le_code l
    have h2 : a + 1 ≤ 2 ^ a := Nat.lt_two_pow_self
    simp only [codeBits, codeOutputs]
    calc a + 1 + codeBits l ≤ (a + 1) * (2 * codeOutputs l + 1) := by
          rw [Nat.mul_add, Nat.mul_one]
          have : codeOutputs l ≤ (a + 1) * (2 * codeOutputs l) := by
            calc codeOutputs l ≤ 1 * (2 * codeOutputs l) := by omega
              _ ≤ (a + 1) * (2 * codeOutputs l) := Nat.mul_le_mul_right _ (by omega)
          omega
      _ ≤ 2 ^ a * (2 * codeOutputs l + 1) := Nat.mul_le_mul_right _ h2

theorem successValue_payload (c : Cmd) (h : Nat) :
    successValue c h / 8 = h % MOD + MOD * codeOutputs c.outputs := by
  have e : ∀ x : Nat, (8 * x + 5) / 8 = x := by intro x; omega
  exact e _

theorem payload_div_MOD (x code : Nat) : (x % MOD + MOD * code) / MOD = code := by
  have hM : 0 < MOD := by decide
  rw [Nat.add_mul_div_left _ _ hM, Nat.div_eq_of_lt (Nat.mod_lt _ hM)]
  omega

/-- in the value a command produces under its current definition the recorded position of a node is its position
among the command's outputs (what `getNthOutputInfo(idx)` reads) -/
theorem recordedPos_successValue (c : Cmd) (h i : Nat) :
    recordedPos (successValue c h / 8) i = c.outputs.idxOf i := by
  rw [successValue_payload]
  unfold recordedPos
  rw [payload_div_MOD]
  exact posScan_code i c.outputs _ (codeBits_le_code _)

/-- `mix` only looks at the payload modulo MOD: the record of the output at position `j` is `mix h j` -/
theorem mix_successValue (c : Cmd) (h j : Nat) : mix (successValue c h / 8) j = mix h j := by
  rw [successValue_payload]
  unfold mix MOD
  omega

/-- the value records the output list: different output lists give different values -/
theorem successValue_outputs {c c' : Cmd} {h h' : Nat} (e : successValue c h = successValue c' h') :
    c.outputs = c'.outputs := by
  have e' : successValue c h / 8 = successValue c' h' / 8 := by rw [e]
  rw [successValue_payload, successValue_payload] at e'
  have := congrArg (· / MOD) e'
  simp only [payload_div_MOD] at this
  exact codeOutputs_inj _ _ this

/-- for a non-virtual node `getResultForOutput` does not look at the producer's definition -/
theorem resultForOutput_nonvirtual {d d' : Desc} {c c' : Cmd} {i : Nat}
    (hv : d.isVirtual i = false) (hv' : d'.isVirtual i = false) (cv : Val) :
    resultForOutput d c i cv = resultForOutput d' c' i cv := by
  unfold resultForOutput
  simp [hv, hv']

/-- for a virtual node it looks at the producer's tool class (phony / symlink / other) only -/
theorem resultForOutput_virtual {d d' : Desc} {c c' : Cmd} {i : Nat}
    (hv : d.isVirtual i = true) (hv' : d'.isVirtual i = true)
    (hp : c.tool = .phony ↔ c'.tool = .phony) (hs : c.tool = .symlink ↔ c'.tool = .symlink) (cv : Val) :
    resultForOutput d c i cv = resultForOutput d' c' i cv := by
  unfold resultForOutput
  simp only [hv, hv', and_true, true_and]
  by_cases a : c.tool = .phony
  · simp [a, hp.1 a]
  · have a' : ¬ c'.tool = .phony := fun x => a (hp.2 x)
    by_cases b : c.tool = .symlink
    · simp [b, hs.1 b]
    · have b' : ¬ c'.tool = .symlink := fun x => b (hs.2 x)
      simp [a, a', b, b']

end LLBuild.BuildSystemClient
