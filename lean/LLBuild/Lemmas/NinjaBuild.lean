/-
Helper lemmas for Props/C18.lean: the timestamp order, `newestModTime` is an upper bound of the received
input mtimes, file-system histories.
-/
import LLBuild.Model.NinjaBuild

namespace LLBuild.NinjaBuild
open Gen

/-! ### FileTimestamp order -/

theorem TS.lt_iff (a b : TS) : a.lt b = true ↔ a.sec < b.sec ∨ (a.sec = b.sec ∧ a.nsec < b.nsec) := by
  simp [TS.lt]

theorem TS.le_iff (a b : TS) : a.le b = true ↔ a.sec < b.sec ∨ (a.sec = b.sec ∧ a.nsec ≤ b.nsec) := by
  simp [TS.le]

theorem TS.le_refl (a : TS) : a.le a = true := by rw [TS.le_iff]; omega

theorem TS.le_trans {a b c : TS} (h1 : a.le b = true) (h2 : b.le c = true) : a.le c = true := by
  rw [TS.le_iff] at *; omega

theorem TS.le_of_not_lt {a b : TS} (h : a.lt b = false) : b.le a = true := by
  have : ¬ (a.lt b = true) := by simp [h]
  rw [TS.lt_iff] at this; rw [TS.le_iff]; omega

theorem TS.le_of_lt {a b : TS} (h : a.lt b = true) : a.le b = true := by
  rw [TS.lt_iff] at h; rw [TS.le_iff]; omega

theorem TS.not_le_of_lt {a b : TS} (h : a.lt b = true) : b.le a = false := by
  have : ¬ (b.le a = true) := by rw [TS.lt_iff] at h; rw [TS.le_iff]; omega
  simpa using this

theorem TS.lt_of_not_le {a b : TS} (h : a.le b = false) : b.lt a = true := by
  have : ¬ (a.le b = true) := by simp [h]
  rw [TS.le_iff] at this; rw [TS.lt_iff]; omega

/-! ### newestModTime -/

theorem provide_newest_mono (a : Acc) (v : BuildValue) : a.newest.le (provide a v).newest = true := by
  unfold provide
  split
  · exact TS.le_refl _
  · split
    · exact TS.le_refl _
    · split
      · rename_i h
        simp only [newestCmp, Cmp.eval] at h
        exact TS.le_of_lt h
      · exact TS.le_refl _

theorem provide_newest_ge (a : Acc) (v : BuildValue) (hk : okInputKinds.contains v.kind = true)
    (hm : v.outputInfo.isMissing = false) : v.outputInfo.mtime.le (provide a v).newest = true := by
  unfold provide
  simp only [hk, hm, Bool.not_true, Bool.false_eq_true, ↓reduceIte]
  split
  · exact TS.le_refl _
  · rename_i h
    simp only [newestCmp, Cmp.eval, Bool.not_eq_true] at h
    exact TS.le_of_not_lt h

theorem foldl_newest_mono (l : List BuildValue) : ∀ a : Acc, a.newest.le (l.foldl provide a).newest = true := by
  induction l with
  | nil => intro a; exact TS.le_refl _
  | cons v vs ih => intro a; exact TS.le_trans (provide_newest_mono a v) (ih _)

theorem foldl_newest_ge (l : List BuildValue) : ∀ (a : Acc) (v : BuildValue), v ∈ l →
    okInputKinds.contains v.kind = true → v.outputInfo.isMissing = false →
    v.outputInfo.mtime.le (l.foldl provide a).newest = true := by
  induction l with
  | nil => intro a v hv; cases hv
  | cons x xs ih =>
    intro a v hv hk hm
    rcases List.mem_cons.1 hv with rfl | hv
    · exact TS.le_trans (provide_newest_ge a v hk hm) (foldl_newest_mono xs _)
    · exact ih _ v hv hk hm

/-- `canUpdateIfNewer` only ever goes from true to false -/
theorem provide_can_mono (a : Acc) (v : BuildValue) : (provide a v).canUpdateIfNewer = true → a.canUpdateIfNewer = true := by
  unfold provide
  split
  · intro h; simp only [Bool.and_eq_true] at h; exact h.1
  · split
    · intro h; cases h
    · split <;> exact id

theorem foldl_can_mono (l : List BuildValue) : ∀ a : Acc, (l.foldl provide a).canUpdateIfNewer = true → a.canUpdateIfNewer = true := by
  induction l with
  | nil => intro a h; exact h
  | cons v vs ih => intro a h; exact provide_can_mono a v (ih _ h)

theorem provide_can_missing (a : Acc) (v : BuildValue) (hk : okInputKinds.contains v.kind = true)
    (hm : v.outputInfo.isMissing = true) : (provide a v).canUpdateIfNewer = false := by
  unfold provide
  simp only [hk, hm, Bool.not_true, Bool.false_eq_true, ↓reduceIte]

/-- an input that is a successful command (or existing input) without a file disables the shortcut -/
theorem foldl_can_missing (l : List BuildValue) : ∀ (a : Acc) (v : BuildValue), v ∈ l →
    okInputKinds.contains v.kind = true → v.outputInfo.isMissing = true →
    (l.foldl provide a).canUpdateIfNewer = false := by
  induction l with
  | nil => intro a v hv; cases hv
  | cons x xs ih =>
    intro a v hv hk hm
    rcases List.mem_cons.1 hv with rfl | hv
    · cases h : (List.foldl provide (provide a v) xs).canUpdateIfNewer with
      | false => simpa using h
      | true =>
        have := foldl_can_mono xs _ h
        rw [provide_can_missing a v hk hm] at this
        cases this
    · exact ih _ v hv hk hm

/-- F43: a failed / skipped / missing input clears `canUpdateIfNewer` -/
theorem provide_can_bad (a : Acc) (v : BuildValue) (hk : okInputKinds.contains v.kind = false) :
    (provide a v).canUpdateIfNewer = false := by
  have hb : badInputDisablesUpdateIfNewer = true := by decide
  unfold provide
  simp only [hk, hb, Bool.not_false, Bool.not_true, Bool.and_false, ↓reduceIte]

/-- an input that failed, was skipped or is missing disables the shortcut, wherever it arrives in the sequence -/
theorem foldl_can_bad (l : List BuildValue) : ∀ (a : Acc) (v : BuildValue), v ∈ l →
    okInputKinds.contains v.kind = false → (l.foldl provide a).canUpdateIfNewer = false := by
  induction l with
  | nil => intro a v hv; cases hv
  | cons x xs ih =>
    intro a v hv hk
    rcases List.mem_cons.1 hv with rfl | hv
    · cases h : (List.foldl provide (provide a v) xs).canUpdateIfNewer with
      | false => simpa using h
      | true =>
        have := foldl_can_mono xs _ h
        rw [provide_can_bad a v hk] at this
        cases this
    · exact ih _ v hv hk

theorem provide_skip_mono (a : Acc) (v : BuildValue) : a.shouldSkip = true → (provide a v).shouldSkip = true := by
  unfold provide
  split
  · intro _; rfl
  · split
    · exact id
    · split <;> exact id

theorem foldl_skip_mono (l : List BuildValue) : ∀ a : Acc, a.shouldSkip = true → (l.foldl provide a).shouldSkip = true := by
  induction l with
  | nil => intro a h; exact h
  | cons v vs ih => intro a h; exact ih _ (provide_skip_mono a v h)

theorem foldl_skip_of_mem (l : List BuildValue) : ∀ (a : Acc) (v : BuildValue), v ∈ l →
    okInputKinds.contains v.kind = false → (l.foldl provide a).shouldSkip = true := by
  induction l with
  | nil => intro a v hv; cases hv
  | cons x xs ih =>
    intro a v hv hk
    rcases List.mem_cons.1 hv with rfl | hv
    · rw [List.foldl_cons]
      apply foldl_skip_mono
      unfold provide
      simp only [hk, Bool.not_false, ↓reduceIte]
    · exact ih _ v hv hk

/-! ### received values -/

theorem received_eq {α : Type} (ins : Inputs α) : received ins = ins.explicit ++ ins.implicit := by
  have h1 : (ReqKind.request != ReqKind.mustFollow) = true := by decide
  simp [received, requests, explicitReq, implicitReq, orderOnlyReq, List.filter_append, List.filter_map, Function.comp_def, h1]
  have ht : ∀ l : List α, List.filter (fun _ => true) l = l := fun l => List.filter_eq_self.2 (fun _ _ => rfl)
  have hf : ∀ l : List α, List.filter (fun _ => false) l = [] := fun l => List.filter_eq_nil_iff.2 (fun _ _ => by simp)
  simp [ht, hf]

/-! ### histories -/

theorem lastWrite_none {h : History} {f : Nat} : lastWrite h f = none ↔ writes h f = false := by
  induction h with
  | nil => simp [lastWrite, writes]
  | cons w rest ih =>
    simp only [lastWrite, writes, List.any_cons, Bool.or_eq_false_iff]
    simp only [writes] at ih
    cases hl : lastWrite rest f with
    | some w' =>
      have : ¬ (rest.any (fun w => w.file == f) = false) := fun hc => by rw [ih.2 hc] at hl; cases hl
      simp [this]
    | none =>
      rw [ih.1 hl]
      cases hw : (w.file == f) <;> simp

theorem lastWrite_mem {h : History} {f : Nat} {w : Write} (hl : lastWrite h f = some w) : w ∈ h ∧ w.file = f := by
  induction h with
  | nil => simp [lastWrite] at hl
  | cons x rest ih =>
    simp only [lastWrite] at hl
    cases hr : lastWrite rest f with
    | some w' =>
      rw [hr] at hl
      cases hl
      exact ⟨List.mem_cons_of_mem _ (ih hr).1, (ih hr).2⟩
    | none =>
      rw [hr] at hl
      by_cases hx : (x.file == f) = true
      · simp [hx] at hl
        subst hl
        exact ⟨List.mem_cons_self, by simpa using hx⟩
      · simp [hx] at hl

theorem writtenAfter_of_not_writes {h : History} {o f : Nat} (hf : writes h f = false) : writtenAfter h o f = false := by
  induction h with
  | nil => rfl
  | cons w rest ih =>
    simp only [writes, List.any_cons, Bool.or_eq_false_iff] at hf
    have hr : writes rest f = false := hf.2
    simp only [writtenAfter]
    split
    · exact ih hr
    · simp [hr]

/-- core of the soundness argument: with strictly increasing stamps, an input whose mtime does not exceed the
output's has not been written since the output was last written -/
theorem not_writtenAfter_of_le {h : History} (hinc : Increasing h) {o f : Nat} {wo wf : Write}
    (ho : lastWrite h o = some wo) (hf : lastWrite h f = some wf) (hle : wf.stamp.le wo.stamp = true) :
    writtenAfter h o f = false := by
  induction h with
  | nil => rfl
  | cons w rest ih =>
    obtain ⟨hw, hrest⟩ := hinc
    simp only [writtenAfter]
    cases hro : lastWrite rest o with
    | some wo' =>
      have hwr : writes rest o = true := by
        cases hc : writes rest o with
        | true => rfl
        | false => rw [lastWrite_none.2 hc] at hro; cases hro
      simp only [hwr, ↓reduceIte]
      have hwo : wo' = wo := by simp only [lastWrite, hro] at ho; exact Option.some.inj ho
      subst hwo
      cases hrf : lastWrite rest f with
      | some wf' =>
        have : wf' = wf := by simp only [lastWrite, hrf] at hf; exact Option.some.inj hf
        subst this
        exact ih hrest hro hrf
      | none => exact writtenAfter_of_not_writes (lastWrite_none.1 hrf)
    | none =>
      have hwr : writes rest o = false := lastWrite_none.1 hro
      simp only [hwr, Bool.false_eq_true, ↓reduceIte]
      simp only [lastWrite, hro] at ho
      by_cases hx : (w.file == o) = true
      · simp only [hx, ↓reduceIte] at ho
        have : w = wo := Option.some.inj ho
        subst this
        cases hrf : lastWrite rest f with
        | some wf' =>
          have : wf' = wf := by simp only [lastWrite, hrf] at hf; exact Option.some.inj hf
          subst this
          have hlt := hw wf' (lastWrite_mem hrf).1
          rw [TS.not_le_of_lt hlt] at hle
          cases hle
        | none => simp [lastWrite_none.1 hrf]
      · simp [hx] at ho

/-- consequently what the producer of `o` could read of `f` when it last wrote `o` is what `f` holds now -/
theorem upToLast_lastWrite {h : History} {o f : Nat} (hne : f ≠ o) (hwo : writes h o = true)
    (hna : writtenAfter h o f = false) : lastWrite (upToLast h o) f = lastWrite h f := by
  induction h with
  | nil => simp [writes] at hwo
  | cons w rest ih =>
    simp only [writtenAfter] at hna
    simp only [upToLast]
    by_cases hr : writes rest o = true
    · simp only [hr, ↓reduceIte] at hna ⊢
      simp only [lastWrite, ih hr hna]
    · have hr' : writes rest o = false := by simpa using hr
      simp only [hr', Bool.false_eq_true, ↓reduceIte] at hna ⊢
      have hw : (w.file == o) = true := by
        simp only [writes, List.any_cons, Bool.or_eq_true] at hwo
        rcases hwo with h1 | h1
        · exact h1
        · simp only [writes] at hr'; rw [hr'] at h1; cases h1
      simp only [hw, Bool.true_and] at hna
      simp only [hw, ↓reduceIte]
      have hwf : (w.file == f) = false := by
        have : w.file = o := by simpa using hw
        simp [this, Ne.symm hne]
      simp [lastWrite, lastWrite_none.2 hna, hwf]

end LLBuild.NinjaBuild
