/-
C12 on the engine: a concrete injective numbering (`natCoding`) of the keys and values of the directory client
(LLBuild/Lemmas/DirTreeEngine.lean), so that the client and its theorems are not vacuous.  The encoders are
explicit (`2^a * (2b+1)` pairing); the decoders are their inverses, obtained from injectivity by choice — nothing
is ever computed with them.
-/
import LLBuild.Lemmas.DirTreeEngine

namespace LLBuild.DirTree
open LLBuild.Engine
open LLBuild.Codec (Value)
open LLBuild.Generated.Codec (VKind)
open LLBuild.Generated.DirTreeRecipe (SigKind)

open Classical in
/-- a coding from two injective encoders -/
noncomputable def Coding.ofInjective (key : DKey → Nat) (hk : ∀ a b, key a = key b → a = b)
    (val : DVal → Nat) (hv : ∀ a b, val a = val b → a = b) : Coding where
  key := key
  unkey := fun n => if h : ∃ k, key k = n then some (Classical.choose h) else none
  val := val
  unval := fun n => if h : ∃ v, val v = n then some (Classical.choose h) else none
  unkey_key := by
    intro k
    have h : ∃ k', key k' = key k := ⟨k, rfl⟩
    simp only [dif_pos h]
    exact congrArg some (hk _ _ (Classical.choose_spec h))
  unval_val := by
    intro v
    have h : ∃ v', val v' = val v := ⟨v, rfl⟩
    simp only [dif_pos h]
    exact congrArg some (hv _ _ (Classical.choose_spec h))

/-! ### injective encoders -/

def pair (a b : Nat) : Nat := 2 ^ a * (2 * b + 1)

theorem pair_inj : ∀ {a a' b b' : Nat}, pair a b = pair a' b' → a = a' ∧ b = b'
  | 0, 0, b, b', h => by simp only [pair, Nat.pow_zero, Nat.one_mul] at h; omega
  | 0, a' + 1, b, b', h => by
    simp only [pair, Nat.pow_zero, Nat.one_mul, Nat.pow_succ] at h
    generalize 2 ^ a' = x at h
    have : x * 2 * (2 * b' + 1) = 2 * (x * (2 * b' + 1)) := by
      rw [Nat.mul_comm x 2, Nat.mul_assoc]
    omega
  | a + 1, 0, b, b', h => by
    simp only [pair, Nat.pow_zero, Nat.one_mul, Nat.pow_succ] at h
    generalize 2 ^ a = x at h
    have : x * 2 * (2 * b + 1) = 2 * (x * (2 * b + 1)) := by
      rw [Nat.mul_comm x 2, Nat.mul_assoc]
    omega
  | a + 1, a' + 1, b, b', h => by
    have h' : pair a b = pair a' b' := by
      simp only [pair, Nat.pow_succ] at h ⊢
      have e1 : 2 ^ a * 2 * (2 * b + 1) = 2 * (2 ^ a * (2 * b + 1)) := by
        rw [Nat.mul_comm (2 ^ a) 2, Nat.mul_assoc]
      have e2 : 2 ^ a' * 2 * (2 * b' + 1) = 2 * (2 ^ a' * (2 * b' + 1)) := by
        rw [Nat.mul_comm (2 ^ a') 2, Nat.mul_assoc]
      omega
    have := pair_inj h'
    omega

def encList {α : Type} (f : α → Nat) : List α → Nat
  | [] => 0
  | x :: xs => pair (f x) (encList f xs) + 1

theorem encList_inj {α : Type} {f : α → Nat} (hf : ∀ a b, f a = f b → a = b) :
    ∀ (l l' : List α), encList f l = encList f l' → l = l'
  | [], [], _ => rfl
  | [], _ :: _, h => by simp [encList] at h
  | _ :: _, [], h => by simp [encList] at h
  | x :: xs, y :: ys, h => by
    simp only [encList, Nat.add_right_cancel_iff] at h
    obtain ⟨h1, h2⟩ := pair_inj h
    rw [hf _ _ h1, encList_inj hf xs ys h2]

def encOpt {α : Type} (f : α → Nat) : Option α → Nat
  | none => 0
  | some a => f a + 1

theorem encOpt_inj {α : Type} {f : α → Nat} (hf : ∀ a b, f a = f b → a = b) :
    ∀ (o o' : Option α), encOpt f o = encOpt f o' → o = o'
  | none, none, _ => rfl
  | none, some _, h => by simp [encOpt] at h
  | some _, none, h => by simp [encOpt] at h
  | some a, some b, h => by simp only [encOpt, Nat.add_right_cancel_iff] at h; rw [hf _ _ h]

def encBytes (b : Bytes) : Nat := encList (fun x : UInt8 => x.toNat) b

theorem encBytes_inj (a b : Bytes) (h : encBytes a = encBytes b) : a = b :=
  encList_inj (fun _ _ hxy => UInt8.toNat_inj.1 hxy) a b h

def encInfo (i : Info) : Nat :=
  pair (encBytes i.checksum.toList)
    (encList id [i.device.toNat, i.inode.toNat, i.mode.toNat, i.size.toNat, i.mtimeSec.toNat, i.mtimeNsec.toNat])

theorem encInfo_inj (a b : Info) (h : encInfo a = encInfo b) : a = b := by
  obtain ⟨h0, h'⟩ := pair_inj h
  have := encList_inj (f := id) (fun _ _ h => h) _ _ h'
  simp only [List.cons.injEq, and_true] at this
  obtain ⟨h1, h2, h3, h4, h5, h6⟩ := this
  cases a; cases b
  simp only [Info.mk.injEq]
  exact ⟨UInt64.toNat_inj.1 h1, UInt64.toNat_inj.1 h2, UInt64.toNat_inj.1 h3, UInt64.toNat_inj.1 h4,
    UInt64.toNat_inj.1 h5, UInt64.toNat_inj.1 h6, Vector.toList_inj.1 (encBytes_inj _ _ h0)⟩

def encFileInfo (i : Codec.FileInfo) : Nat :=
  pair (encBytes i.checksum_bytes)
    (encList id [i.device.toNat, i.inode.toNat, i.mode.toNat, i.size.toNat, i.modTime_seconds.toNat,
      i.modTime_nanoseconds.toNat])

theorem encFileInfo_inj (a b : Codec.FileInfo) (h : encFileInfo a = encFileInfo b) : a = b := by
  obtain ⟨h0, h'⟩ := pair_inj h
  have := encList_inj (f := id) (fun _ _ h => h) _ _ h'
  simp only [List.cons.injEq, and_true] at this
  obtain ⟨h1, h2, h3, h4, h5, h6⟩ := this
  cases a; cases b
  simp only [Codec.FileInfo.mk.injEq]
  exact ⟨UInt64.toNat_inj.1 h1, UInt64.toNat_inj.1 h2, UInt64.toNat_inj.1 h3, UInt64.toNat_inj.1 h4,
    UInt64.toNat_inj.1 h5, UInt64.toNat_inj.1 h6, encBytes_inj _ _ h0⟩

theorem vkind_ord_inj (a b : VKind) (h : a.ord = b.ord) : a = b := by
  have := congrArg VKind.ofOrd? h
  simpa [LLBuild.Codec.VKind.ofOrd_ord] using this

def encValue (v : Value) : Nat :=
  pair (pair v.kind.ord v.signature.toNat) (pair (encList encFileInfo v.outputs) (encList encBytes v.strings))

theorem encValue_inj (a b : Value) (h : encValue a = encValue b) : a = b := by
  obtain ⟨h1, h2⟩ := pair_inj h
  obtain ⟨h11, h12⟩ := pair_inj h1
  obtain ⟨h21, h22⟩ := pair_inj h2
  cases a; cases b
  simp only [Value.mk.injEq]
  exact ⟨vkind_ord_inj _ _ h11, UInt64.toNat_inj.1 h12, encList_inj encFileInfo_inj _ _ h21,
    encList_inj encBytes_inj _ _ h22⟩

def encSigKind : SigKind → Nat
  | .DirectoryTreeSignature => 0
  | .DirectoryTreeStructureSignature => 1

def encTerm : HashTerm → Nat
  | .seed => pair 0 0
  | .str b => pair 1 (encBytes b)
  | .num n => pair 2 n
  | .comb a b => pair 3 (pair (encTerm a) (encTerm b))
  | .sig k t => pair 4 (pair (encSigKind k) (encTerm t))

theorem encTerm_inj : ∀ (a b : HashTerm), encTerm a = encTerm b → a = b := by
  intro a
  induction a with
  | seed => intro b h; cases b <;> simp only [encTerm] at h <;> first | rfl | (have := (pair_inj h).1; omega)
  | str x =>
    intro b h
    cases b <;> simp only [encTerm] at h <;> first
      | (have := (pair_inj h).1; omega)
      | (rw [encBytes_inj _ _ (pair_inj h).2])
  | num n =>
    intro b h
    cases b <;> simp only [encTerm] at h <;> first
      | (have := (pair_inj h).1; omega)
      | (rw [(pair_inj h).2])
  | comb x y ihx ihy =>
    intro b h
    cases b <;> simp only [encTerm] at h <;> first
      | (have := (pair_inj h).1; omega)
      | (have h2 := pair_inj (pair_inj h).2; rw [ihx _ h2.1, ihy _ h2.2])
  | sig k t ih =>
    intro b h
    cases b <;> simp only [encTerm] at h <;> first
      | (have := (pair_inj h).1; omega)
      | (have h2 := pair_inj (pair_inj h).2
         rw [ih _ h2.2]
         rename_i k' t'
         have : k = k' := by cases k <;> cases k' <;> simp [encSigKind] at h2 <;> rfl
         rw [this])

def encBool (b : Bool) : Nat := if b then 1 else 0

theorem encBool_inj (a b : Bool) (h : encBool a = encBool b) : a = b := by
  cases a <;> cases b <;> simp [encBool] at h <;> rfl

def encEntry (e : Name × Bool) : Nat := pair (encBytes e.1) (encBool e.2)

theorem encEntry_inj (a b : Name × Bool) (h : encEntry a = encEntry b) : a = b := by
  obtain ⟨h1, h2⟩ := pair_inj h
  obtain ⟨a1, a2⟩ := a; obtain ⟨b1, b2⟩ := b
  simp only [Prod.mk.injEq]
  exact ⟨encBytes_inj _ _ h1, encBool_inj _ _ h2⟩

def encKey : DKey → Nat
  | .stat p => pair 0 (encBytes p)
  | .ents p => pair 1 (encBytes p)
  | .contents p => pair 2 (encBytes p)
  | .sig s p => pair 3 (pair (encBool s) (encBytes p))
  | .dirNode s p => pair 4 (pair (encBool s) (encBytes p))
  | .cmd s p => pair 5 (pair (encBool s) (encBytes p))

theorem encKey_inj (a b : DKey) (h : encKey a = encKey b) : a = b := by
  cases a <;> cases b <;> simp only [encKey] at h <;> first
    | (have := (pair_inj h).1; omega)
    | (rw [encBytes_inj _ _ (pair_inj h).2]; done)
    | (have h2 := pair_inj (pair_inj h).2; rw [encBool_inj _ _ h2.1, encBytes_inj _ _ h2.2])

def encVal : DVal → Nat
  | .stat i d => pair 0 (pair (encOpt encInfo i) (encBool d))
  | .ents es => pair 1 (encList encEntry es)
  | .bv v => pair 2 (encValue v)
  | .sig t => pair 3 (encTerm t)
  | .cmd x => pair 4 x

theorem encVal_inj (a b : DVal) (h : encVal a = encVal b) : a = b := by
  cases a <;> cases b <;> simp only [encVal] at h <;> first
    | (have := (pair_inj h).1; omega)
    | (have h2 := pair_inj (pair_inj h).2; rw [encOpt_inj encInfo_inj _ _ h2.1, encBool_inj _ _ h2.2]; done)
    | (rw [encList_inj encEntry_inj _ _ (pair_inj h).2]; done)
    | (rw [encValue_inj _ _ (pair_inj h).2]; done)
    | (rw [encTerm_inj _ _ (pair_inj h).2]; done)
    | (rw [(pair_inj h).2]; done)

/-- a numbering of the keys and values of the directory client -/
noncomputable def natCoding : Coding := Coding.ofInjective encKey encKey_inj encVal encVal_inj

end LLBuild.DirTree
