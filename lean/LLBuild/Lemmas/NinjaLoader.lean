/- Helper lemmas for C17LOAD (LLBuild/Props/C17Load.lean holds the property theorems). -/
import LLBuild.Model.NinjaLoader
import LLBuild.Model.NinjaSpec

namespace LLBuild.NinjaLoader
open LLBuild.Generated.NinjaLoaderTables

/-! ### A. character classes: the extracted tables are the manual's classes -/

theorem uint8_forall (p : UInt8 → Prop) (h : ∀ n : Fin 256, p (UInt8.ofNat n.val)) : ∀ c : UInt8, p c := by
  intro c
  have := h ⟨c.toNat, c.toNat_lt⟩
  simpa using this

set_option maxRecDepth 100000 in
theorem isIdentChar_eq : ∀ c, isIdentChar c = Spec.isIdentCharS c :=
  uint8_forall _ (by decide)

set_option maxRecDepth 100000 in
theorem isSimpleIdentChar_eq : ∀ c, isSimpleIdentChar c = Spec.isSimpleCharS c :=
  uint8_forall _ (by decide)

set_option maxRecDepth 100000 in
theorem isSpace_eq : ∀ c, isSpace c = Spec.isBlank c :=
  uint8_forall _ (by decide)

set_option maxRecDepth 100000 in
theorem isDollarEscape_iff : ∀ c, isDollarEscape c = true ↔ (c = 32 ∨ c = 58 ∨ c = 36) :=
  uint8_forall _ (by decide)

set_option maxRecDepth 100000 in
theorem simple_not_dollar : ∀ c, isSimpleIdentChar c = true → c ≠ 36 :=
  uint8_forall _ (by decide)

/-! ### A. the cursor machine against the recursive descent -/

@[simp] theorem emit_nil (v : Out) : Out.emit v ([], []) = v := by
  simp [Out.emit]

theorem evalGo_text_cons (lookup : Bytes → Out) (c : UInt8) (r : Bytes) :
    evalGo lookup .text (c :: r) =
      if c = 36 then evalGo lookup .dollar r else Out.emit ([c], []) (evalGo lookup .text r) := by
  simp [evalGo]

theorem evalGo_skipws (lookup : Bytes → Out) (s : Bytes) :
    evalGo lookup .skipws s = evalGo lookup .text (s.dropWhile isSpace) := by
  induction s with
  | nil => simp [evalGo]
  | cons c r ih =>
    by_cases hc : isSpace c = true
    · simp [evalGo, hc, ih]
    · simp [evalGo, hc]

theorem evalGo_simple (lookup : Bytes → Out) (s name : Bytes) :
    evalGo lookup (.simple name) s =
      Out.emit (lookup (name ++ s.takeWhile isSimpleIdentChar))
        (evalGo lookup .text (s.dropWhile isSimpleIdentChar)) := by
  induction s generalizing name with
  | nil => simp [evalGo]
  | cons c r ih =>
    by_cases hc : isSimpleIdentChar c = true
    · simp [evalGo, hc, ih]
    · by_cases h36 : c = 36
      · subst h36; simp [evalGo, hc]
      · simp [evalGo, hc, h36]

theorem evalGo_brace (lookup : Bytes → Out) (s name : Bytes) (valid : Bool) :
    evalGo lookup (.brace name valid) s =
      match s.dropWhile (· ≠ 125) with
      | [] => ([], [.missingBrace])
      | _ :: r' =>
        Out.emit (if valid && (s.takeWhile (· ≠ 125)).all isIdentChar
                  then lookup (name ++ s.takeWhile (· ≠ 125)) else ([], [.badVarName]))
          (evalGo lookup .text r') := by
  induction s generalizing name valid with
  | nil => simp [evalGo]
  | cons c r ih =>
    by_cases hc : c = 125
    · subst hc; simp [evalGo]
    · simp [evalGo, hc, ih, Bool.and_assoc]

/-- a loader-side lookup that follows a spec-side lookup wherever the latter is defined -/
def LookupRel (sl : Bytes → Option Bytes) (ll : Bytes → Out) : Prop :=
  ∀ n v, sl n = some v → ll n = (v, [])

theorem evalString_agrees (sl : Bytes → Option Bytes) (ll : Bytes → Out) (h : LookupRel sl ll) :
    ∀ (s v : Bytes), Spec.eval sl s = some v → evalString ll s = (v, []) := by
  intro s
  have hsp : Spec.isBlank = isSpace := (funext isSpace_eq).symm
  have hsi : Spec.isSimpleCharS = isSimpleIdentChar := (funext isSimpleIdentChar_eq).symm
  have hid : Spec.isIdentCharS = isIdentChar := (funext isIdentChar_eq).symm
  fun_induction Spec.eval sl s
  case case1 => intro v hv; cases hv; simp [evalString, evalGo]
  case case2 c r hc ih =>
    intro v hv
    simp only [Option.map_eq_some_iff] at hv
    obtain ⟨a, ha, rfl⟩ := hv
    have := ih a ha
    simp only [evalString] at this
    simp [evalString, evalGo, hc, this, Out.emit]
  case case3 => intro v hv; cases hv
  case case4 c hc r ih =>
    intro v hv
    have hc : c = 36 := by simpa using hc
    subst hc
    have := ih v hv
    simp only [evalString, hsp] at this
    simp [evalString, evalGo, evalGo_skipws, this]
  case case5 c hc d r hd10 hd ih =>
    intro v hv
    have hc : c = 36 := by simpa using hc
    subst hc
    simp only [Option.map_eq_some_iff] at hv
    obtain ⟨a, ha, rfl⟩ := hv
    have := ih a ha
    simp only [evalString] at this
    have he : isDollarEscape d = true := (isDollarEscape_iff d).2 hd
    simp [evalString, evalGo, hd10, he, this, Out.emit]
  case case6 => intro v hv; cases hv
  case case7 c hc r1 x r2 hd hall _ _ ih =>
    intro v hv
    have hc : c = 36 := by simpa using hc
    subst hc
    simp only [Option.bind_eq_some_iff, Option.map_eq_some_iff] at hv
    obtain ⟨w, hw, a, ha, rfl⟩ := hv
    have := ih a ha
    simp only [evalString] at this
    have hl := h _ _ hw
    have he : isDollarEscape 123 = false := by decide
    rw [hid] at hall
    simp only [ne_eq, decide_not] at hd hall hl
    simp [evalString, evalGo, he, evalGo_brace, hd, hl, this, Out.emit]
    rw [if_pos (List.all_eq_true.1 hall)]
    exact ⟨rfl, rfl⟩
  case case8 => intro v hv; cases hv
  case case9 c hc d r hd10 hd hd123 hs ih =>
    intro v hv
    have hc : c = 36 := by simpa using hc
    subst hc
    simp only [Option.bind_eq_some_iff, Option.map_eq_some_iff] at hv
    obtain ⟨w, hw, a, ha, rfl⟩ := hv
    have := ih a ha
    simp only [evalString, hsi] at this
    rw [hsi] at hw hs
    have hl := h _ _ hw
    have he : isDollarEscape d = false := by
      cases hde : isDollarEscape d
      · rfl
      · exact absurd ((isDollarEscape_iff d).1 hde) hd
    simp [evalString, evalGo, hd10, he, hd123, hs, evalGo_simple, hl, this, Out.emit]
  case case10 => intro v hv; cases hv

/-! ### B. build-parameter lookup -/

theorem lookupParam_agrees' (cfg : Cfg) (hg : cfg.guardRecursion = true) (esc : Bytes → Bytes) (ctx : BuildCtx) (q : Bool) :
    ∀ (fuel : Nat) (active : List Bytes) (name v : Bytes),
      Spec.expand esc ctx q fuel active name = some v →
      lookupParam cfg esc ctx q fuel active name = (v, []) := by
  intro fuel
  induction fuel with
  | zero => intro active name v hv; simp [Spec.expand] at hv
  | succ fuel ih =>
    intro active name v hv
    unfold Spec.expand at hv
    unfold lookupParam
    simp only [nameIn, nameInNewline, nameOut, sepIn, sepInNewline]
    by_cases h1 : name = [105, 110]
    · simp only [h1, if_true] at hv ⊢; cases hv; rfl
    · by_cases h2 : name = [105, 110, 95, 110, 101, 119, 108, 105, 110, 101]
      · simp only [h1, h2, if_true, if_false] at hv ⊢; cases hv; rfl
      · by_cases h3 : name = [111, 117, 116]
        · simp only [h1, h2, h3, if_true, if_false] at hv ⊢; cases hv; rfl
        · simp only [h1, h2, h3, if_false] at hv ⊢
          cases hp : ctx.params.lookup name with
          | some w => simp only [hp] at hv ⊢; cases hv; rfl
          | none =>
            simp only [hp] at hv ⊢
            cases hr : ctx.rule.lookup name with
            | none => simp only [hr] at hv ⊢; cases hv; rfl
            | some text =>
              simp only [hr] at hv ⊢
              by_cases hc : name ∈ active
              · simp [hc] at hv
              · simp [hc] at hv
                have hc' : (cfg.guardRecursion && active.contains name) = false := by simp [hc]
                simp only [hc', Bool.false_eq_true, if_false]
                exact evalString_agrees _ _ (fun n w hw => ih (name :: active) n w hw) text v hv

theorem shouldEscape_eq (n : Bytes) : shouldEscape n = Spec.quoted n := by
  by_cases h1 : n = strDepfile
  · subst h1; decide
  · by_cases h2 : n = strRspfile
    · subst h2; decide
    · have e1 : (n == strDepfile) = false := by simpa using h1
      have e2 : (n == strRspfile) = false := by simpa using h2
      simp only [strDepfile] at h1 e1
      simp only [strRspfile] at h2 e2
      simp [shouldEscape, escapeListed, escapeNames, Spec.quoted, strDepfile, strRspfile, h1, h2, e1, e2]

theorem lookupNamed_agrees (cfg : Cfg) (hg : cfg.guardRecursion = true) (esc : Bytes → Bytes) (ctx : BuildCtx)
    (name v : Bytes) (h : Spec.expandNamed esc ctx name = some v) : lookupNamed cfg esc ctx name = (v, []) := by
  unfold lookupNamed paramFuel
  rw [shouldEscape_eq]
  exact lookupParam_agrees' cfg hg esc ctx _ _ _ _ _ h

theorem lookAll_agrees (cfg : Cfg) (hg : cfg.guardRecursion = true) (esc : Bytes → Bytes) (ctx : BuildCtx) (l : Looked)
    (h : Spec.lookAllS esc ctx = some l) : lookAll cfg esc ctx = (l, []) := by
  unfold Spec.lookAllS at h
  simp only [Option.bind_eq_some_iff, Option.some.injEq] at h
  obtain ⟨c, hc, d, hd, dp, hdp, df, hdf, p, hp, g, hgn, r, hr, rf, hrf, rc, hrc, rfl⟩ := h
  unfold lookAll
  rw [lookupNamed_agrees cfg hg esc ctx _ _ hc, lookupNamed_agrees cfg hg esc ctx _ _ hd,
    lookupNamed_agrees cfg hg esc ctx _ _ hdp, lookupNamed_agrees cfg hg esc ctx _ _ hdf,
    lookupNamed_agrees cfg hg esc ctx _ _ hp, lookupNamed_agrees cfg hg esc ctx _ _ hgn,
    lookupNamed_agrees cfg hg esc ctx _ _ hr, lookupNamed_agrees cfg hg esc ctx _ _ hrf]
  by_cases he : rf.isEmpty = true
  · simp only [he, if_true, Option.some.injEq] at hrc
    subst hrc
    simp [he]
  · simp only [he, Bool.false_eq_true, if_false] at hrc
    rw [lookupNamed_agrees cfg hg esc ctx _ _ hrc]
    simp [he]

theorem assemble_agrees (norm : Bytes → Bytes) (pools : List (Bytes × Nat)) (rule : Bytes) (outs ins : List Node)
    (nExp nImp : Nat) (l : Looked) (c : Cmd)
    (h : Spec.assembleS norm pools rule outs ins nExp nImp l = some c) :
    assemble norm pools rule outs ins nExp nImp l = (c, []) := by
  unfold Spec.assembleS at h
  simp only [Option.bind_eq_some_iff, Option.some.injEq] at h
  obtain ⟨style, hs, pool, hp, rfl⟩ := h
  unfold Spec.depsStyleS at hs
  unfold Spec.poolS at hp
  unfold assemble
  by_cases h1 : l.deps = []
  · by_cases h2 : l.depfile = []
    · by_cases h3 : l.pool = []
      · first | (simp_all; done) | (simp_all; subst_vars; simp)
      · cases h4 : pools.lookup l.pool <;> first | (simp_all; done) | (simp_all; subst_vars; simp)
    · by_cases h3 : l.pool = []
      · first | (simp_all; done) | (simp_all; subst_vars; simp)
      · cases h4 : pools.lookup l.pool <;> first | (simp_all; done) | (simp_all; subst_vars; simp)
  · by_cases h1g : l.deps = strGcc
    · by_cases h2 : l.depfile = []
      · first | (simp_all; done) | (simp_all; subst_vars; simp)
      · by_cases h3 : l.pool = []
        · first | (simp_all; done) | (simp_all; subst_vars; simp)
        · cases h4 : pools.lookup l.pool <;> first | (simp_all; done) | (simp_all; subst_vars; simp)
    · by_cases h1m : l.deps = strMsvc
      · by_cases h2 : l.depfile = []
        · by_cases h3 : l.pool = []
          · first | (simp_all [strGcc, strMsvc]; done) | (simp_all [strGcc, strMsvc]; subst_vars; simp)
          · cases h4 : pools.lookup l.pool <;> first | (simp_all [strGcc, strMsvc]; done) | (simp_all [strGcc, strMsvc]; subst_vars; simp)
        · first | (simp_all; done) | (simp_all; subst_vars; simp)
      · first | (simp_all; done) | (simp_all; subst_vars; simp)

/-! ### C. the pieces of a declaration -/

theorem evalInScope_agrees (L : St) (vars : Bytes → Bytes)
    (hv : ∀ n, lookupVar (L.cur :: L.parents) n = vars n) (t p : Bytes)
    (h : Spec.eval (fun n => some (vars n)) t = some p) : evalInScope L t = (p, []) := by
  unfold evalInScope
  apply evalString_agrees _ _ _ t p h
  intro n v hn
  simp only [Option.some.injEq] at hn
  simp [scopeLookup, hv, hn]

theorem findOrCreate_agrees (norm : Bytes → Bytes) (seen seen1 : List Bytes) (p : Bytes)
    (h : Spec.addPath norm seen p = some seen1) :
    findOrCreate norm (seen.map (mkNode norm)) p = (mkNode norm p, seen1.map (mkNode norm)) := by
  unfold Spec.addPath at h
  unfold findOrCreate
  rw [List.find?_map]
  have hf : ((fun n : Node => n.canon == norm p) ∘ mkNode norm) = (fun q => norm q == norm p) := by
    funext q; simp [mkNode]
  rw [hf]
  cases hq : seen.find? (fun q => norm q == norm p) with
  | none => simp only [hq] at h; cases h; simp
  | some q =>
    simp only [hq] at h
    by_cases hqp : q = p
    · subst hqp; simp at h; subst h; simp
    · simp [hqp] at h

theorem evalPaths_agrees (norm : Bytes → Bytes) (L : St) (vars : Bytes → Bytes)
    (hv : ∀ n, lookupVar (L.cur :: L.parents) n = vars n) (e : Err) :
    ∀ (ts seen ps seen' : List Bytes), Spec.evalPathsS norm vars ts seen = some (ps, seen') →
      evalPaths norm L e ts (seen.map (mkNode norm)) = (ps.map (mkNode norm), seen'.map (mkNode norm), []) := by
  intro ts
  induction ts with
  | nil => intro seen ps seen' h; simp [Spec.evalPathsS] at h; obtain ⟨rfl, rfl⟩ := h; simp [evalPaths]
  | cons t ts ih =>
    intro seen ps seen' h
    unfold Spec.evalPathsS at h
    simp only [Option.bind_eq_some_iff] at h
    obtain ⟨p, hp, h⟩ := h
    by_cases hpe : p.isEmpty = true
    · simp [hpe] at h
    · simp only [hpe, Bool.false_eq_true, if_false, Option.bind_eq_some_iff, Option.map_eq_some_iff] at h
      obtain ⟨seen1, hs1, ⟨ps', seen2⟩, hr, heq⟩ := h
      simp only [Prod.mk.injEq] at heq
      obtain ⟨rfl, rfl⟩ := heq
      unfold evalPaths
      rw [evalInScope_agrees L vars hv t p hp]
      simp only [findOrCreate_agrees norm seen seen1 p hs1, ih seen1 ps' seen2 hr]
      simp [hpe]

theorem evalBindings_agrees (L : St) (vars : Bytes → Bytes)
    (hv : ∀ n, lookupVar (L.cur :: L.parents) n = vars n) :
    ∀ (bs : List Binding) (r acc : List (Bytes × Bytes)), Spec.evalBindingsS vars bs = some r →
      evalBindings L bs acc = (r ++ acc, []) := by
  intro bs
  induction bs with
  | nil => intro r acc h; simp [Spec.evalBindingsS] at h; subst h; simp [evalBindings]
  | cons b bs ih =>
    intro r acc h
    unfold Spec.evalBindingsS at h
    simp only [Option.bind_eq_some_iff, Option.map_eq_some_iff] at h
    obtain ⟨v, hv', r', hr', rfl⟩ := h
    unfold evalBindings
    rw [evalInScope_agrees L vars hv b.value v hv']
    simp [ih r' ((b.name, v) :: acc) hr']

theorem beq_dec (a b : Bytes) : (a == b) = decide (a = b) := by
  by_cases h : a = b <;> simp [h]

theorem isValidParameterName_eq (n : Bytes) : isValidParameterName n = Spec.isRuleVariable n := by
  simp [isValidParameterName, ruleParamNames, Spec.isRuleVariable, strCommand, strDescription, strDeps,
    strDepfile, strGenerator, strPool, strRestat, strRspfile, strRspfileContent, List.contains_cons, Bool.or_assoc]
  simp only [beq_dec]

theorem ruleParams_agrees : ∀ (bs : List Binding) (acc : List (Bytes × Bytes)),
    bs.all (fun b => Spec.isRuleVariable b.name) = true →
      ruleParams bs acc = ((bs.reverse.map fun b => (b.name, b.value)) ++ acc, []) := by
  intro bs
  induction bs with
  | nil => intro acc _; simp [ruleParams]
  | cons b bs ih =>
    intro acc h
    simp only [List.all_cons, Bool.and_eq_true] at h
    unfold ruleParams
    rw [isValidParameterName_eq, h.1]
    simp [ih _ h.2]

theorem poolParams_agrees (L : St) (vars : Bytes → Bytes)
    (hv : ∀ n, lookupVar (L.cur :: L.parents) n = vars n) :
    ∀ (bs : List Binding) (d k : Nat), Spec.poolDepthS vars bs d = some k → poolParams L bs d = (k, []) := by
  intro bs
  induction bs with
  | nil => intro d k h; simp [Spec.poolDepthS] at h; subst h; simp [poolParams]
  | cons b bs ih =>
    intro d k h
    unfold Spec.poolDepthS at h
    by_cases hn : b.name = strDepth
    · simp only [hn, if_true, Option.bind_eq_some_iff] at h
      obtain ⟨v, hv', j, hj, hk⟩ := h
      unfold poolParams
      rw [evalInScope_agrees L vars hv b.value v hv']
      simp [hn, hj, ih j k hk]
    · simp [hn] at h

theorem defaults_agrees (cfg : Cfg) (hd : cfg.evalDefaults = true) (norm : Bytes → Bytes) (L : St)
    (vars : Bytes → Bytes) (hv : ∀ n, lookupVar (L.cur :: L.parents) n = vars n) (seen : List Bytes)
    (hn : L.nodes = seen.map (mkNode norm)) :
    ∀ (ts ds : List Bytes), Spec.defaultsS norm vars seen ts = some ds → defaultsGo cfg norm L ts = (ds, []) := by
  intro ts
  induction ts with
  | nil => intro ds h; simp [Spec.defaultsS] at h; subst h; simp [defaultsGo]
  | cons t ts ih =>
    intro ds h
    unfold Spec.defaultsS at h
    simp only [Option.bind_eq_some_iff] at h
    obtain ⟨p, hp, h⟩ := h
    unfold defaultsGo
    simp only [hd, if_true]
    rw [evalInScope_agrees L vars hv t p hp, hn, List.find?_map]
    have hf : ((fun n : Node => n.canon == norm p) ∘ mkNode norm) = (fun q => norm q == norm p) := by
      funext q; simp [mkNode]
    rw [hf]
    cases hq : seen.find? (fun q => norm q == norm p) with
    | none => simp [hq] at h
    | some q =>
      simp only [hq, Option.map_eq_some_iff] at h
      obtain ⟨r, hr, rfl⟩ := h
      have hqq : norm q = norm p := by simpa using List.find?_some hq
      simp [ih r hr, mkNode, hqq]

/-! ### D. the loader simulates the reference semantics -/

structure Rel (norm : Bytes → Bytes) (L : St) (S : Spec.SSt) : Prop where
  vars : ∀ n, lookupVar (L.cur :: L.parents) n = S.env.vars n
  rules : ∀ n, lookupRuleChain (L.cur :: L.parents) n = S.env.rules n
  own : ∀ n, (L.cur.rules.lookup n).isSome = S.env.own n
  nodes : L.nodes = S.paths.map (mkNode norm)
  cmds : L.cmds = S.cmds
  pools : L.pools = S.pools
  defaults : L.defaults = S.defaults
  errs : L.errs = []

def RecRel (norm : Bytes → Bytes) (recL : List Decl → St → St)
    (recS : List Decl → Spec.SSt → Option Spec.SSt) : Prop :=
  ∀ ds L S S', Rel norm L S → recS ds S = some S' → Rel norm (recL ds L) S'

theorem addErrs_nil (st : St) : addErrs st [] = st := by
  simp [addErrs]

theorem lookup_cons_self {β : Type} (k : Bytes) (v : β) (t : List (Bytes × β)) :
    List.lookup k ((k, v) :: t) = some v := by
  simp [List.lookup]

theorem lookup_cons_ne {β : Type} (n k : Bytes) (v : β) (t : List (Bytes × β)) (h : n ≠ k) :
    List.lookup n ((k, v) :: t) = List.lookup n t := by
  have : (n == k) = false := by simpa using h
  simp [List.lookup, this]

theorem screen_mkNode (norm : Bytes → Bytes) (l : List Bytes) : (l.map (mkNode norm)).map (·.screen) = l := by
  simp [List.map_map, Function.comp_def, mkNode]

theorem step_sim (cfg : Cfg) (hcfg : cfg = Cfg.fixed) (P : Params) (files : Files)
    (recL : List Decl → St → St) (recS : List Decl → Spec.SSt → Option Spec.SSt)
    (hrec : RecRel P.norm recL recS) :
    ∀ (d : Decl) (L : St) (S S' : Spec.SSt), Rel P.norm L S → Spec.stepS P files recS d S = some S' →
      Rel P.norm (step cfg P files recL d L) S' := by
  intro d L S S' hR h
  have hg : cfg.guardRecursion = true := by subst hcfg; rfl
  have hch : cfg.chainRules = true := by subst hcfg; rfl
  have hed : cfg.evalDefaults = true := by subst hcfg; rfl
  cases d with
  | perr => simp [Spec.stepS] at h
  | binding b =>
    simp only [Spec.stepS, Option.map_eq_some_iff] at h
    obtain ⟨v, hv, rfl⟩ := h
    simp only [step]
    rw [evalInScope_agrees L _ hR.vars b.value v hv, addErrs_nil]
    refine ⟨?_, ?_, ?_, hR.nodes, hR.cmds, hR.pools, hR.defaults, hR.errs⟩
    · intro n
      by_cases hn : n = b.name
      · subst hn; simp [lookupVar, lookup_cons_self, Spec.upd]
      · have := hR.vars n
        simp only [lookupVar] at this
        simp [lookupVar, lookup_cons_ne _ _ _ _ hn, Spec.upd, hn, this]
    · intro n; have := hR.rules n; simpa [lookupRuleChain] using this
    · intro n; exact hR.own n
  | default names =>
    simp only [Spec.stepS, Option.map_eq_some_iff] at h
    obtain ⟨ds, hds, rfl⟩ := h
    simp only [step]
    rw [defaults_agrees cfg hed P.norm L _ hR.vars S.paths hR.nodes names ds hds, addErrs_nil]
    exact ⟨hR.vars, hR.rules, hR.own, hR.nodes, hR.cmds, hR.pools, by simp [hR.defaults], hR.errs⟩
  | «include» path =>
    simp only [Spec.stepS, Option.bind_eq_some_iff] at h
    obtain ⟨p, hp, h⟩ := h
    simp only [step]
    rw [evalInScope_agrees L _ hR.vars path p hp, addErrs_nil]
    cases hf : files.lookup (P.absPath p) with
    | none => simp [hf] at h
    | some ds =>
      simp only [hf] at h ⊢
      exact hrec ds L S S' hR h
  | subninja path =>
    simp only [Spec.stepS, Option.bind_eq_some_iff] at h
    obtain ⟨p, hp, h⟩ := h
    simp only [step]
    rw [evalInScope_agrees L _ hR.vars path p hp, addErrs_nil]
    cases hf : files.lookup (P.absPath p) with
    | none => simp [hf] at h
    | some ds =>
      simp only [hf, Option.map_eq_some_iff] at h ⊢
      obtain ⟨S1, hS1, rfl⟩ := h
      have hchild : Rel P.norm { L with cur := {}, parents := L.cur :: L.parents }
          { S with env := { S.env with own := fun _ => false } } := by
        refine ⟨?_, ?_, ?_, hR.nodes, hR.cmds, hR.pools, hR.defaults, hR.errs⟩
        · intro n; have := hR.vars n; simpa [lookupVar] using this
        · intro n; have := hR.rules n; simpa [lookupRuleChain] using this
        · intro n; simp
      have h1 := hrec ds _ _ S1 hchild hS1
      exact ⟨hR.vars, hR.rules, hR.own, h1.nodes, h1.cmds, h1.pools, h1.defaults, h1.errs⟩
  | rule name params =>
    simp only [Spec.stepS] at h
    by_cases ho : S.env.own name = true
    · simp [ho] at h
    · simp only [ho, Bool.false_eq_true, if_false, Option.bind_eq_some_iff] at h
      obtain ⟨ps, hps, h⟩ := h
      by_cases hc : (ps.lookup strCommand).isSome = true
      · simp only [hc, if_true, Option.some.injEq] at h
        subst h
        unfold Spec.ruleParamsS at hps
        by_cases hall : params.all (fun b => Spec.isRuleVariable b.name) = true
        · simp only [hall, if_true, Option.some.injEq] at hps
          have hrp := ruleParams_agrees params [] hall
          simp only [List.append_nil] at hrp
          rw [hps] at hrp
          have hown : (L.cur.rules.lookup name).isSome = false := by
            rw [hR.own name]; simpa using ho
          simp only [step, hrp, hown, hc]
          simp only [Bool.false_eq_true, if_false, if_true, List.append_nil, addErrs_nil]
          refine ⟨?_, ?_, ?_, hR.nodes, hR.cmds, hR.pools, hR.defaults, hR.errs⟩
          · intro n; have := hR.vars n; simpa [lookupVar] using this
          · intro n
            by_cases hn : n = name
            · subst hn; simp [lookupRuleChain, lookup_cons_self, Spec.upd]
            · have := hR.rules n
              simp only [lookupRuleChain] at this
              simp [lookupRuleChain, lookup_cons_ne _ _ _ _ hn, Spec.upd, hn, this]
          · intro n
            by_cases hn : n = name
            · subst hn; simp [lookup_cons_self, Spec.upd]
            · simp [lookup_cons_ne _ _ _ _ hn, Spec.upd, hn, hR.own n]
        · simp [hall] at hps
      · simp [hc] at h
  | pool name params =>
    simp only [Spec.stepS] at h
    by_cases hdup : (S.pools.lookup name).isSome = true
    · simp [hdup] at h
    · simp only [hdup, Bool.false_eq_true, if_false, Option.bind_eq_some_iff] at h
      obtain ⟨d, hd, h⟩ := h
      by_cases hd0 : d = 0
      · simp [hd0] at h
      · simp only [hd0, if_false, Option.some.injEq] at h
        subst h
        have hpp := poolParams_agrees L _ hR.vars params 0 d hd
        have hdup' : (L.pools.lookup name).isSome = false := by
          rw [hR.pools]
          cases hx : (S.pools.lookup name).isSome
          · rfl
          · exact absurd hx hdup
        simp only [step, hpp, hdup', hd0]
        simp only [Bool.false_eq_true, if_false, List.append_nil, addErrs_nil]
        exact ⟨hR.vars, hR.rules, hR.own, hR.nodes, hR.cmds, by simp [hR.pools], hR.defaults, hR.errs⟩
  | build rname outs ins nExp nImp params =>
    simp only [Spec.stepS, Option.bind_eq_some_iff, Option.map_eq_some_iff] at h
    obtain ⟨r, hr, ⟨o1, seen1⟩, ho, ⟨i1, seen2⟩, hi, bs, hbs, l, hl, c, hc, rfl⟩ := h
    have hrule : lookupRule cfg L.cur L.parents rname = some r := by
      simp [lookupRule, hch, hR.rules, hr]
    have hoe := evalPaths_agrees P.norm L _ hR.vars .emptyOutput outs S.paths o1 seen1 ho
    have hie := evalPaths_agrees P.norm L _ hR.vars .emptyInput ins seen1 i1 seen2 hi
    have hbe := evalBindings_agrees L _ hR.vars params bs [] hbs
    simp only [List.append_nil] at hbe
    have hscope : (fun n => lookupVar (L.cur :: L.parents) n) = S.env.vars := funext hR.vars
    simp only [step, hrule, hR.nodes, hoe, hie, hbe, hscope, ← List.map_take, screen_mkNode]
    rw [lookAll_agrees cfg hg P.esc _ l hl]
    rw [hR.pools, assemble_agrees P.norm S.pools r.name _ _ nExp nImp l c hc]
    simp only [List.append_nil, addErrs_nil]
    exact ⟨hR.vars, hR.rules, hR.own, rfl, by simp [hR.cmds], rfl, hR.defaults, hR.errs⟩

theorem fold_sim (norm : Bytes → Bytes) (fL : St → Decl → St) (fS : Decl → Spec.SSt → Option Spec.SSt)
    (hstep : ∀ d L S S', Rel norm L S → fS d S = some S' → Rel norm (fL L d) S') :
    ∀ (ds : List Decl) (L : St) (S S' : Spec.SSt), Rel norm L S → Spec.foldS fS ds S = some S' →
      Rel norm (ds.foldl fL L) S' := by
  intro ds
  induction ds with
  | nil => intro L S S' hR h; simp [Spec.foldS] at h; subst h; simpa using hR
  | cons d ds ih =>
    intro L S S' hR h
    simp only [Spec.foldS, Option.bind_eq_some_iff] at h
    obtain ⟨S1, h1, h2⟩ := h
    simp only [List.foldl_cons]
    exact ih _ _ _ (hstep d L S S1 hR h1) h2

theorem loadDecls_sim (cfg : Cfg) (hcfg : cfg = Cfg.fixed) (P : Params) (files : Files) :
    ∀ fuel, RecRel P.norm (loadDecls cfg P files fuel) (Spec.loadDeclsS P files fuel) := by
  intro fuel
  induction fuel with
  | zero => intro ds L S S' _ h; simp [Spec.loadDeclsS] at h
  | succ fuel ih =>
    intro ds L S S' hR h
    simp only [Spec.loadDeclsS] at h
    simp only [loadDecls]
    exact fold_sim P.norm _ _ (fun d L S S' hR h => step_sim cfg hcfg P files _ _ ih d L S S' hR h) ds L S S' hR h

theorem rel_init (norm : Bytes → Bytes) : Rel norm St.init Spec.SSt.init := by
  refine ⟨?_, ?_, ?_, rfl, rfl, rfl, rfl, rfl⟩
  · intro n; simp [St.init, Spec.SSt.init, Spec.Env.init, lookupVar]
  · intro n
    by_cases hn : n = strPhony
    · subst hn; simp [St.init, Spec.SSt.init, Spec.Env.init, lookupRuleChain, lookup_cons_self, Spec.upd]
    · simp [St.init, Spec.SSt.init, Spec.Env.init, lookupRuleChain, lookup_cons_ne _ _ _ _ hn, Spec.upd, hn]
  · intro n
    by_cases hn : n = strPhony
    · subst hn; simp [St.init, Spec.SSt.init, Spec.Env.init, lookup_cons_self, Spec.upd]
    · simp [St.init, Spec.SSt.init, Spec.Env.init, lookup_cons_ne _ _ _ _ hn, Spec.upd, hn]

/-! ### E. termination of rule-variable expansion -/

theorem nodup_subset_length : ∀ (l k : List Bytes), l.Nodup → (∀ a ∈ l, a ∈ k) → l.length ≤ k.length := by
  intro l
  induction l with
  | nil => intro k _ _; simp
  | cons a l ih =>
    intro k hnd hsub
    have ha : a ∈ k := hsub a (by simp)
    have hnd' := List.nodup_cons.1 hnd
    have hsub' : ∀ b ∈ l, b ∈ k.erase a := by
      intro b hb
      have hne : b ≠ a := fun e => hnd'.1 (e ▸ hb)
      exact (List.mem_erase_of_ne hne).2 (hsub b (by simp [hb]))
    have h1 := ih (k.erase a) hnd'.2 hsub'
    have h2 := List.length_erase_of_mem ha
    have h3 : 0 < k.length := List.length_pos_of_mem ha
    simp only [List.length_cons]
    omega

theorem mem_keys_of_lookup {β : Type} : ∀ (m : List (Bytes × β)) (a : Bytes), (m.lookup a).isSome = true → a ∈ m.map (·.1) := by
  intro m
  induction m with
  | nil => intro a h; simp [List.lookup] at h
  | cons kv m ih =>
    intro a h
    obtain ⟨k, v⟩ := kv
    by_cases hk : a = k
    · subst hk; simp
    · rw [lookup_cons_ne _ _ _ _ hk] at h
      simp [ih a h]

theorem evalGo_noFuel (lookup : Bytes → Out) (h : ∀ n, Err.outOfFuel ∉ (lookup n).2) :
    ∀ (s : Bytes) (m : Mode), Err.outOfFuel ∉ (evalGo lookup m s).2 := by
  intro s
  induction s with
  | nil => intro m; cases m <;> simp [evalGo, h]
  | cons c r ih =>
    intro m
    cases m <;> simp only [evalGo] <;> (repeat' split) <;> simp [Out.emit, h, ih]

theorem lookupParam_noFuel (cfg : Cfg) (hg : cfg.guardRecursion = true) (esc : Bytes → Bytes) (ctx : BuildCtx) (q : Bool) :
    ∀ (fuel : Nat) (active : List Bytes) (name : Bytes), active.Nodup →
      (∀ a ∈ active, a ∈ ctx.rule.map (·.1)) → ctx.rule.length + 1 ≤ active.length + fuel →
      Err.outOfFuel ∉ (lookupParam cfg esc ctx q fuel active name).2 := by
  intro fuel
  induction fuel with
  | zero =>
    intro active name hnd hsub hlen
    have := nodup_subset_length active _ hnd hsub
    simp at this hlen
    omega
  | succ fuel ih =>
    intro active name hnd hsub hlen
    unfold lookupParam
    simp only
    split
    · simp
    · split
      · simp
      · split
        · simp
        · split
          · simp
          · split
            · rename_i text hr
              by_cases hc : name ∈ active
              · simp [hg, hc]
              · have hc' : (cfg.guardRecursion && active.contains name) = false := by simp [hc]
                simp only [hc', Bool.false_eq_true, if_false]
                apply evalGo_noFuel
                intro n
                apply ih
                · exact List.nodup_cons.2 ⟨hc, hnd⟩
                · intro a ha
                  rcases List.mem_cons.1 ha with rfl | ha
                  · exact mem_keys_of_lookup _ _ (by simp [hr])
                  · exact hsub a ha
                · simp only [List.length_cons]; omega
            · simp

/-- the rule of the F14 witness: `command = $command` -/
def f14ctx : BuildCtx :=
  { ins := [], outs := [], params := [], rule := [(strCommand, 36 :: strCommand)], scope := fun _ => [] }

theorem evalString_dollar_command (lookup : Bytes → Out) :
    evalString lookup (36 :: strCommand) = lookup strCommand := by
  simp [evalString, evalGo, strCommand, isDollarEscape, isSimpleIdentChar, inClass, dollarEscapes,
    simpleIdentRanges, simpleIdentSingles]

theorem f14_unguarded_diverges (cfg : Cfg) (hg : cfg.guardRecursion = false) (esc : Bytes → Bytes) (q : Bool) :
    ∀ (fuel : Nat) (active : List Bytes),
      lookupParam cfg esc f14ctx q fuel active strCommand = ([], [.outOfFuel]) := by
  intro fuel
  induction fuel with
  | zero => intro active; rfl
  | succ fuel ih =>
    intro active
    unfold lookupParam
    have h1 : strCommand ≠ nameIn := by decide
    have h2 : strCommand ≠ nameInNewline := by decide
    have h3 : strCommand ≠ nameOut := by decide
    have hp : f14ctx.params.lookup strCommand = none := rfl
    have hr : f14ctx.rule.lookup strCommand = some (36 :: strCommand) := by decide
    simp only [h1, h2, h3, if_false, hp, hr, hg, Bool.false_and, Bool.false_eq_true]
    rw [evalString_dollar_command]
    exact ih _

end LLBuild.NinjaLoader
