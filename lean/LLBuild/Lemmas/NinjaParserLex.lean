/-
Liveness of the Ninja lexer model on canonical text (stage (a) of the print/parse round trip).

Lemmas/NinjaLexer.lean says what a token returned by `lex` looks like; here the other direction: if the bytes at
the cursor ARE a word / an escaped path / a value / a punctuation mark followed by a suitable delimiter, then
`lex` (in the mode the parser uses there) returns exactly the token that covers them, and the exact new cursor
(offset, line, column).  Everything is in "suffix form": `buf.drop s.pos = piece ++ delimiter :: rest`.
All statements are about `genCfg`.
-/
import LLBuild.Lemmas.NinjaParser
import LLBuild.Props.C19Ninja
import LLBuild.Model.NinjaPrint

namespace LLBuild.NinjaLexer
open LLBuild.Generated.NinjaLexer (Kind KwEntry Guard)
open Res
open LLBuild.NinjaPrint

theorem genCfg_peekExt : genCfg.peekSignExt = false := by decide
theorem genCfg_getExt : genCfg.getSignExt = false := by decide

/-! ### the buffer seen from the cursor -/

theorem drop_cons {buf : Bytes} {p : Nat} {b : UInt8} {r : Bytes} (h : buf.drop p = b :: r) :
    p < buf.length ∧ buf[p]? = some b ∧ buf.drop (p + 1) = r := by
  have hlt : p < buf.length := by
    rcases Nat.lt_or_ge p buf.length with h' | h'
    · exact h'
    · rw [List.drop_eq_nil_of_le h'] at h; cases h
  refine ⟨hlt, ?_, ?_⟩
  · have := List.getElem?_drop (xs := buf) (i := p) (j := 0)
    rw [h] at this
    simpa using this.symm
  · have : (buf.drop p).drop 1 = buf.drop (p + 1) := by rw [List.drop_drop]
    rw [← this, h]; rfl

theorem drop_append_len {buf : Bytes} {p : Nat} {x r : Bytes} (hp : p ≤ buf.length) (h : buf.drop p = x ++ r) :
    buf.drop (p + x.length) = r ∧ p + x.length ≤ buf.length := by
  constructor
  · have : (buf.drop p).drop x.length = buf.drop (p + x.length) := by rw [List.drop_drop]
    rw [← this, h]; simp
  · have := congrArg List.length h
    simp only [List.length_drop, List.length_append] at this
    omega

/-- `slice` of the bytes at the cursor -/
theorem slice_of_drop {buf : Bytes} {p : Nat} {x r : Bytes} (h : buf.drop p = x ++ r) : slice buf p x.length = x := by
  unfold slice; rw [h]; simp

/-! ### primitive reads -/

theorem peek_cons {buf : Bytes} {s : St} {b : UInt8} {r : Bytes} (h : buf.drop s.pos = b :: r) :
    peekNextChar genCfg buf s = .ok (b.toNat : Int) := by
  obtain ⟨hlt, hb, _⟩ := drop_cons h
  unfold peekNextChar
  rw [if_neg (by omega)]
  simp [rd, hb, widen, genCfg_peekExt]

theorem peek_end {buf : Bytes} {s : St} (h : s.pos = buf.length) : peekNextChar genCfg buf s = .ok (-1) := by
  unfold peekNextChar; rw [if_pos h]

theorem get_plain {buf : Bytes} {s : St} {b : UInt8} {r : Bytes} (h : buf.drop s.pos = b :: r)
    (h10 : b.toNat ≠ 10) (h13 : b.toNat ≠ 13) :
    getNextChar genCfg buf s = .ok ((b.toNat : Int), ⟨s.pos + 1, s.line, s.col + 1⟩) := by
  obtain ⟨hlt, hb, _⟩ := drop_cons h
  unfold getNextChar
  rw [if_neg (by omega)]
  have hnl : ¬ (b = 10 ∨ b = 13) := by
    rintro (h' | h') <;> subst h' <;> simp at h10 h13
  simp [rd, hb, hnl, widen, genCfg_getExt]

theorem get_newline {buf : Bytes} {s : St} {r : Bytes} (h : buf.drop s.pos = 10 :: r) (hr : r.head? ≠ some 13) :
    getNextChar genCfg buf s = .ok (10, ⟨s.pos + 1, s.line + 1, 0⟩) := by
  obtain ⟨hlt, hb, hd⟩ := drop_cons h
  unfold getNextChar
  rw [if_neg (by omega)]
  simp only [rd, hb, Res.ok_bind]
  simp only [true_or, if_true]
  by_cases he : s.pos + 1 = buf.length
  · rw [if_pos he]; rfl
  · rw [if_neg he]
    cases r with
    | nil =>
      have := congrArg List.length hd
      simp at this; omega
    | cons b2 r2 =>
      obtain ⟨_, hb2, _⟩ := drop_cons hd
      simp only [hb2, Res.ok_bind]
      have : ¬ (b2.toNat = 23 - (10 : UInt8).toNat) := by
        intro h'
        apply hr
        have : b2 = 13 := u8_eq_of_toNat (n := 13) (by simpa using h')
        subst this; rfl
      rw [if_neg this]; rfl

/-! ### the scanning loops over a well-formed body -/

theorem st_eta (s : St) : (⟨s.pos + 0, s.line, s.col + 0⟩ : St) = s := by cases s; rfl

theorem pathOK_cons (b : UInt8) (t : Bytes) : pathOK (b :: t) =
    if b.toNat = 36 then (match t with | [] => false | c :: r => decide (c.toNat ≠ 10) && decide (c.toNat ≠ 13) && pathOK r)
    else (!isStopPath b.toNat && pathOK t) := by
  cases t with
  | nil => by_cases h : b.toNat = 36 <;> simp [pathOK, h]
  | cons c r => by_cases h : b.toNat = 36 <;> simp [pathOK, h]

theorem varOK_cons (b : UInt8) (t : Bytes) : varOK (b :: t) =
    if b.toNat = 36 then (match t with | [] => false | c :: r => decide (c.toNat ≠ 10) && decide (c.toNat ≠ 13) && varOK r)
    else (decide (b.toNat ≠ 10) && decide (b.toNat ≠ 13) && varOK t) := by
  cases t with
  | nil => by_cases h : b.toNat = 36 <;> simp [varOK, h]
  | cons c r => by_cases h : b.toNat = 36 <;> simp [varOK, h]

theorem pathLoop_body (buf : Bytes) : ∀ (n : Nat) (body : Bytes) (fuel : Nat) (s : St) (d : UInt8) (rest : Bytes),
    body.length ≤ n → pathOK body = true → isStopPath d.toNat = true → buf.drop s.pos = body ++ d :: rest → body.length < fuel →
    pathLoop genCfg buf fuel s = .ok ⟨s.pos + body.length, s.line, s.col + body.length⟩ := by
  intro n
  induction n with
  | zero =>
    intro body fuel s d rest hn _ hd hdrop hf
    have : body = [] := List.eq_nil_of_length_eq_zero (by omega)
    subst this
    obtain ⟨f, rfl⟩ : ∃ f, fuel = f + 1 := ⟨fuel - 1, by omega⟩
    simp only [isStopPath, decide_eq_true_eq] at hd
    unfold pathLoop
    rw [peek_cons hdrop]
    simp only [Res.ok_bind]
    rw [if_neg (by omega), if_pos (by simp only [isspaceC, decide_eq_true_eq]; omega)]
    simp
  | succ n ih =>
    intro body fuel s d rest hn hok hd hdrop hf
    cases body with
    | nil => exact ih [] fuel s d rest (by simp) hok hd hdrop hf
    | cons b t =>
      obtain ⟨f, rfl⟩ : ∃ f, fuel = f + 1 := ⟨fuel - 1, by omega⟩
      rw [pathOK_cons] at hok
      simp only [List.cons_append] at hdrop
      obtain ⟨_, _, hdrop1⟩ := drop_cons hdrop
      unfold pathLoop
      rw [peek_cons hdrop]
      simp only [Res.ok_bind]
      by_cases h36 : b.toNat = 36
      · rw [if_pos h36] at hok
        cases t with
        | nil => simp at hok
        | cons c r =>
          simp only [Bool.and_eq_true, decide_eq_true_eq] at hok
          obtain ⟨⟨hc10, hc13⟩, hr⟩ := hok
          rw [if_pos (by omega), get_plain hdrop (by omega) (by omega)]
          simp only [Res.ok_bind, List.cons_append] at hdrop1 ⊢
          rw [get_plain (s := ⟨s.pos + 1, s.line, s.col + 1⟩) hdrop1 hc10 hc13]
          simp only [Res.ok_bind]
          rw [if_neg (by omega)]
          simp only [Res.pure_bind']
          obtain ⟨_, _, hdrop2⟩ := drop_cons (p := s.pos + 1) hdrop1
          have := ih r f ⟨s.pos + 1 + 1, s.line, s.col + 1 + 1⟩ d rest (by simp at hn; omega) hr hd hdrop2 (by simp at hf; omega)
          rw [this]
          simp only [List.length_cons]
          congr 2 <;> omega
      · rw [if_neg h36] at hok
        simp only [Bool.and_eq_true, Bool.not_eq_true', isStopPath, decide_eq_false_iff_not] at hok
        obtain ⟨hb, ht⟩ := hok
        rw [if_neg (by omega), if_neg (by simp only [isspaceC, decide_eq_true_eq]; omega), get_plain hdrop (by omega) (by omega)]
        simp only [Res.ok_bind]
        have := ih t f ⟨s.pos + 1, s.line, s.col + 1⟩ d rest (by simp at hn; omega) ht hd hdrop1 (by simp at hf; omega)
        rw [this]
        simp only [List.length_cons]
        congr 2 <;> omega

theorem varLoop_body (buf : Bytes) : ∀ (n : Nat) (body : Bytes) (fuel : Nat) (s : St) (rest : Bytes),
    body.length ≤ n → varOK body = true → buf.drop s.pos = body ++ 10 :: rest → body.length < fuel →
    varLoop genCfg buf fuel s = .ok ⟨s.pos + body.length, s.line, s.col + body.length⟩ := by
  intro n
  induction n with
  | zero =>
    intro body fuel s rest hn _ hdrop hf
    have : body = [] := List.eq_nil_of_length_eq_zero (by omega)
    subst this
    obtain ⟨f, rfl⟩ : ∃ f, fuel = f + 1 := ⟨fuel - 1, by omega⟩
    unfold varLoop
    rw [peek_cons hdrop]
    simp only [Res.ok_bind]
    rw [if_neg (by decide), if_pos (Or.inl (by decide))]
    simp
  | succ n ih =>
    intro body fuel s rest hn hok hdrop hf
    cases body with
    | nil => exact ih [] fuel s rest (by simp) hok hdrop hf
    | cons b t =>
      obtain ⟨f, rfl⟩ : ∃ f, fuel = f + 1 := ⟨fuel - 1, by omega⟩
      rw [varOK_cons] at hok
      simp only [List.cons_append] at hdrop
      obtain ⟨_, _, hdrop1⟩ := drop_cons hdrop
      unfold varLoop
      rw [peek_cons hdrop]
      simp only [Res.ok_bind]
      by_cases h36 : b.toNat = 36
      · rw [if_pos h36] at hok
        cases t with
        | nil => simp at hok
        | cons c r =>
          simp only [Bool.and_eq_true, decide_eq_true_eq] at hok
          obtain ⟨⟨hc10, hc13⟩, hr⟩ := hok
          rw [if_pos (by omega), get_plain hdrop (by omega) (by omega)]
          simp only [Res.ok_bind, List.cons_append] at hdrop1 ⊢
          rw [get_plain (s := ⟨s.pos + 1, s.line, s.col + 1⟩) hdrop1 hc10 hc13]
          simp only [Res.ok_bind]
          obtain ⟨_, _, hdrop2⟩ := drop_cons (p := s.pos + 1) hdrop1
          have := ih r f ⟨s.pos + 1 + 1, s.line, s.col + 1 + 1⟩ rest (by simp at hn; omega) hr hdrop2 (by simp at hf; omega)
          rw [this]
          simp only [List.length_cons]
          congr 2 <;> omega
      · rw [if_neg h36] at hok
        simp only [Bool.and_eq_true, decide_eq_true_eq] at hok
        obtain ⟨⟨hb10, hb13⟩, ht⟩ := hok
        rw [if_neg (by omega), if_neg (by omega), get_plain hdrop hb10 hb13]
        simp only [Res.ok_bind]
        have := ih t f ⟨s.pos + 1, s.line, s.col + 1⟩ rest (by simp at hn; omega) ht hdrop1 (by simp at hf; omega)
        rw [this]
        simp only [List.length_cons]
        congr 2 <;> omega

theorem lowByte_toNat (b : UInt8) : lowByte (b.toNat : Int) = b := by
  unfold lowByte
  have h : ((b.toNat : Int) % 256).toNat = b.toNat := by have := b.toNat_lt; omega
  rw [h]; simp

theorem isIdentifierChar_byte (b : UInt8) : isIdentifierChar genCfg (b.toNat : Int) = identB b := by
  unfold isIdentifierChar identB; rw [lowByte_toNat]

theorem u8_forall (p : UInt8 → Prop) (h : ∀ n : Fin 256, p (UInt8.ofNat n.val)) : ∀ c : UInt8, p c := by
  intro c
  have := h ⟨c.toNat, c.toNat_lt⟩
  simpa using this

set_option maxRecDepth 100000 in
/-- identifier characters are none of the bytes with a lexical meaning -/
theorem identB_plain : ∀ b : UInt8, identB b = true →
    b.toNat ≠ 10 ∧ b.toNat ≠ 13 ∧ b.toNat ≠ 36 ∧ b.toNat ≠ 58 ∧ b.toNat ≠ 61 ∧ b.toNat ≠ 35 ∧ b.toNat ≠ 124 ∧ isBlank b.toNat = false :=
  u8_forall _ (by decide)

theorem identLoop_body (buf : Bytes) : ∀ (body : Bytes) (fuel : Nat) (s : St) (more : Bytes),
    body.all identB = true → buf.drop s.pos = body ++ more → (∀ d, more.head? = some d → identB d = false) →
    s.pos ≤ buf.length → body.length < fuel →
    identLoop genCfg buf fuel s = .ok ⟨s.pos + body.length, s.line, s.col + body.length⟩ := by
  intro body
  induction body with
  | nil =>
    intro fuel s more _ hdrop hmore hle hf
    obtain ⟨f, rfl⟩ : ∃ f, fuel = f + 1 := ⟨fuel - 1, by omega⟩
    unfold identLoop
    cases more with
    | nil =>
      have : s.pos = buf.length := by
        have := congrArg List.length hdrop
        simp at this; omega
      rw [peek_end this]
      simp only [Res.ok_bind]
      rw [if_neg (by rw [genCfg_ok.identEOF]; simp)]
      simp
    | cons d m =>
      simp only [List.nil_append] at hdrop
      rw [peek_cons hdrop]
      simp only [Res.ok_bind]
      rw [if_neg (by rw [isIdentifierChar_byte, hmore d rfl]; simp)]
      simp
  | cons b t ih =>
    intro fuel s more hall hdrop hmore hle hf
    obtain ⟨f, rfl⟩ : ∃ f, fuel = f + 1 := ⟨fuel - 1, by omega⟩
    simp only [List.all_cons, Bool.and_eq_true] at hall
    simp only [List.cons_append] at hdrop
    obtain ⟨hlt, _, hdrop1⟩ := drop_cons hdrop
    obtain ⟨h10, h13, _⟩ := identB_plain b hall.1
    unfold identLoop
    rw [peek_cons hdrop]
    simp only [Res.ok_bind]
    rw [if_pos (by rw [isIdentifierChar_byte]; exact hall.1), get_plain hdrop h10 h13]
    simp only [Res.ok_bind]
    have := ih f ⟨s.pos + 1, s.line, s.col + 1⟩ more hall.2 hdrop1 hmore (by show s.pos + 1 ≤ _; omega) (by simp at hf; omega)
    rw [this]
    simp only [List.length_cons]
    congr 2 <;> omega

/-! ### from `lex` to `lexToken`: nothing, or one blank, in front of the token -/

theorem nns_byte (b : UInt8) : isNonNewlineSpace (b.toNat : Int) = isBlank b.toNat := by
  simp only [isNonNewlineSpace, isspaceC, isBlank]
  by_cases h : (b.toNat = 32 ∨ b.toNat = 9 ∨ b.toNat = 11 ∨ b.toNat = 12)
  · rw [decide_eq_true h]
    simp only [Bool.and_eq_true, decide_eq_true_eq]
    omega
  · rw [decide_eq_false h]
    simp only [Bool.and_eq_false_iff, decide_eq_false_iff_not]
    omega

/-- no blank in front: the token starts at the cursor -/
theorem lex_nosp {buf : Bytes} {s : St} {b : UInt8} {r : Bytes} (m : LexMode) (h : buf.drop s.pos = b :: r)
    (hb : isBlank b.toNat = false) (h36 : b.toNat ≠ 36) :
    lex genCfg buf m s = lexToken genCfg buf m (b.toNat : Int) s := by
  unfold lex
  rw [peek_cons h]
  simp only [Res.ok_bind]
  have hns : isNonNewlineSpace (b.toNat : Int) = false := by rw [nns_byte]; exact hb
  rw [if_neg (by rw [hns]; simp), triviaLoop_none genCfg buf buf.length _ s (fun h' => h36 (by omega)) hns]
  rfl

theorem isNewlineEscape_no {buf : Bytes} {s : St} {r : Bytes} (h : buf.drop s.pos = 36 :: r)
    (hr : ∀ c, r.head? = some c → c.toNat ≠ 10 ∧ c.toNat ≠ 13) : isNewlineEscape genCfg buf s = .ok false := by
  obtain ⟨hlt, _, hd⟩ := drop_cons h
  unfold isNewlineEscape
  have g1 : genCfg.guardLF = .distGt 1 := genCfg_ok.gLF
  have g2 : genCfg.guardCRLF = .distGt 2 := genCfg_ok.gCRLF
  have e1 : guardHolds (.distGt 1) buf.length s.pos = decide (buf.length - s.pos > 1) := rfl
  have e2 : guardHolds (.distGt 2) buf.length s.pos = decide (buf.length - s.pos > 2) := rfl
  rw [g1, g2, e1, e2]
  cases r with
  | nil =>
    have hl : buf.length - s.pos = 1 := by
      have := congrArg List.length hd
      simp at this; omega
    have d1 : decide (buf.length - s.pos > 1) = false := by simp; omega
    have d2 : decide (buf.length - s.pos > 2) = false := by simp; omega
    simp [d1, d2]
  | cons c r' =>
    obtain ⟨hlt1, hc, _⟩ := drop_cons hd
    obtain ⟨h10, h13⟩ := hr c rfl
    have hc10 : (c == 10) = false := by
      cases hq : c == 10 with
      | false => rfl
      | true => have : c = 10 := by simpa using hq
                subst this; simp at h10
    have hc13 : ¬ c = 13 := by intro hq; subst hq; simp at h13
    have d1 : decide (buf.length - s.pos > 1) = true := by simp; omega
    by_cases d2 : decide (buf.length - s.pos > 2) = true
    · simp [d1, d2, rd, hc, hc10, hc13]
    · simp [d1, d2, rd, hc, hc10]

/-- one blank in front (not at the start of a line): the token starts one byte on -/
theorem lex_sp {buf : Bytes} {s : St} {b : UInt8} {r : Bytes} (m : LexMode) (h : buf.drop s.pos = 32 :: b :: r)
    (hcol : s.col ≠ 0) (hb : isBlank b.toNat = false)
    (h36 : b.toNat = 36 → ∀ c, r.head? = some c → c.toNat ≠ 10 ∧ c.toNat ≠ 13) :
    lex genCfg buf m s = lexToken genCfg buf m (b.toNat : Int) ⟨s.pos + 1, s.line, s.col + 1⟩ := by
  obtain ⟨hlt, _, hd⟩ := drop_cons h
  obtain ⟨hlt1, _, _⟩ := drop_cons hd
  obtain ⟨f, hf⟩ : ∃ f, buf.length + 1 = f + 2 := ⟨buf.length - 1, by omega⟩
  unfold lex
  rw [peek_cons h]
  simp only [Res.ok_bind]
  rw [if_neg (fun h' => hcol h'.2), hf]
  unfold triviaLoop
  rw [if_neg (by simp), if_pos (by decide), get_plain h (by decide) (by decide)]
  simp only [Res.ok_bind]
  rw [peek_cons (s := ⟨s.pos + 1, s.line, s.col + 1⟩) hd]
  simp only [Res.ok_bind]
  have hns : isNonNewlineSpace (b.toNat : Int) = false := by rw [nns_byte]; exact hb
  by_cases hd36 : b.toNat = 36
  · have hb36 : b = 36 := u8_eq_of_toNat (n := 36) (by simpa using hd36)
    subst hb36
    unfold triviaLoop
    rw [if_pos ⟨by decide, by simp⟩, isNewlineEscape_no (s := ⟨s.pos + 1, s.line, s.col + 1⟩) hd (h36 hd36)]
    rfl
  · rw [triviaLoop_none genCfg buf f _ _ (fun h' => hd36 (by omega)) hns]
    rfl

/-! ### the tokens -/

/-- a path string (PathString mode) in front of a stop byte -/
theorem lexToken_path {buf : Bytes} {s0 : St} {body : Bytes} {d : UInt8} {rest : Bytes} (hne : body ≠ [])
    (hok : pathOK body = true) (hd : isStopPath d.toNat = true) (hdrop : buf.drop s0.pos = body ++ d :: rest) (hle : s0.pos ≤ buf.length) :
    lexToken genCfg buf .pathString ((body.head hne).toNat : Int) s0 =
      .ok (⟨.String, s0.pos, body.length, s0.line, s0.col⟩, ⟨s0.pos + body.length, s0.line, s0.col + body.length⟩) := by
  obtain ⟨_, hlen⟩ := drop_append_len hle hdrop
  cases body with
  | nil => exact absurd rfl hne
  | cons b t =>
    have hb : b.toNat = 36 ∨ isStopPath b.toNat = false := by
      rw [pathOK_cons] at hok
      by_cases h : b.toNat = 36
      · exact Or.inl h
      · rw [if_neg h] at hok; simp only [Bool.and_eq_true, Bool.not_eq_true'] at hok; exact Or.inr hok.1
    have hb' : b.toNat ≠ 10 ∧ b.toNat ≠ 13 ∧ b.toNat ≠ 58 ∧ b.toNat ≠ 124 := by
      rcases hb with h | h
      · omega
      · simp only [isStopPath, decide_eq_false_iff_not] at h; omega
    simp only [List.head_cons]
    unfold lexToken
    rw [if_neg (by omega), if_neg (by omega), if_neg (by decide), if_pos ⟨rfl, by omega, by omega⟩,
      pathLoop_body buf _ (b :: t) _ s0 d rest (Nat.le_refl _) hok hd hdrop (by simp at hlen ⊢; omega)]
    simp [mkTok]

/-- a value (VariableString mode) up to the newline -/
theorem lexToken_value {buf : Bytes} {s0 : St} {body : Bytes} {rest : Bytes} (hne : body ≠ [])
    (hok : varOK body = true) (hdrop : buf.drop s0.pos = body ++ 10 :: rest) (hle : s0.pos ≤ buf.length) :
    lexToken genCfg buf .variableString ((body.head hne).toNat : Int) s0 =
      .ok (⟨.String, s0.pos, body.length, s0.line, s0.col⟩, ⟨s0.pos + body.length, s0.line, s0.col + body.length⟩) := by
  obtain ⟨_, hlen⟩ := drop_append_len hle hdrop
  cases body with
  | nil => exact absurd rfl hne
  | cons b t =>
    have hb' : b.toNat ≠ 10 ∧ b.toNat ≠ 13 := by
      rw [varOK_cons] at hok
      by_cases h : b.toNat = 36
      · omega
      · rw [if_neg h] at hok; simp only [Bool.and_eq_true, decide_eq_true_eq] at hok; exact ⟨hok.1.1, hok.1.2⟩
    simp only [List.head_cons]
    unfold lexToken
    rw [if_neg (by omega), if_neg (by omega), if_pos rfl,
      varLoop_body buf _ (b :: t) _ s0 rest (Nat.le_refl _) hok hdrop (by simp at hlen ⊢; omega)]
    simp [mkTok]

/-- the Newline token (`\n` not followed by `\r`), any mode -/
theorem lexToken_newline {buf : Bytes} {s0 : St} {r : Bytes} (m : LexMode) (h : buf.drop s0.pos = 10 :: r) (hr : r.head? ≠ some 13) :
    lexToken genCfg buf m 10 s0 = .ok (⟨.Newline, s0.pos, 1, s0.line, s0.col⟩, ⟨s0.pos + 1, s0.line + 1, 0⟩) := by
  unfold lexToken
  rw [if_pos (Or.inl rfl), get_newline h hr]
  simp [mkTok]

/-- `:`, `=` (modes in which they are punctuation) -/
theorem lexToken_colon {buf : Bytes} {s0 : St} {r : Bytes} (m : LexMode) (hm : m ≠ .variableString) (h : buf.drop s0.pos = 58 :: r) :
    lexToken genCfg buf m 58 s0 = .ok (⟨.Colon, s0.pos, 1, s0.line, s0.col⟩, ⟨s0.pos + 1, s0.line, s0.col + 1⟩) := by
  unfold lexToken
  rw [if_neg (by decide), if_neg (by decide), if_neg hm, if_neg (by simp)]
  unfold lexRegular
  rw [get_plain h (by decide) (by decide)]
  simp [mkTok]

theorem lexToken_equals {buf : Bytes} {s0 : St} {r : Bytes} (m : LexMode) (hm : m = .none ∨ m = .identifierSpecific)
    (h : buf.drop s0.pos = 61 :: r) :
    lexToken genCfg buf m 61 s0 = .ok (⟨.Equals, s0.pos, 1, s0.line, s0.col⟩, ⟨s0.pos + 1, s0.line, s0.col + 1⟩) := by
  unfold lexToken
  rw [if_neg (by decide), if_neg (by decide), if_neg (by rcases hm with h | h <;> rw [h] <;> decide),
    if_neg (by rcases hm with h | h <;> rw [h] <;> simp)]
  unfold lexRegular
  rw [get_plain h (by decide) (by decide)]
  simp [mkTok]

/-- `|` not followed by another `|` -/
theorem lexToken_pipe {buf : Bytes} {s0 : St} {r : Bytes} (m : LexMode) (hm : m ≠ .variableString) (h : buf.drop s0.pos = 124 :: r)
    (hr : r.head? ≠ some 124) :
    lexToken genCfg buf m 124 s0 = .ok (⟨.Pipe, s0.pos, 1, s0.line, s0.col⟩, ⟨s0.pos + 1, s0.line, s0.col + 1⟩) := by
  obtain ⟨hlt, _, hd⟩ := drop_cons h
  unfold lexToken
  rw [if_neg (by decide), if_neg (by decide), if_neg hm, if_neg (by simp)]
  unfold lexRegular
  rw [get_plain h (by decide) (by decide)]
  simp only [Res.ok_bind]
  rw [if_neg (by decide), if_neg (by decide), if_neg (by decide), if_pos trivial]
  have hpk : ∃ c : Int, peekNextChar genCfg buf ⟨s0.pos + 1, s0.line, s0.col + 1⟩ = .ok c ∧ c ≠ 124 := by
    cases r with
    | nil =>
      have : s0.pos + 1 = buf.length := by
        have := congrArg List.length hd
        simp at this; omega
      exact ⟨-1, peek_end (s := ⟨s0.pos + 1, s0.line, s0.col + 1⟩) this, by decide⟩
    | cons c r' =>
      refine ⟨c.toNat, peek_cons (s := ⟨s0.pos + 1, s0.line, s0.col + 1⟩) hd, ?_⟩
      intro hc
      apply hr
      have : c = 124 := u8_eq_of_toNat (n := 124) (by simp; omega)
      subst this; rfl
  obtain ⟨c, hc, hne⟩ := hpk
  rw [hc]
  simp only [Res.ok_bind]
  rw [if_neg hne]
  simp [mkTok]

theorem lexToken_pipepipe {buf : Bytes} {s0 : St} {r : Bytes} (m : LexMode) (hm : m ≠ .variableString)
    (h : buf.drop s0.pos = 124 :: 124 :: r) :
    lexToken genCfg buf m 124 s0 = .ok (⟨.PipePipe, s0.pos, 2, s0.line, s0.col⟩, ⟨s0.pos + 2, s0.line, s0.col + 2⟩) := by
  obtain ⟨hlt, _, hd⟩ := drop_cons h
  unfold lexToken
  rw [if_neg (by decide), if_neg (by decide), if_neg hm, if_neg (by simp)]
  unfold lexRegular
  rw [get_plain h (by decide) (by decide)]
  simp only [Res.ok_bind]
  rw [if_neg (by decide), if_neg (by decide), if_neg (by decide), if_pos trivial,
    peek_cons (s := ⟨s0.pos + 1, s0.line, s0.col + 1⟩) hd]
  simp only [Res.ok_bind]
  rw [if_pos (by decide), get_plain (s := ⟨s0.pos + 1, s0.line, s0.col + 1⟩) hd (by decide) (by decide)]
  simp [mkTok]
  omega

/-- the kind the lexer gives to a word: Identifier in IdentifierSpecific mode, otherwise by the keyword table -/
def wordKind (m : LexMode) (w : Bytes) : Kind :=
  if m = .identifierSpecific then .Identifier
  else match genCfg.keywords.find? (fun e => e.literal = w) with
    | some e => e.kind
    | none => genCfg.fallback

theorem kwLookup_word {buf : Bytes} {p : Nat} {w more : Bytes} (hdrop : buf.drop p = w ++ more) (hle : p ≤ buf.length) :
    kwLookup buf p w.length genCfg.keywords = .ok ((genCfg.keywords.find? (fun e => e.literal = w)).map (·.kind)) := by
  have ok := genCfg_ok
  obtain ⟨_, hlen⟩ := drop_append_len hle hdrop
  have hsl := slice_of_drop hdrop
  obtain ⟨k, hk, hpost⟩ := Res.sat_elim (kwLookup_sat buf p w.length hlen genCfg.keywords ok.kwLens)
  rw [hk]
  congr 1
  cases hf : genCfg.keywords.find? (fun e => e.literal = w) with
  | none =>
    cases k with
    | none => rfl
    | some kd =>
      obtain ⟨e, he, _, hlit⟩ := hpost
      have := List.find?_eq_none.1 hf e he
      rw [hsl] at hlit
      simp [hlit] at this
  | some e' =>
    have hmem := List.mem_of_find?_eq_some hf
    have hlit' : e'.literal = w := by simpa using List.find?_some hf
    cases k with
    | none => exact absurd (by rw [hsl, hlit']) (hpost e' hmem)
    | some kd =>
      obtain ⟨e, he, hkind, hlit⟩ := hpost
      rw [hsl] at hlit
      have : e = e' := ok.kwLitUnique e he e' hmem (by rw [← hlit, hlit'])
      subst this
      simp [hkind]

/-- a word (keyword or identifier) in mode None or IdentifierSpecific, in front of a byte that is not an identifier character -/
theorem lexToken_word {buf : Bytes} {s0 : St} {w more : Bytes} (m : LexMode) (hm : m = .none ∨ m = .identifierSpecific)
    (hne : w ≠ []) (hall : w.all identB = true) (hdrop : buf.drop s0.pos = w ++ more)
    (hmore : ∀ d, more.head? = some d → identB d = false) (hle : s0.pos ≤ buf.length) :
    lexToken genCfg buf m ((w.head hne).toNat : Int) s0 =
      .ok (⟨wordKind m w, s0.pos, w.length, s0.line, s0.col⟩, ⟨s0.pos + w.length, s0.line, s0.col + w.length⟩) := by
  obtain ⟨_, hlen⟩ := drop_append_len hle hdrop
  cases w with
  | nil => exact absurd rfl hne
  | cons b t =>
    simp only [List.all_cons, Bool.and_eq_true] at hall
    obtain ⟨h10, h13, h36, h58, h61, h35, h124, _⟩ := identB_plain b hall.1
    simp only [List.cons_append] at hdrop
    obtain ⟨hlt, _, hdrop1⟩ := drop_cons hdrop
    simp only [List.head_cons]
    unfold lexToken
    rw [if_neg (by omega), if_neg (by omega), if_neg (by rcases hm with h | h <;> rw [h] <;> decide),
      if_neg (by rcases hm with h | h <;> rw [h] <;> simp)]
    unfold lexRegular
    rw [get_plain hdrop h10 h13]
    simp only [Res.ok_bind]
    rw [if_neg (by omega), if_neg (by omega), if_neg (by omega), if_neg (by omega),
      if_pos (by rw [isIdentifierChar_byte]; exact hall.1)]
    unfold lexIdentifier
    rw [identLoop_body buf t _ ⟨s0.pos + 1, s0.line, s0.col + 1⟩ more hall.2 hdrop1 hmore (by show s0.pos + 1 ≤ _; omega)
      (by simp at hlen; omega)]
    simp only [Res.ok_bind]
    have hl : s0.pos + 1 + t.length - s0.pos = (b :: t).length := by simp; omega
    by_cases hi : m = .identifierSpecific
    · rw [if_pos hi]
      simp only [Res.pure_eq_ok, mkTok, wordKind, hi, if_true, List.length_cons]
      have e1 : s0.pos + 1 + t.length - s0.pos = t.length + 1 := by omega
      have e2 : s0.pos + 1 + t.length = s0.pos + (t.length + 1) := by omega
      have e3 : s0.col + 1 + t.length = s0.col + (t.length + 1) := by omega
      rw [e1, e2, e3]
    · rw [if_neg hi, hl, kwLookup_word (w := b :: t) (by simpa using hdrop) hle]
      simp only [Res.ok_bind, Res.pure_eq_ok, mkTok, wordKind, hi, if_false, List.length_cons]
      have e1 : s0.pos + 1 + t.length - s0.pos = t.length + 1 := by omega
      have e2 : s0.pos + 1 + t.length = s0.pos + (t.length + 1) := by omega
      have e3 : s0.col + 1 + t.length = s0.col + (t.length + 1) := by omega
      rw [e1, e2, e3]
      cases List.find? (fun e => decide (e.literal = b :: t)) genCfg.keywords <;> rfl

/-- two blanks at the start of a line in front of a non-blank: the Indentation token -/
theorem lex_indent {buf : Bytes} {s : St} {b : UInt8} {r : Bytes} (m : LexMode) (h : buf.drop s.pos = 32 :: 32 :: b :: r)
    (hcol : s.col = 0) (hb : isBlank b.toNat = false) :
    lex genCfg buf m s = .ok (⟨.Indentation, s.pos, 2, s.line, s.col⟩, ⟨s.pos + 2, s.line, s.col + 2⟩) := by
  obtain ⟨hlt, _, hd⟩ := drop_cons h
  obtain ⟨hlt1, _, hd2⟩ := drop_cons hd
  obtain ⟨hlt2, _, _⟩ := drop_cons hd2
  obtain ⟨f, hf⟩ : ∃ f, buf.length + 1 = f + 2 := ⟨buf.length - 1, by omega⟩
  unfold lex
  rw [peek_cons h]
  simp only [Res.ok_bind]
  rw [if_pos ⟨by decide, hcol⟩, get_plain h (by decide) (by decide)]
  simp only [Res.ok_bind]
  rw [hf]
  unfold spaceLoop
  rw [peek_cons (s := ⟨s.pos + 1, s.line, s.col + 1⟩) hd]
  simp only [Res.ok_bind]
  rw [if_pos (by decide), get_plain (s := ⟨s.pos + 1, s.line, s.col + 1⟩) hd (by decide) (by decide)]
  simp only [Res.ok_bind]
  unfold spaceLoop
  rw [peek_cons (s := ⟨s.pos + 1 + 1, s.line, s.col + 1 + 1⟩) hd2]
  simp only [Res.ok_bind]
  rw [if_neg (by rw [nns_byte, hb]; simp)]
  simp [mkTok]
  omega

/-- at the end of the buffer: EndOfFile -/
theorem lex_eof {buf : Bytes} {s : St} (m : LexMode) (h : s.pos = buf.length) :
    lex genCfg buf m s = .ok (⟨.EndOfFile, s.pos, 0, s.line, s.col⟩, s) := by
  unfold lex
  rw [peek_end h]
  simp only [Res.ok_bind]
  rw [if_neg (by simp [isNonNewlineSpace_eof]), triviaLoop_none genCfg buf buf.length _ s (by simp) isNonNewlineSpace_eof]
  simp only [Res.ok_bind]
  unfold lexToken
  rw [if_neg (by decide), if_pos rfl]
  simp [mkTok]

end LLBuild.NinjaLexer
