/-
C03 database layer: a snapshot (key_names + rule_results + blobs) read as a durable map `Key → Option Result`.

* `absMap s` = what a connection with empty caches reads from snapshot `s`;
* `lookup_eq_absMap`: every connection whose caches agree with the table reads exactly `absMap s` (never an error);
* `absMap_applySet`: `setRuleResult k r` changes the map at `k` to `some r` and NOWHERE ELSE (frame), although it
  may append to key_names, rewrite the row list and fill caches;
* `applyKeys_agree`: `getKeysWithResult` enumerates exactly the graph of `absMap s`, each key once.
-/
import LLBuild.Lemmas.BuildDBLock

namespace LLBuild.BuildDB
open LLBuild.Generated

/-! ### codec facts (same statements as `C03_dep_codec`, `C03_dep_codec_keys`; needed below Props level) -/

theorem dep_codec_lookup (id : Nat) (su oo : Bool) (h : id < 2 ^ 62) :
    decodeDep SQLiteDB.depDecLookup (encodeDep SQLiteDB.depEnc id su oo) = (id, su, oo) := by
  simp only [decodeDep, encodeDep, SQLiteDB.depDecLookup, SQLiteDB.depEnc, two64, b2n, Nat.shiftLeft_eq,
    Nat.shiftRight_eq_div_pow, Nat.and_one_is_mod]
  cases su <;> cases oo <;> simp <;> omega

theorem dep_codec_keys (id : Nat) (su oo : Bool) (h : id < 2 ^ 62) :
    decodeDep SQLiteDB.depDecKeys (encodeDep SQLiteDB.depEnc id su oo) = (id, su, oo) := by
  simp only [decodeDep, encodeDep, SQLiteDB.depDecKeys, SQLiteDB.depEnc, two64, b2n, Nat.shiftLeft_eq,
    Nat.shiftRight_eq_div_pow, Nat.and_one_is_mod]
  cases su <;> cases oo <;> simp <;> omega

/-! ### rows -/

/-- `row` is the stored form of result `r` against table `kn` -/
def RowIs (kn : KN) (row : Row) (r : Result) : Prop :=
  ∃ raws, DepsEncoded kn r.deps raws ∧ row = ⟨r.value, r.signature, r.builtAt, r.computedAt, encodeBlob raws⟩

theorem RowIs_mono {kn kn' : KN} (hsub : ∀ e ∈ kn, e ∈ kn') {row : Row} {r : Result} (h : RowIs kn row r) : RowIs kn' row r := by
  obtain ⟨raws, h1, h2⟩ := h
  exact ⟨raws, DepsEncoded_mono hsub h1, h2⟩

/-- snapshot `s` holds result `r` for key `k` -/
def Holds (s : Snapshot) (k : Bytes) (r : Result) : Prop :=
  ∃ id row, (id, SqlValue.text k) ∈ s.keyNames ∧ s.rows.lookup id = some row ∧ RowIs s.keyNames row r

/-- snapshot `s` holds nothing for key `k` -/
def Misses (s : Snapshot) (k : Bytes) : Prop :=
  ∀ id, (id, SqlValue.text k) ∈ s.keyNames → s.rows.lookup id = none

/-- `rule_results.key_id` is UNIQUE (CREATE UNIQUE INDEX rule_results_idx; INSERT OR REPLACE) -/
def RowsNodup (s : Snapshot) : Prop := s.rows.Pairwise (fun a b => a.1 ≠ b.1)

theorem decodeRow_spec (dec : SQLiteDB.DepDec)
    (hdec : ∀ id su oo, id < 2 ^ 62 → decodeDep dec (encodeDep SQLiteDB.depEnc id su oo) = (id, su, oo))
    {kn : KN} (ok : KNOK kn) (hsmall : maxId kn < 2 ^ 62) {cn : Conn} (c : CacheOK cn kn) {row : Row} {r : Result}
    (h : RowIs kn row r) : ∃ cn', decodeRow dec cn kn row = (cn', .ok r) ∧ CacheOK cn' kn := by
  obtain ⟨raws, henc, rfl⟩ := h
  obtain ⟨cn', hres, c'⟩ := resolveDeps_spec dec hdec ok hsmall r.deps raws cn c henc
  exact ⟨cn', by simp only [decodeRow, decodeBlob_encodeBlob raws (DepsEncoded_raw_lt henc), hres], c'⟩

theorem findRow_hit (hf : StoredKeyFaithful) {cn : Conn} {s : Snapshot} {k : Bytes} (ok : KNOK s.keyNames)
    (c : CacheOK cn s.keyNames) {id : Nat} {row : Row} (hk : (id, SqlValue.text k) ∈ s.keyNames)
    (hrow : s.rows.lookup id = some row) :
    ∃ cn1, findRow cn s k = some (id, row, cn1) ∧ CacheOK cn1 s.keyNames := by
  unfold findRow
  cases hl : cn.dbKeyIDs.lookup k with
  | some id' =>
    have := ok.uniqKey _ _ _ (c.dbc k id' hl) hk
    subst this
    exact ⟨cn, by simp [hrow], c⟩
  | none =>
    simp only [(hf k).2.2, findKeyIdWith_text_of_mem ok hk, hrow, Option.map_some]
    exact ⟨_, rfl, CacheOK_cache c hk⟩

theorem findRow_miss (hf : StoredKeyFaithful) {cn : Conn} {s : Snapshot} {k : Bytes} (ok : KNOK s.keyNames)
    (c : CacheOK cn s.keyNames) (hm : Misses s k) : findRow cn s k = none := by
  unfold findRow
  cases hl : cn.dbKeyIDs.lookup k with
  | some id' => simp [hm id' (c.dbc k id' hl)]
  | none =>
    simp only [(hf k).2.2]
    cases hfk : findKeyIdWith (.text k) s.keyNames with
    | none => rfl
    | some id => simp [hm id (findKeyIdWith_text_some ok hfk)]

theorem applyLookup_hit (hf : StoredKeyFaithful) {cn : Conn} {s : Snapshot} {k : Bytes} (ok : KNOK s.keyNames)
    (hsmall : maxId s.keyNames < 2 ^ 62) (c : CacheOK cn s.keyNames) {r : Result} (h : Holds s k r) :
    (applyLookup cn s k).2 = .result r ∧ CacheOK (applyLookup cn s k).1 s.keyNames := by
  obtain ⟨id, row, hk, hrow, hr⟩ := h
  obtain ⟨cn1, hfr, c1⟩ := findRow_hit hf ok c hk hrow
  obtain ⟨cn2, hd, c2⟩ := decodeRow_spec SQLiteDB.depDecLookup dep_codec_lookup ok hsmall c1 hr
  simp only [applyLookup, hfr, hd]
  exact ⟨trivial, c2⟩

theorem applyLookup_miss (hf : StoredKeyFaithful) {cn : Conn} {s : Snapshot} {k : Bytes} (ok : KNOK s.keyNames)
    (c : CacheOK cn s.keyNames) (h : Misses s k) : applyLookup cn s k = (cn, .absent) := by
  simp only [applyLookup, findRow_miss hf ok c h]

theorem RowWritten_RowIs {kn : KN} {id : Nat} {row : Row} (h : RowWritten kn id row) :
    ∃ k r, (id, SqlValue.text k) ∈ kn ∧ RowIs kn row r := by
  obtain ⟨k, r, raws, h1, h2, h3⟩ := h
  exact ⟨k, r, h1, raws, h2, h3⟩

/-- a consistent snapshot holds a result for `k`, or nothing -/
theorem holds_or_misses {s : Snapshot} (hs : SnapInv s) (k : Bytes) : Misses s k ∨ ∃ r, Holds s k r := by
  by_cases h : ∃ id row, (id, SqlValue.text k) ∈ s.keyNames ∧ s.rows.lookup id = some row
  · right
    obtain ⟨id, row, hk, hrow⟩ := h
    obtain ⟨k0, r, hk0, hr⟩ := RowWritten_RowIs (hs.rows id row (mem_of_lookup hrow))
    exact ⟨r, id, row, hk, hrow, hr⟩
  · left
    intro id hk
    cases hl : s.rows.lookup id with
    | none => rfl
    | some row => exact absurd ⟨id, row, hk, hl⟩ h

/-! ### the map a snapshot denotes -/

/-- what a connection with empty caches reads: the durable map denoted by the snapshot -/
def absMap (s : Snapshot) (k : Bytes) : Option Result :=
  match (applyLookup (Conn.fresh 0 false) s k).2 with
  | .result r => some r
  | _ => none

def toOut : Option Result → Outcome
  | some r => .result r
  | none => .absent

theorem CacheOK_fresh (client : Nat) (rc : Bool) (kn : KN) : CacheOK (Conn.fresh client rc) kn :=
  CacheOK_empty _ _ rfl rfl

theorem absMap_holds (hf : StoredKeyFaithful) {s : Snapshot} {k : Bytes} (ok : KNOK s.keyNames)
    (hsmall : maxId s.keyNames < 2 ^ 62) {r : Result} (h : Holds s k r) : absMap s k = some r := by
  unfold absMap
  rw [(applyLookup_hit hf ok hsmall (CacheOK_fresh 0 false _) h).1]

theorem absMap_misses (hf : StoredKeyFaithful) {s : Snapshot} {k : Bytes} (ok : KNOK s.keyNames) (h : Misses s k) :
    absMap s k = none := by
  unfold absMap
  rw [applyLookup_miss hf ok (CacheOK_fresh 0 false _) h]

/-- `lookupRuleResult` on ANY connection whose caches agree with the table answers from the denoted map (value,
signature, epochs, dependency list) — no `corrupt`, no `dangling` — and keeps the caches in agreement -/
theorem lookup_eq_absMap (hf : StoredKeyFaithful) {cn : Conn} {s : Snapshot} (hs : SnapInv s)
    (hsmall : maxId s.keyNames < 2 ^ 62) (c : CacheOK cn s.keyNames) (k : Bytes) :
    (applyLookup cn s k).2 = toOut (absMap s k) ∧ CacheOK (applyLookup cn s k).1 s.keyNames := by
  rcases holds_or_misses hs k with hm | ⟨r, hh⟩
  · rw [absMap_misses hf hs.kn hm, applyLookup_miss hf hs.kn c hm]
    exact ⟨rfl, c⟩
  · rw [absMap_holds hf hs.kn hsmall hh]
    exact applyLookup_hit hf hs.kn hsmall c hh

theorem absMap_none_snapshot : absMap Snapshot.none = fun _ => none := by
  funext k
  simp [absMap, applyLookup, findRow, Conn.fresh, Snapshot.none, findKeyIdWith]

theorem absMap_fresh_snapshot (client : Nat) : absMap (Snapshot.fresh client) = fun _ => none := by
  funext k
  simp [absMap, applyLookup, findRow, Conn.fresh, Snapshot.fresh, findKeyIdWith]

/-- the denoted map only depends on the two tables -/
theorem absMap_congr {s s' : Snapshot} (h1 : s'.keyNames = s.keyNames) (h2 : s'.rows = s.rows) : absMap s' = absMap s := by
  funext k
  simp only [absMap, applyLookup, findRow, h1, h2]

/-! ### `setRuleResult`: the map changes at `k` and nowhere else -/

theorem pairwise_uniq {rows : List (Nat × Row)} (hn : rows.Pairwise (fun a b => a.1 ≠ b.1)) {id : Nat} {row row' : Row}
    (h : (id, row) ∈ rows) (h' : (id, row') ∈ rows) : row = row' := by
  induction rows with
  | nil => cases h
  | cons hd t ih =>
    rw [List.pairwise_cons] at hn
    rcases List.mem_cons.1 h with g | g <;> rcases List.mem_cons.1 h' with g' | g'
    · rw [← g'] at g; injection g with _ g
    · subst g; exact absurd rfl (hn.1 (id, row') g')
    · subst g'; exact absurd rfl (hn.1 (id, row) g)
    · exact ih hn.2 g g'

theorem lookup_of_pairwise {rows : List (Nat × Row)} (hn : rows.Pairwise (fun a b => a.1 ≠ b.1)) {id : Nat} {row : Row}
    (h : (id, row) ∈ rows) : rows.lookup id = some row :=
  lookup_of_uniq (fun _ hb => pairwise_uniq hn hb h) h

theorem putRow_pairwise {rows : List (Nat × Row)} (hn : rows.Pairwise (fun a b => a.1 ≠ b.1)) (id : Nat) (row : Row) :
    (putRow rows id row).Pairwise (fun a b => a.1 ≠ b.1) := by
  unfold putRow
  rw [List.pairwise_append]
  refine ⟨hn.filter _, by simp, ?_⟩
  intro a ha b hb
  have := (List.mem_filter.1 ha).2
  simp at hb
  subst hb
  simpa using this

/-- everything `setRuleResult k r` does to a consistent view, in one statement -/
theorem applySet_full (hf : StoredKeyFaithful) (cn : Conn) (s : Snapshot) (k : Bytes) (r : Result)
    (hs : SnapInv s) (hn : RowsNodup s) (c : CacheOK cn s.keyNames) :
    SnapInv (applySet cn s k r).2 ∧ RowsNodup (applySet cn s k r).2 ∧
    CacheOK (applySet cn s k r).1 (applySet cn s k r).2.keyNames ∧
    (∀ e ∈ s.keyNames, e ∈ (applySet cn s k r).2.keyNames) ∧
    maxId (applySet cn s k r).2.keyNames ≤ maxId s.keyNames + (r.deps.length + 1) ∧
    ((applySet cn s k r).2.schema = s.schema ∧ (applySet cn s k r).2.version = s.version ∧
      (applySet cn s k r).2.client = s.client ∧ (applySet cn s k r).2.iteration = s.iteration) ∧
    Holds (applySet cn s k r).2 k r ∧
    (∀ k', k' ≠ k → ∀ r', Holds s k' r' → Holds (applySet cn s k r).2 k' r') ∧
    (∀ k', k' ≠ k → Misses s k' → Misses (applySet cn s k r).2 k') := by
  obtain ⟨cn1, kn1, id, h1, ok1, c1, sub1, hm1, mx1⟩ := getKeyID_spec hf k hs.kn c
  obtain ⟨cn2, kn2, raws, h2, ok2, c2, sub2, hall, mx2⟩ := encodeDeps_spec hf r.deps cn1 kn1 ok1 c1
  have he : applySet cn s k r = (cn2, { s with keyNames := kn2, rows := putRow s.rows id ⟨r.value, r.signature, r.builtAt, r.computedAt, encodeBlob raws⟩ }) := by
    simp only [applySet, h1, h2]
  rw [he]
  have sub : ∀ e ∈ s.keyNames, e ∈ kn2 := fun e h => sub2 e (sub1 e h)
  have hm2 : (id, SqlValue.text k) ∈ kn2 := sub2 _ hm1
  have hne : ∀ k' id', k' ≠ k → (id', SqlValue.text k') ∈ kn2 → id' ≠ id := by
    intro k' id' hk hm' heq
    subst heq
    have := ok2.uniqId _ _ _ hm' hm2
    injection this with this
    exact hk this
  refine ⟨⟨ok2, ?_⟩, putRow_pairwise hn _ _, c2, sub, by simp only; omega, ⟨rfl, rfl, rfl, rfl⟩, ?_, ?_, ?_⟩
  · intro id' row' hm
    rcases mem_putRow hm with ⟨hold, _⟩ | ⟨rfl, rfl⟩
    · exact RowWritten_mono sub (hs.rows id' row' hold)
    · exact ⟨k, r, raws, hm2, hall, rfl⟩
  · exact ⟨id, _, hm2, lookup_putRow_self _ _ _, raws, hall, rfl⟩
  · intro k' hk r' ⟨id', row', hk', hrow', hr'⟩
    have hk2 : (id', SqlValue.text k') ∈ kn2 := sub _ hk'
    refine ⟨id', row', hk2, ?_, RowIs_mono sub hr'⟩
    simp only
    rw [lookup_putRow_other _ _ _ _ (hne k' id' hk hk2)]
    exact hrow'
  · intro k' hk hmiss id' hk2
    simp only at hk2 ⊢
    rw [lookup_putRow_other _ _ _ _ (hne k' id' hk hk2)]
    cases hl : s.rows.lookup id' with
    | none => rfl
    | some row0 =>
      exfalso
      obtain ⟨k0, r0, hk0, _⟩ := RowWritten_RowIs (hs.rows id' row0 (mem_of_lookup hl))
      have := ok2.uniqId _ _ _ (sub _ hk0) hk2
      injection this with this
      subst this
      rw [hmiss id' hk0] at hl
      cases hl

/-- FRAME + read-your-writes at the level of the denoted map: `setRuleResult k r` is `map[k] := r`. -/
theorem absMap_applySet (hf : StoredKeyFaithful) (cn : Conn) (s : Snapshot) (k : Bytes) (r : Result)
    (hs : SnapInv s) (hn : RowsNodup s) (c : CacheOK cn s.keyNames)
    (hsmall : maxId s.keyNames + (r.deps.length + 1) < 2 ^ 62) :
    absMap (applySet cn s k r).2 = fun k' => if k' = k then some r else absMap s k' := by
  obtain ⟨hs', _, _, _, hmx, _, hh, hframe, hmiss⟩ := applySet_full hf cn s k r hs hn c
  have hsmall' : maxId (applySet cn s k r).2.keyNames < 2 ^ 62 := by omega
  have hsmall0 : maxId s.keyNames < 2 ^ 62 := by omega
  funext k'
  by_cases hk : k' = k
  · subst hk
    simp only [↓reduceIte]
    exact absMap_holds hf hs'.kn hsmall' hh
  · simp only [hk, ↓reduceIte]
    rcases holds_or_misses hs k' with hm | ⟨r', hh'⟩
    · rw [absMap_misses hf hs.kn hm, absMap_misses hf hs'.kn (hmiss k' hk hm)]
    · rw [absMap_holds hf hs.kn hsmall0 hh', absMap_holds hf hs'.kn hsmall' (hframe k' hk r' hh')]

/-! ### `getKeysWithResult` -/

/-- `l` lists exactly the graph of the map `m`, every key once -/
def KeysAgree (l : List (Bytes × Result)) (m : Bytes → Option Result) : Prop :=
  l.Pairwise (fun a b => a.1 ≠ b.1) ∧ ∀ k r, (k, r) ∈ l ↔ m k = some r

inductive KeysRel (kn : KN) : List (Nat × Row) → List (Bytes × Result) → Prop
  | nil : KeysRel kn [] []
  | cons {id : Nat} {row : Row} {k : Bytes} {r : Result} {rs : List (Nat × Row)} {l : List (Bytes × Result)} :
      (id, SqlValue.text k) ∈ kn → RowIs kn row r → KeysRel kn rs l → KeysRel kn ((id, row) :: rs) ((k, r) :: l)

theorem applyKeys_spec {kn : KN} (ok : KNOK kn) (hsmall : maxId kn < 2 ^ 62) :
    ∀ (rs : List (Nat × Row)) (cn : Conn), CacheOK cn kn → (∀ id row, (id, row) ∈ rs → RowWritten kn id row) →
      ∃ cn' l, applyKeys kn cn rs = (cn', .ok l) ∧ CacheOK cn' kn ∧ KeysRel kn rs l := by
  intro rs
  induction rs with
  | nil => intro cn c _; exact ⟨cn, [], rfl, c, .nil⟩
  | cons hd rest ih =>
    intro cn c hall
    obtain ⟨id, row⟩ := hd
    obtain ⟨k, r, hk, hr⟩ := RowWritten_RowIs (hall id row List.mem_cons_self)
    have hlk : kn.lookup id = some (SqlValue.text k) := lookup_of_uniq (fun b' hb' => ok.uniqId _ _ _ hb' hk) hk
    obtain ⟨cn1, hd1, c1⟩ := decodeRow_spec SQLiteDB.depDecKeys dep_codec_keys ok hsmall (CacheOK_cache c hk) hr
    obtain ⟨cn2, l, hk2, c2, hrel⟩ := ih cn1 c1 (fun id' row' h => hall id' row' (List.mem_cons_of_mem _ h))
    refine ⟨cn2, (k, r) :: l, ?_, c2, .cons hk hr hrel⟩
    simp only [applyKeys, hlk, SqlValue.toText, hd1, hk2]

theorem KeysRel_mem_right {kn : KN} {rs : List (Nat × Row)} {l : List (Bytes × Result)} (h : KeysRel kn rs l)
    {k : Bytes} {r : Result} (hm : (k, r) ∈ l) : ∃ id row, (id, row) ∈ rs ∧ (id, SqlValue.text k) ∈ kn ∧ RowIs kn row r := by
  induction h with
  | nil => cases hm
  | cons hk hr _ ih =>
    rcases List.mem_cons.1 hm with heq | hm
    · injection heq with h1 h2
      subst h1 h2
      exact ⟨_, _, List.mem_cons_self, hk, hr⟩
    · obtain ⟨id, row, h1, h2, h3⟩ := ih hm
      exact ⟨id, row, List.mem_cons_of_mem _ h1, h2, h3⟩

theorem KeysRel_mem_left {kn : KN} {rs : List (Nat × Row)} {l : List (Bytes × Result)} (h : KeysRel kn rs l)
    {id : Nat} {row : Row} (hm : (id, row) ∈ rs) : ∃ k r, (k, r) ∈ l ∧ (id, SqlValue.text k) ∈ kn ∧ RowIs kn row r := by
  induction h with
  | nil => cases hm
  | cons hk hr _ ih =>
    rcases List.mem_cons.1 hm with heq | hm
    · injection heq with h1 h2
      subst h1 h2
      exact ⟨_, _, List.mem_cons_self, hk, hr⟩
    · obtain ⟨k, r, h1, h2, h3⟩ := ih hm
      exact ⟨k, r, List.mem_cons_of_mem _ h1, h2, h3⟩

theorem KeysRel_pairwise {kn : KN} (ok : KNOK kn) {rs : List (Nat × Row)} {l : List (Bytes × Result)} (h : KeysRel kn rs l)
    (hn : rs.Pairwise (fun a b => a.1 ≠ b.1)) : l.Pairwise (fun a b => a.1 ≠ b.1) := by
  induction h with
  | nil => exact List.Pairwise.nil
  | @cons id row k r rs l hk hr hrel ih =>
    rw [List.pairwise_cons] at hn ⊢
    refine ⟨?_, ih hn.2⟩
    intro p hp heq
    obtain ⟨k', r'⟩ := p
    obtain ⟨id', row', h1, h2, _⟩ := KeysRel_mem_right hrel hp
    simp only at heq
    subst heq
    exact hn.1 _ h1 (ok.uniqKey _ _ _ hk h2)

theorem insertRowSorted_perm (e : Nat × Row) : ∀ l : List (Nat × Row), (insertRowSorted e l).Perm (e :: l) := by
  intro l
  induction l with
  | nil => exact List.Perm.refl _
  | cons h t ih =>
    simp only [insertRowSorted]
    split
    · exact List.Perm.refl _
    · exact ((List.Perm.cons h ih).trans (List.Perm.swap e h t))

theorem sortRows_perm (l : List (Nat × Row)) : (sortRows l).Perm l := by
  induction l with
  | nil => exact List.Perm.refl _
  | cons h t ih =>
    simp only [sortRows, List.foldr_cons] at ih ⊢
    exact (insertRowSorted_perm h _).trans (List.Perm.cons h ih)

/-- `getKeysWithResult` on a consistent view returns (no error) exactly the graph of the denoted map -/
theorem applyKeys_agree (hf : StoredKeyFaithful) {cn : Conn} {s : Snapshot} (hs : SnapInv s) (hn : RowsNodup s)
    (hsmall : maxId s.keyNames < 2 ^ 62) (c : CacheOK cn s.keyNames) :
    ∃ cn' l, applyKeys s.keyNames cn (sortRows s.rows) = (cn', .ok l) ∧ CacheOK cn' s.keyNames ∧ KeysAgree l (absMap s) := by
  have hperm := sortRows_perm s.rows
  have hn' : (sortRows s.rows).Pairwise (fun a b => a.1 ≠ b.1) :=
    (hperm.pairwise_iff (fun h => Ne.symm h)).2 hn
  obtain ⟨cn', l, hk, c', hrel⟩ := applyKeys_spec hs.kn hsmall (sortRows s.rows) cn c
    (fun id row h => hs.rows id row (hperm.mem_iff.1 h))
  refine ⟨cn', l, hk, c', KeysRel_pairwise hs.kn hrel hn', ?_⟩
  intro k r
  constructor
  · intro hm
    obtain ⟨id, row, h1, h2, h3⟩ := KeysRel_mem_right hrel hm
    exact absMap_holds hf hs.kn hsmall ⟨id, row, h2, lookup_of_pairwise hn (hperm.mem_iff.1 h1), h3⟩
  · intro hm
    rcases holds_or_misses hs k with hmiss | ⟨r', hh⟩
    · rw [absMap_misses hf hs.kn hmiss] at hm; cases hm
    · have e := absMap_holds hf hs.kn hsmall hh
      rw [hm] at e
      injection e with e
      subst e
      obtain ⟨id, row, h1, h2, h3⟩ := hh
      obtain ⟨k1, r1, g1, g2, g3⟩ := KeysRel_mem_left hrel (hperm.mem_iff.2 (mem_of_lookup h2))
      have hk1 := hs.kn.uniqId _ _ _ g2 h1
      injection hk1 with hk1
      subst hk1
      have e1 := absMap_holds hf hs.kn hsmall ⟨id, row, h1, h2, g3⟩
      rw [hm] at e1
      injection e1 with e1
      subst e1
      exact g1

end LLBuild.BuildDB
