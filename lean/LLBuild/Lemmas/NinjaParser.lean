/-
Helper lemmas for the Ninja parser model (Model/NinjaParser.lean).

Part 1 extends the lexer calculus of Lemmas/NinjaLexer.lean by the facts the parser's invariants need
(columns, what follows a comment, no keyword kinds outside mode None).  Part 2 is one total-correctness
specification per parser function: invariant, progress measure, lexer-call log, callbacks, lexer mode and
"the look-ahead token starts a line".  Part 3 is symbolic execution of the parser along a token script
(what the lexer returns, in which mode) for the shape theorems.
-/
import LLBuild.Lemmas.NinjaLexer
import LLBuild.Model.NinjaParser
import LLBuild.Model.NinjaSpec

namespace LLBuild.NinjaLexer
open LLBuild.Generated.NinjaLexer (Kind KwEntry Guard)
open Res

/-! ## Part 1: more about one `lex` call -/

/-- `Token::isKeyword()` -/
def isKeyword (k : Kind) : Bool :=
  [Kind.KWBuild, .KWDefault, .KWInclude, .KWPool, .KWRule, .KWSubninja].contains k

/-- end of line or end of file, as returned by `peekNextChar` -/
def EolChar (c : Int) : Prop := c = -1 ∨ c = 10 ∨ c = 13

structure TokPost2 (buf : Bytes) (m : LexMode) (s0 : St) (r : Token × St) : Prop where
  col : r.1.col = s0.col
  nl_col : r.1.kind = .Newline → r.2.col = 0
  comment : r.1.kind = .Comment → ∃ c, PeekIs buf r.2 c ∧ EolChar c
  nokw : m ≠ .none → isKeyword r.1.kind = false

theorem tokPost2_fixed {buf : Bytes} {m : LexMode} (k : Kind) (s0 s1 : St) (hnl : k ≠ .Newline) (hc : k ≠ .Comment)
    (hk : isKeyword k = false) : TokPost2 buf m s0 (mkTok k s0 s1, s1) where
  col := rfl
  nl_col := fun h => absurd h hnl
  comment := fun h => absurd h hc
  nokw := fun _ => hk

theorem isIdentKind_ne_nl {k : Kind} (h : isIdentKind k = true) : k ≠ .Newline := by
  intro he; subst he; simp [isIdentKind] at h

theorem isIdentKind_ne_comment {k : Kind} (h : isIdentKind k = true) : k ≠ .Comment := by
  intro he; subst he; simp [isIdentKind] at h

theorem get_nl_col (cfg : Cfg) (buf : Bytes) (s : St) (c : Int) (hc : PeekIs buf s c) (h : c = 10 ∨ c = 13) :
    (getNextChar cfg buf s).sat (fun r => r.2.col = 0) := by
  have hlt := hc.lt_of_ne (by omega)
  obtain ⟨b, hb, hcb⟩ : ∃ b : UInt8, buf[s.pos]? = some b ∧ c = (b.toNat : Int) := by
    rcases hc with ⟨h1, _⟩ | h'
    · omega
    · exact h'
  have hb0 : buf[s.pos]? = some buf[s.pos] := List.getElem?_eq_getElem hlt
  rw [hb0] at hb; cases hb
  have hbb : buf[s.pos] = 10 ∨ buf[s.pos] = 13 := by
    rcases h with h | h
    · exact Or.inl (u8_eq_of_toNat (n := 10) (by simp; omega))
    · exact Or.inr (u8_eq_of_toNat (n := 13) (by simp; omega))
  unfold getNextChar
  rw [if_neg (by omega), rd_of_lt hlt]
  simp only [Res.ok_bind]
  rw [if_pos hbb]
  split
  · simp
  · rename_i h1
    have hlt1 : s.pos + 1 < buf.length := by omega
    rw [rd_of_lt hlt1]
    simp

theorem lexIdentifier_sat2 {cfg : Cfg} (ok : CfgOK cfg) (buf : Bytes) (m : LexMode) (s0 s1 : St)
    (h01 : s0.pos < s1.pos) (h1 : s1.pos ≤ buf.length) (hm : m = .none ∨ m = .identifierSpecific) :
    (lexIdentifier cfg buf m s0 s1).sat (TokPost2 buf m s0) := by
  unfold lexIdentifier
  apply sat_bind (identLoop_sat ok.peek ok.identEOF buf _ s1 h1 (by omega))
  intro s2 hs2
  obtain ⟨h12, h2, _⟩ := hs2
  split
  · exact tokPost2_fixed .Identifier s0 s2 (by decide) (by decide) (by decide)
  · rename_i hmi
    have hmn : m = .none := by
      rcases hm with h | h
      · exact h
      · exact absurd h hmi
    apply sat_bind (kwLookup_sat buf s0.pos (s2.pos - s0.pos) (by omega) cfg.keywords ok.kwLens)
    intro k hk
    have hkind : isIdentKind (k.getD cfg.fallback) = true := by
      cases k with
      | none => exact ok.fallbackKind
      | some kd =>
        obtain ⟨e, he, h1, _⟩ := hk
        simp only [Option.getD_some]
        rw [← h1]; exact ok.kwKinds e he
    exact { col := rfl
            nl_col := fun h => absurd h (isIdentKind_ne_nl hkind)
            comment := fun h => absurd h (isIdentKind_ne_comment hkind)
            nokw := fun h => absurd hmn h }

theorem lexRegular_sat2 {cfg : Cfg} (ok : CfgOK cfg) (buf : Bytes) (m : LexMode) (c : Int) (s0 : St)
    (hv : s0.pos ≤ buf.length) (hc : PeekIs buf s0 c) (hne : c ≠ -1) (hmv : m ≠ .variableString)
    (hmp : m = .pathString → c = 58 ∨ c = 124) :
    (lexRegular cfg buf m c s0).sat (TokPost2 buf m s0) := by
  unfold lexRegular
  have hlt := hc.lt_of_ne hne
  apply sat_bind (get_sat cfg buf s0 hv)
  intro r hr
  obtain ⟨_, h2, h3, _⟩ := hr
  have h01 := h3 hlt
  simp only []
  split
  · exact tokPost2_fixed .Colon s0 r.2 (by decide) (by decide) (by decide)
  · rename_i hn58
    split
    · exact tokPost2_fixed .Equals s0 r.2 (by decide) (by decide) (by decide)
    · split
      · apply sat_bind (skipToEndOfLine_sat ok.peek buf _ r.2 h2 (by omega))
        intro s2 hs2
        obtain ⟨_, _, c', hc', hstop⟩ := hs2
        exact { col := rfl
                nl_col := fun h => by simp [mkTok] at h
                comment := fun _ => ⟨c', hc', hstop⟩
                nokw := fun _ => rfl }
      · split
        · apply sat_bind (peek_sat ok.peek buf r.2 h2)
          intro c2 _
          split
          · apply sat_bind (get_sat cfg buf r.2 h2)
            intro r2 _
            exact tokPost2_fixed .PipePipe s0 r2.2 (by decide) (by decide) (by decide)
          · exact tokPost2_fixed .Pipe s0 r.2 (by decide) (by decide) (by decide)
        · rename_i hn124
          split
          · have hm : m = .none ∨ m = .identifierSpecific := by
              cases m with
              | none => exact Or.inl rfl
              | identifierSpecific => exact Or.inr rfl
              | pathString =>
                rcases hmp rfl with h | h
                · exact absurd h hn58
                · exact absurd h hn124
              | variableString => exact absurd rfl hmv
            exact lexIdentifier_sat2 ok buf m s0 r.2 h01 h2 hm
          · exact tokPost2_fixed .Unknown s0 r.2 (by decide) (by decide) (by decide)

theorem lexToken_sat2 {cfg : Cfg} (ok : CfgOK cfg) (buf : Bytes) (m : LexMode) (c : Int) (s0 : St)
    (hv : s0.pos ≤ buf.length) (hc : PeekIs buf s0 c) :
    (lexToken cfg buf m c s0).sat (TokPost2 buf m s0) := by
  unfold lexToken
  split
  · rename_i h
    apply sat_bind (get_nl_col cfg buf s0 c hc h)
    intro r hr
    exact { col := rfl
            nl_col := fun _ => hr
            comment := fun h => by simp [mkTok] at h
            nokw := fun _ => rfl }
  · split
    · exact tokPost2_fixed .EndOfFile s0 s0 (by decide) (by decide) (by decide)
    · rename_i hne
      split
      · apply sat_bind (varLoop_sat ok.peek buf _ s0 hv (by omega))
        intro s1 _
        exact tokPost2_fixed .String s0 s1 (by decide) (by decide) (by decide)
      · rename_i hm
        split
        · apply sat_bind (pathLoop_sat ok.peek buf _ s0 hv (by omega))
          intro s1 _
          exact tokPost2_fixed .String s0 s1 (by decide) (by decide) (by decide)
        · rename_i hpm
          refine lexRegular_sat2 ok buf m c s0 hv hc hne hm ?_
          intro hp
          by_cases h58 : c = 58
          · exact Or.inl h58
          · by_cases h124 : c = 124
            · exact Or.inr h124
            · exact absurd ⟨hp, h58, h124⟩ hpm

theorem triviaLoop_none (cfg : Cfg) (buf : Bytes) (n : Nat) (c : Int) (s : St)
    (h1 : ¬ (c = 36 ∧ s.col ≠ 0)) (h2 : isNonNewlineSpace c = false) :
    triviaLoop cfg buf (n + 1) c s = .ok (c, s) := by
  unfold triviaLoop
  rw [if_neg h1, h2]
  rfl

/-- further facts about one `lex` call from an in-bounds cursor -/
structure LexPost2 (buf : Bytes) (m : LexMode) (s : St) (r : Token × St) : Prop where
  col0 : s.col = 0 → r.1.col = 0
  nl_col : r.1.kind = .Newline → r.2.col = 0
  comment : r.1.kind = .Comment → ∃ c, PeekIs buf r.2 c ∧ EolChar c
  nokw : m ≠ .none → isKeyword r.1.kind = false

theorem lex_sat2 {cfg : Cfg} (ok : CfgOK cfg) (buf : Bytes) (m : LexMode) (s : St) (hv : s.pos ≤ buf.length) :
    (lex cfg buf m s).sat (LexPost2 buf m s) := by
  unfold lex
  apply sat_bind (peek_sat ok.peek buf s hv)
  intro c hc
  split
  · rename_i hi
    apply sat_bind (get_sat cfg buf s hv)
    intro r hr
    apply sat_bind (spaceLoop_sat ok.peek buf _ r.2 hr.2.1 (by omega))
    intro s2 _
    exact { col0 := fun h => h
            nl_col := fun h => by simp [mkTok] at h
            comment := fun h => by simp [mkTok] at h
            nokw := fun _ => rfl }
  · rename_i hi
    by_cases h0 : s.col = 0
    · have hns : isNonNewlineSpace c = false := by
        cases hb : isNonNewlineSpace c with
        | false => rfl
        | true => exact absurd ⟨hb, h0⟩ hi
      rw [triviaLoop_none cfg buf buf.length c s (fun h => h.2 h0) hns]
      simp only [Res.ok_bind]
      apply sat_mono (lexToken_sat2 ok buf m c s hv hc)
      intro t ht
      exact ⟨fun _ => by rw [ht.col]; exact h0, ht.nl_col, ht.comment, ht.nokw⟩
    · apply sat_bind (triviaLoop_sat ok.peek ok.gLF ok.gCRLF buf _ c s hv hc (by omega))
      intro r hr
      obtain ⟨_, h2, hpk, _⟩ := hr
      apply sat_mono (lexToken_sat2 ok buf m r.1 r.2 h2 hpk)
      intro t ht
      exact ⟨fun h => absurd h h0, ht.nl_col, ht.comment, ht.nokw⟩

/-- at the end of a line (or of the file) every mode yields the Newline (or EndOfFile) token -/
theorem lex_at_eol {cfg : Cfg} (ok : CfgOK cfg) (buf : Bytes) (m : LexMode) (s : St) (hv : s.pos ≤ buf.length)
    (c : Int) (hc : PeekIs buf s c) (he : EolChar c) :
    (lex cfg buf m s).sat (fun r => r.1.kind = .Newline ∨ r.1.kind = .EndOfFile) := by
  unfold lex
  apply sat_bind (peek_sat ok.peek buf s hv)
  intro c' hc'
  have : c' = c := hc'.unique hc rfl
  subst this
  have hns : isNonNewlineSpace c' = false := by
    rcases he with h | h | h <;> subst h <;> decide
  rw [if_neg (by rw [hns]; simp)]
  rw [triviaLoop_none cfg buf buf.length c' s (fun h => by unfold EolChar at he; omega) hns]
  simp only [Res.ok_bind]
  unfold lexToken
  split
  · apply sat_bind (get_sat cfg buf s hv)
    intro r _
    exact Or.inl rfl
  · rename_i hn
    have : c' = -1 := by unfold EolChar at he; omega
    rw [if_pos this]
    exact Or.inr rfl

end LLBuild.NinjaLexer

namespace LLBuild.NinjaParser
open LLBuild.NinjaLexer
open LLBuild.Generated.NinjaLexer (Kind)
open Res

/-! ## Part 2: invariant, progress measure and one specification per parser function -/

/-- what holds between two parser actions: the cursor is in bounds, and the look-ahead token agrees with it -/
structure Inv (buf : Bytes) (s : PSt) : Prop where
  pos_le : s.lx.pos ≤ buf.length
  eof : s.tok.kind = .EndOfFile → s.lx.pos = buf.length
  nl : s.tok.kind = .Newline → s.lx.col = 0
  cmt : s.tok.kind = .Comment → ∃ c, PeekIs buf s.lx c ∧ EolChar c

/-- progress measure: bytes behind the cursor, plus one while the look-ahead token is not EndOfFile -/
def mu (buf : Bytes) (s : PSt) : Nat := buf.length - s.lx.pos + (if s.tok.kind = .EndOfFile then 0 else 1)

/-- the look-ahead token is EndOfFile, a Newline, or the first token of a line (column 0) -/
def LS (s : PSt) : Prop := s.tok.kind = .EndOfFile ∨ s.tok.kind = .Newline ∨ s.tok.col = 0

/-- the lexer calls made between `s` and `s'` all started at an in-bounds cursor -/
def CallsOK (buf : Bytes) (s s' : PSt) : Prop := ∃ cs, s'.calls = cs ++ s.calls ∧ ∀ c ∈ cs, c.2 ≤ buf.length

structure Step (buf : Bytes) (s s' : PSt) : Prop where
  inv : Inv buf s'
  mu_le : mu buf s' ≤ mu buf s
  calls : CallsOK buf s s'

theorem mu_le_size (buf : Bytes) (s : PSt) : mu buf s < fuel buf := by
  unfold mu fuel; split <;> omega

theorem CallsOK.refl (buf : Bytes) (s : PSt) : CallsOK buf s s := ⟨[], rfl, fun _ h => by cases h⟩

theorem CallsOK.trans {buf : Bytes} {a b c : PSt} (h1 : CallsOK buf a b) (h2 : CallsOK buf b c) : CallsOK buf a c := by
  obtain ⟨c1, e1, p1⟩ := h1
  obtain ⟨c2, e2, p2⟩ := h2
  refine ⟨c2 ++ c1, by rw [e2, e1, List.append_assoc], ?_⟩
  intro x hx
  rcases List.mem_append.1 hx with h | h
  · exact p2 x h
  · exact p1 x h

theorem Step.refl {buf : Bytes} {s : PSt} (hi : Inv buf s) : Step buf s s := ⟨hi, Nat.le_refl _, CallsOK.refl buf s⟩

theorem Step.trans {buf : Bytes} {a b c : PSt} (h1 : Step buf a b) (h2 : Step buf b c) : Step buf a c :=
  ⟨h2.inv, Nat.le_trans h2.mu_le h1.mu_le, h1.calls.trans h2.calls⟩

/-- `setMode` / `emit` / `error` do not touch the lexer cursor, the look-ahead token or the call log -/
def Same (s t : PSt) : Prop := t.lx = s.lx ∧ t.tok = s.tok ∧ t.calls = s.calls

theorem Same.inv {buf : Bytes} {s t : PSt} (h : Same s t) (hi : Inv buf s) : Inv buf t := by
  obtain ⟨h1, h2, _⟩ := h
  exact ⟨by rw [h1]; exact hi.pos_le, by rw [h1, h2]; exact hi.eof, by rw [h1, h2]; exact hi.nl, by rw [h1, h2]; exact hi.cmt⟩

theorem Same.mu {buf : Bytes} {s t : PSt} (h : Same s t) : mu buf t = mu buf s := by
  obtain ⟨h1, h2, _⟩ := h
  simp only [NinjaParser.mu, h1, h2]

theorem Same.step {buf : Bytes} {s t : PSt} (h : Same s t) (hi : Inv buf s) : Step buf s t :=
  ⟨h.inv hi, Nat.le_of_eq h.mu, ⟨[], by simp [h.2.2], fun _ hx => by cases hx⟩⟩

/-- a step that starts from a state differing from `s` only in mode / callbacks is a step from `s` -/
theorem Step.from_same {buf : Bytes} {s t u : PSt} (h : Same s t) (hs : Step buf t u) : Step buf s u := by
  refine ⟨hs.inv, by rw [← h.mu]; exact hs.mu_le, ?_⟩
  obtain ⟨cs, e, p⟩ := hs.calls
  exact ⟨cs, by rw [e, h.2.2], p⟩

theorem same_setMode (s : PSt) (m : LexMode) : Same s (s.setMode m) := ⟨rfl, rfl, rfl⟩
theorem same_emit (s : PSt) (e : Ev) : Same s (s.emit e) := ⟨rfl, rfl, rfl⟩
theorem same_err (s : PSt) (m : Msg) : Same s (s.err m) := ⟨rfl, rfl, rfl⟩
theorem Same.trans {a b c : PSt} (h1 : Same a b) (h2 : Same b c) : Same a c :=
  ⟨h2.1.trans h1.1, h2.2.1.trans h1.2.1, h2.2.2.trans h1.2.2⟩

/-! ### `lexer.lex(tok)` -/

structure LexTokPost (buf : Bytes) (s s' : PSt) : Prop where
  step : Step buf s s'
  strict : s.tok.kind ≠ .EndOfFile → mu buf s' < mu buf s
  mode : s'.mode = s.mode
  evs : s'.evs = s.evs
  col0 : s.lx.col = 0 → s'.tok.col = 0
  afterCmt : s.tok.kind = .Comment → s'.tok.kind = .Newline ∨ s'.tok.kind = .EndOfFile
  eofStays : s.tok.kind = .EndOfFile → s'.tok.kind = .EndOfFile

theorem lexTok_sat {cfg : Cfg} (ok : CfgOK cfg) (buf : Bytes) (s : PSt) (hi : Inv buf s) :
    (lexTok cfg buf s).sat (LexTokPost buf s) := by
  unfold lexTok
  have h3 : (lex cfg buf s.mode s.lx).sat (fun r => s.tok.kind = .Comment → r.1.kind = .Newline ∨ r.1.kind = .EndOfFile) := by
    by_cases hc : s.tok.kind = .Comment
    · obtain ⟨c, hpk, he⟩ := hi.cmt hc
      exact sat_mono (lex_at_eol ok buf s.mode s.lx hi.pos_le c hpk he) (fun r hr _ => hr)
    · exact sat_mono (lex_sat ok buf s.mode s.lx hi.pos_le) (fun r _ h => absurd h hc)
  apply sat_bind (sat_and (sat_and (lex_sat ok buf s.mode s.lx hi.pos_le) (lex_sat2 ok buf s.mode s.lx hi.pos_le)) h3)
  intro r hr
  obtain ⟨⟨⟨hge, hp⟩, hp2⟩, hcm⟩ := hr
  have hend := hp.end_eq
  have hle := hp.end_le
  have heof := hp.eof
  have hprog := hp.progress
  have hpos := hi.pos_le
  have hseof := hi.eof
  simp only [Res.pure_eq_ok, Res.sat_ok]
  have hstays : s.tok.kind = .EndOfFile → r.1.kind = .EndOfFile := by
    intro h
    have := hseof h
    by_cases hk : r.1.kind = .EndOfFile
    · exact hk
    · have := hprog hk; omega
  refine ⟨⟨⟨hle, ?_, hp2.nl_col, hp2.comment⟩, ?_, ⟨[(s.mode, s.lx.pos)], rfl, ?_⟩⟩, ?_, rfl, rfl, hp2.col0, hcm, hstays⟩
  · intro h; have := heof h; simp only at this ⊢; omega
  · simp only [mu]
    by_cases hk : r.1.kind = .EndOfFile
    · have := heof hk
      rw [if_pos hk]
      split <;> omega
    · have := hprog hk
      rw [if_neg hk]
      by_cases hs : s.tok.kind = .EndOfFile
      · exact absurd (hstays hs) hk
      · rw [if_neg hs]; omega
  · intro c hc
    simp only [List.mem_singleton] at hc
    rw [hc]; exact hpos
  · intro hs
    simp only [mu]
    rw [if_neg hs]
    by_cases hk : r.1.kind = .EndOfFile
    · have := heof hk
      rw [if_pos hk]; omega
    · have := hprog hk
      rw [if_neg hk]; omega

/-! ### `getNextNonCommentToken` / `consumeToken` -/

structure ConsPost (buf : Bytes) (s s' : PSt) : Prop where
  step : Step buf s s'
  strict : s.tok.kind ≠ .EndOfFile → mu buf s' < mu buf s
  mode : s'.mode = s.mode
  evs : s'.evs = s.evs
  ls : (s.lx.col = 0 ∨ s.tok.kind = .Comment) → LS s'
  eofStays : s.tok.kind = .EndOfFile → s'.tok.kind = .EndOfFile

theorem nextNonComment_sat {cfg : Cfg} (ok : CfgOK cfg) (buf : Bytes) :
    ∀ f s, Inv buf s → mu buf s < f → (nextNonComment cfg buf f s).sat (ConsPost buf s) := by
  intro f
  induction f with
  | zero => intro s _ h; omega
  | succ n ih =>
    intro s hi hf
    unfold nextNonComment
    apply sat_bind (lexTok_sat ok buf s hi)
    intro s1 h1
    split
    · rename_i hc
      have hne : s.tok.kind ≠ .EndOfFile := by
        intro h
        have := h1.eofStays h
        rw [this] at hc; cases hc
      have hlt := h1.strict hne
      apply sat_mono (ih s1 h1.step.inv (by omega))
      intro s2 h2
      refine ⟨h1.step.trans h2.step, fun _ => Nat.lt_of_le_of_lt h2.step.mu_le hlt, h2.mode.trans h1.mode,
        h2.evs.trans h1.evs, fun _ => h2.ls (Or.inr hc), fun h => absurd h hne⟩
    · rename_i hc
      refine ⟨h1.step, h1.strict, h1.mode, h1.evs, ?_, h1.eofStays⟩
      intro h
      rcases h with h | h
      · exact Or.inr (Or.inr (h1.col0 h))
      · rcases h1.afterCmt h with h' | h'
        · exact Or.inr (Or.inl h')
        · exact Or.inl h'

theorem consume_sat {cfg : Cfg} (ok : CfgOK cfg) (buf : Bytes) (s : PSt) (hi : Inv buf s) :
    (consume cfg buf s).sat (ConsPost buf s) :=
  nextNonComment_sat ok buf _ s hi (mu_le_size buf s)

theorem ConsPost.ls_nl {buf : Bytes} {s s' : PSt} (h : ConsPost buf s s') (hi : Inv buf s) (hn : s.tok.kind = .Newline) : LS s' :=
  h.ls (Or.inl (hi.nl hn))

/-! ### `skipPastEOL` -/

theorem skipLoop_sat {cfg : Cfg} (ok : CfgOK cfg) (buf : Bytes) :
    ∀ f s, Inv buf s → mu buf s < f → (skipLoop cfg buf f s).sat (fun s' =>
      Step buf s s' ∧ (s' = s ∨ mu buf s' < mu buf s) ∧ s'.mode = s.mode ∧ s'.evs = s.evs ∧
      (s'.tok.kind = .Newline ∨ s'.tok.kind = .EndOfFile)) := by
  intro f
  induction f with
  | zero => intro s _ h; omega
  | succ n ih =>
    intro s hi hf
    unfold skipLoop
    split
    · rename_i hc
      apply sat_bind (lexTok_sat ok buf s hi)
      intro s1 h1
      have hlt := h1.strict hc.2
      apply sat_mono (ih s1 h1.step.inv (by omega))
      intro s2 h2
      obtain ⟨a, b, c, d, e⟩ := h2
      refine ⟨h1.step.trans a, Or.inr (Nat.lt_of_le_of_lt a.mu_le hlt), c.trans h1.mode, d.trans h1.evs, e⟩
    · rename_i hc
      refine ⟨Step.refl hi, Or.inl rfl, rfl, rfl, ?_⟩
      by_cases h1 : s.tok.kind = .Newline
      · exact Or.inl h1
      · by_cases h2 : s.tok.kind = .EndOfFile
        · exact Or.inr h2
        · exact absurd ⟨h1, h2⟩ hc

/-- what every error-recovery path guarantees -/
structure SkipPost (buf : Bytes) (s s' : PSt) : Prop where
  step : Step buf s s'
  strict : s.tok.kind ≠ .EndOfFile → mu buf s' < mu buf s
  mode : s'.mode = s.mode
  evs : s'.evs = s.evs
  ls : LS s'
  eofStays : s.tok.kind = .EndOfFile → s'.tok.kind = .EndOfFile

theorem skipPastEOL_sat {cfg : Cfg} (ok : CfgOK cfg) (buf : Bytes) (s : PSt) (hi : Inv buf s) :
    (skipPastEOL cfg buf s).sat (SkipPost buf s) := by
  unfold skipPastEOL
  apply sat_bind (skipLoop_sat ok buf _ s hi (mu_le_size buf s))
  intro s1 h1
  obtain ⟨a, b, c, d, e⟩ := h1
  apply sat_mono (consume_sat ok buf s1 a.inv)
  intro s2 h2
  refine ⟨a.trans h2.step, ?_, h2.mode.trans c, h2.evs.trans d, ?_, ?_⟩
  · intro hne
    rcases b with b | b
    · subst b
      exact h2.strict hne
    · exact Nat.lt_of_le_of_lt h2.step.mu_le b
  · rcases e with e | e
    · exact h2.ls_nl a.inv e
    · exact Or.inl (h2.eofStays e)
  · intro he
    rcases b with b | b
    · subst b
      exact h2.eofStays he
    · have := hi.eof he
      simp only [mu, if_pos he] at b
      omega

/-! ### string lists -/

theorem stringsLoop_sat {cfg : Cfg} (ok : CfgOK cfg) (buf : Bytes) :
    ∀ f s acc, Inv buf s → mu buf s < f → (stringsLoop cfg buf f s acc).sat (fun r =>
      Step buf s r.1 ∧ r.1.mode = s.mode ∧ r.1.evs = s.evs ∧ r.1.tok.kind ≠ .String ∧
      (s.tok.kind = .String → mu buf r.1 < mu buf s)) := by
  intro f
  induction f with
  | zero => intro s _ _ h; omega
  | succ n ih =>
    intro s acc hi hf
    unfold stringsLoop
    split
    · rename_i hc
      have hne : s.tok.kind ≠ .EndOfFile := by rw [hc]; decide
      apply sat_bind (consume_sat ok buf s hi)
      intro s1 h1
      have hlt := h1.strict hne
      apply sat_mono (ih s1 (acc ++ [s.tok]) h1.step.inv (by omega))
      intro r hr
      obtain ⟨a, b, c, d, _⟩ := hr
      exact ⟨h1.step.trans a, b.trans h1.mode, c.trans h1.evs, d, fun _ => Nat.lt_of_le_of_lt a.mu_le hlt⟩
    · rename_i hc
      exact ⟨Step.refl hi, rfl, rfl, hc, fun h => absurd h hc⟩

theorem optStrings_sat {cfg : Cfg} (ok : CfgOK cfg) (buf : Bytes) (k : Kind) (s : PSt) (acc : List Token) (hi : Inv buf s) :
    (optStrings cfg buf k s acc).sat (fun r => Step buf s r.1 ∧ r.1.mode = s.mode ∧ r.1.evs = s.evs) := by
  unfold optStrings
  split
  · apply sat_bind (consume_sat ok buf s hi)
    intro s1 h1
    apply sat_mono (stringsLoop_sat ok buf _ s1 acc h1.step.inv (mu_le_size buf s1))
    intro r hr
    exact ⟨h1.step.trans hr.1, hr.2.1.trans h1.mode, hr.2.2.1.trans h1.evs⟩
  · exact ⟨Step.refl hi, rfl, rfl⟩


/-! ### the callback discipline as an automaton (state = the declaration that is open) -/

def wbStep (st : Option DeclKind) (e : Ev) : Option (Option DeclKind) :=
  match st, e with
  | none, .error _ _ => some none
  | none, .binding _ _ => some none
  | none, .default _ => some none
  | none, .include _ _ => some none
  | none, .beginBuild _ _ _ _ _ => some (some .build)
  | none, .beginPool _ => some (some .pool)
  | none, .beginRule _ => some (some .rule)
  | some k, .error _ _ => some (some k)
  | some k, .declBinding k' _ _ => if k = k' then some (some k) else none
  | some k, .endDecl k' _ => if k = k' then some none else none
  | _, _ => none

/-- run the automaton over callbacks in the order they were made -/
def wb : Option DeclKind → List Ev → Option (Option DeclKind)
  | st, [] => some st
  | st, e :: r =>
    match wbStep st e with
    | some st' => wb st' r
    | none => none

theorem wb_append (a : Option DeclKind) (x y : List Ev) : wb a (x ++ y) = (wb a x).bind (fun b => wb b y) := by
  induction x generalizing a with
  | nil => rfl
  | cons e r ih =>
    simp only [List.cons_append, wb]
    cases wbStep a e with
    | none => rfl
    | some b => exact ih b

/-- `l` (most recent first) takes the automaton from `a` to `b` -/
def Seg (a b : Option DeclKind) (l : List Ev) : Prop := wb a l.reverse = some b

theorem Seg.nil (a : Option DeclKind) : Seg a a [] := rfl

theorem Seg.trans {a b c : Option DeclKind} {l1 l2 : List Ev} (h1 : Seg a b l1) (h2 : Seg b c l2) : Seg a c (l2 ++ l1) := by
  unfold Seg at *
  rw [List.reverse_append, wb_append, h1]
  exact h2

theorem Seg.single {a b : Option DeclKind} {e : Ev} (h : wbStep a e = some b) : Seg a b [e] := by
  unfold Seg
  simp [wb, h]

theorem Seg.cons {a b c : Option DeclKind} {l : List Ev} {e : Ev} (h1 : Seg a b l) (h : wbStep b e = some c) : Seg a c (e :: l) :=
  Seg.trans h1 (Seg.single h)

/-! ### error recovery: `error(m); [setMode(None);] skipPastEOL()` -/

structure ErrPost (buf : Bytes) (m : Msg) (t s' : PSt) : Prop where
  step : Step buf t s'
  strict : t.tok.kind ≠ .EndOfFile → mu buf s' < mu buf t
  evs : s'.evs = .error m t.tok :: t.evs
  ls : LS s'

theorem errSkip_sat {cfg : Cfg} (ok : CfgOK cfg) (buf : Bytes) (t : PSt) (m : Msg) (hi : Inv buf t) :
    (skipPastEOL cfg buf (t.err m)).sat (fun s' => ErrPost buf m t s' ∧ s'.mode = t.mode) := by
  apply sat_mono (skipPastEOL_sat ok buf (t.err m) ((same_err t m).inv hi))
  intro s' h
  exact ⟨⟨Step.from_same (same_err t m) h.step, h.strict, h.evs, h.ls⟩, h.mode⟩

theorem errSkipNone_sat {cfg : Cfg} (ok : CfgOK cfg) (buf : Bytes) (t : PSt) (m : Msg) (hi : Inv buf t) :
    (skipPastEOL cfg buf ((t.err m).setMode .none)).sat (fun s' => ErrPost buf m t s' ∧ s'.mode = .none) := by
  have hs : Same t ((t.err m).setMode .none) := (same_err t m).trans (same_setMode _ _)
  apply sat_mono (skipPastEOL_sat ok buf _ (hs.inv hi))
  intro s' h
  exact ⟨⟨Step.from_same hs h.step, h.strict, h.evs, h.ls⟩, h.mode⟩

/-! ### `parseBindingInternal` -/

structure BindPost (buf : Bytes) (s : PSt) (r : Option (Token × Token) × PSt) : Prop where
  step : Step buf s r.2
  strict : s.tok.kind ≠ .EndOfFile → mu buf r.2 < mu buf s
  mode : r.2.mode = .none
  ls : LS r.2
  evs : match r.1 with
    | some _ => r.2.evs = s.evs
    | none => ∃ m t, r.2.evs = .error m t :: s.evs

theorem parseBindingInternal_sat {cfg : Cfg} (ok : CfgOK cfg) (buf : Bytes) (s : PSt) (hi : Inv buf s) :
    (parseBindingInternal cfg buf s).sat (BindPost buf s) := by
  unfold parseBindingInternal
  split
  · apply sat_bind (errSkipNone_sat ok buf s .expectedVariableName hi)
    intro s1 h1
    exact ⟨h1.1.step, h1.1.strict, h1.2, h1.1.ls, ⟨_, _, h1.1.evs⟩⟩
  · rename_i hid
    have hne : s.tok.kind ≠ .EndOfFile := by
      intro h; apply hid; rw [h]; decide
    apply sat_bind (consume_sat ok buf s hi)
    intro s1 h1
    have hlt := h1.strict hne
    split
    · apply sat_bind (errSkipNone_sat ok buf s1 .expectedEquals h1.step.inv)
      intro s2 h2
      exact ⟨h1.step.trans h2.1.step, fun _ => Nat.lt_of_le_of_lt h2.1.step.mu_le hlt, h2.2, h2.1.ls,
        ⟨_, _, by rw [h2.1.evs, h1.evs]⟩⟩
    · have hs1 := same_setMode s1 .variableString
      apply sat_bind (consume_sat ok buf (s1.setMode .variableString) (hs1.inv h1.step.inv))
      intro s2 h2
      have st2 : Step buf s s2 := h1.step.trans (Step.from_same hs1 h2.step)
      have hs3 := same_setMode s2 .none
      have st3 : Step buf s (s2.setMode .none) := st2.trans (hs3.step st2.inv)
      have ev3 : (s2.setMode .none).evs = s.evs := by
        show s2.evs = s.evs
        rw [h2.evs]; exact h1.evs
      have hlt3 : mu buf (s2.setMode .none) < mu buf s := Nat.lt_of_le_of_lt (Step.from_same hs1 h2.step).mu_le hlt |> fun h => by
        rw [hs3.mu]; exact h
      simp only []
      split
      · rename_i hnl
        apply sat_bind (consume_sat ok buf (s2.setMode .none) st3.inv)
        intro s4 h4
        exact ⟨st3.trans h4.step, fun _ => Nat.lt_of_le_of_lt h4.step.mu_le hlt3, h4.mode, h4.ls_nl st3.inv hnl,
          by show s4.evs = s.evs; rw [h4.evs]; exact ev3⟩
      · split
        · apply sat_bind (errSkip_sat ok buf (s2.setMode .none) .expectedVariableValue st3.inv)
          intro s4 h4
          exact ⟨st3.trans h4.1.step, fun _ => Nat.lt_of_le_of_lt h4.1.step.mu_le hlt3, h4.2, h4.1.ls,
            ⟨_, _, by rw [h4.1.evs, ev3]⟩⟩
        · apply sat_bind (consume_sat ok buf (s2.setMode .none) st3.inv)
          intro s4 h4
          have st4 : Step buf s s4 := st3.trans h4.step
          have hlt4 : mu buf s4 < mu buf s := Nat.lt_of_le_of_lt h4.step.mu_le hlt3
          have ev4 : s4.evs = s.evs := by rw [h4.evs]; exact ev3
          split
          · rename_i hnl
            apply sat_bind (consume_sat ok buf s4 st4.inv)
            intro s5 h5
            exact ⟨st4.trans h5.step, fun _ => Nat.lt_of_le_of_lt h5.step.mu_le hlt4, h5.mode.trans h4.mode,
              h5.ls_nl st4.inv hnl, by show s5.evs = s.evs; rw [h5.evs]; exact ev4⟩
          · apply sat_bind (errSkip_sat ok buf s4 .expectedNewline st4.inv)
            intro s5 h5
            exact ⟨st4.trans h5.1.step, fun _ => Nat.lt_of_le_of_lt h5.1.step.mu_le hlt4, h5.2.trans h4.mode, h5.1.ls,
              ⟨_, _, by rw [h5.1.evs, ev4]⟩⟩

/-! ### declarations -/

structure DeclPost (buf : Bytes) (s s' : PSt) : Prop where
  step : Step buf s s'
  strict : s.tok.kind ≠ .EndOfFile → mu buf s' < mu buf s
  mode : s'.mode = .none
  ls : LS s'
  evs : ∃ l, s'.evs = l ++ s.evs ∧ Seg none none l

theorem seg_err (a : Option DeclKind) (m : Msg) (t : Token) : Seg a a [.error m t] := by
  cases a <;> exact Seg.single rfl

theorem parseBindingDecl_sat {cfg : Cfg} (ok : CfgOK cfg) (buf : Bytes) (s : PSt) (hi : Inv buf s) :
    (parseBindingDecl cfg buf s).sat (DeclPost buf s) := by
  unfold parseBindingDecl
  apply sat_bind (parseBindingInternal_sat ok buf s hi)
  intro r hr
  obtain ⟨a, b, c, d, e⟩ := hr
  split
  · rename_i n v heq
    rw [heq] at e
    have hs := same_emit r.2 (.binding n v)
    exact ⟨a.trans (hs.step a.inv), fun h => by rw [hs.mu]; exact b h, c, d,
      ⟨[.binding n v], by show _ :: r.2.evs = _; rw [e]; rfl, Seg.single rfl⟩⟩
  · rename_i heq
    rw [heq] at e
    obtain ⟨m, t, e⟩ := e
    exact ⟨a, b, c, d, ⟨[.error m t], by rw [e]; rfl, seg_err none m t⟩⟩

theorem parseDefaultDecl_sat {cfg : Cfg} (ok : CfgOK cfg) (buf : Bytes) (s : PSt) (hi : Inv buf s) (hne : s.tok.kind ≠ .EndOfFile) :
    (parseDefaultDecl cfg buf s).sat (DeclPost buf s) := by
  unfold parseDefaultDecl
  have hs0 := same_setMode s .pathString
  apply sat_bind (consume_sat ok buf (s.setMode .pathString) (hs0.inv hi))
  intro s1 h1
  have st1 : Step buf s s1 := Step.from_same hs0 h1.step
  have hlt1 : mu buf s1 < mu buf s := h1.strict hne
  have ev1 : s1.evs = s.evs := h1.evs
  apply sat_bind (stringsLoop_sat ok buf _ s1 [] st1.inv (mu_le_size buf s1))
  intro r hr
  obtain ⟨a, _, c, _, _⟩ := hr
  have hs2 := same_setMode r.1 .none
  have st2 : Step buf s (r.1.setMode .none) := (st1.trans a).trans (hs2.step a.inv)
  have hlt2 : mu buf (r.1.setMode .none) < mu buf s := by rw [hs2.mu]; exact Nat.lt_of_le_of_lt a.mu_le hlt1
  have ev2 : (r.1.setMode .none).evs = s.evs := by show r.1.evs = s.evs; rw [c]; exact ev1
  simp only []
  split
  · apply sat_mono (errSkip_sat ok buf (r.1.setMode .none) .expectedTargetPath st2.inv)
    intro s3 h3
    exact ⟨st2.trans h3.1.step, fun _ => Nat.lt_of_le_of_lt h3.1.step.mu_le hlt2, h3.2, h3.1.ls,
      ⟨[_], by rw [h3.1.evs, ev2]; rfl, seg_err none _ _⟩⟩
  · split
    · rename_i hnl
      apply sat_bind (consume_sat ok buf (r.1.setMode .none) st2.inv)
      intro s3 h3
      have hs3 := same_emit s3 (.default r.2)
      exact ⟨(st2.trans h3.step).trans (hs3.step h3.step.inv), fun _ => by rw [hs3.mu]; exact Nat.lt_of_le_of_lt h3.step.mu_le hlt2,
        h3.mode, h3.ls_nl st2.inv hnl,
        ⟨[.default r.2], by show _ :: s3.evs = _; rw [h3.evs, ev2]; rfl, Seg.single rfl⟩⟩
    · apply sat_mono (errSkip_sat ok buf (r.1.setMode .none) .expectedNewline st2.inv)
      intro s3 h3
      exact ⟨st2.trans h3.1.step, fun _ => Nat.lt_of_le_of_lt h3.1.step.mu_le hlt2, h3.2, h3.1.ls,
        ⟨[_], by rw [h3.1.evs, ev2]; rfl, seg_err none _ _⟩⟩

theorem parseIncludeDecl_sat {cfg : Cfg} (ok : CfgOK cfg) (buf : Bytes) (s : PSt) (hi : Inv buf s) (hne : s.tok.kind ≠ .EndOfFile) :
    (parseIncludeDecl cfg buf s).sat (DeclPost buf s) := by
  unfold parseIncludeDecl
  have hs0 := same_setMode s .pathString
  simp only []
  apply sat_bind (consume_sat ok buf (s.setMode .pathString) (hs0.inv hi))
  intro s1 h1
  have hs2 := same_setMode s1 .none
  have st2 : Step buf s (s1.setMode .none) := (Step.from_same hs0 h1.step).trans (hs2.step h1.step.inv)
  have hlt2 : mu buf (s1.setMode .none) < mu buf s := by rw [hs2.mu]; exact h1.strict hne
  have ev2 : (s1.setMode .none).evs = s.evs := h1.evs
  split
  · apply sat_mono (errSkip_sat ok buf (s1.setMode .none) .expectedPathString st2.inv)
    intro s3 h3
    exact ⟨st2.trans h3.1.step, fun _ => Nat.lt_of_le_of_lt h3.1.step.mu_le hlt2, h3.2, h3.1.ls,
      ⟨[_], by rw [h3.1.evs, ev2]; rfl, seg_err none _ _⟩⟩
  · apply sat_bind (consume_sat ok buf (s1.setMode .none) st2.inv)
    intro s3 h3
    have st3 : Step buf s s3 := st2.trans h3.step
    have hlt3 : mu buf s3 < mu buf s := Nat.lt_of_le_of_lt h3.step.mu_le hlt2
    have ev3 : s3.evs = s.evs := by rw [h3.evs]; exact ev2
    split
    · rename_i hnl
      apply sat_bind (consume_sat ok buf s3 st3.inv)
      intro s4 h4
      have hs4 := same_emit s4 (.include (decide (s.tok.kind = .KWInclude)) (s1.setMode .none).tok)
      exact ⟨(st3.trans h4.step).trans (hs4.step h4.step.inv), fun _ => by rw [hs4.mu]; exact Nat.lt_of_le_of_lt h4.step.mu_le hlt3,
        h4.mode.trans h3.mode, h4.ls_nl st3.inv hnl,
        ⟨[_], by show _ :: s4.evs = _; rw [h4.evs, ev3]; rfl, Seg.single rfl⟩⟩
    · apply sat_mono (errSkip_sat ok buf s3 .expectedNewline st3.inv)
      intro s4 h4
      exact ⟨st3.trans h4.1.step, fun _ => Nat.lt_of_le_of_lt h4.1.step.mu_le hlt3, h4.2.trans h3.mode, h4.1.ls,
        ⟨[_], by rw [h4.1.evs, ev3]; rfl, seg_err none _ _⟩⟩

/-! ### the specifiers of parameterized declarations -/

structure SpecPost (buf : Bytes) (k : DeclKind) (s : PSt) (r : Bool × PSt) : Prop where
  step : Step buf s r.2
  strict : mu buf r.2 < mu buf s
  mode : r.2.mode = .none
  succ : r.1 = true → LS r.2 ∧ ∃ e, r.2.evs = e :: s.evs ∧ wbStep none e = some (some k)
  fail : r.1 = false → ∃ m t, r.2.evs = .error m t :: s.evs

theorem parseNameSpecifier_sat {cfg : Cfg} (ok : CfgOK cfg) (buf : Bytes) (k : DeclKind) (m : Msg) (mk : Token → Ev)
    (hmk : ∀ t, wbStep none (mk t) = some (some k)) (s : PSt) (hi : Inv buf s) (hne : s.tok.kind ≠ .EndOfFile) :
    (parseNameSpecifier cfg buf m mk s).sat (SpecPost buf k s) := by
  unfold parseNameSpecifier
  have hs0 := same_setMode s .identifierSpecific
  apply sat_bind (consume_sat ok buf (s.setMode .identifierSpecific) (hs0.inv hi))
  intro s1 h1
  have hs2 := same_setMode s1 .none
  have st2 : Step buf s (s1.setMode .none) := (Step.from_same hs0 h1.step).trans (hs2.step h1.step.inv)
  have hlt2 : mu buf (s1.setMode .none) < mu buf s := by rw [hs2.mu]; exact h1.strict hne
  have ev2 : (s1.setMode .none).evs = s.evs := h1.evs
  simp only []
  split
  · have hs3 := same_err (s1.setMode .none) m
    exact ⟨st2.trans (hs3.step st2.inv), by rw [hs3.mu]; exact hlt2, rfl, (fun h => by cases h),
      fun _ => ⟨_, _, by show _ :: (s1.setMode .none).evs = _; rw [ev2]⟩⟩
  · apply sat_bind (consume_sat ok buf (s1.setMode .none) st2.inv)
    intro s3 h3
    have st3 : Step buf s s3 := st2.trans h3.step
    have hlt3 : mu buf s3 < mu buf s := Nat.lt_of_le_of_lt h3.step.mu_le hlt2
    have ev3 : s3.evs = s.evs := by rw [h3.evs]; exact ev2
    split
    · rename_i hnl
      apply sat_bind (consume_sat ok buf s3 st3.inv)
      intro s4 h4
      have hs4 := same_emit s4 (mk (s1.setMode .none).tok)
      exact ⟨(st3.trans h4.step).trans (hs4.step h4.step.inv), by rw [hs4.mu]; exact Nat.lt_of_le_of_lt h4.step.mu_le hlt3,
        h4.mode.trans h3.mode, fun _ => ⟨h4.ls_nl st3.inv hnl, _, by show _ :: s4.evs = _; rw [h4.evs, ev3], hmk _⟩,
        fun h => by cases h⟩
    · have hs4 := same_err s3 .expectedNewline
      exact ⟨st3.trans (hs4.step st3.inv), by rw [hs4.mu]; exact hlt3, h3.mode, (fun h => by cases h),
        fun _ => ⟨_, _, by show _ :: s3.evs = _; rw [ev3]⟩⟩

theorem parseBuildSpecifier_sat {cfg : Cfg} (ok : CfgOK cfg) (buf : Bytes) (s : PSt) (hi : Inv buf s) (hne : s.tok.kind ≠ .EndOfFile) :
    (parseBuildSpecifier cfg buf s).sat (SpecPost buf .build s) := by
  unfold parseBuildSpecifier
  have hs0 := same_setMode s .pathString
  apply sat_bind (consume_sat ok buf (s.setMode .pathString) (hs0.inv hi))
  intro s1 h1
  have st1 : Step buf s s1 := Step.from_same hs0 h1.step
  have hlt1 : mu buf s1 < mu buf s := h1.strict hne
  have ev1 : s1.evs = s.evs := h1.evs
  -- a failing exit: `error(m); setMode(None); return false` from a state `t` reached by steps from `s`
  have failNone : ∀ (t : PSt) (m : Msg), Step buf s t → mu buf t < mu buf s → t.evs = s.evs →
      SpecPost buf .build s (false, (t.err m).setMode .none) := by
    intro t m st hlt ev
    have hs := (same_err t m).trans (same_setMode (t.err m) .none)
    exact ⟨st.trans (hs.step st.inv), by rw [hs.mu]; exact hlt, rfl, (fun h => by cases h),
      fun _ => ⟨_, _, by show _ :: t.evs = _; rw [ev]⟩⟩
  split
  · exact failNone s1 _ st1 hlt1 ev1
  · apply sat_bind (stringsLoop_sat ok buf _ s1 [] st1.inv (mu_le_size buf s1))
    intro r2 hr2
    obtain ⟨a2, _, c2, _, _⟩ := hr2
    have st2 : Step buf s r2.1 := st1.trans a2
    have hlt2 : mu buf r2.1 < mu buf s := Nat.lt_of_le_of_lt a2.mu_le hlt1
    have ev2 : r2.1.evs = s.evs := by rw [c2]; exact ev1
    simp only []
    split
    · exact failNone r2.1 _ st2 hlt2 ev2
    · have hs3 := same_setMode r2.1 .identifierSpecific
      apply sat_bind (consume_sat ok buf (r2.1.setMode .identifierSpecific) (hs3.inv st2.inv))
      intro s3 h3
      have hs4 := same_setMode s3 .pathString
      have st4 : Step buf s (s3.setMode .pathString) := (st2.trans (Step.from_same hs3 h3.step)).trans (hs4.step h3.step.inv)
      have hlt4 : mu buf (s3.setMode .pathString) < mu buf s := by
        rw [hs4.mu]; exact Nat.lt_of_le_of_lt (Step.from_same hs3 h3.step).mu_le hlt2
      have ev4 : (s3.setMode .pathString).evs = s.evs := by show s3.evs = s.evs; rw [h3.evs]; exact ev2
      split
      · exact failNone _ _ st4 hlt4 ev4
      · apply sat_bind (consume_sat ok buf (s3.setMode .pathString) st4.inv)
        intro s5 h5
        have st5 : Step buf s s5 := st4.trans h5.step
        have ev5 : s5.evs = s.evs := by rw [h5.evs]; exact ev4
        apply sat_bind (stringsLoop_sat ok buf _ s5 [] st5.inv (mu_le_size buf s5))
        intro r6 hr6
        obtain ⟨a6, _, c6, _, _⟩ := hr6
        apply sat_bind (optStrings_sat ok buf .Pipe r6.1 r6.2 a6.inv)
        intro r7 hr7
        obtain ⟨a7, _, c7⟩ := hr7
        apply sat_bind (optStrings_sat ok buf .PipePipe r7.1 r7.2 a7.inv)
        intro r8 hr8
        obtain ⟨a8, _, c8⟩ := hr8
        have hs9 := same_setMode r8.1 .none
        have st8 : Step buf s r8.1 := ((st5.trans a6).trans a7).trans a8
        have st9 : Step buf s (r8.1.setMode .none) := st8.trans (hs9.step a8.inv)
        have hlt9 : mu buf (r8.1.setMode .none) < mu buf s := by
          rw [hs9.mu]
          have := h5.step.mu_le
          have := a6.mu_le
          have := a7.mu_le
          have := a8.mu_le
          omega
        have ev9 : (r8.1.setMode .none).evs = s.evs := by show r8.1.evs = s.evs; rw [c8, c7, c6]; exact ev5
        split
        · rename_i hnl
          apply sat_bind (consume_sat ok buf (r8.1.setMode .none) st9.inv)
          intro s10 h10
          have hs11 := same_emit s10 (.beginBuild (s3.setMode .pathString).tok r2.2 r8.2 r6.2.length (r7.2.length - r6.2.length))
          exact ⟨(st9.trans h10.step).trans (hs11.step h10.step.inv), by rw [hs11.mu]; exact Nat.lt_of_le_of_lt h10.step.mu_le hlt9,
            h10.mode, fun _ => ⟨h10.ls_nl st9.inv hnl, _, by show _ :: s10.evs = _; rw [h10.evs, ev9], rfl⟩, fun h => by cases h⟩
        · have hs10 := same_err (r8.1.setMode .none) .expectedNewline
          exact ⟨st9.trans (hs10.step st9.inv), by rw [hs10.mu]; exact hlt9, rfl, (fun h => by cases h),
            fun _ => ⟨_, _, by show _ :: (r8.1.setMode .none).evs = _; rw [ev9]⟩⟩

/-! ### `do skipPastEOL while (Indentation)` and the indented bindings -/

theorem skipIndented_sat {cfg : Cfg} (ok : CfgOK cfg) (buf : Bytes) :
    ∀ f s, Inv buf s → mu buf s < f → (skipIndented cfg buf f s).sat (SkipPost buf s) := by
  intro f
  induction f with
  | zero => intro s _ h; omega
  | succ n ih =>
    intro s hi hf
    unfold skipIndented
    apply sat_bind (skipPastEOL_sat ok buf s hi)
    intro s1 h1
    split
    · rename_i hind
      have hne : s.tok.kind ≠ .EndOfFile := by
        intro h
        have := h1.eofStays h
        rw [this] at hind; cases hind
      have hlt := h1.strict hne
      apply sat_mono (ih s1 h1.step.inv (by omega))
      intro s2 h2
      exact ⟨h1.step.trans h2.step, fun _ => Nat.lt_of_le_of_lt h2.step.mu_le hlt, h2.mode.trans h1.mode, h2.evs.trans h1.evs,
        h2.ls, fun h => absurd h hne⟩
    · exact h1

theorem bindingsLoop_sat {cfg : Cfg} (ok : CfgOK cfg) (buf : Bytes) (k : DeclKind) :
    ∀ f s, Inv buf s → mu buf s < f → s.mode = .none → LS s → (bindingsLoop cfg buf k f s).sat (fun s' =>
      Step buf s s' ∧ s'.mode = .none ∧ LS s' ∧ ∃ l, s'.evs = l ++ s.evs ∧ Seg (some k) (some k) l) := by
  intro f
  induction f with
  | zero => intro s _ h; omega
  | succ n ih =>
    intro s hi hf hm hls
    unfold bindingsLoop
    split
    · rename_i hind
      have hne : s.tok.kind ≠ .EndOfFile := by rw [hind]; decide
      have hs0 := same_setMode s .identifierSpecific
      apply sat_bind (consume_sat ok buf (s.setMode .identifierSpecific) (hs0.inv hi))
      intro s1 h1
      have st1 : Step buf s s1 := Step.from_same hs0 h1.step
      have hlt1 : mu buf s1 < mu buf s := h1.strict hne
      have ev1 : s1.evs = s.evs := h1.evs
      split
      · rename_i hnl
        have hs2 := same_setMode s1 .none
        apply sat_bind (consume_sat ok buf (s1.setMode .none) (hs2.inv st1.inv))
        intro s2 h2
        have st2 : Step buf s s2 := st1.trans (Step.from_same hs2 h2.step)
        have hlt2 : mu buf s2 < mu buf s := Nat.lt_of_le_of_lt (Step.from_same hs2 h2.step).mu_le hlt1
        apply sat_mono (ih s2 st2.inv (by omega) h2.mode (h2.ls_nl (hs2.inv st1.inv) hnl))
        intro s3 h3
        obtain ⟨a, b, c, l, e, sg⟩ := h3
        exact ⟨st2.trans a, b, c, l, by rw [e, h2.evs]; show l ++ s1.evs = _; rw [ev1], sg⟩
      · apply sat_bind (parseBindingInternal_sat ok buf s1 st1.inv)
        intro r hr
        obtain ⟨a, _, c, d, e⟩ := hr
        have st2 : Step buf s r.2 := st1.trans a
        have hlt2 : mu buf r.2 < mu buf s := Nat.lt_of_le_of_lt a.mu_le hlt1
        split
        · rename_i nm v heq
          rw [heq] at e
          have hs3 := same_emit r.2 (.declBinding k nm v)
          apply sat_mono (ih (r.2.emit (.declBinding k nm v)) (hs3.inv st2.inv) (by rw [hs3.mu]; omega) c d)
          intro s3 h3
          obtain ⟨a3, b3, c3, l, e3, sg⟩ := h3
          refine ⟨(st2.trans (hs3.step st2.inv)).trans a3, b3, c3, l ++ [.declBinding k nm v], ?_, ?_⟩
          · rw [e3]; show l ++ (_ :: r.2.evs) = _; rw [e, ev1]; simp
          · exact Seg.trans (Seg.single (by simp [wbStep])) sg
        · rename_i heq
          rw [heq] at e
          obtain ⟨m, t, e⟩ := e
          apply sat_mono (ih r.2 st2.inv (by omega) c d)
          intro s3 h3
          obtain ⟨a3, b3, c3, l, e3, sg⟩ := h3
          refine ⟨st2.trans a3, b3, c3, l ++ [.error m t], ?_, ?_⟩
          · rw [e3, e, ev1]; simp
          · exact Seg.trans (seg_err _ m t) sg
    · exact ⟨Step.refl hi, hm, hls, [], rfl, Seg.nil _⟩

/-! ### `parseParameterizedDecl`, `parseDecl`, the top-level loop -/

theorem parseParameterizedDecl_sat {cfg : Cfg} (ok : CfgOK cfg) (buf : Bytes) (s : PSt) (hi : Inv buf s)
    (hne : s.tok.kind ≠ .EndOfFile) : (parseParameterizedDecl cfg buf s).sat (DeclPost buf s) := by
  unfold parseParameterizedDecl
  simp only []
  have hspec : (match declKindOf s.tok.kind with
      | .build => parseBuildSpecifier cfg buf s
      | .pool => parsePoolSpecifier cfg buf s
      | .rule => parseRuleSpecifier cfg buf s).sat (SpecPost buf (declKindOf s.tok.kind) s) := by
    split
    · rename_i h; rw [h]; exact parseBuildSpecifier_sat ok buf s hi hne
    · rename_i h; rw [h]; exact parseNameSpecifier_sat ok buf .pool _ _ (fun _ => rfl) s hi hne
    · rename_i h; rw [h]; exact parseNameSpecifier_sat ok buf .rule _ _ (fun _ => rfl) s hi hne
  apply sat_bind hspec
  intro r hr
  obtain ⟨a, b, c, d, e⟩ := hr
  split
  · rename_i ht
    obtain ⟨hls, e0, hev, hwb⟩ := d ht
    apply sat_bind (bindingsLoop_sat ok buf (declKindOf s.tok.kind) _ r.2 a.inv (mu_le_size buf r.2) c hls)
    intro s2 h2
    obtain ⟨a2, b2, c2, l, e2, sg⟩ := h2
    have hs3 := same_emit s2 (.endDecl (declKindOf s.tok.kind) s.tok)
    refine ⟨(a.trans a2).trans (hs3.step a2.inv), fun _ => ?_, b2, c2,
      .endDecl (declKindOf s.tok.kind) s.tok :: (l ++ [e0]), ?_, ?_⟩
    · rw [hs3.mu]; exact Nat.lt_of_le_of_lt a2.mu_le b
    · show _ :: s2.evs = _; rw [e2, hev]; simp
    · exact Seg.cons (Seg.trans (Seg.single hwb) sg) (by simp [wbStep])
  · rename_i hf
    have hf' : r.1 = false := by cases h : r.1 <;> simp_all
    obtain ⟨m, t, hev⟩ := e hf'
    apply sat_mono (skipIndented_sat ok buf _ r.2 a.inv (mu_le_size buf r.2))
    intro s2 h2
    exact ⟨a.trans h2.step, fun _ => Nat.lt_of_le_of_lt h2.step.mu_le b, h2.mode.trans c, h2.ls,
      [.error m t], by rw [h2.evs, hev]; rfl, seg_err none m t⟩

theorem parseDecl_sat {cfg : Cfg} (ok : CfgOK cfg) (buf : Bytes) (s : PSt) (hi : Inv buf s)
    (hne : s.tok.kind ≠ .EndOfFile) (hm : s.mode = .none) : (parseDecl cfg buf s).sat (DeclPost buf s) := by
  have hcons : s.tok.kind = .Newline → (consume cfg buf s).sat (DeclPost buf s) := by
    intro hnl
    apply sat_mono (consume_sat ok buf s hi)
    intro s1 h1
    exact ⟨h1.step, h1.strict, h1.mode.trans hm, h1.ls_nl hi hnl, [], by rw [h1.evs]; rfl, Seg.nil _⟩
  have hskip : (skipPastEOL cfg buf (s.err .unexpectedToken)).sat (DeclPost buf s) := by
    apply sat_mono (errSkip_sat ok buf s .unexpectedToken hi)
    intro s1 h1
    exact ⟨h1.1.step, h1.1.strict, h1.2.trans hm, h1.1.ls, [_], by rw [h1.1.evs]; rfl, seg_err none _ _⟩
  unfold parseDecl
  split
  · rename_i h; exact hcons h
  · exact parseParameterizedDecl_sat ok buf s hi hne
  · exact parseParameterizedDecl_sat ok buf s hi hne
  · exact parseParameterizedDecl_sat ok buf s hi hne
  · exact parseDefaultDecl_sat ok buf s hi hne
  · exact parseIncludeDecl_sat ok buf s hi hne
  · exact parseIncludeDecl_sat ok buf s hi hne
  · exact parseBindingDecl_sat ok buf s hi
  · exact hskip

theorem declLoop_sat {cfg : Cfg} (ok : CfgOK cfg) (buf : Bytes) :
    ∀ f s, Inv buf s → mu buf s < f → s.mode = .none → LS s → (declLoop cfg buf f s).sat (fun s' =>
      Step buf s s' ∧ s'.tok.kind = .EndOfFile ∧ s'.mode = .none ∧ ∃ l, s'.evs = l ++ s.evs ∧ Seg none none l) := by
  intro f
  induction f with
  | zero => intro s _ h; omega
  | succ n ih =>
    intro s hi hf hm hls
    unfold declLoop
    split
    · rename_i hne
      apply sat_bind (parseDecl_sat ok buf s hi hne hm)
      intro s1 h1
      obtain ⟨a, b, c, d, l1, e1, sg1⟩ := h1
      have := b hne
      apply sat_mono (ih s1 a.inv (by omega) c d)
      intro s2 h2
      obtain ⟨a2, b2, c2, l2, e2, sg2⟩ := h2
      exact ⟨a.trans a2, b2, c2, l2 ++ l1, by rw [e2, e1, List.append_assoc], Seg.trans sg1 sg2⟩
    · rename_i hne
      exact ⟨Step.refl hi, by simpa using hne, hm, [], rfl, Seg.nil _⟩

theorem inv_init (buf : Bytes) : Inv buf initSt :=
  ⟨Nat.zero_le _, fun h => by simp [initSt] at h, fun h => by simp [initSt] at h, fun h => by simp [initSt] at h⟩

/-- the whole run: it returns, every lexer call started in bounds, and the callbacks are
BeginManifest, a well-bracketed sequence of declarations and errors, EndManifest -/
structure RunPost (buf : Bytes) (s : PSt) : Prop where
  inv : Inv buf s
  calls : ∀ c ∈ s.calls, c.2 ≤ buf.length
  eof : s.tok.kind = .EndOfFile
  mode : s.mode = .none
  evs : ∃ mid, s.evs.reverse = .beginManifest :: mid ++ [.endManifest] ∧ wb none mid = some none

theorem parseSt_sat {cfg : Cfg} (ok : CfgOK cfg) (buf : Bytes) : (parseSt cfg buf).sat (RunPost buf) := by
  unfold parseSt
  apply sat_bind (consume_sat ok buf initSt (inv_init buf))
  intro s0 h0
  have hs1 := same_emit s0 .beginManifest
  have hls : LS (s0.emit .beginManifest) := h0.ls (Or.inl rfl)
  apply sat_bind (declLoop_sat ok buf _ (s0.emit .beginManifest) (hs1.inv h0.step.inv) (mu_le_size buf _) h0.mode hls)
  intro s1 h1
  obtain ⟨a, b, c, l, e, sg⟩ := h1
  have hs2 := same_emit s1 .endManifest
  refine ⟨hs2.inv a.inv, ?_, b, c, l.reverse, ?_, sg⟩
  · obtain ⟨c0, e0, p0⟩ := h0.step.calls
    obtain ⟨c1, e1, p1⟩ := a.calls
    intro x hx
    have : x ∈ c1 ++ c0 := by
      have : (s1.emit .endManifest).calls = c1 ++ (c0 ++ []) := by
        show s1.calls = _
        rw [e1]; show c1 ++ s0.calls = _; rw [e0]; rfl
      rw [this] at hx; simpa using hx
    rcases List.mem_append.1 this with h | h
    · exact p1 x h
    · exact p0 x h
  · show (Ev.endManifest :: s1.evs).reverse = _
    rw [e]
    show (Ev.endManifest :: (l ++ Ev.beginManifest :: s0.evs)).reverse = _
    rw [h0.evs]
    simp [initSt]

/-! ## Part 3: symbolic execution along a token script -/

section Script
variable (cfg : Cfg) (buf : Bytes)

/-- called from cursor `σ` in the listed modes, the lexer returns the listed tokens and ends at `σ'` -/
def Follows : St → List (LexMode × Token) → St → Prop
  | σ, [], σ' => σ' = σ
  | σ, (m, t) :: rest, σ' => ∃ σ1, lex cfg buf m σ = .ok (t, σ1) ∧ Follows σ1 rest σ'

/-- executable form of `Follows` (for examples) -/
def follow : St → List (LexMode × Token) → Option St
  | σ, [] => some σ
  | σ, (m, t) :: rest =>
    match lex cfg buf m σ with
    | .ok (t', σ1) => if t' = t then follow σ1 rest else none
    | _ => none

theorem follows_of_follow : ∀ (sc : List (LexMode × Token)) (σ σ' : St), follow cfg buf σ sc = some σ' → Follows cfg buf σ sc σ' := by
  intro sc
  induction sc with
  | nil => intro σ σ' h; simp only [follow, Option.some.injEq] at h; exact h.symm
  | cons p rest ih =>
    intro σ σ' h
    obtain ⟨m, t⟩ := p
    simp only [follow] at h
    split at h
    · rename_i t' σ1 heq
      split at h
      · rename_i ht
        subst ht
        exact ⟨σ1, heq, ih σ1 σ' h⟩
      · cases h
    · cases h

theorem follows_append : ∀ (a b : List (LexMode × Token)) (σ σ' : St),
    Follows cfg buf σ (a ++ b) σ' ↔ ∃ σm, Follows cfg buf σ a σm ∧ Follows cfg buf σm b σ' := by
  intro a
  induction a with
  | nil =>
    intro b σ σ'
    constructor
    · intro h; exact ⟨σ, rfl, h⟩
    · rintro ⟨σm, h1, h2⟩
      have : σm = σ := h1
      subst this; exact h2
  | cons p rest ih =>
    intro b σ σ'
    obtain ⟨m, t⟩ := p
    constructor
    · rintro ⟨σ1, h1, h2⟩
      obtain ⟨σm, h3, h4⟩ := (ih b σ1 σ').1 h2
      exact ⟨σm, ⟨σ1, h1, h3⟩, h4⟩
    · rintro ⟨σm, ⟨σ1, h1, h3⟩, h4⟩
      exact ⟨σ1, h1, (ih b σ1 σ').2 ⟨σm, h3, h4⟩⟩

/-- tokens other than EndOfFile are non-empty, so a script of them is at most as long as the bytes left -/
theorem follows_len {cfg : Cfg} (ok : CfgOK cfg) {buf : Bytes} : ∀ (sc : List (LexMode × Token)) (σ σ' : St), σ.pos ≤ buf.length →
    Follows cfg buf σ sc σ' → (∀ p ∈ sc, p.2.kind ≠ .EndOfFile) → σ.pos + sc.length ≤ σ'.pos ∧ σ'.pos ≤ buf.length := by
  intro sc
  induction sc with
  | nil => intro σ σ' hv h _; have : σ' = σ := h; subst this; exact ⟨Nat.le_refl _, hv⟩
  | cons p rest ih =>
    intro σ σ' hv h hk
    obtain ⟨m, t⟩ := p
    obtain ⟨σ1, h1, h2⟩ := h
    obtain ⟨hge, hp⟩ := Res.sat_of_eq (lex_sat ok buf m σ hv) h1
    have hprog := hp.progress (hk (m, t) List.mem_cons_self)
    have hend := hp.end_eq
    have := ih σ1 σ' hp.end_le h2 (fun q hq => hk q (List.mem_cons_of_mem _ hq))
    simp only [List.length_cons] at *
    omega

/-- the state after one `lexer.lex(tok)` that returned `t` and left the cursor at `σ` -/
def adv (s : PSt) (t : Token) (σ : St) : PSt :=
  { s with lx := σ, tok := t, calls := (s.mode, s.lx.pos) :: s.calls }

theorem consume_run (s : PSt) (t : Token) (σ1 : St) (h : lex cfg buf s.mode s.lx = .ok (t, σ1)) (hc : t.kind ≠ .Comment) :
    consume cfg buf s = .ok (adv s t σ1) := by
  show nextNonComment cfg buf (buf.length + 1 + 1) s = _
  unfold nextNonComment lexTok
  rw [h]
  simp only [Res.ok_bind, Res.pure_eq_ok]
  rw [if_neg hc]
  rfl

/-- one consumed token of a script: the look-ahead becomes `t`, nothing else changes -/
theorem consume_follows (s : PSt) (t : Token) (rem : List (LexMode × Token)) (σ' : St)
    (h : Follows cfg buf s.lx ((s.mode, t) :: rem) σ') (hc : t.kind ≠ .Comment) :
    ∃ s1, consume cfg buf s = .ok s1 ∧ s1.tok = t ∧ s1.mode = s.mode ∧ s1.evs = s.evs ∧ Follows cfg buf s1.lx rem σ' := by
  obtain ⟨σ1, h1, h2⟩ := h
  exact ⟨adv s t σ1, consume_run cfg buf s t σ1 h1 hc, rfl, rfl, rfl, h2⟩

/-- `while (String) push`: consumes the String tokens `toks` and stops at the first other token `q` -/
theorem stringsLoop_run (q : Token) (Q : List Token) (rem : List (LexMode × Token)) (σ' : St)
    (hq : q.kind ≠ .String) (hqc : q.kind ≠ .Comment) :
    ∀ (toks : List Token) (f : Nat) (s : PSt) (acc R : List Token), (∀ t ∈ toks, t.kind = .String) → toks.length < f →
      s.tok :: R = toks ++ q :: Q → Follows cfg buf s.lx (R.map (fun t => (s.mode, t)) ++ rem) σ' →
      ∃ s', stringsLoop cfg buf f s acc = .ok (s', acc ++ toks) ∧ s'.tok = q ∧ s'.mode = s.mode ∧ s'.evs = s.evs ∧
        Follows cfg buf s'.lx (Q.map (fun t => (s.mode, t)) ++ rem) σ' := by
  intro toks
  induction toks with
  | nil =>
    intro f s acc R _ hf heq hfol
    simp only [List.nil_append, List.cons.injEq] at heq
    obtain ⟨h1, h2⟩ := heq
    subst h2
    obtain ⟨f', rfl⟩ : ∃ f', f = f' + 1 := ⟨f - 1, by simp at hf; omega⟩
    refine ⟨s, ?_, h1, rfl, rfl, hfol⟩
    unfold stringsLoop
    rw [if_neg (by rw [h1]; exact hq)]
    simp
  | cons t ts ih =>
    intro f s acc R hall hf heq hfol
    simp only [List.cons_append, List.cons.injEq] at heq
    obtain ⟨h1, h2⟩ := heq
    obtain ⟨f', rfl⟩ : ∃ f', f = f' + 1 := ⟨f - 1, by simp at hf; omega⟩
    -- the next token: the head of `ts ++ q :: Q`
    obtain ⟨r0, R0, hR⟩ : ∃ r0 R0, ts ++ q :: Q = r0 :: R0 := by
      cases ts with
      | nil => exact ⟨q, Q, rfl⟩
      | cons a b => exact ⟨a, b ++ q :: Q, rfl⟩
    have hr0c : r0.kind ≠ .Comment := by
      cases ts with
      | nil => simp only [List.nil_append, List.cons.injEq] at hR; rw [← hR.1]; exact hqc
      | cons a b =>
        simp only [List.cons_append, List.cons.injEq] at hR
        rw [← hR.1, hall a (by simp)]; decide
    rw [h2, hR] at hfol
    simp only [List.map_cons, List.cons_append] at hfol
    obtain ⟨s1, hc1, ht1, hm1, he1, hf1⟩ := consume_follows cfg buf s r0 _ σ' hfol hr0c
    have := ih f' s1 (acc ++ [t]) R0 (fun x hx => hall x (List.mem_cons_of_mem _ hx)) (by simp at hf; omega)
      (by rw [ht1, hR]) (by rw [hm1]; exact hf1)
    obtain ⟨s', hs', a, b, c, d⟩ := this
    refine ⟨s', ?_, a, b.trans hm1, c.trans he1, by rw [← hm1]; exact d⟩
    unfold stringsLoop
    rw [if_pos (by rw [h1]; exact hall t (by simp)), hc1]
    simp only [Res.ok_bind]
    rw [h1, hs']
    simp

/-- the tokens of an optional `|` / `||` section -/
def optToks : Option (Token × List Token) → List Token
  | none => []
  | some (p, l) => p :: l

def optList : Option (Token × List Token) → List Token
  | none => []
  | some (_, l) => l

/-- `if (consumeIfToken(k)) while (String) push` over an optional section -/
theorem optStrings_run (k : Kind) (q : Token) (Q : List Token) (rem : List (LexMode × Token)) (σ' : St)
    (hq : q.kind ≠ .String) (hqc : q.kind ≠ .Comment) (hqk : q.kind ≠ k)
    (o : Option (Token × List Token)) (ho : ∀ p l, o = some (p, l) → p.kind = k ∧ ∀ t ∈ l, t.kind = .String)
    (s : PSt) (acc R : List Token) (hlen : (optList o).length < fuel buf)
    (heq : s.tok :: R = optToks o ++ q :: Q) (hfol : Follows cfg buf s.lx (R.map (fun t => (s.mode, t)) ++ rem) σ') :
    ∃ s', optStrings cfg buf k s acc = .ok (s', acc ++ optList o) ∧ s'.tok = q ∧ s'.mode = s.mode ∧ s'.evs = s.evs ∧
      Follows cfg buf s'.lx (Q.map (fun t => (s.mode, t)) ++ rem) σ' := by
  cases o with
  | none =>
    simp only [optToks, List.nil_append, List.cons.injEq] at heq
    obtain ⟨h1, h2⟩ := heq
    subst h2
    refine ⟨s, ?_, h1, rfl, rfl, hfol⟩
    unfold optStrings
    rw [if_neg (by rw [h1]; exact hqk)]
    simp [optList]
  | some pl =>
    obtain ⟨p, l⟩ := pl
    obtain ⟨hpk, hl⟩ := ho p l rfl
    simp only [optToks, List.cons_append, List.cons.injEq] at heq
    obtain ⟨h1, h2⟩ := heq
    obtain ⟨r0, R0, hR⟩ : ∃ r0 R0, l ++ q :: Q = r0 :: R0 := by
      cases l with
      | nil => exact ⟨q, Q, rfl⟩
      | cons a b => exact ⟨a, b ++ q :: Q, rfl⟩
    have hr0c : r0.kind ≠ .Comment := by
      cases l with
      | nil => simp only [List.nil_append, List.cons.injEq] at hR; rw [← hR.1]; exact hqc
      | cons a b =>
        simp only [List.cons_append, List.cons.injEq] at hR
        rw [← hR.1, hl a (by simp)]; decide
    rw [h2, hR] at hfol
    simp only [List.map_cons, List.cons_append] at hfol
    obtain ⟨s1, hc1, ht1, hm1, he1, hf1⟩ := consume_follows cfg buf s r0 _ σ' hfol hr0c
    obtain ⟨s', hs', a, b, c, d⟩ := stringsLoop_run cfg buf q Q rem σ' hq hqc l (fuel buf) s1 acc R0 hl hlen
      (by rw [ht1, hR]) (by rw [hm1]; exact hf1)
    refine ⟨s', ?_, a, b.trans hm1, c.trans he1, by rw [← hm1]; exact d⟩
    unfold optStrings
    rw [if_pos (by rw [h1]; exact hpk), hc1]
    simp only [Res.ok_bind]
    rw [hs']
    simp [optList]

/-- `name = value` + newline, from the name token on (the name may have been lexed in any mode) -/
theorem parseBindingInternal_run (s : PSt) (eq v nl next : Token) (σ' : St)
    (hid : s.tok.kind = .Identifier) (heq : eq.kind = .Equals) (hv : v.kind = .String) (hnl : nl.kind = .Newline)
    (hnc : next.kind ≠ .Comment)
    (hfol : Follows cfg buf s.lx [(s.mode, eq), (.variableString, v), (.none, nl), (.none, next)] σ') :
    ∃ s', parseBindingInternal cfg buf s = .ok (some (s.tok, v), s') ∧ s'.tok = next ∧ s'.lx = σ' ∧ s'.mode = .none ∧
      s'.evs = s.evs := by
  obtain ⟨s1, hc1, ht1, hm1, he1, hf1⟩ := consume_follows cfg buf s eq _ σ' hfol (by rw [heq]; decide)
  obtain ⟨s2, hc2, ht2, hm2, he2, hf2⟩ := consume_follows cfg buf (s1.setMode .variableString) v _ σ' hf1 (by rw [hv]; decide)
  obtain ⟨s3, hc3, ht3, hm3, he3, hf3⟩ := consume_follows cfg buf (s2.setMode .none) nl _ σ' hf2 (by rw [hnl]; decide)
  have hm3' : s3.mode = .none := hm3
  obtain ⟨s4, hc4, ht4, hm4, he4, hf4⟩ := consume_follows cfg buf s3 next _ σ' (by rw [hm3']; exact hf3) hnc
  refine ⟨s4, ?_, ht4, (show σ' = s4.lx from hf4).symm, hm4.trans hm3', ?_⟩
  · unfold parseBindingInternal
    rw [if_neg (by simp [hid]), hc1]
    simp only [Res.ok_bind]
    rw [if_neg (by simp [ht1, heq]), hc2]
    simp only [Res.ok_bind]
    have hk2 : (s2.setMode .none).tok.kind = .String := by show s2.tok.kind = _; rw [ht2, hv]
    rw [if_neg (by rw [hk2]; decide), if_neg (by simp [hk2]), hc3]
    simp only [Res.ok_bind]
    rw [if_pos (by rw [ht3, hnl]), hc4]
    simp only [Res.ok_bind, Res.pure_eq_ok]
    show Res.ok (some (s.tok, s2.tok), s4) = _
    rw [ht2]
  · rw [he4, he3]; show s2.evs = _; rw [he2]; show s1.evs = _; rw [he1]

/-- `name =` + newline: the empty binding -/
theorem parseBindingInternal_run_empty (s : PSt) (eq nl next : Token) (σ' : St)
    (hid : s.tok.kind = .Identifier) (heq : eq.kind = .Equals) (hnl : nl.kind = .Newline) (hnc : next.kind ≠ .Comment)
    (hfol : Follows cfg buf s.lx [(s.mode, eq), (.variableString, nl), (.none, next)] σ') :
    ∃ s', parseBindingInternal cfg buf s = .ok (some (s.tok, { nl with kind := .String, len := 0 }), s') ∧ s'.tok = next ∧
      s'.lx = σ' ∧ s'.mode = .none ∧ s'.evs = s.evs := by
  obtain ⟨s1, hc1, ht1, hm1, he1, hf1⟩ := consume_follows cfg buf s eq _ σ' hfol (by rw [heq]; decide)
  obtain ⟨s2, hc2, ht2, hm2, he2, hf2⟩ := consume_follows cfg buf (s1.setMode .variableString) nl _ σ' hf1 (by rw [hnl]; decide)
  obtain ⟨s3, hc3, ht3, hm3, he3, hf3⟩ := consume_follows cfg buf (s2.setMode .none) next _ σ' hf2 hnc
  refine ⟨s3, ?_, ht3, (show σ' = s3.lx from hf3).symm, hm3, ?_⟩
  · unfold parseBindingInternal
    rw [if_neg (by simp [hid]), hc1]
    simp only [Res.ok_bind]
    rw [if_neg (by simp [ht1, heq]), hc2]
    simp only [Res.ok_bind]
    have hk2 : (s2.setMode .none).tok.kind = .Newline := by show s2.tok.kind = _; rw [ht2, hnl]
    rw [if_pos hk2, hc3]
    simp only [Res.ok_bind, Res.pure_eq_ok]
    show Res.ok (some (s.tok, { s2.tok with kind := .String, len := 0 }), s3) = _
    rw [ht2]
  · rw [he3]; show s2.evs = _; rw [he2]; show s1.evs = _; rw [he1]

/-- `rule NAME` / `pool NAME` + newline -/
theorem parseNameSpecifier_run (m : Msg) (mk : Token → Ev) (s : PSt) (name nl next : Token) (σ' : St)
    (hname : name.kind = .Identifier) (hnl : nl.kind = .Newline) (hnc : next.kind ≠ .Comment)
    (hfol : Follows cfg buf s.lx [(.identifierSpecific, name), (.none, nl), (.none, next)] σ') :
    ∃ s', parseNameSpecifier cfg buf m mk s = .ok (true, s') ∧ s'.tok = next ∧ s'.lx = σ' ∧ s'.mode = .none ∧
      s'.evs = mk name :: s.evs := by
  obtain ⟨s1, hc1, ht1, hm1, he1, hf1⟩ := consume_follows cfg buf (s.setMode .identifierSpecific) name _ σ' hfol (by rw [hname]; decide)
  obtain ⟨s2, hc2, ht2, hm2, he2, hf2⟩ := consume_follows cfg buf (s1.setMode .none) nl _ σ' hf1 (by rw [hnl]; decide)
  have hm2' : s2.mode = .none := hm2
  obtain ⟨s3, hc3, ht3, hm3, he3, hf3⟩ := consume_follows cfg buf s2 next _ σ' (by rw [hm2']; exact hf2) hnc
  refine ⟨s3.emit (mk name), ?_, ht3, (show σ' = s3.lx from hf3).symm, hm3.trans hm2', ?_⟩
  · unfold parseNameSpecifier
    rw [hc1]
    simp only [Res.ok_bind]
    have hk1 : (s1.setMode .none).tok.kind = .Identifier := by show s1.tok.kind = _; rw [ht1, hname]
    rw [if_neg (by simp [hk1]), hc2]
    simp only [Res.ok_bind]
    rw [if_pos (by rw [ht2, hnl]), hc3]
    simp only [Res.ok_bind, Res.pure_eq_ok]
    show Res.ok (true, s3.emit (mk s1.tok)) = _
    rw [ht1]
  · show mk name :: s3.evs = _
    rw [he3, he2]; show _ :: s1.evs = _; rw [he1]; rfl

/-! ### the token-level grammar of a `build` statement -/

/-- the tokens of one `build` line after the keyword:
`outs… colon name exp… [pipe imp…] [pipepipe oo…] nl` -/
structure BuildLine where
  outs : List Token
  colon : Token
  name : Token
  exp : List Token
  pipe : Option (Token × List Token)
  pipepipe : Option (Token × List Token)
  nl : Token
  deriving Repr

def allString (l : List Token) : Bool := l.all fun t => decide (t.kind = .String)

def optWF (k : Kind) : Option (Token × List Token) → Bool
  | none => true
  | some (p, l) => decide (p.kind = k) && allString l

/-- build-spec ::= "build" path-string+ ":" identifier path-string* [ "|" path-string* ] [ "||" path-string* ] newline -/
def BuildLine.WF (b : BuildLine) : Bool :=
  !b.outs.isEmpty && allString b.outs && decide (b.colon.kind = .Colon) && decide (b.name.kind = .Identifier) &&
  allString b.exp && optWF .Pipe b.pipe && optWF .PipePipe b.pipepipe && decide (b.nl.kind = .Newline)

/-- the tokens after the rule name; all are lexed in PathString mode -/
def BuildLine.tail (b : BuildLine) : List Token := b.exp ++ (optToks b.pipe ++ (optToks b.pipepipe ++ [b.nl]))

/-- what the lexer has to deliver after the `build` keyword, and in which mode the parser asks for it -/
def BuildLine.script (b : BuildLine) (next : Token) : List (LexMode × Token) :=
  (b.outs ++ [b.colon]).map (fun t => (LexMode.pathString, t)) ++
    (.identifierSpecific, b.name) :: (b.tail.map (fun t => (LexMode.pathString, t)) ++ [(.none, next)])

/-- the `inputs` vector handed to `actOnBeginBuildDecl` -/
def BuildLine.ins (b : BuildLine) : List Token := b.exp ++ optList b.pipe ++ optList b.pipepipe

theorem allString_iff {l : List Token} : allString l = true ↔ ∀ t ∈ l, t.kind = .String := by
  simp [allString]

theorem optWF_iff {k : Kind} {o : Option (Token × List Token)} :
    optWF k o = true ↔ ∀ p l, o = some (p, l) → p.kind = k ∧ ∀ t ∈ l, t.kind = .String := by
  cases o with
  | none => simp [optWF]
  | some pl => obtain ⟨p, l⟩ := pl; simp [optWF, allString_iff]

theorem optToks_head {k : Kind} {o : Option (Token × List Token)} (ho : optWF k o = true) (q : Token) (Q : List Token) :
    ∃ x X, optToks o ++ q :: Q = x :: X ∧ (x.kind = k ∨ x = q) := by
  cases o with
  | none => exact ⟨q, Q, rfl, Or.inr rfl⟩
  | some pl =>
    obtain ⟨p, l⟩ := pl
    exact ⟨p, l ++ q :: Q, rfl, Or.inl ((optWF_iff.1 ho p l rfl).1)⟩

theorem optList_len_le (o : Option (Token × List Token)) : (optList o).length ≤ (optToks o).length := by
  cases o with
  | none => simp [optList, optToks]
  | some pl => obtain ⟨p, l⟩ := pl; simp [optList, optToks]

theorem optToks_kinds {k : Kind} {o : Option (Token × List Token)} (ho : optWF k o = true) :
    ∀ t ∈ optToks o, t.kind = k ∨ t.kind = .String := by
  cases o with
  | none => intro t h; simp [optToks] at h
  | some pl =>
    obtain ⟨p, l⟩ := pl
    obtain ⟨h1, h2⟩ := optWF_iff.1 ho p l rfl
    intro t h
    simp only [optToks, List.mem_cons] at h
    rcases h with h | h
    · exact Or.inl (h ▸ h1)
    · exact Or.inr (h2 t h)

theorem follows_bounds {cfg : Cfg} (ok : CfgOK cfg) {buf : Bytes} : ∀ (sc : List (LexMode × Token)) (σ σ' : St), σ.pos ≤ buf.length →
    Follows cfg buf σ sc σ' → σ.pos ≤ σ'.pos ∧ σ'.pos ≤ buf.length := by
  intro sc
  induction sc with
  | nil => intro σ σ' hv h; have : σ' = σ := h; subst this; exact ⟨Nat.le_refl _, hv⟩
  | cons p rest ih =>
    intro σ σ' hv h
    obtain ⟨m, t⟩ := p
    obtain ⟨σ1, h1, h2⟩ := h
    obtain ⟨hge, hp⟩ := Res.sat_of_eq (lex_sat ok buf m σ hv) h1
    have hend : t.start + t.len = σ1.pos := hp.end_eq
    have hge' : σ.pos ≤ t.start := hge
    have := ih σ1 σ' hp.end_le h2
    omega

end Script

section Runs
variable {cfg : Cfg} (ok : CfgOK cfg) (buf : Bytes)
include ok

/-- a well-formed `build` line: the specifier succeeds and reports exactly its parts -/
theorem parseBuildSpecifier_run (bl : BuildLine) (next : Token) (s : PSt) (σ' : St)
    (hwf : bl.WF = true) (hnc : next.kind ≠ .Comment) (hpos : s.lx.pos ≤ buf.length)
    (hfol : Follows cfg buf s.lx (bl.script next) σ') :
    ∃ s', parseBuildSpecifier cfg buf s = .ok (true, s') ∧ s'.tok = next ∧ s'.lx = σ' ∧ s'.mode = .none ∧
      s'.evs = .beginBuild bl.name bl.outs bl.ins bl.exp.length (optList bl.pipe).length :: s.evs := by
  simp only [BuildLine.WF, Bool.and_eq_true, Bool.not_eq_true', decide_eq_true_eq] at hwf
  obtain ⟨⟨⟨⟨⟨⟨⟨hne, houts⟩, hcolon⟩, hname⟩, hexp⟩, hpipe⟩, hpp⟩, hnl⟩ := hwf
  have houts' := allString_iff.1 houts
  have hexp' := allString_iff.1 hexp
  -- kinds along the tail
  obtain ⟨x2, X2, hX2, hx2⟩ := optToks_head hpp bl.nl []
  obtain ⟨x1, X1, hX1, hx1⟩ := optToks_head hpipe x2 X2
  have hx2k : x2.kind = .PipePipe ∨ x2.kind = .Newline := by
    rcases hx2 with h | h
    · exact Or.inl h
    · exact Or.inr (h ▸ hnl)
  have hx1k : x1.kind = .Pipe ∨ x1.kind = .PipePipe ∨ x1.kind = .Newline := by
    rcases hx1 with h | h
    · exact Or.inl h
    · exact Or.inr (h ▸ hx2k)
  have htail : bl.tail = bl.exp ++ x1 :: X1 := by
    unfold BuildLine.tail; rw [hX2, hX1]
  have htailk : ∀ t ∈ bl.tail, t.kind ≠ .Comment ∧ t.kind ≠ .EndOfFile := by
    intro t ht
    unfold BuildLine.tail at ht
    simp only [List.mem_append, List.mem_singleton] at ht
    rcases ht with h | h | h | h
    · rw [hexp' t h]; exact ⟨by decide, by decide⟩
    · rcases optToks_kinds hpipe t h with h | h <;> rw [h] <;> exact ⟨by decide, by decide⟩
    · rcases optToks_kinds hpp t h with h | h <;> rw [h] <;> exact ⟨by decide, by decide⟩
    · rw [h, hnl]; exact ⟨by decide, by decide⟩
  -- fuel: every list is shorter than the bytes that are left
  have hlen : bl.outs.length + bl.tail.length ≤ buf.length := by
    have hsplit : bl.script next = ((bl.outs ++ [bl.colon]).map (fun t => (LexMode.pathString, t)) ++
        (.identifierSpecific, bl.name) :: bl.tail.map (fun t => (LexMode.pathString, t))) ++ [(.none, next)] := by
      simp [BuildLine.script]
    rw [hsplit] at hfol
    obtain ⟨σm, hpre, _⟩ := (follows_append cfg buf _ _ _ _).1 hfol
    have := follows_len ok _ s.lx σm hpos hpre (by
      intro p hp
      simp only [List.map_append, List.map_cons, List.map_nil, List.mem_append, List.mem_map, List.mem_cons,
        List.not_mem_nil, or_false] at hp
      rcases hp with (⟨t, ht, rfl⟩ | rfl) | rfl | ⟨t, ht, rfl⟩
      · show t.kind ≠ _; rw [houts' t ht]; decide
      · show bl.colon.kind ≠ _; rw [hcolon]; decide
      · show bl.name.kind ≠ _; rw [hname]; decide
      · exact (htailk t ht).2)
    simp only [List.length_append, List.length_map, List.length_cons, List.length_nil] at this
    omega
  have hf_outs : bl.outs.length < fuel buf := by unfold fuel; omega
  have htl : bl.tail.length = bl.exp.length + ((optToks bl.pipe).length + ((optToks bl.pipepipe).length + 1)) := by
    simp [BuildLine.tail]
  have hf_exp : bl.exp.length < fuel buf := by unfold fuel; omega
  have hf_imp : (optList bl.pipe).length < fuel buf := by have := optList_len_le bl.pipe; unfold fuel; omega
  have hf_oo : (optList bl.pipepipe).length < fuel buf := by have := optList_len_le bl.pipepipe; unfold fuel; omega
  -- 1. the keyword is consumed in PathString mode: the first output
  obtain ⟨o, os, houts_eq⟩ : ∃ o os, bl.outs = o :: os := by
    cases h : bl.outs with
    | nil => simp [h] at hne
    | cons a b => exact ⟨a, b, rfl⟩
  unfold BuildLine.script at hfol
  rw [houts_eq] at hfol
  simp only [List.cons_append, List.map_cons] at hfol
  obtain ⟨s1, hc1, ht1, hm1, he1, hf1⟩ := consume_follows cfg buf (s.setMode .pathString) o _ σ' hfol
    (by rw [houts' o (by rw [houts_eq]; simp)]; decide)
  have hm1' : s1.mode = .pathString := hm1
  -- 2. the output list, up to the colon
  obtain ⟨s2, hc2, ht2, hm2, he2, hf2⟩ := stringsLoop_run cfg buf bl.colon [] _ σ' (by rw [hcolon]; decide) (by rw [hcolon]; decide)
    bl.outs (fuel buf) s1 [] (os ++ [bl.colon]) houts' hf_outs (by rw [ht1, houts_eq]; simp) (by rw [hm1']; exact hf1)
  simp only [List.map_nil, List.nil_append] at hf2 hc2
  have hm2' : s2.mode = .pathString := hm2.trans hm1'
  -- 3. the colon is consumed in IdentifierSpecific mode: the rule name
  obtain ⟨s3, hc3, ht3, hm3, he3, hf3⟩ := consume_follows cfg buf (s2.setMode .identifierSpecific) bl.name _ σ' hf2
    (by rw [hname]; decide)
  -- 4. the name is consumed in PathString mode: the head of the tail
  obtain ⟨t0, T0, hT0⟩ : ∃ t0 T0, bl.tail = t0 :: T0 := by
    rw [htail]
    cases bl.exp with
    | nil => exact ⟨x1, X1, rfl⟩
    | cons a b => exact ⟨a, b ++ x1 :: X1, rfl⟩
  rw [hT0] at hf3
  simp only [List.map_cons, List.cons_append] at hf3
  obtain ⟨s5, hc5, ht5, hm5, he5, hf5⟩ := consume_follows cfg buf (s3.setMode .pathString) t0 _ σ' hf3
    ((htailk t0 (by rw [hT0]; simp)).1)
  have hm5' : s5.mode = .pathString := hm5
  -- 5. explicit inputs
  obtain ⟨s6, hc6, ht6, hm6, he6, hf6⟩ := stringsLoop_run cfg buf x1 X1 [(.none, next)] σ'
    (by rcases hx1k with h | h | h <;> rw [h] <;> decide) (by rcases hx1k with h | h | h <;> rw [h] <;> decide)
    bl.exp (fuel buf) s5 [] T0 hexp' hf_exp (by rw [ht5, ← hT0, htail]) (by rw [hm5']; exact hf5)
  rw [hm5'] at hf6
  have hm6' : s6.mode = .pathString := hm6.trans hm5'
  -- 6. `|` section
  obtain ⟨s7, hc7, ht7, hm7, he7, hf7⟩ := optStrings_run cfg buf .Pipe x2 X2 [(.none, next)] σ'
    (by rcases hx2k with h | h <;> rw [h] <;> decide) (by rcases hx2k with h | h <;> rw [h] <;> decide)
    (by rcases hx2k with h | h <;> rw [h] <;> decide) bl.pipe (optWF_iff.1 hpipe) s6 ([] ++ bl.exp) X1 hf_imp
    (by rw [ht6, hX1]) (by rw [hm6']; exact hf6)
  rw [hm6'] at hf7
  have hm7' : s7.mode = .pathString := hm7.trans hm6'
  -- 7. `||` section
  obtain ⟨s8, hc8, ht8, hm8, he8, hf8⟩ := optStrings_run cfg buf .PipePipe bl.nl [] [(.none, next)] σ'
    (by rw [hnl]; decide) (by rw [hnl]; decide) (by rw [hnl]; decide) bl.pipepipe (optWF_iff.1 hpp) s7
    ([] ++ bl.exp ++ optList bl.pipe) X2 hf_oo (by rw [ht7, hX2]) (by rw [hm7']; exact hf7)
  simp only [List.map_nil, List.nil_append] at hf8 hc8 hc7 hc6
  -- 8. the newline, consumed in mode None
  obtain ⟨s10, hc10, ht10, hm10, he10, hf10⟩ := consume_follows cfg buf (s8.setMode .none) next _ σ' hf8 hnc
  refine ⟨s10.emit (.beginBuild bl.name bl.outs bl.ins bl.exp.length (optList bl.pipe).length), ?_, ht10,
    (show σ' = s10.lx from hf10).symm, hm10, ?_⟩
  · unfold parseBuildSpecifier
    rw [hc1]
    simp only [Res.ok_bind]
    rw [if_neg (by simp [ht1, houts' o (by rw [houts_eq]; simp)]), hc2]
    simp only [Res.ok_bind]
    rw [if_neg (by simp [ht2, hcolon]), hc3]
    simp only [Res.ok_bind]
    have hk3 : (s3.setMode .pathString).tok.kind = .Identifier := by show s3.tok.kind = _; rw [ht3, hname]
    rw [if_neg (by simp [hk3]), hc5]
    simp only [Res.ok_bind]
    rw [hc6]
    simp only [Res.ok_bind]
    rw [hc7]
    simp only [Res.ok_bind]
    rw [hc8]
    simp only [Res.ok_bind]
    have hk8 : (s8.setMode .none).tok.kind = .Newline := by show s8.tok.kind = _; rw [ht8, hnl]
    rw [if_pos hk8, hc10]
    simp only [Res.ok_bind, Res.pure_eq_ok]
    show Res.ok (true, s10.emit (.beginBuild s3.tok _ _ _ _)) = _
    rw [ht3]
    simp [BuildLine.ins]
  · show _ :: s10.evs = _
    rw [he10]; show _ :: s8.evs = _
    rw [he8, he7, he6, he5]; show _ :: s3.evs = _
    rw [he3]; show _ :: s2.evs = _
    rw [he2, he1]; rfl

/-! ### indented bindings -/

/-- the tokens of one indented `name = value` line -/
structure BindingLine where
  indent : Token
  name : Token
  eq : Token
  value : Token
  nl : Token
  deriving Repr

/-- indented-binding ::= indentation identifier "=" var-string newline -/
def BindingLine.WF (b : BindingLine) : Bool :=
  decide (b.indent.kind = .Indentation) && decide (b.name.kind = .Identifier) && decide (b.eq.kind = .Equals) &&
  decide (b.value.kind = .String) && decide (b.nl.kind = .Newline)

/-- the look-ahead token in front of a block of binding lines: the first indentation, or what follows the block -/
def headTok : List BindingLine → Token → Token
  | [], a => a
  | b :: _, _ => b.indent

/-- what the lexer delivers after the first indentation token of a block of binding lines, with the modes the
parser asks in: name and `=` in IdentifierSpecific mode, the value in VariableString mode, the rest in None -/
def bindsScript : List BindingLine → Token → List (LexMode × Token)
  | [], _ => []
  | b :: rest, after =>
    [(.identifierSpecific, b.name), (.identifierSpecific, b.eq), (.variableString, b.value), (.none, b.nl),
     (.none, headTok rest after)] ++ bindsScript rest after

theorem bindsScript_len : ∀ (bs : List BindingLine) (after : Token) (σ σ' : St), σ.pos ≤ buf.length →
    (∀ b ∈ bs, b.WF = true) → Follows cfg buf σ (bindsScript bs after) σ' → σ.pos + bs.length ≤ buf.length + 1 := by
  intro bs
  induction bs with
  | nil => intro after σ σ' hv _ _; simp; omega
  | cons b rest ih =>
    intro after σ σ' hv hwf hfol
    have hb := hwf b List.mem_cons_self
    simp only [BindingLine.WF, Bool.and_eq_true, decide_eq_true_eq] at hb
    obtain ⟨⟨⟨⟨_, h2⟩, h3⟩, h4⟩, h5⟩ := hb
    unfold bindsScript at hfol
    have hsplit : ([(LexMode.identifierSpecific, b.name), (.identifierSpecific, b.eq), (.variableString, b.value), (.none, b.nl),
        (.none, headTok rest after)] ++ bindsScript rest after) =
        [(LexMode.identifierSpecific, b.name), (.identifierSpecific, b.eq), (.variableString, b.value), (.none, b.nl)] ++
        ([(LexMode.none, headTok rest after)] ++ bindsScript rest after) := rfl
    rw [hsplit] at hfol
    obtain ⟨σ4, hf4, hrest⟩ := (follows_append cfg buf _ _ _ _).1 hfol
    obtain ⟨σ5, hf5, hrest'⟩ := (follows_append cfg buf _ _ _ _).1 hrest
    have l4 := follows_len ok _ σ σ4 hv hf4 (by
      intro p hp
      simp only [List.mem_cons, List.not_mem_nil, or_false] at hp
      rcases hp with rfl | rfl | rfl | rfl
      · show b.name.kind ≠ _; rw [h2]; decide
      · show b.eq.kind ≠ _; rw [h3]; decide
      · show b.value.kind ≠ _; rw [h4]; decide
      · show b.nl.kind ≠ _; rw [h5]; decide)
    have l5 := follows_bounds ok _ σ4 σ5 l4.2 hf5
    have := ih after σ5 σ' l5.2 (fun x hx => hwf x (List.mem_cons_of_mem _ hx)) hrest'
    simp only [List.length_cons, List.length_nil] at *
    omega

omit ok in
/-- the indented-binding loop over a block of well-formed binding lines reports them in order -/
theorem bindingsLoop_run (k : DeclKind) (after : Token) (σ' : St) (ha : after.kind ≠ .Indentation) (hac : after.kind ≠ .Comment) :
    ∀ (bs : List BindingLine) (f : Nat) (s : PSt), (∀ b ∈ bs, b.WF = true) → bs.length < f → s.tok = headTok bs after →
      s.mode = .none → Follows cfg buf s.lx (bindsScript bs after) σ' →
      ∃ s', bindingsLoop cfg buf k f s = .ok s' ∧ s'.tok = after ∧ s'.lx = σ' ∧ s'.mode = .none ∧
        s'.evs = (bs.map fun b => Ev.declBinding k b.name b.value).reverse ++ s.evs := by
  intro bs
  induction bs with
  | nil =>
    intro f s _ hf ht hm hfol
    obtain ⟨f', rfl⟩ : ∃ f', f = f' + 1 := ⟨f - 1, by simp at hf; omega⟩
    refine ⟨s, ?_, ht, (show σ' = s.lx from hfol).symm, hm, by simp⟩
    unfold bindingsLoop
    rw [if_neg (by rw [ht]; exact ha)]
    rfl
  | cons b rest ih =>
    intro f s hwf hf ht hm hfol
    obtain ⟨f', rfl⟩ : ∃ f', f = f' + 1 := ⟨f - 1, by simp at hf; omega⟩
    have hb := hwf b List.mem_cons_self
    simp only [BindingLine.WF, Bool.and_eq_true, decide_eq_true_eq] at hb
    obtain ⟨⟨⟨⟨h1, h2⟩, h3⟩, h4⟩, h5⟩ := hb
    have hnext : (headTok rest after).kind ≠ .Comment := by
      cases rest with
      | nil => exact hac
      | cons c _ =>
        have hc := hwf c (by simp)
        simp only [BindingLine.WF, Bool.and_eq_true, decide_eq_true_eq] at hc
        show c.indent.kind ≠ _
        rw [hc.1.1.1.1]; decide
    unfold bindsScript at hfol
    simp only [List.cons_append, List.nil_append] at hfol
    obtain ⟨s1, hc1, ht1, hm1, he1, hf1⟩ := consume_follows cfg buf (s.setMode .identifierSpecific) b.name _ σ' hfol
      (by rw [h2]; decide)
    have hm1' : s1.mode = .identifierSpecific := hm1
    have hsplit : ((LexMode.identifierSpecific, b.eq) :: (.variableString, b.value) :: (.none, b.nl) :: (.none, headTok rest after) ::
        bindsScript rest after) = [(s1.mode, b.eq), (.variableString, b.value), (.none, b.nl), (.none, headTok rest after)] ++
        bindsScript rest after := by rw [hm1']; rfl
    rw [hsplit] at hf1
    obtain ⟨σm, hfm, hrest⟩ := (follows_append cfg buf _ _ _ _).1 hf1
    obtain ⟨s2, hc2, ht2, hl2, hm2, he2⟩ := parseBindingInternal_run cfg buf s1 b.eq b.value b.nl (headTok rest after) σm
      (by rw [ht1, h2]) h3 h4 h5 hnext hfm
    obtain ⟨s', hs', a1, a2, a3, a4⟩ := ih f' (s2.emit (.declBinding k b.name b.value))
      (fun x hx => hwf x (List.mem_cons_of_mem _ hx)) (by simp at hf; omega) ht2 hm2 (by show Follows cfg buf s2.lx _ _; rw [hl2]; exact hrest)
    refine ⟨s', ?_, a1, a2, a3, ?_⟩
    · unfold bindingsLoop
      rw [if_pos (by rw [ht, headTok]; exact h1), hc1]
      simp only [Res.ok_bind]
      rw [if_neg (by rw [ht1, h2]; decide), hc2]
      simp only [Res.ok_bind]
      rw [ht1]
      exact hs'
    · rw [a4]
      show _ ++ (_ :: s2.evs) = _
      rw [he2, he1]
      simp [PSt.setMode]

end Runs

/-! ### states at the head of the top-level loop of `parse()` -/

/-- the states in which `parse()` tests `tok.tokenKind != EndOfFile` -/
inductive TopReach (cfg : Cfg) (buf : Bytes) : PSt → Prop
  | init {s0 : PSt} : consume cfg buf initSt = .ok s0 → TopReach cfg buf (s0.emit .beginManifest)
  | step {s s' : PSt} : TopReach cfg buf s → s.tok.kind ≠ .EndOfFile → parseDecl cfg buf s = .ok s' → TopReach cfg buf s'

theorem topReach_inv {cfg : Cfg} (ok : CfgOK cfg) (buf : Bytes) (s : PSt) (h : TopReach cfg buf s) :
    Inv buf s ∧ s.mode = .none ∧ LS s := by
  induction h with
  | init h0 =>
    have := Res.sat_of_eq (consume_sat ok buf initSt (inv_init buf)) h0
    exact ⟨(same_emit _ _).inv this.step.inv, this.mode, this.ls (Or.inl rfl)⟩
  | step _ hne hd ih =>
    have := Res.sat_of_eq (parseDecl_sat ok buf _ ih.1 hne ih.2.1) hd
    exact ⟨this.step.inv, this.mode, this.ls⟩

theorem wbStep_manifest (a : Option DeclKind) : wbStep a .beginManifest = none ∧ wbStep a .endManifest = none := by
  cases a <;> exact ⟨rfl, rfl⟩

theorem wb_no_manifest : ∀ (l : List Ev) (a b : Option DeclKind), wb a l = some b → Ev.beginManifest ∉ l ∧ Ev.endManifest ∉ l := by
  intro l
  induction l with
  | nil => intro a b _; simp
  | cons e r ih =>
    intro a b h
    simp only [wb] at h
    cases hs : wbStep a e with
    | none => rw [hs] at h; cases h
    | some a' =>
      rw [hs] at h
      have := ih a' b h
      have h1 : e ≠ .beginManifest := by intro he; rw [he, (wbStep_manifest a).1] at hs; cases hs
      have h2 : e ≠ .endManifest := by intro he; rw [he, (wbStep_manifest a).2] at hs; cases hs
      simp only [List.mem_cons, not_or]
      exact ⟨⟨fun h => h1 h.symm, this.1⟩, ⟨fun h => h2 h.symm, this.2⟩⟩

/-! ### the pipeline bytes → declarations → loader -/

theorem declStep_perr_mono (buf : Bytes) (s : DS) (e : Ev) (h : NinjaLoader.Decl.perr ∈ s.decls) :
    NinjaLoader.Decl.perr ∈ (declStep buf s e).decls := by
  cases e with
  | «include» b p => cases b <;> simp [declStep, h]
  | declBinding k n v => simp only [declStep]; split <;> simp [h]
  | endDecl k st => simp only [declStep]; split <;> simp [h]
  | _ => simp [declStep, h]

theorem foldl_perr_mono (buf : Bytes) : ∀ (evs : List Ev) (s : DS), NinjaLoader.Decl.perr ∈ s.decls →
    NinjaLoader.Decl.perr ∈ (evs.foldl (declStep buf) s).decls := by
  intro evs
  induction evs with
  | nil => intro s h; exact h
  | cons e r ih => intro s h; exact ih _ (declStep_perr_mono buf s e h)

/-- an error callback of the parser is a `perr` declaration for the loader -/
theorem perr_of_error (buf : Bytes) (evs : List Ev) (m : Msg) (t : Token) (h : Ev.error m t ∈ evs) :
    NinjaLoader.Decl.perr ∈ declsOf buf evs := by
  unfold declsOf
  rw [List.mem_reverse]
  suffices ∀ (l : List Ev) (s : DS), Ev.error m t ∈ l → NinjaLoader.Decl.perr ∈ (l.foldl (declStep buf) s).decls from this evs {} h
  intro l
  induction l with
  | nil => intro s h; cases h
  | cons e r ih =>
    intro s h
    rcases List.mem_cons.1 h with h | h
    · subst h
      exact foldl_perr_mono buf r _ (by simp [declStep])
    · exact ih _ h

open NinjaLoader in
theorem foldS_no_perr (f : Decl → Spec.SSt → Option Spec.SSt) (hf : ∀ s, f .perr s = none) :
    ∀ (ds : List Decl) (s s' : Spec.SSt), Spec.foldS f ds s = some s' → Decl.perr ∉ ds := by
  intro ds
  induction ds with
  | nil => intro s s' _; simp
  | cons d r ih =>
    intro s s' h
    simp only [Spec.foldS] at h
    cases hd : f d s with
    | none => rw [hd] at h; cases h
    | some s1 =>
      rw [hd] at h
      have hne : d ≠ .perr := by intro he; rw [he, hf] at hd; cases hd
      simp only [List.mem_cons, not_or]
      exact ⟨fun h => hne h.symm, ih s1 s' h⟩

open NinjaLoader in
/-- the reference semantics gives no meaning to a declaration stream with a parse error in the main file -/
theorem spec_no_perr (P : Params) (files : Files) (depth : Nat) (main : List Decl) (m : Spec.Manifest)
    (h : Spec.load P files depth main = some m) : Decl.perr ∉ main := by
  unfold Spec.load at h
  simp only [Option.map_eq_some_iff] at h
  obtain ⟨S, hS, _⟩ := h
  cases depth with
  | zero => simp [Spec.loadDeclsS] at hS
  | succ n =>
    simp only [Spec.loadDeclsS] at hS
    exact foldS_no_perr _ (fun s => rfl) main _ S hS

theorem parse_total {cfg : Cfg} (ok : CfgOK cfg) (buf : Bytes) : ∃ evs, parse cfg buf = .ok evs := by
  obtain ⟨s, hs, _⟩ := Res.sat_elim (parseSt_sat ok buf)
  exact ⟨s.evs.reverse, by unfold parse; rw [hs]; rfl⟩

theorem parseFiles_total {cfg : Cfg} (ok : CfgOK cfg) : ∀ raw : List (Bytes × Bytes), ∃ files, parseFiles cfg raw = .ok files := by
  intro raw
  induction raw with
  | nil => exact ⟨[], rfl⟩
  | cons pc rest ih =>
    obtain ⟨p, c⟩ := pc
    obtain ⟨evs, he⟩ := parse_total ok c
    obtain ⟨r, hr⟩ := ih
    exact ⟨(p, declsOf c evs) :: r, by simp [parseFiles, parseDecls, he, hr]⟩

end LLBuild.NinjaParser
