import LLBuild.Lemmas.Engine.Scan

namespace LLBuild.Engine

theorem issuedAfter_self {P : Program} (hP : P.WF) {d : Key} (hs : P.self d = true) (seq : Seq) :
    issuedAfter P d seq = [] := by
  induction seq with
  | nil => simp [issuedAfter, hP.self_noreq d _ hs]
  | cons qv rest ih =>
    obtain ⟨q, v⟩ := qv
    simp [issuedAfter, ih, hP.self_noreq d _ hs]

/-- an input rule's clean value is what it reads from the external state -/
theorem clean_self {P : Program} (hP : P.WF) {env : Env} {d : Key} {v : Val} (hs : P.self d = true)
    (h : Clean P env d v) : v = P.out d env [] := by
  cases h with
  | mk _ seq hv hc hin =>
    cases seq with
    | nil => rfl
    | cons qv rest =>
      obtain ⟨q, w⟩ := qv
      simp [validSeq, issuedAfter_self hP hs] at hv

theorem started_of_status {P : Program} {s : St} (hi : Inv P s) {k : Key} (h : s.status k ≠ .idle) :
    s.started = true := by
  by_cases ht : s.target = none
  · exact absurd (hi.stIdle ht k) h
  · have hts : s.target.isSome = true := by
      cases hx : s.target with
      | none => exact absurd hx ht
      | some _ => rfl
    by_cases hst : s.started = true
    · exact hst
    · have : s.started = false := by simpa using hst
      exact absurd (hi.notStarted hts this k) h

end LLBuild.Engine

namespace LLBuild.Engine

theorem depFresh_of_mem {s : St} {r : Res} (hall : r.deps.all (depFresh s r) = true) {x : Key}
    (hx : (⟨x, false, false⟩ : Dep) ∈ r.deps) :
    s.status x = .done ∧ ¬ (r.builtAt < (s.mem.res x).computedAt) := by
  have := List.all_eq_true.1 hall _ hx
  simp [depFresh, isDone] at this
  exact ⟨this.1, by omega⟩

theorem Inv.upToDate {P : Program} (hP : P.WF) {s s' : St} {k : Key}
    (h1 : s'.env = s.env) (h2 : s'.epoch = s.epoch)
    (h3 : s'.mem = s.mem.setRes k { s.mem.res k with builtAt := s.epoch })
    (h4 : s'.db = s.db) (h5 : s'.dbIter = s.dbIter) (h6 : s'.status = upd s.status k .done) (h7 : s'.task = s.task)
    (h8 : s'.pending = s.pending.filter (fun p => p.1 != k)) (h9 : s'.target = s.target)
    (h10 : s'.started = s.started) (h11 : s'.validSeen = s.validSeen)
    (h12 : s'.registered = s.registered) (h13 : s'.sigAt = s.sigAt)
    (hs : s.status k = .scanning) (hvs : s.validSeen k = some true)
    (hall : (s.mem.res k).deps.all (depFresh s (s.mem.res k)) = true)
    (hi : Inv P s) : Inv P s' := by
  have hst : s.started = true := started_of_status hi (by rw [hs]; simp)
  have ha : active s' ↔ active s := active_congr h10
  obtain ⟨hval, hbk, hsigk⟩ := hi.validOk k hs hvs
  have hnf : inflight s k = false := by simp [inflight, hs]
  -- the stored signature is the current rule's, which the program computed at `lookup`
  -- ... and the rule has just accepted the stored value
  have hsok : Reusable P k (s.mem.res k).sig :=
    ⟨by rw [hsigk]; exact hi.sigAtOk k (hi.scanReg k hs), s.env, _, hval⟩
  obtain ⟨gk0, fk⟩ := hi.good k hbk hnf
  have gk := gk0 hsok
  -- status facts
  have hst' : ∀ x, s'.status x = if x = k then .done else s.status x := by intro x; rw [h6]; rfl
  have hdone_mono : ∀ x, s.status x = .done → s'.status x = .done := by
    intro x hx; rw [hst']; split <;> simp [hx]
  have hf : ∀ x, inflight s' x = inflight s x := by
    intro x; simp only [inflight, hst']; split
    · rename_i e; subst e; rw [hs]; rfl
    · rfl
  -- store facts
  have hv : ∀ x, (s'.mem.res x).value = (s.mem.res x).value := by
    intro x; rw [h3]; by_cases e : x = k
    · subst e; simp
    · rw [setRes_res_other _ _ _ _ e]
  have hc : ∀ x, (s'.mem.res x).computedAt = (s.mem.res x).computedAt := by
    intro x; rw [h3]; by_cases e : x = k
    · subst e; simp
    · rw [setRes_res_other _ _ _ _ e]
  have hdeps : ∀ x, (s'.mem.res x).deps = (s.mem.res x).deps := by
    intro x; rw [h3]; by_cases e : x = k
    · subst e; simp
    · rw [setRes_res_other _ _ _ _ e]
  have hsig : ∀ x, (s'.mem.res x).sig = (s.mem.res x).sig := by
    intro x; rw [h3]; by_cases e : x = k
    · subst e; simp
    · rw [setRes_res_other _ _ _ _ e]
  have hbk' : (s'.mem.res k).builtAt = s.epoch := by rw [h3]; simp
  have hbo : ∀ x, x ≠ k → (s'.mem.res x).builtAt = (s.mem.res x).builtAt := by
    intro x e; rw [h3, setRes_res_other _ _ _ _ e]
  have hseq : s'.mem.seq = s.mem.seq := by rw [h3]; rfl
  have hdisc : s'.mem.disc = s.mem.disc := by rw [h3]; rfl
  have henv : s'.mem.env = s.mem.env := by rw [h3]; rfl
  -- every value-carrying dependency of k is done and still has the value k saw
  have kseq : ∀ q v, (q, v) ∈ s.mem.seq k → q.kind = 0 → s.status q.key = .done ∧ (s.mem.res q.key).value = v := by
    intro q v hq hk
    obtain ⟨d1, d2⟩ := depFresh_of_mem hall (gk.depsSeq q v hq hk)
    refine ⟨d1, ?_⟩
    rcases fk.seq q v hq hk with a | b
    · exact a
    · exact absurd b d2
  have kdisc : ∀ d v, (d, v) ∈ s.mem.disc k → s.status d = .done ∧ (s.mem.res d).value = v := by
    intro d v hd
    obtain ⟨d1, d2⟩ := depFresh_of_mem hall (gk.depsDisc d v hd)
    refine ⟨d1, ?_⟩
    rcases fk.disc d v hd with a | b | c
    · exact a
    · exact absurd b d2
    · exact absurd d1 (hi.pendOk d v c).2.2
  -- pending entries for k itself: k is an input rule whose stored value is what it reads now
  have kpend : ∀ v, (k, v) ∈ s.pending → (s.mem.res k).value = v := by
    intro v hp
    obtain ⟨a, b, _⟩ := hi.pendOk k v hp
    rw [a]; exact hP.self_valid k s.env _ b hval
  have hpend : ∀ dv, dv ∈ s.pending → dv.1 ≠ k → dv ∈ s'.pending := by
    intro dv hd hne; rw [h8]; simp [hd, hne]
  constructor
  · intro x
    by_cases e : x = k
    · subst e; rw [hbk', hc, h2]; exact ⟨Nat.le_refl _, (hi.memE x).2⟩
    · rw [hbo x e, hc, h2]; exact hi.memE x
  · rw [h4, h2]; exact hi.dbE
  · rw [h5, h2]; exact hi.iterLe
  · rw [h9, h10, h5, h2]; exact hi.iterEq
  · intro ht; rw [h9] at ht; have := hi.startedTarget hst; simp [ht] at this
  · rw [h10, h2]; exact hi.startedPos
  · rw [h10, h9]; exact hi.startedTarget
  · intro _ hs'; rw [h10, hst] at hs'; cases hs'
  · intro ht; rw [h9] at ht; have := hi.startedTarget hst; simp [ht] at this
  · intro x hx
    rw [ha, h2]
    by_cases e : x = k
    · subst e; exact ⟨hst, hbk'⟩
    · rw [hst'] at hx; simp [e] at hx; rw [hbo x e]; exact hi.stDone x hx
  · intro hact x hx
    rw [hst']
    by_cases e : x = k
    · simp [e]
    · simp [e]; rw [hbo x e, h2] at hx; exact hi.builtNow (ha.1 hact) x hx
  · intro hact x hx
    rw [h4, h2] at hx
    exact hdone_mono x (hi.dbBuiltNow (ha.1 hact) x hx)
  · intro x hx
    rw [hseq, hdisc]
    by_cases e : x = k
    · subst e
      exact ⟨fun q v hq hk => hdone_mono _ (kseq q v hq hk).1, fun d v hd => Or.inl (hdone_mono _ (kdisc d v hd).1)⟩
    · rw [hst'] at hx; simp [e] at hx
      obtain ⟨a, b⟩ := hi.seqDone x hx
      refine ⟨fun q v hq hk => hdone_mono _ (a q v hq hk), ?_⟩
      intro d v hd
      rcases b d v hd with b1 | b2
      · left; exact hdone_mono _ b1
      · by_cases ed : d = k
        · left; rw [hst']; simp [ed]
        · right; exact hpend (d, v) b2 ed
  · intro x hbx hfl
    rw [hf] at hfl
    by_cases e : x = k
    · subst e
      constructor
      · intro _
        exact GoodRec.frame (σ := s.mem) (by rw [hseq]) (by rw [hdisc]) (by rw [henv]) (hv x)
          (by intro y hy; rw [hdeps]; exact hy) gk
      · constructor
        · intro q v hq hk; rw [hseq] at hq; left; rw [hv]; exact (kseq q v hq hk).2
        · intro d v hd; rw [hdisc] at hd; left; rw [hv]; exact (kdisc d v hd).2
    · rw [hbo x e] at hbx
      obtain ⟨g, f⟩ := hi.good x hbx hfl
      constructor
      · intro hso; rw [hsig] at hso
        exact GoodRec.frame (σ := s.mem) (by rw [hseq]) (by rw [hdisc]) (by rw [henv]) (hv x)
          (by intro y hy; rw [hdeps]; exact hy) (g hso)
      · apply FreshRec.mono (σ := s.mem) (by rw [hseq]) (by rw [hdisc]) (by rw [hbo x e]; exact Nat.le_refl _) _ _ f
        · intro y; left; rw [hv, hc]; exact ⟨rfl, Nat.le_refl _⟩
        · intro dv hdv hp
          by_cases ed : dv.1 = k
          · right; left; rw [hv, ed]
            have : dv = (k, dv.2) := by rw [← ed]
            rw [this] at hp; exact kpend _ hp
          · left; exact hpend dv hp ed
  · intro x hbx
    rw [h4] at hbx ⊢
    obtain ⟨g, f⟩ := hi.dbGood x hbx
    refine ⟨g, ?_⟩
    apply FreshRec.mono (σ := s.db) rfl rfl (Nat.le_refl _) _ _ f
    · intro y; left; exact ⟨rfl, Nat.le_refl _⟩
    · intro dv hdv hp
      by_cases ed : dv.1 = k
      · right; left
        have : dv = (k, dv.2) := by rw [← ed]
        rw [this] at hp
        rw [ed, (hi.memDb k hbk hnf).2.1]; exact kpend _ hp
      · left; exact hpend dv hp ed
  · intro x hbx
    rw [h4] at hbx ⊢
    apply CrossFresh.mono (σ := s.mem) _ _ _ (hi.dbCross x hbx)
    · intro q v _ _; left; rw [hv, hc]; exact ⟨rfl, Nat.le_refl _⟩
    · intro d v _; left; rw [hv, hc]; exact ⟨rfl, Nat.le_refl _⟩
    · intro dv hdv hp
      by_cases ed : dv.1 = k
      · right; left; rw [hv, ed]
        have : dv = (k, dv.2) := by rw [← ed]
        rw [this] at hp; exact kpend _ hp
      · left; exact hpend dv hp ed
  · intro x hbx hfl
    rw [hf] at hfl
    by_cases e : x = k
    · subst e
      obtain ⟨m1, m2, m3, m4, m5, m6, m7⟩ := hi.memDb x hbk hnf
      rw [h4, hv, hc, hseq, hdisc, henv, hbk']
      exact ⟨m1, m2, m3, m4, m5, m6, Nat.le_trans m7 (hi.memE x).1⟩
    · rw [hbo x e] at hbx
      rw [h4, hv, hc, hseq, hdisc, henv, hbo x e]; exact hi.memDb x hbx hfl
  · intro x hx
    rw [h1, hv]
    by_cases e : x = k
    · subst e
      -- the pivotal step: the old execution is replayed in the current external state
      by_cases hself : P.self x = true
      · have hvx : (s.mem.res x).value = P.out x s.env [] := hP.self_valid x s.env _ hself hval
        rw [hvx]
        have : P.out x s.env [] = P.out x s.env (recvOf []) := rfl
        rw [this]
        exact Clean.mk x [] (by simp [validSeq]) (by simp [completeSeq, issuedAfter_self hP hself]) (by intro q v hq; cases hq)
      · have henvd : ∀ d ∈ P.disc x (recvOf (s.mem.seq x)), s.env d = (s.mem.env x) d := by
          intro d hd
          have hmem : (d, P.out d (s.mem.env x) []) ∈ s.mem.disc x := by
            rw [gk.disc]; exact List.mem_map.2 ⟨d, hd, rfl⟩
          obtain ⟨dd, dvv⟩ := kdisc d _ hmem
          have hsd := hP.disc_self x _ d hd
          have hcl := clean_self hP hsd (hi.clean d dd)
          rw [dvv] at hcl
          exact hP.self_inj d _ _ hsd hcl.symm
        have : (s.mem.res x).value = P.out x s.env (recvOf (s.mem.seq x)) := by
          rw [gk.value]
          exact (hP.out_local x s.env (s.mem.env x) _ henvd (by intro h; exact absurd h hself)).symm
        rw [this]
        refine Clean.mk x (s.mem.seq x) gk.valid gk.complete ?_
        intro q v hq hk
        obtain ⟨dd, dvv⟩ := kseq q v hq hk
        rw [← dvv]; exact hi.clean q.key dd
    · rw [hst'] at hx; simp [e] at hx; exact hi.clean x hx
  · intro d v hd
    rw [h8] at hd
    have hd' := List.mem_filter.1 hd
    obtain ⟨a, b, c⟩ := hi.pendOk d v hd'.1
    rw [h1]
    refine ⟨a, b, ?_⟩
    rw [hst']
    have : d ≠ k := by simpa using hd'.2
    simp [this]; exact c
  · intro x hfl hsx
    rw [hf] at hfl; rw [h7] at hsx
    have t := hi.taskOk x hfl hsx
    have hxk : x ≠ k := by intro e; subst e; rw [hnf] at hfl; cases hfl
    constructor
    · rw [h7]; exact t.issued
    · rw [h7]; exact t.valid
    · intro q v hq hk; rw [h7] at hq; rw [hv]
      obtain ⟨a, b⟩ := t.inputs q v hq hk
      exact ⟨hdone_mono _ a, b⟩
    · intro hr
      rw [hst'] at hr; simp [hxk] at hr
      rw [h7]; exact t.running hr
    · intro hcmp
      rw [hst'] at hcmp; simp [hxk] at hcmp
      rw [h7, hv, h1]; exact t.computing hcmp
  · intro x hfl; rw [hf] at hfl; exact ha.2 (hi.inflightActive x hfl)
  · intro x hx hvx
    rw [hst'] at hx
    by_cases e : x = k
    · simp [e] at hx
    · simp [e] at hx; rw [h11] at hvx; rw [h1, hv, hbo x e, hsig, h13]; exact hi.validOk x hx hvx
  · intro ht x hx
    rw [h9] at ht; rw [h11]
    rw [hst'] at hx
    by_cases e : x = k
    · simp [e] at hx
    · simp [e] at hx; exact hi.validIdle ht x hx
  · rw [h12, h13]; exact hi.sigAtOk
  · intro x hx
    rw [h12]; rw [hst'] at hx
    by_cases e : x = k
    · simp [e] at hx
    · simp [e] at hx; exact hi.scanReg x hx

end LLBuild.Engine
