/-
What a finished build leaves behind is settled (`Settled`, Lemmas/Engine/NullBuild.lean): a second,
client-independent invariant `Inv2` of the abstract engine records that every rule that is complete
in the current build is registered, carries its rule's current signature, and has only complete (or
still pending) recorded dependencies.  Together with the epoch clauses of `Inv` this yields
`Settled` for the set of complete rules at the moment a build is about to return with nothing
pending, and `Settled` survives the events that end the build.
-/
import LLBuild.Lemmas.Engine.NullBuild
import LLBuild.Lemmas.Engine.Defs

set_option linter.unusedVariables false

namespace LLBuild.Engine

theorem isPerm_sub {α : Type} [DecidableEq α] : ∀ (a b : List α), isPerm a b = true → ∀ x, x ∈ a → x ∈ b
  | [], b, _, x, hx => by cases hx
  | y :: ys, b, h, x, hx => by
    simp only [isPerm, Bool.and_eq_true, List.contains_iff_mem] at h
    rcases List.mem_cons.1 hx with rfl | hx
    · exact h.1
    · exact List.mem_of_mem_erase (isPerm_sub ys (b.erase y) h.2 x hx)

structure Inv2 (s : St) : Prop where
  reg : ∀ k, s.status k ≠ .idle → s.registered k = true
  noTarget : s.target = none → ∀ k, s.status k = .idle
  startedTarget : s.started = true → s.target.isSome = true
  idleNoValid : s.target.isSome = true → ∀ k, s.status k = .idle → s.validSeen k = none
  sigScan : ∀ k, s.status k = .scanning → (s.validSeen k).isSome = true → (s.mem.res k).sig = s.sigAt k
  sigComp : ∀ k, s.status k = .computing → (s.task k).completed = true → (s.mem.res k).sig = s.sigAt k
  sigDone : ∀ k, s.status k = .done → (s.mem.res k).sig = s.sigAt k
  runFresh : ∀ k, s.status k = .running → (s.task k).completed = false
  seqDone : ∀ k, s.status k = .running ∨ s.status k = .computing →
      ∀ q v, (q, v) ∈ (s.task k).seq → s.status q.key = .done
  issuedDone : ∀ k, s.status k = .computing → ∀ q ∈ (s.task k).issued, s.status q.key = .done
  depsDone : s.returned = false → ∀ k, s.status k = .done → ∀ d ∈ (s.mem.res k).deps,
      s.status d.key = .done ∨ d.key ∈ s.pending.map Prod.fst

theorem Inv2.init : Inv2 ({} : St) := by
  refine ⟨?_, ?_, ?_, ?_, ?_, ?_, ?_, ?_, ?_, ?_, ?_⟩ <;> intros <;> simp_all

/-- all rules idle: every clause about a busy or complete rule is vacuous -/
theorem Inv2.ofIdle {s : St} (hidle : ∀ k, s.status k = .idle)
    (hst : s.started = true → s.target.isSome = true)
    (hv : s.target.isSome = true → ∀ k, s.validSeen k = none) : Inv2 s := by
  refine ⟨?_, ?_, hst, ?_, ?_, ?_, ?_, ?_, ?_, ?_, ?_⟩
  · intro k hk; exact absurd (hidle k) hk
  · intro _ k; exact hidle k
  · intro ht k _; exact hv ht k
  · intro k hk; rw [hidle k] at hk; cases hk
  · intro k hk; rw [hidle k] at hk; cases hk
  · intro k hk; rw [hidle k] at hk; cases hk
  · intro k hk; rw [hidle k] at hk; cases hk
  · intro k hk; rw [hidle k] at hk; rcases hk with hk | hk <;> cases hk
  · intro k hk; rw [hidle k] at hk; cases hk
  · intro _ k hk; rw [hidle k] at hk; cases hk

/-- events that change neither a status, a task, a record, the registrations nor the bookkeeping
`Inv2` talks about -/
theorem Inv2.congr {s s' : St}
    (h1 : s'.status = s.status) (h2 : s'.registered = s.registered) (h3 : s'.target = s.target)
    (h4 : s'.started = s.started) (h5 : s'.validSeen = s.validSeen) (h6 : ∀ k, (s'.mem.res k).sig = (s.mem.res k).sig)
    (h7 : s'.sigAt = s.sigAt) (h8 : s'.task = s.task) (h9 : ∀ k, (s'.mem.res k).deps = (s.mem.res k).deps)
    (h10 : s'.returned = false → s.returned = false ∧ s'.pending = s.pending)
    (h : Inv2 s) : Inv2 s' where
  reg := by rw [h1, h2]; exact h.reg
  noTarget := by rw [h1, h3]; exact h.noTarget
  startedTarget := by rw [h3, h4]; exact h.startedTarget
  idleNoValid := by rw [h1, h3, h5]; exact h.idleNoValid
  sigScan := by intro k; rw [h1, h5, h6, h7]; exact h.sigScan k
  sigComp := by intro k; rw [h1, h8, h6, h7]; exact h.sigComp k
  sigDone := by intro k; rw [h1, h6, h7]; exact h.sigDone k
  runFresh := by rw [h1, h8]; exact h.runFresh
  seqDone := by rw [h1, h8]; exact h.seqDone
  issuedDone := by rw [h1, h8]; exact h.issuedDone
  depsDone := by
    intro hr k hk d hd
    obtain ⟨hr', hp⟩ := h10 hr
    rw [h1] at hk ⊢; rw [h9] at hd; rw [hp]
    exact h.depsDone hr' k hk d hd

theorem upd_done {f : Key → Status} {k : Key} {st : Status} (hk : f k ≠ .done) {x : Key}
    (hx : f x = .done) : upd f k st x = .done := by
  have : x ≠ k := fun e => hk (e ▸ hx)
  rw [upd_other _ _ _ _ this]; exact hx

/-- one busy rule `k` (not complete) changes its status to `st` together with its task and record;
the obligations are those of `k` under its new status -/
theorem Inv2.update {s s' : St} {k : Key} {st : Status} (h : Inv2 s)
    (hnd : s.status k ≠ .done) (hbusy : s.status k ≠ .idle) (hni : st ≠ .idle)
    (hst : ∀ k', s'.status k' = upd s.status k st k')
    (htask : ∀ k', k' ≠ k → s'.task k' = s.task k')
    (hres : ∀ k', k' ≠ k → s'.mem.res k' = s.mem.res k')
    (hreg : s'.registered = s.registered) (htg : s'.target = s.target) (hstd : s'.started = s.started)
    (hvs : s'.validSeen = s.validSeen) (hsa : s'.sigAt = s.sigAt) (hret : s'.returned = s.returned)
    (hpend : ∀ x ∈ s.pending.map Prod.fst, x ∈ s'.pending.map Prod.fst ∨ (x = k ∧ st = .done))
    (sigScan_k : st = .scanning → (s.validSeen k).isSome = true → (s'.mem.res k).sig = s.sigAt k)
    (sigComp_k : st = .computing → (s'.task k).completed = true → (s'.mem.res k).sig = s.sigAt k)
    (sigDone_k : st = .done → (s'.mem.res k).sig = s.sigAt k)
    (runFresh_k : st = .running → (s'.task k).completed = false)
    (seqDone_k : st = .running ∨ st = .computing → ∀ q v, (q, v) ∈ (s'.task k).seq → s.status q.key = .done)
    (issuedDone_k : st = .computing → ∀ q ∈ (s'.task k).issued, s.status q.key = .done)
    (depsDone_k : s'.returned = false → st = .done → ∀ d ∈ (s'.mem.res k).deps,
        s.status d.key = .done ∨ d.key = k ∨ d.key ∈ s'.pending.map Prod.fst) : Inv2 s' := by
  have hk : s'.status k = st := by rw [hst k]; simp
  have ho : ∀ k', k' ≠ k → s'.status k' = s.status k' := fun k' e => by rw [hst k', upd_other _ _ _ _ e]
  have hdone : ∀ x, s.status x = .done → s'.status x = .done := fun x hx => by rw [hst x]; exact upd_done hnd hx
  refine ⟨?_, ?_, ?_, ?_, ?_, ?_, ?_, ?_, ?_, ?_, ?_⟩
  · intro k' hk'
    rw [hreg]
    by_cases e : k' = k
    · subst e; exact h.reg k' hbusy
    · rw [ho k' e] at hk'; exact h.reg k' hk'
  · intro ht
    rw [htg] at ht
    exact absurd (h.noTarget ht k) hbusy
  · rw [htg, hstd]; exact h.startedTarget
  · intro ht k' hk'
    rw [htg] at ht; rw [hvs]
    by_cases e : k' = k
    · subst e; rw [hk] at hk'; exact absurd hk' hni
    · rw [ho k' e] at hk'; exact h.idleNoValid ht k' hk'
  · intro k' hk' hv
    rw [hvs] at hv; rw [hsa]
    by_cases e : k' = k
    · subst e; rw [hk] at hk'; exact sigScan_k hk' hv
    · rw [ho k' e] at hk'; rw [hres k' e]; exact h.sigScan k' hk' hv
  · intro k' hk' hv
    rw [hsa]
    by_cases e : k' = k
    · subst e; rw [hk] at hk'; exact sigComp_k hk' hv
    · rw [ho k' e] at hk'; rw [htask k' e] at hv; rw [hres k' e]; exact h.sigComp k' hk' hv
  · intro k' hk'
    rw [hsa]
    by_cases e : k' = k
    · subst e; rw [hk] at hk'; exact sigDone_k hk'
    · rw [ho k' e] at hk'; rw [hres k' e]; exact h.sigDone k' hk'
  · intro k' hk'
    by_cases e : k' = k
    · subst e; rw [hk] at hk'; exact runFresh_k hk'
    · rw [ho k' e] at hk'; rw [htask k' e]; exact h.runFresh k' hk'
  · intro k' hk' q v hq
    by_cases e : k' = k
    · subst e; rw [hk] at hk'; exact hdone _ (seqDone_k hk' q v hq)
    · rw [ho k' e] at hk'; rw [htask k' e] at hq; exact hdone _ (h.seqDone k' hk' q v hq)
  · intro k' hk' q hq
    by_cases e : k' = k
    · subst e; rw [hk] at hk'; exact hdone _ (issuedDone_k hk' q hq)
    · rw [ho k' e] at hk'; rw [htask k' e] at hq; exact hdone _ (h.issuedDone k' hk' q hq)
  · intro hr k' hk' d hd
    by_cases e : k' = k
    · subst e
      rw [hk] at hk'
      rcases depsDone_k hr hk' d hd with h1 | h1 | h1
      · left; exact hdone _ h1
      · left; rw [h1, hk]; exact hk'
      · right; exact h1
    · rw [ho k' e] at hk'; rw [hres k' e] at hd
      rw [hret] at hr
      rcases h.depsDone hr k' hk' d hd with h1 | h1
      · left; exact hdone _ h1
      · rcases hpend _ h1 with h2 | ⟨h2, h3⟩
        · right; exact h2
        · left; rw [h2, hk]; exact h3

theorem Inv2.preserved {P : Program} {s s' : St} {e : Event} (h : Inv2 s) (hs : step P s e = some s') :
    Inv2 s' := by
  cases e <;> simp only [step] at hs
  case buildStart k =>
    split at hs
    · cases hs; exact Inv2.ofIdle (fun _ => rfl) (by intro h; cases h) (fun _ _ => rfl)
    · cases hs
  case queueCreated =>
    split at hs
    · cases hs
      rename_i hc
      simp only [Bool.and_eq_true] at hc
      exact ⟨h.reg, h.noTarget, fun _ => hc.1, h.idleNoValid, h.sigScan, h.sigComp, h.sigDone, h.runFresh,
        h.seqDone, h.issuedDone, h.depsDone⟩
    · cases hs
  case lookup k =>
    split at hs
    · cases hs
      rename_i hc
      simp only [Bool.not_eq_eq_eq_not, Bool.not_true] at hc
      have hidle : s.status k = .idle := by
        cases hst : s.status k <;> first | rfl | (have := h.reg k (by rw [hst]; simp); rw [this] at hc; cases hc)
      refine ⟨?_, h.noTarget, h.startedTarget, h.idleNoValid, ?_, ?_, ?_, h.runFresh, h.seqDone, h.issuedDone, h.depsDone⟩
      · intro k' hk'
        by_cases e : k' = k
        · subst e; simp
        · show upd s.registered k true k' = true; rw [upd_other _ _ _ _ e]; exact h.reg k' hk'
      · intro k' hk' hv
        have e : k' ≠ k := fun e => by subst e; rw [hidle] at hk'; cases hk'
        show _ = upd s.sigAt k _ k'; rw [upd_other _ _ _ _ e]; exact h.sigScan k' hk' hv
      · intro k' hk' hv
        have e : k' ≠ k := fun e => by subst e; rw [hidle] at hk'; cases hk'
        show _ = upd s.sigAt k _ k'; rw [upd_other _ _ _ _ e]; exact h.sigComp k' hk' hv
      · intro k' hk'
        have e : k' ≠ k := fun e => by subst e; rw [hidle] at hk'; cases hk'
        show _ = upd s.sigAt k _ k'; rw [upd_other _ _ _ _ e]; exact h.sigDone k' hk'
    · cases hs
  case dbGet k found =>
    split at hs
    · cases hs; exact h
    · cases hs
  case dbBegin => cases hs; exact h
  case dbEnd =>
    split at hs
    · cases hs; exact Inv2.congr (s := s) rfl rfl rfl rfl rfl (fun _ => rfl) rfl rfl (fun _ => rfl) (fun hr => ⟨hr, rfl⟩) h
    · cases hs
  case dbIter e =>
    split at hs
    · cases hs; exact Inv2.congr (s := s) rfl rfl rfl rfl rfl (fun _ => rfl) rfl rfl (fun _ => rfl) (fun hr => ⟨hr, rfl⟩) h
    · cases hs
  case error m => cases hs; exact Inv2.congr (s := s) rfl rfl rfl rfl rfl (fun _ => rfl) rfl rfl (fun _ => rfl) (fun hr => ⟨hr, rfl⟩) h
  case cancel => cases hs; exact Inv2.congr (s := s) rfl rfl rfl rfl rfl (fun _ => rfl) rfl rfl (fun _ => rfl) (fun hr => ⟨hr, rfl⟩) h
  case cycle ks =>
    split at hs
    · split at hs
      · cases hs; exact Inv2.congr (s := s) rfl rfl rfl rfl rfl (fun _ => rfl) rfl rfl (fun _ => rfl) (fun hr => ⟨hr, rfl⟩) h
      · cases hs
    · cases hs
  case mutate slot val =>
    split at hs
    · cases hs; exact Inv2.congr (s := s) rfl rfl rfl rfl rfl (fun _ => rfl) rfl rfl (fun _ => rfl) (fun hr => ⟨hr, rfl⟩) h
    · cases hs
  case wipe =>
    split at hs
    · cases hs; exact Inv2.init
    · cases hs
  case restart =>
    split at hs
    · cases hs
      rename_i hc
      have ht : s.target = none := by simpa using hc
      refine Inv2.ofIdle (fun _ => rfl) ?_ ?_
      · intro hst; have := h.startedTarget hst; rw [ht] at this; cases this
      · intro hst; rw [show ({ s with mem := s.db, epoch := s.dbIter, registered := fun _ => false, status := fun _ => Status.idle } : St).target = s.target from rfl, ht] at hst; cases hst
    · cases hs
  case crash =>
    split at hs
    · cases hs; exact Inv2.ofIdle (fun _ => rfl) (by intro h; cases h) (by intro h; cases h)
    · cases hs
  case tail live late =>
    split at hs
    · cases hs; exact Inv2.ofIdle (fun _ => rfl) (by intro h; cases h) (by intro h; cases h)
    · cases hs
  case scanning k =>
    split at hs
    · cases hs
      rename_i hc
      simp only [Bool.and_eq_true, beq_iff_eq] at hc
      obtain ⟨⟨⟨hstarted, hidle⟩, hreg⟩, _⟩ := hc
      have hnd : s.status k ≠ .done := by rw [hidle]; simp
      have hres : ∀ k', k' ≠ k →
          (s.mem.setRes k { s.mem.res k with deps := (s.mem.res k).deps.filter (fun d => !d.singleUse) }).res k' = s.mem.res k' :=
        fun k' e => setRes_res_other _ _ _ _ e
      have htg := h.startedTarget hstarted
      refine ⟨?_, ?_, h.startedTarget, ?_, ?_, ?_, ?_, ?_, ?_, ?_, ?_⟩
      · intro k' hk'
        by_cases e : k' = k
        · subst e; exact hreg
        · simp only [upd_other _ _ _ _ e] at hk'; exact h.reg k' hk'
      · intro ht; rw [show s.target = none from ht] at htg; cases htg
      · intro ht k' hk'
        by_cases e : k' = k
        · subst e; simp at hk'
        · simp only [upd_other _ _ _ _ e] at hk'; exact h.idleNoValid ht k' hk'
      · intro k' hk' hv
        by_cases e : k' = k
        · subst e
          have := h.idleNoValid htg k' hidle
          simp only at hv; rw [this] at hv; cases hv
        · simp only [upd_other _ _ _ _ e] at hk'; rw [hres k' e]; exact h.sigScan k' hk' hv
      · intro k' hk' hv
        by_cases e : k' = k
        · subst e; simp at hk'
        · simp only [upd_other _ _ _ _ e] at hk'; rw [hres k' e]; exact h.sigComp k' hk' hv
      · intro k' hk'
        by_cases e : k' = k
        · subst e; simp at hk'
        · simp only [upd_other _ _ _ _ e] at hk'; rw [hres k' e]; exact h.sigDone k' hk'
      · intro k' hk'
        by_cases e : k' = k
        · subst e; simp at hk'
        · simp only [upd_other _ _ _ _ e] at hk'; exact h.runFresh k' hk'
      · intro k' hk' q v hq
        by_cases e : k' = k
        · subst e; simp at hk'
        · simp only [upd_other _ _ _ _ e] at hk'; exact upd_done hnd (h.seqDone k' hk' q v hq)
      · intro k' hk' q hq
        by_cases e : k' = k
        · subst e; simp at hk'
        · simp only [upd_other _ _ _ _ e] at hk'; exact upd_done hnd (h.issuedDone k' hk' q hq)
      · intro hr k' hk' d hd
        by_cases e : k' = k
        · subst e; simp at hk'
        · simp only [upd_other _ _ _ _ e] at hk'
          rw [hres k' e] at hd
          rcases h.depsDone hr k' hk' d hd with h1 | h1
          · left; exact upd_done hnd h1
          · right; exact h1
    · cases hs
  case valid k v b =>
    split at hs
    · cases hs
      rename_i hc
      simp only [Bool.and_eq_true, beq_iff_eq, bne_iff_ne, ne_eq] at hc
      obtain ⟨⟨⟨⟨⟨hst, _⟩, hsig⟩, _⟩, _⟩, _⟩ := hc
      refine ⟨h.reg, h.noTarget, h.startedTarget, ?_, ?_, h.sigComp, h.sigDone, h.runFresh, h.seqDone, h.issuedDone, h.depsDone⟩
      · intro ht k' hk'
        have e : k' ≠ k := fun e => by subst e; rw [hst] at hk'; cases hk'
        show upd s.validSeen k _ k' = none; rw [upd_other _ _ _ _ e]; exact h.idleNoValid ht k' hk'
      · intro k' hk' hv
        by_cases e : k' = k
        · subst e; exact hsig
        · have hv' : (s.validSeen k').isSome = true := by
            have : upd s.validSeen k (some b) k' = s.validSeen k' := upd_other _ _ _ _ e
            rw [← this]; exact hv
          exact h.sigScan k' hk' hv'
    · cases hs
  case needs k reason input =>
    split at hs
    · cases hs
      rename_i hc
      simp only [Bool.and_eq_true, beq_iff_eq] at hc
      exact Inv2.update (s := s) (k := k) (st := .needsRun) h (by rw [hc.1]; simp) (by rw [hc.1]; simp) (by simp)
        (fun _ => rfl) (fun _ _ => rfl) (fun _ _ => rfl) rfl rfl rfl rfl rfl rfl
        (fun x hx => Or.inl hx)
        (by intro e; cases e) (by intro e; cases e) (by intro e; cases e) (by intro e; cases e)
        (by intro e; rcases e with e | e <;> cases e) (by intro e; cases e) (by intro _ e; cases e)
    · cases hs
  case upToDate k =>
    split at hs
    · cases hs
      rename_i hc
      simp only [Bool.and_eq_true, beq_iff_eq, List.all_eq_true] at hc
      obtain ⟨⟨hst, hv⟩, hall⟩ := hc
      refine Inv2.update (s := s) (k := k) (st := .done) h (by rw [hst]; simp) (by rw [hst]; simp) (by simp)
        (fun _ => rfl) (fun _ _ => rfl) (fun k' e => setRes_res_other _ _ _ _ e) rfl rfl rfl rfl rfl rfl
        ?_ (by intro e; cases e) (by intro e; cases e) ?_ (by intro e; cases e)
        (by intro e; rcases e with e | e <;> cases e) (by intro e; cases e) ?_
      · intro x hx
        by_cases e : x = k
        · right; exact ⟨e, rfl⟩
        · left
          obtain ⟨p, hp, hpx⟩ := List.mem_map.1 hx
          exact List.mem_map.2 ⟨p, List.mem_filter.2 ⟨hp, by simp [hpx, e]⟩, hpx⟩
      · intro _
        simp only [setRes_res_same]
        exact h.sigScan k hst (by rw [hv]; rfl)
      · intro _ _ d hd
        simp only [setRes_res_same] at hd
        have := hall d hd
        simp only [depFresh, Bool.and_eq_true, isDone, beq_iff_eq] at this
        left; exact this.1
    · cases hs
  case create k =>
    split at hs
    · cases hs
      rename_i hc
      simp only [Bool.and_eq_true, beq_iff_eq] at hc
      exact Inv2.update (s := s) (k := k) (st := .running) h (by rw [hc.1]; simp) (by rw [hc.1]; simp) (by simp)
        (fun _ => rfl) (fun k' e => upd_other _ _ _ _ e) (fun k' e => setRes_res_other _ _ _ _ e) rfl rfl rfl rfl rfl rfl
        (fun x hx => Or.inl hx)
        (by intro e; cases e) (by intro e; cases e) (by intro e; cases e) (by intro _; simp)
        (by intro _ q v hq; simp at hq) (by intro e; cases e) (by intro _ e; cases e)
    · cases hs
  case start k reqs =>
    split at hs
    · cases hs
      rename_i hc
      simp only [Bool.and_eq_true, beq_iff_eq] at hc
      have hrun := hc.1.1
      refine Inv2.update (s := s) (k := k) (st := .running) h (by rw [hrun]; simp) (by rw [hrun]; simp) (by simp)
        ?_ (fun k' e => upd_other _ _ _ _ e) (fun _ _ => rfl) rfl rfl rfl rfl rfl rfl
        (fun x hx => Or.inl hx)
        (by intro e; cases e) (by intro e; cases e) (by intro e; cases e) (by intro _; simp)
        (by intro _ q v hq; simp at hq) (by intro e; cases e) (by intro _ e; cases e)
      intro k'
      by_cases e : k' = k
      · subst e; simp [hrun]
      · rw [upd_other _ _ _ _ e]
    · cases hs
  case prior k v =>
    split at hs
    · cases hs
      rename_i hc
      simp only [Bool.and_eq_true, beq_iff_eq] at hc
      have hrun : s.status k = .running := hc.1.1.1.1.1
      refine Inv2.update (s := s) (k := k) (st := .running) h (by rw [hrun]; simp) (by rw [hrun]; simp) (by simp)
        ?_ (fun k' e => upd_other _ _ _ _ e) (fun _ _ => rfl) rfl rfl rfl rfl rfl rfl
        (fun x hx => Or.inl hx)
        (by intro e; cases e) (by intro e; cases e) (by intro e; cases e) ?_
        ?_ (by intro e; cases e) (by intro _ e; cases e)
      · intro k'
        by_cases e : k' = k
        · subst e; simp [hrun]
        · rw [upd_other _ _ _ _ e]
      · intro _; simp only [upd_same]; exact h.runFresh k hrun
      · intro _ q v hq; simp only [upd_same] at hq; exact h.seqDone k (Or.inl hrun) q v hq
    · cases hs
  case provide k id key v reqs =>
    split at hs
    · rename_i hc
      simp only [Bool.and_eq_true, beq_iff_eq] at hc
      have hrun : s.status k = .running := hc.1.1
      split at hs
      · cases hs
      · rename_i q hfind
        split at hs
        · cases hs
          rename_i hc2
          simp only [Bool.and_eq_true, beq_iff_eq, isDone] at hc2
          have hq := List.find?_some hfind
          simp only [Bool.and_eq_true, beq_iff_eq] at hq
          refine Inv2.update (s := s) (k := k) (st := .running) h (by rw [hrun]; simp) (by rw [hrun]; simp) (by simp)
            ?_ (fun k' e => upd_other _ _ _ _ e) (fun _ _ => rfl) rfl rfl rfl rfl rfl rfl
            (fun x hx => Or.inl hx)
            (by intro e; cases e) (by intro e; cases e) (by intro e; cases e) ?_
            ?_ (by intro e; cases e) (by intro _ e; cases e)
          · intro k'
            by_cases e : k' = k
            · subst e; simp [hrun]
            · rw [upd_other _ _ _ _ e]
          · intro _; simp only [upd_same]; exact h.runFresh k hrun
          · intro _ q' v' hq'
            simp only [upd_same] at hq'
            rcases List.mem_cons.1 hq' with e | hq'
            · cases e; rw [hq.1.1.1]; exact hc2.1.1
            · exact h.seqDone k (Or.inl hrun) q' v' hq'
        · cases hs
    · cases hs
  case inputsAvail k discs =>
    split at hs
    · cases hs
      rename_i hc
      simp only [Bool.and_eq_true, beq_iff_eq, List.all_eq_true] at hc
      have hrun : s.status k = .running := hc.1.1.1.1
      refine Inv2.update (s := s) (k := k) (st := .computing) h (by rw [hrun]; simp) (by rw [hrun]; simp) (by simp)
        (fun _ => rfl) (fun k' e => upd_other _ _ _ _ e) (fun _ _ => rfl) rfl rfl rfl rfl rfl rfl
        (fun x hx => Or.inl hx)
        (by intro e; cases e) ?_ (by intro e; cases e) (by intro e; cases e)
        ?_ ?_ (by intro _ e; cases e)
      · intro _ hcomp
        simp only [upd_same] at hcomp
        have := h.runFresh k hrun
        rw [this] at hcomp; cases hcomp
      · intro _ q v hq; simp only [upd_same] at hq; exact h.seqDone k (Or.inl hrun) q v hq
      · intro _ q hq
        simp only [upd_same] at hq
        have := hc.1.2 q hq
        split at this
        · simpa [isDone] using this
        · simp only [delivered, List.any_eq_true, beq_iff_eq] at this
          obtain ⟨qv, hqv, e⟩ := this
          have := h.seqDone k (Or.inl hrun) qv.1 qv.2 hqv
          rw [e] at this; exact this
    · cases hs
  case complete k v force =>
    split at hs
    · cases hs
      rename_i hc
      simp only [Bool.and_eq_true, beq_iff_eq] at hc
      have hcomp : s.status k = .computing := hc.1.1.1.1
      refine Inv2.update (s := s) (k := k) (st := .computing) h (by rw [hcomp]; simp) (by rw [hcomp]; simp) (by simp)
        ?_ (fun k' e => upd_other _ _ _ _ e) (fun k' e => setRes_res_other _ _ _ _ e) rfl rfl rfl rfl rfl rfl
        (fun x hx => Or.inl hx)
        (by intro e; cases e) ?_ (by intro e; cases e) (by intro e; cases e)
        ?_ ?_ (by intro _ e; cases e)
      · intro k'
        by_cases e : k' = k
        · subst e; simp [hcomp]
        · rw [upd_other _ _ _ _ e]
      · intro _ _
        simp only [setRes_res_same]
        split <;> rfl
      · intro _ q v hq; simp only [upd_same] at hq; exact h.seqDone k (Or.inr hcomp) q v hq
      · intro _ q hq; simp only [upd_same] at hq; exact h.issuedDone k hcomp q hq
    · cases hs
  case ret v =>
    split at hs
    · cases hs
    · split at hs
      · cases hs
      · split at hs
        · cases hs
          exact Inv2.congr (s := s) rfl rfl rfl rfl rfl (fun _ => rfl) rfl rfl (fun _ => rfl) (fun hr => by cases hr) h
        · split at hs
          · cases hs
            refine Inv2.congr (s := s) rfl rfl rfl rfl rfl ?_ rfl rfl ?_ (fun hr => by cases hr) h
            · intro k; show (if inflight s k then _ else _ : Res).sig = _; split <;> rfl
            · intro k; show (if inflight s k then _ else _ : Res).deps = _; split <;> rfl
          · cases hs
  case finished k row =>
    split at hs
    · cases hs
      rename_i hc
      simp only [Bool.and_eq_true, beq_iff_eq] at hc
      obtain ⟨⟨⟨⟨⟨⟨⟨⟨⟨hcomp, _⟩, hdone⟩, _⟩, _⟩, _⟩, _⟩, _⟩, hperm⟩, hdisc⟩ := id hc
      refine Inv2.update (s := s) (k := k) (st := .done) h (by rw [hcomp]; simp) (by rw [hcomp]; simp) (by simp)
        (fun _ => rfl) (fun _ _ => rfl) ?_ rfl rfl rfl rfl rfl rfl
        ?_ (by intro e; cases e) (by intro e; cases e) ?_ (by intro e; cases e)
        (by intro e; rcases e with e | e <;> cases e) (by intro e; cases e) ?_
      · intro k' e; show upd s.mem.res k _ k' = _; rw [upd_other _ _ _ _ e]
      · intro x hx
        by_cases e : x = k
        · right; exact ⟨e, rfl⟩
        · left
          obtain ⟨p, hp, hpx⟩ := List.mem_map.1 hx
          exact List.mem_map.2 ⟨p, List.mem_append_left _ (List.mem_filter.2 ⟨hp, by simp [hpx, e]⟩), hpx⟩
      · intro _
        show (upd s.mem.res k _ k).sig = _
        simp only [upd_same]
        exact h.sigComp k hcomp hdone
      · intro _ _ d hd
        have hd' : d ∈ row.deps := by
          have : (upd s.mem.res k { s.mem.res k with builtAt := s.epoch, deps := row.deps } k).deps = row.deps := by simp
          exact this ▸ hd
        rw [← List.take_append_drop (s.task k).issued.length row.deps] at hd'
        rcases List.mem_append.1 hd' with h1 | h1
        · -- a request: the key was complete when the inputs became available
          have := isPerm_sub _ _ hperm d h1
          obtain ⟨q, hq, e⟩ := List.mem_map.1 this
          left
          have := h.issuedDone k hcomp q hq
          rw [← e]; exact this
        · -- a discovered dependency: complete, or now pending
          rw [hdisc] at h1
          simp only [discDeps, List.mem_map] at h1
          obtain ⟨x, hx, e⟩ := h1
          by_cases hdn : s.status x = .done
          · left; rw [← e]; exact hdn
          · by_cases ek : x = k
            · right; left; rw [← e]; exact ek
            · right; right
              rw [← e]
              refine List.mem_map.2 ⟨(x, P.out x s.env []), List.mem_append_right _ (List.mem_filter.2 ⟨List.mem_map.2 ⟨x, hx, rfl⟩, ?_⟩), rfl⟩
              simp [isDone, hdn, ek]
    · cases hs

theorem run_inv2 {P : Program} : ∀ (evs : List Event) (s s' : St), Inv2 s → run P s evs = some s' → Inv2 s'
  | [], s, s', h, hr => by simp only [run, Option.some.injEq] at hr; subst hr; exact h
  | e :: es, s, s', h, hr => by
    simp only [run] at hr
    cases hs : step P s e with
    | none => rw [hs] at hr; simp at hr
    | some s1 =>
      rw [hs] at hr
      simp only [Option.bind] at hr
      exact run_inv2 es s1 s' (h.preserved hs) hr

theorem reach_inv2 {P : Program} {evs : List Event} {s : St} (h : run P {} evs = some s) : Inv2 s :=
  run_inv2 evs {} s Inv2.init h

/-- events that end a build or pass time without changing a record of a rule that is not in flight,
the external state or the epoch -/
def Event.keepsRecords : Event → Bool
  | .ret _ => true
  | .tail _ _ => true
  | .dbEnd => true
  | .dbIter _ => true
  | .dbBegin => true
  | .dbGet _ _ => true
  | .lookup _ => true
  | .error _ => true
  | .cancel => true
  | .cycle _ => true
  | _ => false

/-- the rules of `S` are registered and none of them is in flight -/
def Parked (s : St) (S : Key → Prop) : Prop := ∀ k, S k → inflight s k = false ∧ s.registered k = true

theorem Settled.transport {P : Program} {s s' : St} {S : Key → Prop}
    (hres : ∀ k, S k → s'.mem.res k = s.mem.res k) (hep : s'.epoch = s.epoch) (henv : s'.env = s.env)
    (hreg : ∀ k, S k → s'.registered k = true ∧ s'.sigAt k = s.sigAt k)
    (hQ : ∀ k, S k → s.registered k = true) (hS : Settled P s S) : Settled P s' S := by
  refine ⟨?_, ?_, ?_, ?_, ?_, ?_⟩
  · intro k hk; rw [hres k hk]; exact hS.built k hk
  · intro k hk; rw [hres k hk, hep]; exact hS.bound k hk
  · intro k hk
    have := hS.sig k hk
    rw [hQ k hk] at this
    rw [hres k hk, (hreg k hk).1, (hreg k hk).2]; simpa using this
  · intro k hk; rw [hres k hk, henv]; exact hS.valid k hk
  · intro k hk d hd; rw [hres k hk] at hd; exact hS.closed k hk d hd
  · intro k hk d hd h1 h2
    rw [hres k hk] at hd ⊢
    rw [hres d.key (hS.closed k hk d hd h1)]
    exact hS.fresh k hk d hd h1 h2

theorem Settled.keep {P : Program} {s s' : St} {S : Key → Prop} {e : Event}
    (hs : step P s e = some s') (he : e.keepsRecords = true) (hQ : Parked s S) (hS : Settled P s S) :
    Settled P s' S ∧ Parked s' S := by
  have same : ∀ s1 : St, (∀ k, s1.mem.res k = s.mem.res k) → s1.epoch = s.epoch → s1.env = s.env →
      s1.registered = s.registered → s1.sigAt = s.sigAt → s1.status = s.status → Settled P s1 S ∧ Parked s1 S := by
    intro s1 h1 h2 h3 h4 h5 h6
    refine ⟨Settled.transport (s := s) (fun k _ => h1 k) h2 h3 (fun k hk => ⟨by rw [h4]; exact (hQ k hk).2, by rw [h5]⟩)
      (fun k hk => (hQ k hk).2) hS, ?_⟩
    intro k hk
    refine ⟨?_, by rw [h4]; exact (hQ k hk).2⟩
    have := (hQ k hk).1
    simp only [inflight] at this ⊢; rw [h6]; exact this
  cases e <;> simp only [Event.keepsRecords] at he <;> (try (exact absurd he (by decide))) <;> simp only [step] at hs
  case dbBegin => cases hs; exact ⟨hS, hQ⟩
  case dbGet k found =>
    split at hs
    · cases hs; exact ⟨hS, hQ⟩
    · cases hs
  case dbEnd =>
    split at hs
    · cases hs; exact same _ (fun _ => rfl) rfl rfl rfl rfl rfl
    · cases hs
  case dbIter e =>
    split at hs
    · cases hs; exact same _ (fun _ => rfl) rfl rfl rfl rfl rfl
    · cases hs
  case error m => cases hs; exact same _ (fun _ => rfl) rfl rfl rfl rfl rfl
  case cancel => cases hs; exact same _ (fun _ => rfl) rfl rfl rfl rfl rfl
  case cycle ks =>
    split at hs
    · split at hs
      · cases hs; exact same _ (fun _ => rfl) rfl rfl rfl rfl rfl
      · cases hs
    · cases hs
  case lookup k =>
    split at hs
    · cases hs
      rename_i hc
      simp only [Bool.not_eq_eq_eq_not, Bool.not_true] at hc
      have hne : ∀ k', S k' → k' ≠ k := fun k' hk' e => by
        have := (hQ k' hk').2; rw [e, hc] at this; cases this
      refine ⟨Settled.transport (s := s) (fun _ _ => rfl) rfl rfl (fun k' hk' => ?_) (fun k' hk' => (hQ k' hk').2) hS, ?_⟩
      · exact ⟨by show upd s.registered k true k' = true; rw [upd_other _ _ _ _ (hne k' hk')]; exact (hQ k' hk').2,
               by show upd s.sigAt k _ k' = _; rw [upd_other _ _ _ _ (hne k' hk')]⟩
      · intro k' hk'
        exact ⟨(hQ k' hk').1, by show upd s.registered k true k' = true; rw [upd_other _ _ _ _ (hne k' hk')]; exact (hQ k' hk').2⟩
    · cases hs
  case ret v =>
    split at hs
    · cases hs
    · split at hs
      · cases hs
      · split at hs
        · cases hs; exact same _ (fun _ => rfl) rfl rfl rfl rfl rfl
        · split at hs
          · cases hs
            refine ⟨Settled.transport (s := s) (fun k hk => ?_) rfl rfl (fun k hk => ⟨(hQ k hk).2, rfl⟩) (fun k hk => (hQ k hk).2) hS, ?_⟩
            · show (if inflight s k then _ else _ : Res) = _; rw [(hQ k hk).1]; rfl
            · intro k hk; exact hQ k hk
          · cases hs
  case tail live late =>
    split at hs
    · cases hs
      refine ⟨Settled.transport (s := s) (fun k hk => ?_) rfl rfl (fun k hk => ⟨(hQ k hk).2, rfl⟩) (fun k hk => (hQ k hk).2) hS, ?_⟩
      · show (if inflight s k then _ else _ : Res) = _; rw [(hQ k hk).1]; rfl
      · intro k hk; exact ⟨rfl, (hQ k hk).2⟩
    · cases hs

theorem Settled.keepAll {P : Program} {S : Key → Prop} : ∀ (evs : List Event) (s s' : St),
    run P s evs = some s' → (∀ e ∈ evs, e.keepsRecords = true) → Parked s S → Settled P s S →
    Settled P s' S ∧ Parked s' S
  | [], s, s', hr, _, hQ, hS => by simp only [run, Option.some.injEq] at hr; subst hr; exact ⟨hS, hQ⟩
  | e :: es, s, s', hr, he, hQ, hS => by
    simp only [run] at hr
    cases hs : step P s e with
    | none => rw [hs] at hr; simp at hr
    | some s1 =>
      rw [hs] at hr
      simp only [Option.bind] at hr
      have h1 := Settled.keep hs (he e List.mem_cons_self) hQ hS
      exact Settled.keepAll es s1 s' hr (fun x hx => he x (List.mem_cons_of_mem _ hx)) h1.2 h1.1

/-- at a moment of a build at which nothing is pending, the rules that are complete are settled,
provided their rules accept the values they hold -/
theorem settled_of_done {P : Program} {s : St} (hi : Inv P s) (h2 : Inv2 s)
    (hret : s.returned = false) (hpend : s.pending = [])
    (hv : ∀ k, s.status k = .done → P.valid s.env k (s.mem.res k).value = true) :
    Settled P s (fun k => s.status k = .done) ∧ Parked s (fun k => s.status k = .done) := by
  refine ⟨⟨?_, ?_, ?_, hv, ?_, ?_⟩, ?_⟩
  · intro k hk
    have := hi.stDone k hk
    have hp := hi.startedPos this.1
    rw [this.2]; omega
  · intro k _; exact (hi.memE k).1
  · intro k hk
    rw [h2.reg k (by rw [hk]; simp)]
    simpa using h2.sigDone k hk
  · intro k hk d hd _
    rcases h2.depsDone hret k hk d hd with h1 | h1
    · exact h1
    · rw [hpend] at h1; cases h1
  · intro k hk d hd _ _
    rw [(hi.stDone k hk).2]
    exact (hi.memE d.key).2
  · intro k hk
    refine ⟨?_, h2.reg k (by rw [hk]; simp)⟩
    simp [inflight, hk]

theorem keepsRecords_value {P : Program} {s s' : St} {e : Event}
    (hs : step P s e = some s') (he : e.keepsRecords = true) (k : Key) :
    (s'.mem.res k).value = (s.mem.res k).value := by
  cases e <;> simp only [Event.keepsRecords] at he <;> (try (exact absurd he (by decide))) <;> simp only [step] at hs
  case dbBegin => cases hs; rfl
  case error m => cases hs; rfl
  case cancel => cases hs; rfl
  case cycle ks =>
    split at hs
    · split at hs
      · cases hs; rfl
      · cases hs
    · cases hs
  case ret v =>
    split at hs
    · cases hs
    · split at hs
      · cases hs
      · split at hs
        · cases hs; rfl
        · split at hs
          · cases hs; show (if inflight s k then _ else _ : Res).value = _; split <;> rfl
          · cases hs
  case tail live late =>
    split at hs
    · cases hs; show (if inflight s k then _ else _ : Res).value = _; split <;> rfl
    · cases hs
  all_goals
    split at hs
    · cases hs; rfl
    · cases hs

theorem keepsRecords_values {P : Program} : ∀ (evs : List Event) (s s' : St),
    run P s evs = some s' → (∀ e ∈ evs, e.keepsRecords = true) → ∀ k, (s'.mem.res k).value = (s.mem.res k).value
  | [], s, s', hr, _, k => by simp only [run, Option.some.injEq] at hr; subst hr; rfl
  | e :: es, s, s', hr, he, k => by
    simp only [run] at hr
    cases hs : step P s e with
    | none => rw [hs] at hr; simp at hr
    | some s1 =>
      rw [hs] at hr
      simp only [Option.bind] at hr
      rw [keepsRecords_values es s1 s' hr (fun x hx => he x (List.mem_cons_of_mem _ hx)) k]
      exact keepsRecords_value hs (he e List.mem_cons_self) k

end LLBuild.Engine
