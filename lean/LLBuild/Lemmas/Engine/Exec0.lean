/-
C06 "the same set of executed rules": THE IN-ORDER GUARDS.

`Engine.step` accepts `scanning k` when `k` is ANY recorded dependency of a rule that is being scanned (`demanded`), and
`needs k 3 (some d)` for ANY changed dependency `d`.  That is too weak for the executed set to be a function of the
state a build starts from: the real engine scans the recorded dependencies of a rule IN ORDER and stops at the first
changed one, so dependencies behind it are never demanded by the scan (and may never be demanded at all — e.g. a
discovered dependency that the re-run no longer discovers); the monitor would equally accept a run that scans (and
executes) them first (notes/REFINESCHED.md §13.1 has a concrete pair).  This file adds the two missing guards as a
separate check `evOkX` (Model/Engine.lean is not changed):

* `scanning k`: as `demanded`, but the "dependency of a scanning rule `a`" alternative requires `validSeen a = some true`
  (the engine looks at dependencies only after `isResultValid` said yes) and that every recorded dependency of `a`
  BEFORE (the first occurrence of) `k` is `depFresh` (complete in this build and, unless order-only, not newer);
* `needs k 3 (some d)`: `d` is the key of the FIRST recorded dependency of `k` that is not `depFresh`.

`stepX` / `runX` = `step` / `run` with the check.  Every `runX` is a `run` (`runX_run`), so every invariant of the
monitor holds along it.  CORE LEAN ONLY.
-/
import LLBuild.Model.Engine

namespace LLBuild.Engine

/-- `k` is the key of a dependency in `deps` all of whose predecessors are fresh -/
def inOrderAt (s : St) (r : Res) : List Dep → Key → Bool
  | [], _ => false
  | d :: ds, k => d.key == k || (depFresh s r d && inOrderAt s r ds k)

/-- the first dependency that is not fresh -/
def firstStale (s : St) (r : Res) : List Dep → Option Dep
  | [] => none
  | d :: ds => if depFresh s r d then firstStale s r ds else some d

/-- `demanded` with the in-order scan -/
def demandedX (s : St) (k : Key) : Bool :=
  s.target == some k
  || s.pending.any (fun p => p.1 == k)
  || s.scanned.any (fun a => s.status a == .scanning && s.validSeen a == some true &&
        inOrderAt s (s.mem.res a) (s.mem.res a).deps k)
  || s.ran.any (fun a => s.status a == .running && (s.task a).issued.any (fun q => q.key == k))

/-- the additional guards -/
def evOkX (s : St) : Event → Bool
  | .scanning k => demandedX s k
  | .needs k 3 (some d) => (firstStale s (s.mem.res k) (s.mem.res k).deps).map (fun dp => dp.key) == some d
  | _ => true

def stepX (P : Program) (s : St) (e : Event) : Option St := if evOkX s e then step P s e else none

def runX (P : Program) : St → List Event → Option St
  | s, [] => some s
  | s, e :: es => (stepX P s e).bind (fun s' => runX P s' es)

theorem stepX_step {P : Program} {s s' : St} {e : Event} (h : stepX P s e = some s') :
    step P s e = some s' ∧ evOkX s e = true := by
  unfold stepX at h
  split at h
  · rename_i hc; exact ⟨h, hc⟩
  · cases h

theorem runX_run {P : Program} : ∀ (evs : List Event) (s s' : St), runX P s evs = some s' → run P s evs = some s'
  | [], s, s', h => h
  | e :: es, s, s', h => by
    simp only [runX] at h
    cases hs : stepX P s e with
    | none => rw [hs] at h; simp at h
    | some s1 =>
      rw [hs] at h; simp only [Option.bind_some] at h
      simp only [run, (stepX_step hs).1, Option.bind_some]
      exact runX_run es s1 s' h

/-- the in-order alternative, from an index -/
theorem inOrderAt_of_take (s : St) (r : Res) : ∀ (deps : List Dep) (i : Nat) (d : Dep) (k : Key),
    deps[i]? = some d → d.key = k → (∀ x ∈ deps.take i, depFresh s r x = true) → inOrderAt s r deps k = true
  | [], i, d, k, h, _, _ => by simp at h
  | x :: xs, 0, d, k, h, hk, _ => by
    simp only [List.getElem?_cons_zero, Option.some.injEq] at h
    subst h
    simp [inOrderAt, hk]
  | x :: xs, i + 1, d, k, h, hk, hp => by
    simp only [List.getElem?_cons_succ] at h
    have hx : depFresh s r x = true := hp x (by simp)
    have := inOrderAt_of_take s r xs i d k h hk (fun y hy => hp y (by simp [hy]))
    simp [inOrderAt, hx, this]

/-- … and back: a split of the list -/
theorem inOrderAt_split (s : St) (r : Res) : ∀ (deps : List Dep) (k : Key), inOrderAt s r deps k = true →
    ∃ pre d post, deps = pre ++ d :: post ∧ d.key = k ∧ ∀ x ∈ pre, depFresh s r x = true
  | [], _, h => by simp [inOrderAt] at h
  | x :: xs, k, h => by
    simp only [inOrderAt, Bool.or_eq_true, beq_iff_eq, Bool.and_eq_true] at h
    rcases h with h | ⟨hx, h⟩
    · exact ⟨[], x, xs, rfl, h, fun _ hy => by cases hy⟩
    · obtain ⟨pre, d, post, e, hk, hp⟩ := inOrderAt_split s r xs k h
      refine ⟨x :: pre, d, post, by rw [e]; rfl, hk, ?_⟩
      intro y hy
      rcases List.mem_cons.1 hy with e' | e'
      · rw [e']; exact hx
      · exact hp y e'

/-- the first stale dependency, from an index -/
theorem firstStale_of_take (s : St) (r : Res) : ∀ (deps : List Dep) (i : Nat) (d : Dep),
    deps[i]? = some d → depFresh s r d = false → (∀ x ∈ deps.take i, depFresh s r x = true) →
    firstStale s r deps = some d
  | [], i, d, h, _, _ => by simp at h
  | x :: xs, 0, d, h, hd, _ => by
    simp only [List.getElem?_cons_zero, Option.some.injEq] at h
    subst h
    simp [firstStale, hd]
  | x :: xs, i + 1, d, h, hd, hp => by
    simp only [List.getElem?_cons_succ] at h
    have hx : depFresh s r x = true := hp x (by simp)
    simp only [firstStale, hx, if_true]
    exact firstStale_of_take s r xs i d h hd (fun y hy => hp y (by simp [hy]))

/-- … and back -/
theorem firstStale_split (s : St) (r : Res) : ∀ (deps : List Dep) (d : Dep), firstStale s r deps = some d →
    ∃ pre post, deps = pre ++ d :: post ∧ depFresh s r d = false ∧ ∀ x ∈ pre, depFresh s r x = true
  | [], _, h => by simp [firstStale] at h
  | x :: xs, d, h => by
    simp only [firstStale] at h
    split at h
    · rename_i hx
      obtain ⟨pre, post, e, hd, hp⟩ := firstStale_split s r xs d h
      refine ⟨x :: pre, post, by rw [e]; rfl, hd, ?_⟩
      intro y hy
      rcases List.mem_cons.1 hy with e' | e'
      · rw [e']; exact hx
      · exact hp y e'
    · rename_i hx
      simp only [Option.some.injEq] at h
      subst h
      exact ⟨[], xs, rfl, by simpa using hx, fun _ hy => by cases hy⟩

end LLBuild.Engine
