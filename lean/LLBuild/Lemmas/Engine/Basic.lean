import LLBuild.Lemmas.Engine.Defs

namespace LLBuild.Engine

theorem inflight_congr {s s' : St} (h : s'.status = s.status) (k : Key) : inflight s' k = inflight s k := by
  simp [inflight, h]

theorem active_congr {s s' : St} (h1 : s'.started = s.started) : active s' ↔ active s := by
  simp [active, h1]

theorem TaskOk.congr {P : Program} {s s' : St} {k : Key} (h1 : s'.env = s.env) (h3 : s'.mem = s.mem)
    (h6 : s'.status = s.status) (h7 : s'.task = s.task) (h : TaskOk P s k) : TaskOk P s' k := by
  constructor
  · rw [h7]; exact h.issued
  · rw [h7]; exact h.valid
  · rw [h7, h6, h3]; exact h.inputs
  · rw [h7, h6]; exact h.running
  · rw [h7, h6, h3, h1]; exact h.computing

/-- `Inv` only reads these thirteen fields of the state (`sigAt` only at registered rules). -/
theorem Inv.congr {P : Program} {s s' : St} (h1 : s'.env = s.env) (h2 : s'.epoch = s.epoch) (h3 : s'.mem = s.mem)
    (h4 : s'.db = s.db) (h5 : s'.dbIter = s.dbIter) (h6 : s'.status = s.status) (h7 : s'.task = s.task)
    (h8 : s'.pending = s.pending) (h9 : s'.target = s.target) (h10 : s'.started = s.started)
    (h11 : s'.validSeen = s.validSeen) (h12 : s'.registered = s.registered)
    (h13 : ∀ k, s.registered k = true → s'.sigAt k = s.sigAt k) (hi : Inv P s) : Inv P s' := by
  have ha : active s' ↔ active s := active_congr h10
  have hf : ∀ k, inflight s' k = inflight s k := inflight_congr h6
  constructor
  · rw [h3, h2]; exact hi.memE
  · rw [h4, h2]; exact hi.dbE
  · rw [h5, h2]; exact hi.iterLe
  · rw [h9, h10, h5, h2]; exact hi.iterEq
  · rw [h9, h8]; exact hi.pendIdle
  · rw [h10, h2]; exact hi.startedPos
  · rw [h10, h9]; exact hi.startedTarget
  · rw [h10, h9, h6]; exact hi.notStarted
  · rw [h9, h6]; exact hi.stIdle
  · intro k hk; rw [h6] at hk; rw [ha, h3, h2]; exact hi.stDone k hk
  · intro hact k hk; rw [h3, h2] at hk; rw [h6]; exact hi.builtNow (ha.1 hact) k hk
  · intro hact k hk; rw [h4, h2] at hk; rw [h6]; exact hi.dbBuiltNow (ha.1 hact) k hk
  · intro k hk; rw [h6] at hk; rw [h3, h6, h8]; exact hi.seqDone k hk
  · intro k hb hfl; rw [h3] at hb; rw [hf] at hfl; rw [h3, h8]; exact hi.good k hb hfl
  · intro k hb; rw [h4] at hb; rw [h4, h8]; exact hi.dbGood k hb
  · intro k hb; rw [h4] at hb; rw [h4, h3, h8]; exact hi.dbCross k hb
  · intro k hb hfl; rw [h3] at hb; rw [hf] at hfl; rw [h3, h4]; exact hi.memDb k hb hfl
  · intro k hk; rw [h6] at hk; rw [h1, h3]; exact hi.clean k hk
  · intro d v hd; rw [h8] at hd; rw [h1, h6]; exact hi.pendOk d v hd
  · intro k hfl hs; rw [hf] at hfl; rw [h7] at hs; exact (hi.taskOk k hfl hs).congr h1 h3 h6 h7
  · intro k hfl; rw [hf] at hfl; exact ha.2 (hi.inflightActive k hfl)
  · intro k hk hv; rw [h6] at hk; rw [h11] at hv; rw [h1, h3, h13 k (hi.scanReg k hk)]; exact hi.validOk k hk hv
  · rw [h9, h6, h11]; exact hi.validIdle
  · intro k hk; rw [h12] at hk; rw [h13 k hk]; exact hi.sigAtOk k hk
  · rw [h6, h12]; exact hi.scanReg

theorem Inv.init (P : Program) : Inv P ({} : St) := by
  constructor <;> intros <;> simp_all [active, inflight]

end LLBuild.Engine

namespace LLBuild.Engine

@[simp] theorem setRes_res_same (σ : Store) (k : Key) (r : Res) : (σ.setRes k r).res k = r := by simp [Store.setRes]
theorem setRes_res_other (σ : Store) (k k' : Key) (r : Res) (h : k' ≠ k) : (σ.setRes k r).res k' = σ.res k' := by
  simp [Store.setRes, upd, h]
@[simp] theorem setRes_seq (σ : Store) (k : Key) (r : Res) : (σ.setRes k r).seq = σ.seq := rfl
@[simp] theorem setRes_disc (σ : Store) (k : Key) (r : Res) : (σ.setRes k r).disc = σ.disc := rfl
@[simp] theorem setRes_env (σ : Store) (k : Key) (r : Res) : (σ.setRes k r).env = σ.env := rfl

/-- `GoodRec` only depends on the ghost record of `k`, its stored value, and membership in its dependency list. -/
theorem GoodRec.frame {P : Program} {σ σ' : Store} {k : Key}
    (hs : σ'.seq k = σ.seq k) (hd : σ'.disc k = σ.disc k) (he : σ'.env k = σ.env k)
    (hv : (σ'.res k).value = (σ.res k).value)
    (hdep : ∀ x, (⟨x, false, false⟩ : Dep) ∈ (σ.res k).deps → (⟨x, false, false⟩ : Dep) ∈ (σ'.res k).deps)
    (h : GoodRec P σ k) : GoodRec P σ' k := by
  constructor
  · rw [hs]; exact h.valid
  · rw [hs]; exact h.complete
  · rw [hv, he, hs]; exact h.value
  · rw [hd, he, hs]; exact h.disc
  · intro q v hq hk; rw [hs] at hq; exact hdep _ (h.depsSeq q v hq hk)
  · intro d v hq; rw [hd] at hq; exact hdep _ (h.depsDisc d v hq)

/-- `FreshRec` is monotone: `k`'s own `builtAt` may only decrease; every recorded dependency either
keeps its value with a `computedAt` that does not decrease, or is computed after `k`'s `builtAt`
(or, for discovered ones, stays pending). -/
theorem FreshRec.mono2 {σ σ' : Store} {pend pend' : List (Key × Val)} {k : Key}
    (hs : σ'.seq k = σ.seq k) (hd : σ'.disc k = σ.disc k)
    (hb : (σ'.res k).builtAt ≤ (σ.res k).builtAt)
    (hxs : ∀ q v, (q, v) ∈ σ.seq k → q.kind = 0 →
      ((σ'.res q.key).value = (σ.res q.key).value ∧ (σ.res q.key).computedAt ≤ (σ'.res q.key).computedAt) ∨
        (σ.res k).builtAt < (σ'.res q.key).computedAt)
    (hxd : ∀ d v, (d, v) ∈ σ.disc k →
      ((σ'.res d).value = (σ.res d).value ∧ (σ.res d).computedAt ≤ (σ'.res d).computedAt) ∨
        (σ.res k).builtAt < (σ'.res d).computedAt ∨ (d, v) ∈ pend')
    (hp : ∀ dv, dv ∈ σ.disc k → dv ∈ pend → dv ∈ pend' ∨ (σ'.res dv.1).value = dv.2 ∨
               (σ'.res k).builtAt < (σ'.res dv.1).computedAt)
    (h : FreshRec σ pend k) : FreshRec σ' pend' k := by
  constructor
  · intro q v hq hk
    rw [hs] at hq
    rcases hxs q v hq hk with ⟨hv, hc⟩ | hlt
    · rcases h.seq q v hq hk with h1 | h2
      · left; rw [hv]; exact h1
      · right; omega
    · right; omega
  · intro d v hq
    rw [hd] at hq
    rcases hxd d v hq with ⟨hv, hc⟩ | hlt | hpd
    · rcases h.disc d v hq with h1 | h2 | h3
      · left; rw [hv]; exact h1
      · right; left; omega
      · rcases hp (d, v) hq h3 with a | b | c
        · right; right; exact a
        · left; exact b
        · right; left; exact c
    · right; left; omega
    · right; right; exact hpd

theorem CrossFresh.mono {ρ σ σ' : Store} {pend pend' : List (Key × Val)} {k : Key}
    (hxs : ∀ q v, (q, v) ∈ ρ.seq k → q.kind = 0 →
      ((σ'.res q.key).value = (σ.res q.key).value ∧ (σ.res q.key).computedAt ≤ (σ'.res q.key).computedAt) ∨
        (ρ.res k).builtAt < (σ'.res q.key).computedAt)
    (hxd : ∀ d v, (d, v) ∈ ρ.disc k →
      ((σ'.res d).value = (σ.res d).value ∧ (σ.res d).computedAt ≤ (σ'.res d).computedAt) ∨
        (ρ.res k).builtAt < (σ'.res d).computedAt ∨ (d, v) ∈ pend')
    (hp : ∀ dv, dv ∈ ρ.disc k → dv ∈ pend → dv ∈ pend' ∨ (σ'.res dv.1).value = dv.2 ∨
               (ρ.res k).builtAt < (σ'.res dv.1).computedAt)
    (h : CrossFresh ρ σ pend k) : CrossFresh ρ σ' pend' k := by
  constructor
  · intro q v hq hk
    rcases hxs q v hq hk with ⟨hv, hc⟩ | hlt
    · rcases h.seq q v hq hk with h1 | h2
      · left; rw [hv]; exact h1
      · right; omega
    · right; omega
  · intro d v hq
    rcases hxd d v hq with ⟨hv, hc⟩ | hlt | hpd
    · rcases h.disc d v hq with h1 | h2 | h3
      · left; rw [hv]; exact h1
      · right; left; omega
      · rcases hp (d, v) hq h3 with a | b | c
        · right; right; exact a
        · left; exact b
        · right; left; exact c
    · right; left; omega
    · right; right; exact hpd

theorem FreshRec.mono {σ σ' : Store} {pend pend' : List (Key × Val)} {k : Key}
    (hs : σ'.seq k = σ.seq k) (hd : σ'.disc k = σ.disc k)
    (hb : (σ'.res k).builtAt ≤ (σ.res k).builtAt)
    (hx : ∀ x, ((σ'.res x).value = (σ.res x).value ∧ (σ.res x).computedAt ≤ (σ'.res x).computedAt) ∨
               (σ.res k).builtAt < (σ'.res x).computedAt)
    (hp : ∀ dv, dv ∈ σ.disc k → dv ∈ pend → dv ∈ pend' ∨ (σ'.res dv.1).value = dv.2 ∨
               (σ'.res k).builtAt < (σ'.res dv.1).computedAt)
    (h : FreshRec σ pend k) : FreshRec σ' pend' k :=
  FreshRec.mono2 hs hd hb (fun q _ _ _ => hx q.key)
    (fun d _ _ => (hx d).elim (fun a => Or.inl a) (fun b => Or.inr (Or.inl b))) hp h

end LLBuild.Engine
