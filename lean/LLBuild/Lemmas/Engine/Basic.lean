import LLBuild.Lemmas.Engine.Defs

namespace LLBuild.Engine

theorem inflight_congr {s s' : St} (h : s'.status = s.status) (k : Key) : inflight s' k = inflight s k := by
  simp [inflight, h]

theorem active_congr {s s' : St} (h1 : s'.started = s.started) : active s' ↔ active s := by
  simp [active, h1]

theorem TaskOk.congr {P : Program} {s s' : St} {k : Key} (h1 : s'.env = s.env) (h3 : s'.mem = s.mem)
    (h6 : s'.status = s.status) (h7 : s'.task = s.task) (h : TaskOk P s k) : TaskOk P s' k := by
  constructor
  · rw [h7]; exact h.issued
  · rw [h7]; exact h.valid
  · rw [h7, h6, h3]; exact h.inputs
  · rw [h7, h6, h3, h1]; exact h.computing

/-- `Inv` only reads these ten fields of the state. -/
theorem Inv.congr {P : Program} {s s' : St} (h1 : s'.env = s.env) (h2 : s'.epoch = s.epoch) (h3 : s'.mem = s.mem)
    (h4 : s'.db = s.db) (h5 : s'.dbIter = s.dbIter) (h6 : s'.status = s.status) (h7 : s'.task = s.task)
    (h8 : s'.pending = s.pending) (h9 : s'.target = s.target) (h10 : s'.started = s.started)
    (hi : Inv P s) : Inv P s' := by
  have ha : active s' ↔ active s := active_congr h10
  have hf : ∀ k, inflight s' k = inflight s k := inflight_congr h6
  constructor
  · rw [h3, h2]; exact hi.memE
  · rw [h4, h2]; exact hi.dbE
  · rw [h5, h2]; exact hi.iterLe
  · rw [h9, h5, h2]; exact hi.iterEq
  · rw [h10, h2]; exact hi.startedPos
  · rw [h10, h9]; exact hi.startedTarget
  · rw [h10, h9, h6]; exact hi.notStarted
  · rw [h9, h6]; exact hi.stIdle
  · intro k hk; rw [h6] at hk; rw [ha, h3, h2]; exact hi.stDone k hk
  · intro hact k hk; rw [h3, h2] at hk; rw [h6]; exact hi.builtNow (ha.1 hact) k hk
  · intro hact k hk; rw [h4, h2] at hk; rw [h6]; exact hi.dbBuiltNow (ha.1 hact) k hk
  · intro k hk; rw [h6] at hk; rw [h3, h6, h8]; exact hi.seqDone k hk
  · intro k hb hfl; rw [h3] at hb; rw [hf] at hfl; rw [h3, h8]; exact hi.good k hb hfl
  · intro k hb; rw [h4] at hb; rw [h4, h8]; exact hi.dbGood k hb
  · intro k hb hfl; rw [h3] at hb; rw [hf] at hfl; rw [h3, h4]; exact hi.memDb k hb hfl
  · intro k hk; rw [h6] at hk; rw [h1, h3]; exact hi.clean k hk
  · intro d v hd; rw [h8] at hd; rw [h1, h6]; exact hi.pendOk d v hd
  · intro k hfl hs; rw [hf] at hfl; rw [h7] at hs; exact (hi.taskOk k hfl hs).congr h1 h3 h6 h7
  · intro k hfl; rw [hf] at hfl; exact ha.2 (hi.inflightActive k hfl)

theorem Inv.init (P : Program) : Inv P ({} : St) := by
  constructor <;> intros <;> simp_all [active, inflight]

end LLBuild.Engine
