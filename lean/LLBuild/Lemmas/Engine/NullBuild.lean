/-
Null builds: when nothing gives the engine a reason to run (every rule below the requested key has
a record with the current signature, a value its rule still accepts, and no recorded dependency
computed after it was last brought up to date), no accepted trace of the next build contains the
creation of a task, and no stored value changes.  The argument is an invariant `NB` of the build
in progress; it uses the guard `demanded` of the `scanning` event (the engine only ever scans a
key somebody asked for), so the hypothesis is needed only for the keys reachable from the target.
-/
import LLBuild.Lemmas.Engine.Basic

set_option linter.unusedVariables false

namespace LLBuild.Engine

/-- events that end the build they occur in -/
def Event.endsBuild : Event → Bool
  | .tail _ _ => true
  | .crash => true
  | _ => false

/-- nothing about the records of the keys in `S` gives the engine a reason to run a task -/
structure Settled (P : Program) (s : St) (S : Key → Prop) : Prop where
  built : ∀ k, S k → (s.mem.res k).builtAt ≠ 0
  bound : ∀ k, S k → (s.mem.res k).builtAt ≤ s.epoch
  sig : ∀ k, S k → (s.mem.res k).sig = if s.registered k then s.sigAt k else P.sig s.env k
  valid : ∀ k, S k → P.valid s.env k (s.mem.res k).value = true
  closed : ∀ k, S k → ∀ d ∈ (s.mem.res k).deps, d.singleUse = false → S d.key
  fresh : ∀ k, S k → ∀ d ∈ (s.mem.res k).deps, d.singleUse = false → d.orderOnly = false →
      (s.mem.res d.key).computedAt ≤ (s.mem.res k).builtAt

/-- the invariant of a build in which no task has been created -/
structure NB (P : Program) (S : Key → Prop) (r : Key) (v0 : Key → Val) (s : St) : Prop where
  target : s.target = some r
  root : S r
  ran : s.ran = []
  pend : s.pending = []
  st : ∀ k, s.status k = .idle ∨ s.status k = .scanning ∨ s.status k = .done
  inS : ∀ k, s.status k ≠ .idle → S k ∧ s.started = true ∧ s.registered k = true
  scannedS : ∀ a ∈ s.scanned, S a
  nosu : ∀ a, s.status a = .scanning → ∀ d ∈ (s.mem.res a).deps, d.singleUse = false
  vs : ∀ k, s.validSeen k ≠ some false
  settled : Settled P s S
  epochPos : s.started = true → 0 < s.epoch
  vals : ∀ k, (s.mem.res k).value = v0 k

theorem NB.congr {P : Program} {S : Key → Prop} {r : Key} {v0 : Key → Val} {s s' : St}
    (h1 : s'.target = s.target) (h2 : s'.ran = s.ran) (h3 : s'.pending = s.pending)
    (h4 : s'.status = s.status) (h5 : s'.scanned = s.scanned) (h6 : ∀ k, s'.mem.res k = s.mem.res k)
    (h7 : s'.validSeen = s.validSeen) (h8 : s'.registered = s.registered) (h9 : s'.sigAt = s.sigAt)
    (h10 : s'.env = s.env) (h11 : s'.started = s.started) (h12 : s'.epoch = s.epoch)
    (h : NB P S r v0 s) : NB P S r v0 s' where
  target := by rw [h1]; exact h.target
  root := h.root
  ran := by rw [h2]; exact h.ran
  pend := by rw [h3]; exact h.pend
  st := by rw [h4]; exact h.st
  inS := by rw [h4, h11, h8]; exact h.inS
  scannedS := by rw [h5]; exact h.scannedS
  nosu := by
    intro a ha d hd
    rw [h4] at ha; rw [h6] at hd; exact h.nosu a ha d hd
  vs := by rw [h7]; exact h.vs
  settled := by
    refine ⟨?_, ?_, ?_, ?_, ?_, ?_⟩
    · intro k hk; rw [h6]; exact h.settled.built k hk
    · intro k hk; rw [h6, h12]; exact h.settled.bound k hk
    · intro k hk; rw [h6, h8, h9, h10]; exact h.settled.sig k hk
    · intro k hk; rw [h6, h10]; exact h.settled.valid k hk
    · intro k hk d hd; rw [h6] at hd; exact h.settled.closed k hk d hd
    · intro k hk d hd; rw [h6] at hd; rw [h6, h6]; exact h.settled.fresh k hk d hd
  epochPos := by rw [h11, h12]; exact h.epochPos
  vals := by intro k; rw [h6]; exact h.vals k

/-- under `NB` no rule is in a state from which a task could be created or advanced -/
theorem NB.notBusy {P : Program} {S : Key → Prop} {r : Key} {v0 : Key → Val} {s : St}
    (h : NB P S r v0 s) (k : Key) :
    s.status k ≠ .needsRun ∧ s.status k ≠ .running ∧ s.status k ≠ .computing := by
  rcases h.st k with e | e | e <;> rw [e] <;> simp

theorem NB.noInflight {P : Program} {S : Key → Prop} {r : Key} {v0 : Key → Val} {s : St}
    (h : NB P S r v0 s) (k : Key) : inflight s k = false := by
  have := h.notBusy k
  simp only [inflight, Bool.or_eq_false_iff, beq_eq_false_iff_ne, ne_eq]
  exact ⟨this.2.1, this.2.2⟩

/-- no reason to run is true of a state satisfying `NB` -/
theorem NB.noReason {P : Program} {S : Key → Prop} {r : Key} {v0 : Key → Val} {s : St}
    (h : NB P S r v0 s) (k : Key) (hs : s.status k = .scanning) (hreg : s.registered k = true)
    (reason : Nat) (input : Option Key) : needsOk s k reason input = false := by
  have hS : S k := (h.inS k (by rw [hs]; simp)).1
  cases hn : needsOk s k reason input
  · rfl
  · exfalso
    unfold needsOk at hn
    split at hn
    · simp only [beq_iff_eq] at hn; exact h.settled.built k hS hn
    · simp only [Bool.and_eq_true, bne_iff_ne, ne_eq] at hn
      have := h.settled.sig k hS
      rw [hreg] at this
      exact hn.2 (by simpa using this)
    · simp only [beq_iff_eq] at hn; exact h.vs k hn
    · rename_i d
      simp only [Bool.and_eq_true, beq_iff_eq, List.any_eq_true, Bool.not_eq_eq_eq_not, Bool.not_true,
        decide_eq_true_eq] at hn
      obtain ⟨⟨⟨_, dp, hdp, hkey, hoo⟩, _⟩, hlt⟩ := hn
      have := h.settled.fresh k hS dp hdp (h.nosu k hs dp hdp) hoo
      rw [hkey] at this
      omega
    · cases hn

theorem NB.preserved {P : Program} {S : Key → Prop} {r : Key} {v0 : Key → Val} {s s' : St} {e : Event}
    (h : NB P S r v0 s) (hs : step P s e = some s') (he : e.endsBuild = false) :
    NB P S r v0 s' ∧ (∀ k, e ≠ .create k) := by
  have htn : s.target.isNone = false := by rw [h.target]; rfl
  have same : ∀ s1 : St, s1.target = s.target → s1.ran = s.ran → s1.pending = s.pending →
      s1.status = s.status → s1.scanned = s.scanned → (∀ k, s1.mem.res k = s.mem.res k) →
      s1.validSeen = s.validSeen → s1.registered = s.registered → s1.sigAt = s.sigAt →
      s1.env = s.env → s1.started = s.started → s1.epoch = s.epoch → NB P S r v0 s1 :=
    fun s1 h1 h2 h3 h4 h5 h6 h7 h8 h9 h10 h11 h12 => NB.congr h1 h2 h3 h4 h5 h6 h7 h8 h9 h10 h11 h12 h
  cases e <;> simp only [step] at hs
  case buildStart k => rw [htn] at hs; simp at hs
  case mutate slot val => rw [htn] at hs; simp at hs
  case restart => rw [htn] at hs; simp at hs
  case wipe => rw [htn] at hs; simp at hs
  case tail live late => simp [Event.endsBuild] at he
  case crash => simp [Event.endsBuild] at he
  case queueCreated =>
    split at hs
    · cases hs
      refine ⟨?_, by intro k; simp⟩
      refine ⟨h.target, h.root, h.ran, h.pend, h.st, ?_, h.scannedS, h.nosu, h.vs, ?_, ?_, h.vals⟩
      · intro k hk; exact ⟨(h.inS k hk).1, rfl, (h.inS k hk).2.2⟩
      · exact ⟨h.settled.built, fun k hk => Nat.le_succ_of_le (h.settled.bound k hk), h.settled.sig,
          h.settled.valid, h.settled.closed, h.settled.fresh⟩
      · intro _; exact Nat.succ_pos _
    · cases hs
  case lookup k =>
    split at hs
    · cases hs
      rename_i hc
      simp only [Bool.not_eq_eq_eq_not, Bool.not_true] at hc
      refine ⟨?_, by intro k; simp⟩
      refine ⟨h.target, h.root, h.ran, h.pend, h.st, ?_, h.scannedS, h.nosu, h.vs, ?_, h.epochPos, h.vals⟩
      · intro k' hk'
        refine ⟨(h.inS k' hk').1, (h.inS k' hk').2.1, ?_⟩
        have := (h.inS k' hk').2.2
        by_cases e : k' = k
        · subst e; simp
        · simp only [upd_other _ _ _ _ e]; exact this
      · refine ⟨h.settled.built, h.settled.bound, ?_, h.settled.valid, h.settled.closed, h.settled.fresh⟩
        intro k' hk'
        have := h.settled.sig k' hk'
        by_cases e : k' = k
        · subst e; rw [hc] at this; simp only [upd_same]; simpa using this
        · simp only [upd_other _ _ _ _ e]; exact this
    · cases hs
  case dbGet k found =>
    split at hs
    · cases hs; exact ⟨h, by intro k; simp⟩
    · cases hs
  case dbBegin => cases hs; exact ⟨h, by intro k; simp⟩
  case dbEnd =>
    split at hs
    · cases hs; exact ⟨same _ rfl rfl rfl rfl rfl (fun _ => rfl) rfl rfl rfl rfl rfl rfl, by intro k; simp⟩
    · cases hs
  case dbIter e =>
    split at hs
    · cases hs; exact ⟨same _ rfl rfl rfl rfl rfl (fun _ => rfl) rfl rfl rfl rfl rfl rfl, by intro k; simp⟩
    · cases hs
  case error m => cases hs; exact ⟨same _ rfl rfl rfl rfl rfl (fun _ => rfl) rfl rfl rfl rfl rfl rfl, by intro k; simp⟩
  case cancel => cases hs; exact ⟨same _ rfl rfl rfl rfl rfl (fun _ => rfl) rfl rfl rfl rfl rfl rfl, by intro k; simp⟩
  case cycle ks =>
    split at hs
    · split at hs
      · cases hs; exact ⟨same _ rfl rfl rfl rfl rfl (fun _ => rfl) rfl rfl rfl rfl rfl rfl, by intro k; simp⟩
      · cases hs
    · cases hs
  case valid k v b =>
    split at hs
    · cases hs
      rename_i hc
      simp only [Bool.and_eq_true, beq_iff_eq, bne_iff_ne, ne_eq] at hc
      obtain ⟨⟨⟨⟨⟨hst, _⟩, _⟩, hv⟩, hb⟩, _⟩ := hc
      refine ⟨?_, by intro k; simp⟩
      refine ⟨h.target, h.root, h.ran, h.pend, h.st, h.inS, h.scannedS, h.nosu, ?_,
        ⟨h.settled.built, h.settled.bound, h.settled.sig, h.settled.valid, h.settled.closed, h.settled.fresh⟩,
        h.epochPos, h.vals⟩
      intro k'
      by_cases e : k' = k
      · subst e
        simp only [upd_same]
        have hS := (h.inS k' (by rw [hst]; simp)).1
        have := h.settled.valid k' hS
        rw [hb, hv, this]; simp
      · simp only [upd_other _ _ _ _ e]; exact h.vs k'
    · cases hs
  case needs k reason input =>
    split at hs
    · rename_i hc
      simp only [Bool.and_eq_true, beq_iff_eq] at hc
      have hreg := (h.inS k (by rw [hc.1]; simp)).2.2
      rw [h.noReason k hc.1 hreg reason input] at hc
      exact absurd hc.2 (by simp)
    · cases hs
  case create k =>
    split at hs
    · rename_i hc
      simp only [Bool.and_eq_true, beq_iff_eq] at hc
      exact absurd hc.1 (h.notBusy k).1
    · cases hs
  case start k reqs =>
    split at hs
    · rename_i hc
      simp only [Bool.and_eq_true, beq_iff_eq, and_assoc] at hc
      exact absurd hc.1 (h.notBusy k).2.1
    · cases hs
  case prior k v =>
    split at hs
    · rename_i hc
      simp only [Bool.and_eq_true, beq_iff_eq, and_assoc] at hc
      exact absurd hc.1 (h.notBusy k).2.1
    · cases hs
  case provide k id key v reqs =>
    split at hs
    · rename_i hc
      simp only [Bool.and_eq_true, beq_iff_eq, and_assoc] at hc
      exact absurd hc.1 (h.notBusy k).2.1
    · cases hs
  case inputsAvail k discs =>
    split at hs
    · rename_i hc
      simp only [Bool.and_eq_true, beq_iff_eq, and_assoc] at hc
      exact absurd hc.1 (h.notBusy k).2.1
    · cases hs
  case complete k v force =>
    split at hs
    · rename_i hc
      simp only [Bool.and_eq_true, beq_iff_eq, and_assoc] at hc
      exact absurd hc.1 (h.notBusy k).2.2
    · cases hs
  case finished k row =>
    split at hs
    · rename_i hc
      simp only [Bool.and_eq_true, beq_iff_eq, and_assoc] at hc
      exact absurd hc.1 (h.notBusy k).2.2
    · cases hs
  case scanning k =>
    split at hs
    · cases hs
      rename_i hc
      simp only [Bool.and_eq_true, beq_iff_eq] at hc
      obtain ⟨⟨⟨hstarted, hidle⟩, hreg⟩, hdem⟩ := hc
      refine ⟨?_, by intro k; simp⟩
      -- the key is wanted by the target or by a rule of `S` that is being scanned
      have hSk : S k := by
        simp only [demanded, h.pend, h.ran, List.any_nil, Bool.or_false, Bool.or_eq_true, beq_iff_eq,
          List.any_eq_true, Bool.and_eq_true] at hdem
        rcases hdem with ht | ⟨a, ha, hsa, d, hd, hdk⟩
        · rw [h.target] at ht; cases ht; exact h.root
        · have := h.settled.closed a (h.scannedS a ha) d hd (h.nosu a hsa d hd)
          rw [hdk] at this; exact this
      have hres : ∀ k', k' ≠ k →
          (s.mem.setRes k { s.mem.res k with deps := (s.mem.res k).deps.filter (fun d => !d.singleUse) }).res k' = s.mem.res k' :=
        fun k' e => setRes_res_other _ _ _ _ e
      refine ⟨h.target, h.root, h.ran, h.pend, ?_, ?_, ?_, ?_, h.vs, ?_, h.epochPos, ?_⟩
      · intro k'
        by_cases e : k' = k
        · subst e; right; left; simp
        · simp only [upd_other _ _ _ _ e]; exact h.st k'
      · intro k' hk'
        by_cases e : k' = k
        · subst e; exact ⟨hSk, hstarted, hreg⟩
        · simp only [upd_other _ _ _ _ e] at hk'; exact h.inS k' hk'
      · intro a ha
        rcases List.mem_cons.1 ha with rfl | ha
        · exact hSk
        · exact h.scannedS a ha
      · intro a ha d hd
        by_cases e : a = k
        · subst e
          simp only [setRes_res_same] at hd
          have := (List.mem_filter.1 hd).2
          simpa using this
        · simp only [upd_other _ _ _ _ e] at ha
          rw [hres a e] at hd
          exact h.nosu a ha d hd
      · -- the records: only the dependency list of `k` shrank
        have hdeps : ∀ k' d, d ∈ ((s.mem.setRes k { s.mem.res k with deps := (s.mem.res k).deps.filter (fun d => !d.singleUse) }).res k').deps →
            d ∈ (s.mem.res k').deps := by
          intro k' d hd
          by_cases e : k' = k
          · subst e; simp only [setRes_res_same] at hd; exact (List.mem_filter.1 hd).1
          · rw [hres k' e] at hd; exact hd
        have hsame : ∀ k', ((s.mem.setRes k { s.mem.res k with deps := (s.mem.res k).deps.filter (fun d => !d.singleUse) }).res k').builtAt = (s.mem.res k').builtAt ∧
            ((s.mem.setRes k { s.mem.res k with deps := (s.mem.res k).deps.filter (fun d => !d.singleUse) }).res k').computedAt = (s.mem.res k').computedAt ∧
            ((s.mem.setRes k { s.mem.res k with deps := (s.mem.res k).deps.filter (fun d => !d.singleUse) }).res k').sig = (s.mem.res k').sig ∧
            ((s.mem.setRes k { s.mem.res k with deps := (s.mem.res k).deps.filter (fun d => !d.singleUse) }).res k').value = (s.mem.res k').value := by
          intro k'
          by_cases e : k' = k
          · subst e; simp
          · rw [hres k' e]; exact ⟨rfl, rfl, rfl, rfl⟩
        refine ⟨?_, ?_, ?_, ?_, ?_, ?_⟩
        · intro k' hk'; show (_ : Res).builtAt ≠ 0; rw [(hsame k').1]; exact h.settled.built k' hk'
        · intro k' hk'; show (_ : Res).builtAt ≤ _; rw [(hsame k').1]; exact h.settled.bound k' hk'
        · intro k' hk'; show (_ : Res).sig = _; rw [(hsame k').2.2.1]; exact h.settled.sig k' hk'
        · intro k' hk'; show P.valid _ k' (_ : Res).value = true; rw [(hsame k').2.2.2]; exact h.settled.valid k' hk'
        · intro k' hk' d hd; exact h.settled.closed k' hk' d (hdeps k' d hd)
        · intro k' hk' d hd h1 h2
          show (_ : Res).computedAt ≤ (_ : Res).builtAt
          rw [(hsame d.key).2.1, (hsame k').1]
          exact h.settled.fresh k' hk' d (hdeps k' d hd) h1 h2
      · intro k'
        by_cases e : k' = k
        · subst e; simp only [setRes_res_same]; exact h.vals k'
        · rw [hres k' e]; exact h.vals k'
    · cases hs
  case upToDate k =>
    split at hs
    · cases hs
      rename_i hc
      simp only [Bool.and_eq_true, beq_iff_eq] at hc
      obtain ⟨⟨hst, _⟩, _⟩ := hc
      refine ⟨?_, by intro k; simp⟩
      have hin := h.inS k (by rw [hst]; simp)
      have hres : ∀ k', k' ≠ k →
          (s.mem.setRes k { s.mem.res k with builtAt := s.epoch }).res k' = s.mem.res k' :=
        fun k' e => setRes_res_other _ _ _ _ e
      refine ⟨h.target, h.root, h.ran, ?_, ?_, ?_, h.scannedS, ?_, h.vs, ?_, h.epochPos, ?_⟩
      · show List.filter _ s.pending = []; rw [h.pend]; rfl
      · intro k'
        by_cases e : k' = k
        · subst e; right; right; simp
        · simp only [upd_other _ _ _ _ e]; exact h.st k'
      · intro k' hk'
        by_cases e : k' = k
        · subst e; exact hin
        · simp only [upd_other _ _ _ _ e] at hk'; exact h.inS k' hk'
      · intro a ha d hd
        by_cases e : a = k
        · subst e; simp at ha
        · simp only [upd_other _ _ _ _ e] at ha
          rw [hres a e] at hd
          exact h.nosu a ha d hd
      · have hpos := h.epochPos hin.2.1
        refine ⟨?_, ?_, ?_, ?_, ?_, ?_⟩
        · intro k' hk'
          by_cases e : k' = k
          · subst e; simp only [setRes_res_same]; omega
          · rw [hres k' e]; exact h.settled.built k' hk'
        · intro k' hk'
          by_cases e : k' = k
          · subst e; simp only [setRes_res_same]; exact Nat.le_refl _
          · rw [hres k' e]; exact h.settled.bound k' hk'
        · intro k' hk'
          by_cases e : k' = k
          · subst e; simp only [setRes_res_same]; exact h.settled.sig k' hk'
          · rw [hres k' e]; exact h.settled.sig k' hk'
        · intro k' hk'
          by_cases e : k' = k
          · subst e; simp only [setRes_res_same]; exact h.settled.valid k' hk'
          · rw [hres k' e]; exact h.settled.valid k' hk'
        · intro k' hk' d hd
          by_cases e : k' = k
          · subst e; simp only [setRes_res_same] at hd; exact h.settled.closed k' hk' d hd
          · rw [hres k' e] at hd; exact h.settled.closed k' hk' d hd
        · intro k' hk' d hd h1 h2
          have hc : ((s.mem.setRes k { s.mem.res k with builtAt := s.epoch }).res d.key).computedAt = (s.mem.res d.key).computedAt := by
            by_cases e : d.key = k
            · rw [e]; simp
            · rw [hres d.key e]
          rw [hc]
          by_cases e : k' = k
          · subst e
            simp only [setRes_res_same] at hd ⊢
            exact Nat.le_trans (h.settled.fresh k' hk' d hd h1 h2) (h.settled.bound k' hk')
          · rw [hres k' e] at hd ⊢; exact h.settled.fresh k' hk' d hd h1 h2
      · intro k'
        by_cases e : k' = k
        · subst e; simp only [setRes_res_same]; exact h.vals k'
        · rw [hres k' e]; exact h.vals k'
    · cases hs
  case ret v =>
    rw [h.target] at hs
    simp only at hs
    split at hs
    · cases hs
    · split at hs
      · cases hs; exact ⟨same _ h.target.symm rfl rfl rfl rfl (fun _ => rfl) rfl rfl rfl rfl rfl rfl, by intro k; simp⟩
      · split at hs
        · cases hs
          refine ⟨?_, by intro k; simp⟩
          refine same _ h.target.symm rfl ?_ rfl rfl ?_ rfl rfl rfl rfl rfl rfl
          · show ([] : List (Key × Val)) = s.pending; rw [h.pend]
          · intro k; show (if inflight s k then _ else _) = _; rw [h.noInflight k]; rfl
        · cases hs

/-- the invariant holds along every accepted continuation of the build, and no task is created -/
theorem NB.along {P : Program} {S : Key → Prop} {r : Key} {v0 : Key → Val} :
    ∀ (evs : List Event) (s s' : St), NB P S r v0 s → run P s evs = some s' →
      (∀ e ∈ evs, e.endsBuild = false) → NB P S r v0 s' ∧ ∀ k, Event.create k ∉ evs
  | [], s, s', h, hr, _ => by
    simp only [run, Option.some.injEq] at hr; subst hr; exact ⟨h, by intro k; simp⟩
  | e :: es, s, s', h, hr, he => by
    simp only [run] at hr
    cases hs : step P s e with
    | none => rw [hs] at hr; simp at hr
    | some s1 =>
      rw [hs] at hr
      simp only [Option.bind] at hr
      have h1 := h.preserved hs (he e List.mem_cons_self)
      have h2 := NB.along es s1 s' h1.1 hr (fun x hx => he x (List.mem_cons_of_mem _ hx))
      refine ⟨h2.1, ?_⟩
      intro k hk
      rcases List.mem_cons.1 hk with e1 | e1
      · exact h1.2 k e1.symm
      · exact h2.2 k e1

/-- the state right after `buildStart r` satisfies the invariant when the records below `r` are settled -/
theorem NB.start {P : Program} {S : Key → Prop} {r : Key} {s s1 : St}
    (hS : Settled P s S) (hr : S r) (hs : step P s (.buildStart r) = some s1) :
    NB P S r (fun k => (s.mem.res k).value) s1 := by
  simp only [step] at hs
  split at hs
  · cases hs
    refine ⟨rfl, hr, rfl, rfl, fun _ => Or.inl rfl, ?_, ?_, ?_, ?_, ?_, ?_, fun _ => rfl⟩
    · intro k hk; exact absurd rfl hk
    · intro a ha; cases ha
    · intro a ha; cases ha
    · intro k hk; cases hk
    · exact ⟨hS.built, hS.bound, hS.sig, hS.valid, hS.closed, hS.fresh⟩
    · intro hst; cases hst
  · cases hs

end LLBuild.Engine
