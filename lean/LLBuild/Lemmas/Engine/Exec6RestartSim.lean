/-
C03 "database transparency", reference side: the schedule-free reference (`Ref` / `Dem` / `MustRun`, Exec1.lean) does not
distinguish the snapshot of an engine that stayed alive (`σ`: in-memory results, whose `builtAt` was advanced by every
up-to-date check) from the snapshot of a new engine on the database (`σ'`: `builtAt` of the last RUN), as long as no recorded
non-order-only dependency was computed strictly between the two (`SnapSim.eqv`).

The reference only compares `builtAt k < c` for the `computedAt = c` a recorded dependency comes out with, and
`c` is the stored `computedAt` of the dependency or the epoch of the build (`Ref.computedAt_cases`).
-/
import LLBuild.Lemmas.Engine.Exec5

set_option linter.unusedVariables false

namespace LLBuild.Engine

variable {P : Program}

/-- `σ` = the engine that stayed alive (in-memory results), `σ'` = a new engine on the database -/
structure SnapSim (σ σ' : Snap) : Prop where
  env : σ.env = σ'.env
  epoch : σ.epoch = σ'.epoch
  sg : σ.sg = σ'.sg
  value : ∀ k, (σ.res k).value = (σ'.res k).value
  sig : ∀ k, (σ.res k).sig = (σ'.res k).sig
  computedAt : ∀ k, (σ.res k).computedAt = (σ'.res k).computedAt
  built0 : ∀ k, (σ.res k).builtAt = 0 ↔ (σ'.res k).builtAt = 0
  le : ∀ k, (σ'.res k).builtAt ≤ (σ.res k).builtAt
  bound : ∀ k, (σ.res k).builtAt < σ.epoch
  deps : ∀ k, (σ.res k).builtAt ≠ 0 → σ.deps k = σ'.deps k
  eqv : ∀ k, (σ.res k).builtAt ≠ 0 → ∀ d ∈ σ.deps k, d.orderOnly = false →
    (σ.res d.key).computedAt ≤ (σ'.res k).builtAt ∨ (σ.res k).builtAt < (σ.res d.key).computedAt

/-- the second component of `runVal` is the stored `computedAt` or the epoch of the build -/
theorem Snap.runVal_snd_cases (σ : Snap) (k : Key) (recv : Recv) :
    (σ.runVal P k recv).2 = (σ.res k).computedAt ∨ (σ.runVal P k recv).2 = σ.epoch := by
  unfold Snap.runVal
  split
  · exact Or.inl rfl
  · exact Or.inr rfl

/-- **a rule brought up to date comes out with its stored `computedAt` or with the epoch of the build** -/
theorem Ref.computedAt_cases {σ : Snap} {k : Key} {b : Bool} {v : Val} {c : Nat} (h : Ref P σ k b v c) :
    c = (σ.res k).computedAt ∨ c = σ.epoch := by
  cases h with
  | keep => exact Or.inl rfl
  | runNew _ seq => exact σ.runVal_snd_cases k _
  | runDep _ seq => exact σ.runVal_snd_cases k _

namespace SnapSim

theorem reusable {σ σ' : Snap} (h : SnapSim σ σ') {k : Key} (hr : σ.reusable P k) : σ'.reusable P k := by
  obtain ⟨a, b, c⟩ := hr
  exact ⟨fun e => a ((h.built0 k).2 e), by rw [← h.sig k, ← h.sg]; exact b, by rw [← h.env, ← h.value k]; exact c⟩

theorem reusable' {σ σ' : Snap} (h : SnapSim σ σ') {k : Key} (hr : σ'.reusable P k) : σ.reusable P k := by
  obtain ⟨a, b, c⟩ := hr
  exact ⟨fun e => a ((h.built0 k).1 e), by rw [h.sig k, h.sg]; exact b, by rw [h.env, h.value k]; exact c⟩

theorem deps_eq {σ σ' : Snap} (h : SnapSim σ σ') {k : Key} (hr : σ.reusable P k) : σ'.deps k = σ.deps k :=
  (h.deps k hr.1).symm

theorem runVal {σ σ' : Snap} (h : SnapSim σ σ') (k : Key) (recv : Recv) : σ'.runVal P k recv = σ.runVal P k recv := by
  unfold Snap.runVal; rw [h.env, h.value k, h.computedAt k, h.epoch]

/-- the comparison the reference makes for a recorded non-order-only dependency has the same outcome on both sides -/
theorem lt_iff {σ σ' : Snap} (h : SnapSim σ σ') {k : Key} (hb : (σ.res k).builtAt ≠ 0) {d : Dep} (hd : d ∈ σ.deps k)
    (hoo : d.orderOnly = false) {c : Nat} (hc : c = (σ.res d.key).computedAt ∨ c = σ.epoch) :
    (σ.res k).builtAt < c ↔ (σ'.res k).builtAt < c := by
  have hle := h.le k
  have hbd := h.bound k
  rcases hc with hc | hc
  · rcases h.eqv k hb d hd hoo with h1 | h1
    · rw [hc]; constructor <;> intro h2 <;> omega
    · rw [hc]; constructor <;> intro h2 <;> omega
  · rw [hc]; constructor <;> intro h2 <;> omega

theorem depKeeps_iff {σ σ' : Snap} (h : SnapSim σ σ') {k : Key} (hb : (σ.res k).builtAt ≠ 0) {d : Dep} (hd : d ∈ σ.deps k)
    {c : Nat} (hc : c = (σ.res d.key).computedAt ∨ c = σ.epoch) :
    depKeeps (σ.res k).builtAt d c ↔ depKeeps (σ'.res k).builtAt d c := by
  unfold depKeeps
  cases hoo : d.orderOnly
  · rw [h.lt_iff hb hd hoo hc]
  · simp

/-- alive → restarted -/
theorem ref {σ σ' : Snap} (h : SnapSim σ σ') {k : Key} {b : Bool} {v : Val} {c : Nat} (hr : Ref P σ k b v c) :
    Ref P σ' k b v c := by
  induction hr with
  | keep k B V C hre hdeps hkeep ih =>
    rw [h.value k, h.computedAt k]
    refine Ref.keep k B V C (h.reusable hre) ?_ ?_
    · intro d hd; rw [h.deps_eq hre] at hd; exact ih d hd
    · intro d hd; rw [h.deps_eq hre] at hd
      exact (h.depKeeps_iff hre.1 hd (hdeps d hd).computedAt_cases).1 (hkeep d hd)
  | runNew k seq B C hnre hv hc hin ih =>
    rw [← h.runVal k]
    exact Ref.runNew k seq B C (fun hr' => hnre (h.reusable' hr')) hv hc ih
  | runDep k seq B V C B' C' pre dp post hre hsplit hpre hpk hdp hoo hlt hv hc hin ihpre ihdp ihin =>
    rw [← h.runVal k]
    have hmem : ∀ d ∈ pre, d ∈ σ.deps k := fun d hd => by rw [hsplit]; exact List.mem_append_left _ hd
    have hdpm : dp ∈ σ.deps k := by rw [hsplit]; simp
    exact Ref.runDep k seq B V C B' C' pre dp post (h.reusable hre) (by rw [h.deps_eq hre]; exact hsplit) ihpre
      (fun d hd => (h.depKeeps_iff hre.1 (hmem d hd) (hpre d hd).computedAt_cases).1 (hpk d hd)) ihdp hoo
      ((h.lt_iff hre.1 hdpm hoo hdp.computedAt_cases).1 hlt) hv hc ihin

/-- `computedAt_cases` read on the other side -/
theorem cases' {σ σ' : Snap} (h : SnapSim σ σ') {k : Key} {b : Bool} {v : Val} {c : Nat} (hr : Ref P σ' k b v c) :
    c = (σ.res k).computedAt ∨ c = σ.epoch := by
  rw [h.computedAt k, h.epoch]; exact hr.computedAt_cases

/-- restarted → alive -/
theorem ref' {σ σ' : Snap} (h : SnapSim σ σ') {k : Key} {b : Bool} {v : Val} {c : Nat} (hr : Ref P σ' k b v c) :
    Ref P σ k b v c := by
  induction hr with
  | keep k B V C hre hdeps hkeep ih =>
    have hre' := h.reusable' hre
    rw [← h.value k, ← h.computedAt k]
    refine Ref.keep k B V C hre' ?_ ?_
    · intro d hd; rw [← h.deps_eq hre'] at hd; exact ih d hd
    · intro d hd
      have hd' : d ∈ σ'.deps k := by rw [h.deps_eq hre']; exact hd
      exact (h.depKeeps_iff hre'.1 hd (h.cases' (hdeps d hd'))).2 (hkeep d hd')
  | runNew k seq B C hnre hv hc hin ih =>
    rw [h.runVal k]
    exact Ref.runNew k seq B C (fun hr' => hnre (h.reusable hr')) hv hc ih
  | runDep k seq B V C B' C' pre dp post hre hsplit hpre hpk hdp hoo hlt hv hc hin ihpre ihdp ihin =>
    have hre' := h.reusable' hre
    rw [h.runVal k]
    have hsplit' : σ.deps k = pre ++ dp :: post := by rw [← h.deps_eq hre']; exact hsplit
    have hmem : ∀ d ∈ pre, d ∈ σ.deps k := fun d hd => by rw [hsplit']; exact List.mem_append_left _ hd
    have hdpm : dp ∈ σ.deps k := by rw [hsplit']; simp
    exact Ref.runDep k seq B V C B' C' pre dp post hre' hsplit' ihpre
      (fun d hd => (h.depKeeps_iff hre'.1 (hmem d hd) (h.cases' (hpre d hd))).2 (hpk d hd)) ihdp hoo
      ((h.lt_iff hre'.1 hdpm hoo (h.cases' hdp)).2 hlt) hv hc ihin

theorem needsRunR {σ σ' : Snap} (h : SnapSim σ σ') {k : Key} (hn : NeedsRunR P σ k) : NeedsRunR P σ' k := by
  rcases hn with hn | ⟨B, V, C, pre, dp, post, hsplit, hpre, hpk, hdp, hoo, hlt⟩
  · exact Or.inl (fun hr' => hn (h.reusable' hr'))
  · by_cases hre : σ.reusable P k
    · have hmem : ∀ d ∈ pre, d ∈ σ.deps k := fun d hd => by rw [hsplit]; exact List.mem_append_left _ hd
      have hdpm : dp ∈ σ.deps k := by rw [hsplit]; simp
      exact Or.inr ⟨B, V, C, pre, dp, post, by rw [h.deps_eq hre]; exact hsplit, fun d hd => h.ref (hpre d hd),
        fun d hd => (h.depKeeps_iff hre.1 (hmem d hd) (hpre d hd).computedAt_cases).1 (hpk d hd), h.ref hdp, hoo,
        (h.lt_iff hre.1 hdpm hoo hdp.computedAt_cases).1 hlt⟩
    · exact Or.inl (fun hr' => hre (h.reusable' hr'))

theorem needsRunR' {σ σ' : Snap} (h : SnapSim σ σ') {k : Key} (hn : NeedsRunR P σ' k) : NeedsRunR P σ k := by
  rcases hn with hn | ⟨B, V, C, pre, dp, post, hsplit, hpre, hpk, hdp, hoo, hlt⟩
  · exact Or.inl (fun hr' => hn (h.reusable hr'))
  · by_cases hre : σ.reusable P k
    · have hsplit' : σ.deps k = pre ++ dp :: post := by rw [← h.deps_eq hre]; exact hsplit
      have hmem : ∀ d ∈ pre, d ∈ σ.deps k := fun d hd => by rw [hsplit']; exact List.mem_append_left _ hd
      have hdpm : dp ∈ σ.deps k := by rw [hsplit']; simp
      exact Or.inr ⟨B, V, C, pre, dp, post, hsplit', fun d hd => h.ref' (hpre d hd),
        fun d hd => (h.depKeeps_iff hre.1 (hmem d hd) (h.cases' (hpre d hd))).2 (hpk d hd), h.ref' hdp, hoo,
        (h.lt_iff hre.1 hdpm hoo (h.cases' hdp)).2 hlt⟩
    · exact Or.inl hre

theorem refAnswers {σ σ' : Snap} (h : SnapSim σ σ') {seq : Seq} (ha : RefAnswers P σ seq) : RefAnswers P σ' seq := by
  obtain ⟨B, C, hB⟩ := ha
  exact ⟨B, C, fun q v hq hk => h.ref (hB q v hq hk)⟩

theorem refAnswers' {σ σ' : Snap} (h : SnapSim σ σ') {seq : Seq} (ha : RefAnswers P σ' seq) : RefAnswers P σ seq := by
  obtain ⟨B, C, hB⟩ := ha
  exact ⟨B, C, fun q v hq hk => h.ref' (hB q v hq hk)⟩

theorem dem {σ σ' : Snap} (h : SnapSim σ σ') {root k : Key} (hd : Dem P σ root k) : Dem P σ' root k := by
  induction hd with
  | root => exact Dem.root
  | scan a B V C pre dp post _ hre hsplit hpre hpk ih =>
    have hmem : ∀ d ∈ pre, d ∈ σ.deps a := fun d hd => by rw [hsplit]; exact List.mem_append_left _ hd
    exact Dem.scan a B V C pre dp post ih (h.reusable hre) (by rw [h.deps_eq hre]; exact hsplit)
      (fun d hd => h.ref (hpre d hd))
      (fun d hd => (h.depKeeps_iff hre.1 (hmem d hd) (hpre d hd).computedAt_cases).1 (hpk d hd))
  | req a seq q _ hn hv ha hq ih => exact Dem.req a seq q ih (h.needsRunR hn) hv (h.refAnswers ha) hq
  | disc a seq d _ hn hv hc ha hd ih =>
    exact Dem.disc a seq d ih (h.needsRunR hn) hv hc (h.refAnswers ha) hd

theorem dem' {σ σ' : Snap} (h : SnapSim σ σ') {root k : Key} (hd : Dem P σ' root k) : Dem P σ root k := by
  induction hd with
  | root => exact Dem.root
  | scan a B V C pre dp post _ hre hsplit hpre hpk ih =>
    have hre' := h.reusable' hre
    have hsplit' : σ.deps a = pre ++ dp :: post := by rw [← h.deps_eq hre']; exact hsplit
    have hmem : ∀ d ∈ pre, d ∈ σ.deps a := fun d hd => by rw [hsplit']; exact List.mem_append_left _ hd
    exact Dem.scan a B V C pre dp post ih hre' hsplit'
      (fun d hd => h.ref' (hpre d hd))
      (fun d hd => (h.depKeeps_iff hre'.1 (hmem d hd) (h.cases' (hpre d hd))).2 (hpk d hd))
  | req a seq q _ hn hv ha hq ih => exact Dem.req a seq q ih (h.needsRunR' hn) hv (h.refAnswers' ha) hq
  | disc a seq d _ hn hv hc ha hd ih =>
    exact Dem.disc a seq d ih (h.needsRunR' hn) hv hc (h.refAnswers' ha) hd

end SnapSim

end LLBuild.Engine
