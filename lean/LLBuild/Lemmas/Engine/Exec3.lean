/-
C06 "the same set of executed rules": `XInv` (Exec2.lean) IS PRESERVED by every event of a build before `ret` that the
monitor accepts (`step`) and that passes the in-order guards (`evOkX`).  One lemma per event; `step_xinv` assembles them.
-/
import LLBuild.Lemmas.Engine.Exec2

set_option linter.unusedVariables false

namespace LLBuild.Engine

variable {P : Program} {σ : Snap} {root : Key} {s s' : St}

theorem upd_ne {α : Type} {f : Key → α} {k k' : Key} {x : α} (h : k' ≠ k) : upd f k x k' = f k' := upd_other f k k' x h

/-! ## from the state to the reference -/

/-- the answers a task received are reference values -/
theorem XInv.refAnswers (hx : XInv P σ root s) {a : Key} (ht : TaskX P s a) : RefAnswers P σ (s.task a).seq := by
  refine ⟨fun x => decide (x ∈ s.ran), fun x => (s.mem.res x).computedAt, ?_⟩
  intro q v hq _
  obtain ⟨hd, hv⟩ := ht.2.2 q v hq
  have := (hx.key q.key).done hd
  rw [hv] at this
  exact this

/-- a certificate in terms of complete rules is a reference-level reason to run -/
theorem XInv.needsRunR (hx : XInv P σ root s) {a : Key} (hc : RunCert P σ s a) : NeedsRunR P σ a := by
  rcases hc with h | ⟨hre, pre, dp, post, hsplit, hpre, hd, hoo, hlt⟩
  · exact Or.inl h
  · refine Or.inr ⟨fun x => decide (x ∈ s.ran), fun x => (s.mem.res x).value, fun x => (s.mem.res x).computedAt,
      pre, dp, post, hsplit, ?_, ?_, (hx.key dp.key).done hd, hoo, hlt⟩
    · intro d hdm; exact (hx.key d.key).done (hpre d hdm).1
    · intro d hdm; exact (hpre d hdm).2

/-- `depFresh` in reference terms -/
theorem depFresh_keeps {r : Res} {d : Dep} (h : depFresh s r d = true) :
    s.status d.key = .done ∧ depKeeps r.builtAt d (s.mem.res d.key).computedAt := by
  simp only [depFresh, Bool.and_eq_true, Bool.or_eq_true, isDone, beq_iff_eq, Bool.not_eq_eq_eq_not, Bool.not_true,
    decide_eq_false_iff_not] at h
  exact ⟨h.1, h.2⟩

/-- **the in-order guard of `scanning` gives a reference-level demand** -/
theorem XInv.dem_of_demandedX (hx : XInv P σ root s) {k : Key} (hd : demandedX s k = true) : Dem P σ root k := by
  simp only [demandedX, Bool.or_eq_true] at hd
  rcases hd with ((h | h) | h) | h
  · have : s.target = some k := by simpa using h
    rw [hx.target] at this
    cases this
    exact Dem.root
  · obtain ⟨p, hp, hk⟩ := List.any_eq_true.1 h
    have : p.1 = k := by simpa using hk
    rw [← this]; exact hx.demPend p hp
  · obtain ⟨a, _, ha⟩ := List.any_eq_true.1 h
    simp only [Bool.and_eq_true, beq_iff_eq] at ha
    obtain ⟨⟨hst, hvs⟩, hio⟩ := ha
    have hmem := (hx.key a).scan (Or.inl hst)
    obtain ⟨pre, d, post, hsplit, hdk, hpre⟩ := inOrderAt_split s _ _ k hio
    rw [hmem] at hsplit hpre
    have hdem := (hx.key a).dem (by rw [hst]; exact fun e => by cases e)
    have := Dem.scan (root := root) a (fun x => decide (x ∈ s.ran)) (fun x => (s.mem.res x).value)
      (fun x => (s.mem.res x).computedAt) pre d post hdem ((hx.key a).validT hst hvs) hsplit
      (fun x hxm => (hx.key x.key).done (depFresh_keeps (hpre x hxm)).1)
      (fun x hxm => (depFresh_keeps (hpre x hxm)).2)
    rw [hdk] at this; exact this
  · obtain ⟨a, _, ha⟩ := List.any_eq_true.1 h
    simp only [Bool.and_eq_true, beq_iff_eq, List.any_eq_true] at ha
    obtain ⟨hst, q, hq, hqk⟩ := ha
    have hstarted : (s.task a).started = true := by
      cases hs : (s.task a).started with
      | true => rfl
      | false =>
        have := (hx.key a).unstarted hst hs
        rw [this] at hq; cases hq
    have ht := (hx.key a).task (Or.inl ⟨hst, hstarted⟩)
    have hdem := (hx.key a).dem (by rw [hst]; exact fun e => by cases e)
    have hc := (hx.key a).cert (Or.inr (Or.inl hst))
    have := Dem.req (root := root) a (s.task a).seq q hdem (hx.needsRunR hc) ht.2.1 (hx.refAnswers ht)
      (by rw [← ht.1]; exact hq)
    rw [hqk] at this; exact this

/-- a run, once its delivery sequence is complete, is a reference run -/
theorem XInv.ref_of_run (hx : XInv P σ root s) {k : Key} (hc : RunCert P σ s k) (ht : TaskX P s k)
    (hcomp : completeSeq P k (s.task k).seq = true) :
    Ref P σ k true (σ.runVal P k (recvOf (s.task k).seq)).1 (σ.runVal P k (recvOf (s.task k).seq)).2 := by
  obtain ⟨B', C', hans⟩ := hx.refAnswers ht
  rcases hc with h | ⟨hre, pre, dp, post, hsplit, hpre, hd, hoo, hlt⟩
  · exact Ref.runNew k _ B' C' h ht.2.1 hcomp hans
  · exact Ref.runDep k _ (fun x => decide (x ∈ s.ran)) (fun x => (s.mem.res x).value) (fun x => (s.mem.res x).computedAt)
      B' C' pre dp post hre hsplit (fun d hdm => (hx.key d.key).done (hpre d hdm).1) (fun d hdm => (hpre d hdm).2)
      ((hx.key dp.key).done hd) hoo hlt ht.2.1 hcomp hans

/-! ## events that concern no rule -/

theorem xinv_dbGet {k : Key} {f : Bool} (hx : XInv P σ root s) (h : step P s (.dbGet k f) = some s') : XInv P σ root s' := by
  simp only [step] at h
  split at h
  · cases h; exact hx
  · cases h

theorem xinv_dbBegin (hx : XInv P σ root s) (h : step P s .dbBegin = some s') : XInv P σ root s' := by
  simp only [step] at h; cases h; exact hx

theorem xinv_dbEnd (hx : XInv P σ root s) (h : step P s .dbEnd = some s') : XInv P σ root s' := by
  simp only [step] at h
  split at h
  · cases h; exact hx.frame rfl rfl hx.epoch hx.epoch0 hx.sg hx.sgU rfl rfl rfl rfl rfl rfl
  · cases h

theorem xinv_dbIter {e : Nat} (hx : XInv P σ root s) (h : step P s (.dbIter e) = some s') : XInv P σ root s' := by
  simp only [step] at h
  split at h
  · cases h; exact hx.frame rfl rfl hx.epoch hx.epoch0 hx.sg hx.sgU rfl rfl rfl rfl rfl rfl
  · cases h

theorem xinv_cycle {ks : List Key} (hx : XInv P σ root s) (h : step P s (.cycle ks) = some s') : XInv P σ root s' := by
  simp only [step] at h
  split at h
  · split at h
    · cases h; exact hx.frame rfl rfl hx.epoch hx.epoch0 hx.sg hx.sgU rfl rfl rfl rfl rfl rfl
    · cases h
  · cases h

theorem xinv_error {c : Nat} (hx : XInv P σ root s) (h : step P s (.error c) = some s') : XInv P σ root s' := by
  simp only [step] at h; cases h
  exact hx.frame rfl rfl hx.epoch hx.epoch0 hx.sg hx.sgU rfl rfl rfl rfl rfl rfl

theorem xinv_cancel (hx : XInv P σ root s) (h : step P s .cancel = some s') : XInv P σ root s' := by
  simp only [step] at h; cases h
  exact hx.frame rfl rfl hx.epoch hx.epoch0 hx.sg hx.sgU rfl rfl rfl rfl rfl rfl

theorem xinv_queueCreated (hx : XInv P σ root s) (h : step P s .queueCreated = some s') : XInv P σ root s' := by
  simp only [step] at h
  split at h
  · rename_i hc
    cases h
    simp only [Bool.and_eq_true, Bool.not_eq_eq_eq_not, Bool.not_true] at hc
    exact hx.frame rfl rfl (fun _ => (hx.epoch0 hc.2).1) (fun h => by cases h) hx.sg hx.sgU rfl rfl rfl rfl rfl rfl
  · cases h

theorem xinv_lookup {k : Key} (hx : XInv P σ root s) (h : step P s (.lookup k) = some s') : XInv P σ root s' := by
  simp only [step] at h
  split at h
  · rename_i hc
    cases h
    have hk : s.registered k = false := by simpa using hc
    refine hx.frame rfl rfl hx.epoch hx.epoch0 ?_ ?_ rfl rfl rfl rfl rfl rfl
    · intro k' hk'
      by_cases e : k' = k
      · subst e
        show upd s.sigAt k' (P.sig s.env k') k' = σ.sg k'
        rw [upd_same, hx.sgU k' hk, hx.env]
      · have hk'' : s.registered k' = true := by
          have : upd s.registered k true k' = true := hk'
          rwa [upd_ne e] at this
        show upd s.sigAt k (P.sig s.env k) k' = σ.sg k'
        rw [upd_ne e]; exact hx.sg k' hk''
    · intro k' hk'
      have hk'' : upd s.registered k true k' = false := hk'
      by_cases e : k' = k
      · subst e; rw [upd_same] at hk''; cases hk''
      · rw [upd_ne e] at hk''; exact hx.sgU k' hk''
  · cases h

/-! ## the scan -/

theorem xinv_scanning {k : Key} (hx : XInv P σ root s) (h2 : Inv2 s) (h : step P s (.scanning k) = some s')
    (hok : demandedX s k = true) : XInv P σ root s' := by
  simp only [step] at h
  split at h
  · rename_i hc
    cases h
    simp only [Bool.and_eq_true, beq_iff_eq] at hc
    obtain ⟨⟨⟨hstd, hst⟩, _⟩, _⟩ := hc
    have hvs : s.validSeen k = none := h2.idleNoValid (by rw [hx.target]; rfl) k hst
    have hmem0 := (hx.key k).idle hst
    have hnr : k ∉ s.ran := fun hr => by
      rcases (hx.key k).ranSt hr with e | e | e <;> (rw [hst] at e; cases e)
    refine hx.local k rfl rfl hstd rfl hstd rfl rfl (fun x e => upd_ne e) (fun x e => setRes_res_other _ _ _ _ e)
      (fun _ _ => rfl) (fun _ _ => rfl) (fun _ _ => Iff.rfl) (by rw [hst]; exact fun e => by cases e)
      (fun d hd => Or.inr hd) hx.demPend ?_
    intro _
    refine XAt.ofScanning (upd_same _ _ _) ?_ (hx.dem_of_demandedX hok) ?_ ?_ hnr
    · show (s.mem.setRes k _).res k = _
      rw [setRes_res_same, hmem0]; rfl
    · intro hh; have : s.validSeen k = some true := hh; rw [hvs] at this; cases this
    · intro hh; have : s.validSeen k = some false := hh; rw [hvs] at this; cases this
  · cases h

theorem xinv_valid {k : Key} {v : Val} {b : Bool} (hx : XInv P σ root s) (h2 : Inv2 s)
    (h : step P s (.valid k v b) = some s') : XInv P σ root s' := by
  simp only [step] at h
  split at h
  · rename_i hc
    cases h
    simp only [Bool.and_eq_true, beq_iff_eq, bne_iff_ne, ne_eq] at hc
    obtain ⟨⟨⟨⟨⟨hst, hb⟩, hsig⟩, hv⟩, hbv⟩, _⟩ := hc
    have hstd := hx.started_of (k := k) (by rw [hst]; exact fun e => by cases e)
    have hmem := (hx.key k).scan (Or.inl hst)
    have hreg := h2.reg k (by rw [hst]; exact fun e => by cases e)
    have hnr : k ∉ s.ran := fun hr => by
      rcases (hx.key k).ranSt hr with e | e | e <;> (rw [hst] at e; cases e)
    have hb' : (σ.res k).builtAt ≠ 0 := by rw [hmem] at hb; exact hb
    have hsig' : (σ.res k).sig = σ.sg k := by rw [hmem, hx.sg k hreg] at hsig; exact hsig
    have hval : b = P.valid σ.env k (σ.res k).value := by
      rw [hbv, hv, hx.env, hmem]
    refine hx.local k rfl rfl hstd rfl hstd rfl rfl (fun _ _ => rfl) (fun _ _ => rfl) (fun _ _ => rfl)
      (fun x e => upd_ne e) (fun _ _ => Iff.rfl) (by rw [hst]; exact fun e => by cases e)
      (fun d hd => Or.inr hd) hx.demPend ?_
    intro _
    refine XAt.ofScanning hst hmem ((hx.key k).dem (by rw [hst]; exact fun e => by cases e)) ?_ ?_ hnr
    · intro hh
      have : upd s.validSeen k (some b) k = some true := hh
      rw [upd_same] at this
      cases this
      exact ⟨hb', hsig', hval.symm⟩
    · intro hh
      have : upd s.validSeen k (some b) k = some false := hh
      rw [upd_same] at this
      cases this
      intro hre
      have h3 := hre.2.2
      rw [← hval] at h3
      cases h3
  · cases h

/-- the reason the engine reports, as a certificate -/
theorem XInv.cert_of_needs (hx : XInv P σ root s) (h2 : Inv2 s) {k : Key} {reason : Nat} {input : Option Key}
    (hst : s.status k = .scanning) (hok : needsOk s k reason input = true)
    (hx3 : evOkX s (.needs k reason input) = true) : RunCert P σ s k := by
  have hmem := (hx.key k).scan (Or.inl hst)
  have hreg := h2.reg k (by rw [hst]; exact fun e => by cases e)
  unfold needsOk at hok
  split at hok
  · left
    have : (s.mem.res k).builtAt = 0 := by simpa using hok
    rw [hmem] at this
    exact fun hre => hre.1 this
  · left
    simp only [Bool.and_eq_true, bne_iff_ne, ne_eq] at hok
    have := hok.2
    rw [hmem, hx.sg k hreg] at this
    exact fun hre => this hre.2.1
  · left
    have : s.validSeen k = some false := by simpa using hok
    exact (hx.key k).validF hst this
  · rename_i d
    right
    simp only [Bool.and_eq_true, beq_iff_eq] at hok
    obtain ⟨⟨⟨hvs, _⟩, hdone⟩, hlt⟩ := hok
    have hlt' : (s.mem.res k).builtAt < (s.mem.res d).computedAt := by simpa using hlt
    have hre := (hx.key k).validT hst hvs
    have hfs : (firstStale s (s.mem.res k) (s.mem.res k).deps).map (fun dp => dp.key) = some d := by
      have : ((firstStale s (s.mem.res k) (s.mem.res k).deps).map (fun dp => dp.key) == some d) = true := hx3
      simpa using this
    cases hf : firstStale s (s.mem.res k) (s.mem.res k).deps with
    | none => rw [hf] at hfs; cases hfs
    | some dp =>
      rw [hf] at hfs
      simp only [Option.map_some, Option.some.injEq] at hfs
      obtain ⟨pre, post, hsplit, hstale, hpre⟩ := firstStale_split s _ _ dp hf
      have hoo : dp.orderOnly = false := by
        cases hoo : dp.orderOnly with
        | false => rfl
        | true =>
          have : depFresh s (s.mem.res k) dp = true := by
            simp only [depFresh, hfs, hdone, hoo, Bool.true_or, Bool.and_self]
          rw [this] at hstale; cases hstale
      rw [hmem] at hsplit hpre hlt'
      refine ⟨hre, pre, dp, post, hsplit, fun x hxm => depFresh_keeps (hpre x hxm), ?_, hoo, by rw [hfs]; exact hlt'⟩
      rw [hfs]; simpa [isDone] using hdone
  · cases hok

theorem xinv_needs {k : Key} {reason : Nat} {input : Option Key} (hx : XInv P σ root s) (h2 : Inv2 s)
    (h : step P s (.needs k reason input) = some s') (hx3 : evOkX s (.needs k reason input) = true) :
    XInv P σ root s' := by
  simp only [step] at h
  split at h
  · rename_i hc
    cases h
    simp only [Bool.and_eq_true, beq_iff_eq] at hc
    obtain ⟨hst, hok⟩ := hc
    have hne : s.status k ≠ .idle := by rw [hst]; exact fun e => by cases e
    have hstd := hx.started_of hne
    have hnr : k ∉ s.ran := fun hr => by
      rcases (hx.key k).ranSt hr with e | e | e <;> (rw [hst] at e; cases e)
    have hnd : s.status k ≠ .done := by rw [hst]; exact fun e => by cases e
    have hcert := hx.cert_of_needs h2 hst hok hx3
    refine hx.local k rfl rfl hstd rfl hstd rfl rfl (fun x e => upd_ne e) (fun _ _ => rfl) (fun _ _ => rfl)
      (fun _ _ => rfl) (fun _ _ => Iff.rfl) hnd (fun d hd => Or.inr hd) hx.demPend ?_
    intro hfr
    exact XAt.ofNeedsRun (upd_same _ _ _) ((hx.key k).scan (Or.inl hst)) ((hx.key k).dem hne) (hcert.mono hfr) hnr
  · cases h

theorem xinv_upToDate {k : Key} (hx : XInv P σ root s) (h : step P s (.upToDate k) = some s') : XInv P σ root s' := by
  simp only [step] at h
  split at h
  · rename_i hc
    cases h
    simp only [Bool.and_eq_true, beq_iff_eq, List.all_eq_true] at hc
    obtain ⟨⟨hst, hvs⟩, hall⟩ := hc
    have hne : s.status k ≠ .idle := by rw [hst]; exact fun e => by cases e
    have hstd := hx.started_of hne
    have hnr : k ∉ s.ran := fun hr => by
      rcases (hx.key k).ranSt hr with e | e | e <;> (rw [hst] at e; cases e)
    have hnd : s.status k ≠ .done := by rw [hst]; exact fun e => by cases e
    have hmem := (hx.key k).scan (Or.inl hst)
    have hre := (hx.key k).validT hst hvs
    have hdeps : ∀ d ∈ σ.deps k, depFresh s (s.mem.res k) d = true := by
      intro d hd
      apply hall d
      rw [hmem]; exact hd
    refine hx.local k rfl rfl hstd rfl hstd rfl rfl (fun x e => upd_ne e) (fun x e => setRes_res_other _ _ _ _ e)
      (fun _ _ => rfl) (fun _ _ => rfl) (fun _ _ => Iff.rfl) hnd ?_ ?_ ?_
    · intro d hd
      by_cases e : d = k
      · subst e; left; exact upd_same _ _ _
      · right
        obtain ⟨p, hp, hpd⟩ := List.mem_map.1 hd
        exact List.mem_map.2 ⟨p, List.mem_filter.2 ⟨hp, by simp [hpd, e]⟩, hpd⟩
    · intro p hp
      exact hx.demPend p (List.mem_filter.1 hp).1
    · intro hfr
      refine XAt.ofDone (upd_same _ _ _) ?_ ((hx.key k).dem hne) (fun hr => absurd hr hnr) ?_
        (fun hr => absurd hr hnr) (fun hr => absurd hr hnr)
      · have hd : decide (k ∈ s.ran) = false := by simp [hnr]
        show Ref P σ k (decide (k ∈ s.ran)) ((s.mem.setRes k _).res k).value ((s.mem.setRes k _).res k).computedAt
        rw [setRes_res_same, hd]
        have := Ref.keep k (fun x => decide (x ∈ s.ran)) (fun x => (s.mem.res x).value)
          (fun x => (s.mem.res x).computedAt) hre
          (fun d hdm => (hx.key d.key).done (depFresh_keeps (hdeps d hdm)).1)
          (fun d hdm => by
            have := (depFresh_keeps (hdeps d hdm)).2
            rw [hmem] at this; exact this)
        rw [hmem]
        exact this
      · intro _ d hdm
        exact (hfr _ (depFresh_keeps (hdeps d hdm)).1).1
  · cases h

/-! ## tasks -/

theorem xinv_create {k : Key} (hx : XInv P σ root s) (h : step P s (.create k) = some s') : XInv P σ root s' := by
  simp only [step] at h
  split at h
  · rename_i hc
    cases h
    simp only [Bool.and_eq_true, beq_iff_eq] at hc
    obtain ⟨hst, _⟩ := hc
    have hne : s.status k ≠ .idle := by rw [hst]; exact fun e => by cases e
    have hstd := hx.started_of hne
    have hnd : s.status k ≠ .done := by rw [hst]; exact fun e => by cases e
    have hmem := (hx.key k).scan (Or.inr hst)
    refine hx.local k rfl rfl hstd rfl hstd rfl rfl (fun x e => upd_ne e) (fun x e => setRes_res_other _ _ _ _ e)
      (fun x e => upd_ne e) (fun _ _ => rfl) (fun x e => by simp [e]) hnd (fun d hd => Or.inr hd) hx.demPend ?_
    intro hfr
    refine XAt.ofRunning (upd_same _ _ _) ?_ ((hx.key k).dem hne) (((hx.key k).cert (Or.inl hst)).mono hfr)
      ?_ ?_ (by simp)
    · show ((s.mem.setRes k _).res k).value = _ ∧ ((s.mem.setRes k _).res k).computedAt = _
      rw [setRes_res_same, hmem]; exact ⟨rfl, rfl⟩
    · intro _
      show (upd s.task k {} k).issued = []
      rw [upd_same]
    · intro hh
      have : (upd s.task k {} k).started = true := hh
      rw [upd_same] at this; cases this
  · cases h

theorem xinv_start {k : Key} {reqs : List Req} (hx : XInv P σ root s) (h : step P s (.start k reqs) = some s') :
    XInv P σ root s' := by
  simp only [step] at h
  split at h
  · rename_i hc
    cases h
    simp only [Bool.and_eq_true, beq_iff_eq] at hc
    obtain ⟨⟨hst, _⟩, hreqs⟩ := hc
    have hne : s.status k ≠ .idle := by rw [hst]; exact fun e => by cases e
    have hstd := hx.started_of hne
    have hnd : s.status k ≠ .done := by rw [hst]; exact fun e => by cases e
    refine hx.local k rfl rfl hstd rfl hstd rfl rfl (fun _ _ => rfl) (fun _ _ => rfl)
      (fun x e => upd_ne e) (fun _ _ => rfl) (fun _ _ => Iff.rfl) hnd (fun d hd => Or.inr hd) hx.demPend ?_
    intro hfr
    refine XAt.ofRunning hst ((hx.key k).pre (Or.inl hst)) ((hx.key k).dem hne)
      (((hx.key k).cert (Or.inr (Or.inl hst))).mono hfr) ?_ ?_ ((hx.key k).inRan (Or.inl hst))
    · intro hh
      have : (upd s.task k { started := true, issued := reqs } k).started = false := hh
      rw [upd_same] at this; cases this
    · intro _
      exact TaskX.of_eq { started := true, issued := reqs } (upd_same _ _ _) hreqs rfl (fun q v hq => by cases hq)
  · cases h

theorem xinv_prior {k : Key} {v : Val} (hx : XInv P σ root s) (h : step P s (.prior k v) = some s') : XInv P σ root s' := by
  simp only [step] at h
  split at h
  · rename_i hc
    cases h
    simp only [Bool.and_eq_true, beq_iff_eq] at hc
    have hst : s.status k = .running := hc.1.1.1.1.1
    have hstarted : (s.task k).started = true := hc.1.1.1.1.2
    have hne : s.status k ≠ .idle := by rw [hst]; exact fun e => by cases e
    have hstd := hx.started_of hne
    have hnd : s.status k ≠ .done := by rw [hst]; exact fun e => by cases e
    have ht := (hx.key k).task (Or.inl ⟨hst, hstarted⟩)
    refine hx.local k rfl rfl hstd rfl hstd rfl rfl (fun _ _ => rfl) (fun _ _ => rfl)
      (fun x e => upd_ne e) (fun _ _ => rfl) (fun _ _ => Iff.rfl) hnd (fun d hd => Or.inr hd) hx.demPend ?_
    intro hfr
    refine XAt.ofRunning hst ((hx.key k).pre (Or.inl hst)) ((hx.key k).dem hne)
      (((hx.key k).cert (Or.inr (Or.inl hst))).mono hfr) ?_ ?_ ((hx.key k).inRan (Or.inl hst))
    · intro hh
      have : (upd s.task k { s.task k with priorSeen := true } k).started = false := hh
      rw [upd_same] at this
      have : (s.task k).started = false := this
      rw [hstarted] at this; cases this
    · intro _
      exact TaskX.of_eq { s.task k with priorSeen := true } (upd_same _ _ _) ht.1 ht.2.1 ht.2.2
  · cases h

theorem xinv_provide {k : Key} {id : Nat} {key : Key} {v : Val} {reqs : List Req} (hx : XInv P σ root s)
    (h : step P s (.provide k id key v reqs) = some s') : XInv P σ root s' := by
  simp only [step] at h
  split at h
  · rename_i hc
    split at h
    · cases h
    · rename_i q hfind
      split at h
      · rename_i hc2
        cases h
        simp only [Bool.and_eq_true, beq_iff_eq] at hc hc2
        have hst : s.status k = .running := hc.1.1
        have hstarted : (s.task k).started = true := hc.1.2
        obtain ⟨⟨hdone, hv⟩, hiss⟩ := hc2
        have hq := List.find?_some hfind
        have hqm := List.mem_of_find?_eq_some hfind
        simp only [Bool.and_eq_true, beq_iff_eq, bne_iff_ne, ne_eq, Bool.not_eq_eq_eq_not, Bool.not_true] at hq
        obtain ⟨⟨⟨hqk, _⟩, hk2⟩, hnd'⟩ := hq
        have hne : s.status k ≠ .idle := by rw [hst]; exact fun e => by cases e
        have hstd := hx.started_of hne
        have hnd : s.status k ≠ .done := by rw [hst]; exact fun e => by cases e
        have ht := (hx.key k).task (Or.inl ⟨hst, hstarted⟩)
        refine hx.local k rfl rfl hstd rfl hstd rfl rfl (fun _ _ => rfl) (fun _ _ => rfl)
          (fun x e => upd_ne e) (fun _ _ => rfl) (fun _ _ => Iff.rfl) hnd (fun d hd => Or.inr hd) hx.demPend ?_
        intro hfr
        refine XAt.ofRunning hst ((hx.key k).pre (Or.inl hst)) ((hx.key k).dem hne)
          (((hx.key k).cert (Or.inr (Or.inl hst))).mono hfr) ?_ ?_ ((hx.key k).inRan (Or.inl hst))
        · intro hh
          have : (upd s.task k { s.task k with issued := (s.task k).issued ++ reqs, seq := (q, v) :: (s.task k).seq } k).started
              = false := hh
          rw [upd_same] at this
          have : (s.task k).started = false := this
          rw [hstarted] at this; cases this
        · intro _
          refine TaskX.of_eq { s.task k with issued := (s.task k).issued ++ reqs, seq := (q, v) :: (s.task k).seq }
            (upd_same _ _ _) hiss ?_ ?_
          · show validSeq P k ((q, v) :: (s.task k).seq) = true
            simp only [validSeq, Bool.and_eq_true, bne_iff_ne, ne_eq, Bool.not_eq_eq_eq_not, Bool.not_true]
            refine ⟨⟨⟨ht.2.1, ?_⟩, hk2⟩, hnd'⟩
            rw [← ht.1]
            exact List.elem_eq_true_of_mem hqm
          · intro q' v' hq'
            have hq'' : (q', v') ∈ (q, v) :: (s.task k).seq := hq'
            rcases List.mem_cons.1 hq'' with e | e
            · cases e
              rw [hqk]
              exact ⟨by simpa [isDone] using hdone, hv.symm⟩
            · exact ht.2.2 q' v' e
      · cases h
  · cases h

theorem xinv_inputsAvail {k : Key} {discs : List Key} (hx : XInv P σ root s) (h2 : Inv2 s)
    (h : step P s (.inputsAvail k discs) = some s') : XInv P σ root s' := by
  simp only [step] at h
  split at h
  · rename_i hc
    cases h
    simp only [Bool.and_eq_true, beq_iff_eq, List.all_eq_true] at hc
    obtain ⟨⟨⟨⟨hst, hstarted⟩, _⟩, hall⟩, hdiscs⟩ := hc
    have hne : s.status k ≠ .idle := by rw [hst]; exact fun e => by cases e
    have hstd := hx.started_of hne
    have hnd : s.status k ≠ .done := by rw [hst]; exact fun e => by cases e
    have ht := (hx.key k).task (Or.inl ⟨hst, hstarted⟩)
    have hnc : (s.task k).completed = false := h2.runFresh k hst
    refine hx.local k rfl rfl hstd rfl hstd rfl rfl (fun x e => upd_ne e) (fun _ _ => rfl)
      (fun x e => upd_ne e) (fun _ _ => rfl) (fun _ _ => Iff.rfl) hnd (fun d hd => Or.inr hd) hx.demPend ?_
    intro hfr
    have hissued : ∀ q ∈ (s.task k).issued, s.status q.key = .done := by
      intro q hq
      have := hall q hq
      by_cases hk2 : q.kind = 2
      · simpa [hk2, isDone] using this
      · rw [if_neg hk2] at this
        obtain ⟨w, hw⟩ := (delivered_iff _ q).1 this
        exact (ht.2.2 q w hw).1
    refine XAt.ofComputing (upd_same _ _ _) ?_ ?_ ((hx.key k).dem hne)
      (((hx.key k).cert (Or.inr (Or.inl hst))).mono hfr) ?_ ?_ ((hx.key k).inRan (Or.inl hst))
    · intro _; exact (hx.key k).pre (Or.inl hst)
    · intro hh
      have : (upd s.task k { s.task k with discs := discs } k).completed = true := hh
      rw [upd_same] at this
      have : (s.task k).completed = true := this
      rw [hnc] at this; cases this
    · exact TaskX.of_eq { s.task k with discs := discs } (upd_same _ _ _) ht.1 ht.2.1
        (fun q v hq => by
          obtain ⟨a, b⟩ := ht.2.2 q v hq
          exact ⟨(hfr _ a).1, by rw [(hfr _ a).2]; exact b⟩)
    · refine TaskC.of_eq { s.task k with discs := discs } (upd_same _ _ _) ?_ hdiscs
        (fun q hq => (hfr _ (hissued q hq)).1)
      show completeSeq P k (s.task k).seq = true
      unfold completeSeq
      rw [← ht.1]
      apply List.all_eq_true.2
      intro q hq
      have := hall q hq
      by_cases hk2 : q.kind = 2
      · simp [hk2]
      · rw [if_neg hk2] at this
        simp [this]
  · cases h

theorem xinv_complete {k : Key} {v : Val} {force : Bool} (hx : XInv P σ root s)
    (h : step P s (.complete k v force) = some s') : XInv P σ root s' := by
  simp only [step] at h
  split at h
  · rename_i hc
    cases h
    simp only [Bool.and_eq_true, beq_iff_eq, Bool.not_eq_eq_eq_not, Bool.not_true] at hc
    obtain ⟨⟨⟨⟨hst, hstarted⟩, hncomp⟩, hv⟩, hforce⟩ := hc
    have hne : s.status k ≠ .idle := by rw [hst]; exact fun e => by cases e
    have hstd := hx.started_of hne
    have hnd : s.status k ≠ .done := by rw [hst]; exact fun e => by cases e
    have hpre := (hx.key k).pre (Or.inr ⟨hst, hncomp⟩)
    have ht := (hx.key k).task (Or.inr (Or.inl hst))
    have htc := (hx.key k).taskC (Or.inl hst)
    refine hx.local k rfl rfl hstd rfl hstd rfl rfl (fun _ _ => rfl) (fun x e => setRes_res_other _ _ _ _ e)
      (fun x e => upd_ne e) (fun _ _ => rfl) (fun _ _ => Iff.rfl) hnd (fun d hd => Or.inr hd) hx.demPend ?_
    intro hfr
    refine XAt.ofComputing hst ?_ ?_ ((hx.key k).dem hne)
      (((hx.key k).cert (Or.inr (Or.inr (Or.inl hst)))).mono hfr) ?_ ?_ ((hx.key k).inRan (Or.inr hst))
    · intro hh
      have : (upd s.task k { s.task k with completed := true } k).completed = false := hh
      rw [upd_same] at this; cases this
    · intro _
      show ((s.mem.setRes k _).res k).value =
          (σ.runVal P k (recvOf (upd s.task k { s.task k with completed := true } k).seq)).1 ∧
        ((s.mem.setRes k _).res k).computedAt =
          (σ.runVal P k (recvOf (upd s.task k { s.task k with completed := true } k).seq)).2
      rw [setRes_res_same, upd_same]
      show _ = (σ.runVal P k (recvOf (s.task k).seq)).1 ∧ _ = (σ.runVal P k (recvOf (s.task k).seq)).2
      unfold Snap.runVal
      rw [← hx.env, ← hv, ← hforce, ← hpre.1, ← hpre.2, ← hx.epoch hstd]
      by_cases hcnd : (!force && v == (s.mem.res k).value) = true
      · rw [if_pos hcnd, if_pos hcnd]; exact ⟨rfl, rfl⟩
      · rw [if_neg hcnd, if_neg hcnd]; exact ⟨rfl, rfl⟩
    · exact TaskX.of_eq { s.task k with completed := true } (upd_same _ _ _) ht.1 ht.2.1
        (fun q v hq => by
          obtain ⟨a, b⟩ := ht.2.2 q v hq
          exact ⟨(hfr _ a).1, by rw [(hfr _ a).2]; exact b⟩)
    · exact TaskC.of_eq { s.task k with completed := true } (upd_same _ _ _) htc.1 htc.2.1
        (fun q hq => (hfr _ (htc.2.2 q hq)).1)
  · cases h

theorem xinv_finished {k : Key} {row : Res} (hx : XInv P σ root s) (h : step P s (.finished k row) = some s') :
    XInv P σ root s' := by
  simp only [step] at h
  split at h
  · rename_i hc
    cases h
    simp only [Bool.and_eq_true, beq_iff_eq] at hc
    have hst : s.status k = .computing := hc.1.1.1.1.1.1.1.1.1
    have hcompl : (s.task k).completed = true := hc.1.1.1.1.1.1.1.2
    have hne : s.status k ≠ .idle := by rw [hst]; exact fun e => by cases e
    have hstd := hx.started_of hne
    have hnd : s.status k ≠ .done := by rw [hst]; exact fun e => by cases e
    have ht := (hx.key k).task (Or.inr (Or.inl hst))
    have htc := (hx.key k).taskC (Or.inl hst)
    have hcert := (hx.key k).cert (Or.inr (Or.inr (Or.inl hst)))
    have hpost := (hx.key k).post hst hcompl
    have hran := (hx.key k).inRan (Or.inr hst)
    have hdem := (hx.key k).dem hne
    refine hx.local k rfl rfl hstd rfl hstd rfl rfl (fun x e => upd_ne e) (fun x e => upd_ne e)
      (fun _ _ => rfl) (fun _ _ => rfl) (fun _ _ => Iff.rfl) hnd ?_ ?_ ?_
    · intro d hd
      by_cases e : d = k
      · subst e; left; exact upd_same _ _ _
      · right
        obtain ⟨p, hp, hpd⟩ := List.mem_map.1 hd
        refine List.mem_map.2 ⟨p, List.mem_append_left _ (List.mem_filter.2 ⟨hp, by simp [hpd, e]⟩), hpd⟩
    · intro p hp
      rcases List.mem_append.1 hp with hp | hp
      · exact hx.demPend p (List.mem_filter.1 hp).1
      · obtain ⟨d, hd, hpd⟩ := List.mem_map.1 (List.mem_filter.1 hp).1
        rw [← hpd]
        rw [htc.2.1] at hd
        exact Dem.disc k (s.task k).seq d hdem (hx.needsRunR hcert) ht.2.1 htc.1 (hx.refAnswers ht) hd
    · intro hfr
      refine XAt.ofDone (upd_same _ _ _) ?_ hdem (fun _ => hcert.mono hfr) (fun hr => absurd hran hr)
        (fun _ => ⟨ht.mono rfl hfr, htc.mono rfl hfr⟩) ?_
      · have hd : decide (k ∈ s.ran) = true := by simp [hran]
        show Ref P σ k (decide (k ∈ s.ran)) (upd s.mem.res k _ k).value (upd s.mem.res k _ k).computedAt
        rw [upd_same, hd]
        show Ref P σ k true (s.mem.res k).value (s.mem.res k).computedAt
        rw [hpost.1, hpost.2]
        exact hx.ref_of_run hcert ht htc.1
      · intro _ d hd
        by_cases hdd : s.status d = .done
        · left; exact (hfr _ hdd).1
        · by_cases e : d = k
          · subst e; left; exact upd_same _ _ _
          · right
            refine List.mem_map.2 ⟨(d, P.out d s.env []), List.mem_append_right _ (List.mem_filter.2 ⟨?_, ?_⟩), rfl⟩
            · exact List.mem_map.2 ⟨d, hd, rfl⟩
            · simp [isDone, hdd, e]
  · cases h

/-! ## assembly -/

/-- **`XInv` is preserved** by every event of a build before `ret` that the monitor accepts and that passes the in-order
guards -/
theorem step_xinv {e : Event} (hx : XInv P σ root s) (h2 : Inv2 s) (h : step P s e = some s')
    (hok : evOkX s e = true) (hmid : Event.isMidX e = true) : XInv P σ root s' := by
  cases e with
  | buildStart k => cases hmid
  | ret v => cases hmid
  | tail a b => cases hmid
  | mutate a b => cases hmid
  | restart => cases hmid
  | wipe => cases hmid
  | crash => cases hmid
  | queueCreated => exact xinv_queueCreated hx h
  | lookup k => exact xinv_lookup hx h
  | dbGet k f => exact xinv_dbGet hx h
  | scanning k => exact xinv_scanning hx h2 h hok
  | upToDate k => exact xinv_upToDate hx h
  | valid k v b => exact xinv_valid hx h2 h
  | needs k r i => exact xinv_needs hx h2 h hok
  | create k => exact xinv_create hx h
  | start k reqs => exact xinv_start hx h
  | prior k v => exact xinv_prior hx h
  | provide k id key v reqs => exact xinv_provide hx h
  | inputsAvail k ds => exact xinv_inputsAvail hx h2 h
  | complete k v f => exact xinv_complete hx h
  | finished k row => exact xinv_finished hx h
  | dbIter e => exact xinv_dbIter hx h
  | dbBegin => exact xinv_dbBegin hx h
  | dbEnd => exact xinv_dbEnd hx h
  | cycle ks => exact xinv_cycle hx h
  | error c => exact xinv_error hx h
  | cancel => exact xinv_cancel hx h

end LLBuild.Engine
