import LLBuild.Lemmas.Engine.Task

namespace LLBuild.Engine

/-- `inputsAvailable`: running → computing, the discovered dependencies are recorded in the task -/
theorem Inv.toComputing {P : Program} {s s' : St} {k : Key} {discs : List Key}
    (h1 : s'.env = s.env) (h2 : s'.epoch = s.epoch) (h3 : s'.mem = s.mem)
    (h4 : s'.db = s.db) (h5 : s'.dbIter = s.dbIter) (h6 : s'.status = upd s.status k .computing)
    (h7 : s'.task = upd s.task k { s.task k with discs := discs })
    (h8 : s'.pending = s.pending) (h9 : s'.target = s.target) (h10 : s'.started = s.started)
    (h11 : s'.validSeen = s.validSeen) (h12 : s'.registered = s.registered) (h13 : s'.sigAt = s.sigAt)
    (hs : s.status k = .running) (hts : (s.task k).started = true)
    (hall : (s.task k).issued.all (fun q => if q.kind == 2 then isDone s q.key else delivered (s.task k).seq q) = true)
    (hd : discs = P.disc k (recvOf (s.task k).seq))
    (hi : Inv P s) : Inv P s' := by
  have hst : s.started = true := started_of_status hi (by rw [hs]; simp)
  have ha : active s' ↔ active s := active_congr h10
  have hst' : ∀ x, s'.status x = if x = k then .computing else s.status x := by intro x; rw [h6]; rfl
  have hdone : ∀ x, s'.status x = .done ↔ s.status x = .done := by
    intro x; rw [hst']; split
    · rename_i e; subst e; simp [hs]
    · rfl
  have hf : ∀ x, inflight s' x = inflight s x := by
    intro x; simp only [inflight, hst']; split
    · rename_i e; subst e; rw [hs]; rfl
    · rfl
  have hfk : inflight s k = true := by simp [inflight, hs]
  constructor
  · rw [h3, h2]; exact hi.memE
  · rw [h4, h2]; exact hi.dbE
  · rw [h5, h2]; exact hi.iterLe
  · rw [h9, h10, h5, h2]; exact hi.iterEq
  · rw [h9, h8]; exact hi.pendIdle
  · rw [h10, h2]; exact hi.startedPos
  · rw [h10, h9]; exact hi.startedTarget
  · intro _ hs'; rw [h10, hst] at hs'; cases hs'
  · intro ht; rw [h9] at ht; have := hi.startedTarget hst; simp [ht] at this
  · intro x hx; rw [hdone] at hx; rw [ha, h3, h2]; exact hi.stDone x hx
  · intro hact x hx; rw [h3, h2] at hx; rw [hdone]; exact hi.builtNow (ha.1 hact) x hx
  · intro hact x hx; rw [h4, h2] at hx; rw [hdone]; exact hi.dbBuiltNow (ha.1 hact) x hx
  · intro x hx; rw [hdone] at hx
    obtain ⟨a, b⟩ := hi.seqDone x hx
    rw [h3, h8]
    exact ⟨fun q v hq hk => (hdone _).2 (a q v hq hk), fun d v hd => (b d v hd).imp (fun h => (hdone _).2 h) id⟩
  · intro x hb hfl; rw [hf] at hfl; rw [h3] at hb; rw [h3, h8]; exact hi.good x hb hfl
  · intro x hb; rw [h4] at hb; rw [h4, h8]; exact hi.dbGood x hb
  · intro x hb; rw [h4] at hb; rw [h4, h3, h8]; exact hi.dbCross x hb
  · intro x hb hfl; rw [hf] at hfl; rw [h3] at hb; rw [h3, h4]; exact hi.memDb x hb hfl
  · intro x hx; rw [hdone] at hx; rw [h1, h3]; exact hi.clean x hx
  · intro d v hd; rw [h8] at hd; rw [h1]
    obtain ⟨a, b, c⟩ := hi.pendOk d v hd
    exact ⟨a, b, fun h => c ((hdone d).1 h)⟩
  · intro x hfl hsx
    rw [hf] at hfl
    by_cases e : x = k
    · subst e
      have t := hi.taskOk x hfl hts
      have hte : s'.task x = { s.task x with discs := discs } := by rw [h7]; simp
      constructor
      · rw [hte]; exact t.issued
      · rw [hte]; exact t.valid
      · intro q v hq hk; rw [hte] at hq; rw [h3]
        obtain ⟨a, b⟩ := t.inputs q v hq hk
        exact ⟨(hdone _).2 a, b⟩
      · intro hr; rw [hst'] at hr; simp at hr
      · intro _
        rw [hte]
        refine ⟨?_, hd, ?_⟩
        · simp only [completeSeq]
          rw [← t.issued]
          apply List.all_eq_true.2
          intro q hq
          have := List.all_eq_true.1 hall q hq
          by_cases hk2 : q.kind = 2
          · simp [hk2]
          · simp [hk2] at this; simp [this]
        · intro hcmp
          have := t.running hs
          simp at hcmp; rw [this] at hcmp; cases hcmp
    · have hte : s'.task x = s.task x := by rw [h7, upd_other _ _ _ _ e]
      rw [hte] at hsx
      have t := hi.taskOk x hfl hsx
      constructor
      · rw [hte]; exact t.issued
      · rw [hte]; exact t.valid
      · intro q v hq hk; rw [hte] at hq; rw [h3]
        obtain ⟨a, b⟩ := t.inputs q v hq hk
        exact ⟨(hdone _).2 a, b⟩
      · intro hr; rw [hst'] at hr; simp [e] at hr; rw [hte]; exact t.running hr
      · intro hc; rw [hst'] at hc; simp [e] at hc; rw [hte, h3, h1]; exact t.computing hc
  · intro x hfl; rw [hf] at hfl; exact ha.2 (hi.inflightActive x hfl)
  · intro x hx hv
    rw [hst'] at hx
    by_cases e : x = k
    · simp [e] at hx
    · simp [e] at hx; rw [h11] at hv; rw [h1, h3, h13]; exact hi.validOk x hx hv
  · intro ht x hx
    rw [h9] at ht; rw [h11]; rw [hst'] at hx
    by_cases e : x = k
    · simp [e] at hx
    · simp [e] at hx; exact hi.validIdle ht x hx
  · rw [h12, h13]; exact hi.sigAtOk
  · intro x hx
    rw [h12]; rw [hst'] at hx
    by_cases e : x = k
    · simp [e] at hx
    · simp [e] at hx; exact hi.scanReg x hx

end LLBuild.Engine
