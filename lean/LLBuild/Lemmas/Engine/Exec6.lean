/-
C07 on the monitor: the two directions of "cycles are reported accurately".

NEVER FALSELY.  `StaticEdge P k b`: rule `k` can ever ask for, or discover, `b` (some request list / discovered list of the
program mentions it).  `SInv P s`: every recorded dependency (memory, database, committed database) and every issued
request / discovered key of a task is a static edge — an invariant of the monitor for a FIXED program (`step_sinv`; no
hypothesis).  `Ranked P rank`: `rank` decreases strictly along static edges (the program is statically acyclic).  Then no
wait-for lasso exists (`lasso_ranked`), and no non-empty set of blocked rules each waiting for a blocked rule
(`blocked_ranked`).

ALWAYS DETECTED.  `Upto P σ k`: `k` can be brought up to date: reusable with ALL recorded dependencies `Upto`, or run along a
valid complete delivery sequence ALL of whose issued requests (value, single-use AND must-follow) are `Upto`.  A key on a
cycle of such edges has no derivation (`upto_not_cyclic`).  `UInv`: every rule complete in a build is `Upto` — kept along
runs with the in-order guards next to `XInv` (`step_uinv`).
-/
import LLBuild.Lemmas.Engine.Exec5

set_option linter.unusedVariables false

namespace LLBuild.Engine

/-! ## never falsely -/

/-- `k` can ask for `b` (some request list mentions it) or discover it -/
def StaticEdge (P : Program) (k b : Key) : Prop :=
  (∃ r q, q ∈ P.next k r ∧ q.key = b) ∨ (∃ r, b ∈ P.disc k r)

/-- every dependency on record and every request / discovered key of a task is a static edge -/
structure SInv (P : Program) (s : St) : Prop where
  mem : ∀ k d, d ∈ (s.mem.res k).deps → StaticEdge P k d.key
  db : ∀ k d, d ∈ (s.db.res k).deps → StaticEdge P k d.key
  cdb : ∀ k d, d ∈ (s.cdb.res k).deps → StaticEdge P k d.key
  issued : ∀ k q, q ∈ (s.task k).issued → ∃ r, q ∈ P.next k r
  discs : ∀ k d, d ∈ (s.task k).discs → ∃ r, d ∈ P.disc k r

theorem SInv.init (P : Program) : SInv P ({} : St) := by
  refine ⟨?_, ?_, ?_, ?_, ?_⟩ <;> intro k d h <;> cases h

theorem isPerm_sub' {α : Type} [DecidableEq α] : ∀ (a b : List α), isPerm a b = true → ∀ x, x ∈ a → x ∈ b
  | [], _, _, x, hx => by cases hx
  | y :: ys, b, h, x, hx => by
    simp only [isPerm, Bool.and_eq_true] at h
    rcases List.mem_cons.1 hx with rfl | hx
    · simpa using h.1
    · exact List.mem_of_mem_erase (isPerm_sub' ys (b.erase y) h.2 x hx)

/-- **`SInv` is an invariant of the monitor** (for the fixed program `P`) -/
theorem step_sinv {P : Program} {s s' : St} {e : Event} (h : step P s e = some s') (hi : SInv P s) : SInv P s' := by
  cases e with
  | scanning k =>
    simp only [step] at h
    split at h
    · cases h
      refine { hi with mem := ?_ }
      intro k' d hd
      by_cases e : k' = k
      · subst e
        rw [setRes_res_same] at hd
        exact hi.mem k' d (List.mem_filter.1 hd).1
      · rw [setRes_res_other _ _ _ _ e] at hd; exact hi.mem k' d hd
    · cases h
  | upToDate k =>
    simp only [step] at h
    split at h
    · cases h
      refine { hi with mem := ?_ }
      intro k' d hd
      by_cases e : k' = k
      · subst e; rw [setRes_res_same] at hd; exact hi.mem k' d hd
      · rw [setRes_res_other _ _ _ _ e] at hd; exact hi.mem k' d hd
    · cases h
  | create k =>
    simp only [step] at h
    split at h
    · cases h
      refine { hi with mem := ?_, issued := ?_, discs := ?_ }
      · intro k' d hd
        by_cases e : k' = k
        · subst e; rw [setRes_res_same] at hd; cases hd
        · rw [setRes_res_other _ _ _ _ e] at hd; exact hi.mem k' d hd
      · intro k' q hq
        by_cases e : k' = k
        · subst e; simp [upd] at hq
        · simp only [upd, e, if_false] at hq; exact hi.issued k' q hq
      · intro k' d hd
        by_cases e : k' = k
        · subst e; simp [upd] at hd
        · simp only [upd, e, if_false] at hd; exact hi.discs k' d hd
    · cases h
  | start k reqs =>
    simp only [step] at h
    split at h
    · rename_i hc
      cases h
      simp only [Bool.and_eq_true, beq_iff_eq] at hc
      refine { hi with issued := ?_, discs := ?_ }
      · intro k' q hq
        by_cases e : k' = k
        · subst e
          simp only [upd, if_true] at hq
          rw [hc.2] at hq
          exact issuedAfter_from_next P k' [] q hq
        · simp only [upd, e, if_false] at hq; exact hi.issued k' q hq
      · intro k' d hd
        by_cases e : k' = k
        · subst e; simp [upd] at hd
        · simp only [upd, e, if_false] at hd; exact hi.discs k' d hd
    · cases h
  | prior k v =>
    simp only [step] at h
    split at h
    · cases h
      refine { hi with issued := ?_, discs := ?_ }
      · intro k' q hq
        by_cases e : k' = k
        · subst e; simp only [upd, if_true] at hq; exact hi.issued k' q hq
        · simp only [upd, e, if_false] at hq; exact hi.issued k' q hq
      · intro k' d hd
        by_cases e : k' = k
        · subst e; simp only [upd, if_true] at hd; exact hi.discs k' d hd
        · simp only [upd, e, if_false] at hd; exact hi.discs k' d hd
    · cases h
  | provide k id key v reqs =>
    simp only [step] at h
    split at h
    · split at h
      · cases h
      · rename_i q0 _
        split at h
        · rename_i hc2
          cases h
          simp only [Bool.and_eq_true, beq_iff_eq] at hc2
          refine { hi with issued := ?_, discs := ?_ }
          · intro k' q hq
            by_cases e : k' = k
            · subst e
              simp only [upd, if_true] at hq
              rw [hc2.2] at hq
              exact issuedAfter_from_next P k' _ q hq
            · simp only [upd, e, if_false] at hq; exact hi.issued k' q hq
          · intro k' d hd
            by_cases e : k' = k
            · subst e; simp only [upd, if_true] at hd; exact hi.discs k' d hd
            · simp only [upd, e, if_false] at hd; exact hi.discs k' d hd
        · cases h
    · cases h
  | inputsAvail k ds =>
    simp only [step] at h
    split at h
    · rename_i hc
      cases h
      simp only [Bool.and_eq_true, beq_iff_eq] at hc
      refine { hi with issued := ?_, discs := ?_ }
      · intro k' q hq
        by_cases e : k' = k
        · subst e; simp only [upd, if_true] at hq; exact hi.issued k' q hq
        · simp only [upd, e, if_false] at hq; exact hi.issued k' q hq
      · intro k' d hd
        by_cases e : k' = k
        · subst e
          simp only [upd, if_true] at hd
          rw [hc.2] at hd
          exact ⟨_, hd⟩
        · simp only [upd, e, if_false] at hd; exact hi.discs k' d hd
    · cases h
  | complete k v f =>
    simp only [step] at h
    split at h
    · cases h
      refine { hi with mem := ?_, issued := ?_, discs := ?_ }
      · intro k' d hd
        by_cases e : k' = k
        · subst e
          rw [setRes_res_same] at hd
          split at hd <;> exact hi.mem k' d hd
        · rw [setRes_res_other _ _ _ _ e] at hd; exact hi.mem k' d hd
      · intro k' q hq
        by_cases e : k' = k
        · subst e; simp only [upd, if_true] at hq; exact hi.issued k' q hq
        · simp only [upd, e, if_false] at hq; exact hi.issued k' q hq
      · intro k' d hd
        by_cases e : k' = k
        · subst e; simp only [upd, if_true] at hd; exact hi.discs k' d hd
        · simp only [upd, e, if_false] at hd; exact hi.discs k' d hd
    · cases h
  | finished k row =>
    simp only [step] at h
    split at h
    · rename_i hc
      cases h
      simp only [Bool.and_eq_true, beq_iff_eq] at hc
      obtain ⟨⟨_, hperm⟩, hdrop⟩ := hc
      have hrow : ∀ d ∈ row.deps, StaticEdge P k d.key := by
        intro d hd
        rw [← List.take_append_drop (s.task k).issued.length row.deps] at hd
        rcases List.mem_append.1 hd with h1 | h1
        · have := isPerm_sub' _ _ hperm d h1
          obtain ⟨q, hq, hqd⟩ := List.mem_map.1 this
          obtain ⟨r, hr⟩ := hi.issued k q hq
          left; exact ⟨r, q, hr, by rw [← hqd]; rfl⟩
        · rw [hdrop] at h1
          obtain ⟨x, hx, hxd⟩ := List.mem_map.1 h1
          obtain ⟨r, hr⟩ := hi.discs k x hx
          right; exact ⟨r, by rw [← hxd]; exact hr⟩
      refine { hi with mem := ?_, db := ?_ }
      · intro k' d hd
        by_cases e : k' = k
        · subst e
          have : d ∈ row.deps := by simpa [upd] using hd
          exact hrow d this
        · have : d ∈ (s.mem.res k').deps := by simpa [upd, e] using hd
          exact hi.mem k' d this
      · intro k' d hd
        by_cases e : k' = k
        · subst e
          have : d ∈ row.deps := by simpa [upd] using hd
          exact hrow d this
        · have : d ∈ (s.db.res k').deps := by simpa [upd, e] using hd
          exact hi.db k' d this
    · cases h
  | dbEnd =>
    simp only [step] at h
    split at h
    · cases h; exact { hi with cdb := hi.db }
    · cases h
  | ret v =>
    simp only [step] at h
    split at h
    · cases h
    · split at h
      · cases h
      · split at h
        · cases h; exact { hi with }
        · split at h
          · cases h
            refine { hi with mem := ?_ }
            intro k d hd
            simp only at hd
            split at hd <;> exact hi.mem k d hd
          · cases h
  | tail a b =>
    simp only [step] at h
    split at h
    · cases h
      refine { hi with mem := ?_ }
      intro k d hd
      simp only at hd
      split at hd <;> exact hi.mem k d hd
    · cases h
  | restart =>
    simp only [step] at h
    split at h
    · cases h; exact { hi with mem := hi.db }
    · cases h
  | crash =>
    simp only [step] at h
    split at h
    · cases h
      exact { mem := hi.cdb, db := hi.cdb, cdb := hi.cdb, issued := (fun k q hq => by cases hq),
              discs := (fun k d hd => by cases hd) }
    · cases h
  | wipe =>
    simp only [step] at h
    split at h
    · cases h; exact SInv.init P
    · cases h
  | buildStart k =>
    simp only [step] at h
    split at h
    · cases h
      exact { hi with issued := (fun k q hq => by cases hq), discs := (fun k d hd => by cases hd) }
    · cases h
  | cycle ks =>
    simp only [step] at h
    split at h
    · split at h
      · cases h; exact { hi with }
      · cases h
    · cases h
  | _ =>
    simp only [step] at h
    first
      | (cases h; exact { hi with })
      | (split at h
         · cases h; exact { hi with }
         · cases h)

theorem run_sinv {P : Program} : ∀ (evs : List Event) (s s' : St), run P s evs = some s' → SInv P s → SInv P s'
  | [], s, s', h, hi => by simp [run] at h; subst h; exact hi
  | e :: es, s, s', h, hi => by
    simp only [run] at h
    cases hs : step P s e with
    | none => rw [hs] at h; simp at h
    | some s1 => rw [hs] at h; exact run_sinv es s1 s' h (step_sinv hs hi)

/-- `rank` decreases strictly along every static edge -/
def Ranked (P : Program) (rank : Key → Nat) : Prop := ∀ k b, StaticEdge P k b → rank b < rank k

theorem firstNotDone_mem {s : St} : ∀ (ds : List Dep) (b : Key), firstNotDone s ds = some b → ∃ d ∈ ds, d.key = b
  | [], b, h => by simp [firstNotDone] at h
  | d :: ds, b, h => by
    simp only [firstNotDone] at h
    split at h
    · obtain ⟨d', hd', e⟩ := firstNotDone_mem ds b h
      exact ⟨d', List.mem_cons_of_mem _ hd', e⟩
    · cases h; exact ⟨d, List.mem_cons_self, rfl⟩

/-- a wait-for edge is a static edge -/
theorem waitsFor_static {P : Program} {s : St} (hi : SInv P s) {a b : Key} (h : waitsFor s a b = true) : StaticEdge P a b := by
  unfold waitsFor at h
  split at h
  · obtain ⟨q, hq, hc⟩ := List.any_eq_true.1 h
    simp only [Bool.and_eq_true, beq_iff_eq] at hc
    obtain ⟨r, hr⟩ := hi.issued a q hq
    left; exact ⟨r, q, hr, hc.1.1⟩
  · have : firstNotDone s (s.mem.res a).deps = some b := by simpa using h
    obtain ⟨d, hd, e⟩ := firstNotDone_mem _ b this
    rw [← e]; exact hi.mem a d hd
  · cases h

/-- along a chain of strictly decreasing ranks, the last element is below every earlier one -/
theorem chain_rank_last (rank : Key → Nat) : ∀ (ks : List Key) (l : Key),
    (∀ ab ∈ ks.zip ks.tail, rank ab.2 < rank ab.1) → ks.getLast? = some l → ∀ x ∈ ks.dropLast, rank l < rank x
  | [], _, _, h, _, _ => by cases h
  | [a], _, _, _, x, hx => by cases hx
  | a :: b :: rest, l, hch, hl, x, hx => by
    have hab : rank b < rank a := hch (a, b) (by simp)
    have hch' : ∀ ab ∈ (b :: rest).zip (b :: rest).tail, rank ab.2 < rank ab.1 := by
      intro ab hab'
      exact hch ab (by simp only [List.tail_cons, List.zip_cons_cons, List.mem_cons]; right; exact hab')
    have hl' : (b :: rest).getLast? = some l := by simpa [List.getLast?_cons_cons] using hl
    have hx' : x = a ∨ x ∈ (b :: rest).dropLast := by
      simpa [List.dropLast_cons_cons] using hx
    -- the last is below `b` (or is `b`)
    have hlb : rank l ≤ rank b := by
      cases rest with
      | nil => simp at hl'; subst hl'; exact Nat.le_refl _
      | cons c r =>
        have : b ∈ (b :: c :: r).dropLast := by simp [List.dropLast_cons_cons]
        exact Nat.le_of_lt (chain_rank_last rank (b :: c :: r) l hch' hl' b this)
    rcases hx' with e | e
    · subst e; omega
    · exact chain_rank_last rank (b :: rest) l hch' hl' x e

/-- **a statically acyclic program has no wait-for lasso** -/
theorem lasso_ranked {P : Program} {s : St} (hi : SInv P s) {rank : Key → Nat} (hr : Ranked P rank) (root : Key)
    (ks : List Key) (h : lassoOk s root ks = true) : False := by
  unfold lassoOk at h
  cases ks with
  | nil => simp at h
  | cons a rest =>
    simp only [Bool.and_eq_true, beq_iff_eq, List.all_eq_true] at h
    obtain ⟨⟨_, hw⟩, hlast⟩ := h
    split at hlast
    · rename_i l hgl
      have hmem : l ∈ (a :: rest).dropLast := by simpa using hlast
      have := chain_rank_last rank (a :: rest) l
        (fun ab hab => hr ab.1 ab.2 (waitsFor_static hi (hw ab hab))) hgl l hmem
      omega
    · cases hlast

/-- **… and no non-empty set of blocked rules each waiting for a blocked rule** -/
theorem blocked_ranked {P : Program} {s : St} (hi : SInv P s) {rank : Key → Nat} (hr : Ranked P rank)
    (B : Key → Prop) (hne : ∃ k, B k) (hall : ∀ k, B k → ∃ k', waitsFor s k k' = true ∧ B k') : False := by
  have key : ∀ n k, rank k = n → B k → False := by
    intro n
    induction n using Nat.strongRecOn with
    | ind n ih =>
      intro k hk hb
      obtain ⟨k', hw, hb'⟩ := hall k hb
      have := hr k k' (waitsFor_static hi hw)
      exact ih (rank k') (by omega) k' rfl hb'
  obtain ⟨k, hk⟩ := hne
  exact key _ k rfl hk

/-! ## always detected -/

/-- `k` can be brought up to date at all: no cycle through recorded dependencies and requests of ANY kind -/
inductive Upto (P : Program) (σ : Snap) : Key → Prop
  | keep (k : Key) : σ.reusable P k → (∀ d ∈ σ.deps k, Upto P σ d.key) → Upto P σ k
  | run (k : Key) (seq : Seq) : validSeq P k seq = true → completeSeq P k seq = true →
      (∀ q ∈ issuedAfter P k seq, Upto P σ q.key) → Upto P σ k

/-- a set of keys each of which, kept or run, needs a key of the set -/
def UptoCyclic (P : Program) (σ : Snap) (C : Key → Prop) : Prop :=
  ∀ k, C k →
    (σ.reusable P k → ∃ d ∈ σ.deps k, C d.key) ∧
    (∀ seq, validSeq P k seq = true → completeSeq P k seq = true → ∃ q ∈ issuedAfter P k seq, C q.key)

theorem upto_not_cyclic {P : Program} {σ : Snap} {C : Key → Prop} (hC : UptoCyclic P σ C) {k : Key}
    (h : Upto P σ k) : ¬ C k := by
  induction h with
  | keep k hre _ ih =>
    intro hk
    obtain ⟨d, hd, hcd⟩ := (hC k hk).1 hre
    exact ih d hd hcd
  | run k seq hv hc _ ih =>
    intro hk
    obtain ⟨q, hq, hcq⟩ := (hC k hk).2 seq hv hc
    exact ih q hq hcq

theorem SnapEq.upto {P : Program} {σ σ' : Snap} (h : SnapEq σ σ') {k : Key} (hu : Upto P σ k) : Upto P σ' k := by
  induction hu with
  | keep k hre _ ih =>
    refine Upto.keep k (h.reusable hre) ?_
    intro d hd; rw [h.deps_eq hre] at hd; exact ih d hd
  | run k seq hv hc _ ih => exact Upto.run k seq hv hc ih

theorem SnapEq.uptoCyclic {P : Program} {σ σ' : Snap} (h : SnapEq σ σ') {C : Key → Prop} (hC : UptoCyclic P σ' C) :
    UptoCyclic P σ C := by
  intro k hk
  refine ⟨fun hre => ?_, (hC k hk).2⟩
  obtain ⟨d, hd, hcd⟩ := (hC k hk).1 (h.reusable hre)
  rw [h.deps_eq hre] at hd
  exact ⟨d, hd, hcd⟩

/-- every rule complete in this build can be brought up to date -/
def UInv (P : Program) (σ : Snap) (s : St) : Prop := ∀ k, s.status k = .done → Upto P σ k

/-- a rule becomes complete only at `upToDate` / `finished` -/
theorem step_newDone {P : Program} {s s' : St} {e : Event} (h : step P s e = some s') (hmid : Event.isMidX e = true)
    (k : Key) (hk : s'.status k = .done) :
    s.status k = .done ∨ e = .upToDate k ∨ ∃ row, e = .finished k row := by
  cases e with
  | scanning k0 =>
    simp only [step] at h
    split at h
    · cases h
      by_cases e : k = k0
      · subst e; simp [upd] at hk
      · left; simpa [upd, e] using hk
    · cases h
  | needs k0 r i =>
    simp only [step] at h
    split at h
    · cases h
      by_cases e : k = k0
      · subst e; simp [upd] at hk
      · left; simpa [upd, e] using hk
    · cases h
  | upToDate k0 =>
    simp only [step] at h
    split at h
    · cases h
      by_cases e : k = k0
      · subst e; right; left; rfl
      · left; simpa [upd, e] using hk
    · cases h
  | create k0 =>
    simp only [step] at h
    split at h
    · cases h
      by_cases e : k = k0
      · subst e; simp [upd] at hk
      · left; simpa [upd, e] using hk
    · cases h
  | inputsAvail k0 ds =>
    simp only [step] at h
    split at h
    · cases h
      by_cases e : k = k0
      · subst e; simp [upd] at hk
      · left; simpa [upd, e] using hk
    · cases h
  | finished k0 row =>
    simp only [step] at h
    split at h
    · cases h
      by_cases e : k = k0
      · subst e; right; right; exact ⟨row, rfl⟩
      · left; simpa [upd, e] using hk
    · cases h
  | _ => first
    | (exact Bool.noConfusion hmid)
    | (simp only [step] at h
       repeat' split at h
       all_goals (first | cases h | skip)
       all_goals (left; exact hk))

/-- **`UInv` is kept** along the events of a build that pass the in-order guards (next to `XInv`) -/
theorem step_uinv {P : Program} {σ : Snap} {root : Key} {s s' : St} {e : Event} (hx : XInv P σ root s) (hu : UInv P σ s)
    (h : step P s e = some s') (hmid : Event.isMidX e = true) : UInv P σ s' := by
  intro k hk
  rcases step_newDone h hmid k hk with a | a | ⟨row, a⟩
  · exact hu k a
  · subst a
    simp only [step] at h
    split at h
    · rename_i hc
      simp only [Bool.and_eq_true, beq_iff_eq, List.all_eq_true] at hc
      obtain ⟨⟨hst, hvs⟩, hall⟩ := hc
      have hmem := (hx.key k).scan (Or.inl hst)
      refine Upto.keep k ((hx.key k).validT hst hvs) ?_
      intro d hd
      have := hall d (by rw [hmem]; exact hd)
      simp only [depFresh, Bool.and_eq_true, isDone, beq_iff_eq] at this
      exact hu d.key this.1
    · cases h
  · subst a
    simp only [step] at h
    split at h
    · rename_i hc
      simp only [Bool.and_eq_true, beq_iff_eq] at hc
      have hst : s.status k = .computing := hc.1.1.1.1.1.1.1.1.1
      have ht := (hx.key k).task (Or.inr (Or.inl hst))
      have htc := (hx.key k).taskC (Or.inl hst)
      refine Upto.run k (s.task k).seq ht.2.1 htc.1 ?_
      intro q hq
      rw [← ht.1] at hq
      exact hu q.key (htc.2.2 q hq)
    · cases h

end LLBuild.Engine
