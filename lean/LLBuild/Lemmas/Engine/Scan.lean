import LLBuild.Lemmas.Engine.Basic

namespace LLBuild.Engine

theorem status_upd (s : St) (k k' : Key) (st : Status) :
    upd s.status k st k' = if k' = k then st else s.status k' := rfl

/-- changing the status of `k` between two statuses that are neither `done` nor in flight -/
theorem Inv.statusQuiet {P : Program} {s s' : St} {k : Key} {st : Status}
    (h1 : s'.env = s.env) (h2 : s'.epoch = s.epoch) (h3 : s'.mem = s.mem)
    (h4 : s'.db = s.db) (h5 : s'.dbIter = s.dbIter) (h6 : s'.status = upd s.status k st) (h7 : s'.task = s.task)
    (h8 : s'.pending = s.pending) (h9 : s'.target = s.target) (h10 : s'.started = s.started)
    (h11 : s'.validSeen = s.validSeen) (h12 : s'.registered = s.registered) (h13 : s'.sigAt = s.sigAt)
    (hold : s.status k = .scanning ∨ s.status k = .idle ∨ s.status k = .needsRun)
    (hnew : st = .scanning ∨ st = .needsRun) (hst : s.started = true)
    (hscan : st = .scanning → s.status k = .idle)
    (hreg : st = .scanning → s.registered k = true)
    (hi : Inv P s) : Inv P s' := by
  have ha : active s' ↔ active s := active_congr h10
  have hnd : st ≠ .done := by rcases hnew with h | h <;> simp [h]
  have hkd : s.status k ≠ .done := by rcases hold with h | h | h <;> simp [h]
  have hdone : ∀ x, s'.status x = .done ↔ s.status x = .done := by
    intro x; rw [h6, status_upd]; split
    · rename_i hx; subst hx; simp [hnd, hkd]
    · rfl
  have hf : ∀ x, inflight s' x = inflight s x := by
    intro x; simp only [inflight, h6, status_upd]; split
    · rename_i hx; subst hx
      rcases hnew with h | h <;> rcases hold with g | g | g <;> rw [h, g] <;> rfl
    · rfl
  constructor
  · rw [h3, h2]; exact hi.memE
  · rw [h4, h2]; exact hi.dbE
  · rw [h5, h2]; exact hi.iterLe
  · rw [h9, h10, h5, h2]; exact hi.iterEq
  · rw [h9, h8]; exact hi.pendIdle
  · rw [h10, h2]; exact hi.startedPos
  · rw [h10, h9]; exact hi.startedTarget
  · intro _ hs; rw [h10, hst] at hs; cases hs
  · intro ht; rw [h9] at ht; have := hi.startedTarget hst; simp [ht] at this
  · intro x hx; rw [hdone] at hx; rw [ha, h3, h2]; exact hi.stDone x hx
  · intro hact x hx; rw [h3, h2] at hx; rw [hdone]; exact hi.builtNow (ha.1 hact) x hx
  · intro hact x hx; rw [h4, h2] at hx; rw [hdone]; exact hi.dbBuiltNow (ha.1 hact) x hx
  · intro x hx; rw [hdone] at hx
    obtain ⟨a, b⟩ := hi.seqDone x hx
    rw [h3, h8]
    exact ⟨fun q v hq hk => (hdone _).2 (a q v hq hk), fun d v hd => (b d v hd).imp (fun h => (hdone _).2 h) id⟩
  · intro x hb hfl; rw [h3] at hb; rw [hf] at hfl; rw [h3, h8]; exact hi.good x hb hfl
  · intro x hb; rw [h4] at hb; rw [h4, h8]; exact hi.dbGood x hb
  · intro x hb; rw [h4] at hb; rw [h4, h3, h8]; exact hi.dbCross x hb
  · intro x hb hfl; rw [h3] at hb; rw [hf] at hfl; rw [h3, h4]; exact hi.memDb x hb hfl
  · intro x hx; rw [hdone] at hx; rw [h1, h3]; exact hi.clean x hx
  · intro d v hd; rw [h8] at hd; rw [h1]
    obtain ⟨a, b, c⟩ := hi.pendOk d v hd
    exact ⟨a, b, fun h => c ((hdone d).1 h)⟩
  · intro x hfl hs; rw [hf] at hfl; rw [h7] at hs
    have t := hi.taskOk x hfl hs
    have hxk : x ≠ k := by
      intro e; subst e
      rcases hold with g | g | g <;> simp [inflight, g] at hfl
    constructor
    · rw [h7]; exact t.issued
    · rw [h7]; exact t.valid
    · intro q v hq hk; rw [h7] at hq; rw [h3]
      obtain ⟨a, b⟩ := t.inputs q v hq hk
      exact ⟨(hdone _).2 a, b⟩
    · intro hr
      have : s.status x = .running := by rw [h6, status_upd] at hr; simpa [hxk] using hr
      rw [h7]; exact t.running this
    · intro hc
      have : s.status x = .computing := by rw [h6, status_upd] at hc; simpa [hxk] using hc
      rw [h7, h3, h1]; exact t.computing this
  · intro x hfl; rw [hf] at hfl; exact ha.2 (hi.inflightActive x hfl)
  · intro x hx hv
    rw [h11] at hv; rw [h1, h3, h13]
    rw [h6, status_upd] at hx
    by_cases e : x = k
    · subst e
      simp at hx
      have := hi.validIdle (hi.startedTarget hst) x (hscan hx)
      rw [this] at hv; cases hv
    · simp [e] at hx; exact hi.validOk x hx hv
  · intro ht x hx
    rw [h9] at ht; rw [h11]
    rw [h6, status_upd] at hx
    by_cases e : x = k
    · subst e
      simp at hx
      rcases hnew with h | h <;> simp [h] at hx
    · simp [e] at hx; exact hi.validIdle ht x hx
  · rw [h12, h13]; exact hi.sigAtOk
  · intro x hx
    rw [h12]; rw [h6, status_upd] at hx
    by_cases e : x = k
    · subst e; simp at hx; exact hreg hx
    · simp [e] at hx; exact hi.scanReg x hx

end LLBuild.Engine

namespace LLBuild.Engine

/-- Replacing the dependency list of `k`'s in-memory result (the signature stays): harmless when `k`
is in flight, or when every recorded plain dependency stays recorded. -/
theorem Inv.memDeps {P : Program} {s s' : St} {k : Key} {d' : List Dep} {sg' : Nat}
    (h1 : s'.env = s.env) (h2 : s'.epoch = s.epoch)
    (h3 : s'.mem = s.mem.setRes k { s.mem.res k with deps := d', sig := sg' })
    (h4 : s'.db = s.db) (h5 : s'.dbIter = s.dbIter) (h6 : s'.status = s.status) (h7 : s'.task = s.task)
    (h8 : s'.pending = s.pending) (h9 : s'.target = s.target) (h10 : s'.started = s.started)
    (h11 : s'.validSeen = s.validSeen) (h12 : s'.registered = s.registered) (h13 : s'.sigAt = s.sigAt)
    (hsg : sg' = (s.mem.res k).sig)
    (hdeps : inflight s k = true ∨
      ∀ x, (⟨x, false, false⟩ : Dep) ∈ (s.mem.res k).deps → (⟨x, false, false⟩ : Dep) ∈ d')
    (hi : Inv P s) : Inv P s' := by
  have ha : active s' ↔ active s := active_congr h10
  have hf : ∀ x, inflight s' x = inflight s x := inflight_congr h6
  -- the new store agrees with the old one on everything but `deps`/`sig` of `k`
  have hv : ∀ x, (s'.mem.res x).value = (s.mem.res x).value := by
    intro x; rw [h3]; by_cases e : x = k
    · subst e; simp
    · rw [setRes_res_other _ _ _ _ e]
  have hc : ∀ x, (s'.mem.res x).computedAt = (s.mem.res x).computedAt := by
    intro x; rw [h3]; by_cases e : x = k
    · subst e; simp
    · rw [setRes_res_other _ _ _ _ e]
  have hb : ∀ x, (s'.mem.res x).builtAt = (s.mem.res x).builtAt := by
    intro x; rw [h3]; by_cases e : x = k
    · subst e; simp
    · rw [setRes_res_other _ _ _ _ e]
  have hsig : ∀ x, (s'.mem.res x).sig = (s.mem.res x).sig := by
    intro x; rw [h3]; by_cases e : x = k
    · subst e; simp [hsg]
    · rw [setRes_res_other _ _ _ _ e]
  have hseq : s'.mem.seq = s.mem.seq := by rw [h3]; rfl
  have hdisc : s'.mem.disc = s.mem.disc := by rw [h3]; rfl
  have henv : s'.mem.env = s.mem.env := by rw [h3]; rfl
  constructor
  · intro x; rw [hb, hc, h2]; exact hi.memE x
  · rw [h4, h2]; exact hi.dbE
  · rw [h5, h2]; exact hi.iterLe
  · rw [h9, h10, h5, h2]; exact hi.iterEq
  · rw [h9, h8]; exact hi.pendIdle
  · rw [h10, h2]; exact hi.startedPos
  · rw [h10, h9]; exact hi.startedTarget
  · rw [h10, h9, h6]; exact hi.notStarted
  · rw [h9, h6]; exact hi.stIdle
  · intro x hx; rw [h6] at hx; rw [ha, hb, h2]; exact hi.stDone x hx
  · intro hact x hx; rw [hb, h2] at hx; rw [h6]; exact hi.builtNow (ha.1 hact) x hx
  · intro hact x hx; rw [h4, h2] at hx; rw [h6]; exact hi.dbBuiltNow (ha.1 hact) x hx
  · intro x hx; rw [h6] at hx; rw [hseq, hdisc, h6, h8]; exact hi.seqDone x hx
  · intro x hbx hfl; rw [hb] at hbx; rw [hf] at hfl
    obtain ⟨g, f⟩ := hi.good x hbx hfl
    constructor
    · intro hso; rw [hsig] at hso
      apply GoodRec.frame (σ := s.mem) (by rw [hseq]) (by rw [hdisc]) (by rw [henv]) (hv x) _ (g hso)
      intro y hy
      by_cases e : x = k
      · subst e
        rcases hdeps with hin | hd
        · rw [hin] at hfl; cases hfl
        · rw [h3]; simp; exact hd y hy
      · rw [h3, setRes_res_other _ _ _ _ e]; exact hy
    · rw [h8]
      apply FreshRec.mono (σ := s.mem) (by rw [hseq]) (by rw [hdisc]) (by rw [hb]; exact Nat.le_refl _) _ _ f
      · intro y; left; rw [hv, hc]; exact ⟨rfl, Nat.le_refl _⟩
      · intro dv _ hp; left; exact hp
  · intro x hbx; rw [h4] at hbx; rw [h4, h8]; exact hi.dbGood x hbx
  · intro x hbx; rw [h4] at hbx; rw [h4, h8]
    have := hi.dbCross x hbx
    exact ⟨fun q v hq hk => by rw [hv, hc]; exact this.seq q v hq hk, fun d v hd => by rw [hv, hc]; exact this.disc d v hd⟩
  · intro x hbx hfl; rw [hb] at hbx; rw [hf] at hfl; rw [h4, hv, hc, hb, hseq, hdisc, henv]; exact hi.memDb x hbx hfl
  · intro x hx; rw [h6] at hx; rw [h1, hv]; exact hi.clean x hx
  · intro d v hd; rw [h8] at hd; rw [h1, h6]; exact hi.pendOk d v hd
  · intro x hfl hs; rw [hf] at hfl; rw [h7] at hs
    have t := hi.taskOk x hfl hs
    constructor
    · rw [h7]; exact t.issued
    · rw [h7]; exact t.valid
    · intro q v hq hk; rw [h7] at hq; rw [h6, hv]; exact t.inputs q v hq hk
    · intro hr; rw [h6] at hr; rw [h7]; exact t.running hr
    · intro hcmp; rw [h6] at hcmp; rw [h7, hv, h1]; exact t.computing hcmp
  · intro x hfl; rw [hf] at hfl; exact ha.2 (hi.inflightActive x hfl)
  · intro x hx hvs; rw [h6] at hx; rw [h11] at hvs; rw [h1, hv, hb, hsig, h13]; exact hi.validOk x hx hvs
  · rw [h9, h6, h11]; exact hi.validIdle
  · rw [h12, h13]; exact hi.sigAtOk
  · rw [h6, h12]; exact hi.scanReg

end LLBuild.Engine
