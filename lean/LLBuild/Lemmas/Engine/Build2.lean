import LLBuild.Lemmas.Engine.Build

set_option linter.unusedVariables false

namespace LLBuild.Engine

def killInflight (s : St) : Store :=
  { s.mem with res := fun k => if inflight s k then { s.mem.res k with builtAt := 0 } else s.mem.res k }

/-- `cancelRemainingTasks`: rules with a started task are marked never-built (in memory only) -/
theorem Inv.kill {P : Program} {s s' : St}
    (h1 : s'.env = s.env) (h2 : s'.epoch = s.epoch) (h3 : s'.mem = killInflight s)
    (h4 : s'.db = s.db) (h5 : s'.dbIter = s.dbIter) (h6 : s'.status = s.status) (h7 : s'.task = s.task)
    (h8 : s'.pending = s.pending) (h9 : s'.target = s.target) (h10 : s'.started = s.started)
    (h11 : s'.validSeen = s.validSeen) (h12 : s'.registered = s.registered) (h13 : s'.sigAt = s.sigAt)
    (hi : Inv P s) : Inv P s' := by
  have ha : active s' ↔ active s := active_congr h10
  have hf : ∀ k, inflight s' k = inflight s k := inflight_congr h6
  have hsg : ∀ x, (s'.mem.res x).sig = (s.mem.res x).sig := by
    intro x; rw [h3]; simp only [killInflight]; split <;> rfl
  have hv : ∀ x, (s'.mem.res x).value = (s.mem.res x).value := by
    intro x; rw [h3]; simp only [killInflight]; split <;> rfl
  have hc : ∀ x, (s'.mem.res x).computedAt = (s.mem.res x).computedAt := by
    intro x; rw [h3]; simp only [killInflight]; split <;> rfl
  have hdp : ∀ x, (s'.mem.res x).deps = (s.mem.res x).deps := by
    intro x; rw [h3]; simp only [killInflight]; split <;> rfl
  have hbn : ∀ x, inflight s x = false → (s'.mem.res x).builtAt = (s.mem.res x).builtAt := by
    intro x hx; rw [h3]; simp [killInflight, hx]
  have hbi : ∀ x, inflight s x = true → (s'.mem.res x).builtAt = 0 := by
    intro x hx; rw [h3]; simp [killInflight, hx]
  have hble : ∀ x, (s'.mem.res x).builtAt ≤ (s.mem.res x).builtAt := by
    intro x; cases hx : inflight s x
    · rw [hbn x hx]; exact Nat.le_refl _
    · rw [hbi x hx]; exact Nat.zero_le _
  have hseq : s'.mem.seq = s.mem.seq := by rw [h3]; rfl
  have hdisc : s'.mem.disc = s.mem.disc := by rw [h3]; rfl
  have henv : s'.mem.env = s.mem.env := by rw [h3]; rfl
  have live : ∀ x, (s'.mem.res x).builtAt ≠ 0 → inflight s x = false := by
    intro x hb; cases hx : inflight s x
    · rfl
    · exact absurd (hbi x hx) hb
  constructor
  · intro x; rw [hc, h2]; exact ⟨Nat.le_trans (hble x) (hi.memE x).1, (hi.memE x).2⟩
  · rw [h4, h2]; exact hi.dbE
  · rw [h5, h2]; exact hi.iterLe
  · rw [h9, h10, h5, h2]; exact hi.iterEq
  · rw [h9, h8]; exact hi.pendIdle
  · rw [h10, h2]; exact hi.startedPos
  · rw [h10, h9]; exact hi.startedTarget
  · rw [h10, h9, h6]; exact hi.notStarted
  · rw [h9, h6]; exact hi.stIdle
  · intro x hx; rw [h6] at hx; rw [ha, h2]
    obtain ⟨a, b⟩ := hi.stDone x hx
    exact ⟨a, by rw [hbn x (by simp [inflight, hx])]; exact b⟩
  · intro hact x hx
    rw [h6]
    have hact' := ha.1 hact
    cases hfl : inflight s x
    · rw [hbn x hfl, h2] at hx; exact hi.builtNow hact' x hx
    · rw [hbi x hfl, h2] at hx
      have := hi.startedPos hact'; omega
  · intro hact x hx; rw [h4, h2] at hx; rw [h6]; exact hi.dbBuiltNow (ha.1 hact) x hx
  · intro x hx; rw [h6] at hx; rw [hseq, hdisc, h6, h8]; exact hi.seqDone x hx
  · intro x hbx hfl
    have hnx := live x hbx
    rw [hbn x hnx] at hbx
    obtain ⟨g, f⟩ := hi.good x hbx hnx
    constructor
    · intro hso; rw [hsg] at hso
      exact GoodRec.frame (σ := s.mem) (by rw [hseq]) (by rw [hdisc]) (by rw [henv]) (hv x)
        (by intro y hy; rw [hdp]; exact hy) (g hso)
    · rw [h8]
      apply FreshRec.mono (σ := s.mem) (by rw [hseq]) (by rw [hdisc]) (hble x) _ _ f
      · intro y; left; rw [hv, hc]; exact ⟨rfl, Nat.le_refl _⟩
      · intro dv _ hp; left; exact hp
  · intro x hbx; rw [h4] at hbx; rw [h4, h8]; exact hi.dbGood x hbx
  · intro x hbx; rw [h4] at hbx; rw [h4, h8]
    have := hi.dbCross x hbx
    exact ⟨fun q v hq hk => by rw [hv, hc]; exact this.seq q v hq hk, fun d v hd => by rw [hv, hc]; exact this.disc d v hd⟩
  · intro x hbx hfl
    have hnx := live x hbx
    rw [hbn x hnx] at hbx
    rw [h4, hv, hc, hbn x hnx, hseq, hdisc, henv]; exact hi.memDb x hbx hnx
  · intro x hx; rw [h6] at hx; rw [h1, hv]; exact hi.clean x hx
  · intro d v hd; rw [h8] at hd; rw [h1, h6]; exact hi.pendOk d v hd
  · intro x hfl hs; rw [hf] at hfl; rw [h7] at hs
    have t := hi.taskOk x hfl hs
    constructor
    · rw [h7]; exact t.issued
    · rw [h7]; exact t.valid
    · intro q v hq hk; rw [h7] at hq; rw [h6, hv]; exact t.inputs q v hq hk
    · intro hr; rw [h6] at hr; rw [h7]; exact t.running hr
    · intro hcmp; rw [h6] at hcmp; rw [h7, hv, h1]; exact t.computing hcmp
  · intro x hfl; rw [hf] at hfl; exact ha.2 (hi.inflightActive x hfl)
  · intro x hx hvs; rw [h6] at hx; rw [h11] at hvs
    rw [h1, hv, hbn x (by simp [inflight, hx]), hsg, h13]; exact hi.validOk x hx hvs
  · rw [h9, h6, h11]; exact hi.validIdle
  · rw [h12, h13]; exact hi.sigAtOk
  · rw [h6, h12]; exact hi.scanReg

/-- end of a build: everything returns to idle (nothing live is in flight) -/
theorem Inv.goIdle {P : Program} {s s' : St}
    (h1 : s'.env = s.env) (h2 : s'.epoch = s.epoch) (h3 : s'.mem = s.mem)
    (h4 : s'.db = s.db) (h5 : s'.dbIter = s.dbIter) (h6 : s'.status = fun _ => .idle) (h7 : s'.task = s.task)
    (h8 : s'.pending = s.pending) (h9 : s'.target = none) (h10 : s'.started = false)
    (h11 : s'.validSeen = s.validSeen) (h12 : s'.registered = s.registered) (h13 : s'.sigAt = s.sigAt)
    (hdead : ∀ x, inflight s x = true → (s.mem.res x).builtAt = 0)
    (hpe : s.pending = []) (hit : s.dbIter = s.epoch)
    (hi : Inv P s) : Inv P s' := by
  have hnf' : ∀ x, inflight s' x = false := by intro x; simp [inflight, h6]
  have hna : ¬ active s' := by simp [active, h10]
  have live : ∀ x, (s.mem.res x).builtAt ≠ 0 → inflight s x = false := by
    intro x hb; cases hx : inflight s x
    · rfl
    · exact absurd (hdead x hx) hb
  constructor
  · rw [h3, h2]; exact hi.memE
  · rw [h4, h2]; exact hi.dbE
  · rw [h5, h2]; exact hi.iterLe
  · intro _; rw [h5, h2]; exact hit
  · intro _; rw [h8]; exact hpe
  · intro h; rw [h10] at h; cases h
  · intro h; rw [h10] at h; cases h
  · intro h; rw [h9] at h; cases h
  · intro _ x; rw [h6]
  · intro x hx; rw [h6] at hx; cases hx
  · intro h; exact absurd h hna
  · intro h; exact absurd h hna
  · intro x hx; rw [h6] at hx; cases hx
  · intro x hb _; rw [h3] at hb; rw [h3, h8]; exact hi.good x hb (live x hb)
  · intro x hb; rw [h4] at hb; rw [h4, h8]; exact hi.dbGood x hb
  · intro x hb; rw [h4] at hb; rw [h4, h3, h8]; exact hi.dbCross x hb
  · intro x hb _; rw [h3] at hb; rw [h3, h4]; exact hi.memDb x hb (live x hb)
  · intro x hx; rw [h6] at hx; cases hx
  · intro d v hd; rw [h8, hpe] at hd; cases hd
  · intro x hfl; rw [hnf'] at hfl; cases hfl
  · intro x hfl; rw [hnf'] at hfl; cases hfl
  · intro x hx; rw [h6] at hx; cases hx
  · intro h; rw [h9] at h; cases h
  · rw [h12, h13]; exact hi.sigAtOk
  · intro x hx; rw [h6] at hx; cases hx

/-- a new engine over the same database -/
theorem Inv.restart {P : Program} {s s' : St}
    (h1 : s'.env = s.env) (h2 : s'.epoch = s.dbIter) (h3 : s'.mem = s.db)
    (h4 : s'.db = s.db) (h5 : s'.dbIter = s.dbIter) (h6 : s'.status = fun _ => .idle) (h7 : s'.task = s.task)
    (h8 : s'.pending = s.pending) (h9 : s'.target = s.target) (h10 : s'.started = s.started)
    (h11 : s'.validSeen = s.validSeen) (h12 : s'.registered = fun _ => false)
    (ht : s.target = none)
    (hi : Inv P s) : Inv P s' := by
  have hit := hi.iterEq (Or.inl ht)
  have hpe := hi.pendIdle ht
  have hns := not_started_of_target_none hi ht
  have hnf' : ∀ x, inflight s' x = false := by intro x; simp [inflight, h6]
  have hna : ¬ active s' := by simp [active, h10, hns]
  constructor
  · rw [h3, h2, hit]; exact hi.dbE
  · rw [h4, h2, hit]; exact hi.dbE
  · rw [h5, h2]; exact Nat.le_refl _
  · intro _; rw [h5, h2]
  · intro _; rw [h8]; exact hpe
  · intro h; rw [h10, hns] at h; cases h
  · intro h; rw [h10, hns] at h; cases h
  · intro h; rw [h9, ht] at h; cases h
  · intro _ x; rw [h6]
  · intro x hx; rw [h6] at hx; cases hx
  · intro h; exact absurd h hna
  · intro h; exact absurd h hna
  · intro x hx; rw [h6] at hx; cases hx
  · intro x hb _; rw [h3] at hb; rw [h3, h8]; exact hi.dbGood x hb
  · intro x hb; rw [h4] at hb; rw [h4, h8]; exact hi.dbGood x hb
  · intro x hb; rw [h4] at hb; rw [h4, h3, h8]
    obtain ⟨_, f⟩ := hi.dbGood x hb
    exact ⟨f.seq, f.disc⟩
  · intro x hb _; rw [h3] at hb; rw [h3, h4]; exact ⟨hb, rfl, rfl, rfl, rfl, rfl, Nat.le_refl _⟩
  · intro x hx; rw [h6] at hx; cases hx
  · intro d v hd; rw [h8, hpe] at hd; cases hd
  · intro x hfl; rw [hnf'] at hfl; cases hfl
  · intro x hfl; rw [hnf'] at hfl; cases hfl
  · intro x hx; rw [h6] at hx; cases hx
  · intro h; rw [h9, ht] at h; cases h
  · intro x hx; rw [h12] at hx; cases hx
  · intro x hx; rw [h6] at hx; cases hx

end LLBuild.Engine

namespace LLBuild.Engine

/-- the state a new process finds after the engine process died: memory is gone, the database is
what the last commit left -/
def crashState (s : St) : St :=
  { env := s.env, epoch := s.cdbIter, mem := s.cdb, db := s.cdb, dbIter := s.cdbIter,
    cdb := s.cdb, cdbIter := s.cdbIter }

/-- the committed snapshot is always a good place to restart from -/
def InvC (P : Program) (s : St) : Prop := Inv P (crashState s)

/-- committing the build's transaction: the database as it is now (with the epoch already written,
nothing pending) is a good place to restart from -/
theorem Inv.commit {P : Program} {s s' : St}
    (h1 : s'.env = s.env) (h2 : s'.epoch = s.dbIter) (h3 : s'.mem = s.db)
    (h4 : s'.db = s.db) (h5 : s'.dbIter = s.dbIter) (h6 : s'.status = fun _ => .idle)
    (h8 : s'.pending = []) (h9 : s'.target = none) (h10 : s'.started = false)
    (h12 : s'.registered = fun _ => false)
    (hit : s.dbIter = s.epoch) (hpe : s.pending = [])
    (hi : Inv P s) : Inv P s' := by
  have hnf' : ∀ x, inflight s' x = false := by intro x; simp [inflight, h6]
  have hna : ¬ active s' := by simp [active, h10]
  constructor
  · rw [h3, h2, hit]; exact hi.dbE
  · rw [h4, h2, hit]; exact hi.dbE
  · rw [h5, h2]; exact Nat.le_refl _
  · intro _; rw [h5, h2]
  · intro _; exact h8
  · intro h; rw [h10] at h; cases h
  · intro h; rw [h10] at h; cases h
  · intro h; rw [h9] at h; cases h
  · intro _ x; rw [h6]
  · intro x hx; rw [h6] at hx; cases hx
  · intro h; exact absurd h hna
  · intro h; exact absurd h hna
  · intro x hx; rw [h6] at hx; cases hx
  · intro x hb _; rw [h3] at hb; rw [h3, h8, ← hpe]; exact hi.dbGood x hb
  · intro x hb; rw [h4] at hb; rw [h4, h8, ← hpe]; exact hi.dbGood x hb
  · intro x hb; rw [h4] at hb; rw [h4, h3, h8, ← hpe]
    obtain ⟨_, f⟩ := hi.dbGood x hb
    exact ⟨f.seq, f.disc⟩
  · intro x hb _; rw [h3] at hb; rw [h3, h4]; exact ⟨hb, rfl, rfl, rfl, rfl, rfl, Nat.le_refl _⟩
  · intro x hx; rw [h6] at hx; cases hx
  · intro d v hd; rw [h8] at hd; cases hd
  · intro x hfl; rw [hnf'] at hfl; cases hfl
  · intro x hfl; rw [hnf'] at hfl; cases hfl
  · intro x hx; rw [h6] at hx; cases hx
  · intro h; rw [h9] at h; cases h
  · intro x hx; rw [h12] at hx; cases hx
  · intro x hx; rw [h6] at hx; cases hx

end LLBuild.Engine
