import LLBuild.Lemmas.Engine.Complete

namespace LLBuild.Engine

theorem isPerm_mem {α : Type} [DecidableEq α] : ∀ (a b : List α), isPerm a b = true → ∀ x, x ∈ b → x ∈ a
  | [], b, h, x, hx => by
    simp [isPerm] at h; subst h; cases hx
  | y :: ys, b, h, x, hx => by
    simp only [isPerm, Bool.and_eq_true] at h
    by_cases e : x = y
    · subst e; simp
    · have : x ∈ b.erase y := (List.mem_erase_of_ne e).2 hx
      exact List.mem_cons_of_mem _ (isPerm_mem ys (b.erase y) h.2 x this)

theorem issuedAfter_mono (P : Program) (k : Key) (qv : Req × Val) (rest : Seq) (q : Req)
    (h : q ∈ issuedAfter P k rest) : q ∈ issuedAfter P k (qv :: rest) := by
  obtain ⟨a, b⟩ := qv
  simp only [issuedAfter]
  exact List.mem_append_left _ h

theorem validSeq_issued (P : Program) (k : Key) : ∀ (seq : Seq), validSeq P k seq = true →
    ∀ q v, (q, v) ∈ seq → q ∈ issuedAfter P k seq
  | [], _, q, v, h => by cases h
  | (a, b) :: rest, hv, q, v, h => by
    simp only [validSeq, Bool.and_eq_true] at hv
    rcases List.mem_cons.1 h with e | e
    · cases e
      apply issuedAfter_mono
      simpa using hv.1.1.2
    · apply issuedAfter_mono
      exact validSeq_issued P k rest hv.1.1.1 q v e

theorem toDep_plain (q : Req) (h : q.kind = 0) : q.toDep = ⟨q.key, false, false⟩ := by
  simp [Req.toDep, h]

end LLBuild.Engine

namespace LLBuild.Engine

def putRec (σ : Store) (k : Key) (r' : Res) (seq : Seq) (gd : List (Key × Val)) (env : Env) : Store :=
  { res := upd σ.res k r', seq := upd σ.seq k seq, disc := upd σ.disc k gd, env := upd σ.env k env }

theorem seq_nil_of_self {P : Program} (hP : P.WF) {k : Key} (hs : P.self k = true) {seq : Seq}
    (hv : validSeq P k seq = true) : seq = [] := by
  cases seq with
  | nil => rfl
  | cons qv rest =>
    obtain ⟨q, w⟩ := qv
    simp [validSeq, issuedAfter_self hP hs] at hv

theorem Inv.finished {P : Program} (hP : P.WF) {s s' : St} {k : Key} {r' : Res}
    (h1 : s'.env = s.env) (h2 : s'.epoch = s.epoch)
    (h3 : s'.mem = putRec s.mem k r' (s.task k).seq ((s.task k).discs.map (fun d => (d, P.out d s.env []))) s.env)
    (h4 : s'.db = putRec s.db k r' (s.task k).seq ((s.task k).discs.map (fun d => (d, P.out d s.env []))) s.env)
    (h5 : s'.dbIter = s.dbIter) (h6 : s'.status = upd s.status k .done) (h7 : s'.task = s.task)
    (h8 : s'.pending = (s.pending.filter (fun p => p.1 != k)) ++
      (((s.task k).discs.map (fun d => (d, P.out d s.env []))).filter (fun p => !(isDone s p.1) && p.1 != k)))
    (h9 : s'.target = s.target) (h10 : s'.started = s.started) (h11 : s'.validSeen = s.validSeen)
    (h12 : s'.registered = s.registered) (h13 : s'.sigAt = s.sigAt)
    (hs : s.status k = .computing) (hts : (s.task k).started = true) (htc : (s.task k).completed = true)
    (hrv : r'.value = (s.mem.res k).value) (hrc : r'.computedAt = (s.mem.res k).computedAt)
    (hrb : r'.builtAt = s.epoch)
    (hdep1 : ∀ q, q ∈ (s.task k).issued → q.toDep ∈ r'.deps)
    (hdep2 : ∀ d, d ∈ (s.task k).discs → (⟨d, false, false⟩ : Dep) ∈ r'.deps)
    (hi : Inv P s) : Inv P s' := by
  have hst : s.started = true := started_of_status hi (by rw [hs]; simp)
  have hpos := hi.startedPos hst
  have ha : active s' ↔ active s := active_congr h10
  have hfk : inflight s k = true := by simp [inflight, hs]
  have hknd : s.status k ≠ .done := by rw [hs]; simp
  have tk := hi.taskOk k hfk hts
  obtain ⟨c1, c2, c3⟩ := tk.computing hs
  have c3 := c3 htc
  -- abbreviations
  generalize hgd : ((s.task k).discs.map (fun d => (d, P.out d s.env []))) = gd at h3 h4 h8
  have hgdmem : ∀ d v, (d, v) ∈ gd → d ∈ (s.task k).discs ∧ v = P.out d s.env [] := by
    intro d v h; rw [← hgd] at h
    obtain ⟨d', hd', e⟩ := List.mem_map.1 h
    cases e; exact ⟨hd', rfl⟩
  have hdisc_self : ∀ d, d ∈ (s.task k).discs → P.self d = true := by
    intro d hd; rw [c2] at hd; exact hP.disc_self k _ d hd
  have hdisc_ne : ∀ d, d ∈ (s.task k).discs → d ≠ k := by
    intro d hd e; subst e
    have hsd := hdisc_self d hd
    rw [c2, hP.self_nodisc d _ hsd] at hd; cases hd
  -- status facts
  have hst' : ∀ x, s'.status x = if x = k then .done else s.status x := by intro x; rw [h6]; rfl
  have hdone_mono : ∀ x, s.status x = .done → s'.status x = .done := by
    intro x hx; rw [hst']; split <;> simp [hx]
  have hfo : ∀ x, x ≠ k → inflight s' x = inflight s x := by intro x e; simp [inflight, hst', e]
  have hfk' : inflight s' k = false := by simp [inflight, hst']
  -- store facts
  have mo : ∀ x, x ≠ k → s'.mem.res x = s.mem.res x := by intro x e; rw [h3]; simp [putRec, upd, e]
  have mk : s'.mem.res k = r' := by rw [h3]; simp [putRec]
  have mseqo : ∀ x, x ≠ k → s'.mem.seq x = s.mem.seq x := by intro x e; rw [h3]; simp [putRec, upd, e]
  have mdisco : ∀ x, x ≠ k → s'.mem.disc x = s.mem.disc x := by intro x e; rw [h3]; simp [putRec, upd, e]
  have menvo : ∀ x, x ≠ k → s'.mem.env x = s.mem.env x := by intro x e; rw [h3]; simp [putRec, upd, e]
  have mseqk : s'.mem.seq k = (s.task k).seq := by rw [h3]; simp [putRec]
  have mdisck : s'.mem.disc k = gd := by rw [h3]; simp [putRec]
  have menvk : s'.mem.env k = s.env := by rw [h3]; simp [putRec]
  have dbo : ∀ x, x ≠ k → s'.db.res x = s.db.res x := by intro x e; rw [h4]; simp [putRec, upd, e]
  have dbk : s'.db.res k = r' := by rw [h4]; simp [putRec]
  have dseqo : ∀ x, x ≠ k → s'.db.seq x = s.db.seq x := by intro x e; rw [h4]; simp [putRec, upd, e]
  have ddisco : ∀ x, x ≠ k → s'.db.disc x = s.db.disc x := by intro x e; rw [h4]; simp [putRec, upd, e]
  have denvo : ∀ x, x ≠ k → s'.db.env x = s.db.env x := by intro x e; rw [h4]; simp [putRec, upd, e]
  have dseqk : s'.db.seq k = (s.task k).seq := by rw [h4]; simp [putRec]
  have ddisck : s'.db.disc k = gd := by rw [h4]; simp [putRec]
  have denvk : s'.db.env k = s.env := by rw [h4]; simp [putRec]
  have mval : ∀ x, (s'.mem.res x).value = (s.mem.res x).value := by
    intro x; by_cases e : x = k
    · subst e; rw [mk, hrv]
    · rw [mo x e]
  have mcomp : ∀ x, (s'.mem.res x).computedAt = (s.mem.res x).computedAt := by
    intro x; by_cases e : x = k
    · subst e; rw [mk, hrc]
    · rw [mo x e]
  -- inputs of the finished task
  have kin : ∀ q v, (q, v) ∈ (s.task k).seq → q.kind = 0 →
      s.status q.key = .done ∧ (s.mem.res q.key).value = v ∧ q.key ≠ k := by
    intro q v hq hk
    obtain ⟨a, b⟩ := tk.inputs q v hq hk
    exact ⟨a, b, by intro e; rw [e] at a; exact hknd a⟩
  -- a done input rule holds what it reads now
  have done_self : ∀ d, P.self d = true → s.status d = .done → (s.mem.res d).value = P.out d s.env [] :=
    fun d hsd hd => clean_self hP hsd (hi.clean d hd)
  -- live done records agree with the database
  have done_db : ∀ x, s.status x = .done → (s.db.res x).value = (s.mem.res x).value := by
    intro x hx
    obtain ⟨_, sb⟩ := hi.stDone x hx
    exact (hi.memDb x (by rw [sb]; omega) (by simp [inflight, hx])).2.1
  -- pending entries about k: k is an input rule and has just produced what it reads
  have kpend : ∀ v, (k, v) ∈ s.pending → (s.mem.res k).value = v := by
    intro v hp
    obtain ⟨a, b, _⟩ := hi.pendOk k v hp
    have := seq_nil_of_self hP b tk.valid
    rw [c3, this, a]; rfl
  have hpend : ∀ dv, dv ∈ s.pending → dv.1 ≠ k → dv ∈ s'.pending := by
    intro dv hd hne; rw [h8]; apply List.mem_append_left; simp [hd, hne]
  have hpend_new : ∀ d v, (d, v) ∈ gd → s.status d ≠ .done → (d, v) ∈ s'.pending := by
    intro d v hd hnd
    rw [h8]; apply List.mem_append_right
    have := hdisc_ne d (hgdmem d v hd).1
    simp [hd, isDone, hnd, this]
  -- the new record
  have newGood : ∀ (σ : Store), σ.res k = r' → σ.seq k = (s.task k).seq → σ.disc k = gd → σ.env k = s.env →
      GoodRec P σ k := by
    intro σ e1 e2 e3 e4
    constructor
    · rw [e2]; exact tk.valid
    · rw [e2]; exact c1
    · rw [e1, hrv, e4, e2]; exact c3
    · rw [e3, e4, e2, ← hgd, c2]
    · intro q v hq hk; rw [e2] at hq; rw [e1]
      have := hdep1 q (by rw [tk.issued]; exact validSeq_issued P k _ tk.valid q v hq)
      rw [toDep_plain q hk] at this; exact this
    · intro d v hd; rw [e3] at hd; rw [e1]; exact hdep2 d (hgdmem d v hd).1
  constructor
  · intro x
    by_cases e : x = k
    · subst e; rw [mk, hrb, hrc, h2]; exact ⟨Nat.le_refl _, (hi.memE x).2⟩
    · rw [mo x e, h2]; exact hi.memE x
  · intro x
    by_cases e : x = k
    · subst e; rw [dbk, hrb, hrc, h2]; exact ⟨Nat.le_refl _, (hi.memE x).2⟩
    · rw [dbo x e, h2]; exact hi.dbE x
  · rw [h5, h2]; exact hi.iterLe
  · rw [h9, h10, h5, h2]; exact hi.iterEq
  · intro ht; rw [h9] at ht; have := hi.startedTarget hst; simp [ht] at this
  · rw [h10, h2]; exact hi.startedPos
  · rw [h10, h9]; exact hi.startedTarget
  · intro _ hs'; rw [h10, hst] at hs'; cases hs'
  · intro ht; rw [h9] at ht; have := hi.startedTarget hst; simp [ht] at this
  · intro x hx
    rw [ha, h2]
    by_cases e : x = k
    · subst e; rw [mk]; exact ⟨hst, hrb⟩
    · rw [hst'] at hx; simp [e] at hx; rw [mo x e]; exact hi.stDone x hx
  · intro hact x hx
    rw [hst']
    by_cases e : x = k
    · simp [e]
    · simp [e]; rw [mo x e, h2] at hx; exact hi.builtNow (ha.1 hact) x hx
  · intro hact x hx
    rw [hst']
    by_cases e : x = k
    · simp [e]
    · simp [e]; rw [dbo x e, h2] at hx; exact hi.dbBuiltNow (ha.1 hact) x hx
  · intro x hx
    by_cases e : x = k
    · subst e
      rw [mseqk, mdisck]
      refine ⟨fun q v hq hk => hdone_mono _ (kin q v hq hk).1, ?_⟩
      intro d v hd
      by_cases hdd : s.status d = .done
      · left; exact hdone_mono _ hdd
      · right; exact hpend_new d v hd hdd
    · rw [hst'] at hx; simp [e] at hx
      obtain ⟨a, b⟩ := hi.seqDone x hx
      rw [mseqo x e, mdisco x e]
      refine ⟨fun q v hq hk => hdone_mono _ (a q v hq hk), ?_⟩
      intro d v hd
      rcases b d v hd with b1 | b2
      · left; exact hdone_mono _ b1
      · by_cases ed : d = k
        · left; rw [hst']; simp [ed]
        · right; exact hpend (d, v) b2 ed
  · intro x hbx hfl
    by_cases e : x = k
    · subst e
      refine ⟨fun _ => newGood s'.mem mk mseqk mdisck menvk, ?_⟩
      constructor
      · intro q v hq hk; rw [mseqk] at hq; left
        obtain ⟨_, b, c⟩ := kin q v hq hk
        rw [mo _ c]; exact b
      · intro d v hd; rw [mdisck] at hd
        obtain ⟨hdm, hv⟩ := hgdmem d v hd
        by_cases hdd : s.status d = .done
        · left; rw [mval, hv]; exact done_self d (hdisc_self d hdm) hdd
        · right; right; exact hpend_new d v hd hdd
    · rw [hfo x e] at hfl; rw [mo x e] at hbx
      obtain ⟨g, f⟩ := hi.good x hbx hfl
      constructor
      · intro hso; rw [mo x e] at hso
        exact GoodRec.frame (σ := s.mem) (mseqo x e) (mdisco x e) (menvo x e) (by rw [mo x e])
          (by intro y hy; rw [mo x e]; exact hy) (g hso)
      · apply FreshRec.mono2 (σ := s.mem) (mseqo x e) (mdisco x e) (by rw [mo x e]; exact Nat.le_refl _) _ _ _ f
        · intro q v _ _; left; rw [mval, mcomp]; exact ⟨rfl, Nat.le_refl _⟩
        · intro d v _; left; rw [mval, mcomp]; exact ⟨rfl, Nat.le_refl _⟩
        · intro dv _ hp
          by_cases ed : dv.1 = k
          · right; left; rw [mval, ed]
            have : dv = (k, dv.2) := by rw [← ed]
            rw [this] at hp; exact kpend _ hp
          · left; exact hpend dv hp ed
  · intro x hbx
    by_cases e : x = k
    · subst e
      refine ⟨fun _ => newGood s'.db dbk dseqk ddisck denvk, ?_⟩
      constructor
      · intro q v hq hk; rw [dseqk] at hq; left
        obtain ⟨a, b, c⟩ := kin q v hq hk
        rw [dbo _ c, done_db _ a]; exact b
      · intro d v hd; rw [ddisck] at hd
        obtain ⟨hdm, hv⟩ := hgdmem d v hd
        by_cases hdd : s.status d = .done
        · left; rw [dbo _ (hdisc_ne d hdm), done_db _ hdd, hv]; exact done_self d (hdisc_self d hdm) hdd
        · right; right; exact hpend_new d v hd hdd
    · rw [dbo x e] at hbx
      obtain ⟨g, f⟩ := hi.dbGood x hbx
      have cr := hi.dbCross x hbx
      constructor
      · intro hso; rw [dbo x e] at hso
        exact GoodRec.frame (σ := s.db) (dseqo x e) (ddisco x e) (denvo x e) (by rw [dbo x e])
          (by intro y hy; rw [dbo x e]; exact hy) (g hso)
      · constructor
        · intro q v hq hk
          rw [dseqo x e] at hq; rw [dbo x e]
          by_cases ek : q.key = k
          · rw [ek, dbk, hrv, hrc]
            have := cr.seq q v hq hk
            rw [ek] at this; exact this
          · rw [dbo _ ek]; exact f.seq q v hq hk
        · intro d v hd
          rw [ddisco x e] at hd; rw [dbo x e]
          by_cases ek : d = k
          · subst ek
            rw [dbk, hrv, hrc]
            rcases cr.disc d v hd with a | b | c
            · left; exact a
            · right; left; exact b
            · left; exact kpend v c
          · rw [dbo _ ek]
            rcases f.disc d v hd with a | b | c
            · left; exact a
            · right; left; exact b
            · right; right; exact hpend (d, v) c ek
  · intro x hbx
    by_cases e : x = k
    · subst e
      constructor
      · intro q v hq hk; rw [dseqk] at hq; left
        obtain ⟨_, b, c⟩ := kin q v hq hk
        rw [mo _ c]; exact b
      · intro d v hd; rw [ddisck] at hd
        obtain ⟨hdm, hv⟩ := hgdmem d v hd
        by_cases hdd : s.status d = .done
        · left; rw [mval, hv]; exact done_self d (hdisc_self d hdm) hdd
        · right; right; exact hpend_new d v hd hdd
    · rw [dbo x e] at hbx
      have cr := hi.dbCross x hbx
      constructor
      · intro q v hq hk
        rw [dseqo x e] at hq; rw [dbo x e, mval, mcomp]; exact cr.seq q v hq hk
      · intro d v hd
        rw [ddisco x e] at hd; rw [dbo x e, mval, mcomp]
        rcases cr.disc d v hd with a | b | c
        · left; exact a
        · right; left; exact b
        · by_cases ek : d = k
          · subst ek; left; exact kpend v c
          · right; right; exact hpend (d, v) c ek
  · intro x hbx hfl
    by_cases e : x = k
    · subst e
      rw [dbk, mk, dseqk, mseqk, ddisck, mdisck, denvk, menvk]
      rw [mk] at hbx
      exact ⟨hbx, rfl, rfl, rfl, rfl, rfl, Nat.le_refl _⟩
    · rw [hfo x e] at hfl; rw [mo x e] at hbx
      rw [dbo x e, mo x e, dseqo x e, mseqo x e, ddisco x e, mdisco x e, denvo x e, menvo x e]
      exact hi.memDb x hbx hfl
  · intro x hx
    rw [h1, mval]
    by_cases e : x = k
    · subst e
      rw [c3]
      refine Clean.mk x _ tk.valid c1 ?_
      intro q v hq hk
      obtain ⟨a, b, _⟩ := kin q v hq hk
      rw [← b]; exact hi.clean q.key a
    · rw [hst'] at hx; simp [e] at hx; exact hi.clean x hx
  · intro d v hd
    rw [h8] at hd; rw [h1]
    rcases List.mem_append.1 hd with h | h
    · have hd' := List.mem_filter.1 h
      obtain ⟨a, b, c⟩ := hi.pendOk d v hd'.1
      refine ⟨a, b, ?_⟩
      rw [hst']
      have : d ≠ k := by simpa using hd'.2
      simp [this]; exact c
    · have hd' := List.mem_filter.1 h
      obtain ⟨hdm, hv⟩ := hgdmem d v hd'.1
      refine ⟨hv, hdisc_self d hdm, ?_⟩
      rw [hst']
      have hne := hdisc_ne d hdm
      simp [hne]
      have := hd'.2
      simp [isDone] at this
      exact this.1
  · intro x hfl hsx
    have hxk : x ≠ k := by intro e; subst e; rw [hfk'] at hfl; cases hfl
    rw [hfo x hxk] at hfl; rw [h7] at hsx
    have t := hi.taskOk x hfl hsx
    constructor
    · rw [h7]; exact t.issued
    · rw [h7]; exact t.valid
    · intro q v hq hk; rw [h7] at hq; rw [mval]
      obtain ⟨a, b⟩ := t.inputs q v hq hk
      exact ⟨hdone_mono _ a, b⟩
    · intro hr; rw [hst'] at hr; simp [hxk] at hr; rw [h7]; exact t.running hr
    · intro hcmp
      rw [hst'] at hcmp; simp [hxk] at hcmp
      rw [h7, mval, h1]; exact t.computing hcmp
  · intro x hfl
    have hxk : x ≠ k := by intro e; subst e; rw [hfk'] at hfl; cases hfl
    rw [hfo x hxk] at hfl; exact ha.2 (hi.inflightActive x hfl)
  · intro x hx hvx
    rw [hst'] at hx
    by_cases e : x = k
    · simp [e] at hx
    · simp [e] at hx; rw [h11] at hvx; rw [h1, mo x e, h13]; exact hi.validOk x hx hvx
  · intro ht x hx
    rw [h9] at ht; rw [h11]
    rw [hst'] at hx
    by_cases e : x = k
    · simp [e] at hx
    · simp [e] at hx; exact hi.validIdle ht x hx
  · rw [h12, h13]; exact hi.sigAtOk
  · intro x hx
    rw [h12]; rw [hst'] at hx
    by_cases e : x = k
    · simp [e] at hx
    · simp [e] at hx; exact hi.scanReg x hx

end LLBuild.Engine
