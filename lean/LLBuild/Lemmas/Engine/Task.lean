import LLBuild.Lemmas.Engine.UpToDate

namespace LLBuild.Engine

/-- only the task record of `k` changes -/
theorem Inv.taskUpd {P : Program} {s s' : St} {k : Key} {t' : Task}
    (h1 : s'.env = s.env) (h2 : s'.epoch = s.epoch) (h3 : s'.mem = s.mem)
    (h4 : s'.db = s.db) (h5 : s'.dbIter = s.dbIter) (h6 : s'.status = s.status) (h7 : s'.task = upd s.task k t')
    (h8 : s'.pending = s.pending) (h9 : s'.target = s.target) (h10 : s'.started = s.started)
    (h11 : s'.validSeen = s.validSeen) (h12 : s'.registered = s.registered) (h13 : s'.sigAt = s.sigAt)
    (hk : inflight s k = true → t'.started = true → TaskOk P s' k)
    (hi : Inv P s) : Inv P s' := by
  have ha : active s' ↔ active s := active_congr h10
  have hf : ∀ k, inflight s' k = inflight s k := inflight_congr h6
  constructor
  · rw [h3, h2]; exact hi.memE
  · rw [h4, h2]; exact hi.dbE
  · rw [h5, h2]; exact hi.iterLe
  · rw [h9, h10, h5, h2]; exact hi.iterEq
  · rw [h9, h8]; exact hi.pendIdle
  · rw [h10, h2]; exact hi.startedPos
  · rw [h10, h9]; exact hi.startedTarget
  · rw [h10, h9, h6]; exact hi.notStarted
  · rw [h9, h6]; exact hi.stIdle
  · intro k hk; rw [h6] at hk; rw [ha, h3, h2]; exact hi.stDone k hk
  · intro hact k hk; rw [h3, h2] at hk; rw [h6]; exact hi.builtNow (ha.1 hact) k hk
  · intro hact k hk; rw [h4, h2] at hk; rw [h6]; exact hi.dbBuiltNow (ha.1 hact) k hk
  · intro k hk; rw [h6] at hk; rw [h3, h6, h8]; exact hi.seqDone k hk
  · intro k hb hfl; rw [h3] at hb; rw [hf] at hfl; rw [h3, h8]; exact hi.good k hb hfl
  · intro k hb; rw [h4] at hb; rw [h4, h8]; exact hi.dbGood k hb
  · intro k hb; rw [h4] at hb; rw [h4, h3, h8]; exact hi.dbCross k hb
  · intro k hb hfl; rw [h3] at hb; rw [hf] at hfl; rw [h3, h4]; exact hi.memDb k hb hfl
  · intro k hk; rw [h6] at hk; rw [h1, h3]; exact hi.clean k hk
  · intro d v hd; rw [h8] at hd; rw [h1, h6]; exact hi.pendOk d v hd
  · intro x hfl hs
    rw [hf] at hfl
    by_cases e : x = k
    · subst e
      rw [h7] at hs; simp at hs
      exact hk hfl hs
    · have hte : s'.task x = s.task x := by rw [h7, upd_other _ _ _ _ e]
      rw [hte] at hs
      have t := hi.taskOk x hfl hs
      constructor
      · rw [hte]; exact t.issued
      · rw [hte]; exact t.valid
      · rw [hte, h6, h3]; exact t.inputs
      · rw [hte, h6]; exact t.running
      · rw [hte, h6, h3, h1]; exact t.computing
  · intro k hfl; rw [hf] at hfl; exact ha.2 (hi.inflightActive k hfl)
  · rw [h6, h11, h1, h3, h13]; exact hi.validOk
  · rw [h9, h6, h11]; exact hi.validIdle
  · rw [h12, h13]; exact hi.sigAtOk
  · rw [h6, h12]; exact hi.scanReg

/-- `create`: the rule's task is created (the dependency list is cleared by `Inv.memDeps` afterwards) -/
theorem Inv.toRunning {P : Program} {s s' : St} {k : Key}
    (h1 : s'.env = s.env) (h2 : s'.epoch = s.epoch) (h3 : s'.mem = s.mem)
    (h4 : s'.db = s.db) (h5 : s'.dbIter = s.dbIter) (h6 : s'.status = upd s.status k .running)
    (h7 : s'.task = upd s.task k {})
    (h8 : s'.pending = s.pending) (h9 : s'.target = s.target) (h10 : s'.started = s.started)
    (h11 : s'.validSeen = s.validSeen) (h12 : s'.registered = s.registered) (h13 : s'.sigAt = s.sigAt)
    (hs : s.status k = .needsRun)
    (hi : Inv P s) : Inv P s' := by
  have hst : s.started = true := started_of_status hi (by rw [hs]; simp)
  have ha : active s' ↔ active s := active_congr h10
  have hst' : ∀ x, s'.status x = if x = k then .running else s.status x := by intro x; rw [h6]; rfl
  have hdone : ∀ x, s'.status x = .done ↔ s.status x = .done := by
    intro x; rw [hst']; split
    · rename_i e; subst e; simp [hs]
    · rfl
  have hfo : ∀ x, x ≠ k → inflight s' x = inflight s x := by
    intro x e; simp [inflight, hst', e]
  have hfk : inflight s' k = true := by simp [inflight, hst']
  constructor
  · rw [h3, h2]; exact hi.memE
  · rw [h4, h2]; exact hi.dbE
  · rw [h5, h2]; exact hi.iterLe
  · rw [h9, h10, h5, h2]; exact hi.iterEq
  · rw [h9, h8]; exact hi.pendIdle
  · rw [h10, h2]; exact hi.startedPos
  · rw [h10, h9]; exact hi.startedTarget
  · intro _ hs'; rw [h10, hst] at hs'; cases hs'
  · intro ht; rw [h9] at ht; have := hi.startedTarget hst; simp [ht] at this
  · intro x hx; rw [hdone] at hx; rw [ha, h3, h2]; exact hi.stDone x hx
  · intro hact x hx; rw [h3, h2] at hx; rw [hdone]; exact hi.builtNow (ha.1 hact) x hx
  · intro hact x hx; rw [h4, h2] at hx; rw [hdone]; exact hi.dbBuiltNow (ha.1 hact) x hx
  · intro x hx; rw [hdone] at hx
    obtain ⟨a, b⟩ := hi.seqDone x hx
    rw [h3, h8]
    exact ⟨fun q v hq hk => (hdone _).2 (a q v hq hk), fun d v hd => (b d v hd).imp (fun h => (hdone _).2 h) id⟩
  · intro x hb hfl
    have hxk : x ≠ k := by intro e; subst e; rw [hfk] at hfl; cases hfl
    rw [hfo x hxk] at hfl; rw [h3] at hb; rw [h3, h8]; exact hi.good x hb hfl
  · intro x hb; rw [h4] at hb; rw [h4, h8]; exact hi.dbGood x hb
  · intro x hb; rw [h4] at hb; rw [h4, h3, h8]; exact hi.dbCross x hb
  · intro x hb hfl
    have hxk : x ≠ k := by intro e; subst e; rw [hfk] at hfl; cases hfl
    rw [hfo x hxk] at hfl; rw [h3] at hb; rw [h3, h4]; exact hi.memDb x hb hfl
  · intro x hx; rw [hdone] at hx; rw [h1, h3]; exact hi.clean x hx
  · intro d v hd; rw [h8] at hd; rw [h1]
    obtain ⟨a, b, c⟩ := hi.pendOk d v hd
    exact ⟨a, b, fun h => c ((hdone d).1 h)⟩
  · intro x hfl hsx
    by_cases e : x = k
    · subst e; rw [h7] at hsx; simp at hsx
    · rw [hfo x e] at hfl
      have hte : s'.task x = s.task x := by rw [h7, upd_other _ _ _ _ e]
      rw [hte] at hsx
      have t := hi.taskOk x hfl hsx
      constructor
      · rw [hte]; exact t.issued
      · rw [hte]; exact t.valid
      · intro q v hq hk; rw [hte] at hq; rw [h3]
        obtain ⟨a, b⟩ := t.inputs q v hq hk
        exact ⟨(hdone _).2 a, b⟩
      · intro hr; rw [hst'] at hr; simp [e] at hr; rw [hte]; exact t.running hr
      · intro hc; rw [hst'] at hc; simp [e] at hc; rw [hte, h3, h1]; exact t.computing hc
  · intro x hfl
    by_cases e : x = k
    · exact ha.2 hst
    · rw [hfo x e] at hfl; exact ha.2 (hi.inflightActive x hfl)
  · intro x hx hv
    rw [hst'] at hx
    by_cases e : x = k
    · simp [e] at hx
    · simp [e] at hx; rw [h11] at hv; rw [h1, h3, h13]; exact hi.validOk x hx hv
  · intro ht x hx
    rw [h9] at ht; rw [h11]; rw [hst'] at hx
    by_cases e : x = k
    · simp [e] at hx
    · simp [e] at hx; exact hi.validIdle ht x hx
  · rw [h12, h13]; exact hi.sigAtOk
  · intro x hx
    rw [h12]; rw [hst'] at hx
    by_cases e : x = k
    · simp [e] at hx
    · simp [e] at hx; exact hi.scanReg x hx

end LLBuild.Engine
