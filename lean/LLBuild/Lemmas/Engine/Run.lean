import LLBuild.Lemmas.Engine.Step

set_option linter.unusedVariables false

namespace LLBuild.Engine

/-- the ghost flag is sticky: only wiping the database clears it -/
theorem step_dropped {P : Program} {s s' : St} {e : Event} (h : step P s e = some s')
    (hd : s.pendingDropped = true) : s'.pendingDropped = true ∨ (Inv P s' ∧ InvC P s') := by
  cases e <;> simp only [step] at h
  case wipe =>
    split at h
    · cases h; right; exact ⟨Inv.init P, Inv.init P⟩
    · cases h
  case dbEnd =>
    split at h
    · cases h; left; simp [hd]
    · cases h
  case ret v =>
    split at h
    · cases h
    · split at h
      · cases h
      · split at h
        · cases h; left; exact hd
        · split at h
          · cases h; left; simp [hd]
          · cases h
  case provide k id key v reqs =>
    split at h
    · split at h
      · cases h
      · split at h
        · cases h; left; exact hd
        · cases h
    · cases h
  case cycle ks =>
    split at h
    · split at h
      · cases h; left; exact hd
      · cases h
    · cases h
  all_goals first
    | (cases h; left; exact hd)
    | (split at h
       · cases h; left; exact hd
       · cases h)

/-- the invariant (and the restartability of the committed snapshot) holds in every state reachable
through accepted events (or the flag is set) -/
theorem run_inv {P : Program} (hP : P.WF) : ∀ (evs : List Event) (s s' : St),
    run P s evs = some s' → (s.pendingDropped = true ∨ (Inv P s ∧ InvC P s)) →
    (s'.pendingDropped = true ∨ (Inv P s' ∧ InvC P s'))
  | [], s, s', h, hi => by simp [run] at h; subst h; exact hi
  | e :: es, s, s', h, hi => by
    simp only [run] at h
    cases hs : step P s e with
    | none => rw [hs] at h; simp at h
    | some s1 =>
      rw [hs] at h
      simp only [Option.bind] at h
      apply run_inv hP es s1 s' h
      rcases hi with hd | ⟨hi, hc⟩
      · rcases step_dropped hs hd with a | a
        · left; exact a
        · right; exact a
      · cases hd1 : s1.pendingDropped
        · right; exact ⟨step_inv hP hs hi hc hd1, step_invC hP hs hi hc hd1⟩
        · left; rfl

theorem reach_inv {P : Program} (hP : P.WF) {evs : List Event} {s : St}
    (h : run P {} evs = some s) (hd : s.pendingDropped = false) : Inv P s := by
  rcases run_inv hP evs {} s h (Or.inr ⟨Inv.init P, Inv.init P⟩) with h1 | h1
  · rw [hd] at h1; cases h1
  · exact h1.1

theorem reach_invC {P : Program} (hP : P.WF) {evs : List Event} {s : St}
    (h : run P {} evs = some s) (hd : s.pendingDropped = false) : InvC P s := by
  rcases run_inv hP evs {} s h (Or.inr ⟨Inv.init P, Inv.init P⟩) with h1 | h1
  · rw [hd] at h1; cases h1
  · exact h1.2

end LLBuild.Engine
