/-
C06 "the same set of executed rules": THE INVARIANT that ties a run of the monitor WITH the in-order guards
(`step` + `evOkX`, Exec0.lean) to the schedule-free reference (`Ref`, `Dem`, Exec1.lean).

`XInv P σ root s`: `s` is a state of a build of `root` that started from the snapshot `σ`:
* rules not yet looked at still hold the snapshot's result (`idle`), the ones in flight hold it up to the engine's own
  edits (`scan`, `pre`, `post`);
* every rule complete in this build is what the reference says: `Ref P σ k (k ∈ ran) value computedAt` (`done`);
* every rule looked at is demanded: `Dem P σ root k` (`dem`, `demPend`);
* a rule that was found to need a run carries a certificate of the reason IN TERMS OF COMPLETE RULES (`cert`; complete
  rules are frozen for the rest of the build), a rule found up to date has all its dependencies complete (`kept`);
* the delivery sequence of every started task is valid with the current values of complete rules as answers, complete
  once the task computes, and its discovered dependencies are complete or pending (`task`, `taskC`, `discsDone`).
`XInv.start`: it holds after `buildStart`.  The preservation along events is in Exec3.lean.
-/
import LLBuild.Lemmas.Engine.Exec1
import LLBuild.Lemmas.Engine.Settle

namespace LLBuild.Engine

/-- the events of a build between `buildStart` and `ret` -/
def Event.isMidX : Event → Bool
  | .buildStart _ => false
  | .ret _ => false
  | .tail _ _ => false
  | .mutate _ _ => false
  | .restart => false
  | .wipe => false
  | .crash => false
  | _ => true

/-- why a rule runs, in terms of rules that are complete in this build -/
def RunCert (P : Program) (σ : Snap) (s : St) (k : Key) : Prop :=
  ¬ σ.reusable P k ∨
  (σ.reusable P k ∧ ∃ (pre : List Dep) (dp : Dep) (post : List Dep), σ.deps k = pre ++ dp :: post ∧
     (∀ d ∈ pre, s.status d.key = .done ∧ depKeeps (σ.res k).builtAt d (s.mem.res d.key).computedAt) ∧
     s.status dp.key = .done ∧ dp.orderOnly = false ∧ (σ.res k).builtAt < (s.mem.res dp.key).computedAt)

/-- the task of `k`: what it issued is what the program issues along its (valid) delivery sequence, whose answers are the
values of rules complete in this build -/
def TaskX (P : Program) (s : St) (k : Key) : Prop :=
  (s.task k).issued = issuedAfter P k (s.task k).seq ∧ validSeq P k (s.task k).seq = true ∧
  ∀ q v, (q, v) ∈ (s.task k).seq → s.status q.key = .done ∧ (s.mem.res q.key).value = v

/-- … once it computes: the sequence is complete, the discovered dependencies are the program's, everything issued is complete -/
def TaskC (P : Program) (s : St) (k : Key) : Prop :=
  completeSeq P k (s.task k).seq = true ∧ (s.task k).discs = P.disc k (recvOf (s.task k).seq) ∧
  ∀ q ∈ (s.task k).issued, s.status q.key = .done

/-- the part of the invariant that is about one rule `k` -/
structure XAt (P : Program) (σ : Snap) (root : Key) (s : St) (k : Key) : Prop where
  idle : s.status k = .idle → s.mem.res k = σ.res k
  scan : s.status k = .scanning ∨ s.status k = .needsRun → s.mem.res k = { σ.res k with deps := σ.deps k }
  pre : s.status k = .running ∨ (s.status k = .computing ∧ (s.task k).completed = false) →
      (s.mem.res k).value = (σ.res k).value ∧ (s.mem.res k).computedAt = (σ.res k).computedAt
  post : s.status k = .computing → (s.task k).completed = true →
      (s.mem.res k).value = (σ.runVal P k (recvOf (s.task k).seq)).1 ∧
      (s.mem.res k).computedAt = (σ.runVal P k (recvOf (s.task k).seq)).2
  done : s.status k = .done → Ref P σ k (decide (k ∈ s.ran)) (s.mem.res k).value (s.mem.res k).computedAt
  dem : s.status k ≠ .idle → Dem P σ root k
  validT : s.status k = .scanning → s.validSeen k = some true → σ.reusable P k
  validF : s.status k = .scanning → s.validSeen k = some false → ¬ σ.reusable P k
  cert : s.status k = .needsRun ∨ s.status k = .running ∨ s.status k = .computing ∨
      (s.status k = .done ∧ k ∈ s.ran) → RunCert P σ s k
  kept : s.status k = .done → k ∉ s.ran → ∀ d ∈ σ.deps k, s.status d.key = .done
  unstarted : s.status k = .running → (s.task k).started = false → (s.task k).issued = []
  task : (s.status k = .running ∧ (s.task k).started = true) ∨ s.status k = .computing ∨
      (s.status k = .done ∧ k ∈ s.ran) → TaskX P s k
  taskC : s.status k = .computing ∨ (s.status k = .done ∧ k ∈ s.ran) → TaskC P s k
  discsDone : s.status k = .done → k ∈ s.ran → ∀ d ∈ (s.task k).discs,
      s.status d = .done ∨ d ∈ s.pending.map Prod.fst
  inRan : s.status k = .running ∨ s.status k = .computing → k ∈ s.ran
  ranSt : k ∈ s.ran → s.status k = .running ∨ s.status k = .computing ∨ s.status k = .done

structure XInv (P : Program) (σ : Snap) (root : Key) (s : St) : Prop where
  env : s.env = σ.env
  target : s.target = some root
  epoch : s.started = true → s.epoch = σ.epoch
  epoch0 : s.started = false → s.epoch + 1 = σ.epoch ∧ ∀ k, s.status k = .idle
  sg : ∀ k, s.registered k = true → s.sigAt k = σ.sg k
  sgU : ∀ k, s.registered k = false → σ.sg k = P.sig σ.env k
  demPend : ∀ p ∈ s.pending, Dem P σ root p.1
  key : ∀ k, XAt P σ root s k

/-- rules complete in `s` are complete, with the same result, in `s'` -/
def Frozen (s s' : St) : Prop := ∀ d, s.status d = .done → s'.status d = .done ∧ s'.mem.res d = s.mem.res d

theorem Frozen.refl (s : St) : Frozen s s := fun _ h => ⟨h, rfl⟩

theorem RunCert.mono {P : Program} {σ : Snap} {s s' : St} {k : Key} (h : RunCert P σ s k) (hf : Frozen s s') :
    RunCert P σ s' k := by
  rcases h with h | ⟨hre, pre, dp, post, hsplit, hpre, hd, hoo, hlt⟩
  · exact Or.inl h
  · refine Or.inr ⟨hre, pre, dp, post, hsplit, ?_, (hf _ hd).1, hoo, by rw [(hf _ hd).2]; exact hlt⟩
    intro d hdm
    obtain ⟨a, b⟩ := hpre d hdm
    exact ⟨(hf _ a).1, by rw [(hf _ a).2]; exact b⟩

theorem TaskX.mono {P : Program} {s s' : St} {k : Key} (h : TaskX P s k) (ht : s'.task k = s.task k)
    (hf : Frozen s s') : TaskX P s' k := by
  obtain ⟨a, b, c⟩ := h
  unfold TaskX
  rw [ht]
  refine ⟨a, b, fun q v hq => ?_⟩
  obtain ⟨c1, c2⟩ := c q v hq
  exact ⟨(hf _ c1).1, by rw [(hf _ c1).2]; exact c2⟩

theorem TaskC.mono {P : Program} {s s' : St} {k : Key} (h : TaskC P s k) (ht : s'.task k = s.task k)
    (hf : Frozen s s') : TaskC P s' k := by
  obtain ⟨a, b, c⟩ := h
  unfold TaskC
  rw [ht]
  exact ⟨a, b, fun q hq => (hf _ (c q hq)).1⟩

theorem TaskX.of_eq {P : Program} {s : St} {k : Key} (t : Task) (ht : s.task k = t)
    (h1 : t.issued = issuedAfter P k t.seq) (h2 : validSeq P k t.seq = true)
    (h3 : ∀ q v, (q, v) ∈ t.seq → s.status q.key = .done ∧ (s.mem.res q.key).value = v) : TaskX P s k := by
  unfold TaskX; rw [ht]; exact ⟨h1, h2, h3⟩

theorem TaskC.of_eq {P : Program} {s : St} {k : Key} (t : Task) (ht : s.task k = t)
    (h1 : completeSeq P k t.seq = true) (h2 : t.discs = P.disc k (recvOf t.seq))
    (h3 : ∀ q ∈ t.issued, s.status q.key = .done) : TaskC P s k := by
  unfold TaskC; rw [ht]; exact ⟨h1, h2, h3⟩

/-- a status change of a rule that is not complete, with its result possibly edited, freezes nothing else -/
theorem frozen_upd {s s' : St} {k : Key} (hk : s.status k ≠ .done)
    (hst : ∀ x, x ≠ k → s'.status x = s.status x) (hmem : ∀ x, x ≠ k → s'.mem.res x = s.mem.res x) : Frozen s s' := by
  intro d hd
  have hne : d ≠ k := fun e => hk (e ▸ hd)
  exact ⟨by rw [hst d hne]; exact hd, hmem d hne⟩

/-- what is known about a rule `x` carries over to a state in which `x` itself is untouched and complete rules are frozen -/
theorem XAt.transfer {P : Program} {σ : Snap} {root : Key} {s s' : St} {x : Key} (h : XAt P σ root s x)
    (hst : s'.status x = s.status x) (hmem : s'.mem.res x = s.mem.res x) (htask : s'.task x = s.task x)
    (hvs : s'.validSeen x = s.validSeen x) (hran : x ∈ s'.ran ↔ x ∈ s.ran) (hf : Frozen s s')
    (hpend : ∀ d, d ∈ s.pending.map Prod.fst → s'.status d = .done ∨ d ∈ s'.pending.map Prod.fst) :
    XAt P σ root s' x := by
  have hdec : decide (x ∈ s'.ran) = decide (x ∈ s.ran) := by simp [hran]
  refine { idle := ?_, scan := ?_, pre := ?_, post := ?_, done := ?_, dem := ?_, validT := ?_, validF := ?_, cert := ?_,
           kept := ?_, unstarted := ?_, task := ?_, taskC := ?_, discsDone := ?_, inRan := ?_, ranSt := ?_ }
  · rw [hst, hmem]; exact h.idle
  · rw [hst, hmem]; exact h.scan
  · rw [hst, hmem, htask]; exact h.pre
  · rw [hst, hmem, htask]; exact h.post
  · rw [hst, hmem, hdec]; exact h.done
  · rw [hst]; exact h.dem
  · rw [hst, hvs]; exact h.validT
  · rw [hst, hvs]; exact h.validF
  · rw [hst, hran]; exact fun hh => (h.cert hh).mono hf
  · rw [hst, hran]; exact fun hd hr d hdm => (hf _ (h.kept hd hr d hdm)).1
  · rw [hst, htask]; exact h.unstarted
  · rw [hst, htask, hran]; exact fun hh => (h.task hh).mono htask hf
  · rw [hst, hran]; exact fun hh => (h.taskC hh).mono htask hf
  · rw [hst, hran, htask]
    intro hd hr d hdm
    rcases h.discsDone hd hr d hdm with a | a
    · exact Or.inl (hf _ a).1
    · exact hpend d a
  · rw [hst, hran]; exact h.inRan
  · rw [hst, hran]; exact h.ranSt

/-- **one event that concerns one rule `k`** (not complete before): the invariant follows from what holds of `k` afterwards -/
theorem XInv.local {P : Program} {σ : Snap} {root : Key} {s s' : St} (hx : XInv P σ root s) (k : Key)
    (henv : s'.env = s.env) (htgt : s'.target = s.target) (hstd : s'.started = true) (hep : s'.epoch = s.epoch)
    (hstd0 : s.started = true)
    (hreg : s'.registered = s.registered) (hsig : s'.sigAt = s.sigAt)
    (hst : ∀ x, x ≠ k → s'.status x = s.status x) (hmem : ∀ x, x ≠ k → s'.mem.res x = s.mem.res x)
    (htask : ∀ x, x ≠ k → s'.task x = s.task x) (hvs : ∀ x, x ≠ k → s'.validSeen x = s.validSeen x)
    (hran : ∀ x, x ≠ k → (x ∈ s'.ran ↔ x ∈ s.ran)) (hnd : s.status k ≠ .done)
    (hpend : ∀ d, d ∈ s.pending.map Prod.fst → s'.status d = .done ∨ d ∈ s'.pending.map Prod.fst)
    (hdp : ∀ p ∈ s'.pending, Dem P σ root p.1)
    (hat : Frozen s s' → XAt P σ root s' k) : XInv P σ root s' := by
  have hf : Frozen s s' := frozen_upd hnd hst hmem
  refine { env := henv.trans hx.env, target := htgt.trans hx.target, epoch := fun _ => hep.trans (hx.epoch hstd0),
           epoch0 := (fun h => by rw [hstd] at h; cases h), sg := ?_, sgU := ?_, demPend := hdp, key := ?_ }
  · rw [hreg, hsig]; exact hx.sg
  · rw [hreg]; exact hx.sgU
  · intro x
    by_cases e : x = k
    · subst e; exact hat hf
    · exact (hx.key x).transfer (hst x e) (hmem x e) (htask x e) (hvs x e) (hran x e) hf hpend

/-! ### building the per-rule part from the status of the rule -/

section Builders
variable {P : Program} {σ : Snap} {root : Key} {s : St} {k : Key}

theorem XAt.ofScanning (hst : s.status k = .scanning)
    (hmem : s.mem.res k = { σ.res k with deps := σ.deps k }) (hdem : Dem P σ root k)
    (hT : s.validSeen k = some true → σ.reusable P k) (hF : s.validSeen k = some false → ¬ σ.reusable P k)
    (hnr : k ∉ s.ran) : XAt P σ root s k := by
  refine { idle := ?_, scan := fun _ => hmem, pre := ?_, post := ?_, done := ?_, dem := fun _ => hdem, validT := fun _ => hT,
           validF := fun _ => hF, cert := ?_, kept := ?_, unstarted := ?_, task := ?_, taskC := ?_, discsDone := ?_,
           inRan := ?_, ranSt := fun h => absurd h hnr }
  all_goals (rw [hst]; intro hh)
  · cases hh
  · rcases hh with hh | ⟨hh, _⟩ <;> cases hh
  · cases hh
  · cases hh
  · rcases hh with hh | hh | hh | ⟨hh, _⟩ <;> cases hh
  · cases hh
  · cases hh
  · rcases hh with ⟨hh, _⟩ | hh | ⟨hh, _⟩ <;> cases hh
  · rcases hh with hh | ⟨hh, _⟩ <;> cases hh
  · cases hh
  · rcases hh with hh | hh <;> cases hh

theorem XAt.ofNeedsRun (hst : s.status k = .needsRun)
    (hmem : s.mem.res k = { σ.res k with deps := σ.deps k }) (hdem : Dem P σ root k)
    (hcert : RunCert P σ s k) (hnr : k ∉ s.ran) : XAt P σ root s k := by
  refine { idle := ?_, scan := fun _ => hmem, pre := ?_, post := ?_, done := ?_, dem := fun _ => hdem, validT := ?_,
           validF := ?_, cert := fun _ => hcert, kept := ?_, unstarted := ?_, task := ?_, taskC := ?_, discsDone := ?_,
           inRan := ?_, ranSt := fun h => absurd h hnr }
  all_goals (rw [hst]; intro hh)
  · cases hh
  · rcases hh with hh | ⟨hh, _⟩ <;> cases hh
  · cases hh
  · cases hh
  · cases hh
  · cases hh
  · cases hh
  · cases hh
  · rcases hh with ⟨hh, _⟩ | hh | ⟨hh, _⟩ <;> cases hh
  · rcases hh with hh | ⟨hh, _⟩ <;> cases hh
  · cases hh
  · rcases hh with hh | hh <;> cases hh

theorem XAt.ofRunning (hst : s.status k = .running)
    (hpre : (s.mem.res k).value = (σ.res k).value ∧ (s.mem.res k).computedAt = (σ.res k).computedAt)
    (hdem : Dem P σ root k) (hcert : RunCert P σ s k)
    (hun : (s.task k).started = false → (s.task k).issued = []) (htask : (s.task k).started = true → TaskX P s k)
    (hr : k ∈ s.ran) : XAt P σ root s k := by
  refine { idle := ?_, scan := ?_, pre := fun _ => hpre, post := ?_, done := ?_, dem := fun _ => hdem, validT := ?_,
           validF := ?_, cert := fun _ => hcert, kept := ?_, unstarted := fun _ => hun, task := ?_, taskC := ?_,
           discsDone := ?_, inRan := fun _ => hr, ranSt := fun _ => Or.inl hst }
  all_goals (rw [hst]; intro hh)
  · cases hh
  · rcases hh with hh | hh <;> cases hh
  · cases hh
  · cases hh
  · cases hh
  · cases hh
  · cases hh
  · rcases hh with ⟨_, hh⟩ | hh | ⟨hh, _⟩
    · exact htask hh
    · cases hh
    · cases hh
  · rcases hh with hh | ⟨hh, _⟩ <;> cases hh
  · cases hh

theorem XAt.ofComputing (hst : s.status k = .computing)
    (hpre : (s.task k).completed = false →
      (s.mem.res k).value = (σ.res k).value ∧ (s.mem.res k).computedAt = (σ.res k).computedAt)
    (hpost : (s.task k).completed = true →
      (s.mem.res k).value = (σ.runVal P k (recvOf (s.task k).seq)).1 ∧
      (s.mem.res k).computedAt = (σ.runVal P k (recvOf (s.task k).seq)).2)
    (hdem : Dem P σ root k) (hcert : RunCert P σ s k) (htask : TaskX P s k) (htaskC : TaskC P s k)
    (hr : k ∈ s.ran) : XAt P σ root s k := by
  refine { idle := ?_, scan := ?_, pre := ?_, post := fun _ => hpost, done := ?_, dem := fun _ => hdem, validT := ?_,
           validF := ?_, cert := fun _ => hcert, kept := ?_, unstarted := ?_, task := fun _ => htask, taskC := fun _ => htaskC,
           discsDone := ?_, inRan := fun _ => hr, ranSt := fun _ => Or.inr (Or.inl hst) }
  all_goals (rw [hst]; intro hh)
  · cases hh
  · rcases hh with hh | hh <;> cases hh
  · rcases hh with hh | ⟨_, hh⟩
    · cases hh
    · exact hpre hh
  · cases hh
  · cases hh
  · cases hh
  · cases hh
  · cases hh
  · cases hh

theorem XAt.ofDone (hst : s.status k = .done)
    (hdone : Ref P σ k (decide (k ∈ s.ran)) (s.mem.res k).value (s.mem.res k).computedAt)
    (hdem : Dem P σ root k) (hcert : k ∈ s.ran → RunCert P σ s k)
    (hkept : k ∉ s.ran → ∀ d ∈ σ.deps k, s.status d.key = .done)
    (htask : k ∈ s.ran → TaskX P s k ∧ TaskC P s k)
    (hdiscs : k ∈ s.ran → ∀ d ∈ (s.task k).discs, s.status d = .done ∨ d ∈ s.pending.map Prod.fst) :
    XAt P σ root s k := by
  refine { idle := ?_, scan := ?_, pre := ?_, post := ?_, done := fun _ => hdone, dem := fun _ => hdem, validT := ?_,
           validF := ?_, cert := ?_, kept := fun _ => hkept, unstarted := ?_, task := ?_, taskC := ?_,
           discsDone := fun _ => hdiscs, inRan := ?_, ranSt := fun _ => Or.inr (Or.inr hst) }
  all_goals (rw [hst]; intro hh)
  · cases hh
  · rcases hh with hh | hh <;> cases hh
  · rcases hh with hh | ⟨hh, _⟩ <;> cases hh
  · cases hh
  · cases hh
  · cases hh
  · rcases hh with hh | hh | hh | ⟨_, hh⟩
    · cases hh
    · cases hh
    · cases hh
    · exact hcert hh
  · cases hh
  · rcases hh with ⟨hh, _⟩ | hh | ⟨_, hh⟩
    · cases hh
    · cases hh
    · exact (htask hh).1
  · rcases hh with hh | ⟨_, hh⟩
    · cases hh
    · exact (htask hh).2
  · rcases hh with hh | hh <;> cases hh

end Builders

/-- an event that concerns no rule: everything the per-rule part talks about is unchanged -/
theorem XInv.frame {P : Program} {σ : Snap} {root : Key} {s s' : St} (hx : XInv P σ root s)
    (henv : s'.env = s.env) (htgt : s'.target = s.target)
    (hep : s'.started = true → s'.epoch = σ.epoch)
    (hep0 : s'.started = false → s'.epoch + 1 = σ.epoch ∧ ∀ k, s'.status k = .idle)
    (hsg : ∀ k, s'.registered k = true → s'.sigAt k = σ.sg k)
    (hsgU : ∀ k, s'.registered k = false → σ.sg k = P.sig σ.env k)
    (hst : s'.status = s.status) (hmem : s'.mem = s.mem) (htask : s'.task = s.task)
    (hvs : s'.validSeen = s.validSeen) (hran : s'.ran = s.ran) (hpend : s'.pending = s.pending) :
    XInv P σ root s' := by
  have hf : Frozen s s' := fun d hd => ⟨by rw [hst]; exact hd, by rw [hmem]⟩
  refine { env := henv.trans hx.env, target := htgt.trans hx.target, epoch := hep, epoch0 := hep0, sg := hsg, sgU := hsgU,
           demPend := by rw [hpend]; exact hx.demPend, key := ?_ }
  intro x
  exact (hx.key x).transfer (by rw [hst]) (by rw [hmem]) (by rw [htask]) (by rw [hvs]) (by rw [hran]) hf
    (fun d hd => Or.inr (by rw [hpend]; exact hd))

/-- a rule that is looked at is looked at in a started build -/
theorem XInv.started_of {P : Program} {σ : Snap} {root : Key} {s : St} (hx : XInv P σ root s) {k : Key}
    (hk : s.status k ≠ .idle) : s.started = true := by
  cases hs : s.started with
  | true => rfl
  | false => exact absurd ((hx.epoch0 hs).2 k) hk

/-- **the invariant holds when a build starts** -/
theorem XInv.start {P : Program} {m m' : St} {root : Key} (h : step P m (.buildStart root) = some m') :
    XInv P (snapOf P m) root m' := by
  simp only [step] at h
  split at h
  · cases h
    refine { env := rfl, target := rfl, epoch := (fun h => by cases h), epoch0 := fun _ => ⟨rfl, fun _ => rfl⟩,
             sg := ?_, sgU := ?_, demPend := ?_, key := ?_ }
    · intro k hk
      show m.sigAt k = if m.registered k then m.sigAt k else P.sig m.env k
      have hk' : m.registered k = true := hk
      rw [hk']; rfl
    · intro k hk
      show (if m.registered k then m.sigAt k else P.sig m.env k) = P.sig m.env k
      have hk' : m.registered k = false := hk
      rw [hk']; rfl
    · intro p hp; cases hp
    · intro k
      refine { idle := fun _ => rfl, scan := ?_, pre := ?_, post := ?_, done := ?_, dem := ?_, validT := ?_, validF := ?_,
               cert := ?_, kept := ?_, unstarted := ?_, task := ?_, taskC := ?_, discsDone := ?_, inRan := ?_, ranSt := ?_ }
      all_goals intros
      all_goals simp_all
  · cases h

end LLBuild.Engine
