/- The constants the hand-written abstract engine relies on, asserted against the structural
fingerprint regenerated from lib/Core/BuildEngine.cpp on every run (extract/x_enginefp.py). -/
import LLBuild.Generated.EngineFingerprint

namespace LLBuild.Engine

/-- what `LLBuild/Model/Engine.lean` assumes about the anchored lines -/
def expectedFingerprint : List (String × String) := [
  ("scanRule.order", "cleanSingleUse,neverBuilt,signature,valid,noDeps"),
  ("demandRule.clearsDeps", "true"),
  ("demandRule.priorCondition", "ruleInfo.result.builtAt != 0 && ruleInfo.rule->signature == ruleInfo.result.signature"),
  ("scan.staleTest", "builtAt < input.computedAt"),
  ("scan.orderOnlySkips", "true"),
  ("queue.toScan", "lifo"),
  ("queue.inputRequests", "fifo"),
  ("queue.finishedInputs", "lifo"),
  ("queue.ready", "fifo"),
  ("queue.finished", "lifo"),
  ("loop.cancelCheckedAtTop", "true"),
  ("loop.recordsDepAtProcessing", "true"),
  ("loop.appendsDiscovered", "true"),
  ("loop.waitRechecksEmpty", "true"),
  ("complete.unchangedTest", "true"),
  ("complete.stampsEpoch", "true"),
  ("complete.pushThenNotify", "true"),
  ("cancel.resetsInterrupted", "true"),
  ("cancel.drainsBeforeReset", "true"),
  ("build.epochBeforeWork", "true"),
  ("build.iterationAfterWork", "true")
]

theorem engine_fingerprint_matches_model : Generated.engineFingerprint = expectedFingerprint := by decide

end LLBuild.Engine
