/-
C02 clauses as corollaries of the schedule-free reference (`Ref` / `Dem` / `MustRun`, Exec1.lean), and the congruence that
lets the reference be read off ANY description of the start state that agrees with the monitor's on what the reference
looks at (`SnapEq`: external state, epoch, signatures, value / signature / epochs of every result, and the dependency list of
every BUILT result).

* `not_mustRun_of_keeps` / `C02_order_only_never_triggers`: a reusable rule none of whose NON-order-only recorded dependencies
  comes out newer than the rule's `builtAt` is not in `MustRun` — whatever happens to its order-only dependencies;
* `Ref_same_value`: a rule that re-runs without `force` and produces the stored value keeps its `computedAt`;
* `C02_identical_value_no_rerun`: … hence does not make its dependents run.
-/
import LLBuild.Lemmas.Engine.Exec4

namespace LLBuild.Engine

variable {P : Program}

/-- **only non-order-only dependencies that come out newer make a reusable rule run** -/
theorem not_mustRun_of_keeps {σ : Snap} {root k : Key} (hre : σ.reusable P k)
    (hdeps : ∀ d ∈ σ.deps k, d.orderOnly = false → ∀ b v c, Ref P σ d.key b v c → ¬ (σ.res k).builtAt < c) :
    ¬ MustRun P σ root k := by
  rintro ⟨_, v, c, href⟩
  cases href with
  | runNew _ _ _ _ hnre => exact hnre hre
  | runDep _ _ B V C _ _ pre dp post _ hsplit _ _ hdp hoo hlt =>
    exact hdeps dp (by rw [hsplit]; simp) hoo _ _ _ hdp hlt

/-- **C02 (order-only dependencies never trigger a re-run)**: if every recorded dependency of the reusable rule `k` that is
NOT order-only comes out with `computedAt` no newer than `k`'s `builtAt`, then `k` is not executed — however the keys it
records as order-only (must-follow) dependencies changed, re-ran or failed to be brought up to date. -/
theorem C02_order_only_never_triggers {σ : Snap} {root k : Key} (hre : σ.reusable P k)
    (hdeps : ∀ d ∈ σ.deps k, d.orderOnly = false → ∀ b v c, Ref P σ d.key b v c → c ≤ (σ.res k).builtAt) :
    ¬ MustRun P σ root k :=
  not_mustRun_of_keeps hre (fun d hd hoo b v c hr => Nat.not_lt.2 (hdeps d hd hoo b v c hr))

/-- a rule brought up to date with its stored value, not forced, keeps its `computedAt` — also when it RE-RAN -/
theorem Ref_same_value {σ : Snap} {d : Key} {b : Bool} {v : Val} {c : Nat} (h : Ref P σ d b v c)
    (hv : v = (σ.res d).value) (hf : P.force d = false) : c = (σ.res d).computedAt := by
  have key : ∀ recv, (σ.runVal P d recv).1 = (σ.res d).value → (σ.runVal P d recv).2 = (σ.res d).computedAt := by
    intro recv h1
    unfold Snap.runVal at h1 ⊢
    by_cases hc : (!(P.force d) && P.out d σ.env recv == (σ.res d).value) = true
    · rw [if_pos hc]
    · rw [if_neg hc] at h1
      simp only at h1
      exfalso; apply hc
      simp [hf, h1]
  cases h with
  | keep => rfl
  | runNew _ seq => exact key _ hv
  | runDep _ seq => exact key _ hv

/-- **C02 (an identical value does not propagate)**: if every non-order-only recorded dependency `d` of the reusable rule
`k` was computed no later than `k` was built (`computedAt d ≤ builtAt k`: the stored state is consistent), is not forced,
and comes out of this build with its STORED value — whether it was found up to date or RE-RAN and produced the same value —,
then `k` is not executed. -/
theorem C02_identical_value_no_rerun {σ : Snap} {root k : Key} (hre : σ.reusable P k)
    (hdeps : ∀ d ∈ σ.deps k, d.orderOnly = false →
      (σ.res d.key).computedAt ≤ (σ.res k).builtAt ∧ P.force d.key = false ∧
      ∀ b v c, Ref P σ d.key b v c → v = (σ.res d.key).value) :
    ¬ MustRun P σ root k := by
  apply C02_order_only_never_triggers hre
  intro d hd hoo b v c hr
  obtain ⟨h1, h2, h3⟩ := hdeps d hd hoo
  rw [Ref_same_value hr (h3 b v c hr) h2]
  exact h1

/-! ## the reference only looks at part of the snapshot -/

/-- two descriptions of the start state that agree on everything the reference looks at -/
structure SnapEq (σ σ' : Snap) : Prop where
  env : σ.env = σ'.env
  epoch : σ.epoch = σ'.epoch
  sg : σ.sg = σ'.sg
  value : ∀ k, (σ.res k).value = (σ'.res k).value
  sig : ∀ k, (σ.res k).sig = (σ'.res k).sig
  computedAt : ∀ k, (σ.res k).computedAt = (σ'.res k).computedAt
  builtAt : ∀ k, (σ.res k).builtAt = (σ'.res k).builtAt
  deps : ∀ k, (σ.res k).builtAt ≠ 0 → (σ.res k).deps = (σ'.res k).deps

theorem SnapEq.symm {σ σ' : Snap} (h : SnapEq σ σ') : SnapEq σ' σ :=
  ⟨h.env.symm, h.epoch.symm, h.sg.symm, fun k => (h.value k).symm, fun k => (h.sig k).symm,
    fun k => (h.computedAt k).symm, fun k => (h.builtAt k).symm,
    fun k hb => (h.deps k (by rw [h.builtAt k]; exact hb)).symm⟩

theorem SnapEq.reusable {σ σ' : Snap} (h : SnapEq σ σ') {k : Key} (hr : σ.reusable P k) : σ'.reusable P k := by
  obtain ⟨a, b, c⟩ := hr
  refine ⟨by rw [← h.builtAt k]; exact a, by rw [← h.sig k, ← h.sg]; exact b, by rw [← h.env, ← h.value k]; exact c⟩

theorem SnapEq.deps_eq {σ σ' : Snap} (h : SnapEq σ σ') {k : Key} (hr : σ.reusable P k) : σ'.deps k = σ.deps k := by
  unfold Snap.deps; rw [h.deps k hr.1]

theorem SnapEq.runVal {σ σ' : Snap} (h : SnapEq σ σ') (k : Key) (recv : Recv) : σ'.runVal P k recv = σ.runVal P k recv := by
  unfold Snap.runVal; rw [h.env, h.value k, h.computedAt k, h.epoch]

theorem SnapEq.ref {σ σ' : Snap} (h : SnapEq σ σ') {k : Key} {b : Bool} {v : Val} {c : Nat} (hr : Ref P σ k b v c) :
    Ref P σ' k b v c := by
  induction hr with
  | keep k B V C hre hdeps hkeep ih =>
    rw [h.value k, h.computedAt k]
    refine Ref.keep k B V C (h.reusable hre) ?_ ?_
    · intro d hd; rw [h.deps_eq hre] at hd; exact ih d hd
    · intro d hd; rw [h.deps_eq hre] at hd; rw [← h.builtAt k]; exact hkeep d hd
  | runNew k seq B C hnre hv hc hin ih =>
    rw [← h.runVal k]
    exact Ref.runNew k seq B C (fun hr' => hnre (h.symm.reusable hr')) hv hc ih
  | runDep k seq B V C B' C' pre dp post hre hsplit hpre hpk hdp hoo hlt hv hc hin ihpre ihdp ihin =>
    rw [← h.runVal k]
    exact Ref.runDep k seq B V C B' C' pre dp post (h.reusable hre) (by rw [h.deps_eq hre]; exact hsplit) ihpre
      (fun d hd => by rw [← h.builtAt k]; exact hpk d hd) ihdp hoo (by rw [← h.builtAt k]; exact hlt) hv hc ihin

theorem SnapEq.needsRunR {σ σ' : Snap} (h : SnapEq σ σ') {k : Key} (hn : NeedsRunR P σ k) : NeedsRunR P σ' k := by
  rcases hn with hn | ⟨B, V, C, pre, dp, post, hsplit, hpre, hpk, hdp, hoo, hlt⟩
  · exact Or.inl (fun hr' => hn (h.symm.reusable hr'))
  · by_cases hre : σ.reusable P k
    · exact Or.inr ⟨B, V, C, pre, dp, post, by rw [h.deps_eq hre]; exact hsplit, fun d hd => h.ref (hpre d hd),
        fun d hd => by rw [← h.builtAt k]; exact hpk d hd, h.ref hdp, hoo, by rw [← h.builtAt k]; exact hlt⟩
    · exact Or.inl (fun hr' => hre (h.symm.reusable hr'))

theorem SnapEq.refAnswers {σ σ' : Snap} (h : SnapEq σ σ') {seq : Seq} (ha : RefAnswers P σ seq) : RefAnswers P σ' seq := by
  obtain ⟨B, C, hB⟩ := ha
  exact ⟨B, C, fun q v hq hk => h.ref (hB q v hq hk)⟩

theorem SnapEq.dem {σ σ' : Snap} (h : SnapEq σ σ') {root k : Key} (hd : Dem P σ root k) : Dem P σ' root k := by
  induction hd with
  | root => exact Dem.root
  | scan a B V C pre dp post _ hre hsplit hpre hpk ih =>
    exact Dem.scan a B V C pre dp post ih (h.reusable hre) (by rw [h.deps_eq hre]; exact hsplit)
      (fun d hd => h.ref (hpre d hd)) (fun d hd => by rw [← h.builtAt a]; exact hpk d hd)
  | req a seq q _ hn hv ha hq ih => exact Dem.req a seq q ih (h.needsRunR hn) hv (h.refAnswers ha) hq
  | disc a seq d _ hn hv hc ha hd ih =>
    exact Dem.disc a seq d ih (h.needsRunR hn) hv hc (h.refAnswers ha) hd

/-- **`MustRun` is the same for snapshots that agree on what the reference looks at** -/
theorem SnapEq.mustRun {σ σ' : Snap} (h : SnapEq σ σ') (root k : Key) : MustRun P σ root k ↔ MustRun P σ' root k := by
  constructor
  · rintro ⟨hd, v, c, hr⟩; exact ⟨h.dem hd, v, c, h.ref hr⟩
  · rintro ⟨hd, v, c, hr⟩; exact ⟨h.symm.dem hd, v, c, h.symm.ref hr⟩

end LLBuild.Engine
