import LLBuild.Lemmas.Engine.Determinism
import LLBuild.Model.EngineDSL

namespace LLBuild.Engine.DSL
open LLBuild.Engine

theorem lookup_mem : ∀ (r : Recv) (i : Nat) (v : Val), r.lookup i = some v → (i, v) ∈ r
  | [], i, v, h => by simp [List.lookup] at h
  | (j, w) :: rest, i, v, h => by
    simp only [List.lookup] at h
    split at h
    · rename_i heq
      have : i = j := by simpa using heq
      cases h; subst this; simp
    · exact List.mem_cons_of_mem _ (lookup_mem rest i v h)

theorem lookup_of_sorted_mem : ∀ (r : Recv), SortedIds r → ∀ (i : Nat) (v : Val), (i, v) ∈ r → r.lookup i = some v
  | [], _, i, v, h => by cases h
  | (j, w) :: rest, hs, i, v, h => by
    have hs' := List.pairwise_cons.1 hs
    simp only [List.lookup]
    rcases List.mem_cons.1 h with e | e
    · cases e; simp
    · have hlt := hs'.1 _ e
      have hne : (i == j) = false := by
        simp at hlt ⊢; omega
      rw [hne]
      exact lookup_of_sorted_mem rest hs'.2 i v e

theorem condHolds_mono (c : Cond) (r r' : Recv) (hs' : SortedIds r') (hsub : ∀ x ∈ r, x ∈ r')
    (h : condHolds c r = true) : condHolds c r' = true := by
  unfold condHolds at h ⊢
  cases hl : r.lookup c.id with
  | none => rw [hl] at h; cases h
  | some v =>
    rw [hl] at h
    have := lookup_of_sorted_mem r' hs' c.id v (hsub _ (lookup_mem r c.id v hl))
    rw [this]; exact h

theorem nextReqs_sub_all (s : RuleSpec) (r : Recv) (q : Req) (h : q ∈ nextReqs s r) : q ∈ allReqs s := by
  unfold nextReqs at h; unfold allReqs
  rcases List.mem_append.1 h with h | h
  · exact List.mem_append_left _ h
  · apply List.mem_append_right
    obtain ⟨w, hw, hq⟩ := List.mem_flatMap.1 h
    exact List.mem_flatMap.2 ⟨w, (List.mem_filter.1 hw).1, hq⟩

theorem inj_of_nodup_map {α β : Type} (f : α → β) : ∀ (l : List α), (l.map f).Nodup →
    ∀ a b, a ∈ l → b ∈ l → f a = f b → a = b
  | [], _, a, _, h, _, _ => by cases h
  | x :: xs, hn, a, b, ha, hb, hf => by
    simp only [List.map_cons, List.nodup_cons, List.mem_map, not_exists, not_and] at hn
    rcases List.mem_cons.1 ha with rfl | ha' <;> rcases List.mem_cons.1 hb with rfl | hb'
    · rfl
    · exact absurd hf.symm (hn.1 b hb')
    · exact absurd hf (hn.1 a ha')
    · exact inj_of_nodup_map f xs hn.2 a b ha' hb' hf

theorem specOf_det {rules : List RuleSpec} (h : det rules = true) (k : Key) :
    ((allReqs (specOf rules k)).map (fun q => q.id)).Nodup ∧ ∀ q ∈ allReqs (specOf rules k), q.kind ≤ 2 := by
  cases hf : rules.find? (fun s => s.key == k) with
  | none =>
    have hk : specOf rules k = { key := k, kind := 0 } := by unfold specOf; rw [hf]
    rw [hk]; simp [allReqs]
  | some sp =>
    have hk : specOf rules k = sp := by unfold specOf; rw [hf]
    rw [hk]
    have hm := List.mem_of_find?_eq_some hf
    have hw := List.all_eq_true.1 h sp hm
    rw [Bool.and_eq_true] at hw
    exact ⟨of_decide_eq_true hw.1, fun q hq => of_decide_eq_true (List.all_eq_true.1 hw.2 q hq)⟩

/-- the harness's DSL programs are deterministic clients -/
theorem program_Det {rules : List RuleSpec} (h : det rules = true) : (program rules).Det := by
  refine { mono := ?_, ids := ?_, kinds := ?_ }
  · intro k r r' _ hs' hsub q hq
    have hq' : q ∈ nextReqs (specOf rules k) r := hq
    show q ∈ nextReqs (specOf rules k) r'
    unfold nextReqs at hq' ⊢
    rcases List.mem_append.1 hq' with h1 | h1
    · exact List.mem_append_left _ h1
    · apply List.mem_append_right
      obtain ⟨w, hw, hqw⟩ := List.mem_flatMap.1 h1
      have hw' := List.mem_filter.1 hw
      exact List.mem_flatMap.2 ⟨w, List.mem_filter.2 ⟨hw'.1, condHolds_mono w.1 r r' hs' hsub hw'.2⟩, hqw⟩
  · intro k r q q' hq hq' hid
    have a := nextReqs_sub_all (specOf rules k) r q hq
    have b := nextReqs_sub_all (specOf rules k) r q' hq'
    exact inj_of_nodup_map (fun q => q.id) _ (specOf_det h k).1 q q' a b hid
  · intro k r q hq
    exact (specOf_det h k).2 q (nextReqs_sub_all (specOf rules k) r q hq)

end LLBuild.Engine.DSL
