import LLBuild.Lemmas.Engine.Finish

namespace LLBuild.Engine

theorem not_started_of_target_none {P : Program} {s : St} (hi : Inv P s) (h : s.target = none) : s.started = false := by
  cases hs : s.started with
  | false => rfl
  | true => have := hi.startedTarget hs; simp [h] at this

theorem Inv.buildStart {P : Program} {s s' : St} {k : Key}
    (h1 : s'.env = s.env) (h2 : s'.epoch = s.epoch) (h3 : s'.mem = s.mem)
    (h4 : s'.db = s.db) (h5 : s'.dbIter = s.dbIter) (h6 : s'.status = fun _ => .idle) (h7 : s'.task = fun _ => {})
    (h8 : s'.pending = []) (h9 : s'.target = some k) (h10 : s'.started = false)
    (h11 : s'.validSeen = fun _ => none) (h12 : s'.registered = s.registered) (h13 : s'.sigAt = s.sigAt)
    (ht : s.target = none)
    (hi : Inv P s) : Inv P s' := by
  have hidle := hi.stIdle ht
  have hpe := hi.pendIdle ht
  have hnf : ∀ x, inflight s x = false := by intro x; simp [inflight, hidle x]
  have hnf' : ∀ x, inflight s' x = false := by intro x; simp [inflight, h6]
  have hna : ¬ active s' := by simp [active, h10]
  constructor
  · rw [h3, h2]; exact hi.memE
  · rw [h4, h2]; exact hi.dbE
  · rw [h5, h2]; exact hi.iterLe
  · intro _; rw [h5, h2]; exact hi.iterEq (Or.inl ht)
  · intro h; rw [h9] at h; cases h
  · intro h; rw [h10] at h; cases h
  · intro h; rw [h10] at h; cases h
  · intro _ _ x; rw [h6]
  · intro h; rw [h9] at h; cases h
  · intro x hx; rw [h6] at hx; cases hx
  · intro h; exact absurd h hna
  · intro h; exact absurd h hna
  · intro x hx; rw [h6] at hx; cases hx
  · intro x hb _; rw [h3] at hb; rw [h3, h8, ← hpe]; exact hi.good x hb (hnf x)
  · intro x hb; rw [h4] at hb; rw [h4, h8, ← hpe]; exact hi.dbGood x hb
  · intro x hb; rw [h4] at hb; rw [h4, h3, h8, ← hpe]; exact hi.dbCross x hb
  · intro x hb _; rw [h3] at hb; rw [h3, h4]; exact hi.memDb x hb (hnf x)
  · intro x hx; rw [h6] at hx; cases hx
  · intro d v hd; rw [h8] at hd; cases hd
  · intro x hfl; rw [hnf'] at hfl; cases hfl
  · intro x hfl; rw [hnf'] at hfl; cases hfl
  · intro x hx; rw [h6] at hx; cases hx
  · intro _ x _; rw [h11]
  · rw [h12, h13]; exact hi.sigAtOk
  · intro x hx; rw [h6] at hx; cases hx

theorem Inv.queueCreated {P : Program} {s s' : St}
    (h1 : s'.env = s.env) (h2 : s'.epoch = s.epoch + 1) (h3 : s'.mem = s.mem)
    (h4 : s'.db = s.db) (h5 : s'.dbIter = s.dbIter) (h6 : s'.status = s.status) (h7 : s'.task = s.task)
    (h8 : s'.pending = s.pending) (h9 : s'.target = s.target) (h10 : s'.started = true)
    (h11 : s'.validSeen = s.validSeen) (h12 : s'.registered = s.registered) (h13 : s'.sigAt = s.sigAt)
    (ht : s.target.isSome = true) (hns : s.started = false)
    (hi : Inv P s) : Inv P s' := by
  have hidle := hi.notStarted ht hns
  have hnf : ∀ x, inflight s x = false := by intro x; simp [inflight, hidle x]
  have hnf' : ∀ x, inflight s' x = false := by intro x; rw [inflight_congr h6]; exact hnf x
  constructor
  · intro x; rw [h3, h2]; have := hi.memE x; omega
  · intro x; rw [h4, h2]; have := hi.dbE x; omega
  · rw [h5, h2]; have := hi.iterLe; omega
  · intro h; rcases h with h | h
    · rw [h9] at h; simp [h] at ht
    · rw [h10] at h; cases h
  · intro h; rw [h9] at h; simp [h] at ht
  · intro _; rw [h2]; omega
  · intro _; rw [h9]; exact ht
  · intro _ h; rw [h10] at h; cases h
  · intro h; rw [h9] at h; simp [h] at ht
  · intro x hx; rw [h6, hidle x] at hx; cases hx
  · intro _ x hx; rw [h3, h2] at hx; have := (hi.memE x).1; omega
  · intro _ x hx; rw [h4, h2] at hx; have := (hi.dbE x).1; omega
  · intro x hx; rw [h6, hidle x] at hx; cases hx
  · intro x hb _; rw [h3] at hb; rw [h3, h8]; exact hi.good x hb (hnf x)
  · intro x hb; rw [h4] at hb; rw [h4, h8]; exact hi.dbGood x hb
  · intro x hb; rw [h4] at hb; rw [h4, h3, h8]; exact hi.dbCross x hb
  · intro x hb _; rw [h3] at hb; rw [h3, h4]; exact hi.memDb x hb (hnf x)
  · intro x hx; rw [h6, hidle x] at hx; cases hx
  · intro d v hd; rw [h8] at hd; rw [h1, h6]; exact hi.pendOk d v hd
  · intro x hfl; rw [hnf'] at hfl; cases hfl
  · intro x hfl; rw [hnf'] at hfl; cases hfl
  · intro x hx; rw [h6, hidle x] at hx; cases hx
  · rw [h9, h6, h11]; exact hi.validIdle
  · rw [h12, h13]; exact hi.sigAtOk
  · intro x hx; rw [h6, hidle x] at hx; cases hx

theorem Inv.dbIter {P : Program} {s s' : St}
    (h1 : s'.env = s.env) (h2 : s'.epoch = s.epoch) (h3 : s'.mem = s.mem)
    (h4 : s'.db = s.db) (h5 : s'.dbIter = s.epoch) (h6 : s'.status = s.status) (h7 : s'.task = s.task)
    (h8 : s'.pending = s.pending) (h9 : s'.target = s.target) (h10 : s'.started = s.started)
    (h11 : s'.validSeen = s.validSeen) (h12 : s'.registered = s.registered) (h13 : s'.sigAt = s.sigAt)
    (hi : Inv P s) : Inv P s' := by
  have hi' : Inv P { s with dbIter := s.epoch } := by
    have := hi
    constructor
    · exact hi.memE
    · exact hi.dbE
    · exact Nat.le_refl _
    · intro _; rfl
    · exact hi.pendIdle
    · exact hi.startedPos
    · exact hi.startedTarget
    · exact hi.notStarted
    · exact hi.stIdle
    · exact hi.stDone
    · exact hi.builtNow
    · exact hi.dbBuiltNow
    · exact hi.seqDone
    · exact hi.good
    · exact hi.dbGood
    · exact hi.dbCross
    · exact hi.memDb
    · exact hi.clean
    · exact hi.pendOk
    · intro k hfl hs; exact ⟨(hi.taskOk k hfl hs).issued, (hi.taskOk k hfl hs).valid, (hi.taskOk k hfl hs).inputs, (hi.taskOk k hfl hs).running, (hi.taskOk k hfl hs).computing⟩
    · exact hi.inflightActive
    · exact hi.validOk
    · exact hi.validIdle
    · exact hi.sigAtOk
    · exact hi.scanReg
  exact Inv.congr (s := { s with dbIter := s.epoch }) h1 h2 h3 h4 h5 h6 h7 h8 h9 h10 h11 h12 (fun k _ => by rw [h13]) hi'

theorem Inv.mutate {P : Program} {s s' : St}
    (h2 : s'.epoch = s.epoch) (h3 : s'.mem = s.mem)
    (h4 : s'.db = s.db) (h5 : s'.dbIter = s.dbIter) (h6 : s'.status = s.status) (h7 : s'.task = s.task)
    (h8 : s'.pending = s.pending) (h9 : s'.target = s.target) (h10 : s'.started = s.started)
    (h11 : s'.validSeen = s.validSeen) (h12 : s'.registered = s.registered) (h13 : s'.sigAt = s.sigAt)
    (ht : s.target = none)
    (hi : Inv P s) : Inv P s' := by
  have hidle := hi.stIdle ht
  have hpe := hi.pendIdle ht
  have ha : active s' ↔ active s := active_congr h10
  have hf : ∀ k, inflight s' k = inflight s k := inflight_congr h6
  have hnf : ∀ x, inflight s x = false := by intro x; simp [inflight, hidle x]
  constructor
  · rw [h3, h2]; exact hi.memE
  · rw [h4, h2]; exact hi.dbE
  · rw [h5, h2]; exact hi.iterLe
  · rw [h9, h10, h5, h2]; exact hi.iterEq
  · rw [h9, h8]; exact hi.pendIdle
  · rw [h10, h2]; exact hi.startedPos
  · rw [h10, h9]; exact hi.startedTarget
  · rw [h10, h9, h6]; exact hi.notStarted
  · rw [h9, h6]; exact hi.stIdle
  · intro k hk; rw [h6] at hk; rw [ha, h3, h2]; exact hi.stDone k hk
  · intro hact k hk; rw [h3, h2] at hk; rw [h6]; exact hi.builtNow (ha.1 hact) k hk
  · intro hact k hk; rw [h4, h2] at hk; rw [h6]; exact hi.dbBuiltNow (ha.1 hact) k hk
  · intro k hk; rw [h6] at hk; rw [h3, h6, h8]; exact hi.seqDone k hk
  · intro k hb hfl; rw [h3] at hb; rw [hf] at hfl; rw [h3, h8]; exact hi.good k hb hfl
  · intro k hb; rw [h4] at hb; rw [h4, h8]; exact hi.dbGood k hb
  · intro k hb; rw [h4] at hb; rw [h4, h3, h8]; exact hi.dbCross k hb
  · intro k hb hfl; rw [h3] at hb; rw [hf] at hfl; rw [h3, h4]; exact hi.memDb k hb hfl
  · intro k hk; rw [h6, hidle k] at hk; cases hk
  · intro d v hd; rw [h8, hpe] at hd; cases hd
  · intro k hfl; rw [hf, hnf] at hfl; cases hfl
  · intro k hfl; rw [hf, hnf] at hfl; cases hfl
  · intro k hk; rw [h6, hidle k] at hk; cases hk
  · intro h; rw [h9, ht] at h; cases h
  · rw [h12, h13]; exact hi.sigAtOk
  · intro k hk; rw [h6, hidle k] at hk; cases hk

end LLBuild.Engine
