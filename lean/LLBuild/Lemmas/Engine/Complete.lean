import LLBuild.Lemmas.Engine.Task2

namespace LLBuild.Engine

/-- `taskIsComplete`: the computing task of `k` reports its value; the in-memory result takes the
value (and, if it changed or was forced, the current epoch as `computedAt`) at once -/
theorem Inv.complete {P : Program} {s s' : St} {k : Key} {r' : Res}
    (h1 : s'.env = s.env) (h2 : s'.epoch = s.epoch)
    (h3 : s'.mem = s.mem.setRes k r')
    (h4 : s'.db = s.db) (h5 : s'.dbIter = s.dbIter) (h6 : s'.status = s.status)
    (h7 : s'.task = upd s.task k { s.task k with completed := true })
    (h8 : s'.pending = s.pending) (h9 : s'.target = s.target) (h10 : s'.started = s.started)
    (h11 : s'.validSeen = s.validSeen) (h12 : s'.registered = s.registered) (h13 : s'.sigAt = s.sigAt)
    (hs : s.status k = .computing) (hts : (s.task k).started = true)
    (hrb : r'.builtAt = (s.mem.res k).builtAt)
    (hrv : r'.value = P.out k s.env (recvOf (s.task k).seq))
    (hrc : (r'.value = (s.mem.res k).value ∧ r'.computedAt = (s.mem.res k).computedAt) ∨ r'.computedAt = s.epoch)
    (hi : Inv P s) : Inv P s' := by
  have hst : s.started = true := started_of_status hi (by rw [hs]; simp)
  have ha : active s' ↔ active s := active_congr h10
  have hf : ∀ x, inflight s' x = inflight s x := inflight_congr h6
  have hfk : inflight s k = true := by simp [inflight, hs]
  have hknd : s.status k ≠ .done := by rw [hs]; simp
  have ho : ∀ x, x ≠ k → s'.mem.res x = s.mem.res x := by
    intro x e; rw [h3, setRes_res_other _ _ _ _ e]
  have hk' : s'.mem.res k = r' := by rw [h3]; simp
  have hseq : s'.mem.seq = s.mem.seq := by rw [h3]; rfl
  have hdisc : s'.mem.disc = s.mem.disc := by rw [h3]; rfl
  have henv : s'.mem.env = s.mem.env := by rw [h3]; rfl
  have hb : ∀ x, (s'.mem.res x).builtAt = (s.mem.res x).builtAt := by
    intro x; by_cases e : x = k
    · subst e; rw [hk', hrb]
    · rw [ho x e]
  -- what other records see of `k`
  have hkchg : ((s'.mem.res k).value = (s.mem.res k).value ∧ (s.mem.res k).computedAt ≤ (s'.mem.res k).computedAt) ∨
      (s'.mem.res k).computedAt = s.epoch := by
    rw [hk']; rcases hrc with ⟨a, b⟩ | c
    · left; exact ⟨a, by rw [b]; exact Nat.le_refl _⟩
    · right; exact c
  -- a live record built in this epoch has all its value dependencies done, so `k` is not among them
  have hlt : ∀ x, (s.mem.res x).builtAt ≠ 0 → inflight s x = false → (s.mem.res x).builtAt = s.epoch →
      s.status x = .done := fun x _ _ h => hi.builtNow hst x h
  constructor
  · intro x
    by_cases e : x = k
    · subst e; rw [hk', hrb, h2]
      refine ⟨(hi.memE x).1, ?_⟩
      rcases hrc with ⟨_, b⟩ | c
      · rw [b]; exact (hi.memE x).2
      · rw [c]; exact Nat.le_refl _
    · rw [ho x e, h2]; exact hi.memE x
  · rw [h4, h2]; exact hi.dbE
  · rw [h5, h2]; exact hi.iterLe
  · rw [h9, h10, h5, h2]; exact hi.iterEq
  · rw [h9, h8]; exact hi.pendIdle
  · rw [h10, h2]; exact hi.startedPos
  · rw [h10, h9]; exact hi.startedTarget
  · rw [h10, h9, h6]; exact hi.notStarted
  · rw [h9, h6]; exact hi.stIdle
  · intro x hx; rw [h6] at hx; rw [ha, hb, h2]; exact hi.stDone x hx
  · intro hact x hx; rw [hb, h2] at hx; rw [h6]; exact hi.builtNow (ha.1 hact) x hx
  · intro hact x hx; rw [h4, h2] at hx; rw [h6]; exact hi.dbBuiltNow (ha.1 hact) x hx
  · intro x hx; rw [h6] at hx; rw [hseq, hdisc, h6, h8]; exact hi.seqDone x hx
  · intro x hbx hfl
    rw [hb] at hbx; rw [hf] at hfl
    have hxk : x ≠ k := by intro e; subst e; rw [hfk] at hfl; cases hfl
    obtain ⟨g, f⟩ := hi.good x hbx hfl
    constructor
    · intro hso; rw [ho x hxk] at hso
      exact GoodRec.frame (σ := s.mem) (by rw [hseq]) (by rw [hdisc]) (by rw [henv]) (by rw [ho x hxk])
        (by intro y hy; rw [ho x hxk]; exact hy) (g hso)
    · rw [h8]
      apply FreshRec.mono2 (σ := s.mem) (by rw [hseq]) (by rw [hdisc]) (by rw [hb]; exact Nat.le_refl _) _ _ _ f
      · intro q v hq hk
        by_cases e : q.key = k
        · rw [e]
          rcases hkchg with a | c
          · left; exact a
          · right; rw [c]
            have hle := (hi.memE x).1
            have hne : (s.mem.res x).builtAt ≠ s.epoch := by
              intro heq
              have hd := hlt x hbx hfl heq
              have := (hi.seqDone x hd).1 q v hq hk
              rw [e] at this; exact hknd this
            omega
        · left; rw [ho _ e]; exact ⟨rfl, Nat.le_refl _⟩
      · intro d v hd
        by_cases e : d = k
        · subst e
          rcases hkchg with a | c
          · left; exact a
          · by_cases heq : (s.mem.res x).builtAt = s.epoch
            · have hdn := hlt x hbx hfl heq
              rcases (hi.seqDone x hdn).2 d v hd with a | b
              · exact absurd a hknd
              · right; right; exact b
            · right; left; rw [c]; have := (hi.memE x).1; omega
        · left; rw [ho _ e]; exact ⟨rfl, Nat.le_refl _⟩
      · intro dv _ hp; left; exact hp
  · intro x hbx; rw [h4] at hbx; rw [h4, h8]; exact hi.dbGood x hbx
  · intro x hbx
    rw [h4] at hbx ⊢; rw [h8]
    -- a row written in this epoch belongs to a rule that is done, whose value inputs are done
    have hrow : (s.db.res x).builtAt = s.epoch → s.status x = .done ∧ s.db.seq x = s.mem.seq x ∧ s.db.disc x = s.mem.disc x := by
      intro heq
      have hd := hi.dbBuiltNow hst x heq
      obtain ⟨sa, sb⟩ := hi.stDone x hd
      have hpos := hi.startedPos hst
      have hm := hi.memDb x (by rw [sb]; omega) (by simp [inflight, hd])
      exact ⟨hd, hm.2.2.2.1, hm.2.2.2.2.1⟩
    apply CrossFresh.mono (σ := s.mem) _ _ _ (hi.dbCross x hbx)
    · intro q v hq hk
      by_cases e : q.key = k
      · rw [e]
        rcases hkchg with a | c
        · left; exact a
        · right; rw [c]
          have hle := (hi.dbE x).1
          have hne : (s.db.res x).builtAt ≠ s.epoch := by
            intro heq
            obtain ⟨hd, hsq, _⟩ := hrow heq
            rw [hsq] at hq
            have := (hi.seqDone x hd).1 q v hq hk
            rw [e] at this; exact hknd this
          omega
      · left; rw [ho _ e]; exact ⟨rfl, Nat.le_refl _⟩
    · intro d v hd
      by_cases e : d = k
      · subst e
        rcases hkchg with a | c
        · left; exact a
        · by_cases heq : (s.db.res x).builtAt = s.epoch
          · obtain ⟨hdn, _, hds⟩ := hrow heq
            rw [hds] at hd
            rcases (hi.seqDone x hdn).2 d v hd with a | b
            · exact absurd a hknd
            · right; right; exact b
          · right; left; rw [c]; have := (hi.dbE x).1; omega
      · left; rw [ho _ e]; exact ⟨rfl, Nat.le_refl _⟩
    · intro dv _ hp; left; exact hp
  · intro x hbx hfl
    rw [hb] at hbx; rw [hf] at hfl
    have hxk : x ≠ k := by intro e; subst e; rw [hfk] at hfl; cases hfl
    rw [h4, ho x hxk, hseq, hdisc, henv]; exact hi.memDb x hbx hfl
  · intro x hx; rw [h6] at hx
    have hxk : x ≠ k := by intro e; subst e; exact hknd hx
    rw [h1, ho x hxk]; exact hi.clean x hx
  · intro d v hd; rw [h8] at hd; rw [h1, h6]; exact hi.pendOk d v hd
  · intro x hfl hsx
    rw [hf] at hfl
    have hin : ∀ q v, (q, v) ∈ (s.task x).seq → q.kind = 0 → (s.task x).started = true →
        s'.status q.key = .done ∧ (s'.mem.res q.key).value = v := by
      intro q v hq hk hstx
      obtain ⟨a, b⟩ := (hi.taskOk x hfl hstx).inputs q v hq hk
      have : q.key ≠ k := by intro e; rw [e] at a; exact hknd a
      rw [h6, ho _ this]; exact ⟨a, b⟩
    by_cases e : x = k
    · subst e
      have hte : s'.task x = { s.task x with completed := true } := by rw [h7]; simp
      have t := hi.taskOk x hfl hts
      constructor
      · rw [hte]; exact t.issued
      · rw [hte]; exact t.valid
      · intro q v hq hk; rw [hte] at hq; exact hin q v hq hk hts
      · intro hr; rw [h6, hs] at hr; cases hr
      · intro hc
        rw [h6] at hc
        obtain ⟨c1, c2, _⟩ := t.computing hc
        rw [hte]
        refine ⟨c1, c2, fun _ => ?_⟩
        rw [hk', h1]; exact hrv
    · have hte : s'.task x = s.task x := by rw [h7, upd_other _ _ _ _ e]
      rw [hte] at hsx
      have t := hi.taskOk x hfl hsx
      constructor
      · rw [hte]; exact t.issued
      · rw [hte]; exact t.valid
      · intro q v hq hk; rw [hte] at hq; exact hin q v hq hk hsx
      · rw [hte, h6]; exact t.running
      · intro hc; rw [h6] at hc; rw [hte, ho x e, h1]; exact t.computing hc
  · intro x hfl; rw [hf] at hfl; exact ha.2 (hi.inflightActive x hfl)
  · intro x hx hv
    rw [h6] at hx; rw [h11] at hv
    have hxk : x ≠ k := by intro e; subst e; rw [hs] at hx; cases hx
    rw [h1, ho x hxk, h13]; exact hi.validOk x hx hv
  · rw [h9, h6, h11]; exact hi.validIdle
  · rw [h12, h13]; exact hi.sigAtOk
  · rw [h6, h12]; exact hi.scanReg

end LLBuild.Engine
