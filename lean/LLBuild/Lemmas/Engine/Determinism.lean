/-
`Clean` is single-valued for clients whose request function is monotone and whose request ids are
distinct within each request list: whatever order inputs are delivered in, a task ends with the same
received values.  WHICH request an id stands for may depend on the values delivered so far (dynamic
tasks: `Node(path/filenames[i])` under id `1+i` for a delivered listing `filenames`); by monotonicity
everything issued along a valid delivery sequence is still in the current request list
(`valid_seq_inv`), so distinctness inside one list is all that is needed.
-/
import LLBuild.Lemmas.Engine.Finish

namespace LLBuild.Engine

def SortedIds (r : Recv) : Prop := r.Pairwise (fun a b => a.1 < b.1)

/-- more received values never retract a request (received values are kept sorted by id, one per
id); ids identify requests within one request list (the request made under an id may depend on the
values received) -/
structure Program.Mono (P : Program) : Prop where
  mono : ∀ k (r r' : Recv), SortedIds r → SortedIds r' → (∀ x ∈ r, x ∈ r') → ∀ q ∈ P.next k r, q ∈ P.next k r'
  ids : ∀ k (r : Recv) q q', q ∈ P.next k r → q' ∈ P.next k r → q.id = q'.id → q = q'

/-! ### `insertRecv`: membership and sortedness -/

theorem mem_insertRecv (id : Nat) (v : Val) : ∀ (r : Recv), SortedIds r → ∀ (i : Nat) (x : Val),
    ((i, x) ∈ insertRecv id v r ↔ (i = id ∧ x = v) ∨ ((i, x) ∈ r ∧ i ≠ id))
  | [], _, i, x => by simp [insertRecv]
  | (j, w) :: rest, hs, i, x => by
    have hs' := List.pairwise_cons.1 hs
    have hgt : ∀ a ∈ rest, j < a.1 := fun a ha => hs'.1 a ha
    unfold insertRecv
    split
    · rename_i hlt
      simp only [List.mem_cons, Prod.mk.injEq]
      constructor
      · rintro (h | h | h)
        · left; exact h
        · right; exact ⟨Or.inl h, by omega⟩
        · right; exact ⟨Or.inr h, by have := hgt _ h; simp at this; omega⟩
      · rintro (h | ⟨h | h, _⟩)
        · left; exact h
        · right; left; exact h
        · right; right; exact h
    · split
      · rename_i hnlt heq
        subst heq
        simp only [List.mem_cons, Prod.mk.injEq]
        constructor
        · rintro (h | h)
          · left; exact h
          · right; exact ⟨Or.inr h, by have := hgt _ h; simp at this; omega⟩
        · rintro (h | ⟨h | h, hne⟩)
          · left; exact h
          · exact absurd h.1 hne
          · right; exact h
      · rename_i hnlt hne
        have ih := mem_insertRecv id v rest hs'.2 i x
        simp only [List.mem_cons, Prod.mk.injEq, ih]
        constructor
        · rintro (h | h | ⟨h, hn⟩)
          · right; exact ⟨Or.inl h, by omega⟩
          · left; exact h
          · right; exact ⟨Or.inr h, hn⟩
        · rintro (h | ⟨h | h, hn⟩)
          · right; left; exact h
          · left; exact h
          · right; right; exact ⟨h, hn⟩

theorem sorted_insertRecv (id : Nat) (v : Val) : ∀ (r : Recv), SortedIds r → SortedIds (insertRecv id v r)
  | [], _ => by simp [insertRecv, SortedIds]
  | (j, w) :: rest, hs => by
    have hs' := List.pairwise_cons.1 hs
    unfold insertRecv
    split
    · rename_i hlt
      refine List.pairwise_cons.2 ⟨?_, hs⟩
      intro a ha
      rcases List.mem_cons.1 ha with rfl | ha
      · exact hlt
      · have := hs'.1 a ha; simp at this ⊢; omega
    · split
      · rename_i _ heq
        subst heq
        exact List.pairwise_cons.2 ⟨hs'.1, hs'.2⟩
      · rename_i hnlt hne
        have ih := sorted_insertRecv id v rest hs'.2
        refine List.pairwise_cons.2 ⟨?_, ih⟩
        intro a ha
        obtain ⟨i, x⟩ := a
        rcases (mem_insertRecv id v rest hs'.2 i x).1 ha with ⟨h1, _⟩ | ⟨h1, _⟩
        · simp; omega
        · exact hs'.1 _ h1

theorem sorted_recvOf : ∀ (seq : Seq), SortedIds (recvOf seq)
  | [] => by simp [recvOf, SortedIds]
  | (q, v) :: rest => by simp only [recvOf]; exact sorted_insertRecv _ _ _ (sorted_recvOf rest)

/-- two strictly sorted lists with the same members are equal -/
theorem sorted_ext : ∀ (a b : Recv), SortedIds a → SortedIds b → (∀ x, x ∈ a ↔ x ∈ b) → a = b
  | [], [], _, _, _ => rfl
  | [], y :: ys, _, _, h => by have := (h y).2 (by simp); cases this
  | x :: xs, [], _, _, h => by have := (h x).1 (by simp); cases this
  | x :: xs, y :: ys, ha, hb, h => by
    have ha' := List.pairwise_cons.1 ha
    have hb' := List.pairwise_cons.1 hb
    have hxy : x = y := by
      have hx : x ∈ y :: ys := (h x).1 (by simp)
      have hy : y ∈ x :: xs := (h y).2 (by simp)
      rcases List.mem_cons.1 hx with e | hx'
      · exact e
      · rcases List.mem_cons.1 hy with e | hy'
        · exact e.symm
        · have h1 := hb'.1 x hx'
          have h2 := ha'.1 y hy'
          omega
    subst hxy
    congr 1
    apply sorted_ext xs ys ha'.2 hb'.2
    intro z
    constructor
    · intro hz
      rcases List.mem_cons.1 ((h z).1 (List.mem_cons_of_mem _ hz)) with e | e
      · subst e; have := ha'.1 z hz; omega
      · exact e
    · intro hz
      rcases List.mem_cons.1 ((h z).2 (List.mem_cons_of_mem _ hz)) with e | e
      · subst e; have := hb'.1 z hz; omega
      · exact e

end LLBuild.Engine

namespace LLBuild.Engine

structure Program.Det (P : Program) : Prop extends Program.Mono P where
  kinds : ∀ k (r : Recv) q, q ∈ P.next k r → q.kind ≤ 2

theorem issuedAfter_from_next (P : Program) (k : Key) : ∀ (seq : Seq) (q : Req),
    q ∈ issuedAfter P k seq → ∃ r, q ∈ P.next k r
  | [], q, h => by
    simp only [issuedAfter] at h
    exact ⟨[], List.mem_eraseDups.1 h⟩
  | (a, b) :: rest, q, h => by
    simp only [issuedAfter] at h
    rcases List.mem_append.1 h with h | h
    · exact issuedAfter_from_next P k rest q h
    · exact ⟨_, (List.mem_filter.1 (List.mem_eraseDups.1 h)).1⟩

theorem next_sub_issued (P : Program) (k : Key) : ∀ (seq : Seq) (q : Req),
    q ∈ P.next k (recvOf seq) → q ∈ issuedAfter P k seq
  | [], q, h => by simp only [issuedAfter]; exact List.mem_eraseDups.2 h
  | (a, b) :: rest, q, h => by
    simp only [issuedAfter]
    by_cases hin : q ∈ issuedAfter P k rest
    · exact List.mem_append_left _ hin
    · apply List.mem_append_right
      apply List.mem_eraseDups.2
      exact List.mem_filter.2 ⟨h, by simpa using hin⟩

theorem delivered_iff (seq : Seq) (q : Req) : delivered seq q = true ↔ ∃ v, (q, v) ∈ seq := by
  simp only [delivered, List.any_eq_true, beq_iff_eq]
  constructor
  · rintro ⟨⟨q', v⟩, hm, he⟩; simp at he; subst he; exact ⟨v, hm⟩
  · rintro ⟨v, hm⟩; exact ⟨(q, v), hm, rfl⟩

/-- along a valid delivery sequence everything issued so far is still requested, and the received
values are exactly the deliveries (no id is overwritten) -/
theorem valid_seq_inv {P : Program} (hM : P.Mono) (k : Key) : ∀ (seq : Seq), validSeq P k seq = true →
    (∀ q, q ∈ issuedAfter P k seq → q ∈ P.next k (recvOf seq)) ∧
    (∀ (i : Nat) (x : Val), (i, x) ∈ recvOf seq ↔ ∃ q v, (q, v) ∈ seq ∧ q.id = i ∧ x = maskVal q v)
  | [], _ => by
    refine ⟨?_, ?_⟩
    · intro q hq
      simp only [issuedAfter] at hq
      exact List.mem_eraseDups.1 hq
    · intro i x; simp [recvOf]
  | (q, v) :: rest, hv => by
    have hv' := hv
    simp only [validSeq, Bool.and_eq_true] at hv'
    obtain ⟨⟨⟨hvr, hiss⟩, _⟩, hnd⟩ := hv'
    obtain ⟨ihA, ihB⟩ := valid_seq_inv hM k rest hvr
    have hqn : q ∈ P.next k (recvOf rest) := ihA q (by simpa using hiss)
    -- the id of the new delivery is fresh: an earlier delivery under the same id would be the same
    -- request (both are in the current request list), but `q` was not delivered before
    have hfresh : ∀ q0 v0, (q0, v0) ∈ rest → q0.id ≠ q.id := by
      intro q0 v0 hm heq
      have h0 : q0 ∈ P.next k (recvOf rest) := ihA q0 (validSeq_issued P k rest hvr q0 v0 hm)
      have : q0 = q := hM.ids k _ q0 q h0 hqn heq
      subst this
      have : delivered rest q0 = true := (delivered_iff rest q0).2 ⟨v0, hm⟩
      simp [this] at hnd
    have hB : ∀ (i : Nat) (x : Val), (i, x) ∈ recvOf ((q, v) :: rest) ↔
        ∃ q' v', (q', v') ∈ (q, v) :: rest ∧ q'.id = i ∧ x = maskVal q' v' := by
      intro i x
      simp only [recvOf]
      rw [mem_insertRecv _ _ _ (sorted_recvOf rest)]
      constructor
      · rintro (⟨h1, h2⟩ | ⟨h1, _⟩)
        · exact ⟨q, v, by simp, h1.symm, h2⟩
        · obtain ⟨q0, v0, hm, hid, hx⟩ := (ihB i x).1 h1
          exact ⟨q0, v0, List.mem_cons_of_mem _ hm, hid, hx⟩
      · rintro ⟨q0, v0, hm, hid, hx⟩
        rcases List.mem_cons.1 hm with e | hm'
        · cases e; left; exact ⟨hid.symm, hx⟩
        · right
          exact ⟨(ihB i x).2 ⟨q0, v0, hm', hid, hx⟩, fun heq => hfresh q0 v0 hm' (by rw [hid, heq])⟩
    refine ⟨?_, hB⟩
    intro q' hq'
    simp only [issuedAfter] at hq'
    rcases List.mem_append.1 hq' with h | h
    · apply hM.mono k (recvOf rest) _ (sorted_recvOf rest) (sorted_recvOf _) _ q' (ihA q' h)
      rintro ⟨i, x⟩ hx
      obtain ⟨q0, v0, hm, hid, hxe⟩ := (ihB i x).1 hx
      exact (hB i x).2 ⟨q0, v0, List.mem_cons_of_mem _ hm, hid, hxe⟩
    · exact (List.mem_filter.1 (List.mem_eraseDups.1 h)).1

/-- everything a task has issued along a valid delivery sequence is in its current request list -/
theorem issued_still_requested {P : Program} (hM : P.Mono) (k : Key) (seq : Seq)
    (hv : validSeq P k seq = true) (q : Req) (h : q ∈ issuedAfter P k seq) : q ∈ P.next k (recvOf seq) :=
  (valid_seq_inv hM k seq hv).1 q h

/-- membership in `recvOf` of a valid sequence -/
theorem mem_recvOf {P : Program} (hM : P.Mono) (k : Key) (seq : Seq) (hv : validSeq P k seq = true)
    (i : Nat) (x : Val) : ((i, x) ∈ recvOf seq ↔ ∃ q v, (q, v) ∈ seq ∧ q.id = i ∧ x = maskVal q v) :=
  (valid_seq_inv hM k seq hv).2 i x

/-- if every delivery of `s1` also happens in `s2` with the same (masked) value, everything `s1`
issues is also issued by `s2` -/
theorem issued_sub {P : Program} (hM : P.Mono) (k : Key) (s2 : Seq) (hv2 : validSeq P k s2 = true) :
    ∀ (s1 : Seq), validSeq P k s1 = true →
    (∀ q w, (q, w) ∈ s1 → ∃ w', (q, w') ∈ s2 ∧ maskVal q w = maskVal q w') →
    ∀ q, q ∈ issuedAfter P k s1 → q ∈ issuedAfter P k s2 := by
  intro s1
  induction s1 with
  | nil =>
    intro _ _ q hq
    simp only [issuedAfter] at hq
    have := List.mem_eraseDups.1 hq
    exact next_sub_issued P k s2 q (hM.mono k [] _ (by simp [SortedIds]) (sorted_recvOf s2) (by intro x hx; cases hx) q this)
  | cons y r ih =>
    intro hv1 hsub q hq
    obtain ⟨a, b⟩ := y
    have hv1' := hv1
    simp only [validSeq, Bool.and_eq_true] at hv1'
    have hvr := hv1'.1.1.1
    simp only [issuedAfter] at hq
    rcases List.mem_append.1 hq with hq | hq
    · exact ih hvr (fun q w hm => hsub q w (List.mem_cons_of_mem _ hm)) q hq
    · have hqn := (List.mem_filter.1 (List.mem_eraseDups.1 hq)).1
      apply next_sub_issued P k s2 q
      apply hM.mono k _ _ (sorted_recvOf _) (sorted_recvOf s2) _ q hqn
      rintro ⟨i, x⟩ hx
      obtain ⟨q0, v0, hm, hid, hxe⟩ := (mem_recvOf hM k _ hv1 i x).1 hx
      obtain ⟨w', hm2, hmask⟩ := hsub q0 v0 hm
      exact (mem_recvOf hM k s2 hv2 i x).2 ⟨q0, w', hm2, hid, by rw [hxe, hmask]⟩

/-- every delivery of a valid sequence also happens in any valid COMPLETE sequence whose answers
agree with it -/
theorem deliveries_sub {P : Program} (hM : P.Mono) (k : Key) (s2 : Seq) (hv2 : validSeq P k s2 = true)
    (hc2 : completeSeq P k s2 = true) :
    ∀ (s1 : Seq), validSeq P k s1 = true →
    (∀ q w w', (q, w) ∈ s1 → (q, w') ∈ s2 → maskVal q w = maskVal q w') →
    ∀ q w, (q, w) ∈ s1 → ∃ w', (q, w') ∈ s2 ∧ maskVal q w = maskVal q w' := by
  intro s1
  induction s1 with
  | nil => intro _ _ q w h; cases h
  | cons y r ih =>
    intro hv1 hag q w hm
    obtain ⟨a, b⟩ := y
    have hv1' := hv1
    simp only [validSeq, Bool.and_eq_true] at hv1'
    obtain ⟨⟨⟨hvr, hiss⟩, hk2⟩, _⟩ := hv1'
    have ihr := ih hvr (fun q w w' h1 h2 => hag q w w' (List.mem_cons_of_mem _ h1) h2)
    rcases List.mem_cons.1 hm with e | hm'
    · cases e
      have h2 : q ∈ issuedAfter P k s2 := issued_sub hM k s2 hv2 r hvr ihr q (by simpa using hiss)
      have := List.all_eq_true.1 hc2 q h2
      have hk2' : q.kind ≠ 2 := by simpa using hk2
      simp [hk2'] at this
      obtain ⟨w', hw'⟩ := (delivered_iff s2 q).1 this
      exact ⟨w', hw', hag q w w' (by simp) hw'⟩
    · exact ihr q w hm'

/-- two valid complete delivery sequences with agreeing answers leave the task with the same
received values -/
theorem recvOf_unique {P : Program} (hM : P.Mono) (k : Key) (s1 s2 : Seq)
    (hv1 : validSeq P k s1 = true) (hc1 : completeSeq P k s1 = true)
    (hv2 : validSeq P k s2 = true) (hc2 : completeSeq P k s2 = true)
    (hag : ∀ q w w', (q, w) ∈ s1 → (q, w') ∈ s2 → maskVal q w = maskVal q w') :
    recvOf s1 = recvOf s2 := by
  apply sorted_ext _ _ (sorted_recvOf s1) (sorted_recvOf s2)
  rintro ⟨i, x⟩
  constructor
  · intro hx
    obtain ⟨q0, v0, hm, hid, hxe⟩ := (mem_recvOf hM k s1 hv1 i x).1 hx
    obtain ⟨w', hm2, hmask⟩ := deliveries_sub hM k s2 hv2 hc2 s1 hv1 hag q0 v0 hm
    exact (mem_recvOf hM k s2 hv2 i x).2 ⟨q0, w', hm2, hid, by rw [hxe, hmask]⟩
  · intro hx
    obtain ⟨q0, v0, hm, hid, hxe⟩ := (mem_recvOf hM k s2 hv2 i x).1 hx
    obtain ⟨w', hm1, hmask⟩ := deliveries_sub hM k s1 hv1 hc1 s2 hv2
      (fun q w w' h2 h1 => (hag q w' w h1 h2).symm) q0 v0 hm
    exact (mem_recvOf hM k s1 hv1 i x).2 ⟨q0, w', hm1, hid, by rw [hxe, hmask]⟩

theorem validSeq_kind (P : Program) (k : Key) : ∀ (seq : Seq), validSeq P k seq = true →
    ∀ q w, (q, w) ∈ seq → q.kind ≠ 2
  | [], _, q, w, h => by cases h
  | (a, b) :: rest, hv, q, w, h => by
    simp only [validSeq, Bool.and_eq_true] at hv
    rcases List.mem_cons.1 h with e | e
    · cases e; simpa using hv.1.2
    · exact validSeq_kind P k rest hv.1.1.1 q w e

/-- What a brand-new engine computes is unique. -/
theorem Clean_unique {P : Program} (hD : P.Det) {env : Env} {k : Key} {v v' : Val}
    (h : Clean P env k v) (h' : Clean P env k v') : v = v' := by
  induction h generalizing v' with
  | mk k s1 hv1 hc1 _ ih =>
    cases h' with
    | mk _ s2 hv2 hc2 hin2 =>
      have : recvOf s1 = recvOf s2 := by
        apply recvOf_unique hD.toMono k s1 s2 hv1 hc1 hv2 hc2
        intro q w w' h1 h2
        have hkind : q.kind ≤ 2 := by
          obtain ⟨r, hr⟩ := issuedAfter_from_next P k s1 q (validSeq_issued P k s1 hv1 q w h1)
          exact hD.kinds k r q hr
        by_cases hk0 : q.kind = 0
        · have := ih q w h1 hk0 (hin2 q w' h2 hk0)
          simp [maskVal, hk0, this]
        · by_cases hk1 : q.kind = 1
          · simp [maskVal, hk1]
          · -- kind 2 requests are never delivered
            have hk2 : q.kind = 2 := by omega
            have := validSeq_kind P k s1 hv1 q w h1
            exact absurd hk2 this
      rw [this]

end LLBuild.Engine
