/-
C06 "the same set of executed rules": THE SCHEDULE-FREE REFERENCE.

From what a build starts with — `Snap`: the external state, the epoch of the build, the in-memory results, the signature
the engine holds (or will compute at registration) for every rule — define, WITHOUT any notion of time or schedule:

* `Ref P σ k ran v c`: bringing rule `k` up to date yields value `v` with `computedAt = c`, and the rule `ran` or not.
  - `keep`: the stored result is reusable (built, signature current, the rule accepts the value) and every recorded
    (non-single-use) dependency, brought up to date, is not newer than the rule's `builtAt` (order-only ones are only
    brought up to date): the rule does not run, value and `computedAt` stay;
  - `runNew`: the stored result is not reusable (never built / signature changed / invalid): the rule runs;
  - `runDep`: reusable, but scanning the recorded dependencies IN ORDER meets a first one (`dp`, not order-only) whose
    `computedAt` is newer: the rule runs.
  A run goes through a valid complete delivery sequence whose value-carrying answers are the reference values of the
  requested keys; its output replaces the stored value (and `computedAt := epoch`) iff it differs or the rule forces.
* `Dem P σ root k`: `k` is DEMANDED by a build of `root`: the root; a recorded dependency of a demanded reusable rule up to
  and including the first changed one; a request issued by a demanded rule that runs along ANY valid (partial) delivery
  sequence with reference answers; a discovered dependency of a demanded rule that runs.
* `MustRun P σ root k := Dem … k ∧ ∃ v c, Ref … k true v c`.

`Ref_unique`: for deterministic clients (`Program.Det`) `ran`, `v`, `c` are functions of `k`.
-/
import LLBuild.Lemmas.Engine.Determinism
import LLBuild.Lemmas.Engine.Exec0

namespace LLBuild.Engine

/-- what a build starts with -/
structure Snap where
  env : Env
  /-- the epoch of the build (after `++currentEpoch`) -/
  epoch : Nat
  /-- the in-memory results -/
  res : Key → Res
  /-- `rule->signature` of a registered rule, what the delegate will compute for an unregistered one -/
  sg : Key → Nat

/-- the snapshot taken in the state a build starts from -/
def snapOf (P : Program) (m : St) : Snap where
  env := m.env
  epoch := m.epoch + 1
  res := m.mem.res
  sg := fun k => if m.registered k then m.sigAt k else P.sig m.env k

/-- the recorded dependencies a scan looks at (`scanRule` drops the single-use ones first) -/
def Snap.deps (σ : Snap) (k : Key) : List Dep := (σ.res k).deps.filter (fun d => !d.singleUse)

/-- the stored result may be reused: it exists, carries the rule's signature, and the rule accepts its value -/
def Snap.reusable (P : Program) (σ : Snap) (k : Key) : Prop :=
  (σ.res k).builtAt ≠ 0 ∧ (σ.res k).sig = σ.sg k ∧ P.valid σ.env k (σ.res k).value = true

/-- value and `computedAt` after a run that received `recv` (`taskIsComplete`) -/
def Snap.runVal (P : Program) (σ : Snap) (k : Key) (recv : Recv) : Val × Nat :=
  if !(P.force k) && P.out k σ.env recv == (σ.res k).value then ((σ.res k).value, (σ.res k).computedAt)
  else (P.out k σ.env recv, σ.epoch)

/-- a dependency brought up to date with `computedAt = c` does not make a rule built at `b` run -/
def depKeeps (b : Nat) (d : Dep) (c : Nat) : Prop := d.orderOnly = true ∨ ¬ b < c

inductive Ref (P : Program) (σ : Snap) : Key → Bool → Val → Nat → Prop
  | keep (k : Key) (B : Key → Bool) (V : Key → Val) (C : Key → Nat) :
      σ.reusable P k →
      (∀ d ∈ σ.deps k, Ref P σ d.key (B d.key) (V d.key) (C d.key)) →
      (∀ d ∈ σ.deps k, depKeeps (σ.res k).builtAt d (C d.key)) →
      Ref P σ k false (σ.res k).value (σ.res k).computedAt
  | runNew (k : Key) (seq : Seq) (B : Key → Bool) (C : Key → Nat) :
      ¬ σ.reusable P k →
      validSeq P k seq = true → completeSeq P k seq = true →
      (∀ q v, (q, v) ∈ seq → q.kind = 0 → Ref P σ q.key (B q.key) v (C q.key)) →
      Ref P σ k true (σ.runVal P k (recvOf seq)).1 (σ.runVal P k (recvOf seq)).2
  | runDep (k : Key) (seq : Seq) (B : Key → Bool) (V : Key → Val) (C : Key → Nat) (B' : Key → Bool) (C' : Key → Nat)
      (pre : List Dep) (dp : Dep) (post : List Dep) :
      σ.reusable P k → σ.deps k = pre ++ dp :: post →
      (∀ d ∈ pre, Ref P σ d.key (B d.key) (V d.key) (C d.key)) →
      (∀ d ∈ pre, depKeeps (σ.res k).builtAt d (C d.key)) →
      Ref P σ dp.key (B dp.key) (V dp.key) (C dp.key) → dp.orderOnly = false → (σ.res k).builtAt < C dp.key →
      validSeq P k seq = true → completeSeq P k seq = true →
      (∀ q v, (q, v) ∈ seq → q.kind = 0 → Ref P σ q.key (B' q.key) v (C' q.key)) →
      Ref P σ k true (σ.runVal P k (recvOf seq)).1 (σ.runVal P k (recvOf seq)).2

/-- two valid complete delivery sequences whose kind-0 answers agree leave the same received values
(`recvOf_unique` with the masking of single-use answers and the absence of must-follow deliveries) -/
theorem recvOf_unique_kind0 {P : Program} (hD : P.Det) (k : Key) (s1 s2 : Seq)
    (hv1 : validSeq P k s1 = true) (hc1 : completeSeq P k s1 = true)
    (hv2 : validSeq P k s2 = true) (hc2 : completeSeq P k s2 = true)
    (hag : ∀ q w w', (q, w) ∈ s1 → (q, w') ∈ s2 → q.kind = 0 → w = w') : recvOf s1 = recvOf s2 := by
  apply recvOf_unique hD.toMono k s1 s2 hv1 hc1 hv2 hc2
  intro q w w' h1 h2
  have hkind : q.kind ≤ 2 := by
    obtain ⟨r, hr⟩ := issuedAfter_from_next P k s1 q (validSeq_issued P k s1 hv1 q w h1)
    exact hD.kinds k r q hr
  by_cases hk0 : q.kind = 0
  · have := hag q w w' h1 h2 hk0
    simp [maskVal, hk0, this]
  · by_cases hk1 : q.kind = 1
    · simp [maskVal, hk1]
    · have hk2 : q.kind = 2 := by omega
      exact absurd hk2 (validSeq_kind P k s1 hv1 q w h1)

/-- **the reference is a function**: whether the rule runs, its value and its `computedAt` are determined -/
theorem Ref_unique {P : Program} (hD : P.Det) {σ : Snap} {k : Key} {b b' : Bool} {v v' : Val} {c c' : Nat}
    (h : Ref P σ k b v c) (h' : Ref P σ k b' v' c') : b = b' ∧ v = v' ∧ c = c' := by
  induction h generalizing b' v' c' with
  | keep k B V C hre hdeps hkeep ih =>
    cases h' with
    | keep => exact ⟨rfl, rfl, rfl⟩
    | runNew _ _ _ _ hnre => exact absurd hre hnre
    | runDep _ _ B2 V2 C2 _ _ pre dp post _ hsplit _ _ hdp hoo hlt =>
      have hmem : dp ∈ σ.deps k := by rw [hsplit]; simp
      have hc := (ih dp hmem hdp).2.2
      rcases hkeep dp hmem with h1 | h1
      · rw [hoo] at h1; cases h1
      · rw [hc] at h1; exact absurd hlt h1
  | runNew k s1 B C hnre hv1 hc1 hin1 ih =>
    cases h' with
    | keep _ _ _ _ hre => exact absurd hre hnre
    | runNew _ s2 B2 C2 _ hv2 hc2 hin2 =>
      have : recvOf s1 = recvOf s2 :=
        recvOf_unique_kind0 hD k s1 s2 hv1 hc1 hv2 hc2 (fun q w w' h1 h2 hk => (ih q w h1 hk (hin2 q w' h2 hk)).2.1)
      rw [this]; exact ⟨rfl, rfl, rfl⟩
    | runDep _ _ _ _ _ _ _ _ _ _ hre => exact absurd hre hnre
  | runDep k s1 B V C B' C' pre dp post hre hsplit hpre hpk hdp hoo hlt hv1 hc1 hin1 ihpre ihdp ihin =>
    cases h' with
    | keep _ B2 V2 C2 _ hdeps2 hkeep2 =>
      have hmem : dp ∈ σ.deps k := by rw [hsplit]; simp
      have hc := (ihdp (hdeps2 dp hmem)).2.2
      rcases hkeep2 dp hmem with h1 | h1
      · rw [hoo] at h1; cases h1
      · rw [← hc] at h1; exact absurd hlt h1
    | runNew _ _ _ _ hnre => exact absurd hre hnre
    | runDep _ s2 _ _ _ B2 C2 _ _ _ _ _ _ _ _ _ _ hv2 hc2 hin2 =>
      have : recvOf s1 = recvOf s2 :=
        recvOf_unique_kind0 hD k s1 s2 hv1 hc1 hv2 hc2 (fun q w w' h1 h2 hk => (ihin q w h1 hk (hin2 q w' h2 hk)).2.1)
      rw [this]; exact ⟨rfl, rfl, rfl⟩

/-- the rule has to run (reference level): not reusable, or the in-order scan meets a changed dependency -/
def NeedsRunR (P : Program) (σ : Snap) (k : Key) : Prop :=
  ¬ σ.reusable P k ∨
  ∃ (B : Key → Bool) (V : Key → Val) (C : Key → Nat) (pre : List Dep) (dp : Dep) (post : List Dep),
    σ.deps k = pre ++ dp :: post ∧
    (∀ d ∈ pre, Ref P σ d.key (B d.key) (V d.key) (C d.key)) ∧ (∀ d ∈ pre, depKeeps (σ.res k).builtAt d (C d.key)) ∧
    Ref P σ dp.key (B dp.key) (V dp.key) (C dp.key) ∧ dp.orderOnly = false ∧ (σ.res k).builtAt < C dp.key

/-- the answers of a delivery sequence are the reference values -/
def RefAnswers (P : Program) (σ : Snap) (seq : Seq) : Prop :=
  ∃ (B : Key → Bool) (C : Key → Nat), ∀ q v, (q, v) ∈ seq → q.kind = 0 → Ref P σ q.key (B q.key) v (C q.key)

/-- **demanded by a build of `root`** -/
inductive Dem (P : Program) (σ : Snap) (root : Key) : Key → Prop
  | root : Dem P σ root root
  | scan (a : Key) (B : Key → Bool) (V : Key → Val) (C : Key → Nat) (pre : List Dep) (dp : Dep) (post : List Dep) :
      Dem P σ root a → σ.reusable P a → σ.deps a = pre ++ dp :: post →
      (∀ d ∈ pre, Ref P σ d.key (B d.key) (V d.key) (C d.key)) →
      (∀ d ∈ pre, depKeeps (σ.res a).builtAt d (C d.key)) →
      Dem P σ root dp.key
  | req (a : Key) (seq : Seq) (q : Req) :
      Dem P σ root a → NeedsRunR P σ a → validSeq P a seq = true → RefAnswers P σ seq →
      q ∈ issuedAfter P a seq → Dem P σ root q.key
  | disc (a : Key) (seq : Seq) (d : Key) :
      Dem P σ root a → NeedsRunR P σ a → validSeq P a seq = true → completeSeq P a seq = true → RefAnswers P σ seq →
      d ∈ P.disc a (recvOf seq) → Dem P σ root d

/-- **the rules a build of `root` executes, as a function of what the build starts with** -/
def MustRun (P : Program) (σ : Snap) (root k : Key) : Prop := Dem P σ root k ∧ ∃ v c, Ref P σ k true v c

/-- a rule that has to run does not have a `keep` derivation -/
theorem NeedsRunR.ran {P : Program} (hD : P.Det) {σ : Snap} {k : Key} (hn : NeedsRunR P σ k) {b : Bool} {v : Val} {c : Nat}
    (h : Ref P σ k b v c) : b = true := by
  cases h with
  | keep _ B V C hre hdeps hkeep =>
    rcases hn with hn | ⟨B2, V2, C2, pre, dp, post, hsplit, _, _, hdp, hoo, hlt⟩
    · exact absurd hre hn
    · have hmem : dp ∈ σ.deps k := by rw [hsplit]; simp
      have hc := (Ref_unique hD (hdeps dp hmem) hdp).2.2
      rcases hkeep dp hmem with h1 | h1
      · rw [hoo] at h1; cases h1
      · rw [hc] at h1; exact absurd hlt h1
  | runNew => rfl
  | runDep => rfl

end LLBuild.Engine
