/-
C07 "never falsely": a DECIDABLE static acyclicity of a DSL rule list.

`edgesOf sp`: every key a rule may ever request (statics and EVERY `whens` branch, any kind) or discover.  `rankedBy rules rank`:
`rank` decreases strictly along all these edges; `acyclicAll rules`: `rankedBy` for the longest-path depth computed with fuel
`rules.length + 1` (a valid rank exactly when the graph over the listed rules is acyclic; keys without a rule are inputs
with no edges).  `ranked_of_rankedBy`: then `Ranked (program rules) rank` (Exec6.lean).
-/
import LLBuild.Lemmas.Engine.Exec6
import LLBuild.Model.EngineDSL

namespace LLBuild.Engine.DSL
open LLBuild.Engine

/-- all potential edges of a rule -/
def edgesOf (sp : RuleSpec) : List Key := (allReqs sp).map (fun q => q.key) ++ sp.discs.map (fun d => d.2)

/-- `rank` decreases strictly along every potential edge of every listed rule -/
def rankedBy (rules : List RuleSpec) (rank : Key → Nat) : Bool :=
  rules.all fun sp => (edgesOf sp).all fun b => decide (rank b < rank sp.key)

/-- longest path (in edges) from `k`, cut at `fuel` -/
def depth (rules : List RuleSpec) : Nat → Key → Nat
  | 0, _ => 0
  | n + 1, k => ((edgesOf (specOf rules k)).map (fun b => depth rules n b + 1)).foldl max 0

/-- **static acyclicity over all potential edges** (decidable) -/
def acyclicAll (rules : List RuleSpec) : Bool := rankedBy rules (depth rules (rules.length + 1))

theorem nextReqs_sub_allReqs (sp : RuleSpec) (recv : Recv) : ∀ q ∈ nextReqs sp recv, q ∈ allReqs sp := by
  intro q hq
  unfold nextReqs at hq
  unfold allReqs
  rcases List.mem_append.1 hq with h | h
  · exact List.mem_append_left _ h
  · apply List.mem_append_right
    obtain ⟨w, hw, hqw⟩ := List.mem_flatMap.1 h
    exact List.mem_flatMap.2 ⟨w, (List.mem_filter.1 hw).1, hqw⟩

theorem discKeys_sub (sp : RuleSpec) (recv : Recv) : ∀ d ∈ discKeys sp recv, d ∈ sp.discs.map (fun d => d.2) := by
  intro d hd
  unfold discKeys at hd
  obtain ⟨x, hx, hxd⟩ := List.mem_map.1 hd
  exact List.mem_map.2 ⟨x, (List.mem_filter.1 hx).1, hxd⟩

theorem staticEdge_edgesOf {rules : List RuleSpec} {k b : Key} (h : StaticEdge (program rules) k b) :
    b ∈ edgesOf (specOf rules k) := by
  unfold edgesOf
  rcases h with ⟨r, q, hq, hb⟩ | ⟨r, hd⟩
  · apply List.mem_append_left
    exact List.mem_map.2 ⟨q, nextReqs_sub_allReqs _ r q hq, hb⟩
  · exact List.mem_append_right _ (discKeys_sub _ r b hd)

theorem ranked_of_rankedBy {rules : List RuleSpec} {rank : Key → Nat} (h : rankedBy rules rank = true) :
    Ranked (program rules) rank := by
  intro k b he
  have hb := staticEdge_edgesOf he
  unfold specOf at hb
  cases hf : rules.find? (fun s => s.key == k) with
  | none =>
    rw [hf] at hb
    simp [edgesOf, allReqs] at hb
  | some sp =>
    rw [hf] at hb
    have hm := List.mem_of_find?_eq_some hf
    have hk : sp.key = k := by simpa using List.find?_some hf
    have := List.all_eq_true.1 (List.all_eq_true.1 h sp hm) b hb
    rw [hk] at this
    simpa using this

theorem ranked_of_acyclicAll {rules : List RuleSpec} (h : acyclicAll rules = true) :
    Ranked (program rules) (depth rules (rules.length + 1)) := ranked_of_rankedBy h

end LLBuild.Engine.DSL
