/-
C03 "database transparency": restarting the engine on its database does not change which rules the next build executes.

* `SnapSim` (Exec6RestartSim.lean): the snapshot `σ` of the engine that stayed alive against the snapshot `σ'` of a new engine
  on the database; `SnapSim.mustRun`: the reference `MustRun` is the same for both;
* `MDInv` (Exec6RestartInv.lean): the relation between memory and database; `MDInv.init`, `step_mdinv`: kept by every accepted
  event of a history in which no build fails (`ret` through its success-shaped branch, `tail` with nothing in flight);
* `MDInv.snapSim`: between builds, with current signatures, `snapOf m` and `snapOf (restart m)` are `SnapSim`;
* `C03_restart_transparent`: the three together.
-/
import LLBuild.Lemmas.Engine.Exec6RestartInv
import LLBuild.Lemmas.Engine.Run

set_option linter.unusedVariables false

namespace LLBuild.Engine

/-- **`MustRun` is the same for the engine that stayed alive and for a new engine on the database** -/
theorem SnapSim.mustRun {P : Program} {σ σ' : Snap} (h : SnapSim σ σ') (root k : Key) :
    MustRun P σ root k ↔ MustRun P σ' root k := by
  constructor
  · rintro ⟨hd, v, c, hr⟩; exact ⟨h.dem hd, v, c, h.ref hr⟩
  · rintro ⟨hd, v, c, hr⟩; exact ⟨h.dem' hd, v, c, h.ref' hr⟩

theorem MDInv.init : MDInv ({} : St) := MDInv.ofSame (fun _ => rfl) (fun _ => rfl)

/-! ## the events that change a row -/

theorem step_mdinv_scanning {P : Program} {s s' : St} {k : Key} (hi : Inv P s) (hm : MDInv s)
    (h : step P s (.scanning k) = some s') : MDInv s' := by
  simp only [step] at h
  split at h
  · cases h
    rename_i hc
    simp only [Bool.and_eq_true, beq_iff_eq] at hc
    obtain ⟨⟨⟨_, hidle⟩, _⟩, _⟩ := hc
    have hnf : inflight s k = false := not_inflight_of (by rw [hidle]; simp) (by rw [hidle]; simp)
    have hca : ∀ x, ((s.mem.setRes k { s.mem.res k with deps := (s.mem.res k).deps.filter (fun d => !d.singleUse) }).res x).computedAt
        = (s.mem.res x).computedAt := setRes_computedAt _ _ _ rfl
    refine MDInv.update (s := s) (k := k) hm (by rw [hidle]; simp) (fun k' e => upd_other _ _ _ _ e)
      (fun k' e => setRes_res_other _ _ _ _ e) (fun _ _ => rfl) rfl (hm.hca_of_eq (hca k)) ?_ ?_ ?_
    · intro _
      show RowSim ((s.mem.setRes k _).res k) (s.db.res k)
      rw [setRes_res_same]
      exact (hm.row k hnf).filter
    · intro _ d hd hoo
      show ((s.mem.setRes k _).res d.key).computedAt ≤ (s.db.res k).builtAt ∨
        ((s.mem.setRes k _).res k).builtAt < ((s.mem.setRes k _).res d.key).computedAt
      have hd' : d ∈ ((s.mem.setRes k { s.mem.res k with deps := (s.mem.res k).deps.filter (fun d => !d.singleUse) }).res k).deps := hd
      rw [setRes_res_same] at hd'
      rw [hca d.key, setRes_res_same]
      exact hm.eqv k hnf d (List.mem_filter.1 hd').1 hoo
    · intro hd
      have : upd s.status k Status.scanning k = .done := hd
      simp at this
  · cases h

theorem step_mdinv_needs {P : Program} {s s' : St} {k : Key} {reason : Nat} {input : Option Key} (hm : MDInv s)
    (h : step P s (.needs k reason input) = some s') : MDInv s' := by
  simp only [step] at h
  split at h
  · cases h
    rename_i hc
    simp only [Bool.and_eq_true, beq_iff_eq] at hc
    have hscan := hc.1
    have hnf : inflight s k = false := not_inflight_of (by rw [hscan]; simp) (by rw [hscan]; simp)
    refine MDInv.update (s := s) (k := k) hm (by rw [hscan]; simp) (fun k' e => upd_other _ _ _ _ e)
      (fun _ _ => rfl) (fun _ _ => rfl) rfl (hm.hca_of_eq rfl) (fun _ => hm.row k hnf) (fun _ => hm.eqv k hnf) ?_
    intro hd
    have : upd s.status k Status.needsRun k = .done := hd
    simp at this
  · cases h

theorem step_mdinv_upToDate {P : Program} {s s' : St} {k : Key} (hi : Inv P s) (hm : MDInv s)
    (h : step P s (.upToDate k) = some s') : MDInv s' := by
  simp only [step] at h
  split at h
  · cases h
    rename_i hc
    simp only [Bool.and_eq_true, beq_iff_eq, List.all_eq_true] at hc
    obtain ⟨⟨hscan, hv⟩, hall⟩ := hc
    have hnf : inflight s k = false := not_inflight_of (by rw [hscan]; simp) (by rw [hscan]; simp)
    have hnd : s.status k ≠ .done := by rw [hscan]; simp
    have hstarted : s.started = true := by
      cases hst : s.started
      · cases htg : s.target with
        | none => have := hi.stIdle htg k; rw [hscan] at this; cases this
        | some r => have := hi.notStarted (by rw [htg]; rfl) hst k; rw [hscan] at this; cases this
      · rfl
    have hpos := hi.startedPos hstarted
    have hb := (hi.validOk k hscan hv).2.1
    have hca : ∀ x, ((s.mem.setRes k { s.mem.res k with builtAt := s.epoch }).res x).computedAt
        = (s.mem.res x).computedAt := setRes_computedAt _ _ _ rfl
    refine MDInv.update (s := s) (k := k) hm hnd (fun k' e => upd_other _ _ _ _ e)
      (fun k' e => setRes_res_other _ _ _ _ e) (fun _ _ => rfl) rfl (hm.hca_of_eq (hca k)) ?_ ?_ ?_
    · intro _
      show RowSim ((s.mem.setRes k _).res k) (s.db.res k)
      rw [setRes_res_same]
      exact (hm.row k hnf).bump hb hpos (hi.dbE k).1
    · intro _ d hd hoo
      show ((s.mem.setRes k _).res d.key).computedAt ≤ (s.db.res k).builtAt ∨
        ((s.mem.setRes k _).res k).builtAt < ((s.mem.setRes k _).res d.key).computedAt
      have hd' : d ∈ ((s.mem.setRes k { s.mem.res k with builtAt := s.epoch }).res k).deps := hd
      rw [setRes_res_same] at hd'
      have hd'' : d ∈ (s.mem.res k).deps := hd'
      rw [hca d.key]
      have hfresh := hall d hd''
      simp only [depFresh, Bool.and_eq_true, hoo, Bool.false_or, Bool.not_eq_eq_eq_not, Bool.not_true,
        decide_eq_false_iff_not] at hfresh
      rcases hm.eqv k hnf d hd'' hoo with h1 | h1
      · exact Or.inl h1
      · exact absurd h1 hfresh.2
    · intro _
      right
      intro d hd
      have hd' : d ∈ ((s.mem.setRes k { s.mem.res k with builtAt := s.epoch }).res k).deps := hd
      rw [setRes_res_same] at hd'
      have hfresh := hall d hd'
      simp only [depFresh, Bool.and_eq_true, isDone, beq_iff_eq] at hfresh
      exact upd_done hnd hfresh.1
  · cases h

theorem step_mdinv_create {P : Program} {s s' : St} {k : Key} (hm : MDInv s)
    (h : step P s (.create k) = some s') : MDInv s' := by
  simp only [step] at h
  split at h
  · cases h
    rename_i hc
    simp only [Bool.and_eq_true, beq_iff_eq] at hc
    have hnr := hc.1
    have hca : ∀ x, ((s.mem.setRes k { s.mem.res k with deps := [] }).res x).computedAt
        = (s.mem.res x).computedAt := setRes_computedAt _ _ _ rfl
    refine MDInv.update (s := s) (k := k) hm (by rw [hnr]; simp) (fun k' e => upd_other _ _ _ _ e)
      (fun k' e => setRes_res_other _ _ _ _ e) (fun _ _ => rfl) rfl (hm.hca_of_eq (hca k)) ?_ ?_ ?_
    · intro hf; simp [inflight] at hf
    · intro hf; simp [inflight] at hf
    · intro hd
      have : upd s.status k Status.running k = .done := hd
      simp at this
  · cases h

theorem step_mdinv_inputsAvail {P : Program} {s s' : St} {k : Key} {discs : List Key} (hm : MDInv s)
    (h : step P s (.inputsAvail k discs) = some s') : MDInv s' := by
  simp only [step] at h
  split at h
  · cases h
    rename_i hc
    simp only [Bool.and_eq_true, beq_iff_eq, List.all_eq_true] at hc
    have hrun : s.status k = .running := hc.1.1.1.1
    refine MDInv.update (s := s) (k := k) hm (by rw [hrun]; simp) (fun k' e => upd_other _ _ _ _ e)
      (fun _ _ => rfl) (fun _ _ => rfl) rfl (hm.hca_of_eq rfl) ?_ ?_ ?_
    · intro hf; simp [inflight] at hf
    · intro hf; simp [inflight] at hf
    · intro hd
      have : upd s.status k Status.computing k = .done := hd
      simp at this
  · cases h

/-- the delicate case: the `computedAt` of a computing rule jumps to the epoch; a rule that records it as a dependency and
was brought up to date in this build (`builtAt = epoch`) was RUN in this build (`doneDeps`), so its database row is as new -/
theorem step_mdinv_complete {P : Program} {s s' : St} {k : Key} {v : Val} {force : Bool} (hi : Inv P s) (hm : MDInv s)
    (h : step P s (.complete k v force) = some s') : MDInv s' := by
  simp only [step] at h
  split at h
  · cases h
    rename_i hc
    simp only [Bool.and_eq_true, beq_iff_eq] at hc
    have hcomp : s.status k = .computing := hc.1.1.1.1
    have hflk : inflight s k = true := by simp [inflight, hcomp]
    have hact := hi.inflightActive k hflk
    refine MDInv.update (s := s) (k := k) hm (by rw [hcomp]; simp) (fun _ _ => rfl)
      (fun k' e => setRes_res_other _ _ _ _ e) (fun _ _ => rfl) rfl ?_ ?_ ?_ ?_
    · show ∀ k', k' ≠ k → inflight s k' = false → ∀ d ∈ (s.mem.res k').deps, d.key = k → d.orderOnly = false →
        ((s.mem.setRes k _).res k).computedAt ≤ (s.db.res k').builtAt ∨
          (s.mem.res k').builtAt < ((s.mem.setRes k _).res k).computedAt
      rw [setRes_res_same]
      split
      · -- same value, not forced: `computedAt` stays
        intro k' _ hf d hd hk hoo
        have := hm.eqv k' hf d hd hoo
        rw [hk] at this; exact this
      · -- `computedAt := epoch`
        intro k' _ hf d hd hk hoo
        show s.epoch ≤ (s.db.res k').builtAt ∨ (s.mem.res k').builtAt < s.epoch
        rcases Nat.lt_or_ge (s.mem.res k').builtAt s.epoch with h1 | h1
        · exact Or.inr h1
        · have heq : (s.mem.res k').builtAt = s.epoch := Nat.le_antisymm (hi.memE k').1 h1
          have hdn := hi.builtNow hact k' heq
          rcases hm.doneDeps k' hdn with h2 | h2
          · left; rw [h2]; exact Nat.le_refl _
          · have := h2 d hd
            rw [hk, hcomp] at this; cases this
    · intro hf
      have : inflight s k = false := hf
      rw [hflk] at this; cases this
    · intro hf
      have : inflight s k = false := hf
      rw [hflk] at this; cases this
    · intro hd
      have : s.status k = .done := hd
      rw [hcomp] at this; cases this
  · cases h

theorem step_mdinv_finished {P : Program} {s s' : St} {k : Key} {row : Res} (hi : Inv P s) (hm : MDInv s)
    (h : step P s (.finished k row) = some s') : MDInv s' := by
  simp only [step] at h
  split at h
  · cases h
    rename_i hc
    simp only [Bool.and_eq_true, beq_iff_eq] at hc
    have hcomp : s.status k = .computing := hc.1.1.1.1.1.1.1.1.1
    have hca : ∀ x, (upd s.mem.res k { s.mem.res k with builtAt := s.epoch, deps := row.deps } x).computedAt
        = (s.mem.res x).computedAt := upd_computedAt _ _ _ rfl
    refine MDInv.update (s := s) (k := k) hm (by rw [hcomp]; simp) (fun k' e => upd_other _ _ _ _ e)
      (fun k' e => upd_other _ _ _ _ e) (fun k' e => upd_other _ _ _ _ e) rfl (hm.hca_of_eq (hca k)) ?_ ?_ ?_
    · intro _
      show RowSim (upd s.mem.res k _ k) (upd s.db.res k _ k)
      rw [upd_same, upd_same]
      exact RowSim.refl _
    · intro _ d hd hoo
      left
      show (upd s.mem.res k _ d.key).computedAt ≤ (upd s.db.res k _ k).builtAt
      rw [hca d.key, upd_same]
      exact (hi.memE d.key).2
    · intro _
      left
      show (upd s.db.res k _ k).builtAt = s.epoch
      rw [upd_same]
  · cases h

/-! ## every event -/

/-- **`MDInv` is kept by every accepted event, given the monitor invariant `Inv` (`reach_inv`), except that `ret` must take
its success-shaped branch (flags down) and `tail` must find nothing in flight** (`hP`, `h2` are not used) -/
theorem step_mdinv {P : Program} {s s' : St} {e : Event} (hP : P.WF) (hi : Inv P s) (h2 : Inv2 s) (hm : MDInv s)
    (h : step P s e = some s')
    (hret : ∀ v, e = .ret v → s.cancelled = false ∧ s.cycleSeen = false ∧ s.errSeen = false)
    (htail : ∀ a b, e = .tail a b → ∀ k, inflight s k = false) : MDInv s' := by
  cases e
  case scanning k => exact step_mdinv_scanning hi hm h
  case needs k reason input => exact step_mdinv_needs hm h
  case upToDate k => exact step_mdinv_upToDate hi hm h
  case create k => exact step_mdinv_create hm h
  case inputsAvail k discs => exact step_mdinv_inputsAvail hm h
  case complete k v force => exact step_mdinv_complete hi hm h
  case finished k row => exact step_mdinv_finished hi hm h
  case buildStart k =>
    simp only [step] at h
    split at h
    · cases h
      rename_i hc
      have ht : s.target = none := by simpa using hc
      refine hm.toIdle (s := s) (fun k => ?_) (fun _ => rfl) (fun _ => rfl) (fun _ => rfl)
      exact not_inflight_of (by rw [hi.stIdle ht k]; simp) (by rw [hi.stIdle ht k]; simp)
    · cases h
  case queueCreated =>
    simp only [step] at h
    split at h
    · cases h
      rename_i hc
      simp only [Bool.and_eq_true, Bool.not_eq_eq_eq_not, Bool.not_true] at hc
      refine hm.congr (s := s) (fun _ => rfl) (fun _ => rfl) rfl (Or.inr fun k => ?_)
      rw [hi.notStarted hc.1 hc.2 k]; simp
    · cases h
  case lookup k =>
    simp only [step] at h
    split at h
    · cases h; exact hm.congr (s := s) (fun _ => rfl) (fun _ => rfl) rfl (Or.inl rfl)
    · cases h
  case dbGet k found =>
    simp only [step] at h
    split at h
    · cases h; exact hm
    · cases h
  case dbBegin => simp only [step] at h; cases h; exact hm
  case dbEnd =>
    simp only [step] at h
    split at h
    · cases h; exact hm.congr (s := s) (fun _ => rfl) (fun _ => rfl) rfl (Or.inl rfl)
    · cases h
  case valid k v b =>
    simp only [step] at h
    split at h
    · cases h; exact hm.congr (s := s) (fun _ => rfl) (fun _ => rfl) rfl (Or.inl rfl)
    · cases h
  case start k reqs =>
    simp only [step] at h
    split at h
    · cases h; exact hm.congr (s := s) (fun _ => rfl) (fun _ => rfl) rfl (Or.inl rfl)
    · cases h
  case prior k v =>
    simp only [step] at h
    split at h
    · cases h; exact hm.congr (s := s) (fun _ => rfl) (fun _ => rfl) rfl (Or.inl rfl)
    · cases h
  case provide k id key v reqs =>
    simp only [step] at h
    split at h
    · split at h
      · cases h
      · split at h
        · cases h; exact hm.congr (s := s) (fun _ => rfl) (fun _ => rfl) rfl (Or.inl rfl)
        · cases h
    · cases h
  case dbIter e =>
    simp only [step] at h
    split at h
    · cases h; exact hm.congr (s := s) (fun _ => rfl) (fun _ => rfl) rfl (Or.inl rfl)
    · cases h
  case cycle ks =>
    simp only [step] at h
    split at h
    · split at h
      · cases h; exact hm.congr (s := s) (fun _ => rfl) (fun _ => rfl) rfl (Or.inl rfl)
      · cases h
    · cases h
  case error code => simp only [step] at h; cases h; exact hm.congr (s := s) (fun _ => rfl) (fun _ => rfl) rfl (Or.inl rfl)
  case cancel => simp only [step] at h; cases h; exact hm.congr (s := s) (fun _ => rfl) (fun _ => rfl) rfl (Or.inl rfl)
  case ret v =>
    obtain ⟨hc1, hc2, hc3⟩ := hret v rfl
    simp only [step] at h
    split at h
    · cases h
    · split at h
      · cases h
      · split at h
        · cases h; exact hm.congr (s := s) (fun _ => rfl) (fun _ => rfl) rfl (Or.inl rfl)
        · split at h
          · rename_i hc
            simp [hc1, hc2, hc3] at hc
          · cases h
  case tail live late =>
    have hfl := htail live late rfl
    simp only [step] at h
    split at h
    · cases h
      refine hm.toIdle (s := s) hfl (fun k => ?_) (fun _ => rfl) (fun _ => rfl)
      show (if inflight s k then _ else _ : Res) = _
      rw [hfl k]; rfl
    · cases h
  case mutate slot val =>
    simp only [step] at h
    split at h
    · cases h; exact hm.congr (s := s) (fun _ => rfl) (fun _ => rfl) rfl (Or.inl rfl)
    · cases h
  case restart =>
    simp only [step] at h
    split at h
    · cases h; exact MDInv.ofSame (fun _ => rfl) (fun _ => rfl)
    · cases h
  case wipe =>
    simp only [step] at h
    split at h
    · cases h; exact MDInv.init
    · cases h
  case crash =>
    simp only [step] at h
    split at h
    · cases h; exact MDInv.ofSame (fun _ => rfl) (fun _ => rfl)
    · cases h

/-! ## between builds -/

/-- **between builds, with current signatures: the snapshot of the engine that stayed alive and the snapshot of a new
engine on the database simulate each other** -/
theorem MDInv.snapSim {P : Program} {m m_r : St} (hi : Inv P m) (hm : MDInv m) (hidle : m.target = none)
    (hsig : ∀ k, m.registered k = true → m.sigAt k = P.sig m.env k)
    (hr : step P m .restart = some m_r) : SnapSim (snapOf P m) (snapOf P m_r) := by
  simp only [step] at hr
  split at hr
  · cases hr
    have hnf : ∀ k, inflight m k = false := fun k =>
      not_inflight_of (by rw [hi.stIdle hidle k]; simp) (by rw [hi.stIdle hidle k]; simp)
    have hit := hi.iterEq (Or.inl hidle)
    refine ⟨rfl, ?_, ?_, ?_, ?_, ?_, ?_, ?_, ?_, ?_, ?_⟩
    · show m.epoch + 1 = m.dbIter + 1
      rw [hit]
    · funext k
      show (if m.registered k then m.sigAt k else P.sig m.env k) = P.sig m.env k
      cases hreg : m.registered k
      · simp
      · simp [hsig k hreg]
    · intro k; exact (hm.row k (hnf k)).value
    · intro k; exact (hm.row k (hnf k)).sig
    · intro k; exact (hm.row k (hnf k)).computedAt
    · intro k; exact (hm.row k (hnf k)).built0
    · intro k; exact (hm.row k (hnf k)).le
    · intro k
      show (m.mem.res k).builtAt < m.epoch + 1
      exact Nat.lt_succ_of_le (hi.memE k).1
    · intro k _; exact (hm.row k (hnf k)).deps
    · intro k _ d hd hoo
      exact hm.eqv k (hnf k) d (List.mem_filter.1 hd).1 hoo
  · rename_i hc
    rw [hidle] at hc; simp at hc

/-! ## along a history -/

/-- no build of the history failed: every `ret` found the flags down, every `tail` found nothing in flight -/
def SuccessOnly (P : Program) : St → List Event → Prop
  | _, [] => True
  | s, e :: es =>
    (∀ v, e = .ret v → s.cancelled = false ∧ s.cycleSeen = false ∧ s.errSeen = false) ∧
    (∀ a b, e = .tail a b → ∀ k, inflight s k = false) ∧
    ∀ s', step P s e = some s' → SuccessOnly P s' es

/-- `MDInv` along a history from any state in which the invariants hold (`pendingDropped` stays down along success-only
histories: stated as a hypothesis on the end state of every prefix through `hd`) -/
theorem run_mdinv {P : Program} (hP : P.WF) : ∀ (evs : List Event) (s s' : St),
    run P s evs = some s' → Inv P s → InvC P s → Inv2 s → MDInv s → SuccessOnly P s evs →
    (∀ pre post t, evs = pre ++ post → run P s pre = some t → t.pendingDropped = false) → MDInv s'
  | [], s, s', h, _, _, _, hm, _, _ => by simp only [run, Option.some.injEq] at h; subst h; exact hm
  | e :: es, s, s', h, hi, hc, h2, hm, hso, hd => by
    simp only [run] at h
    cases hs : step P s e with
    | none => rw [hs] at h; simp at h
    | some s1 =>
      rw [hs] at h
      simp only [Option.bind] at h
      have hd1 : s1.pendingDropped = false := hd [e] es s1 rfl (by simp [run, hs])
      refine run_mdinv hP es s1 s' h (step_inv hP hs hi hc hd1) (step_invC hP hs hi hc hd1) (h2.preserved hs)
        (step_mdinv hP hi h2 hm hs hso.1 hso.2.1) (hso.2.2 s1 hs) ?_
      intro pre post t hsplit hrun
      exact hd (e :: pre) post t (by rw [hsplit]; rfl) (by simp [run, hs, hrun])

/-- **C03 (database transparency)**: after a history from the empty engine in which no build failed, between builds and
with current signatures, the next build of `root` executes the same rules whether the engine stays alive or is restarted
on its database -/
theorem C03_restart_transparent {P : Program} (hP : P.WF) {evs : List Event} {m m_r : St}
    (hrun : run P {} evs = some m) (hso : SuccessOnly P {} evs)
    (hd : ∀ pre post t, evs = pre ++ post → run P {} pre = some t → t.pendingDropped = false)
    (hidle : m.target = none)
    (hsig : ∀ k, m.registered k = true → m.sigAt k = P.sig m.env k)
    (hr : step P m .restart = some m_r) (root k : Key) :
    MustRun P (snapOf P m) root k ↔ MustRun P (snapOf P m_r) root k := by
  have hm := run_mdinv hP evs {} m hrun (Inv.init P) (Inv.init P) Inv2.init MDInv.init hso hd
  have hi := reach_inv hP hrun (hd evs [] m (by simp) hrun)
  exact (hm.snapSim hi hidle hsig hr).mustRun root k

end LLBuild.Engine
